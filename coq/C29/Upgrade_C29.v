(* C29/Upgrade_C29.v — binpkg replace whose old and new tarball names differ. *)
From Coq Require Import List NArith ZArith Bool Lia.
Import ListNotations.
From Verif Require Import Base.Val C18.Fs C18.FsLemmas C29.Model_C29 C29.Spec_C29 C29.Proofs_C29 C29.Complete_C29.

(* ------------------------------------------------------------------ binpkg install next to other tarballs:
   no crash prefix of bin_install_ops changes a visible path outside the new tarball *)
Section BinOthers.
  Variable base : path.
  Notation vis := (visible bin_cat_ok bin_skip base).

  Theorem bin_install_others_untouched_proof s cat pid pf chunks cache :
    nolinks s ->
    forall k q, vis q -> is_prefix (bin_final base cat pf) q = false ->
      lookup (run (firstn k (bin_install_ops s base cat pid pf chunks cache)) s) q = lookup s q.
  Proof.
    intros Hn k q Hq Hf.
    set (ops := bin_install_ops s base cat pid pf chunks cache).
    assert (Hops : Forall (fun o => outside bin_cat_ok bin_skip base o
                                    \/ o = Rename (bin_tmp base cat pid pf) (bin_final base cat pf)) ops).
    { unfold ops, bin_install_ops. apply Forall_app. split.
      - eapply Forall_impl; [|apply bin_stage_out]. intros; now left.
      - constructor; [now right|]. eapply Forall_impl; [|apply bin_cache_out]. intros; now left. }
    pose (Inv := fun t : fs => nolinks t /\ lookup t q = lookup s q).
    assert (HI : Inv (run (firstn k ops) s)).
    { apply run_prefix_inv; [|split; [exact Hn|reflexivity]].
      eapply Forall_impl; [|exact Hops]. intros o Ho t t' [Nt Lt] E. split.
      - eapply nolinks_step; [|exact Nt|exact E]. destruct Ho as [Ho| ->]; [now apply outside_plain in Ho|exact I].
      - rewrite <- Lt. destruct Ho as [Ho| ->].
        + exact (outside_frame _ _ _ _ _ _ Nt Ho E q Hq).
        + eapply apply_op_frame; [exact E|]. cbn. intros [H|H].
          * apply is_prefix_true in H as [r ->]. revert Hq. unfold bin_tmp. rewrite <- app_assoc. cbn.
            apply invisible_skipped. apply bin_skip_tmp.
          * congruence. }
    exact (proj2 HI).
  Qed.

End BinOthers.

(* ------------------------------------------------------------------ binpkg replace (repaired code)
   replace.finalize_data = rename the new tarball in, then unlink the old one when its file name
   differs (version bump, 1.0 vs 1.0-r0).  Two names cannot be swapped atomically, so exactly one
   crash point remains at which BOTH tarballs are listed (each complete): the whole view is then
   neither the old nor the new one (known class binpkg-replace-both-listed-window), but never
   neither version and never a partial one:
     [bin_replace_partial]            old-or-new at every other crash prefix
     [bin_replace_same_name]          old-or-new at every crash prefix when the name is the same
     [bin_replace_never_neither]      the old tarball is untouched up to and including that point,
                                      the new one is final from that point on
     [bin_replace_complete]           after completion: new listed in full, old not listed
     [bin_replace_refuted]            the window is real *)
Section BinReplace.
  Variable base : path.
  Notation vis := (visible bin_cat_ok bin_skip base).
  Notation out := (outside bin_cat_ok bin_skip base).

  Lemma unlink_old_plain s cat old pf : Forall plain (bin_unlink_old s base cat old pf).
  Proof. unfold bin_unlink_old. destruct (path_eq_dec _ _); [constructor|]. destruct (bound _ _); repeat constructor. Qed.
  Lemma unlink_old_names s cat old pf :
    Forall (names_only (bin_final base cat old)) (bin_unlink_old s base cat old pf).
  Proof. unfold bin_unlink_old. destruct (path_eq_dec _ _); [constructor|]. destruct (bound _ _); repeat constructor. Qed.

  Theorem bin_replace_partial_proof s cat pid old pf chunks cache :
    nolinks s ->
    crash_consistent_outside bin_cat_ok bin_skip false base
      (bin_replace_lo s base cat pid pf chunks) (bin_replace_hi s base cat pid old pf chunks)
      (bin_replace_ops s base cat pid old pf chunks cache) s.
  Proof.
    intro Hn. unfold bin_replace_ops, bin_replace_hi, bin_replace_lo.
    replace (length (bin_stage s base cat pid pf chunks) + 1 + length (bin_unlink_old s base cat old pf))
      with (length (bin_stage s base cat pid pf chunks)
            + length (Rename (bin_tmp base cat pid pf) (bin_final base cat pf) :: bin_unlink_old s base cat old pf))
      by (cbn; lia).
    apply (window bin_cat_ok bin_skip false base); auto.
    - apply bin_stage_out.
    - constructor; [exact I|apply unlink_old_plain].
    - apply bin_cache_out.
  Qed.

  Theorem bin_replace_same_name_proof s cat pid old pf chunks cache :
    nolinks s -> bin_final base cat old = bin_final base cat pf ->
    bin_consistent base (bin_replace_ops s base cat pid old pf chunks cache) s.
  Proof.
    intros Hn E k. apply (bin_replace_partial_proof s cat pid old pf chunks cache Hn k).
    unfold bin_replace_hi, bin_unlink_old. destruct (path_eq_dec _ _); [|contradiction]. cbn. lia.
  Qed.

  Lemma old_not_under_final cat old pf :
    old ++ TBZ2 <> pf ++ TBZ2 -> is_prefix (bin_final base cat pf) (bin_final base cat old) = false.
  Proof.
    intro Hne. destruct (is_prefix _ _) eqn:E; [|reflexivity]. exfalso. apply is_prefix_true in E as [r E].
    unfold bin_final in E. rewrite <- app_assoc in E. apply app_inv_head in E. cbn in E.
    injection E as E _. apply Hne. exact E.
  Qed.

  Theorem bin_replace_never_neither_proof s cat pid old pf chunks cache :
    nolinks s -> bin_cat_ok cat = true -> bin_skip (old ++ TBZ2) = false -> bin_skip (pf ++ TBZ2) = false ->
    old ++ TBZ2 <> pf ++ TBZ2 ->
    let ops := bin_replace_ops s base cat pid old pf chunks cache in
    let p := bin_replace_lo s base cat pid pf chunks + 1 in
    forall k,
      (k <= p -> lookup (run (firstn k ops) s) (bin_final base cat old) = lookup s (bin_final base cat old))
      /\ (p <= k -> lookup (run (firstn k ops) s) (bin_final base cat pf) = lookup (run ops s) (bin_final base cat pf)).
  Proof.
    intros Hn Hc Hso Hsn Hne ops p k.
    set (A := bin_stage s base cat pid pf chunks ++ [Rename (bin_tmp base cat pid pf) (bin_final base cat pf)]).
    set (B := bin_unlink_old s base cat old pf ++ bin_cache s base cache).
    assert (Eops : ops = A ++ B).
    { unfold ops, bin_replace_ops, A, B. rewrite <- !app_assoc. reflexivity. }
    assert (LA : length A = p).
    { unfold A, p, bin_replace_lo. rewrite app_length. reflexivity. }
    assert (Vold : vis (bin_final base cat old)) by (exists cat, (old ++ TBZ2), []; auto).
    assert (Vnew : vis (bin_final base cat pf)) by (exists cat, (pf ++ TBZ2), []; auto).
    split; intro Hk.
    - (* the prefix is a prefix of the install op list *)
      assert (E : firstn k ops = firstn k (bin_install_ops s base cat pid pf chunks cache)).
      { rewrite Eops. unfold bin_install_ops. fold A. rewrite (app_assoc _ [_] _). fold A.
        rewrite !firstn_app. replace (k - length A) with 0 by lia. reflexivity. }
      rewrite E. apply bin_install_others_untouched_proof; auto. now apply old_not_under_final.
    - (* from the rename on nothing touches the new tarball *)
      assert (HB : forall X t, Forall (fun o => out o \/ names_only (bin_final base cat old) o) X -> nolinks t ->
                   lookup (run X t) (bin_final base cat pf) = lookup t (bin_final base cat pf)).
      { induction X as [|o X IH]; intros t HX Nt; [reflexivity|]. cbn.
        destruct (apply_op t o) as [t'|] eqn:Eo; [|reflexivity].
        inversion HX as [|? ? Ho HX']; subst.
        assert (Nt' : nolinks t').
        { eapply nolinks_step; [|exact Nt|exact Eo]. destruct Ho as [Ho|Ho]; [now apply outside_plain in Ho|eapply names_only_plain; eauto]. }
        rewrite IH by auto. destruct Ho as [Ho|Ho].
        - exact (outside_frame _ _ _ _ _ _ Nt Ho Eo _ Vnew).
        - eapply names_only_frame; eauto. intro E. apply Hne. unfold bin_final in E.
          apply app_inv_head in E. injection E as E. now symmetry. }
      assert (FB : Forall (fun o => out o \/ names_only (bin_final base cat old) o) B).
      { unfold B. apply Forall_app. split.
        - eapply Forall_impl; [|apply unlink_old_names]. intros; now right.
        - eapply Forall_impl; [|apply bin_cache_out]. intros; now left. }
      rewrite Eops. rewrite firstn_app, firstn_all2 by lia. rewrite !run_app.
      destruct (run_opt A s) as [t|] eqn:EA; [|reflexivity].
      assert (Nt : nolinks t).
      { eapply nolinks_run_opt; [|exact Hn|exact EA]. unfold A. apply Forall_app. split; [|repeat constructor].
        eapply Forall_impl; [apply outside_plain|apply bin_stage_out]. }
      rewrite (HB _ t (Forall_firstn _ _ _ FB) Nt), (HB _ t FB Nt). reflexivity.
  Qed.

  Theorem bin_replace_complete_proof s cat pid old pf chunks cache s' :
    nolinks s -> bin_cat_ok cat = true -> bin_skip (old ++ TBZ2) = false -> bin_skip (pf ++ TBZ2) = false ->
    old ++ TBZ2 <> pf ++ TBZ2 ->
    run_opt (bin_replace_ops s base cat pid old pf chunks cache) s = Some s' ->
    listed bin_cat_ok bin_skip false base s' cat (pf ++ TBZ2) = true
    /\ content base s' cat (pf ++ TBZ2) [] = Some (concat chunks)
    /\ listed bin_cat_ok bin_skip false base s' cat (old ++ TBZ2) = false.
  Proof.
    intros Hn Hc Hso Hsn Hne H.
    set (A := bin_stage s base cat pid pf chunks ++ [Rename (bin_tmp base cat pid pf) (bin_final base cat pf)]).
    unfold bin_replace_ops in H. change (Rename ?a ?b :: ?l) with ([Rename a b] ++ l) in H.
    rewrite <- app_assoc in H. rewrite (app_assoc _ [_] _) in H. fold A in H.
    rewrite run_opt_app in H. destruct (run_opt A s) as [t2|] eqn:EA; [|discriminate].
    destruct (bin_commit_state _ _ _ _ _ _ _ Hn EA) as [N2 R2].
    rewrite run_opt_app in H. destruct (run_opt (bin_unlink_old s base cat old pf) t2) as [t3|] eqn:EU; [|discriminate].
    assert (N3 : nolinks t3) by (eapply nolinks_run_opt; [apply unlink_old_plain|exact N2|exact EU]).
    pose proof (outside_run _ _ _ _ (bin_cache_out base s cache) t3 N3) as Ag.
    rewrite (run_opt_run _ _ _ H) in Ag.
    assert (Vold : visible bin_cat_ok bin_skip base (bin_final base cat old)) by (exists cat, (old ++ TBZ2), []; auto).
    assert (Vnew : visible bin_cat_ok bin_skip base (bin_final base cat pf)) by (exists cat, (pf ++ TBZ2), []; auto).
    assert (Hdiff : bin_final base cat pf <> bin_final base cat old).
    { intro E. apply Hne. unfold bin_final in E. apply app_inv_head in E. injection E as E. now symmetry. }
    (* new *)
    assert (Lnew : lookup s' (bin_final base cat pf) = lookup t2 (bin_final base cat pf)).
    { rewrite (Ag _ Vnew). eapply names_only_run; [apply unlink_old_names|exact N2|exact EU|exact Hdiff]. }
    (* old *)
    assert (Lold : match lookup s' (bin_final base cat old) with Some n => is_file_node n = false | None => True end).
    { rewrite (Ag _ Vold). unfold bin_unlink_old in EU.
      destruct (path_eq_dec (bin_final base cat old) (bin_final base cat pf)) as [E|_]; [now symmetry in E|].
      destruct (bound s (bin_final base cat old)) eqn:Eb.
      - cbn in EU. destruct (lookup t2 (bin_final base cat old)) as [n|]; [|discriminate].
        destruct (is_dir_node n); [discriminate|]. injection EU as <-. now rewrite lookup_remove_same.
      - cbn in EU. injection EU as <-.
        assert (L2 : lookup t2 (bin_final base cat old) = lookup s (bin_final base cat old)).
        { pose proof (bin_install_others_untouched_proof base s cat pid pf chunks [] Hn
                        (length A) _ Vold (old_not_under_final cat old pf Hne)) as U.
          unfold bin_install_ops in U. rewrite (app_assoc _ [_] _) in U. fold A in U.
          rewrite firstn_app, firstn_all, Nat.sub_diag in U. cbn [firstn] in U. rewrite app_nil_r in U.
          now rewrite (run_opt_run _ _ _ EA) in U. }
        rewrite L2. unfold bound in Eb. destruct (lookup s (bin_final base cat old)); [discriminate|exact I]. }
    apply read_file_node in R2 as (m & u & g & ti & i & R2).
    repeat split.
    - unfold listed. rewrite Hc, Hsn. change (base ++ [cat; pf ++ TBZ2]) with (bin_final base cat pf).
      rewrite Lnew, R2. reflexivity.
    - unfold content, read_file. change (base ++ [cat; pf ++ TBZ2]) with (bin_final base cat pf). now rewrite Lnew, R2.
    - unfold listed. rewrite Hc, Hso. change (base ++ [cat; old ++ TBZ2]) with (bin_final base cat old).
      cbn. destruct (lookup s' (bin_final base cat old)) as [n|]; [exact Lold|reflexivity].
  Qed.
End BinReplace.

(* the window is real *)
Definition bin_replace_full : Prop :=
  forall base s cat pid old pf chunks cache,
    nolinks s -> bin_consistent base (bin_replace_ops s base cat pid old pf chunks cache) s.

Module BEx.
  Definition b : str := s2l "b"%bs.
  Definition c : str := s2l "c"%bs.
  Definition pid : str := s2l "7"%bs.
  Definition p1 : str := s2l "p-1"%bs.
  Definition p2 : str := s2l "p-2"%bs.
  Definition s0 : fs :=
    [([b], Dir 493 0 0 5); ([b; c], Dir 493 0 0 5); ([b; c; p1 ++ TBZ2], File [1; 2]%N 420 0 0 5 1)].
  Definition ops := bin_replace_ops s0 [b] c pid p1 p2 [[3]%N; [4; 5]%N] [[6]%N].
  Lemma s0_nolinks : nolinks s0.
  Proof.
    intros p q n m i H1 H2 I1 I2. cbn in H1, H2.
    repeat (destruct H1 as [H1|H1]; [injection H1 as <- <-|]); try contradiction;
      repeat (destruct H2 as [H2|H2]; [injection H2 as <- <-|]); try contradiction;
      cbn in I1, I2; congruence.
  Qed.
End BEx.

Example bin_replace_example :
  (exists t, run_opt BEx.ops BEx.s0 = Some t)
  /\ bin_replace_lo BEx.s0 [BEx.b] BEx.c BEx.pid BEx.p2 [[3]%N; [4; 5]%N] = 4
  /\ bin_replace_hi BEx.s0 [BEx.b] BEx.c BEx.pid BEx.p1 BEx.p2 [[3]%N; [4; 5]%N] = 6
  /\ bin_view (run BEx.ops BEx.s0) [BEx.b] = VL [VL [VS BEx.c; VS BEx.p2; VS [3; 4; 5]%N]]
  /\ bin_view (run (firstn 5 BEx.ops) BEx.s0) [BEx.b]
     = VL [VL [VS BEx.c; VS BEx.p1; VS [1; 2]%N]; VL [VS BEx.c; VS BEx.p2; VS [3; 4; 5]%N]].
Proof. repeat split; try (eexists; vm_compute; reflexivity); vm_compute; reflexivity. Qed.

Theorem bin_replace_refuted_proof : ~ bin_replace_full.
Proof.
  intro H.
  specialize (H [BEx.b] BEx.s0 BEx.c BEx.pid BEx.p1 BEx.p2 [[3]%N; [4; 5]%N] [[6]%N] BEx.s0_nolinks 5).
  destruct H as [E|E].
  - destruct (E BEx.c (BEx.p2 ++ TBZ2)) as [E1 _]. vm_compute in E1. discriminate.
  - destruct (E BEx.c (BEx.p1 ++ TBZ2)) as [E1 _]. vm_compute in E1. discriminate.
Qed.
