From Coq Require Import List NArith ZArith Bool.
From Verif Require Import Base.Val C10.Model_C10 C10.Spec_C10.
Import ListNotations.

Definition cases : list ((fcs_input) * val) := 
[
  (([(Cond false 0%N [(Cond false 1%N [(Flag false false [2%N])])])], ([0%N; 1%N; 2%N; 5%N], [0%N], (@nil (N)), [0%N; 1%N; 2%N])),
   (sols_val true 39 [1; 5; 7; 33; 37; 39]%N));
  (([(Cond false 0%N [(Cond false 1%N [(Flag false false [2%N])])])], ([0%N; 1%N; 2%N; 5%N], (@nil (N)), [0%N], [5%N])),
   (sols_val true 39 [0; 2; 4; 6; 32; 34; 36; 38]%N));
  (([(Grp KOr false [(Flag false false [0%N]); (Grp KAnd false [(Flag false false [1%N]); (Flag false false [2%N])])])], ([0%N; 1%N; 2%N], (@nil (N)), (@nil (N)), (@nil (N)))),
   (sols_val false 7 [1; 3; 5; 6; 7]%N));
  (([(Grp KOr false [(Flag false false [0%N]); (Grp KAnd false [(Flag false false [1%N]); (Flag false false [2%N])])])], ([0%N; 1%N; 2%N], [0%N], (@nil (N)), [0%N; 1%N; 2%N])),
   (sols_val true 7 [1; 3; 5; 7]%N));
  (([(Grp KOr false [(Flag false false [0%N]); (Grp KAnd false [(Flag false false [1%N]); (Flag false false [2%N])])])], ([0%N; 1%N; 2%N], (@nil (N)), [0%N], [5%N])),
   (sols_val false 7 [6]%N));
  (([(Grp KOr false [(Flag false false [0%N]); (Grp KAnd false [(Flag false false [1%N]); (Flag false false [2%N])])])], ([0%N], (@nil (N)), (@nil (N)), (@nil (N)))),
   (sols_val false 7 [1]%N));
  (([(Grp KOr false [(Flag false false [0%N]); (Grp KAnd false [(Flag false false [1%N]); (Flag false false [2%N])])])], ([0%N], [0%N], (@nil (N)), [0%N; 1%N; 2%N])),
   (sols_val true 7 [1]%N));
  (([(Grp KOr false [(Flag false false [0%N]); (Grp KAnd false [(Flag false false [1%N]); (Flag false false [2%N])])])], ([0%N], (@nil (N)), [0%N], [5%N])),
   (sols_val false 0 nil));
  (([(Grp KOr false [(Flag false false [0%N]); (Grp KAnd false [(Flag false false [1%N]); (Flag false false [2%N])])])], ([0%N; 1%N; 2%N; 5%N], (@nil (N)), (@nil (N)), (@nil (N)))),
   (sols_val false 39 [1; 3; 5; 6; 7; 33; 35; 37; 38; 39]%N));
  (([(Grp KOr false [(Flag false false [0%N]); (Grp KAnd false [(Flag false false [1%N]); (Flag false false [2%N])])])], ([0%N; 1%N; 2%N; 5%N], [0%N], (@nil (N)), [0%N; 1%N; 2%N])),
   (sols_val true 39 [1; 3; 5; 7; 33; 35; 37; 39]%N));
  (([(Grp KOr false [(Flag false false [0%N]); (Grp KAnd false [(Flag false false [1%N]); (Flag false false [2%N])])])], ([0%N; 1%N; 2%N; 5%N], (@nil (N)), [0%N], [5%N])),
   (sols_val false 39 [6; 38]%N));
  (([(Grp KOne false [(Flag false false [0%N]); (Grp KAnd false [(Flag false false [1%N]); (Flag true false [2%N])])])], ([0%N; 1%N; 2%N], (@nil (N)), (@nil (N)), (@nil (N)))),
   (sols_val false 7 [1; 2; 5; 7]%N));
  (([(Grp KOne false [(Flag false false [0%N]); (Grp KAnd false [(Flag false false [1%N]); (Flag true false [2%N])])])], ([0%N; 1%N; 2%N], [0%N], (@nil (N)), [0%N; 1%N; 2%N])),
   (sols_val true 7 [1; 5; 7]%N));
  (([(Grp KOne false [(Flag false false [0%N]); (Grp KAnd false [(Flag false false [1%N]); (Flag true false [2%N])])])], ([0%N; 1%N; 2%N], (@nil (N)), [0%N], [5%N])),
   (sols_val false 7 [2]%N));
  (([(Grp KOne false [(Flag false false [0%N]); (Grp KAnd false [(Flag false false [1%N]); (Flag true false [2%N])])])], ([0%N], (@nil (N)), (@nil (N)), (@nil (N)))),
   (sols_val false 7 [1]%N));
  (([(Grp KOne false [(Flag false false [0%N]); (Grp KAnd false [(Flag false false [1%N]); (Flag true false [2%N])])])], ([0%N], [0%N], (@nil (N)), [0%N; 1%N; 2%N])),
   (sols_val true 7 [1]%N));
  (([(Grp KOne false [(Flag false false [0%N]); (Grp KAnd false [(Flag false false [1%N]); (Flag true false [2%N])])])], ([0%N], (@nil (N)), [0%N], [5%N])),
   (sols_val false 0 nil));
  (([(Grp KOne false [(Flag false false [0%N]); (Grp KAnd false [(Flag false false [1%N]); (Flag true false [2%N])])])], ([0%N; 1%N; 2%N; 5%N], (@nil (N)), (@nil (N)), (@nil (N)))),
   (sols_val false 39 [1; 2; 5; 7; 33; 34; 37; 39]%N));
  (([(Grp KOne false [(Flag false false [0%N]); (Grp KAnd false [(Flag false false [1%N]); (Flag true false [2%N])])])], ([0%N; 1%N; 2%N; 5%N], [0%N], (@nil (N)), [0%N; 1%N; 2%N])),
   (sols_val true 39 [1; 5; 7; 33; 37; 39]%N));
  (([(Grp KOne false [(Flag false false [0%N]); (Grp KAnd false [(Flag false false [1%N]); (Flag true false [2%N])])])], ([0%N; 1%N; 2%N; 5%N], (@nil (N)), [0%N], [5%N])),
   (sols_val false 39 [2; 34]%N));
  (([(Cond false 0%N [(Grp KOr false [(Flag false false [1%N]); (Flag false false [2%N])])]); (Grp KAmo false [(Flag false false [0%N]); (Flag false false [2%N])])], ([0%N; 1%N; 2%N], (@nil (N)), (@nil (N)), (@nil (N)))),
   (sols_val true 7 [0; 2; 3; 4; 6]%N));
  (([(Cond false 0%N [(Grp KOr false [(Flag false false [1%N]); (Flag false false [2%N])])]); (Grp KAmo false [(Flag false false [0%N]); (Flag false false [2%N])])], ([0%N; 1%N; 2%N], [0%N], (@nil (N)), [0%N; 1%N; 2%N])),
   (sols_val false 7 [3]%N));
  (([(Cond false 0%N [(Grp KOr false [(Flag false false [1%N]); (Flag false false [2%N])])]); (Grp KAmo false [(Flag false false [0%N]); (Flag false false [2%N])])], ([0%N; 1%N; 2%N], (@nil (N)), [0%N], [5%N])),
   (sols_val true 7 [0; 2; 4; 6]%N));
  (([(Cond false 0%N [(Grp KOr false [(Flag false false [1%N]); (Flag false false [2%N])])]); (Grp KAmo false [(Flag false false [0%N]); (Flag false false [2%N])])], ([0%N], (@nil (N)), (@nil (N)), (@nil (N)))),
   (sols_val true 7 [0]%N));
  (([(Cond false 0%N [(Grp KOr false [(Flag false false [1%N]); (Flag false false [2%N])])]); (Grp KAmo false [(Flag false false [0%N]); (Flag false false [2%N])])], ([0%N], [0%N], (@nil (N)), [0%N; 1%N; 2%N])),
   (sols_val false 0 nil));
  (([(Cond false 0%N [(Grp KOr false [(Flag false false [1%N]); (Flag false false [2%N])])]); (Grp KAmo false [(Flag false false [0%N]); (Flag false false [2%N])])], ([0%N], (@nil (N)), [0%N], [5%N])),
   (sols_val true 7 [0]%N));
  (([(Cond false 0%N [(Grp KOr false [(Flag false false [1%N]); (Flag false false [2%N])])]); (Grp KAmo false [(Flag false false [0%N]); (Flag false false [2%N])])], ([0%N; 1%N; 2%N; 5%N], (@nil (N)), (@nil (N)), (@nil (N)))),
   (sols_val true 39 [0; 2; 3; 4; 6; 32; 34; 35; 36; 38]%N));
  (([(Cond false 0%N [(Grp KOr false [(Flag false false [1%N]); (Flag false false [2%N])])]); (Grp KAmo false [(Flag false false [0%N]); (Flag false false [2%N])])], ([0%N; 1%N; 2%N; 5%N], [0%N], (@nil (N)), [0%N; 1%N; 2%N])),
   (sols_val false 39 [3; 35]%N));
  (([(Cond false 0%N [(Grp KOr false [(Flag false false [1%N]); (Flag false false [2%N])])]); (Grp KAmo false [(Flag false false [0%N]); (Flag false false [2%N])])], ([0%N; 1%N; 2%N; 5%N], (@nil (N)), [0%N], [5%N])),
   (sols_val true 39 [0; 2; 4; 6; 32; 34; 36; 38]%N));
  (((@nil (ru)), ((@nil (N)), (@nil (N)), (@nil (N)), (@nil (N)))),
   (sols_val true 0 [0]%N));
  (((@nil (ru)), ((@nil (N)), (@nil (N)), (@nil (N)), (@nil (N)))),
   (sols_val true 0 [0]%N));
  (((@nil (ru)), ((@nil (N)), (@nil (N)), (@nil (N)), [5%N])),
   (sols_val true 0 [0]%N));
  (((@nil (ru)), ((@nil (N)), (@nil (N)), (@nil (N)), (@nil (N)))),
   (sols_val true 0 [0]%N));
  (((@nil (ru)), ((@nil (N)), (@nil (N)), (@nil (N)), (@nil (N)))),
   (sols_val true 0 [0]%N));
  (((@nil (ru)), ((@nil (N)), (@nil (N)), (@nil (N)), [5%N])),
   (sols_val true 0 [0]%N));
  (((@nil (ru)), ([5%N], (@nil (N)), (@nil (N)), (@nil (N)))),
   (sols_val true 32 [0; 32]%N));
  (((@nil (ru)), ([5%N], (@nil (N)), (@nil (N)), (@nil (N)))),
   (sols_val true 32 [0; 32]%N));
  (((@nil (ru)), ([5%N], (@nil (N)), (@nil (N)), [5%N])),
   (sols_val true 32 [0; 32]%N));
  (([(Flag false false [0%N]); (Flag false false [0%N])], ([0%N; 5%N], (@nil (N)), (@nil (N)), [0%N])),
   (sols_val true 33 [1; 33]%N));
  (([(Flag true false [0%N])], ([0%N], (@nil (N)), (@nil (N)), (@nil (N)))),
   (sols_val true 1 [0]%N));
  (([(Grp KOr false (@nil (ru))); (Grp KAnd false [(Flag false false [0%N]); (Flag false true [0%N]); (Flag false false [0%N])])], ((@nil (N)), (@nil (N)), (@nil (N)), [5%N])),
   (VErr [86;97;108;117;101;69;114;114;111;114]%N));
  (([(Flag false false (@nil (N)))], ((@nil (N)), (@nil (N)), (@nil (N)), (@nil (N)))),
   (sols_val true 0 [0]%N));
  (([(Cond true 1%N [(Flag false false [3%N]); (Grp KOr false [(Flag true true [2%N])])])], ([1%N; 2%N], (@nil (N)), (@nil (N)), [2%N])),
   (VErr [65;115;115;101;114;116;105;111;110;69;114;114;111;114]%N));
  (([(Grp KAnd false (@nil (ru))); (Grp KAmo false (@nil (ru)))], ((@nil (N)), (@nil (N)), (@nil (N)), (@nil (N)))),
   (VErr [86;97;108;117;101;69;114;114;111;114]%N));
  (([(Grp KOr false [(Flag false false [1%N]); (Flag false false [1%N])]); (Grp KAnd false [(Flag true false [1%N; 2%N]); (Grp KAnd false [(Grp KOr false [(Flag true false (@nil (N))); (Flag false false [1%N; 2%N])]); (Grp KAnd true [(Flag false false [1%N])])])])], ([2%N; 5%N], (@nil (N)), [5%N], [1%N])),
   (VErr [65;115;115;101;114;116;105;111;110;69;114;114;111;114]%N));
  (([(Flag true false [1%N; 2%N]); (Flag false false [0%N; 2%N])], ([1%N; 2%N; 5%N], [1%N], (@nil (N)), [1%N; 2%N; 5%N])),
   (sols_val false 0 nil));
  (([(Flag false false [0%N; 1%N])], ([0%N; 1%N; 5%N], (@nil (N)), [5%N], (@nil (N)))),
   (sols_val false 35 [1; 2; 3]%N));
  (([(Cond false 2%N [(Flag false false [0%N; 2%N]); (Flag false false [1%N]); (Flag true false (@nil (N)))])], ([1%N; 2%N], [5%N], (@nil (N)), [1%N])),
   (sols_val true 7 [0; 2; 6]%N));
  (([(Grp KAnd false [(Cond true 1%N (@nil (ru))); (Grp KAnd false [(Flag false false [0%N; 1%N]); (Flag false false [1%N; 2%N]); (Flag false false [0%N; 1%N])])]); (Flag false true [0%N; 2%N])], ([0%N; 2%N; 5%N], [2%N], [5%N], [5%N])),
   (VErr [65;115;115;101;114;116;105;111;110;69;114;114;111;114]%N));
  (([(Flag false false [0%N])], ([5%N], (@nil (N)), (@nil (N)), (@nil (N)))),
   (sols_val false 0 nil));
  (([(Grp KAnd false (@nil (ru)))], ((@nil (N)), (@nil (N)), (@nil (N)), [5%N])),
   (sols_val true 0 [0]%N));
  (([(Flag false false [0%N]); (Grp KAnd false [(Cond false 2%N [(Flag false false [1%N])]); (Flag false false [1%N])])], ([0%N; 5%N], [1%N], (@nil (N)), [2%N])),
   (sols_val false 0 nil));
  (([(Flag false false [1%N])], ([1%N; 5%N], (@nil (N)), (@nil (N)), (@nil (N)))),
   (sols_val false 34 [2; 34]%N));
  (([(Grp KOr false (@nil (ru))); (Cond true 0%N [(Flag true false [2%N])])], ([0%N; 2%N], [0%N], (@nil (N)), [2%N])),
   (VErr [86;97;108;117;101;69;114;114;111;114]%N));
  (([(Grp KAmo false [(Flag false false (@nil (N)))])], ((@nil (N)), [5%N], (@nil (N)), (@nil (N)))),
   (sols_val true 0 [0]%N));
  (([(Grp KAmo false (@nil (ru))); (Flag false true (@nil (N)))], ([5%N], (@nil (N)), (@nil (N)), [5%N])),
   (VErr [86;97;108;117;101;69;114;114;111;114]%N));
  (([(Cond true 0%N [(Flag false false (@nil (N)))]); (Flag true false [0%N])], ([0%N; 5%N], (@nil (N)), (@nil (N)), (@nil (N)))),
   (sols_val false 0 nil));
  (([(Cond false 0%N [(Flag false false (@nil (N)))])], ([5%N], (@nil (N)), (@nil (N)), (@nil (N)))),
   (sols_val true 33 [0; 32]%N));
  (([(Flag false false (@nil (N))); (Flag false false (@nil (N)))], ((@nil (N)), (@nil (N)), (@nil (N)), (@nil (N)))),
   (sols_val true 0 [0]%N));
  (([(Cond false 0%N (@nil (ru)))], ([0%N; 5%N], [0%N], (@nil (N)), [0%N])),
   (sols_val true 33 [1; 33]%N))
].
Eval vm_compute in (mismatches run_fcs cases).
Eval vm_compute in (where_ (fun i r => negb (spec_fcs_ok i r)) cases).
