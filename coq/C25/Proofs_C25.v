(* Proofs_C25.v — lemmas and proofs for C25. *)
From Coq Require Import List NArith ZArith Bool Arith Lia Permutation.
Import ListNotations.
From Verif Require Import Base.Val C25.Path_C25 C25.Model_C25 C25.Spec_C25.

Theorem empty_archive_proof : of_members [] = Ok [].
Proof. reflexivity. Qed.
