(* C29/Spec_C29.v — the statement: at every crash point of an update a fresh view of the
   repository is the old view or the new view.

   The view is defined directly on the filesystem, pointwise, without enumerating anything:
   which (category, name) pairs a fresh repository object lists, and for a listed one the bytes
   of every file of it.  "Old or new" is stated for the WHOLE view (all packages at once), so a
   state in which the old version is gone and the new one not yet there is neither. *)
From Coq Require Import List NArith ZArith Bool.
Import ListNotations.
From Verif Require Import Base.Val C18.Fs C29.Model_C29.

Section View.
  (* repository flavour: which category names count, which entries of a category are skipped,
     and whether a package is a directory (vdb) or a file (binpkg) *)
  Variable cat_ok : str -> bool.
  Variable skip : str -> bool.
  Variable as_dir : bool.
  Variable loc : path.

  Definition node_listed (o : option node) : bool :=
    match o with
    | Some n => if as_dir then is_dir_node n else is_file_node n
    | None => false
    end.
  (* a fresh scan lists entry x of category c *)
  Definition listed (s : fs) (c x : str) : bool :=
    cat_ok c && negb (skip x) && node_listed (lookup s (loc ++ [c; x])).
  (* what a metadata read of file f of that package returns (vdb); for binpkg the package IS
     the file and rest = [] *)
  Definition content (s : fs) (c x : str) (rest : path) : option (list N) :=
    read_file s (loc ++ c :: x :: rest).
  Definition view_eq (a b : fs) : Prop :=
    forall c x, listed a c x = listed b c x
                /\ (listed a c x = true -> forall rest, content a c x rest = content b c x rest).

  (* the part of the tree a view depends on *)
  Definition visible (q : path) : Prop :=
    exists c x rest, q = loc ++ c :: x :: rest /\ cat_ok c = true /\ skip x = false.

  (* THE STATEMENT for one update (op list [ops] started in [s]) *)
  Definition crash_consistent (ops : list op) (s : fs) : Prop :=
    forall k, view_eq (run (firstn k ops) s) s \/ view_eq (run (firstn k ops) s) (run ops s).
  (* ... restricted to the crash points outside the open window (lo, hi) *)
  Definition crash_consistent_outside (lo hi : nat) (ops : list op) (s : fs) : Prop :=
    forall k, k <= lo \/ hi <= k ->
              view_eq (run (firstn k ops) s) s \/ view_eq (run (firstn k ops) s) (run ops s).
End View.

Definition vdb_view_eq := view_eq vdb_cat_ok vdb_skip true.
Definition bin_view_eq := view_eq bin_cat_ok bin_skip false.
Definition vdb_consistent := crash_consistent vdb_cat_ok vdb_skip true.
Definition bin_consistent := crash_consistent bin_cat_ok bin_skip false.
Definition vdb_consistent_outside := crash_consistent_outside vdb_cat_ok vdb_skip true.

(* no file of the tree has a second name (hard link); repositories never contain any *)
Definition nolinks (s : fs) : Prop :=
  forall p q n m i, In (p, n) s -> In (q, m) s -> ino_of n = Some i -> ino_of m = Some i -> p = q.

(* "complete": the package is listed and every staged file can be read back in full *)
Definition item_name (it : item) : str := match it with W n _ => n | WC _ => CONTENTS end.
Definition item_data (it : item) : list N := match it with W _ ch | WC ch => concat ch end.
Definition vdb_complete (s : fs) (loc : path) (cat pf : str) (items : list item) : Prop :=
  listed vdb_cat_ok vdb_skip true loc s cat pf = true
  /\ forall it, In it items -> content loc s cat pf [item_name it] = Some (item_data it).

(* (B) on the implementation's recorded views: the view observed after a crash is the view
   observed before the operation or the one observed after its completion *)
Definition spec_view_ok (old new r : val) : bool := view_eqb r old || view_eqb r new.
Definition spec_bad (p : probe) (r : val) : bool :=
  match p with
  | PView _ _ old new => negb (spec_view_ok old new r)
  | _ => false
  end.
(* the completed vdb package has every key the check reads *)
Fixpoint no_missing (v : val) : bool :=
  match v with
  | VNone => false
  | VErr _ => false
  | VL l => (fix go (l : list val) := match l with [] => true | x :: r => no_missing x && go r end) l
  | _ => true
  end.

(* the hypotheses of Complete_C29.vdb_install_complete as a boolean the harness evaluates on
   every vdb install scenario (stream probe, eval hyps_bad): category and name are listable, item
   names are distinct and none is .update.CONTENTS, nothing is bound at or below the package
   directory, a stale staging entry is a directory, and the items cover the 13 keys *)
Definition install_hyps_ok (c : scen) : bool :=
  let names := map item_name (sc_items c) in
  let dst := pkgdir (sc_loc c) (sc_cat c) (sc_pf c) in
  vdb_cat_ok (sc_cat c) && negb (vdb_skip (sc_pf c))
  && nodupb str_eqb names && negb (existsb (str_eqb (UPDATE ++ CONTENTS)) names)
  && forallb (fun e => negb (is_prefix dst (fst e))) (sc_fs c)
  && match lookup (sc_fs c) (tmpdir (sc_loc c) (sc_cat c) (sc_pf c)) with Some n => is_dir_node n | None => true end
  && forallb (fun k => existsb (str_eqb (fst k)) names) (vdb_keys (sc_pf c)).
Definition hyps_bad (p : probe) (r : val) : bool :=
  match p with
  | POps c _ => match sc_kind c with KVInstall => negb (install_hyps_ok c) | _ => false end
  | _ => false
  end.

