(* C29/Prop_C29.v — the property theorems, closed here so that a statement cannot be weakened
   silently.  Nothing but statements and Print Assumptions. *)
From Coq Require Import List NArith ZArith Bool.
Import ListNotations.
From Verif Require Import Base.Val C18.Fs C29.Model_C29 C29.Spec_C29 C29.Proofs_C29.
From Verif Require Import C29.Complete_C29 C29.ViewExec_C29 C29.Aside_C29 C29.Upgrade_C29.

(* the generic theorem: an update whose ops before and after a middle section name invisible
   paths only is old-or-new at every crash point outside that section *)
Theorem window_consistent :
  forall cat_ok skip as_dir loc pre mid post s,
    nolinks s -> Forall (outside cat_ok skip loc) pre -> Forall plain mid ->
    Forall (outside cat_ok skip loc) post ->
    crash_consistent_outside cat_ok skip as_dir loc (length pre) (length pre + length mid)
                             (pre ++ mid ++ post) s.
Proof. exact window. Qed.
Print Assumptions window_consistent.

Theorem vdb_install_consistent :
  forall loc s cat pf items,
    nolinks s -> vdb_consistent loc (vdb_install_ops s loc cat pf items) s.
Proof. exact vdb_install_consistent_proof. Qed.
Print Assumptions vdb_install_consistent.

Theorem bin_install_consistent :
  forall base s cat pid pf chunks cache,
    nolinks s -> bin_consistent base (bin_install_ops s base cat pid pf chunks cache) s.
Proof. exact bin_install_consistent_proof. Qed.
Print Assumptions bin_install_consistent.

Theorem bin_uninstall_consistent :
  forall base s cat old,
    nolinks s -> bin_consistent base (bin_uninstall_ops s base cat old) s.
Proof. exact bin_uninstall_consistent_proof. Qed.
Print Assumptions bin_uninstall_consistent.

(* vdb replace: false in general (two witnesses), true outside the window
   (end of staging + utime, rename of the new directory) *)
Theorem vdb_replace_refuted : ~ vdb_replace_full.
Proof. exact vdb_replace_refuted_proof. Qed.
Print Assumptions vdb_replace_refuted.

Theorem vdb_replace_refuted_inside_rmtree :
  exists loc s cat old pf tree items k,
    nolinks s
    /\ ~ vdb_view_eq loc (run (firstn k (vdb_replace_ops s loc cat old pf tree items)) s) s
    /\ ~ vdb_view_eq loc (run (firstn k (vdb_replace_ops s loc cat old pf tree items)) s)
                         (run (vdb_replace_ops s loc cat old pf tree items) s)
    /\ listed vdb_cat_ok vdb_skip true loc (run (firstn k (vdb_replace_ops s loc cat old pf tree items)) s) cat old = true.
Proof. exact vdb_replace_refuted_inside_rmtree_proof. Qed.
Print Assumptions vdb_replace_refuted_inside_rmtree.

Theorem vdb_replace_partial :
  forall loc s cat old pf tree items,
    nolinks s ->
    vdb_consistent_outside loc (replace_lo loc s cat pf items) (replace_hi loc s cat old pf tree items)
                           (vdb_replace_ops s loc cat old pf tree items) s.
Proof. exact vdb_replace_partial_proof. Qed.
Print Assumptions vdb_replace_partial.

(* vdb uninstall: false inside rmtree, true before it starts and after it has finished *)
Theorem vdb_uninstall_refuted : ~ vdb_uninstall_full.
Proof. exact vdb_uninstall_refuted_proof. Qed.
Print Assumptions vdb_uninstall_refuted.

Theorem vdb_uninstall_partial :
  forall loc s cat old tree,
    nolinks s ->
    vdb_consistent_outside loc 1 (uninstall_hi loc cat old tree)
                           (vdb_uninstall_ops s loc cat old tree) s.
Proof. exact vdb_uninstall_partial_proof. Qed.
Print Assumptions vdb_uninstall_partial.

(* ------------------------------------------------------------------ the new state is complete *)
(* after the whole vdb install op list has run without a failing call (package absent before,
   a stale staging entry, if any, is a directory, item names distinct), the package is listed and
   every staged file reads back in full *)
Theorem vdb_install_complete :
  forall loc s cat pf items s',
    nolinks s ->
    vdb_cat_ok cat = true -> vdb_skip pf = false ->
    NoDup (map item_name items) -> ~ In UPD (map item_name items) ->
    (forall r, lookup s (pkgdir loc cat pf ++ r) = None) ->
    match lookup s (tmpdir loc cat pf) with Some n => is_dir_node n = true | None => True end ->
    run_opt (vdb_install_ops s loc cat pf items) s = Some s' ->
    vdb_complete s' loc cat pf items.
Proof. exact vdb_install_complete_proof. Qed.
Print Assumptions vdb_install_complete.

(* ... so each of the 13 keys the check reads is present with the staged data *)
Theorem vdb_install_keys :
  forall loc s cat pf items s',
    nolinks s ->
    vdb_cat_ok cat = true -> vdb_skip pf = false ->
    NoDup (map item_name items) -> ~ In UPD (map item_name items) ->
    (forall r, lookup s (pkgdir loc cat pf ++ r) = None) ->
    match lookup s (tmpdir loc cat pf) with Some n => is_dir_node n = true | None => True end ->
    (forall k, In k (vdb_keys pf) -> exists it, In it items /\ item_name it = fst k) ->
    run_opt (vdb_install_ops s loc cat pf items) s = Some s' ->
    length (vdb_keys pf) = 13
    /\ forall k, In k (vdb_keys pf) ->
         exists it, In it items /\ item_name it = fst k
                    /\ read_key s' (pkgdir loc cat pf) k
                       = VS (if snd k then rstrip_nl (item_data it) else item_data it).
Proof. exact vdb_install_keys_proof. Qed.
Print Assumptions vdb_install_keys.

(* the same for a harness scenario whose hypotheses the check evaluated (Spec_C29.install_hyps_ok) *)
Theorem vdb_install_complete_checked :
  forall c s',
    sc_kind c = KVInstall -> install_hyps_ok c = true -> nolinks (sc_fs c) ->
    run_opt (sc_ops c) (sc_fs c) = Some s' ->
    vdb_complete s' (sc_loc c) (sc_cat c) (sc_pf c) (sc_items c)
    /\ forall k, In k (vdb_keys (sc_pf c)) -> read_key s' (pkgdir (sc_loc c) (sc_cat c) (sc_pf c)) k <> VNone.
Proof. exact vdb_install_complete_checked_proof. Qed.
Print Assumptions vdb_install_complete_checked.

(* binpkg install: the tarball is listed and holds every written byte *)
Theorem bin_install_complete :
  forall base s cat pid pf chunks cache s',
    nolinks s -> bin_cat_ok cat = true -> bin_skip (pf ++ TBZ2) = false ->
    run_opt (bin_install_ops s base cat pid pf chunks cache) s = Some s' ->
    listed bin_cat_ok bin_skip false base s' cat (pf ++ TBZ2) = true
    /\ content base s' cat (pf ++ TBZ2) [] = Some (concat chunks).
Proof. exact bin_install_complete_proof. Qed.
Print Assumptions bin_install_complete.

(* binpkg install: no crash prefix changes any other listed tarball *)
Theorem bin_install_others_untouched :
  forall base s cat pid pf chunks cache,
    nolinks s ->
    forall k q, visible bin_cat_ok bin_skip base q -> is_prefix (bin_final base cat pf) q = false ->
      lookup (run (firstn k (bin_install_ops s base cat pid pf chunks cache)) s) q = lookup s q.
Proof. exact bin_install_others_untouched_proof. Qed.
Print Assumptions bin_install_others_untouched.

(* ------------------------------------------------------------------ binpkg replace (repaired code:
   rename the new tarball in, then unlink the old one when its file name differs) *)
(* old-or-new at every crash prefix but the one between the rename and the unlink *)
Theorem bin_replace_partial :
  forall base s cat pid old pf chunks cache,
    nolinks s ->
    crash_consistent_outside bin_cat_ok bin_skip false base
      (bin_replace_lo s base cat pid pf chunks) (bin_replace_hi s base cat pid old pf chunks)
      (bin_replace_ops s base cat pid old pf chunks cache) s.
Proof. exact bin_replace_partial_proof. Qed.
Print Assumptions bin_replace_partial.

(* same file name (re-install of the same version): every crash prefix *)
Theorem bin_replace_same_name_consistent :
  forall base s cat pid old pf chunks cache,
    nolinks s -> bin_final base cat old = bin_final base cat pf ->
    bin_consistent base (bin_replace_ops s base cat pid old pf chunks cache) s.
Proof. exact bin_replace_same_name_proof. Qed.
Print Assumptions bin_replace_same_name_consistent.

(* the full statement is false for another file name: at the remaining point both are listed *)
Theorem bin_replace_refuted : ~ bin_replace_full.
Proof. exact bin_replace_refuted_proof. Qed.
Print Assumptions bin_replace_refuted.

(* ... but never neither and never partial: the old tarball is untouched up to and including that
   point, the new one is as after completion from that point on *)
Theorem bin_replace_never_neither :
  forall base s cat pid old pf chunks cache,
    nolinks s -> bin_cat_ok cat = true -> bin_skip (old ++ TBZ2) = false -> bin_skip (pf ++ TBZ2) = false ->
    old ++ TBZ2 <> pf ++ TBZ2 ->
    let ops := bin_replace_ops s base cat pid old pf chunks cache in
    let p := bin_replace_lo s base cat pid pf chunks + 1 in
    forall k,
      (k <= p -> lookup (run (firstn k ops) s) (bin_final base cat old) = lookup s (bin_final base cat old))
      /\ (p <= k -> lookup (run (firstn k ops) s) (bin_final base cat pf) = lookup (run ops s) (bin_final base cat pf)).
Proof. exact bin_replace_never_neither_proof. Qed.
Print Assumptions bin_replace_never_neither.

(* after completion: the new tarball is listed in full and the old one is not listed *)
Theorem bin_replace_complete :
  forall base s cat pid old pf chunks cache s',
    nolinks s -> bin_cat_ok cat = true -> bin_skip (old ++ TBZ2) = false -> bin_skip (pf ++ TBZ2) = false ->
    old ++ TBZ2 <> pf ++ TBZ2 ->
    run_opt (bin_replace_ops s base cat pid old pf chunks cache) s = Some s' ->
    listed bin_cat_ok bin_skip false base s' cat (pf ++ TBZ2) = true
    /\ content base s' cat (pf ++ TBZ2) [] = Some (concat chunks)
    /\ listed bin_cat_ok bin_skip false base s' cat (old ++ TBZ2) = false.
Proof. exact bin_replace_complete_proof. Qed.
Print Assumptions bin_replace_complete.

(* ------------------------------------------------------------------ executable view = declarative view *)
Theorem view_exec_is_view_vdb :
  forall s loc, vdb_shaped loc s ->
    exec_is_view vdb_cat_ok vdb_skip true loc simple_pf (vdb_entry loc) s (vdb_view s loc).
Proof. exact vdb_view_exec_is_view_proof. Qed.
Print Assumptions view_exec_is_view_vdb.

Theorem view_exec_is_view_bin :
  forall s base, bin_shaped base s ->
    exec_is_view bin_cat_ok bin_skip false base bin_okname (bin_entry base) s (bin_view s base).
Proof. exact bin_view_exec_is_view_proof. Qed.
Print Assumptions view_exec_is_view_bin.

(* equal declarative views give equal executable views (same error status, same entries) *)
Theorem view_exec_respects_vdb :
  forall a b loc, vdb_shaped loc a -> vdb_shaped loc b -> vdb_view_eq loc a b ->
    (vdb_view a loc = VErr INVALIDCPV /\ vdb_view b loc = VErr INVALIDCPV)
    \/ exists la lb, vdb_view a loc = VL la /\ vdb_view b loc = VL lb /\ forall e, In e la <-> In e lb.
Proof. exact vdb_view_respects_proof. Qed.
Print Assumptions view_exec_respects_vdb.

Theorem view_exec_respects_bin :
  forall a b base, bin_shaped base a -> bin_shaped base b -> bin_view_eq base a b ->
    (bin_view a base = VErr INVALIDCPV /\ bin_view b base = VErr INVALIDCPV)
    \/ exists la lb, bin_view a base = VL la /\ bin_view b base = VL lb /\ forall e, In e la <-> In e lb.
Proof. exact bin_view_respects_proof. Qed.
Print Assumptions view_exec_respects_bin.

(* ------------------------------------------------------------------ ANALYSIS of the rename-aside repair
   (a model of code that does not exist: rename old -> .tmp.remove-PF; rename new -> PF; rmtree) *)
Theorem aside_uninstall_consistent :
  forall loc s cat old tree,
    nolinks s -> vdb_consistent loc (aside_uninstall_ops s loc cat old tree) s.
Proof. exact aside_uninstall_consistent_proof. Qed.
Print Assumptions aside_uninstall_consistent.

Theorem aside_replace_partial :
  forall loc s cat old pf tree items,
    nolinks s ->
    forall k, k <> aside_replace_point s loc cat pf items ->
      vdb_view_eq loc (run (firstn k (aside_replace_ops s loc cat old pf tree items)) s) s
      \/ vdb_view_eq loc (run (firstn k (aside_replace_ops s loc cat old pf tree items)) s)
                         (run (aside_replace_ops s loc cat old pf tree items) s).
Proof. exact aside_replace_partial_proof. Qed.
Print Assumptions aside_replace_partial.

Theorem aside_replace_refuted : ~ aside_replace_full.
Proof. exact aside_replace_refuted_proof. Qed.
Print Assumptions aside_replace_refuted.

Theorem aside_replace_same_version_absent :
  listed vdb_cat_ok vdb_skip true [Ex.v] Ex.s0 Ex.c Ex.p1 = true
  /\ listed vdb_cat_ok vdb_skip true [Ex.v] (run AEx.ops_same Ex.s0) Ex.c Ex.p1 = true
  /\ listed vdb_cat_ok vdb_skip true [Ex.v] (run (firstn 11 AEx.ops_same) Ex.s0) Ex.c Ex.p1 = false.
Proof. exact aside_replace_same_version_absent_proof. Qed.
Print Assumptions aside_replace_same_version_absent.

Theorem aside_replace_newfirst_refuted : ~ aside_replace_newfirst_full.
Proof. exact aside_replace_newfirst_refuted_proof. Qed.
Print Assumptions aside_replace_newfirst_refuted.
