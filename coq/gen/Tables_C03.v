(* GENERATED from ebuild/cpv.py, ebuild/eapi.py, ebuild/atom.py (regex literals and character sets) by harness/tables.py on every run — do not edit. *)
From Coq Require Import List ZArith NArith Bool.
Import ListNotations.
From Verif Require Import Base.Val.

Definition cat_first_class : list (N * N) := [(48%N, 57%N); (65%N, 90%N); (95%N, 95%N); (97%N, 122%N)].
Definition cat_rest_class : list (N * N) := [(43%N, 43%N); (45%N, 45%N); (46%N, 46%N); (48%N, 57%N); (65%N, 90%N); (95%N, 95%N); (97%N, 122%N)].
Definition pkg_class : list (N * N) := [(43%N, 43%N); (48%N, 57%N); (65%N, 90%N); (95%N, 95%N); (97%N, 122%N)].
Definition use_first_class : list (N * N) := [(48%N, 57%N); (65%N, 90%N); (97%N, 122%N)].
Definition use_rest_class : list (N * N) := [(43%N, 43%N); (45%N, 45%N); (48%N, 57%N); (64%N, 64%N); (65%N, 90%N); (95%N, 95%N); (97%N, 122%N)].
Definition ver_letter_class : list (N * N) := [(65%N, 90%N); (97%N, 122%N)].
Definition slot_class : list (N * N) := [(43%N, 43%N); (45%N, 45%N); (46%N, 46%N); (48%N, 57%N); (65%N, 90%N); (95%N, 95%N); (97%N, 122%N)].
Definition repo_class : list (N * N) := [(45%N, 45%N); (48%N, 57%N); (65%N, 90%N); (95%N, 95%N); (97%N, 122%N)].
(* version suffix names in the order the regex alternation tries them (longest first) *)
Definition suffix_names : list str := [[112;114;101]%N; [112]%N; [98;101;116;97]%N; [97;108;112;104;97]%N; [114;99]%N].
