(* Spec_C09.v — the property's statement, written without looking at the stack machine:
     * the GRAMMAR of dependency-style strings as an inductive relation [items] between token
       lists and dependency trees (PMS 8.2: all-of / any-of / exactly-one-of / at-most-one-of /
       use-conditional groups, SRC_URI "->" renames), a one-element operator group denoting
       its element (at-most-one-of excepted);
     * the READING of a tree under a USE set [sat]: a use-conditional group whose condition is
       off is not a member of its parent, and neither is a group all of whose members are
       gone ([void]); all-of: every member; any-of: some member, an any-of group emptied by
       conditionals being satisfied; exactly-one-of / at-most-one-of by counting members;
     * the PMS 8.3.4 table for use-dep atoms a[x?] a[!x?] a[x=] a[!x=] as an expansion into
       use-conditional groups over plain atoms [expand].
   Plus boolean acceptors evaluated on the IMPLEMENTATION's recorded results (comparison B). *)
From Coq Require Import List NArith ZArith Bool.
Import ListNotations.
From Verif Require Import Base.Val C09.Model_C09.
Open Scope N_scope.

(* ------------------------------------------------------------------ reading under a USE set *)
Definition count (bs : list bool) : nat := length (filter id bs).
Definition agg (k : kind) (bs : list bool) : bool :=      (* bs: satisfaction of the MEMBERS *)
  match k with
  | KAll => forallb id bs
  | KAny => is_nil bs || existsb id bs
  | KOne => is_nil bs || Nat.eqb (count bs) 1
  | KMost => Nat.leb (count bs) 1
  end.

Section Reading.
  Variable use : list str.
  Definition off (neg : bool) (f : str) : bool := Bool.eqb (mem f use) neg.

  Fixpoint void (n : node) : bool :=
    match n with
    | L _ => false
    | Op _ cs => forallb void cs
    | Cond neg f cs => off neg f || forallb void cs
    end.

  Variable ls : leaf -> bool.              (* which leaves are satisfied *)
  Fixpoint sat_gen (n : node) : bool :=
    match n with
    | L l => ls l
    | Op k cs => agg (kind_of k) (flat_map (fun c => if void c then [] else [sat_gen c]) cs)
    | Cond neg f cs =>
        if off neg f then true
        else agg KAll (flat_map (fun c => if void c then [] else [sat_gen c]) cs)
    end.
End Reading.

(* PMS 8.3.4:  a[x?]  = x? ( a[x] ) !x? ( a )         a[!x?] = x? ( a ) !x? ( a[-x] )
               a[x=]  = x? ( a[x] ) !x? ( a[-x] )     a[!x=] = x? ( a[-x] ) !x? ( a[x] )   *)
Fixpoint expand (base : str) (forced : list str) (vs : list str) : list node :=
  match vs with
  | [] => [L (mkleaf base forced)]
  | u :: r =>
      let x := u_raw u in
      let f := u_flag u in
      let nf := c_minus :: f in
      match u_iseq u, u_neg u with
      | false, false => [Cond false x (expand base (forced ++ [f]) r); Cond true x (expand base forced r)]
      | false, true => [Cond false x (expand base forced r); Cond true x (expand base (forced ++ [nf]) r)]
      | true, false => [Cond false x (expand base (forced ++ [f]) r); Cond true x (expand base (forced ++ [nf]) r)]
      | true, true => [Cond false x (expand base (forced ++ [nf]) r); Cond true x (expand base (forced ++ [f]) r)]
      end
  end.
Definition expand_leaf (l : leaf) : list node :=
  expand (lbase l) (filter (fun u => negb (variable u)) (luse l)) (filter variable (luse l)).

(* S: the set of satisfied tokens (plain atoms / licenses / flags / ...) *)
Definition leaf_sat (use : list str) (S : leaf -> bool) (l : leaf) : bool :=
  if transitive l then forallb (sat_gen use S) (expand_leaf l) else S l.
Definition sat (use : list str) (S : leaf -> bool) (n : node) : bool :=
  sat_gen use (leaf_sat use S) n.
Definition sat_all (use : list str) (S : leaf -> bool) (d : list node) : bool :=
  forallb (sat use S) d.

(* conditional-free: no use-conditional group, no use-dep that still depends on a flag, no
   empty group *)
Fixpoint flatb (n : node) : bool :=
  match n with
  | L l => negb (transitive l)
  | Op _ cs => negb (is_nil cs) && forallb flatb cs
  | Cond _ _ _ => false
  end.
(* the conclusion of the evaluation theorem: no use-conditional group and no use dep that
   still depends on a flag *)
Fixpoint cond_free (n : node) : bool :=
  match n with
  | L l => negb (transitive l)
  | Op _ cs => forallb cond_free cs
  | Cond _ _ _ => false
  end.
(* every variable use dep names a flag that is not itself variable (atom() guarantees it) *)
Definition leaf_wf (l : leaf) : bool :=
  forallb (fun u => negb (variable u) || negb (variable (u_flag u))) (luse l).
Fixpoint leaves_wf (n : node) : bool :=
  match n with L l => leaf_wf l | Op _ cs | Cond _ _ cs => forallb leaves_wf cs end.

(* ------------------------------------------------------------------ the grammar *)
Section Grammar.
  Variable c : cfg.
  Variable lf : str -> option str -> option leaf.

  Definition plain (k : str) : Prop := classify c k = TPlain.
  (* when renames are allowed "->" after a URI is always read as a rename *)
  Definition not_arrow (k : str) : Prop := renames c = true -> k <> s_arrow.

  (* an opening key: "" for a bare "(", else an operator / conditional token (never ")" "(") *)
  Definition okkey (key : str) : Prop := (key = [] \/ classify c key = TGroup) /\ not_arrow key.

  Inductive items : list str -> list node -> Prop :=
  | I_nil : items [] []
  | I_cons t1 n t2 ns : item t1 n -> items t2 ns -> items (t1 ++ t2) (n :: ns)
  with item : list str -> node -> Prop :=
  | G_leaf k l : plain k -> not_arrow k -> lf k None = Some l -> item [k] (L l)
  | G_rename k r l : renames c = true -> plain k -> not_arrow k -> lf k (Some r) = Some l ->
                     item [k; s_arrow; r] (L l)
  | G_single key ts n :                    (* "|| ( a )" is "a" *)
      okkey key -> mem key (ops c) = true -> (key = s_most -> mem key (badops c) = true) ->
      items ts [n] -> item (opener key ++ ts ++ [s_close]) n
  | G_group key ts ns :
      okkey key -> mem key (ops c) = true -> mem key (badops c) = false ->
      (length ns >= 2)%nat \/ (key = s_most /\ length ns = 1%nat) ->
      items ts ns -> item (opener key ++ ts ++ [s_close]) (Op key ns)
  | G_cond neg f ts ns :
      not_arrow (cond_tok neg f) ->
      mem (cond_tok neg f) (ops c) = false -> (neg = false -> first_is c_bang f = false) ->
      ns <> [] -> items ts ns ->
      item (opener (cond_tok neg f) ++ ts ++ [s_close]) (Cond neg f ns).

  (* what the theorems assume about the external element parser: an element renders to a
     plain token from which it is read back, and keeps the rename it was given *)
  Definition lf_good : Prop :=
    forall k r l, plain k -> not_arrow k -> lf k r = Some l ->
      plain (lstr l) /\ not_arrow (lstr l) /\ lren l = r /\ lf (lstr l) r = Some l.
  (* with renames on, "->" is neither a URI nor an operator *)
  Definition arrow_reserved : Prop :=
    renames c = true -> (forall r, lf s_arrow r = None) /\ mem s_arrow (ops c) = false.
End Grammar.

(* parenthesis balance over the structural tokens (no renames: every "(" / ")" is structural) *)
Fixpoint balance (depth : nat) (toks : list str) : bool :=
  match toks with
  | [] => Nat.eqb depth 0
  | k :: r => if str_eqb k s_close then match depth with O => false | S d => balance d r end
              else if str_eqb k s_open then balance (S depth) r
              else balance depth r
  end.
(* an operator / conditional token not followed by "(" *)
Fixpoint dangling (c : cfg) (toks : list str) : bool :=
  match toks with
  | [] => false
  | k :: r => match classify c k with
              | TGroup => match r with k2 :: _ => negb (str_eqb k2 s_open) || dangling c r
                                     | [] => true end
              | _ => dangling c r
              end
  end.
(* "( )" *)
Fixpoint empty_group (toks : list str) : bool :=
  match toks with
  | k :: (k2 :: _) as r => (str_eqb k s_open && str_eqb k2 s_close) || empty_group r
  | _ => false
  end.

(* ------------------------------------------------------------------ comparison (B) *)
Definition opt_bind {A B} (o : option A) (f : A -> option B) : option B :=
  match o with Some a => f a | None => None end.

Fixpoint dec_node (v : val) : option node :=
  match v with
  | VL (VZ t :: rest) =>
      let dec_list := fix go (l : list val) : option (list node) :=
        match l with
        | [] => Some []
        | x :: r => match dec_node x, go r with Some a, Some b => Some (a :: b) | _, _ => None end
        end in
      if Z.eqb t 0 then
        match rest with
        | [VS s; r] => Some (L {| lstr := s; lbase := s; luse := [];
                                  lren := match r with VS x => Some x | _ => None end |})
        | _ => None
        end
      else if Z.eqb t 1 then
        match rest with [VS k; VL cs] => option_map (Op k) (dec_list cs) | _ => None end
      else
        match rest with [VB ng; VS f; VL cs] => option_map (Cond ng f) (dec_list cs) | _ => None end
  | _ => None
  end.
Fixpoint dec_nodes (l : list val) : option (list node) :=
  match l with
  | [] => Some []
  | x :: r => match dec_node x, dec_nodes r with Some a, Some b => Some (a :: b) | _, _ => None end
  end.

Fixpoint leaf_strs (n : node) : list str :=
  match n with L l => [lstr l] | Op _ cs | Cond _ _ cs => flat_map leaf_strs cs end.
Fixpoint dedupe (l : list str) : list str :=
  match l with [] => [] | x :: r => if mem x r then dedupe r else x :: dedupe r end.
Fixpoint subsets (l : list str) : list (list str) :=
  match l with [] => [[]] | x :: r => let s := subsets r in s ++ map (cons x) s end.

(* the implementation's evaluate_depset(use) result is conditional-free and is satisfied by
   exactly the token sets that satisfy the original read under [use] *)
Definition spec_eval_ok (i : input) (res : val) : bool :=
  let '(kd, s, t, use) := i in
  match res with
  | VL [VL tree; VS _] =>
      match parse (cfg_of kd) (lf_of kd t) (split_ws s), dec_nodes tree with
      | Some d, Some e =>
          let univ := firstn 6 (dedupe (flat_map leaf_strs e
                                        ++ flat_map leaf_strs (flat_map (ev use None) d))) in
          (* parsed without transitive_use_atoms and nothing else conditional: use-dep atoms are
             left alone by design (premise of evaluate_preserves_meaning) *)
          (negb (node_conds (cfg_of kd) d) && existsb has_trans d)
          || (negb (node_conds (cfg_of kd) d) || forallb flatb e)
          && forallb (fun sub => let S := fun l => mem (lstr l) sub in
                                 Bool.eqb (sat_all [] S e) (sat_all use S d)) (subsets univ)
      | _, _ => true                       (* a parse disagreement is reported by (A) *)
      end
  | _ => true
  end.

(* str(parse(s)) parses again, to the same tree *)
Definition spec_rt_ok (i : input) (res : val) : bool :=
  let '(kd, s, t, _) := i in
  match res with
  | VL [_; VL tree; VS s'] =>
      match parse (cfg_of kd) (lf_of kd t) (split_ws s') with
      | Some d' => val_eqb (VL (map enc_node d')) (VL tree)
      | None => false
      end
  | _ => true
  end.

(* ------------------------------------------------------------------ strings *)
(* a token as str.split() produces them: non-empty, no whitespace *)
Definition tok_ok (t : str) : bool := negb (is_nil t) && forallb (fun x => negb (is_ws x)) t.
(* premise on the external element parser: it renders without whitespace *)
Definition lf_tok (lf : str -> option str -> option leaf) : Prop :=
  forall k r l, lf k r = Some l -> tok_ok k = true -> tok_ok (lstr l) = true.

(* ------------------------------------------------------------------ structural positions *)
(* the tokens at structural positions: with renames on, "uri -> name" counts as the one
   element "uri" (the name may be any token, even a parenthesis) *)
Fixpoint skel (c : cfg) (toks : list str) : list str :=
  match toks with
  | [] => []
  | k :: rest =>
      match rest with
      | a :: _ :: rest'' =>
          if renames c && str_eqb a s_arrow &&
             match classify c k with TPlain => true | _ => false end
          then k :: skel c rest'' else k :: skel c rest
      | _ => k :: skel c rest
      end
  end.

(* evaluation without transitive_use_atoms, nothing else conditional: what is handed back *)
Definition no_cond (d : list node) : bool := forallb (fun n => negb (has_cond n)) d.

(* comparison (B): a string the implementation ACCEPTED has balanced parentheses, no dangling
   operator / conditional and no empty group on its structural positions *)
Definition spec_shape_ok (i : input) (res : val) : bool :=
  let '(kd, s, _, _) := i in
  match res with
  | VErr _ => true
  | _ => let sk := skel (cfg_of kd) (split_ws s) in
         balance 0 sk && negb (dangling (cfg_of kd) sk) && negb (empty_group sk)
  end.
