(* Base/Val.v — the universal result value used by every correspondence check.

   The harness canonicalises whatever the implementation returned into a [val]
   (ints, strings as code-point lists, booleans, lists, None, error kinds) and
   writes it into cases_*.v beside the input; the model's own result is encoded
   into [val] by a per-property [encode] function and the two are compared
   INSIDE Coq by [val_eqb].  Only indices of disagreeing cases are printed. *)
From Coq Require Import List ZArith NArith Bool.
Import ListNotations.

Definition str := list N.          (* strings: Unicode code points / bytes *)

Inductive val : Type :=
| VZ (z : Z)
| VS (s : str)
| VB (b : bool)
| VL (l : list val)
| VNone
| VErr (kind : str).               (* exception, mapped to a small enum *)

Fixpoint str_eqb (a b : str) : bool :=
  match a, b with
  | [], [] => true
  | x :: a', y :: b' => N.eqb x y && str_eqb a' b'
  | _, _ => false
  end.

Fixpoint val_eqb (a b : val) {struct a} : bool :=
  match a, b with
  | VZ x, VZ y => Z.eqb x y
  | VS x, VS y => str_eqb x y
  | VB x, VB y => Bool.eqb x y
  | VNone, VNone => true
  | VErr x, VErr y => str_eqb x y
  | VL x, VL y =>
      (fix go (x y : list val) : bool :=
         match x, y with
         | [], [] => true
         | a' :: x', b' :: y' => val_eqb a' b' && go x' y'
         | _, _ => false
         end) x y
  | _, _ => false
  end.

(* indices (0-based) of the cases on which [f] disagrees with the recorded result *)
Fixpoint mismatches_from {A} (i : nat) (f : A -> val) (cs : list (A * val)) : list nat :=
  match cs with
  | [] => []
  | (x, r) :: cs' =>
      if val_eqb (f x) r then mismatches_from (S i) f cs'
      else i :: mismatches_from (S i) f cs'
  end.
Definition mismatches {A} (f : A -> val) (cs : list (A * val)) : list nat :=
  mismatches_from 0 f cs.

(* indices of the cases satisfying a boolean predicate over (input, recorded result) *)
Fixpoint where_from {A} (i : nat) (p : A -> val -> bool) (cs : list (A * val)) : list nat :=
  match cs with
  | [] => []
  | (x, r) :: cs' =>
      if p x r then i :: where_from (S i) p cs' else where_from (S i) p cs'
  end.
Definition where_ {A} (p : A -> val -> bool) (cs : list (A * val)) : list nat :=
  where_from 0 p cs.

Lemma str_eqb_eq a b : str_eqb a b = true <-> a = b.
Proof.
  revert b; induction a as [|x a IH]; intros [|y b]; cbn; split; intro H;
    try reflexivity; try discriminate.
  - apply andb_true_iff in H as [H1 H2]. apply N.eqb_eq in H1. apply IH in H2. congruence.
  - injection H as -> ->. apply andb_true_iff; split; [apply N.eqb_refl | apply IH; reflexivity].
Qed.

Lemma str_eqb_refl a : str_eqb a a = true.
Proof. apply str_eqb_eq; reflexivity. Qed.

Definition str_eq_dec (a b : str) : {a = b} + {a <> b}.
Proof. decide equality; apply N.eq_dec. Defined.
