from drive import *
from pkgcore.util import parserestrict
from pkgcore.restrictions import boolean
from pkgcore.repository import multiplex
r = MemRepo({"app/baz-0.9": {}, "app/baz-1.0": {}, "dev/baz-0.9": {}, "app/bar-0.9": {}}, "r1")
pm = parserestrict.parse_match
def q(ex, tg):
    rs = []
    if ex: rs.append(boolean.OrRestriction(*[pm(x) for x in ex], negate=True))
    if tg: rs.append(boolean.OrRestriction(*[pm(x) for x in tg]))
    R = boolean.AndRestriction(*rs)
    got = [p.cpvstr for p in multiplex.tree(r).itermatch(R, sorter=sorted)]
    truth = [p.cpvstr for p in r if R.match(p)]
    print(ex, tg, got, "TRUTH", sorted(truth))
q(["app/baz", "=app/baz-1.0"], ["baz"])
q(["app/baz"], ["baz"])
q(["=app/baz-1.0"], ["baz"])
q(["=app/baz-1.0"], ["app/baz"])
q(["app/baz"], ["dev/baz", "bar"])
q(["baz"], ["app/bar","dev/baz"])
q(["dev/baz"], ["baz"])
q(["dev/baz"], ["baz", "bar"])
q(["dev/baz"], [])
q(["baz"], [])
q(["baz","app/bar"], [])
