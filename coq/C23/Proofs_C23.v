(* Proofs_C23.v — lemmas and proofs; the property theorems are re-exported in Prop_C23.v. *)
From Coq Require Import List NArith ZArith Bool Lia.
Import ListNotations.
From Verif Require Import Base.Val gen.Tables_triggers_perms C23.Model_C23 C23.Spec_C23.
Local Open Scope N_scope.

(* ================================================================ bit lemmas (all of N) *)
Lemma land_zero_iff m k : N.land m k = 0 <-> forall i, N.testbit k i = true -> N.testbit m i = false.
Proof.
  split.
  - intros H i Hk.
    assert (E : N.testbit (N.land m k) i = false) by (rewrite H; apply N.bits_0).
    rewrite N.land_spec, Hk, andb_true_r in E. exact E.
  - intro H. apply N.bits_inj. intro i. rewrite N.land_spec, N.bits_0.
    destruct (N.testbit k i) eqn:Hk; [rewrite (H i Hk) | rewrite andb_false_r]; reflexivity.
Qed.

(* every bit of a is a bit of b *)
Definition subset (a b : N) : Prop := N.ldiff a b = 0.

Lemma subset_spec a b : subset a b <-> forall i, N.testbit a i = true -> N.testbit b i = true.
Proof.
  unfold subset. split.
  - intros H i Ha.
    assert (E : N.testbit (N.ldiff a b) i = false) by (rewrite H; apply N.bits_0).
    rewrite N.ldiff_spec, Ha in E. cbn in E. apply negb_false_iff in E. exact E.
  - intro H. apply N.bits_inj. intro i. rewrite N.ldiff_spec, N.bits_0.
    destruct (N.testbit a i) eqn:Ha; [rewrite (H i Ha)|]; reflexivity.
Qed.

Lemma land_zero_subset m a b : subset a b -> N.land m b = 0 -> N.land m a = 0.
Proof.
  intros S H. apply land_zero_iff. intros i Ha.
  rewrite land_zero_iff in H. apply H. apply (proj1 (subset_spec a b) S). exact Ha.
Qed.

Lemma land_ldiff_zero m c a : subset a c -> N.land (N.ldiff m c) a = 0.
Proof.
  intro S. apply land_zero_iff. intros i Ha.
  rewrite N.ldiff_spec. rewrite (proj1 (subset_spec a c) S i Ha). apply andb_false_r.
Qed.

Lemma ldiff_ldiff_subset m w k : subset w k -> N.ldiff (N.ldiff m w) k = N.ldiff m k.
Proof.
  intro S. apply N.bits_inj. intro i. rewrite !N.ldiff_spec.
  destruct (N.testbit k i) eqn:Hk; cbn; [rewrite !andb_false_r; reflexivity|].
  rewrite !andb_true_r.
  destruct (N.testbit w i) eqn:Hw; [|cbn; apply andb_true_r].
  rewrite (proj1 (subset_spec w k) S i Hw) in Hk. discriminate.
Qed.

Lemma nz_true x : nz x = true <-> x <> 0.
Proof. unfold nz. rewrite negb_true_iff, N.eqb_neq. reflexivity. Qed.
Lemma nz_false x : nz x = false <-> x = 0.
Proof. unfold nz. rewrite negb_false_iff, N.eqb_eq. reflexivity. Qed.

(* ---- how the masks regenerated from triggers.py relate to the POSIX constants of the spec.
   These are re-checked by the kernel against today's table on every build. *)
Lemma table_masks :
  subset S_ISUGID sb_sel_setid /\ subset sb_sel_setid S_ISUGID /\
  subset S_IWOTH sb_sel_ww /\ subset sb_sel_ww S_IWOTH /\
  subset sb_wipe (N.lor S_ISUGID S_IWOTH).
Proof. unfold subset. repeat split; vm_compute; reflexivity. Qed.

(* what is wiped covers the world-writable bit, or covers both set-id bits (either suffices) *)
Lemma table_wipe : subset S_IWOTH sb_wipe \/ subset S_ISUGID sb_wipe.
Proof. unfold subset. first [left; vm_compute; reflexivity | right; vm_compute; reflexivity]. Qed.

Lemma table_roots : root_uid = ROOT /\ root_gid = ROOT.
Proof. split; vm_compute; reflexivity. Qed.

Lemma unsafe_iff m : unsafe m = true <-> mode_unsafe m.
Proof.
  destruct table_masks as (S1 & S2 & S3 & S4 & _).
  unfold unsafe, mode_unsafe. rewrite andb_true_iff, !nz_true. split; intros [A B]; split; intro Z.
  - apply A. exact (land_zero_subset m _ _ S2 Z).
  - apply B. exact (land_zero_subset m _ _ S4 Z).
  - apply A. exact (land_zero_subset m _ _ S1 Z).
  - apply B. exact (land_zero_subset m _ _ S3 Z).
Qed.

Lemma mode_unsafeb_iff m : mode_unsafeb m = true <-> mode_unsafe m.
Proof.
  unfold mode_unsafeb, mode_unsafe. rewrite andb_true_iff, !negb_true_iff, !N.eqb_neq. reflexivity.
Qed.

(* the core: for EVERY mode value (no bound), the hardened mode is not set-id + world-writable *)
Theorem harden_mode_safe_proof : forall m, ~ mode_unsafe (harden_mode m).
Proof.
  intro m. unfold harden_mode. destruct (unsafe m) eqn:U.
  - intros [A B]. destruct table_wipe as [S5 | S5].
    + apply B. apply land_ldiff_zero. exact S5.
    + apply A. apply land_ldiff_zero. exact S5.
  - intro H. apply unsafe_iff in H. congruence.
Qed.

Theorem harden_mode_minimal_proof : forall m,
  mode_differs_only_in (N.lor S_ISUGID S_IWOTH) m (harden_mode m) /\
  (~ mode_unsafe m -> harden_mode m = m).
Proof.
  intro m. destruct table_masks as (_ & _ & _ & _ & S6).
  unfold mode_differs_only_in, harden_mode. split.
  - destruct (unsafe m); [|reflexivity]. symmetry. apply ldiff_ldiff_subset. exact S6.
  - intro H. destruct (unsafe m) eqn:U; [|reflexivity]. apply unsafe_iff in U. contradiction.
Qed.

(* non-vacuity: the hardening does something, on a setuid and on a setgid mode, and keeps type bits *)
Example harden_4777 : harden_mode 2559 <> 2559 /\ N.ldiff (harden_mode 2559) 3074 = 509.   (* 0o4777 -> 0o775 *)
Proof. split; vm_compute; [discriminate | reflexivity]. Qed.
Example harden_2777_dir : N.ldiff (harden_mode (16384 + 1535)) 3074 = 16384 + 509.   (* 0o42777 -> 0o40775 *)
Proof. vm_compute. reflexivity. Qed.
Example harden_4755 : harden_mode 2541 = 2541.         (* 0o4755: set-id, not world-writable *)
Proof. vm_compute. reflexivity. Qed.
Example unsafe_4777 : mode_unsafe 2559.
Proof. split; vm_compute; discriminate. Qed.

(* ================================================================ the stage is a per-entry map *)
Definition step_entry (ok : bool) (t : trig) (e : entry) : entry :=
  match t with
  | FixUid b g => if oeqb (uid e) b then set_uid e (Some g) else e
  | FixGid b g => if oeqb (gid e) b then set_gid e (Some g) else e
  | FixSetBits => if ok then upd_mode sel_set_bits (fun m => N.ldiff m sb_wipe) e else e
  | DetectWW fp => if ok && fp then upd_mode sel_ww (fun m => N.ldiff m ww_wipe) e else e
  | NoCset => e
  end.
Definition entry_pipe (ok : bool) (ts : list trig) (e : entry) : entry :=
  fold_left (fun e t => step_entry ok t e) ts e.

Lemma map_id_ext {A} (f : A -> A) l : (forall x, f x = x) -> map f l = l.
Proof. intro H. induction l as [|x l IH]; cbn; [reflexivity | rewrite H, IH; reflexivity]. Qed.

Lemma engine_step_fst cs w t :
  fst (engine_step (cs, w) t) = map (step_entry (modes_ok cs) t) cs.
Proof.
  unfold engine_step. cbn [fst snd].
  destruct t as [b g|b g| |fp|]; cbn [run_trig step_entry negb andb fst].
  - reflexivity.
  - reflexivity.
  - destruct (modes_ok cs); cbn [fst]; [reflexivity | symmetry; apply map_id_ext; reflexivity].
  - destruct (modes_ok cs); cbn [fst andb].
    + destruct fp; [reflexivity | symmetry; apply map_id_ext; reflexivity].
    + symmetry; apply map_id_ext; reflexivity.
  - symmetry; apply map_id_ext; reflexivity.
Qed.

Lemma upd_mode_sym sel f e : is_sym (upd_mode sel f e) = is_sym e.
Proof. unfold upd_mode. destruct (sel e); reflexivity. Qed.
Lemma upd_mode_has_mode sel f e : has_mode (upd_mode sel f e) = has_mode e.
Proof. unfold upd_mode, has_mode. destruct (sel e); [|reflexivity]. cbn. destruct (mode e); reflexivity. Qed.

Lemma step_entry_ok_inv ok t e :
  is_sym (step_entry ok t e) = is_sym e /\ has_mode (step_entry ok t e) = has_mode e.
Proof.
  destruct t as [b g|b g| |fp|]; cbn [step_entry].
  - destruct (oeqb (uid e) b); split; reflexivity.
  - destruct (oeqb (gid e) b); split; reflexivity.
  - destruct ok; [split; [apply upd_mode_sym | apply upd_mode_has_mode] | split; reflexivity].
  - destruct (ok && fp); [split; [apply upd_mode_sym | apply upd_mode_has_mode] | split; reflexivity].
  - split; reflexivity.
Qed.

Lemma modes_ok_step ok t cs : modes_ok (map (step_entry ok t) cs) = modes_ok cs.
Proof.
  unfold modes_ok. induction cs as [|e cs IH]; cbn; [reflexivity|].
  destruct (step_entry_ok_inv ok t e) as [-> ->]. rewrite IH. reflexivity.
Qed.

Lemma run_trigs_fst_gen ts : forall cs w,
  fst (fold_left engine_step ts (cs, w)) = map (entry_pipe (modes_ok cs) ts) cs.
Proof.
  induction ts as [|t ts IH]; intros cs w; cbn [fold_left].
  - unfold entry_pipe. cbn. symmetry. apply map_id_ext. reflexivity.
  - destruct (engine_step (cs, w) t) as [cs' w'] eqn:E.
    assert (F : cs' = map (step_entry (modes_ok cs) t) cs).
    { pose proof (engine_step_fst cs w t) as H. rewrite E in H. exact H. }
    rewrite IH. subst cs'. rewrite modes_ok_step, map_map. reflexivity.
Qed.

(* engine.pre_merge() transforms new_cset entry by entry; the only global influence is whether
   every non-symlink entry has a mode *)
Lemma run_trigs_is_map ts cs :
  fst (run_trigs ts cs) = map (entry_pipe (modes_ok cs) ts) cs.
Proof. apply run_trigs_fst_gen. Qed.

(* triggers that do not take new_cset do not matter *)
Definition touches_cset (t : trig) : bool := match t with NoCset => false | _ => true end.
Lemma entry_pipe_filter ok ts : forall e,
  entry_pipe ok ts e = entry_pipe ok (filter touches_cset ts) e.
Proof.
  unfold entry_pipe. induction ts as [|t ts IH]; intro e; cbn [fold_left filter]; [reflexivity|].
  destruct t; cbn [touches_cset fold_left step_entry]; apply IH.
Qed.

(* ================================================================ which triggers, in what order *)
Definition installing (mode : N) : Prop := mode = INSTALL_MODE \/ mode = REPLACE_MODE.

(* computed from today's table: the default triggers an install/replace engine runs at pre_merge
   that receive new_cset, in execution order (priority, then registration order, which is the
   reverse (priority, name) order of default_plugins_triggers) *)
Theorem pre_merge_order_proof : forall emode cfg, installing emode ->
  filter touches_cset (pre_merge_trigs emode cfg) =
  [FixUid (fst cfg) root_uid; FixSetBits; FixGid (snd cfg) root_gid; DetectWW false].
Proof.
  intros emode [u g] [-> | ->]; vm_compute; reflexivity.
Qed.

Theorem uninstall_runs_no_pre_merge_proof : forall cfg, pre_merge_trigs UNINSTALL_MODE cfg = [].
Proof. intros [u g]. vm_compute. reflexivity. Qed.

(* the per-entry function of the stage *)
Definition harden_entry (ok : bool) (cfg : N * N) (e : entry) : entry :=
  entry_pipe ok [FixUid (fst cfg) root_uid; FixSetBits; FixGid (snd cfg) root_gid; DetectWW false] e.

Lemma pre_merge_is_map emode cfg cs : installing emode ->
  fst (engine_pre_merge emode cfg cs) = map (harden_entry (modes_ok cs) cfg) cs.
Proof.
  intro I. unfold engine_pre_merge. rewrite run_trigs_is_map.
  apply map_ext. intro e. rewrite entry_pipe_filter, (pre_merge_order_proof emode cfg I). reflexivity.
Qed.

(* ---- what harden_entry does to one entry *)
Lemma reown_oeqb b o : (if oeqb o b then Some ROOT else o) = reown b o.
Proof. unfold oeqb, reown. destruct o as [x|]; [destruct (x =? b)|]; reflexivity. Qed.

Lemma harden_entry_spec ok cfg e :
  let e' := harden_entry ok cfg e in
  same_identity e e' /\
  uid e' = reown (fst cfg) (uid e) /\ gid e' = reown (snd cfg) (gid e) /\
  mode e' = (if ok && negb (is_sym e) then option_map harden_mode (mode e) else mode e).
Proof.
  destruct table_roots as [Ru Rg].
  unfold harden_entry, entry_pipe. cbn [fold_left step_entry]. rewrite andb_false_r.
  rewrite Ru, Rg. destruct cfg as [bu bg].
  destruct e as [k l m u g t d r].
  unfold same_identity, upd_mode, sel_set_bits, is_sym, set_uid, set_gid, set_mode, harden_mode,
    oeqb, reown.
  cbn [fst snd kind loc mode uid gid target data rest].
  destruct u as [u|], g as [g|], m as [m|], ok;
    cbn [negb andb option_map kind loc mode uid gid target data rest];
    try destruct (u =? bu); cbn [negb andb option_map kind loc mode uid gid target data rest];
    destruct (k =? 2); cbn [negb andb option_map kind loc mode uid gid target data rest];
    try destruct (unsafe m); cbn [negb andb option_map kind loc mode uid gid target data rest];
    try destruct (g =? bg); cbn [negb andb option_map kind loc mode uid gid target data rest];
    repeat split; reflexivity.
Qed.

Lemma modes_ok_iff cs : modes_ok cs = true <-> well_formed cs.
Proof.
  unfold modes_ok, well_formed. rewrite forallb_forall. split.
  - intros H e Hin Hs Hm. specialize (H e Hin). rewrite Hs in H. cbn in H.
    unfold has_mode in H. rewrite Hm in H. discriminate.
  - intros H e Hin. destruct (is_sym e) eqn:Hs; [reflexivity|]. cbn.
    unfold has_mode. specialize (H e Hin Hs). destruct (mode e); [reflexivity | contradiction].
Qed.

Lemma nth_error_map_some {A B} (f : A -> B) l i x :
  nth_error l i = Some x -> nth_error (map f l) i = Some (f x).
Proof. intro H. rewrite nth_error_map, H. reflexivity. Qed.

(* ================================================================ the property theorems *)
Theorem only_mode_owner_change_proof : forall emode cfg cs, installing emode ->
  let out := fst (engine_pre_merge emode cfg cs) in
  length out = length cs /\
  forall i e, nth_error cs i = Some e ->
    exists e', nth_error out i = Some e' /\ same_identity e e' /\
               (is_sym e = true -> mode e' = mode e).
Proof.
  intros emode cfg cs I. cbn zeta. rewrite (pre_merge_is_map emode cfg cs I). split.
  - apply map_length.
  - intros i e H. exists (harden_entry (modes_ok cs) cfg e). split.
    + apply nth_error_map_some. exact H.
    + destruct (harden_entry_spec (modes_ok cs) cfg e) as (Id & _ & _ & M). split; [exact Id|].
      intro S. rewrite M, S. cbn. rewrite andb_false_r. reflexivity.
Qed.

Theorem reowned_proof : forall emode cfg cs, installing emode ->
  let out := fst (engine_pre_merge emode cfg cs) in
  forall i e, nth_error cs i = Some e ->
    exists e', nth_error out i = Some e' /\
               uid e' = reown (fst cfg) (uid e) /\ gid e' = reown (snd cfg) (gid e).
Proof.
  intros emode cfg cs I. cbn zeta. rewrite (pre_merge_is_map emode cfg cs I).
  intros i e H. exists (harden_entry (modes_ok cs) cfg e). split.
  - apply nth_error_map_some. exact H.
  - destruct (harden_entry_spec (modes_ok cs) cfg e) as (_ & U & G & _). split; assumption.
Qed.

(* consequence: unless the build user is root itself, nothing stays owned by the build user *)
Theorem no_build_owner_left_proof : forall emode cfg cs e', installing emode ->
  In e' (fst (engine_pre_merge emode cfg cs)) ->
  (fst cfg <> ROOT -> uid e' <> Some (fst cfg)) /\ (snd cfg <> ROOT -> gid e' <> Some (snd cfg)).
Proof.
  intros emode cfg cs e' I Hin. rewrite (pre_merge_is_map emode cfg cs I) in Hin.
  apply in_map_iff in Hin as [e [<- _]].
  destruct (harden_entry_spec (modes_ok cs) cfg e) as (_ & U & G & _).
  cbn zeta in U, G. rewrite U, G. unfold reown. split; intros Hne.
  - destruct (uid e) as [x|]; [|discriminate]. destruct (x =? fst cfg) eqn:E.
    + intro H. injection H as H. congruence.
    + apply N.eqb_neq in E. intro H. injection H as H. contradiction.
  - destruct (gid e) as [x|]; [|discriminate]. destruct (x =? snd cfg) eqn:E.
    + intro H. injection H as H. congruence.
    + apply N.eqb_neq in E. intro H. injection H as H. contradiction.
Qed.

Theorem mode_hardened_proof : forall emode cfg cs, installing emode -> well_formed cs ->
  let out := fst (engine_pre_merge emode cfg cs) in
  forall i e, nth_error cs i = Some e ->
    exists e', nth_error out i = Some e' /\
               mode e' = if is_sym e then mode e else option_map harden_mode (mode e).
Proof.
  intros emode cfg cs I W. cbn zeta. rewrite (pre_merge_is_map emode cfg cs I).
  apply modes_ok_iff in W. rewrite W.
  intros i e H. exists (harden_entry true cfg e). split.
  - apply nth_error_map_some. exact H.
  - destruct (harden_entry_spec true cfg e) as (_ & _ & _ & M). rewrite M. cbn.
    destruct (is_sym e); reflexivity.
Qed.

Theorem no_suid_world_writable_proof : forall emode cfg cs, installing emode -> well_formed cs ->
  forall e' m, In e' (fst (engine_pre_merge emode cfg cs)) ->
    is_sym e' = false -> mode e' = Some m -> ~ mode_unsafe m.
Proof.
  intros emode cfg cs I W e' m Hin Hs Hm.
  rewrite (pre_merge_is_map emode cfg cs I) in Hin. apply modes_ok_iff in W. rewrite W in Hin.
  apply in_map_iff in Hin as [e [<- _]].
  destruct (harden_entry_spec true cfg e) as ((K & _) & _ & _ & M). cbn zeta in *.
  assert (Se : is_sym e = false) by (unfold is_sym in *; rewrite <- K; exact Hs).
  rewrite M, Se in Hm. cbn in Hm.
  destruct (mode e) as [m0|]; [|discriminate]. cbn in Hm. injection Hm as <-.
  apply harden_mode_safe_proof.
Qed.

(* the well_formed premise is needed: one mode-less non-symlink entry makes fix_set_bits raise
   TypeError, the engine suppresses it, and no entry is hardened *)
Definition no_suid_world_writable_unconditional : Prop :=
  forall emode cfg cs, installing emode ->
  forall e' m, In e' (fst (engine_pre_merge emode cfg cs)) ->
    is_sym e' = false -> mode e' = Some m -> ~ mode_unsafe m.

Theorem no_suid_world_writable_malformed_refuted_proof : ~ no_suid_world_writable_unconditional.
Proof.
  intro H.
  refine (H INSTALL_MODE (250, 251)
            [mkE 1 0 None (Some 0) (Some 0) None None 0; mkE 0 1 (Some 2559) (Some 0) (Some 0) None (Some 0) 0]
            (or_introl eq_refl) (mkE 0 1 (Some 2559) (Some 0) (Some 0) None (Some 0) 0) 2559 _ eq_refl eq_refl
            unsafe_4777).
  vm_compute. right. left. reflexivity.
Qed.

(* non-vacuity of the stage theorems: a concrete content set on which every clause is exercised *)
Example stage_example :
  fst (engine_pre_merge INSTALL_MODE (250, 251)
         [mkE 0 1 (Some 2559) (Some 250) (Some 251) None (Some 7) 3;     (* file 0o4777 portage:portage *)
          mkE 1 2 (Some 1535) (Some 0) (Some 251) None None 4;           (* dir 0o2777 root:portage *)
          mkE 2 3 (Some 3583) (Some 250) (Some 100) (Some 9) None 5;     (* symlink 0o6777 portage:users *)
          mkE 0 4 (Some 2541) (Some 1000) (Some 100) None (Some 8) 6])   (* file 0o4755 user:users *)
  = [mkE 0 1 (Some (harden_mode 2559)) (Some 0) (Some 0) None (Some 7) 3;     (* 0o775 *)
     mkE 1 2 (Some (harden_mode 1535)) (Some 0) (Some 0) None None 4;
     mkE 2 3 (Some 3583) (Some 0) (Some 100) (Some 9) None 5;
     mkE 0 4 (Some 2541) (Some 1000) (Some 100) None (Some 8) 6].
Proof. vm_compute. reflexivity. Qed.

Example well_formed_example :
  well_formed [mkE 0 1 (Some 2559) (Some 250) (Some 251) None (Some 7) 3; mkE 2 3 None None None (Some 9) None 5].
Proof. apply modes_ok_iff. vm_compute. reflexivity. Qed.

(* ================================================================ detect_world_writable(fix_perms=True) *)
Theorem detect_fix_perms_clears_proof : forall cs, well_formed cs ->
  match run_trig true (DetectWW true) cs with
  | Done out _ => forall e' m, In e' out -> is_sym e' = false -> mode e' = Some m -> N.land m S_IWOTH = 0
  | Raised => False
  end.
Proof.
  intros cs W. cbn [run_trig negb andb]. apply modes_ok_iff in W. rewrite W.
  intros e' m Hin Hs Hm. apply in_map_iff in Hin as [e [<- _]].
  unfold upd_mode, sel_ww in *. destruct (is_sym e) eqn:Se.
  - cbn in Hs. rewrite Se in Hs. discriminate.
  - cbn [negb andb] in *. destruct (mode e) as [m0|] eqn:Me.
    + destruct (ww m0) eqn:Wm.
      * cbn in Hm. try rewrite Me in Hm. cbn in Hm. injection Hm as <-.
        apply land_ldiff_zero. unfold subset. vm_compute. reflexivity.
      * try rewrite Me in Hm. injection Hm as <-. unfold ww in Wm. apply nz_false in Wm.
        apply (land_zero_subset m0 S_IWOTH ww_sel); [unfold subset; vm_compute; reflexivity | exact Wm].
    + try rewrite Me in Hm. discriminate.
Qed.
