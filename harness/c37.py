"""C37 — Bugzilla searches keep their meaning when rendered, combined and batched (DESIGN §6 C37).

Streams (implementation = pkgcore.bugzilla.query from $VERIF_REPO)
  ctor     named constructor + args -> query structure, params()        impl vs Model_C37.ctor       (A)
  params   query -> params()                                            impl vs Model_C37.params     (A)
                                                                        Spec_C37.spec_params_ok      (B: slots 1..n once each,
                                                                        OP/CP balanced, reference reader returns the chart trees)
  and      every a & b made while building random expressions           impl vs Model_C37.and_q      (A)
                                                                        Spec_C37.spec_and_ok         (B: reference evaluator on the
                                                                        implementation's parameters, probe bugs: a&b == a and b)
  anyof    every any_of(...) made while building random expressions     impl vs Model_C37.any_of     (A)
                                                                        Spec_C37.spec_anyof_ok       (B: == or of the operands)
  paged    paged(limit, offset)                                         impl vs Model_C37.paged      (A)
  batches  (q, base_length, max_length) -> params() of every batch      impl vs Model_C37.batches    (A)
                                                                        + partition / unchanged / budget oracle in Python with the
                                                                        real urllib.parse.urlencode                               (B)
  enclen   len(urlencode(params()))                                     impl vs Model_C37.ulen qlen  (A, ties the length model)
"""

import json
import urllib.parse

from .common import Check, Err, Raw, cN, cZ, cbool, clist, cnat, copt, cpair, impl_call

IMPORTS = ("From Coq Require Import List NArith ZArith Bool.\n"
           "From Verif Require Import Base.Val C37.Model_C37 C37.Spec_C37 C37.Pack_C37.")
ANCHORS = ["bugzilla/query.py::Criterion", "bugzilla/query.py::ChartGroup", "bugzilla/query.py::_render",
           "bugzilla/query.py::_merge_simple", "bugzilla/query.py::BugQuery"]
KINDS = {"BugzillaUsageError": "BugzillaUsageError"}
JOINS = {"AND": "JAnd", "OR": "JOr", "AND_G": "JAndG"}


# ----------------------------------------------------------------------------- Coq literals
def cstr(s):
    """A string occurrence.  Rendered as a marker; `intern_row` replaces the markers of one case by
    references `(T t i)` into that case's table of distinct strings, so that every distinct string
    is written (and parsed by coqc) once per case."""
    return "\u00abS:" + s.encode("utf-8").hex() + "\u00bb"


_MARK = None


def intern_row(row):
    import re
    global _MARK
    if _MARK is None:
        _MARK = re.compile("\u00abS:([0-9a-f]*)\u00bb")
    table, index = [], {}

    def sub(m):
        h = m.group(1)
        i = index.get(h)
        if i is None:
            i = index[h] = len(table)
            table.append(bytes.fromhex(h).decode("utf-8"))
        return f"(t {i})"

    body = _MARK.sub(sub, row)
    lits = ['"' + w.replace('"', '""') + '"' for w in table]
    return "(let t := TBL (map S2L (" + clist(lits, "String.string") + ")%string) in\n   " + body + ")"


def pval(x):
    """Python value -> Coq term of type val, strings packed."""
    if isinstance(x, Err):
        return f"(VErr {cstr(x.kind)})"
    if x is None:
        return "VNone"
    if isinstance(x, bool):
        return f"(VB {cbool(x)})"
    if isinstance(x, int):
        return f"(VZ {cZ(x)})"
    if isinstance(x, str):
        return f"(VS {cstr(x)})"
    if isinstance(x, (list, tuple)):
        if len(x) == 2 and isinstance(x[0], str) and isinstance(x[1], str):
            return f"(P {cstr(x[0])} {cstr(x[1])})"
        return "(VL " + clist([pval(i) for i in x], "val") + ")"
    raise TypeError(f"cannot canonicalise {type(x)}")


# ----------------------------------------------------------------------------- structures
def s_chart(c):
    if hasattr(c, "children"):
        return ("G", str(c.join), [s_chart(x) for x in c.children])
    return ("C", str(c.field), str(c.op), [str(v) for v in c.values], bool(c.negate), bool(c.splittable))


def s_query(q):
    return {"simple": [(str(k), [str(v) for v in vs]) for k, vs in q.simple],
            "charts": [s_chart(c) for c in q.charts],
            "limit": q.limit, "offset": q.offset, "order": q.order}


def c_strs(vs):
    return clist([cstr(v) for v in vs], "str")


def c_chart(s):
    if s[0] == "G":
        return "(Group %s %s)" % (JOINS[s[1]], clist([c_chart(x) for x in s[2]], "chart"))
    return "(Crit %s %s %s %s %s)" % (cstr(s[1]), cstr(s[2]), c_strs(s[3]), cbool(s[4]), cbool(s[5]))


def c_query(s):
    return ("{| simple := %s; charts := %s; limit := %s; offset := %s; order := %s |}" % (
        clist([cpair(cstr(k), c_strs(vs)) for k, vs in s["simple"]], "str * list str"),
        clist([c_chart(c) for c in s["charts"]], "chart"),
        copt(s["limit"], cZ, "Z"), copt(s["offset"], cZ, "Z"), copt(s["order"], cstr, "str")))


def v_chart(s):
    if s[0] == "G":
        return [s[1], [v_chart(x) for x in s[2]]]
    return [s[1], s[2], list(s[3]), s[4], s[5]]


def v_query(s):
    return [[[k, list(vs)] for k, vs in s["simple"]], [v_chart(c) for c in s["charts"]],
            s["limit"], s["offset"], s["order"]]


def v_params(q):
    return [[str(k), str(v)] for k, v in q.params()]


def c_bug(b):
    return clist([cpair(cstr(f), c_strs(vs)) for f, vs in b], "str * list str")


def c_bugs(bs):
    return clist([c_bug(b) for b in bs], "list (str * list str)")


def nslots(s):
    return 1 if s[0] == "C" else 2 + sum(nslots(x) for x in s[2])


def vacuous(s):
    return (not s[3]) if s[0] == "C" else all(vacuous(x) for x in s[2])


def build_query(m, s):
    """structure (s_query form) -> BugQuery, for corpus cases and replay"""
    from pkgcore.bugzilla.enums import Join

    def mk_chart(c):
        if c[0] == "G":
            return m.ChartGroup(Join(c[1]), tuple(mk_chart(x) for x in c[2]))
        return m.Criterion(c[1], c[2], tuple(c[3]), negate=c[4], splittable=c[5])

    return m.BugQuery(simple=tuple((k, tuple(v)) for k, v in s["simple"]),
                      charts=tuple(mk_chart(c) for c in s["charts"]),
                      limit=s.get("limit"), offset=s.get("offset"), order=s.get("order"))


def load_corpus():
    from .common import VERIF
    out = []
    for f in sorted((VERIF / "corpus" / "C37").glob("*.json")):
        d = json.loads(f.read_text())
        for c in d["cases"] if "cases" in d else [d]:
            out.append(c)
    return out


def observe_batches(q, base, mx):
    """batches() observed the ways callers use it.  The batch objects are frozen values, so every
    way must show the same thing:
      lazy   render each batch when it is yielded (Client.raw_search)
      kept   list(q.batches(...)) first, render afterwards (tests, len(), handing batches to workers)
      again  render the kept objects a second time, after a SECOND batches() call on the same query
      second the second call's batches, kept
    Returns (kept, problem or None); A and the partition/budget oracle run on `kept`."""
    ren = lambda b: [[str(k), str(v)] for k, v in b.params()]  # noqa: E731
    before = s_query(q)
    lazy = [ren(b) for b in q.batches(base, mx)]
    objs = list(q.batches(base, mx))
    kept = [ren(b) for b in objs]
    second = [ren(b) for b in list(q.batches(base, mx))]
    again = [ren(b) for b in objs]
    problem = None
    for name, other in (("rendered when yielded", lazy), ("a second batches() call", second),
                        ("the same kept objects rendered again", again)):
        if other != kept:
            i = next((j for j in range(min(len(other), len(kept))) if other[j] != kept[j]), min(len(other), len(kept)))
            problem = ("the batches kept from list(batches()) differ from " + name
                       + " (a batch changes after the generator is advanced / shares state)",
                       {"n_batches": [len(kept), len(other)], "first_differing_batch": i,
                        "kept": kept[i][:6] if i < len(kept) else None,
                        "other": other[i][:6] if i < len(other) else None})
            break
    if problem is None and s_query(q) != before:
        problem = ("batches() changed the query it was called on", {"before": before, "after": s_query(q)})
    return kept, problem


# ----------------------------------------------------------------------------- known-class predicates
def pred_same_simple_key(a, b):
    """both operands of & carry the same plain key with non-empty value lists that differ as sets"""
    da = dict(a["simple"])
    return any(k in da and da[k] and vs and set(da[k]) != set(vs) for k, vs in b["simple"])


def pred_anyof_operand(ops):
    """there is no operand, or an any_of operand is not exactly one effective chart (a conjunction, an
    empty query, or a condition without values)"""
    return not ops or any(len(o["charts"]) != 1 or vacuous(o["charts"][0]) for o in ops)


def pred_short_field_axis(q, field, slot):
    """the split axis is a splittable Criterion whose field name encodes shorter than its v<slot> key"""
    return len(urllib.parse.quote_plus(field)) < len(f"v{slot}")


# ----------------------------------------------------------------------------- generation
class Gen:
    def __init__(self, chk, mod, enums):
        self.chk, self.rng, self.m, self.e = chk, chk.rng, mod, enums
        self.and_cases, self.anyof_cases, self.queries = [], [], []
        self.snaps, self.changed = [], []

    # values
    def word(self):
        r = self.rng
        return r.choice(["ALLARCHES", "STABLEREQ", "x", "y", "z", "nattka:skip", "sanity-check+", "a b", "é", "k1", "k2",
                         "=dev-libs/foo-1.2.3_p1-r3", "sys-apps/bar", "€uro", "a,b", "w%d" % r.randrange(6), ""])

    def words(self, lo=0, hi=4):
        return [self.word() for _ in range(self.rng.randint(lo, hi))]

    def ids(self):
        r = self.rng
        return [r.choice([1, 2, 3, 4, 5, 900001, 77]) for _ in range(r.randint(0, 4))]

    def simple_leaf(self):
        Q, r, e = self.m.BugQuery, self.rng, self.e
        k = r.randrange(9)
        if k == 0:
            a = self.ids()
            return ("ids", [str(x) for x in a], Q.ids(a))
        if k == 1:
            a = r.sample(list(e.Product), r.randint(0, 2))
            return ("product", [str(x) for x in a], Q.product(*a))
        if k == 2:
            a = [r.choice(list(e.Component)) for _ in range(r.randint(0, 3))]
            return ("component", [str(x) for x in a], Q.component(*a))
        if k == 3:
            a = [r.choice(["FIXED", "---", "WONTFIX", "DUPLICATE"]) for _ in range(r.randint(0, 3))]
            return ("resolution", a, Q.resolution(*a))
        if k == 4:
            a = [r.choice(list(e.Status)) for _ in range(r.randint(0, 3))]
            return ("status", [str(x) for x in a], Q.status(*a))
        if k == 5:
            a = [r.choice(["amd64@gentoo.org", "x86@gentoo.org", "m+x@gentoo.org"]) for _ in range(r.randint(0, 3))]
            return ("cc", a, Q.cc(*a))
        if k == 6:
            a = [r.choice(["m@gentoo.org", "bug-wranglers@gentoo.org"]) for _ in range(r.randint(0, 2))]
            return ("assigned_to", a, Q.assigned_to(*a))
        if k == 7:
            return ("unresolved", [], Q.unresolved())
        a = [r.choice(list(e.BugCategory)) for _ in range(r.randint(0, 2))]
        return ("category", [str(x.value) for x in a], Q.category(*a))

    def chart_leaf(self):
        Q, r, e = self.m.BugQuery, self.rng, self.e
        k = r.randrange(4)
        if k == 0:
            a = self.words()
            return ("keywords", a, Q.keywords(*a))
        if k == 1:
            name = r.choice(["sanity-check", "other"])
            sts = [r.choice(list(e.FlagStatus)) for _ in range(r.randint(0, 3))]
            return ("flag", [name] + [str(x) for x in sts], Q.flag(name, *sts))
        if k == 2:
            a = self.words()
            return ("without_tags", a, Q.without_tags(*a))
        a = self.words(0, 5)
        return ("package_list_any", a, Q.package_list_any(a))

    CTOR_ID = {"ids": 0, "product": 1, "component": 2, "resolution": 3, "status": 4, "cc": 5, "assigned_to": 6,
               "unresolved": 7, "keywords": 8, "flag": 9, "without_tags": 10, "package_list_any": 11, "category": 12}

    def raw_chart(self, depth):
        """Criterion / ChartGroup built directly (nested groups, every join, negation, splittable marks)"""
        r, m, e = self.rng, self.m, self.e
        if depth <= 0 or r.random() < 0.55:
            op = r.choice([e.ChartOp.ANY_WORDS, e.ChartOp.ALL_WORDS, e.ChartOp.NO_WORDS_SUBSTR, e.ChartOp.EQUALS,
                           e.ChartOp.NOT_EQUALS, e.ChartOp.ANY_WORDS_SUBSTR, e.ChartOp.REGEXP])
            return m.Criterion(r.choice(["keywords", "tag", "cf_stabilisation_atoms", "flagtypes.name", "a", "cc"]),
                               op, tuple(self.words()), negate=r.random() < 0.3, splittable=r.random() < 0.3)
        return m.ChartGroup(r.choice(list(e.Join)), tuple(self.raw_chart(depth - 1) for _ in range(r.randint(0, 3))))

    def raw_query(self):
        r = self.rng
        q = self.m.BugQuery(charts=tuple(self.raw_chart(3) for _ in range(r.randint(1, 3))),
                            limit=r.choice([None, None, 1, 25, 500, 0, -3]),
                            offset=r.choice([None, None, 0, 5, 1000, -1]),
                            order=r.choice([None, None, "", "bug_id", "changeddate DESC"]))
        return q

    # expressions: every & and any_of application is recorded as a case
    def snap(self, q, how):
        """remember what a query looks like when it is built; re-checked at the end of the run"""
        if len(self.snaps) < 4000:
            self.snaps.append((q, how, s_query(q), v_params(q)))

    def do_and(self, a, b):
        sa, sb = s_query(a), s_query(b)
        q = a & b
        if (s_query(a), s_query(b)) != (sa, sb):
            self.changed.append(("& changed an operand", {"a": sa, "b": sb}))
        self.and_cases.append((a, b, q))
        self.snap(q, "a & b")
        return q

    def do_anyof(self, ops):
        so = [s_query(o) for o in ops]
        res = impl_call(lambda: self.m.BugQuery.any_of(*ops), kinds=KINDS)
        if [s_query(o) for o in ops] != so:
            self.changed.append(("any_of changed an operand", {"operands": so}))
        self.anyof_cases.append((ops, res))
        if not isinstance(res, Err):
            self.snap(res, "any_of")
        return res

    def chart_expr(self, depth):
        r = self.rng
        x = r.random()
        if depth <= 0 or x < 0.45:
            return self.chart_leaf()[2] if r.random() < 0.7 else self.raw_query_charts_only()
        if x < 0.7:
            return self.do_and(self.chart_expr(depth - 1), self.chart_expr(depth - 1))
        ops = [self.chart_expr(depth - 1) for _ in range(r.choice([0, 1, 2, 2, 3]))]
        if r.random() < 0.08:
            ops.insert(r.randrange(len(ops) + 1), self.m.BugQuery())
        res = self.do_anyof(ops)
        return res if not isinstance(res, Err) else self.chart_leaf()[2]

    def raw_query_charts_only(self):
        return self.m.BugQuery(charts=(self.raw_chart(2),))

    def expr(self, depth):
        r = self.rng
        x = r.random()
        if depth <= 0 or x < 0.3:
            q = self.simple_leaf()[2] if r.random() < 0.6 else self.chart_expr(1)
            if r.random() < 0.15:
                q = impl_call(lambda: q.paged(r.choice([1, 10, 200]), r.choice([0, 0, 7])), kinds=KINDS)
            return q
        if x < 0.85:
            return self.do_and(self.expr(depth - 1), self.expr(depth - 1))
        if x < 0.93:  # mostly refused: any_of over plain parameters
            ops = [self.expr(depth - 1) for _ in range(r.randint(1, 3))]
            res = self.do_anyof(ops)
            return res if not isinstance(res, Err) else ops[0]
        return self.chart_expr(depth)

    # probe bugs relevant to a set of query structures
    def bugs_for(self, structs, n=4):
        r = self.rng
        uni = {}

        def add(f, vs):
            u = uni.setdefault(f, [])
            for v in vs:
                for w in [v] + v.replace(",", " ").split():
                    if w not in u:
                        u.append(w)

        def walk(c):
            if c[0] == "G":
                for x in c[2]:
                    walk(x)
            else:
                add(c[1], c[3])

        for s in structs:
            for k, vs in s["simple"]:
                add(k, vs)
            for c in s["charts"]:
                walk(c)
        bugs = []
        for i in range(n):
            p = [0.0, 1.0, 0.5, 0.25, 0.75, 0.5][i % 6]
            b = []
            for f, u in uni.items():
                vs = [w for w in u if r.random() < p]
                if r.random() < 0.2:
                    vs.append("other")
                b.append((f, vs))
            bugs.append(b)
        # deterministic probes: exactly one word in one field, everything in the other fields
        singles = [(f, w) for f, u in uni.items() for w in u[:3]]
        for f, w in singles[:5]:
            bugs.append([(g, [w] if g == f else list(u)) for g, u in uni.items()])
        return bugs


def digest(ps):
    """Pack_C37.digest: a run of >= 3 consecutive parameters with the same key becomes
    [key, first value, last value, length]; the exact values of every batch are checked by batch_oracle."""
    out, i = [], 0
    while i < len(ps):
        k, v = ps[i]
        j = i + 1
        while j < len(ps) and ps[j][0] == k:
            j += 1
        if j - i >= 3:
            out.append([k, v, ps[j - 1][1], j - i])
            i = j
        else:
            out.append([k, v])
            i += 1
    return out


def batch_oracle(q, s, base, mx, batches):
    """partition / unchanged / budget checked directly on the implementation's output, with the real
    urlencode.  Returns None or (what, detail, axis_info)."""
    ue = lambda ps: len(urllib.parse.urlencode(ps))  # noqa: E731
    P = [(str(k), str(v)) for k, v in q.params()]
    allowed = []
    if any(k == "id" for k, _ in s["simple"]):
        allowed.append(("id", None, None))
    slot = 1
    for c in s["charts"]:
        if c[0] == "C" and c[5]:
            allowed.append((f"v{slot}", c[1], slot))
        slot += nslots(c)
    if not allowed:
        return None if batches == [P] else ("no splittable axis but batches() != [query]", {"batches": batches[:3]}, None)
    # The statement speaks about the axis that was split.  With >= 2 batches that axis is determined by
    # the output (its values differ between batches, so for every other candidate "other parameters
    # unchanged" fails); with a single batch it is not, so the output is accepted iff SOME allowed axis is
    # consistent with all three clauses.  An axis without values is "nothing to split": it only counts
    # when no allowed axis has values.
    any_values = any(k == ak for ak, _, _ in allowed for k, _ in P)
    why, budget_fail, other_fail = [], None, None
    for ak, field, slot in allowed:
        vals = [v for k, v in P if k == ak]
        rest = [(k, v) for k, v in P if k != ak]
        if [v for b in batches for k, v in b if k == ak] != vals:
            why.append(f"{ak}: values of the batches are not the original values in order")
            continue
        bad = [b for b in batches if [(k, v) for k, v in b if k != ak] != rest]
        if bad:
            why.append(f"{ak}: other parameters changed in a batch")
            continue
        if not vals:
            if not any_values and len(batches) == 1:
                return None
            why.append(f"{ak}: no values, but another axis has some")
            continue
        if [b for b in batches if not any(k == ak for k, _ in b)]:
            other_fail = other_fail or ("a batch carries no value of the split axis", {"axis": ak}, None)
            continue
        fits = all(base + ue(rest + [(ak, v)]) <= mx for v in vals)
        over = [b for b in batches if base + ue(b) > mx] if fits else []
        if over:
            budget_fail = budget_fail or (
                "a batch exceeds the budget although every single value fits",
                {"axis": ak, "base": base, "max": mx, "batch_len": ue(over[0]), "batch": over[0][:8]},
                (field, slot))
            continue
        return None
    if budget_fail or other_fail:
        return budget_fail or other_fail
    return ("batches() does not partition any splittable axis", {"tried": why, "n_batches": len(batches)}, None)


# ----------------------------------------------------------------------------- evaluation inside Coq
def eval_streams(chk, streams):
    """The recorded cases are bulky (strings as code-point lists), and most of coqc's time on them is
    writing the .glob cross-reference file.  So the case tables are written as data modules
    `Cases.d_<stream>_<k>` and compiled here with `coqc -noglob`; the evaluation itself (model vs
    recorded result, spec on recorded result) still goes through `chk.coq_eval`, whose own cases
    table is left empty and whose expressions name the data module's table."""
    import concurrent.futures as cf
    import subprocess

    from .common import COQ, COQC_TIMEOUT

    mods = {}  # stream -> [module names]
    for name, ty, cases, evals in streams:
        cap = chk.n(2, 8)
        n = max(1, min(cap, (len(cases) + 199) // 200)) if name != "batches" else max(1, min(2 * cap, (len(cases) + 19) // 20))
        size = (len(cases) + n - 1) // n or 1
        mods[name] = []
        for k in range(0, max(len(cases), 1), size):
            mod = f"d_{name}_{k // size}"
            rows = [intern_row(f"({inp}, {res.term if isinstance(res, Raw) else pval(res)})")
                    for inp, res in cases[k:k + size]]
            (chk.scratch / f"{mod}.v").write_text(
                "From Coq Require Import String.\n" + IMPORTS + "\nImport ListNotations.\n" + f"Definition cases_t : Type := list (({ty}) * val).\n"
                "Local Open Scope N_scope.\n" + "Definition cases : cases_t := "
                + ("[\n" + ";\n".join(rows) + "\n].\n" if rows else "nil.\n"))
            mods[name].append(mod)

    def compile_mod(mod):
        return mod, subprocess.run(["timeout", str(COQC_TIMEOUT), "coqc", "-noglob", "-R", str(COQ), "Verif",
                                    "-Q", str(chk.scratch), "Cases", str(chk.scratch / f"{mod}.v")],
                                   capture_output=True, text=True, cwd=chk.scratch)

    with cf.ThreadPoolExecutor(max_workers=12) as ex:
        compiled = dict(ex.map(compile_mod, [m for ms in mods.values() for m in ms]))

    bad = set()
    for name, ty, cases, evals in streams:
        for mod in mods[name]:
            r = compiled[mod]
            if r.returncode != 0:
                bad.add(name)
                keep = common_replay_dir() / f"C37-{chk.seed}-{mod}.v"
                keep.write_text((chk.scratch / f"{mod}.v").read_text())
                chk.violation("correspondence", {"what": f"case table {mod} of stream '{name}' does not compile in Coq",
                                                 "file": str(keep), "stderr": r.stderr[-3000:]}, True)
    # one evaluation file for all streams: coq_eval's own table stays empty, the expressions name
    # the data modules' tables
    good = [st for st in streams if st[0] not in bad]
    evals, owner = [], []
    for name, ty, cases, evs in good:
        allc = " ++ ".join(f"{m}.cases" for m in mods[name])
        for j, e in enumerate(evs):
            evals.append(e.replace("cases", f"({allc})"))
            owner.append((name, j))
    results = {st[0]: None for st in streams}
    if good:
        req = "\nFrom Cases Require " + " ".join(m for st in good for m in mods[st[0]]) + "."
        r = chk.coq_eval("all", IMPORTS + req, "unit", [], evals)
        if r is not None:
            for name, ty, cases, evs in good:
                results[name] = [[] for _ in evs]
            for (name, j), idxs in zip(owner, r):
                results[name][j] = idxs
    return results


def common_replay_dir():
    from .common import VERIF
    d = VERIF / "replay"
    d.mkdir(exist_ok=True)
    return d


# ----------------------------------------------------------------------------- main
def main(chk: Check):
    from pkgcore.bugzilla import enums as e
    from pkgcore.bugzilla import query as m

    Q = m.BugQuery
    rng = chk.rng
    chk.rule("random searches: named constructors with 0-5 values (duplicates, blanks, commas, non-ASCII), "
             "directly built Criterion/ChartGroup trees (depth<=3, all joins, negation), & and any_of expression "
             "trees (every application recorded), paging; batches over long id / package lists with random "
             "base/max budgets incl. budgets below one value.  non-trivial = a rendered query with >=2 chart "
             "slots or >=2 plain keys; an & whose operands share a plain key or both carry charts; an any_of "
             "with >=2 operands; a batches() call that yields >=2 batches")
    ok = chk.build(["C37/Prop_C37.vo"])
    if ok:
        chk.check_assumptions("C37/Prop_C37.v")
    chk.lint(["C37"])
    chk.check_fingerprint(ANCHORS)

    g = Gen(chk, m, e)

    # ---- ctor stream
    ctor_cases = []
    for _ in range(chk.n(100, 500)):
        name, args, q = g.simple_leaf() if rng.random() < 0.5 else g.chart_leaf()
        res = [v_query(s_query(q)), v_params(q)]
        ctor_cases.append((cpair(cN(Gen.CTOR_ID[name]), c_strs(args)), res))
    chk.count("ctor", len(ctor_cases))

    # ---- expressions (fixed witnesses first, so the known classes are exercised on every run)
    g.do_and(Q.ids([1, 2]), Q.ids([2, 3]))
    g.do_and(Q.component(e.Component.STABILIZATION), Q.component(e.Component.KEYWORDING))
    g.do_and(Q.ids([1, 2]), Q.ids([2, 1, 1]))
    g.do_and(Q.ids([]), Q.ids([3]))
    g.do_anyof([g.do_and(Q.keywords("x"), Q.keywords("y")), Q.keywords("z")])
    g.do_anyof([Q(), Q.keywords("z")])
    g.do_anyof([Q.keywords(), Q.keywords("z")])
    exprs = []
    for _ in range(chk.n(70, 450)):
        q = g.expr(rng.choice([1, 2, 2, 3, 4]))
        if not isinstance(q, Err):
            exprs.append(q)
    raws = [g.raw_query() for _ in range(chk.n(40, 250))]
    for q in raws[: len(raws) // 3]:  # raw trees also take part in &
        g.do_and(q, g.expr(1))

    # ---- and stream
    and_cases, and_meta = [], []
    for a, b, q in g.and_cases:
        sa, sb = s_query(a), s_query(b)
        bugs = g.bugs_for([sa, sb])
        res = [v_params(a), v_params(b), v_query(s_query(q)), v_params(q)]
        and_cases.append((cpair(c_query(sa), c_query(sb), c_bugs(bugs)), res))
        and_meta.append((sa, sb, bugs))
        if ({k for k, _ in sa["simple"]} & {k for k, _ in sb["simple"]}) or (sa["charts"] and sb["charts"]):
            chk.nontrivial(("and", json.dumps([sa, sb], sort_keys=True)))
    chk.count("and", len(and_cases))
    chk.sample({"stream": "and", "a": and_meta[0][0], "b": and_meta[0][1], "impl_params": and_cases[0][1][3]})

    # ---- anyof stream
    anyof_cases, anyof_meta = [], []
    for ops, res in g.anyof_cases:
        so = [s_query(o) for o in ops]
        bugs = g.bugs_for(so)
        if not isinstance(res, Err):
            res = [[v_params(o) for o in ops], v_query(s_query(res)), v_params(res)]
            if len(ops) >= 2:
                chk.nontrivial(("anyof", json.dumps(so, sort_keys=True)))
        anyof_cases.append((cpair(clist([c_query(s) for s in so], "query"), c_bugs(bugs)), res))
        anyof_meta.append((so, bugs))
    chk.count("anyof", len(anyof_cases))

    # ---- params stream: every query seen so far
    seen, params_cases, params_meta = set(), [], []
    for q in exprs + raws + [x[2] for x in g.and_cases] + [r for _, r in g.anyof_cases if not isinstance(r, Err)]:
        s = s_query(q)
        key = json.dumps(s, sort_keys=True)
        if key in seen:
            continue
        seen.add(key)
        params_cases.append((c_query(s), v_params(q)))
        params_meta.append(s)
        if sum(nslots(c) for c in s["charts"]) >= 2 or len(s["simple"]) >= 2:
            chk.nontrivial(("params", key))
    params_cases = params_cases[: chk.n(250, 1800)]
    chk.count("params", len(params_cases))
    chk.sample({"stream": "params", "query": params_meta[-1], "impl": params_cases[-1][1]})

    # ---- paged stream
    paged_cases = []
    for _ in range(chk.n(40, 300)):
        q = rng.choice(exprs)
        l, o = rng.choice([1, 5, 100, 0, -1, 250]), rng.choice([0, 0, 3, 200, -1])
        res = impl_call(lambda: q.paged(l, o), kinds=KINDS)
        if not isinstance(res, Err):
            res = [v_query(s_query(res)), v_params(res)]
        paged_cases.append((cpair(c_query(s_query(q)), cZ(l), cZ(o)), res))
    chk.count("paged", len(paged_cases))

    # ---- enclen stream
    enclen_cases = []
    for q in rng.sample(exprs + raws, min(len(exprs + raws), chk.n(80, 600))):
        enclen_cases.append((c_query(s_query(q)), len(urllib.parse.urlencode(q.params()))))
    for w in ["", "a b+c/é€𝄞~_.-", "=dev-libs/foo-1.2.3_p1-r3", "%&=?#"]:
        q = Q.keywords(w, w) & Q.cc(w)
        enclen_cases.append((c_query(s_query(q)), len(urllib.parse.urlencode(q.params()))))
    chk.count("enclen", len(enclen_cases))

    # ---- batches stream
    def long_ids(n):
        start = rng.choice([1, 90, 9990, 899990, 9999990])
        return [start + i * rng.choice([1, 1, 3]) for i in range(n)]

    def long_pkgs(n, wide=True):
        pre = rng.choice(["=dev-libs/verylongpackagename", "=x11-libs/a+b", "sys-apps/é", "a"])
        return [f"{pre}{i}-1.2.3_p20240101-r3" if wide else f"p{i}" for i in range(n)]

    def batch_query():
        k = rng.randrange(10)
        n = rng.choice([0, 1, 2, 5, 20, 60, 120]) if rng.random() < 0.93 else rng.choice([250])
        if k == 0:
            q = Q.ids(long_ids(n))
        elif k == 1:
            q = Q.package_list_any(long_pkgs(n))
        elif k == 2:
            q = Q.ids(long_ids(n)) & Q.package_list_any(long_pkgs(rng.choice([0, 3, 30, 100]), rng.random() < 0.5))
        elif k == 3:  # equally wide axes: the first one is split
            q = Q.ids(["12", "3"]) & Q.package_list_any(["abc"]) & Q.package_list_any(["a", "bc"])
        elif k == 4:  # a splittable criterion behind other charts (slot > 1), maybe behind >= 9 of them
            q = Q()
            for i in range(rng.choice([1, 2, 9, 10, 12])):
                q = q & (Q.keywords(f"k{i}") if rng.random() < 0.7 else Q.any_of(Q.keywords("a"), Q.keywords("b")))
            q = q & Q.package_list_any(long_pkgs(n, rng.random() < 0.7))
        elif k == 5:  # no axis at all / splittable only inside a group
            q = rng.choice([Q.unresolved() & Q.keywords("x"),
                            Q.any_of(Q.package_list_any(long_pkgs(5))),
                            Q.cc("a@b") & Q.flag("f", e.FlagStatus.GRANTED)])
        elif k == 6:  # directly built splittable criteria: long field, negated, two of them
            c1 = m.Criterion("cf_stabilisation_atoms", e.ChartOp.ANY_WORDS, tuple(long_pkgs(n)), negate=rng.random() < 0.5,
                             splittable=True)
            c2 = m.Criterion("longfieldname", e.ChartOp.ALL_WORDS, tuple(long_pkgs(rng.choice([0, 10, 80]), False)),
                             splittable=True)
            q = Q(charts=(c1, c2) if rng.random() < 0.5 else (c2, c1))
        else:
            q = rng.choice(exprs) & Q.ids(long_ids(n))
            if rng.random() < 0.4:
                q = q & Q.package_list_any(long_pkgs(rng.choice([2, 40])))
        if rng.random() < 0.3:
            q = q & Q.unresolved() & Q(order="bug_id")
        if rng.random() < 0.2:
            q = q.paged(rng.choice([10, 500]), rng.choice([0, 20]))
        return q

    def short_field_query(nbefore, n):
        q = Q()
        for i in range(nbefore):
            q = q & Q.keywords(f"k{i}")
        return q & Q(charts=(m.Criterion("a", e.ChartOp.ANY_WORDS, tuple(f"x{i}" for i in range(n)), splittable=True),))

    batch_inputs = [(Q.ids(range(900000, 900400)), 0, 700), (Q.ids([1, 2, 3]), 0, m.MAX_URL_LENGTH),
                    (short_field_query(10, 120), 0, 400), (short_field_query(3, 40), 10, 200),
                    # two splittable criteria, the wider one has a single value that does not fit (seed 7)
                    (Q(charts=(m.Criterion("longfieldname", e.ChartOp.ALL_WORDS, tuple(f"p{i}" for i in range(10)),
                                           splittable=True),
                               m.Criterion("cf_stabilisation_atoms", e.ChartOp.ANY_WORDS,
                                           ("=x11-libs/a+b0-1.2.3_p20240101-r3",), negate=True, splittable=True))),
                     57, 200),
                    (Q.ids([1, 2, 3]) & Q.package_list_any([]), 0, 30)]
    for _ in range(chk.n(48, 300)):
        q = batch_query()
        mode = rng.random()
        if mode < 0.15:
            base, mx = rng.choice([0, 100]), rng.choice([0, 20, 60])  # below one value: one value per batch
        elif mode < 0.8:
            base, mx = rng.choice([0, 0, 57, 300]), rng.choice([120, 200, 400, 800, 1500])
        else:
            base, mx = rng.choice([0, 150]), m.MAX_URL_LENGTH
        batch_inputs.append((q, base, mx))
    # boundary-directed budgets: max_length = base + the REAL encoded length (urllib) of the query carrying
    # exactly the first k values of the axis, and that length -1 / +1.  A batch then fills the budget
    # exactly (or would overflow it by one), with and without other parameters, for both kinds of axis.
    def boundary_query(kind, ids, pkgs):
        if kind == 0:
            return Q.ids(ids)
        if kind == 1:
            return Q.ids(ids) & Q.unresolved()
        if kind == 2:
            return (Q.ids(ids) & Q.unresolved() & Q(order="bug_id")).paged(100, 20)
        if kind == 3:
            return Q.ids(ids) & Q.keywords("ALLARCHES") & Q.cc("a+b@gentoo.org")
        if kind == 4:
            return Q.package_list_any(pkgs)
        if kind == 5:
            return Q.package_list_any(pkgs) & Q.unresolved()
        if kind == 6:
            return Q.ids([7, 8]) & Q.package_list_any(pkgs) & Q.component(e.Component.STABILIZATION)
        return Q.keywords("x") & Q.any_of(Q.keywords("a"), Q.keywords("b")) & Q.package_list_any(pkgs)

    kinds = list(range(8))
    rng.shuffle(kinds)
    for kind in (kinds * 5)[: chk.n(8, 40)]:
        n = rng.randint(8, 40)
        ids, pkgs = long_ids(n), long_pkgs(n, rng.random() < 0.6)
        k = rng.randint(2, max(2, n // 2))
        exact = len(urllib.parse.urlencode(boundary_query(kind, ids[:k], pkgs[:k]).params()))
        base = rng.choice([0, 0, 57])
        full = boundary_query(kind, ids, pkgs)
        for d in (-1, 0, 1):
            batch_inputs.append((full, base, base + exact + d))
    # the splittable criterion at a chosen RENDERED slot behind a random mix of groups and single
    # criteria, so that slot and position in `charts` differ (also in their number of digits: slots
    # 9/10/11/12 and 99/100/101 at small positions), again with exact-fill budgets
    def slotted_query(target, pkgs, after):
        q, left = Q(), target - 1
        while left > 0:
            c = rng.choice([0, 0, 1, 3, 7, 20])
            if c and c + 2 <= left and rng.random() < 0.7:
                q = q & Q.any_of(*[Q.keywords(f"g{i}") for i in range(c)])
                left -= c + 2
            elif left >= 9 and rng.random() < 0.5:  # one big group: position 1 or 2, slot >= 10
                q = q & Q.any_of(*[Q.keywords(f"g{i}") for i in range(left - 2)])
                left = 0
            else:
                q = q & Q.keywords("k")
                left -= 1
        q = q & Q.package_list_any(pkgs)
        if after:
            q = q & Q.without_tags("t") & Q.unresolved()
        return q

    small, large = [10, 12, 9, 11], [100, 99, 101]
    targets = (small + [large[chk.seed % 3]]) if not (chk.thorough or chk.fingerprint_changed) else (small + large) * 3
    for target in targets:
        n = rng.randint(8, 30) if target < 50 else rng.randint(6, 10)
        pkgs = long_pkgs(n, rng.random() < 0.6)
        k = rng.randint(2, max(2, n // 2))
        after = rng.random() < 0.5
        probe = slotted_query(target, pkgs[:k], after)
        state = rng.getstate()
        exact = len(urllib.parse.urlencode(probe.params()))
        # same prefix, all values
        full = m.BugQuery(simple=probe.simple, limit=probe.limit, offset=probe.offset, order=probe.order,
                          charts=tuple(c.with_values(pkgs) if isinstance(c, m.Criterion) and c.splittable else c
                                       for c in probe.charts))
        rng.setstate(state)
        base = rng.choice([0, 57])
        for d in (-1, 0, 1):
            batch_inputs.append((full, base, base + exact + d))
    corpus = load_corpus()
    batch_inputs = [(build_query(m, c["query"]), c.get("base_length", 0), c.get("max_length", m.MAX_URL_LENGTH))
                    for c in corpus if c.get("kind") == "batches"] + batch_inputs
    batch_cases, batch_fail, lifetime_fail = [], [], []
    for q, base, mx in batch_inputs:
        s = s_query(q)
        res = impl_call(lambda: observe_batches(q, base, mx))
        if not isinstance(res, Err):
            res, problem = res
            if problem is not None:
                lifetime_fail.append((s, base, mx, problem))
        batch_cases.append((cpair(c_query(s), cZ(base), cZ(mx)),
                            res if isinstance(res, Err) else [digest(b) for b in res]))
        if isinstance(res, Err):
            batch_fail.append((s, base, mx, ("batches() raised " + res.kind, {}, None)))
            continue
        if len(res) >= 2:
            chk.nontrivial(("batches", json.dumps(s, sort_keys=True), base, mx))
        r = batch_oracle(q, s, base, mx, [[(k, v) for k, v in b] for b in res])
        if r is not None:
            batch_fail.append((s, base, mx, r))
    chk.count("batches", len(batch_cases))
    b0 = batch_inputs[0]
    chk.sample({"stream": "batches", "query": _brief(s_query(b0[0])), "base": b0[1], "max": b0[2],
                "impl_batch_sizes": [sum(e[3] if len(e) == 4 else 1 for e in b) for b in batch_cases[0][1]]})
    chk.count("batches-lifetime", 3 * len(batch_inputs))
    # queries built earlier in this run must still look the same (no state shared between objects)
    for q, how, s0, p0 in g.snaps:
        if s_query(q) != s0 or v_params(q) != p0:
            g.changed.append((f"a query built by {how} changed after it was built",
                              {"built": s0, "now": s_query(q), "params_built": p0[:8], "params_now": v_params(q)[:8]}))
    chk.count("snapshots", len(g.snaps))

    # ---- evaluate model and spec inside Coq
    QB = "list (str * list str)"
    streams = [
        ("ctor", "N * list str", ctor_cases, ["mismatches run_ctor cases"]),
        ("params", "query", params_cases,
         ["mismatches run_params cases", "where_ (fun i r => negb (spec_params_ok i r)) cases"]),
        ("and", f"query * query * list ({QB})", and_cases,
         ["mismatches run_and cases", "where_ (fun i r => negb (spec_and_ok i r)) cases"]),
        ("anyof", f"list query * list ({QB})", anyof_cases,
         ["mismatches run_anyof cases", "where_ (fun i r => negb (spec_anyof_ok i r)) cases"]),
        ("paged", "query * Z * Z", paged_cases, ["mismatches run_paged cases"]),
        ("enclen", "query", enclen_cases, ["mismatches run_enclen cases"]),
        ("batches", "query * Z * Z", batch_cases, ["mismatches run_batches_d cases"]),
    ]
    results = eval_streams(chk, streams) if ok else {}

    # ---- (B) property failures
    prop_fail = 0
    r = results.get("params")
    if r:
        for i in r[1][:3]:
            prop_fail += 1
            chk.violation("property", {"what": "rendered parameters: chart slots are not 1..n once each, OP/CP are not "
                                               "balanced, or the reference chart reader does not return the query's "
                                               "chart trees (Spec_C37.spec_params_ok)",
                                       "input": params_meta[i], "implementation": params_cases[i][1]})
    r = results.get("and")
    if r:
        for i in r[1]:
            sa, sb, bugs = and_meta[i]
            ex = {"a": sa, "b": sb, "impl_params": and_cases[i][1][3]}
            if pred_same_simple_key(sa, sb) and chk.known_finding("and-same-simple-key", ex):
                continue
            prop_fail += 1
            if prop_fail <= 6:
                chk.violation("property", {"what": "a & b is not the conjunction of a and b under the reference "
                                                   "evaluator on a probe bug (Spec_C37.spec_and_ok)",
                                           "input": {"a": sa, "b": sb, "bugs": bugs},
                                           "implementation": and_cases[i][1]})
    r = results.get("anyof")
    if r:
        for i in r[1]:
            so, bugs = anyof_meta[i]
            ex = {"operands": so, "impl": anyof_cases[i][1]}
            if pred_anyof_operand(so) and chk.known_finding("anyof-operand-not-one-chart", ex):
                continue
            prop_fail += 1
            if prop_fail <= 6:
                chk.violation("property", {"what": "any_of(...) is not the disjunction of its operands under the "
                                                   "reference evaluator on a probe bug (Spec_C37.spec_anyof_ok)",
                                           "input": {"operands": so, "bugs": bugs},
                                           "implementation": anyof_cases[i][1]})
    for s, base, mx, (what, detail) in lifetime_fail:
        prop_fail += 1
        if prop_fail <= 6:
            chk.violation("property", {"what": "batches(): " + what,
                                       "input": {"query": s, "base_length": base, "max_length": mx},
                                       "detail": detail})
    for what, detail in g.changed[:3]:
        prop_fail += 1
        chk.violation("property", {"what": what, "input": detail})
    for s, base, mx, (what, detail, axinfo) in batch_fail:
        ex = {"query": _brief(s), "base_length": base, "max_length": mx, **detail}
        if axinfo and axinfo[0] is not None and what.startswith("a batch exceeds") \
                and pred_short_field_axis(s, axinfo[0], axinfo[1]) \
                and chk.known_finding("batch-budget-short-field", ex):
            continue
        prop_fail += 1
        if prop_fail <= 6:
            chk.violation("property", {"what": "batches(): " + what, "input": {"query": s, "base_length": base,
                                                                               "max_length": mx}, "detail": detail})

    # ---- (A) model / implementation disagreements
    metas = {"ctor": None, "params": params_meta, "and": and_meta, "anyof": anyof_meta}
    for name, ty, cases, evals in streams:
        r = results.get(name)
        if not r:
            continue
        for i in r[0][:2]:
            chk.violation("correspondence",
                          {"what": f"implementation and Model_C37 disagree on stream '{name}' "
                                   "(the theorems of Prop_C37 no longer speak about this code)",
                           "input": cases[i][0][:4000], "implementation": _trim(cases[i][1])},
                          no_input=(prop_fail == 0))


def _trim(x, n=40):
    if isinstance(x, list) and len(x) > n:
        return x[:n] + ["..."]
    return x


def _brief(s):
    return {"simple": [(k, vs[:4] + (["..."] if len(vs) > 4 else [])) for k, vs in s["simple"]],
            "charts": [c if c[0] == "G" else (c[0], c[1], c[2], c[3][:4] + (["..."] if len(c[3]) > 4 else []), c[4], c[5])
                       for c in s["charts"]],
            "limit": s["limit"], "offset": s["offset"], "order": s["order"]}


def replay(chk, data):
    """Re-run one recorded case on the implementation and print what it gives now."""
    from pkgcore.bugzilla import query as m

    d = data.get("detail", {})
    inp = d.get("input")

    def mk(s):
        return build_query(m, s)

    if isinstance(inp, dict) and "a" in inp and "b" in inp:
        print("impl params(a & b):", (mk(inp["a"]) & mk(inp["b"])).params())
    elif isinstance(inp, dict) and "operands" in inp:
        print("impl any_of:", impl_call(lambda: m.BugQuery.any_of(*[mk(o) for o in inp["operands"]]).params()))
    elif isinstance(inp, dict) and "query" in inp:
        q = mk(inp["query"])
        kept, problem = observe_batches(q, inp.get("base_length", 0), inp.get("max_length", m.MAX_URL_LENGTH))
        print("impl batches (kept from list()): n=%d encoded lengths=%s" % (
            len(kept), [len(urllib.parse.urlencode(b)) for b in kept][:20]))
        print("lifetime problem:", problem)
    elif isinstance(inp, dict) and "simple" in inp:
        print("impl params:", mk(inp).params())
    print("expected by spec / model: see 'what' above; theorems: coq/C37/Prop_C37.v")
