(* GENERATED from merge/triggers.py (BaseSystemUnmergeProtection, unmerge), fs/ops.py (unmerge_contents) by harness/tables.py on every run — do not edit. *)
From Coq Require Import List ZArith NArith Bool.
Import ListNotations.
From Verif Require Import Base.Val.

(* BaseSystemUnmergeProtection._preserve_sequence, verbatim *)
Definition preserve_sequence : list str := [[47;117;115;114]%N; [47;117;115;114;47;108;105;98]%N; [47;117;115;114;47;108;105;98;54;52]%N; [47;117;115;114;47;108;105;98;51;50]%N; [47;117;115;114;47;98;105;110]%N; [47;117;115;114;47;115;98;105;110]%N; [47;98;105;110]%N; [47;115;98;105;110]%N; [47;108;105;98]%N; [47;108;105;98;51;50]%N; [47;108;105;98;54;52]%N; [47;101;116;99]%N; [47;118;97;114]%N; [47;104;111;109;101]%N; [47;114;111;111;116]%N].
(* /usr, /usr/lib, /usr/lib64, /usr/lib32, /usr/bin, /usr/sbin, /bin, /sbin, /lib, /lib32, /lib64, /etc, /var, /home, /root *)
(* trigger priorities (class attribute, inherited from `base` when not overridden) *)
Definition prot_priority : Z := (-100)%Z.
Definition unmerge_priority : Z := 50%Z.
(* errno values the rmdir loop of unmerge_contents ignores: ENOTEMPTY, ENOENT, ENOTDIR, EBUSY, EEXIST *)
Definition rmdir_ignored : list N := [39%N; 2%N; 20%N; 16%N; 17%N].
Definition E_NOENT : N := 2%N.
Definition E_NOTDIR : N := 20%N.
Definition E_NOTEMPTY : N := 39%N.
Definition E_BUSY : N := 16%N.
