#!/usr/bin/env python3
"""Re-record fingerprints/*.json against $VERIF_REPO (default /repo) using the keys already stored there.
usage: PYTHONPATH=/verif python3 tools/refingerprint.py [--check]"""
import json, sys
from pathlib import Path
sys.path.insert(0, str(Path(__file__).resolve().parent.parent))
from harness.common import fingerprint, VERIF
chk = "--check" in sys.argv
for p in sorted((VERIF / "fingerprints").glob("C*.json")):
    old = json.loads(p.read_text()); new = fingerprint(list(old))
    diff = [k for k in old if old[k] != new[k]]
    if diff:
        print(p.stem, "changed:", ", ".join(diff))
        if not chk: p.write_text(json.dumps(new, indent=1, sort_keys=True) + "\n")
    missing = [k for k, v in new.items() if v in ("missing", "syntax-error")]
    if missing: print(p.stem, "UNRESOLVED anchors:", missing)
