import json
def node(**kw):
    d={"masks":[],"unmasks":[],"ak":None,"pak":[],"pkw":[],"al":None,"use":None}; d.update(kw); return d
def world(**kw):
    w={"pkgs":[],"repo_masks":[],"user_masks":[],"user_unmasks":[],"user_ak":None,"user_pak":[],"user_pak_dir":False,
       "user_pkw":[],"user_al":None,"user_plic":[],"groups":{},"nodes":[node(ak=["a1"],use=[])],"malformed":None}
    w.update(kw); return w
def pk(c,n,v,kw,lic,slot="0"): return {"cat":c,"name":n,"ver":v,"slot":slot,"kw":kw,"lic":lic}
P=[pk("ca","p1","1",["a1"],["L1"]),pk("ca","p1","2",["~a1"],["L1"]),pk("cb","p2","1",["~b2"],["L2"]),pk("cb","p3","1",[],[])]
ws=[
 # empty match-all entry on a stable system (repaired: ~a1 accepted)
 world(pkgs=P,user_pak=[["*/*",[]]]),
 # same next to a category glob and an atom
 world(pkgs=P,user_pak=[["ca/*",[]],["cb/p2",["~b2"]],["*/*",[]]]),
 # ACCEPT_KEYWORDS wildcards without any entry
 world(pkgs=P,user_ak=["**"]), world(pkgs=P,user_ak=["~*"]), world(pkgs=P,user_ak=["*"]),
 # ... and with an unrelated entry
 world(pkgs=P,user_ak=["~*"],user_pak=[["cb/p3",["b2"]]]),
 # profile ACCEPT_LICENSE with group negation / negation only / order
 world(pkgs=P,groups={"G1":["L1"],"G2":["L2","@G1"]},nodes=[node(ak=["a1","~a1","~b2"],use=[],al=["*","-@G1"])]),
 world(pkgs=P,groups={"G1":["L1"]},nodes=[node(ak=["a1","~a1","~b2"],use=[],al=["-@G1","-L2"])]),
 world(pkgs=P,groups={"G1":["L1","L2"]},nodes=[node(ak=["a1","~a1","~b2"],use=[],al=["@G1","-L1"]),node(al=["-L2","L2"])]),
 # global negation after a same-key atom entry (replayed), and after a category glob (not replayed)
 world(pkgs=P,user_pak=[["ca/p1",["~a1"]],["*/*",["-~a1"]]]),
 world(pkgs=P,user_pak=[["ca/*",["~a1"]],["*/*",["-~a1"]]]),
 # unstable system: entries only add
 world(pkgs=P,nodes=[node(ak=["a1","~a1"],use=[])],user_pak=[["cb/p2",["-a1","~b2"]],["ca/p1",[]],["*/*",["-~a1"]]]),
 # masks: withdrawn by a child node, re-added by the user, unmask
 world(pkgs=P,repo_masks=["ca/p1"],nodes=[node(ak=["a1","~a1","~b2"],use=[],masks=["cb/p2"]),node(masks=["-ca/p1","-cb/p2","=ca/p1-2"],unmasks=["=ca/p1-2"]),node(unmasks=["-=ca/p1-2"])],user_masks=["cb/*"],user_unmasks=["*/p2"]),
 # LICENSE shapes
 world(pkgs=[pk("ca","p1","1",["a1"],[["any",["L1",["all",["L2","L3"]]]],["use",False,"f1",["L4"]],["use",True,"f2",[["any",["L3","L4"]]]]]),
             pk("ca","p2","1",["a1"],[["any",[["use",False,"f2",["L1"]]]],"L2"]),
             pk("ca","p3","1",["a1"],[["any",[["use",False,"f2",["L1"]],"L3"]]])],
       nodes=[node(ak=["a1"],use=["f1"],al=["L2","L3"])],user_plic=[["ca/p1",["L4","-L3","*","-L2"]],["*/*",[]]]),

 # wildcard rules against negated / testing-only / stable-only KEYWORDS, with a profile package.keywords addition
 world(pkgs=[pk("ca","p1","1",["-*","~b2"],[]),pk("ca","p2","1",["-a1"],[]),pk("ca","p3","1",["~b2"],[]),pk("cb","p1","1",["b2"],[]),pk("cb","p2","1",["-*"],[])],
       user_ak=["*"],nodes=[node(ak=["a1"],use=[],pkw=[["cb/p2",["~b2"]]])]),
 world(pkgs=[pk("ca","p1","1",["-*","~b2"],[]),pk("ca","p2","1",["-a1"],[]),pk("ca","p3","1",["~b2"],[]),pk("cb","p1","1",["b2"],[]),pk("cb","p2","1",["-*"],[])],
       user_pak=[["*/*",["~*"]]],nodes=[node(ak=["a1"],use=[],pkw=[["cb/p2",["~b2"]],["cb/p1",["a1"]]])]),
 world(pkgs=[pk("ca","p1","1",["-*","b2"],[]),pk("ca","p2","1",["-a1"],[]),pk("cb","p2","1",["-*"],[])],
       user_pak=[["ca/*",["**"]],["cb/p2",["*"]]],nodes=[node(ak=["a1"],use=[],pkw=[["cb/p2",["b2"]]])]),
 # order of ACCEPT_LICENSE and package.license; group negation after a member was added
 world(pkgs=[pk("ca","p1","1",["a1"],["L1"]),pk("ca","p2","1",["a1"],["L2"]),pk("ca","p3","1",["a1"],[["any",["L3","L1"]]])],
       groups={"G1":["L1","L3"]},user_al=["L3","-*"],user_plic=[["ca/p1",["L1"]],["ca/p2",["@G1","L2","-@G1"]],["ca/p3",["@G1","-@G1"]]]),
]
json.dump(ws,open("/verif/corpus/C13/seed.json","w"),indent=0)
print(len(ws))
