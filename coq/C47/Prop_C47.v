(* Prop_C47.v — the property theorems of C47 and nothing else. *)
From Coq Require Import List NArith ZArith Bool.
Import ListNotations.
From Verif Require Import Base.Val C18.Fs C47.Model_C47 C47.Spec_C47 C47.Proofs_C47.

(* a sync that does not install a new tree (failed download, failed unpack, HTTP error, nothing
   new) leaves the repository untouched — at the end and in every crash state on the way,
   for the repaired and for the pinned code *)
Theorem failed_sync_untouched :
  forall fixed force sv tar chunk s0 b s',
    base s0 = Some b ->
    snd (sync fixed force sv tar chunk s0) <> Updated ->
    crash_of (fst (sync fixed force sv tar chunk s0)) (fresh s0) s' ->
    base s' = Some b.
Proof. exact failed_sync_untouched_proof. Qed.
Print Assumptions failed_sync_untouched.

(* every crash state of an updating sync holds the old or the new tree at the path — except
   the one state between the two renames (known finding rename-window) *)
Theorem crash_old_or_new_partial :
  forall force sv tar chunk s0 t0 s',
    recoverable s0 -> base s0 = Some (SDir t0) -> meta_free (fst tar) ->
    snd (sync true force sv tar chunk s0) = Updated ->
    crash_of (fst (sync true force sv tar chunk s0)) (fresh s0) s' ->
    old_or_new (Some (SDir t0)) (fst tar) s' \/ window t0 (fst tar) s'.
Proof. exact crash_old_or_new_partial_proof. Qed.
Print Assumptions crash_old_or_new_partial.

(* the full statement is false of the faithful model: the window state is reachable *)
Theorem crash_old_or_new_refuted : ~ crash_old_or_new_statement.
Proof. exact crash_old_or_new_refuted_proof. Qed.
Print Assumptions crash_old_or_new_refuted.

(* whatever a crash leaves is again a state a sync can start from *)
Theorem crash_preserves_recoverable :
  forall fixed force sv tar chunk s s',
    recoverable s -> crash_of (fst (sync fixed force sv tar chunk s)) (fresh s) s' -> recoverable s'.
Proof. exact crash_preserves_recoverable_proof. Qed.
Print Assumptions crash_preserves_recoverable.

(* from any such state the (repaired) sync with a working server and unpacker runs to the end:
   all its steps apply, no staging directory is left, and the path holds the complete new tree
   (or, when the server says nothing changed, the previous tree — put back if it was parked) *)
Theorem next_sync_completes :
  forall force sv tar chunk s,
    recoverable s -> good_srv sv -> snd tar = true -> meta_free (fst tar) ->
    exists sf, run_opt (fst (sync true force sv tar chunk s)) (fresh s) = Some sf /\ clean sf /\
      ((snd (sync true force sv tar chunk s) = Updated /\ holds_new (fst tar) sf) \/
       (snd (sync true force sv tar chunk s) = Unchanged /\ base sf = logical s)).
Proof. exact next_sync_completes_proof. Qed.
Print Assumptions next_sync_completes.

(* ... after any number of syncs interrupted at any points *)
Theorem next_sync_after_any_history : next_sync_statement true.
Proof. exact next_sync_after_any_history_proof. Qed.
Print Assumptions next_sync_after_any_history.

(* the pinned code (before the repair) violates it: stale staging directories *)
Theorem legacy_next_sync_refuted : ~ next_sync_statement false.
Proof. exact legacy_next_sync_refuted_proof. Qed.
Print Assumptions legacy_next_sync_refuted.
