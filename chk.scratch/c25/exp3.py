import os, tempfile, shutil, io, bz2
import tarfile as std
from pkgcore.fs import tar
from pkgcore.fs._tar import tarfile
d = tempfile.mkdtemp(prefix="c25x_")
try:
    p = d+"/f.tar"
    with open(p,"wb") as f:
        tf = std.TarFile(fileobj=f, mode="w")
        ti = std.TarInfo("./d"); ti.type=b"5"; tf.addfile(ti)
        ti = std.TarInfo("./d/z"); ti.size=3; tf.addfile(ti, io.BytesIO(b"abc"))
        ti = std.TarInfo("./d/y"); ti.type=b"1"; ti.linkname="d//z"; tf.addfile(ti)
        tf.close()
    print(list(tar.convert_archive(tarfile.TarFile(name=p, mode="r"))))
    open(p+".bz2","wb").write(bz2.compress(open(p,"rb").read()))
    print(list(tar.generate_contents(p+".bz2")))
finally:
    shutil.rmtree(d)
