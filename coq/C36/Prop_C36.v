(* Prop_C36.v — the property theorems of C36 and nothing else.
   [fetch H i] = (result, final file at distdir/filename, events); for every checksum function H,
   target, URI list, outcome sequence of any length, attempt budget and initial file. *)
From Coq Require Import List NArith ZArith Bool Arith.
Import ListNotations.
From Verif Require Import Base.Val C36.Model_C36 C36.Spec_C36 C36.Proofs_C36.

(* a fetch returns a path only if the file there has the expected size and every checksum *)
Theorem only_verified : forall H i ff ev,
  fetch H i = (RPath, ff, ev) -> verified H (tgt i) ff.
Proof. exact only_verified_proof. Qed.
Print Assumptions only_verified.

(* a file with a wrong checksum (or size) is never reported as fetched *)
Theorem never_wrong_checksum : forall H i ff ev,
  fetch H i = (RPath, ff, ev) -> ~ wrong_checksum H (tgt i) ff /\ ~ wrong_size (tgt i) ff.
Proof. exact never_wrong_checksum_proof. Qed.
Print Assumptions never_wrong_checksum.

(* it does return one whenever the file is already good or some attempt leaves such a file
   (holds for the repaired loop; [legacy_last_attempt_unverified] is what the unpatched one does) *)
Theorem uses_every_attempt : forall H i r ff ev,
  fetch H i = (r, ff, ev) ->
  (verified H (tgt i) (file0 i) \/ exists e, In e ev /\ good_event H (tgt i) e) -> r = RPath.
Proof. exact uses_every_attempt_proof. Qed.
Print Assumptions uses_every_attempt.

(* resumable partial files go unchanged to the resume command, which is used for nothing else,
   and a partial file present when the fetch ends is left in place *)
Theorem partial_kept_for_resume : forall H i r ff ev,
  fetch H i = (r, ff, ev) -> kept (tgt i) (file0 i) ev ff.
Proof. exact partial_kept_for_resume_proof. Qed.
Print Assumptions partial_kept_for_resume.

(* a failing fetch has spent min(attempts, #URIs) commands — outside the known class: it raised
   ChksumFailure on an oversized / wrong-checksum file, which it leaves in place *)
Theorem gives_up_only_when_exhausted_partial : forall H i e ff ev,
  fetch H i = (RErr e, ff, ev) -> tbad (tgt i) = false ->
  length ev = Nat.min (attempts i) (length (uris i))
  \/ (chksum_err e /\ stuck H (tgt i) (last_state (file0 i) ev) /\ ff = last_state (file0 i) ev).
Proof. exact gives_up_only_when_exhausted_partial_proof. Qed.
Print Assumptions gives_up_only_when_exhausted_partial.

(* an attempt within the budget whose outcome is good whatever it finds yields a path — or the
   fetch stopped before it in the known class *)
Theorem every_attempt_counts_partial : forall H i k r ff ev,
  fetch H i = (r, ff, ev) ->
  (k < Nat.min (attempts i) (length (uris i)))%nat -> robust_good H (tgt i) (nth k (outs i) idle) ->
  r = RPath \/ (exists e, r = RErr e /\ chksum_err e /\ (length ev <= k)%nat
                          /\ stuck H (tgt i) (last_state (file0 i) ev)).
Proof. exact every_attempt_counts_partial_proof. Qed.
Print Assumptions every_attempt_counts_partial.

(* the full counterfactual statements are false of the code (witness: corrupt, then correct) *)
Theorem gives_up_only_when_exhausted_refuted : ~ gives_up_only_when_exhausted_full.
Proof. exact Proofs_C36.gives_up_only_when_exhausted_refuted. Qed.
Print Assumptions gives_up_only_when_exhausted_refuted.

Theorem every_attempt_counts_refuted : ~ every_attempt_counts_full.
Proof. exact Proofs_C36.every_attempt_counts_refuted. Qed.
Print Assumptions every_attempt_counts_refuted.

(* each spawned command gets the next URI, and is the scripted outcome applied to what it found *)
Theorem one_uri_per_attempt : forall H i r ff ev,
  fetch H i = (r, ff, ev) ->
  map euri ev = firstn (length ev) (uris i) /\ world_ok (has_resume i) (outs i) ev
  /\ (length ev <= Nat.min (attempts i) (length (uris i)))%nat.
Proof. exact one_uri_per_attempt_proof. Qed.
Print Assumptions one_uri_per_attempt.

(* the unpatched loop: one attempt, nothing in distdir => MissingDistfile whatever was downloaded *)
Theorem legacy_last_attempt_unverified : forall H hasres T u us outs,
  tbad T = false ->
  fst (fst (loop_legacy H hasres 1 T (u :: us) outs None EUnknown)) = RErr EMissing.
Proof. exact legacy_last_attempt_unverified_proof. Qed.
Print Assumptions legacy_last_attempt_unverified.

(* a uri_list yields one URI per plain entry and per host of every mirror entry *)
Theorem uri_iter_count : forall fname l, length (uri_iter fname l) = uri_count l.
Proof. exact uri_iter_count_proof. Qed.
Print Assumptions uri_iter_count.
