"""C22 — contents sets behave like path-keyed maps (DESIGN §6 C22).

Streams
  path   os.path.normpath / dirname / join on every string over {"/", ".", "a"} up to a length
         (exhaustive) + random ones                       impl vs Model_C22.{normpath,dirname,pjoin} (A)
                                                          normpath idempotent on the result (B, Coq + Python)
  ops    random contentsSet, random operation sequence, arguments of every accepted kind
         (fs object, path string, contentsSet, list, iterator), unnormalised spellings
                                                          impl vs Model_C22.run_ops                (A)
         every step also against a plain dict keyed by os.path.normpath (B, direct oracle)
  step   only when `ops` disagrees: the steps of the disagreeing sequences as single-op cases,
         to name the first operation on which model and implementation differ.
"""

import itertools
import json
import os.path

from .common import VERIF, Check, Err, cN, cbool, clist, cpair, cstr, impl_call

IMPORTS = ("From Coq Require Import List NArith ZArith Bool.\n"
           "From Verif Require Import Base.Val C22.Model_C22 C22.Spec_C22.")
ANCHORS = ["fs/contents.py::contentsSet", "fs/contents.py::change_offset_rewriter",
           "fs/contents.py::check_instance", "fs/fs.py::fsBase"]
np = os.path.normpath

NAMES = ["a", "b", "c", "usr", "lib", "x"]
BIN = ["difference", "intersection", "union", "symmetric_difference"]
UPD = ["difference_update", "intersection_update", "symmetric_difference_update", "update"]
TEST = ["issubset", "issuperset", "isdisjoint"]
ERRS = ("KeyError", "AttributeError", "TypeError", "ValueError")


# ----------------------------------------------------------------------------- Coq rendering
def c_raw(r):
    return cpair(cstr(r[0]), cN(r[1]), cN(r[2]))


def c_item(it):
    return f"(RS {cstr(it[1])})" if it[0] == "s" else f"(RE {c_raw(it[1])})"


def c_arg(a):
    if a[0] == "cs":
        return f"(RCs {cbool(a[1])} {clist([c_raw(r) for r in a[2]], 'rawent')})"
    ctor = "RList" if a[0] == "list" else "RIter"
    return f"({ctor} {clist([c_item(i) for i in a[1]], 'ritem')})"


def c_op(o):
    k = o[0]
    if k == "add":
        return f"(OAdd {c_raw(o[1])})"
    if k in ("remove", "discard", "get", "has"):
        return "(%s %s)" % ({"remove": "ORemove", "discard": "ODiscard", "get": "OGet", "has": "OHas"}[k], c_item(o[1]))
    if k == "clear":
        return "OClear"
    if k == "bin":
        return f"(OBin {cN(o[1])} {c_arg(o[2])})"
    if k == "upd":
        return f"(OUpd {cN(o[1])} {c_arg(o[2])})"
    if k == "test":
        return f"(OTest {cN(o[1])} {c_arg(o[2])})"
    if k == "choff":
        return f"(OChOff {cstr(o[1])} {cstr(o[2])})"
    if k == "insoff":
        return f"(OInsOff {cstr(o[1])})"
    if k == "missing":
        return f"(OMissing {cN(o[1])})"
    if k == "child":
        return f"(OChild {cstr(o[2])})"
    raise ValueError(k)


def c_case(mutable, init, ops):
    return cpair(cbool(mutable), clist([c_raw(r) for r in init], "rawent"), clist([c_op(o) for o in ops], "op"))


# ----------------------------------------------------------------------------- generator
class Gen:
    def __init__(self, rng):
        self.rng = rng
        self.tag = 0

    def newtag(self):
        self.tag += 1
        return self.tag

    def path(self):
        r = self.rng
        n = r.choice([1, 1, 2, 2, 2, 3, 3, 4])
        p = "/" + "/".join(r.choice(NAMES) for _ in range(n))
        q = r.random()
        if q < 0.03:
            return p[1:]              # relative
        if q < 0.06:
            return "/" + p            # POSIX alternate root //
        return p

    def spell(self, p, force=False):
        """an (often) unnormalised spelling of p with the same normpath (checked)"""
        r = self.rng
        if not force and r.random() < 0.45:
            return p
        for _ in range(6):
            parts = p.split("/")
            out = []
            for i, c in enumerate(parts):
                out.append(c)
                if i == len(parts) - 1:
                    break
                q = r.random()
                if i == 0 and c == "" and p.startswith("//"):
                    continue          # do not disturb a leading //
                if q < 0.25:
                    out.append("")            # a//b
                elif q < 0.4:
                    out.append(".")           # a/./b
                elif q < 0.5 and i > 0:
                    out += ["zz", ".."]       # a/zz/../b
            s = "/".join(out)
            q = r.random()
            if q < 0.2:
                s += "/"
            elif q < 0.3:
                s += "/."
            elif q < 0.35 and s.startswith("/") and not s.startswith("//"):
                s = "//" + s          # three leading slashes collapse to one
            if np(s) == np(p) and (s != p or not force):
                return s
        return p

    def raw(self, p=None):
        return (self.spell(p if p is not None else self.path()), self.rng.choice([0, 0, 0, 1, 1, 2, 3, 4]), self.newtag())

    def pick_path(self, keys):
        if keys and self.rng.random() < 0.7:
            return self.rng.choice(keys)
        return self.path()

    def item(self, keys, kind=None):
        kind = kind or self.rng.choice(["e", "e", "s"])
        p = self.pick_path(keys)
        if kind == "s":
            return ("s", self.spell(p))
        return ("e", self.raw(p))

    def arg(self, keys, opname):
        r = self.rng
        n = r.choice([0, 1, 1, 2, 2, 3, 4])
        fl = r.choice(["cs", "cs", "cs", "list_e", "iter_e", "list_s", "iter_s", "list_m"])
        if fl == "cs":
            return ("cs", r.random() < 0.8, [self.raw(self.pick_path(keys)) for _ in range(n)]), fl
        if fl == "list_m":       # malformed: strings among fs objects
            its = [self.item(keys) for _ in range(max(n, 1))]
            return ("list" if r.random() < 0.5 else "iter", its), fl
        its = [self.item(keys, "e" if fl.endswith("_e") else "s") for _ in range(n)]
        return ("list" if fl.startswith("list") else "iter", its), fl

    def offset(self, keys):
        r = self.rng
        q = r.random()
        if keys and q < 0.6:
            k = r.choice(keys)
            parts = k.split("/")
            cut = r.randint(1, max(1, len(parts) - 1))
            base = "/".join(parts[:cut]) or "/"
        elif q < 0.8:
            base = "/"
        else:
            base = "/" + r.choice(NAMES)
        q = r.random()
        if q < 0.25:
            return base + "/"
        if q < 0.32:
            return self.spell(base, force=True)
        return base

    def new_offset(self):
        r = self.rng
        q = r.random()
        if q < 0.15:
            return "/"
        p = "/" + "/".join(r.choice(["img", "opt", "a", "usr"]) for _ in range(r.choice([1, 1, 2])))
        if q < 0.4:
            return self.spell(p, force=True)
        return p

    def op(self, keys):
        r = self.rng
        q = r.random()
        if q < 0.10:
            return ("add", self.raw(self.pick_path(keys) if r.random() < 0.4 else None))
        if q < 0.18:
            return ("remove", self.item(keys))
        if q < 0.27:
            return ("discard", self.item(keys))
        if q < 0.33:
            return ("get", self.item(keys))
        if q < 0.40:
            return ("has", self.item(keys))
        if q < 0.41:
            return ("clear",)
        if q < 0.60:
            b = r.randrange(4)
            a, fl = self.arg(keys, BIN[b])
            return ("bin", b, a, fl)
        if q < 0.74:
            u = r.choice([0, 0, 1, 1, 2, 2, 3])
            a, fl = self.arg(keys, UPD[u])
            return ("upd", u, a, fl)
        if q < 0.86:
            t = r.randrange(3)
            a, fl = self.arg(keys, TEST[t])
            return ("test", t, a, fl)
        if q < 0.90:
            return ("choff", self.offset(keys), self.new_offset())
        if q < 0.93:
            return ("insoff", self.new_offset())
        if q < 0.97:
            return ("missing", 900 + r.randrange(5))
        p = self.pick_path(keys)
        d = os.path.dirname(p) if r.random() < 0.7 else p
        return ("child", r.choice(["str", "dir", "sym"]), self.spell(d or "/"))


# ----------------------------------------------------------------------------- implementation driver
class Driver:
    def __init__(self):
        from pkgcore.fs import contents, fs
        self.fs, self.contents = fs, contents
        self.classes = [fs.fsFile, fs.fsDir, fs.fsSymlink, fs.fsFifo, fs.fsDev]

    def mk(self, r):
        p, k, t = r
        if k == 2:
            return self.fs.fsSymlink(p, "tgt", strict=False, mtime=t)
        return self.classes[k](p, strict=False, mtime=t)

    def kind(self, e):
        for i, c in enumerate(self.classes):
            if type(e) is c:
                return i
        return 99

    def enc(self, e):
        return [e.location, self.kind(e), e.mtime]

    def order(self, s):
        return [self.enc(e) for e in s]

    def snap(self, s):
        return [bool(s.mutable), sorted(self.order(s))]

    def item(self, it):
        return it[1] if it[0] == "s" else self.mk(it[1])

    def arg(self, a):
        if a[0] == "cs":
            return self.contents.contentsSet([self.mk(r) for r in a[2]], mutable=a[1])
        l = [self.item(i) for i in a[1]]
        return l if a[0] == "list" else iter(l)

    def new(self, mutable, init):
        return self.contents.contentsSet([self.mk(r) for r in init], mutable=mutable)

    def step(self, cur, o):
        """returns (reported value, new current set, stop)"""
        k = o[0]
        kinds = {e: e for e in ERRS}

        def call(f):
            return impl_call(f, kinds=kinds)

        if k == "add":
            r = call(lambda: cur.add(self.mk(o[1])))
            return r, cur, False
        if k == "remove":
            return call(lambda: cur.remove(self.item(o[1]))), cur, False
        if k == "discard":
            return call(lambda: cur.discard(self.item(o[1]))), cur, False
        if k == "get":
            return call(lambda: self.enc(cur[self.item(o[1])])), cur, False
        if k == "has":
            return call(lambda: self.item(o[1]) in cur), cur, False
        if k == "clear":
            return call(cur.clear), cur, False
        if k == "bin":
            r = call(lambda: getattr(cur, BIN[o[1]])(self.arg(o[2])))
            if isinstance(r, Err):
                return r, cur, False
            return None, r, False
        if k == "upd":
            r = call(lambda: getattr(cur, UPD[o[1]])(self.arg(o[2])))
            return r, cur, False      # a bulk update that raised half-way leaves `cur` half-updated: compared too
        if k == "test":
            return call(lambda: bool(getattr(cur, TEST[o[1]])(self.arg(o[2])))), cur, False
        if k == "choff":
            r = call(lambda: cur.change_offset(o[1], o[2]))
        elif k == "insoff":
            r = call(lambda: cur.insert_offset(o[1]))
        elif k == "child":
            st = o[2]
            if o[1] == "dir":
                st = self.fs.fsDir(st, strict=False)
            elif o[1] == "sym":
                st = self.fs.fsSymlink("/somewhere/else", st, strict=False)
            r = call(lambda: cur.child_nodes(st))
        elif k == "missing":
            before = [e.location for e in cur]

            def f():
                cur.add_missing_directories(mtime=o[1])
                # the new directories come out of a Python set of strings (hash order): rebuild the
                # dict in the order old entries, then new ones sorted, which is the model's order
                old = [cur[x] for x in before]
                new = sorted((e for e in cur if e.location not in set(before)), key=lambda e: e.location)
                return self.contents.contentsSet(old + new, mutable=cur.mutable)
            r = call(f)
        else:
            raise ValueError(k)
        if isinstance(r, Err):
            return r, cur, False
        return None, r, False


# ----------------------------------------------------------------------------- (B) the dict oracle
def raw_key(r):
    return np(r[0])


def item_key(it):
    return np(it[1]) if it[0] == "s" else np(it[1][0])


def arg_items(a):
    if a[0] == "cs":
        return [("e", r) for r in a[2]]
    return list(a[1])


def arg_map(a):
    """key -> (kind, tag), last one wins; None if an item is not an fs object"""
    m = {}
    for it in arg_items(a):
        if it[0] != "e":
            return None
        m[np(it[1][0])] = (it[1][1], it[1][2])
    return m


def ancestors(k):
    out = []
    while True:
        d = os.path.dirname(k)
        out.append(d)
        if d == k:
            return out
        k = d


def reloc_expected(new, rest):
    root = "//" if new.startswith("//") and not new.startswith("///") else "/"
    st = []
    for c in new.split("/") + rest.split("/"):
        if c in ("", "."):
            continue
        if c == "..":
            if st:
                st.pop()
        else:
            st.append(c)
    return root + "/".join(st)


SKIP = object()


def oracle(ref, mutable, o):
    """expected (value, resulting map) by the path-keyed-map reading of the property, from the
    map `ref` (normpath -> (kind, tag)) read off the implementation's set before the op.
    Returns SKIP when the op/argument is outside the property's domain."""
    k = o[0]
    ref = dict(ref)
    if k == "add":
        if not mutable:
            return SKIP
        ref[raw_key(o[1])] = (o[1][1], o[1][2])
        return None, ref
    if k == "remove":
        if not mutable:
            return SKIP
        key = item_key(o[1])
        if key not in ref:
            return Err("KeyError"), ref
        del ref[key]
        return None, ref
    if k == "discard":
        ref.pop(item_key(o[1]), None)
        return None, ref
    if k == "get":
        key = item_key(o[1])
        return ([key, *ref[key]] if key in ref else Err("KeyError")), ref
    if k == "has":
        return item_key(o[1]) in ref, ref
    if k == "clear":
        return SKIP if not mutable else (None, {})
    if k in ("bin", "upd", "test"):
        a = o[2]
        keys = {item_key(i) for i in arg_items(a)}
        name = {"bin": BIN, "upd": UPD, "test": TEST}[k][o[1]]
        if k == "upd" and not mutable:
            return SKIP
        if name in ("difference", "difference_update"):
            return None, {x: v for x, v in ref.items() if x not in keys}
        if name == "intersection_update":
            return None, {x: v for x, v in ref.items() if x in keys}
        if name == "issubset":
            return all(x in keys for x in ref), ref
        if name == "issuperset":
            return all(x in ref for x in keys), ref
        if name == "isdisjoint":
            return not any(x in keys for x in ref), ref
        am = arg_map(a)
        if am is None:
            return SKIP          # value-producing operations need fs objects
        if name == "intersection":
            return None, {x: v for x, v in ref.items() if x in am}
        if name == "union":
            m = dict(am)
            m.update(ref)
            return None, m
        if name == "update":
            ref.update(am)
            return None, ref
        # symmetric difference
        if a[0] == "list" and len({item_key(i) for i in a[1]}) != len(a[1]):
            return SKIP          # which duplicate of a list wins is not fixed by the property
        m = {x: v for x, v in ref.items() if x not in am}
        m.update({x: v for x, v in am.items() if x not in ref})
        return None, m
    if k in ("choff", "insoff"):
        old, new = (o[1], o[2]) if k == "choff" else ("/", o[1])
        nold = np(old)
        if not new.startswith("/") or not nold.startswith("/"):
            return SKIP
        pre = nold.rstrip("/")
        out = {}
        for x, v in ref.items():
            if not (x == nold or x.startswith(pre + "/")) or (x.startswith("//") != nold.startswith("//")):
                return SKIP      # an entry outside the old prefix: relocation says nothing about it
            nk = reloc_expected(new, x[len(pre):])
            if nk in out:
                return SKIP
            out[nk] = v
        return None, out
    if k == "missing":
        for x in list(ref):
            for a in ancestors(x):
                if a != "/" and np(a) not in ref:
                    ref[np(a)] = (1, o[1])
        return None, ref
    if k == "child":
        d = np(o[2]).rstrip("/")
        return None, {x: v for x, v in ref.items() if x.startswith(d + "/")}
    raise ValueError(k)


# ---- known-finding class predicates (on the op; see known_findings/C22.json)
def raw_in_container(o):
    """difference / intersection_update / issubset / isdisjoint evaluate a raw `location in other`:
    wrong when `other` is a list holding fs objects, or holds a path string that is not normalised"""
    if o[0] not in ("bin", "upd", "test"):
        return False
    name = {"bin": BIN, "upd": UPD, "test": TEST}[o[0]][o[1]]
    if name not in ("difference", "intersection_update", "issubset", "isdisjoint"):
        return False
    a = o[2]
    if a[0] == "cs":
        return False
    for it in a[1]:
        if it[0] == "e" and a[0] == "list":
            return True
        if it[0] == "s" and np(it[1]) != it[1]:
            return True
    return False


def intersection_arg_objects(o, ref, got_map):
    """intersection() returns the ARGUMENT's objects for the common paths"""
    if o[0] != "bin" or BIN[o[1]] != "intersection":
        return False
    am = arg_map(o[2])
    if am is None or got_map is None:
        return False
    return set(got_map) == {x for x in ref if x in am} and all(got_map[x] == am[x] for x in got_map) \
        and any(am[x] != ref[x] for x in got_map)


def symdiff_list_class_equality(o, ref):
    """symmetric_difference(_update) given a list: membership of self's objects in the list is
    fsBase.__eq__ (class AND location), so a common path held with another class is kept"""
    if o[0] not in ("bin", "upd"):
        return False
    name = (BIN if o[0] == "bin" else UPD)[o[1]]
    if not name.startswith("symmetric_difference") or o[2][0] != "list":
        return False
    return any(it[0] == "e" and np(it[1][0]) in ref and ref[np(it[1][0])][0] != it[1][1] for it in o[2][1])


def change_offset_unnormalised_old(o):
    """change_offset strips len(old.rstrip('/')) characters: wrong when old is not normalised"""
    return o[0] == "choff" and len(o[1].rstrip("/")) != len(np(o[1]).rstrip("/"))


def classify(o, ref, got_map):
    if raw_in_container(o):
        return "raw-in-container"
    if intersection_arg_objects(o, ref, got_map):
        return "intersection-arg-objects"
    if symdiff_list_class_equality(o, ref):
        return "symdiff-list-class-equality"
    if change_offset_unnormalised_old(o):
        return "change-offset-unnormalised-old"
    return None


def jop(o):
    return list(o[:4]) if o[0] in ("bin", "upd", "test") else list(o)


# ----------------------------------------------------------------------------- main
def path_cases(chk):
    rng = chk.rng
    alpha = "/.a"
    strs = [""]
    for n in range(1, chk.n(6, 7) + 1):
        strs += ["".join(t) for t in itertools.product(alpha, repeat=n)]
    for _ in range(chk.n(300, 3000)):
        strs.append("".join(rng.choice("//..ab") for _ in range(rng.randint(5, 14))))
    cases, bad = [], []
    for s in strs:
        r = np(s)
        cases.append((cpair(cN(0), cstr(s), cstr("")), r))
        if np(r) != r:
            bad.append({"what": "os.path.normpath is not idempotent", "input": s, "once": r, "twice": np(r)})
        if r != s and s:
            chk.nontrivial(("np", s))
    sub = strs if chk.thorough else rng.sample(strs, min(len(strs), 500))
    for s in sub:
        cases.append((cpair(cN(1), cstr(s), cstr("")), os.path.dirname(s)))
    for _ in range(chk.n(300, 3000)):
        a, b = rng.choice(strs[:400]), rng.choice(strs[:400])
        cases.append((cpair(cN(2), cstr(a), cstr(b)), os.path.join(a, b)))
    return cases, bad


def main(chk: Check):
    chk.rule("ops: random contentsSet (0-7 fs objects over a 6-name alphabet, depth<=4, ~55% of spellings "
             "unnormalised: //, /./, trailing /, /zz/.., ///, relative and //-rooted rarely), 1-7 random operations "
             "with arguments of each kind (fs object, path string, contentsSet, list, iterator; a separate "
             "malformed flavour mixes strings among objects); non-trivial = a step whose argument holds a "
             "spelling different from its normalised path that is a key of the current set or of the argument. "
             "path: every string over {'/','.','a'} up to length 6 (thorough: 7) + random; non-trivial = normpath changes it")
    ok = chk.build(["C22/Prop_C22.vo"])
    if ok:
        chk.check_assumptions("C22/Prop_C22.v")
    chk.lint(["C22"])
    chk.check_fingerprint(ANCHORS)

    # ---- path stream
    pcases, pbad = path_cases(chk)
    chk.count("path", len(pcases))
    for b in pbad[:3]:
        chk.violation("property", b)

    # ---- ops stream
    drv = Driver()
    gen = Gen(chk.rng)
    rng = chk.rng
    seqs = []          # (case term, impl result, trace) ; trace = [(order_before, mutable_before, op)]
    prop_fail = []
    hist = {}
    corpus = []
    for f in sorted((VERIF / "corpus" / "C22").glob("*.json")):
        for c in json.loads(f.read_text()):
            corpus.append((c["mutable"], [tuple(r) for r in c["init"]], [_tup(o) for o in c["ops"]]))
    for n_case in range(len(corpus) + chk.n(500, 4000)):
        if n_case < len(corpus):
            mutable, init, fixed_ops = corpus[n_case]
        else:
            mutable = rng.random() < 0.85
            init = [gen.raw() for _ in range(rng.choice([0, 1, 2, 3, 3, 4, 5, 6, 7]))]
            fixed_ops = None
        cur = drv.new(mutable, init)
        res = [drv.snap(cur)]
        ops, trace = [], []
        for n_op in range(len(fixed_ops) if fixed_ops is not None else rng.randint(1, 7)):
            keys = [e.location for e in cur]
            o = fixed_ops[n_op] if fixed_ops is not None else gen.op(keys)
            before = drv.order(cur)
            mut_before = bool(cur.mutable)
            v, nxt, stop = drv.step(cur, o)
            snap = drv.snap(nxt)
            ops.append(o)
            trace.append((before, mut_before, o))
            res.append([v, snap])
            name = o[0] if o[0] not in ("bin", "upd", "test") else {"bin": BIN, "upd": UPD, "test": TEST}[o[0]][o[1]]
            hk = name + (":" + o[3] if len(o) > 3 and o[0] in ("bin", "upd", "test") else "")
            hist[hk] = hist.get(hk, 0) + 1
            if isinstance(v, Err):
                hist["err:" + v.kind] = hist.get("err:" + v.kind, 0) + 1
            # non-triviality
            spelled = []
            if o[0] in ("remove", "discard", "get", "has"):
                spelled = [o[1]]
            elif o[0] in ("bin", "upd", "test"):
                spelled = arg_items(o[2])
            elif o[0] == "add":
                spelled = [("e", o[1])]
            for it in spelled:
                sp = it[1] if it[0] == "s" else it[1][0]
                if np(sp) != sp and (np(sp) in keys or o[0] in ("add", "bin", "upd")):
                    chk.nontrivial((hk, sp))
                    break
            # (B) dict oracle on this step
            ref = {e[0]: (e[1], e[2]) for e in before}
            exp = oracle(ref, mut_before, o)
            if exp is not SKIP:
                ev, emap = exp
                got_map = {e[0]: (e[1], e[2]) for e in snap[1]}
                same = emap == got_map and ev == v
                if not same:
                    cls = classify(o, ref, None if isinstance(v, Err) else got_map)
                    ex = {"set": before, "mutable": mut_before, "op": jop(o),
                          "expected": [ev, sorted([k, *w] for k, w in emap.items())],
                          "implementation": [v, snap[1]]}
                    if cls is None or not chk.known_finding(cls, ex):
                        prop_fail.append(ex)
            cur = nxt
            if stop:
                break
        seqs.append((c_case(mutable, init, ops), res, trace))
    chk.count("ops", len(seqs))
    chk.count("ops-steps", sum(len(s[2]) for s in seqs))
    chk.cov["histogram"] = dict(sorted(hist.items()))
    for s in seqs[:: max(1, len(seqs) // 3)][:3]:
        chk.sample({"stream": "ops", "input": s[0][:600], "impl": s[1]})

    for f in prop_fail[:3]:
        chk.violation("property", {"what": "a contentsSet operation differs from the same operation on a dict "
                                            "keyed by normalised path", "input": f})

    if not ok:
        return
    have_fail = bool(prop_fail or pbad)
    r = chk.coq_eval("path", IMPORTS, "N * str * str", pcases,
                     ["mismatches run_path cases", "where_ (fun i r => negb (spec_path_ok i r)) cases"], shard=800)
    if r is not None:
        for i in r[0][:3]:
            chk.violation("correspondence", {"what": "os.path function and Model_C22 disagree (stream 'path')",
                                             "input": pcases[i][0], "implementation": pcases[i][1]},
                          no_input=not have_fail)
        for i in r[1][:3]:
            chk.violation("property", {"what": "Spec_C22.spec_path_ok: normpath result is not a fixpoint of normpath",
                                       "input": pcases[i][0], "implementation": pcases[i][1]})
    r = chk.coq_eval("ops", IMPORTS, "bool * list rawent * list op", [(s[0], s[1]) for s in seqs],
                     ["mismatches run_ops cases"], shard=chk.n(170, 500))
    if r is not None and r[0]:
        # name the first disagreeing step of a few disagreeing sequences
        steps = []
        for i in r[0][:6]:
            _, res, trace = seqs[i]
            for j, (before, mb, o) in enumerate(trace):
                init = [(e[0], e[1], e[2]) for e in before]
                steps.append((c_case(mb, init, [o]), [[mb, sorted(before)], res[j + 1]], (i, j, before, mb, o, res[j + 1])))
        r2 = chk.coq_eval("step", IMPORTS, "bool * list rawent * list op", [(s[0], s[1]) for s in steps],
                          ["mismatches run_ops cases"], shard=150)
        named = False
        if r2 is not None:
            seen = set()
            for j in r2[0]:
                i, k, before, mb, o, got = steps[j][2]
                if i in seen:
                    continue
                seen.add(i)
                named = True
                chk.violation("correspondence",
                              {"what": "implementation and Model_C22 disagree on one operation "
                                       "(the theorems of Prop_C22 no longer speak about this code)",
                               "input": {"set": before, "mutable": mb, "op": jop(o)},
                               "implementation": got, "sequence": seqs[i][0][:1500]},
                              no_input=not have_fail)
                if len(seen) >= 3:
                    break
        if not named:
            for i in r[0][:3]:
                chk.violation("correspondence",
                              {"what": "implementation and Model_C22 disagree on an operation sequence",
                               "input": seqs[i][0][:3000], "implementation": seqs[i][1]},
                              no_input=not have_fail)


def _tup(x):
    return tuple(_tup(i) for i in x) if isinstance(x, list) else x


def replay(chk, data):
    """re-run one recorded single-operation case against the implementation and the dict oracle"""
    inp = data.get("detail", {}).get("input", {})
    if not isinstance(inp, dict) or "op" not in inp:
        print("nothing replayable in this record")
        return
    drv = Driver()

    o = _tup(inp["op"])
    cur = drv.new(inp["mutable"], [tuple(e) for e in inp["set"]])
    v, nxt, _ = drv.step(cur, o)
    print("implementation:", v, drv.snap(nxt))
    exp = oracle({e[0]: (e[1], e[2]) for e in inp["set"]}, inp["mutable"], o)
    print("dict oracle   :", "outside the domain" if exp is SKIP else (exp[0], sorted(exp[1].items())))
