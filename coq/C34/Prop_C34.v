(* Prop_C34.v — the property theorems of C34 and nothing else. *)
From Coq Require Import List NArith ZArith Bool.
Import ListNotations.
From Verif Require Import Base.Val C34.Model_C34 C34.Spec_C34 C34.Lemmas_C34 C34.Proofs_C34.

(* PARTIAL (domain def_ok): filtering the text of a dump = rendering the filtered dump, for every
   list of definitions whose values are in `set`'s quoting styles and whose function bodies lie
   in the body_ok token grammar (literal words, \c, '..', "..", $'..', ${..}, $name, $((..)), "..$x..",
   nested {..} (..) groups); blacklist and whitelist mode, variables and functions *)
Theorem filter_commutes_partial : forall ds vars funcs vwl fwl,
  forallb def_ok ds = true -> names_ok vars = true -> names_ok funcs = true ->
  main_run (render ds) vars funcs vwl fwl = MOut (render_filtered vars funcs vwl fwl ds).
Proof. exact filter_commutes_proof. Qed.
Print Assumptions filter_commutes_partial.

Theorem no_stray_bytes_partial : forall ds vars funcs vwl fwl,
  forallb def_ok ds = true -> names_ok vars = true -> names_ok funcs = true ->
  exists keep : list bool,
    length keep = length ds /\
    main_run (render ds) vars funcs vwl fwl
    = MOut (flat_map (fun kd : bool * def => (if fst kd then render_def (snd kd) else []) ++ [cNL]) (combine keep ds))
    /\ forall i d, nth_error ds i = Some d ->
         nth_error keep i = Some (negb (drop_def vars funcs vwl fwl d)).
Proof. exact no_stray_bytes_proof. Qed.
Print Assumptions no_stray_bytes_partial.

Theorem never_out_of_fuel_partial : forall ds vars funcs vwl fwl,
  forallb def_ok ds = true -> names_ok vars = true -> names_ok funcs = true ->
  main_run (render ds) vars funcs vwl fwl <> MFuel /\ main_run (render ds) vars funcs vwl fwl <> MIndex.
Proof. exact never_out_of_fuel_partial_proof. Qed.
Print Assumptions never_out_of_fuel_partial.

Theorem render_filter_ast : forall vars funcs vwl fwl ds,
  render (filter_ast vars funcs vwl fwl ds)
  = flat_map (fun d => if drop_def vars funcs vwl fwl d then [] else render_def d ++ [cNL]) ds
  /\ render_filtered vars funcs vwl fwl ds
  = flat_map (fun d => if drop_def vars funcs vwl fwl d then [cNL] else render_def d ++ [cNL]) ds.
Proof. exact render_filter_ast_proof. Qed.
Print Assumptions render_filter_ast.

(* the statement without the grammar restriction is false of the faithful model *)
Theorem filter_commutes_refuted : ~ filter_commutes_full.
Proof. exact filter_commutes_refuted_ast_proof. Qed.
Print Assumptions filter_commutes_refuted.

Theorem filter_commutes_refuted_on_bash_dump :
  spec_dump_ok witness_input (run_dump witness_input) = false
  /\ run_dump witness_input = digest [10;125;10;90;61;49;10]%N.
Proof. exact filter_commutes_refuted_proof. Qed.
Print Assumptions filter_commutes_refuted_on_bash_dump.

(* regression for the repaired empty-delimiter here-document (formerly an infinite loop) *)
Theorem empty_heredoc_delimiter :
  main_run [102;32;40;41;32;10;123;32;10;32;32;32;32;99;97;116;32;60;60;39;39;10;120;10;10;125;10]%N
           [] [[102]%N] false false = MOut [10]%N.
Proof. exact empty_heredoc_delimiter_proof. Qed.
Print Assumptions empty_heredoc_delimiter.
