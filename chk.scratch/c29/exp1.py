import os, sys, bz2, tempfile, shutil
sys.path.insert(0, "/verif")
from harness import fsx
from pkgcore.vdb import ondisk
from pkgcore.binpkg import repository as binrepo

def mkpkg(root, cat, pf, meta, contents=""):
    d = os.path.join(root, cat, pf)
    os.makedirs(d)
    for k, v in meta.items():
        with open(os.path.join(d, k), "w") as f: f.write(v + "\n" if v else v)
    with open(os.path.join(d, "CONTENTS"), "w") as f: f.write(contents)
    with open(os.path.join(d, "environment.bz2"), "wb") as f: f.write(bz2.compress(b"FOO=bar\n"))
    with open(os.path.join(d, pf + ".ebuild"), "w") as f: f.write("# ebuild\n")

top = tempfile.mkdtemp(prefix="c29x_")
src = os.path.join(top, "src"); tgt = os.path.join(top, "vdb"); os.makedirs(tgt)
meta = dict(EAPI="8", SLOT="0", DESCRIPTION="d", KEYWORDS="amd64", RDEPEND="dev-libs/x", USE="a b", IUSE="a b c", CHOST="x86_64-pc-linux-gnu", repository="gentoo", DEFINED_PHASES="install", LICENSE="GPL-2", HOMEPAGE="h")
mkpkg(src, "app-misc", "foo-1.0", meta)
r = ondisk.tree(src, disable_cache=True)
pkgs = list(r)
print(pkgs, pkgs[0].tracked_attributes)
class Dom: pm_tmpdir = os.path.join(top, "tmp")
t = ondisk.tree(tgt, disable_cache=True)
def go():
    op = t.operations.install(pkgs[0])
    op.add_data(Dom())
    op.finish()
run = fsx.record(go, top)
print(run.exc)
for c in run.trace: print(c)
print(sorted(os.listdir(os.path.join(tgt, "app-misc", "foo-1.0"))))
t2 = ondisk.tree(tgt, disable_cache=True)
print(list(t2))
shutil.rmtree(top)
