from pkgcore.package.conditionals import make_wrapper
from pkgcore.ebuild.conditionals import DepSet
from pkgcore.ebuild.atom import atom
from pkgcore.test.misc import FakePkg
from snakeoil import klass
import sys

def mk(init, locked=("L1","L2")):
    raw = FakePkg("dev-util/foo-1")
    ds = DepSet.parse("a? ( x/a ) !a? ( x/na ) b? ( x/b ) L1? ( x/l1 ) c? ( d? ( x/cd ) ) x/base", atom)
    object.__setattr__(raw, "depend", ds)
    W = make_wrapper(None, "use", {"depend": lambda raw_attr, use, pkg=None: raw_attr.evaluate_depset(use)})
    return W(raw, initial_settings=list(init), unchangable_settings=list(locked)), ds

def show(w, ds):
    cur = set(w.use)
    return sorted(cur), str(w.depend), str(ds.evaluate_depset(cur)), w.changes_count(), w._reuse_pt

w, ds = mk(["a"])
print("A", show(w, ds)); print(w.request_disable("use", "a")); print(show(w, ds))
w, ds = mk([])
print("B", show(w, ds)); print(w.request_enable("use", "a")); w.commit(); print(show(w, ds))
w, ds = mk(["L1"])
print("C", show(w, ds)); print(w.request_disable("use", "b", "L1")); print(show(w, ds))
w, ds = mk(["a"])
print("C'", show(w, ds)); print(w.request_enable("use", "a", "L2")); print(show(w, ds))
w, ds = mk(["a"])
print("D"); print(w.request_disable("use", "a"));
try: print(w.request_disable("use", "a"))
except Exception as e: print("exc", type(e).__name__, e)
print(show(w,ds))
w, ds = mk(["a"])
print("E");
try: print(w.request_disable("use", "a", "L2"))
except Exception as e: print("exc", type(e).__name__, e)
print(show(w,ds))
w, ds = mk(["a"])
print("F");
try: w.rollback(3)
except Exception as e: print("exc", type(e).__name__, e)
print(show(w,ds))
