(* Proofs_C04.v — lemmas and proofs for C04. *)
From Coq Require Import List NArith ZArith Bool Lia.
Import ListNotations.
From Verif Require Import Base.Val C01.Model_C01 C04.Model_C04 C04.Spec_C04.

(* ------------------------------------------------------------------ blockers *)
Definition with_blocks (a : atom) (b s : bool) : atom :=
  {| a_cat := a_cat a; a_pkg := a_pkg a; a_op := a_op a; a_ver := a_ver a; a_rev := a_rev a;
     a_fullver := a_fullver a; a_slot := a_slot a; a_subslot := a_subslot a; a_slotop := a_slotop a;
     a_repo := a_repo a; a_use := a_use a; a_blocks := b; a_strong := s;
     a_negate_vers := a_negate_vers a |}.

Lemma blocker_same_matches_proof : forall vc a p b s,
  atom_match vc (with_blocks a b s) p = atom_match vc a p.
Proof. intros. reflexivity. Qed.

(* ------------------------------------------------------------------ strings: prefixes and components *)
Lemma startswith_app a r : startswith (a ++ r) a = true.
Proof. induction a as [|x a IH]; cbn; [reflexivity|]. rewrite N.eqb_refl. exact IH. Qed.

Lemma startswith_inv s g : startswith s g = true -> exists r, s = g ++ r.
Proof.
  revert s; induction g as [|x g IH]; intros s H; cbn in *.
  - exists s; reflexivity.
  - destruct s as [|y s]; [discriminate|]. apply andb_true_iff in H as [H1 H2].
    apply N.eqb_eq in H1; subst. destruct (IH _ H2) as [r ->]. exists r; reflexivity.
Qed.

Lemma concat_tokenize s : concat (tokenize s) = s.
Proof.
  induction s as [|c s IH]; cbn; [reflexivity|].
  destruct (tokenize s) as [|[|d t] rest] eqn:E; cbn in *.
  - subst; reflexivity.
  - rewrite IH; reflexivity.
  - destruct (joinable c d); cbn; rewrite IH; reflexivity.
Qed.

Lemma list_prefix_inv a b : list_prefix a b = true -> exists r, b = a ++ r.
Proof.
  revert b; induction a as [|x a IH]; intros b H; cbn in *.
  - exists b; reflexivity.
  - destruct b as [|y b]; [discriminate|]. apply andb_true_iff in H as [H1 H2].
    apply str_eqb_eq in H1; subst. destruct (IH _ H2) as [r ->]. exists r; reflexivity.
Qed.

(* a component prefix is in particular a string prefix *)
Lemma comp_prefix_startswith g s : comp_prefix g s = true -> startswith s g = true.
Proof.
  unfold comp_prefix; intro H. apply list_prefix_inv in H as [r H].
  rewrite <- (concat_tokenize s), H, concat_app, concat_tokenize. apply startswith_app.
Qed.

(* ------------------------------------------------------------------ version operators *)
Definition sign_valued (vc : str -> option N -> str -> option N -> Z) : Prop :=
  forall v r w s, vc v r w s = (-1)%Z \/ vc v r w s = 0%Z \/ vc v r w s = 1%Z.

Lemma vmatch_ops vc op v r pv pr :
  sign_valued vc -> (op < 6)%N ->
  vmatch vc op false v r pv pr =
  match op with
  | 0%N => Z.ltb (vc pv pr v r) 0
  | 1%N => Z.leb (vc pv pr v r) 0
  | 2%N => Z.eqb (vc pv pr v r) 0
  | 3%N => Z.leb 0 (vc pv pr v r)
  | 4%N => Z.ltb 0 (vc pv pr v r)
  | _ => Z.eqb (vc pv None v None) 0
  end.
Proof.
  intros Hs Hop. unfold vmatch.
  assert (Hc : (op = 0 \/ op = 1 \/ op = 2 \/ op = 3 \/ op = 4 \/ op = 5)%N) by lia.
  destruct Hc as [->|[->|[->|[->|[->| ->]]]]]; cbn;
    match goal with |- context [vc ?a ?b ?c ?d] => destruct (Hs a b c d) as [E|[E|E]]; rewrite E; reflexivity end.
Qed.

(* ------------------------------------------------------------------ boolean list lemmas *)
Lemma forallb_ext_in {A} (f g : A -> bool) l :
  (forall x, In x l -> f x = g x) -> forallb f l = forallb g l.
Proof.
  induction l as [|x l IH]; intro H; cbn; [reflexivity|].
  rewrite (H x (or_introl eq_refl)), IH; [reflexivity|]. intros y Hy; apply H; right; exact Hy.
Qed.

Lemma forallb_andb {A} (f g : A -> bool) l :
  forallb (fun x => f x && g x) l = forallb f l && forallb g l.
Proof.
  induction l as [|x l IH]; cbn; [reflexivity|]. rewrite IH.
  destruct (f x), (g x), (forallb f l), (forallb g l); reflexivity.
Qed.

Lemma forallb_filter_guard {A} (c g : A -> bool) l :
  forallb (fun x => if c x then g x else true) l = forallb g (filter c l).
Proof.
  induction l as [|x l IH]; cbn; [reflexivity|]. destruct (c x); cbn; rewrite IH; reflexivity.
Qed.

Lemma forallb_map {A B} (h : A -> B) (g : B -> bool) l :
  forallb g (map h l) = forallb (fun x => g (h x)) l.
Proof. induction l as [|x l IH]; cbn; [reflexivity|]. rewrite IH; reflexivity. Qed.

Lemma existsb_false_forallb {A} (f : A -> bool) l :
  existsb f l = false -> forallb (fun x => negb (f x)) l = true.
Proof.
  induction l as [|x l IH]; cbn; [reflexivity|]. intro H. apply orb_false_iff in H as [H1 H2].
  rewrite H1, (IH H2); reflexivity.
Qed.

(* a non-empty set whose members are not "some on and some off": NAND = NOR *)
Lemma nand_is_nor (V use : list str) :
  V <> [] -> mixed V use = false ->
  negb (forallb (fun f => smem f use) V) = forallb (fun f => negb (smem f use)) V.
Proof.
  intros Hne Hm. unfold mixed in Hm. apply andb_false_iff in Hm as [H|H].
  - rewrite (existsb_false_forallb _ _ H).
    destruct V as [|f V]; [contradiction|]. cbn in *. apply orb_false_iff in H as [H _]. rewrite H; reflexivity.
  - apply existsb_false_forallb in H.
    assert (E : forallb (fun f => smem f use) V = true).
    { rewrite <- H. apply forallb_ext_in. intros x _. destruct (smem x use); reflexivity. }
    rewrite E. destruct V as [|f V]; [contradiction|]. cbn in *.
    apply andb_true_iff in H as [H _]. apply negb_true_iff in H. apply negb_false_iff in H.
    rewrite H; reflexivity.
Qed.

Lemma is_nil_false {A} (l : list A) : is_nil l = false -> l <> [].
Proof. destruct l; [discriminate|intros _ H; discriminate]. Qed.

Lemma filter_subset_id (V iuse : list str) :
  subset V iuse = true -> filter (fun f => smem f iuse) V = V.
Proof.
  induction V as [|f V IH]; cbn; [reflexivity|]. intro H. apply andb_true_iff in H as [H1 H2].
  rewrite H1, (IH H2); reflexivity.
Qed.

Lemma subset_false_exists (V iuse : list str) :
  subset V iuse = false -> exists f, In f V /\ smem f iuse = false.
Proof.
  induction V as [|f V IH]; cbn; [discriminate|]. intro H.
  destruct (smem f iuse) eqn:E.
  - cbn in H. destruct (IH H) as [g [Hg1 Hg2]]. exists g; split; [right|]; assumption.
  - exists f; split; [left; reflexivity|assumption].
Qed.

Lemma forallb_false_witness {A} (g : A -> bool) l x : In x l -> g x = false -> forallb g l = false.
Proof.
  induction l as [|y l IH]; cbn; [contradiction|]. intros [->|H] E.
  - rewrite E; reflexivity.
  - rewrite (IH H E). apply andb_false_r.
Qed.

(* ------------------------------------------------------------------ the USE-dep groups *)
Section UseGroups.
Variables (iuse use : list str).

(* positive flags without default: enabled *)
Lemma static_pos V :
  (if is_nil V then true else cm_match V true false use)
  = forallb (fun f => usedep_holds None true f iuse use) V.
Proof.
  assert (E : forallb (fun f => usedep_holds None true f iuse use) V = subset V use).
  { apply forallb_ext_in. intros f _. unfold usedep_holds, flag_state.
    destruct (smem f iuse), (smem f use); reflexivity. }
  rewrite E. destruct V; [reflexivity|]. unfold cm_match. rewrite xorb_false_r. reflexivity.
Qed.

(* negative flags without default *)
Lemma static_neg V :
  mixed V use = false ->
  (if is_nil V then true else cm_match V true true use)
  = forallb (fun f => usedep_holds None false f iuse use) V.
Proof.
  intro Hm.
  assert (E : forallb (fun f => usedep_holds None false f iuse use) V
              = forallb (fun f => negb (smem f use)) V).
  { apply forallb_ext_in. intros f _. unfold usedep_holds, flag_state.
    destruct (smem f iuse), (smem f use); reflexivity. }
  rewrite E. destruct (is_nil V) eqn:En.
  - destruct V; [reflexivity|discriminate].
  - unfold cm_match. rewrite xorb_true_r. apply nand_is_nor; [apply is_nil_false; exact En|exact Hm].
Qed.

(* positive flags with a default *)
Lemma default_pos d V :
  (if is_nil V then true else udc_match d false V iuse use)
  = forallb (fun f => usedep_holds (Some d) true f iuse use) V.
Proof.
  assert (E : forallb (fun f => usedep_holds (Some d) true f iuse use) V
              = forallb (fun f => if smem f iuse then smem f use else d) V).
  { apply forallb_ext_in. intros f _. unfold usedep_holds, flag_state.
    destruct (smem f iuse), (smem f use), d; reflexivity. }
  rewrite E. destruct (is_nil V) eqn:En; [destruct V; [reflexivity|discriminate]|].
  unfold udc_match, cm_match. destruct (subset V iuse) eqn:Es.
  - rewrite xorb_false_r. unfold subset at 1. apply forallb_ext_in. intros f Hf.
    unfold subset in Es. rewrite forallb_forall in Es. rewrite (Es f Hf). reflexivity.
  - destruct d; cbn [Bool.eqb].
    + (* (+): the flags present in IUSE must be enabled *)
      rewrite forallb_filter_guard.
      destruct (filter (fun x => smem x iuse) V) eqn:Ef; [reflexivity|].
      cbn [is_nil]. rewrite xorb_false_r. reflexivity.
    + (* (-): a flag missing from IUSE counts as disabled *)
      destruct (subset_false_exists _ _ Es) as [f [Hf1 Hf2]].
      symmetry. apply forallb_false_witness with (x := f); [exact Hf1|]. rewrite Hf2. reflexivity.
Qed.

(* negative flags with a default; [R] = the flags the NAND is evaluated on *)
Lemma default_neg (d : bool) V :
  (if d then subset V iuse && mixed V use
   else mixed (filter (fun f => smem f iuse) V) use) = false ->
  (if is_nil V then true else udc_match d true V iuse use)
  = forallb (fun f => usedep_holds (Some d) false f iuse use) V.
Proof.
  intro Hm.
  assert (E : forallb (fun f => usedep_holds (Some d) false f iuse use) V
              = forallb (fun f => if smem f iuse then negb (smem f use) else negb d) V).
  { apply forallb_ext_in. intros f _. unfold usedep_holds, flag_state.
    destruct (smem f iuse), (smem f use), d; reflexivity. }
  rewrite E. destruct (is_nil V) eqn:En; [destruct V; [reflexivity|discriminate]|].
  unfold udc_match, cm_match. destruct (subset V iuse) eqn:Es.
  - rewrite xorb_true_r.
    assert (Hm' : mixed V use = false).
    { destruct d; [exact Hm|]. rewrite (filter_subset_id _ _ Es) in Hm. exact Hm. }
    unfold subset at 1. rewrite (nand_is_nor V use (is_nil_false _ En) Hm').
    apply forallb_ext_in. intros f Hf.
    unfold subset in Es. rewrite forallb_forall in Es. rewrite (Es f Hf). reflexivity.
  - destruct d; cbn [Bool.eqb].
    + (* -f(+) with f missing from IUSE: counts as enabled *)
      destruct (subset_false_exists _ _ Es) as [f [Hf1 Hf2]].
      symmetry. apply forallb_false_witness with (x := f); [exact Hf1|]. rewrite Hf2. reflexivity.
    + cbn [negb]. rewrite forallb_filter_guard.
      destruct (filter (fun x => smem x iuse) V) as [|f0 R] eqn:Ef; [reflexivity|].
      cbn [is_nil]. rewrite xorb_true_r. unfold subset.
      apply nand_is_nor; [discriminate|exact Hm].
Qed.
End UseGroups.

(* ---- the six groups partition the tokens *)
Definition tok_guard (d : option bool) (s : bool) (Q : str -> bool) (t : str) : bool :=
  let '(d', s', f) := parse_use_token t in
  if dflt_eqb d' d && Bool.eqb s' s then Q f else true.

Lemma group_forallb d s Q toks :
  forallb Q (group d s toks) = forallb (tok_guard d s Q) toks.
Proof.
  unfold group. rewrite forallb_map.
  induction toks as [|t toks IH]; cbn; [reflexivity|].
  unfold tok_guard at 1. destruct (parse_use_token t) as [[d' s'] f] eqn:E.
  destruct (dflt_eqb d' d && Bool.eqb s' s); cbn; rewrite ?E; cbn; rewrite IH; reflexivity.
Qed.

Lemma token_partition (iuse use : list str) (t : str) :
  (let '(d, s, f) := parse_use_token t in usedep_holds d s f iuse use)
  = tok_guard None false (fun f => usedep_holds None false f iuse use) t
    && tok_guard None true (fun f => usedep_holds None true f iuse use) t
    && tok_guard (Some false) false (fun f => usedep_holds (Some false) false f iuse use) t
    && tok_guard (Some false) true (fun f => usedep_holds (Some false) true f iuse use) t
    && tok_guard (Some true) false (fun f => usedep_holds (Some true) false f iuse use) t
    && tok_guard (Some true) true (fun f => usedep_holds (Some true) true f iuse use) t.
Proof.
  unfold tok_guard. destruct (parse_use_token t) as [[d s] f].
  destruct d as [[|]|], s; cbn; rewrite ?andb_true_r; reflexivity.
Qed.

Lemma use_restrictions_eval vc p toks :
  forallb (eval_restr vc p) (use_restrictions toks)
  = static_use_eval (group None false toks) (group None true toks) (p_use p)
    && default_use_eval false (group (Some false) false toks) (group (Some false) true toks) (p_iuse p) (p_use p)
    && default_use_eval true (group (Some true) false toks) (group (Some true) true toks) (p_iuse p) (p_use p).
Proof.
  unfold use_restrictions. rewrite !forallb_app.
  assert (Hs : forall f t, forallb (eval_restr vc p) (if is_nil f && is_nil t then [] else [RStaticUse f t])
                           = static_use_eval f t (p_use p)).
  { intros f t. destruct f, t; cbn; unfold static_use_eval; cbn; rewrite ?andb_true_r; reflexivity. }
  assert (Hd : forall d f t, forallb (eval_restr vc p) (if is_nil f && is_nil t then [] else [RUseDefault d f t])
                             = default_use_eval d f t (p_iuse p) (p_use p)).
  { intros d f t. destruct f, t; cbn; unfold default_use_eval; cbn; rewrite ?andb_true_r; reflexivity. }
  rewrite Hs, !Hd. rewrite andb_assoc. reflexivity.
Qed.

(* the USE part of the model is the per-dependency reading outside K2 *)
Lemma use_tokens_part vc p toks :
  nand_toks toks (p_iuse p) (p_use p) = false ->
  forallb (eval_restr vc p) (use_restrictions toks)
  = forallb (fun t => let '(d, s, f) := parse_use_token t in usedep_holds d s f (p_iuse p) (p_use p)) toks.
Proof.
  unfold nand_toks.
  intro K. apply orb_false_iff in K as [K K3]. apply orb_false_iff in K as [K1 K2].
  rewrite use_restrictions_eval. unfold static_use_eval, default_use_eval.
  rewrite (static_neg (p_iuse p) (p_use p) _ K1), (static_pos (p_iuse p)).
  rewrite (default_neg (p_iuse p) (p_use p) false _ K2), (default_neg (p_iuse p) (p_use p) true _ K3).
  rewrite !default_pos. rewrite !group_forallb.
  rewrite (forallb_ext_in _ _ toks (fun t _ => token_partition (p_iuse p) (p_use p) t)).
  rewrite !forallb_andb. rewrite !andb_assoc. reflexivity.
Qed.

Lemma use_part vc a p :
  known_use_nand a p = false ->
  forallb (eval_restr vc p) (match a_use a with Some toks => use_restrictions toks | None => [] end)
  = use_ok a p.
Proof.
  unfold known_use_nand, use_ok. destruct (a_use a) as [toks|]; [|reflexivity].
  apply use_tokens_part.
Qed.

(* ---- one USE dependency: the truth table, for arbitrary IUSE and USE sets *)
Lemma mixed_single f use : mixed [f] use = false.
Proof. unfold mixed; cbn. destruct (smem f use); reflexivity. Qed.

Lemma usedep_default_table_proof : forall vc p tok d s f,
  parse_use_token tok = (d, s, f) ->
  forallb (eval_restr vc p) (use_restrictions [tok])
  = use_table d s (smem f (p_iuse p)) (smem f (p_use p)).
Proof.
  intros vc p tok d s f E.
  rewrite use_tokens_part.
  - cbn. rewrite E, andb_true_r. unfold usedep_holds, flag_state, use_table.
    destruct (smem f (p_iuse p)), d as [[|]|], (smem f (p_use p)), s; reflexivity.
  - unfold nand_toks, group. cbn. rewrite E.
    destruct d as [[|]|], s; cbn; rewrite ?E; cbn; rewrite ?mixed_single; cbn;
      try (destruct (smem f (p_iuse p)); cbn; rewrite ?mixed_single); rewrite ?andb_false_r; reflexivity.
Qed.

(* ---- the token text is read back as written *)
Lemma strip_sign (d : option bool) (s : bool) c f rest :
  c <> 45%N ->
  match (if s then [] else [45%N]) ++ (c :: f) ++ rest with
  | 45%N :: g => (d, false, g)
  | _ => (d, true, (if s then [] else [45%N]) ++ (c :: f) ++ rest)
  end = (d, s, (c :: f) ++ rest).
Proof.
  intro Hc. destruct s; cbn [app].
  - destruct c as [|q]; [reflexivity|].
    do 6 (try (destruct q as [q|q|]; try reflexivity)).
    exfalso; apply Hc; reflexivity.
  - reflexivity.
Qed.

Lemma parse_render_use_proof : forall d s c f,
  c <> 45%N -> last (c :: f) 0%N <> 41%N ->
  parse_use_token (render_use d s (c :: f)) = (d, s, c :: f).
Proof.
  intros d s c f Hc Hl. unfold parse_use_token, render_use.
  set (pre := if s then [] else [45%N]).
  destruct d as [[|]|].
  - rewrite !app_assoc, rev_app_distr. cbn [List.rev app tl]. rewrite rev_involutive.
    cbn [N.eqb Pos.eqb].
    pose proof (strip_sign (Some true) s c f [] Hc) as H. rewrite app_nil_r in H. exact H.
  - rewrite !app_assoc, rev_app_distr. cbn [List.rev app tl]. rewrite rev_involutive.
    cbn [N.eqb Pos.eqb].
    pose proof (strip_sign (Some false) s c f [] Hc) as H. rewrite app_nil_r in H. exact H.
  - rewrite app_nil_r.
    assert (Hr : exists x r, List.rev (pre ++ c :: f) = x :: r /\ x <> 41%N).
    { rewrite rev_app_distr. destruct (exists_last (l := c :: f)) as [l' [x Hx]]; [discriminate|].
      rewrite Hx in *. rewrite rev_app_distr. cbn. exists x, (List.rev l' ++ List.rev pre). split; [reflexivity|].
      rewrite last_last in Hl. exact Hl. }
    destruct Hr as [x [r [Hr Hx]]]. rewrite Hr.
    pose proof (strip_sign None s c f [] Hc) as H. rewrite app_nil_r in H. fold pre in H.
    destruct x as [|q]; [exact H|].
    do 6 (try (destruct q as [q|q|]; try exact H)).
    exfalso; apply Hx; reflexivity.
Qed.

(* ------------------------------------------------------------------ the main theorem *)
Lemma match_is_pms_partial_proof : forall vc a p,
  sign_valued vc -> wf_atom a = true -> a_negate_vers a = false ->
  known_glob a p = false -> known_use_nand a p = false ->
  atom_match vc a p = pms_match vc a p.
Proof.
  intros vc a p Hs Hwf Hneg Kg Ku.
  unfold atom_match, atom_restrictions, pms_match. rewrite !forallb_app.
  rewrite (use_part vc a p Ku).
  unfold wf_atom in Hwf. apply andb_true_iff in Hwf as [Hwf Hsub]. apply andb_true_iff in Hwf as [Hop Hfv].
  apply N.leb_le in Hop.
  (* version clause *)
  assert (Hv : forallb (eval_restr vc p)
                 (match a_fullver a with
                  | Some fv => if N.eqb (a_op a) 6 then [RGlob fv]
                               else [RVersion (a_op a) (a_ver a) (a_rev a) (a_negate_vers a)]
                  | None => [] end) = ver_ok vc a p).
  { unfold ver_ok, known_glob in *. destruct (a_fullver a) as [fv|] eqn:Efv; cbn in Hfv.
    - destruct (N.eqb (a_op a) 7) eqn:E7; [discriminate|]. apply N.eqb_neq in E7.
      destruct (N.eqb (a_op a) 6) eqn:E6.
      + apply N.eqb_eq in E6. rewrite E6. cbn. rewrite andb_true_r. cbn in Kg.
        destruct (startswith (p_fullver p) fv) eqn:Esw.
        * cbn in Kg. apply negb_false_iff in Kg. rewrite Kg. reflexivity.
        * destruct (comp_prefix fv (p_fullver p)) eqn:Ecp; [|reflexivity].
          apply comp_prefix_startswith in Ecp. congruence.
      + apply N.eqb_neq in E6. cbn. rewrite andb_true_r, Hneg.
        rewrite (vmatch_ops vc (a_op a) _ _ _ _ Hs); [|lia].
        assert (Hc : (a_op a = 0 \/ a_op a = 1 \/ a_op a = 2 \/ a_op a = 3 \/ a_op a = 4 \/ a_op a = 5)%N) by lia.
        destruct Hc as [->|[->|[->|[->|[->| ->]]]]]; reflexivity.
    - destruct (N.eqb (a_op a) 7) eqn:E7; [|discriminate]. apply N.eqb_eq in E7. rewrite E7. reflexivity. }
  rewrite Hv.
  (* slot / sub-slot *)
  assert (Hsl : forallb (eval_restr vc p)
                  (match a_slot a with
                   | Some s => RSlot s :: match a_subslot a with Some ss => [RSubSlot ss] | None => [] end
                   | None => [] end)
                = opt_eq (a_slot a) (p_slot p) && opt_eq (a_subslot a) (p_subslot p)).
  { destruct (a_slot a), (a_subslot a); cbn in *; rewrite ?andb_true_r; try reflexivity; discriminate. }
  rewrite Hsl.
  assert (Hr : forallb (eval_restr vc p) (match a_repo a with Some r => [RRepo r] | None => [] end)
               = opt_eq (a_repo a) (p_repo p)).
  { destruct (a_repo a); cbn; rewrite ?andb_true_r; reflexivity. }
  rewrite Hr. cbn [forallb eval_restr]. rewrite andb_true_r.
  destruct (opt_eq (a_repo a) (p_repo p)), (str_eqb (a_pkg a) (p_pkg p)), (str_eqb (a_cat a) (p_cat p)),
    (ver_ok vc a p), (opt_eq (a_slot a) (p_slot p)), (opt_eq (a_subslot a) (p_subslot p)), (use_ok a p);
    reflexivity.
Qed.

(* ------------------------------------------------------------------ the full statement is false of the faithful model *)
Definition C04_full_statement : Prop :=
  forall a p, wf_atom a = true -> a_negate_vers a = false ->
              atom_match ver_cmp a p = pms_match ver_cmp a p.

Definition mk_atom (op : N) (v : str) (fv : option str) (use : option (list str)) : atom :=
  {| a_cat := [97]%N; a_pkg := [98]%N; a_op := op; a_ver := v; a_rev := None; a_fullver := fv;
     a_slot := None; a_subslot := None; a_slotop := None; a_repo := None; a_use := use;
     a_blocks := false; a_strong := false; a_negate_vers := false |}.
Definition mk_pkg (v : str) (use iuse : list str) : package :=
  {| p_cat := [97]%N; p_pkg := [98]%N; p_ver := v; p_rev := None; p_fullver := v;
     p_slot := [48]%N; p_subslot := [48]%N; p_repo := [103]%N; p_use := use; p_iuse := iuse |}.

(* =a/b-1*  against  a/b-10 *)
Definition glob_witness_atom := mk_atom 6 [49]%N (Some [49]%N) None.
Definition glob_witness_pkg := mk_pkg [49; 48]%N [] [].
(* a/b[-x,-y]  against  a/b-1 with IUSE="x y", USE="x" *)
Definition nand_witness_atom := mk_atom 7 [] None (Some [[45; 120]; [45; 121]]%N).
Definition nand_witness_pkg := mk_pkg [49]%N [[120]]%N [[120]; [121]]%N.

Lemma match_is_pms_refuted_proof :
  atom_match ver_cmp glob_witness_atom glob_witness_pkg = true
  /\ pms_match ver_cmp glob_witness_atom glob_witness_pkg = false
  /\ known_glob glob_witness_atom glob_witness_pkg = true
  /\ ~ C04_full_statement.
Proof.
  repeat split; try (vm_compute; reflexivity).
  intro H. specialize (H glob_witness_atom glob_witness_pkg eq_refl eq_refl). vm_compute in H. discriminate.
Qed.

Lemma use_nand_refuted_proof :
  atom_match ver_cmp nand_witness_atom nand_witness_pkg = true
  /\ pms_match ver_cmp nand_witness_atom nand_witness_pkg = false
  /\ known_use_nand nand_witness_atom nand_witness_pkg = true.
Proof. repeat split; vm_compute; reflexivity. Qed.

(* ------------------------------------------------------------------ the operator table is the regenerated one *)
Lemma opv_is_source_table : forall op, (op < 6)%N ->
  Model_C01.op_vals op = Some (op_droprev op, opv op).
Proof.
  intros op H.
  assert (Hc : (op = 0 \/ op = 1 \/ op = 2 \/ op = 3 \/ op = 4 \/ op = 5)%N) by lia.
  destruct Hc as [->|[->|[->|[->|[->| ->]]]]]; vm_compute; reflexivity.
Qed.

Lemma vmatch_is_C01 : forall op negate v r pv pr, (op < 6)%N ->
  vmatch ver_cmp op negate v r pv pr = version_match op negate v r pv pr.
Proof.
  intros. unfold vmatch, version_match. rewrite (opv_is_source_table op H). reflexivity.
Qed.

(* ------------------------------------------------------------------ non-vacuity *)
(* the premise [sign_valued] is satisfiable by a non-constant comparison *)
Example sign_valued_example : sign_valued (fun v _ w _ => str_cmp v w).
Proof.
  intros v r w s. revert w; induction v as [|x v IH]; intros [|y w]; cbn; auto.
  destruct (N.compare x y); auto.
Qed.

(* atoms with every kind of constraint, inside the domain of the partial theorem, both answers *)
Definition rich_atom : atom :=
  {| a_cat := [97]%N; a_pkg := [98]%N; a_op := 3; a_ver := [49; 46; 48]%N; a_rev := Some 1%N;
     a_fullver := Some [49; 46; 48; 45; 114; 49]%N;
     a_slot := Some [48]%N; a_subslot := Some [50]%N; a_slotop := None; a_repo := Some [103]%N;
     a_use := Some [[45; 113; 40; 45; 41]; [120]; [121; 40; 43; 41]]%N;       (* -q(-), x, y(+) *)
     a_blocks := true; a_strong := false; a_negate_vers := false |}.
Definition rich_pkg (v : str) : package :=
  {| p_cat := [97]%N; p_pkg := [98]%N; p_ver := v; p_rev := Some 2%N; p_fullver := v ++ [45; 114; 50]%N;
     p_slot := [48]%N; p_subslot := [50]%N; p_repo := [103]%N; p_use := [[120]]%N; p_iuse := [[120]]%N |}.
Example rich_match :
  wf_atom rich_atom = true /\ known_glob rich_atom (rich_pkg [49; 46; 49]%N) = false
  /\ known_use_nand rich_atom (rich_pkg [49; 46; 49]%N) = false
  /\ atom_match ver_cmp rich_atom (rich_pkg [49; 46; 49]%N) = true        (* 1.1-r2 *)
  /\ atom_match ver_cmp rich_atom (rich_pkg [48; 46; 57]%N) = false.      (* 0.9-r2 *)
Proof. repeat split; vm_compute; reflexivity. Qed.

(* =a/b-1* on component boundaries: 1.0, 1a, 1_p1, 1-r1 yes; 10 no *)
Example comp_prefix_examples :
  comp_prefix [49]%N [49; 46; 48]%N = true /\ comp_prefix [49]%N [49; 97]%N = true
  /\ comp_prefix [49]%N [49; 95; 112; 49]%N = true /\ comp_prefix [49]%N [49; 45; 114; 49]%N = true
  /\ comp_prefix [49]%N [49; 48]%N = false
  /\ comp_prefix [49; 95; 112]%N [49; 95; 112; 114; 101]%N = false        (* 1_p vs 1_pre *)
  /\ comp_prefix [49; 95; 112]%N [49; 95; 112; 49]%N = true.              (* 1_p vs 1_p1 *)
Proof. repeat split; vm_compute; reflexivity. Qed.
