(* Spec_C13.v — the statement of C13, written from its text, not from the algorithm.

   'A package is visible through a configured domain exactly when
      (1) it is not masked (repository and profile masks and package.mask, net of package.unmask),
      (2) some keyword of it is accepted by ACCEPT_KEYWORDS and matching package.accept_keywords
          entries (star-star accepts anything, star any stable keyword, tilde-star any testing keyword, an empty
          entry means ~ARCH on a stable system), and
      (3) some choice among its LICENSE alternatives consists only of licenses accepted by
          ACCEPT_LICENSE and matching package.license entries (with @group, -@group, star and minus-star expansion).'

   Reading used here (each point is where the text leaves a choice; see notes/C13.md):
   * configuration is layered and incremental: for masks the layers are repository, profile nodes
     (parent first), user; an atom is in force iff its LAST mention is positive ('-atom' lines of
     a profile node withdraw it);  masked = some atom in force matches;  (1) = not masked, or
     some unmask atom in force matches;
   * token streams are read left to right, last writer wins (C12's [last_writer]); for keywords
     the stream is ACCEPT_KEYWORDS (plus ARCH, plus 'x' for every accepted '~x'), then the
     match-all entries, then the matching entries by increasing specificity (repo, category,
     package, combined globs, atoms — pkgcore's and portage's convention), where the negations of
     a match-all entry are also re-applied after the same-key atom entries that precede it in
     the file; on an unstable system (~ARCH accepted) the specific entries only ADD tokens;
   * LICENSE is a formula: a name holds iff it is accepted, all-of = every present member,
     any-of = some present member, a disabled USE conditional is absent, a group left without
     members is absent;  no ACCEPT_LICENSE and no package.license at all = no license filtering. *)
From Coq Require Import List NArith ZArith Bool.
Import ListNotations.
From Verif Require Import Base.Val C12.Model_C12 C12.Spec_C12 C13.Model_C13.

(* ---------------------------------------------------------------- (1) masks *)
(* [rl] = the layers, LAST one first; within a layer the withdrawals apply before the additions *)
Fixpoint in_force (rl : list (list N * list N)) (a : N) : bool :=
  match rl with
  | [] => false
  | (neg, pos) :: r => if nmem a pos then true else if nmem a neg then false else in_force r a
  end.
Definition mask_layers (c : config) : list (list N * list N) :=
  ([], repo_masks c) :: prof_masks c ++ [([], user_masks c)].
Definition unmask_layers (c : config) : list (list N * list N) :=
  prof_unmasks c ++ [([], user_unmasks c)].
Definition masked_spec (c : config) (p : pkg) : bool :=
  existsb (in_force (rev (mask_layers c))) (p_match p).
Definition unmasked_spec (c : config) (p : pkg) : bool :=
  existsb (in_force (rev (unmask_layers c))) (p_match p).
Definition mask_spec (c : config) (p : pkg) : bool := negb (masked_spec c p) || unmasked_spec c p.

(* ---------------------------------------------------------------- (2) keywords *)
Definition lw (ts : list str) (x : str) (b : bool) : bool :=
  last_writer (adds true) (dels true) (rev ts) x b.

(* ACCEPT_KEYWORDS, read incrementally *)
Definition ak_accepts (c : config) (x : str) : bool := lw (accept_kw c) x false.
(* ... plus ARCH itself, plus x for every accepted ~x ("~amd64 -> [amd64, ~amd64]") *)
Definition base_accepts (c : config) (x : str) : bool :=
  str_eqb x (arch c) || ak_accepts c x
  || existsb (fun y => ak_accepts c y && starts_tilde y && str_eqb (lstrip_tilde y) x) (accept_kw c).
Definition stable_system (c : config) : bool := negb (base_accepts c (unstable_arch c)).

Definition e_kind (e : entry) : ekind := fst (fst e).
Definition e_id (e : entry) : N := snd (fst e).
(* the tokens of an entry: duplicates dropped; empty entry = ~ARCH on a stable system *)
Definition e_tokens (c : config) (e : entry) : list str :=
  let t := sunion [] (snd e) in
  if stable_system c && is_nil t then [unstable_arch c] else t.
Definition kind_eqb (a b : ekind) : bool :=
  match a, b with
  | EAlways, EAlways | ERepo, ERepo | ECat, ECat | EPkg, EPkg | EMulti, EMulti | EAtom, EAtom => true
  | _, _ => false
  end.
Definition of_kind (c : config) (p : pkg) (k : ekind) : list str :=
  concat (map (e_tokens c)
              (filter (fun e => kind_eqb (e_kind e) k && nmem (e_id e) (p_match p)) (kw_entries c))).
Definition global_tokens (c : config) : list str :=
  concat (map (e_tokens c) (filter (fun e => kind_eqb (e_kind e) EAlways) (kw_entries c))).
(* atoms of the package's key in file order; the negations of a match-all entry count again
   after same-key atom entries written before it *)
Fixpoint atom_tokens (c : config) (p : pkg) (seen : bool) (es : list entry) : list str :=
  match es with
  | [] => []
  | e :: r =>
      match e_kind e with
      | EAtom =>
          if nmem (e_id e) (p_key p) && negb (is_nil (e_tokens c e))
          then (if nmem (e_id e) (p_match p) then e_tokens c e else []) ++ atom_tokens c p true r
          else atom_tokens c p seen r
      | EAlways =>
          (if seen && negb (is_nil (e_tokens c e)) then filter is_neg (e_tokens c e) else [])
          ++ atom_tokens c p seen r
      | _ => atom_tokens c p seen r
      end
  end.
Definition specific_stream (c : config) (p : pkg) : list str :=
  of_kind c p ERepo ++ of_kind c p ECat ++ of_kind c p EPkg ++ of_kind c p EMulti
  ++ atom_tokens c p false (kw_entries c).

Definition kw_accepts (c : config) (p : pkg) (x : str) : bool :=
  if stable_system c
  then lw (global_tokens c ++ specific_stream c p) x (base_accepts c x)
  else lw (global_tokens c) x (base_accepts c x) || mem x (specific_stream c p).

(* the package's keywords: its KEYWORDS plus those the profile's package.keywords add to it *)
Definition keywords_spec (c : config) (p : pkg) : list str :=
  p_kw p ++ concat (map snd (filter (fun e => nmem (fst e) (p_match p)) (prof_kw c))).

Definition kw_spec (c : config) (p : pkg) : bool :=
  let acc := kw_accepts c p in
  let ks := keywords_spec c p in
  acc W_ANY                                   (* ** accepts anything *)
  || (acc W_STABLE && existsb kw_stable ks)   (* *  : any stable keyword *)
  || (acc W_TESTING && existsb kw_testing ks) (* ~* : any testing keyword *)
  || existsb acc ks.                          (* some keyword of it is accepted *)

(* ---------------------------------------------------------------- (3) licenses *)
Definition lic_stream (c : config) (p : pkg) : list str :=
  accept_lic c
  ++ concat (map (fun e => sunion [] (snd e))
                 (filter (fun e => nmem (fst e) (p_match p)) (lic_entries c))).
(* "*" names every license: [lic_adds [x]] makes the token "*" add x *)
Definition lic_accepts (c : config) (p : pkg) (x : str) : bool :=
  last_writer (lic_adds [x] (groups c)) (lic_dels [x] (groups c)) (rev (lic_stream c p)) x false.

Definition present (l : list (option bool)) : list bool :=
  flat_map (fun o => match o with Some b => [b] | None => [] end) l.
Definition all_present (l : list (option bool)) : option bool :=
  match present l with [] => None | vs => Some (forallb (fun b => b) vs) end.
Definition any_present (l : list (option bool)) : option bool :=
  match present l with [] => None | vs => Some (existsb (fun b => b) vs) end.
(* None = absent *)
Fixpoint lsat (u : list N) (acc : str -> bool) (t : ltree) : option bool :=
  match t with
  | LLic l => Some (acc l)
  | LAll cs => all_present (map (lsat u acc) cs)
  | LAny cs => any_present (map (lsat u acc) cs)
  | LUse neg f cs => if xorb (nmem f u) neg then all_present (map (lsat u acc) cs) else None
  end.
Definition license_spec (c : config) (p : pkg) : bool :=
  if is_nil (accept_lic c) && is_nil (lic_entries c) then true
  else forallb (fun b => b) (present (map (lsat (use c) (lic_accepts c p)) (p_lic p))).

(* ---------------------------------------------------------------- the statement *)
Definition visible_spec (c : config) (p : pkg) : bool :=
  mask_spec c p && kw_spec c p && license_spec c p.

(* well-formed configuration: no incomplete token ("", "-", and for licenses "-@", "@") *)
(* ... and ARCH and the accepted keywords are names: a keyword "~x" of ACCEPT_KEYWORDS has a proper x *)
Definition wf_kw_tokens (c : config) : bool :=
  positive (arch c)
  && forallb (fun t => wf t && (negb (positive t) || positive (lstrip_tilde t))) (accept_kw c)
  && forallb (fun e => forallb wf (snd e)) (kw_entries c).
Definition wf_lic_tokens (c : config) : bool :=
  forallb wf_license (accept_lic c) && forallb (fun e => forallb wf_license (snd e)) (lic_entries c).
Definition wf_config (c : config) : bool := wf_kw_tokens c && wf_lic_tokens c.
(* LICENSE as DepSet.parse accepts it: no empty group *)
Fixpoint wf_ltree (t : ltree) : bool :=
  match t with
  | LLic _ => true
  | LAll cs | LAny cs | LUse _ _ cs => negb (is_nil cs) && forallb wf_ltree cs
  end.
Definition wf_pkg (p : pkg) : bool := forallb wf_ltree (p_lic p).

(* ---------------------------------------------------------------- acceptor for comparison (B):
   evaluated inside Coq on the IMPLEMENTATION's recorded answers ([VL [VL overall; parts]]) *)
Definition spec_world_ok (w : world) (r : val) : bool :=
  let c := fst w in
  if negb (wf_config c && forallb wf_pkg (snd w)) then true        (* malformed stream: no claim *)
  else match r with
       | VL (VL overall :: _) =>
           (fix go (ps : list pkg) (rs : list val) : bool :=
              match ps, rs with
              | [], [] => true
              | p :: ps', VB b :: rs' => Bool.eqb b (visible_spec c p) && go ps' rs'
              | _, _ => false
              end) (snd w) overall
       | _ => false
       end.
