(* Proofs_C19.v — lemmas and proofs for C19. *)
From Coq Require Import List NArith ZArith Bool Lia.
Import ListNotations.
From Verif Require Import Base.Val C18.Fs C18.FsLemmas C18.Model_C18 C18.Spec_C18 C18.Proofs_C18.
From Verif Require Import C19.Model_C19 C19.Spec_C19.

(* ------------------------------------------------------------------ crash_frame *)
Definition crash_frame_stmt : Prop := forall i k q,
  untouched (merge_ops i) (i_fs i) q ->
  lookup (crash_state (merge_ops i) (i_fs i) k) q = lookup (i_fs i) q.
Lemma crash_frame_proof : crash_frame_stmt.
Proof.
  intros i k q H. unfold crash_state. apply run_frame. now apply untouched_firstn.
Qed.

(* ------------------------------------------------------------------ copyfile: '#new' + rename *)
Lemma sibling_new_neq p : sibling_new p <> p.
Proof.
  unfold sibling_new. intro H. destruct p as [|c p]; [discriminate|].
  destruct (@exists_last _ (c :: p)) as (l & a & E); [discriminate|].
  rewrite E in H. rewrite removelast_last, last_last in H. apply app_inv_head in H.
  injection H as H. assert (L : length (a ++ NEW) = length a) by now rewrite H.
  rewrite app_length in L. cbn in L. lia.
Qed.

Definition copy_crash_atomic_stmt : Prop := forall um x chunks cp s k,
  let tmp := sibling_new cp in
  let ops := staged_file_ops_chunked um x chunks cp in
  let st := crash_state ops s k in
  (forall q, q <> cp -> q <> tmp -> lookup st q = lookup s q) /\
  (lookup st cp = lookup s cp \/
   exists s2, run_opt (removelast ops) s = Some s2 /\
     lookup s2 tmp = Some (staged_node (file_create_mode um) chunks (perms_new x tmp) (fresh_ino s)) /\
     lookup st cp = lookup s2 tmp /\ lookup st tmp = None).
Lemma copy_crash_atomic_proof : copy_crash_atomic_stmt.
Proof.
  intros um x chunks cp s k tmp ops st.
  pose proof (atomic_replace s tmp cp (file_create_mode um) chunks (perms_new x tmp) k
                (sibling_new_neq cp) (perms_new_on x tmp)) as [Hfr Hp].
  split; [exact Hfr|]. destruct Hp as [Hp|(s2 & H2 & H3 & H4 & _)]; [now left|right].
  exists s2. assert (Hrl : removelast ops = Create tmp (file_create_mode um) :: appends tmp chunks ++ perms_new x tmp).
  { unfold ops, staged_file_ops_chunked, replace_ops. fold tmp.
    replace (Create tmp (file_create_mode um) :: appends tmp chunks ++ perms_new x tmp ++ [Rename tmp cp])
      with ((Create tmp (file_create_mode um) :: appends tmp chunks ++ perms_new x tmp) ++ [Rename tmp cp])
      by (cbn; now rewrite <- app_assoc).
    apply removelast_last. }
  rewrite Hrl. repeat split; auto.
  eapply staged_complete; eauto using perms_new_on.
Qed.

(* ------------------------------------------------------------------ prefix reasoning *)
Definition all_prefixes (P : fs -> Prop) (ops : list op) (s : fs) : Prop :=
  forall k, P (run (firstn k ops) s).
Lemma all_prefixes_nil (P : fs -> Prop) s : P s -> all_prefixes P [] s.
Proof. intros H k. destruct k; exact H. Qed.
Lemma all_prefixes_cons (P : fs -> Prop) o r s :
  P s -> (forall s1, apply_op s o = Some s1 -> all_prefixes P r s1) -> all_prefixes P (o :: r) s.
Proof.
  intros H0 H1 [|k]; cbn; [exact H0|]. destruct (apply_op s o) as [s1|] eqn:E; [now apply H1|exact H0].
Qed.

(* ------------------------------------------------------------------ do_link: '#new' + rename *)
(* the block  [Unlink tmp]?; Link a tmp; Rename tmp b  with tmp = '<b>#new': at every crash
   point b holds its old node or a's node (the complete new hard link); nothing but b and tmp
   changes *)
Definition link_crash_atomic_stmt : Prop := forall pre a b s k na,
  let tmp := sibling_new b in
  (pre = [] \/ pre = [Unlink tmp]) ->
  lookup s a = Some na -> a <> tmp ->
  let st := crash_state (link_ops pre a b) s k in
  (forall q, q <> b -> q <> tmp -> lookup st q = lookup s q) /\
  (lookup st b = lookup s b \/ lookup st b = Some na).
Lemma link_crash_atomic_proof : link_crash_atomic_stmt.
Proof.
  intros pre a b s k na tmp Hpre Ha Hat st. subst st. unfold crash_state.
  assert (Hne : tmp <> b) by apply sibling_new_neq.
  set (P := fun st : fs =>
    (forall q, q <> b -> q <> tmp -> lookup st q = lookup s q) /\
    (lookup st b = lookup s b \/ lookup st b = Some na)).
  (* from any state that agrees with s outside tmp, Link; Rename keeps P at every prefix *)
  assert (Htail : forall s1, (forall q, q <> tmp -> lookup s1 q = lookup s q) ->
                  all_prefixes P [Link a tmp; Rename tmp b] s1).
  { intros s1 F1.
    assert (P1 : P s1) by (split; [intros q _ Hq; now apply F1|left; apply F1; congruence]).
    apply all_prefixes_cons; [exact P1|]. intros s2 Hl. cbn in Hl.
    rewrite (F1 a Hat), Ha in Hl. destruct (is_file_node na) eqn:Hf; [|discriminate].
    cbn in Hl. destruct (can_create s1 tmp); [|discriminate]. injection Hl as <-.
    assert (F2 : forall q, q <> tmp -> lookup (set_node s1 tmp na) q = lookup s q)
      by (intros q Hq; rewrite lookup_set_other by exact Hq; now apply F1).
    assert (P2 : P (set_node s1 tmp na)) by (split; [intros q _ Hq; now apply F2|left; apply F2; congruence]).
    apply all_prefixes_cons; [exact P2|]. intros s3 Hr. apply all_prefixes_nil.
    cbn in Hr. rewrite lookup_set_same in Hr.
    destruct b as [|b0 b]; [discriminate|]. set (bb := b0 :: b) in *.
    destruct (path_eq_dec tmp bb) as [|Hnb]; [contradiction|].
    destruct (negb (isdir (set_node s1 tmp na) (parent bb))); [discriminate|].
    assert (Hnd : is_dir_node na = false) by (destruct na; try discriminate; reflexivity).
    rewrite Hnd in Hr.
    assert (Hmv : P (set_node (remove (set_node s1 tmp na) tmp) bb na)).
    { split.
      - intros q Hq1 Hq2. rewrite lookup_set_other, lookup_remove_other by assumption. now apply F2.
      - right. apply lookup_set_same. }
    destruct (lookup (set_node s1 tmp na) bb) as [m|].
    - destruct (is_dir_node m); [discriminate|].
      destruct (ino_of na), (ino_of m); try (injection Hr as <-; exact Hmv).
      destruct (N.eqb n n0); injection Hr as <-; [exact P2|exact Hmv].
    - injection Hr as <-; exact Hmv. }
  assert (P0 : P s) by (split; [reflexivity|now left]).
  unfold link_ops. fold tmp. destruct Hpre as [->| ->]; cbn [app].
  - apply Htail. reflexivity.
  - apply all_prefixes_cons; [exact P0|]. intros s1 Hu. apply Htail.
    cbn in Hu. destruct (lookup s tmp) as [n|]; [|discriminate].
    destruct (is_dir_node n); [discriminate|]. injection Hu as <-.
    intros q Hq. now apply lookup_remove_other.
Qed.

(* ------------------------------------------------------------------ directories *)
(* ensure_perms of an existing directory: lchown, then utime.  Between the two the directory
   has its new owner and still its old mtime; its mode never changes: the one allowed
   intermediate state *)
Definition dir_metadata_two_step_stmt : Prop := forall x cp n2 s k m u g t,
  lookup s cp = Some (Dir m u g t) ->
  let st := crash_state (perms_existing x cp cp n2) s k in
  (forall q, q <> cp -> lookup st q = lookup s q) /\
  exists u' g' t', lookup st cp = Some (Dir m u' g' t') /\
    (t' = t \/ (Some t' = e_mtime x /\ u' = (match e_uid x with Some v => v | None => u end)
                                    /\ g' = (match e_gid x with Some v => v | None => g end))
            \/ (Some t' = e_mtime x /\ u' = u /\ g' = g)).
Lemma dir_metadata_two_step_proof : dir_metadata_two_step_stmt.
Proof.
  intros x cp n2 s k m u g t Hd st. subst st. unfold crash_state.
  set (P := fun st : fs =>
    (forall q, q <> cp -> lookup st q = lookup s q) /\
    exists u' g' t', lookup st cp = Some (Dir m u' g' t') /\
      (t' = t \/ (Some t' = e_mtime x /\ u' = (match e_uid x with Some v => v | None => u end)
                                      /\ g' = (match e_gid x with Some v => v | None => g end))
              \/ (Some t' = e_mtime x /\ u' = u /\ g' = g))).
  assert (P0 : P s) by (split; [reflexivity|exists u, g, t; split; [exact Hd|now left]]).
  assert (Hut : forall s1 u1 g1, (forall q, q <> cp -> lookup s1 q = lookup s q) ->
            lookup s1 cp = Some (Dir m u1 g1 t) ->
            (u1 = u /\ g1 = g \/ u1 = (match e_uid x with Some v => v | None => u end)
                               /\ g1 = (match e_gid x with Some v => v | None => g end)) ->
            forall tt, e_mtime x = Some tt -> all_prefixes P [Utime cp tt] s1).
  { intros s1 u1 g1 F1 H1 Hug tt Hm.
    assert (P1 : P s1) by (split; [exact F1|exists u1, g1, t; split; [exact H1|now left]]).
    apply all_prefixes_cons; [exact P1|]. intros s2 Hop. apply all_prefixes_nil.
    cbn in Hop. rewrite H1 in Hop. cbn in Hop. unfold update in Hop. rewrite H1 in Hop. cbn in Hop.
    injection Hop as <-. split.
    - intros q Hq. rewrite lookup_set_other by exact Hq. now apply F1.
    - exists u1, g1, tt. rewrite lookup_set_same. split; [reflexivity|].
      destruct Hug as [[-> ->]|[-> ->]]; [right; right|right; left]; repeat split; now rewrite Hm. }
  unfold perms_existing. destruct (node_owner n2) as [u2 g2].
  destruct ((negb (opt_is (e_uid x) u2) || negb (opt_is (e_gid x) g2)) && (is_some (e_uid x) || is_some (e_gid x))).
  - cbn [app]. apply all_prefixes_cons; [exact P0|]. intros s1 Hop.
    cbn in Hop. unfold update in Hop. rewrite Hd in Hop. cbn in Hop. injection Hop as <-.
    assert (F1 : forall q, q <> cp -> lookup (set_node s cp (Dir m (match e_uid x with Some v => v | None => u end)
                     (match e_gid x with Some v => v | None => g end) t)) q = lookup s q)
      by (intros q Hq; now apply lookup_set_other).
    destruct (e_mtime x) as [tt|] eqn:Hm.
    + destruct (Z.eqb tt (node_mtime n2)).
      * apply all_prefixes_nil. split; [exact F1|]. eexists _, _, t. rewrite lookup_set_same. split; [reflexivity|now left].
      * eapply Hut; eauto. apply lookup_set_same.
    + apply all_prefixes_nil. split; [exact F1|]. eexists _, _, t. rewrite lookup_set_same. split; [reflexivity|now left].
  - cbn [app]. destruct (e_mtime x) as [tt|] eqn:Hm.
    + destruct (Z.eqb tt (node_mtime n2)); [apply all_prefixes_nil; exact P0|].
      eapply Hut; eauto.
    + apply all_prefixes_nil; exact P0.
Qed.

(* ------------------------------------------------------------------ every crash point lies in one step *)
(* [Loc Q ops s]: every crash state of [ops] from [s] is a crash state of a single block
   [blk] with [Q sb blk], started from a state [sb] that is itself a crash state of [ops]
   (a boundary reached after whole blocks). *)
Definition Loc (Q : fs -> list op -> Prop) (ops : list op) (s : fs) : Prop :=
  forall k, exists sb blk k' j,
    Q sb blk /\ run (firstn k ops) s = run (firstn k' blk) sb /\ sb = run (firstn j ops) s.

Lemma Loc_single (Q : fs -> list op -> Prop) ops s : Q s ops -> Loc Q ops s.
Proof. intros H k. exists s, ops, k, 0. repeat split; auto. Qed.

Lemma firstn_app_le {A} (a b : list A) k : k <= length a -> firstn k (a ++ b) = firstn k a.
Proof. intro H. rewrite firstn_app. replace (k - length a) with 0 by lia. cbn. apply app_nil_r. Qed.

Lemma Loc_app (Q : fs -> list op -> Prop) a b s :
  Loc Q a s -> (forall s', run_opt a s = Some s' -> Loc Q b s') -> Loc Q (a ++ b) s.
Proof.
  intros Ha Hb k.
  assert (Hshort : forall k0, k0 <= length a -> exists sb blk k' j,
            Q sb blk /\ run (firstn k0 a) s = run (firstn k' blk) sb /\ sb = run (firstn j (a ++ b)) s).
  { intros k0 Hk0. destruct (Ha k0) as (sb & blk & k' & j & HQ & Hrun & Hsb).
    exists sb, blk, k', (Nat.min j (length a)). repeat split; auto.
    rewrite firstn_app_le by lia. rewrite Hsb. f_equal.
    destruct (Nat.le_gt_cases j (length a)).
    - now rewrite Nat.min_l by lia.
    - rewrite Nat.min_r by lia. rewrite firstn_all. now rewrite firstn_all2 by lia. }
  destruct (Nat.le_gt_cases k (length a)) as [Hk|Hk].
  - rewrite firstn_app_le by exact Hk. now apply Hshort.
  - rewrite firstn_app. rewrite (firstn_all2 a) by lia. rewrite run_app.
    destruct (run_opt a s) as [s'|] eqn:E.
    + destruct (Hb s' eq_refl (k - length a)) as (sb & blk & k' & j & HQ & Hrun & Hsb).
      exists sb, blk, k', (length a + j). repeat split; auto.
      rewrite Hsb. rewrite firstn_app. rewrite (firstn_all2 a) by lia.
      replace (length a + j - length a) with j by lia. rewrite run_app, E. reflexivity.
    + replace (run a s) with (run (firstn (length a) a) s) by now rewrite firstn_all.
      apply Hshort. lia.
Qed.

Inductive step_block (i : minput) : fs -> list op -> Prop :=
| SB_offset s : step_block i s (fst (offset_ops (i_umask i) s (i_offset i)))
| SB_dir s x : In x (cset_of i) -> is_kdir x = true ->
    step_block i s (fst (dir_step (i_umask i) s x))
| SB_nondir s merged x : In x (cset_of i) -> is_kdir x = false ->
    step_block i s (fst (fst (nondir_step (i_umask i) s merged x)))
| SB_nil s : step_block i s [].

Lemma dirs_phase_loc i : forall ds s,
  (forall x, In x ds -> In x (cset_of i) /\ is_kdir x = true) ->
  Loc (step_block i) (fst (fst (dirs_phase (i_umask i) s ds))) s.
Proof.
  induction ds as [|x r IH]; intros s Hin; cbn [dirs_phase].
  - cbn. apply Loc_single. constructor.
  - destruct (dir_step (i_umask i) s x) as [ops err] eqn:Ed.
    assert (Hb : step_block i s ops).
    { replace ops with (fst (dir_step (i_umask i) s x)) by now rewrite Ed.
      apply SB_dir; apply Hin; now left. }
    destruct err as [e|]; cbn [fst].
    + now apply Loc_single.
    + destruct (dirs_phase (i_umask i) (run ops s) r) as [[ops2 s2] err2] eqn:Ep. cbn [fst].
      apply Loc_app; [now apply Loc_single|].
      intros s' Hs'. apply run_opt_run in Hs'. subst s'.
      specialize (IH (run ops s)). rewrite Ep in IH. apply IH. intros y Hy. apply Hin. now right.
Qed.

Lemma nondirs_phase_loc i : forall xs s merged,
  (forall x, In x xs -> In x (cset_of i) /\ is_kdir x = false) ->
  Loc (step_block i) (fst (fst (nondirs_phase (i_umask i) s merged xs))) s.
Proof.
  induction xs as [|x r IH]; intros s merged Hin; cbn [nondirs_phase].
  - cbn. apply Loc_single. constructor.
  - destruct (nondir_step (i_umask i) s merged x) as [[ops err] merged'] eqn:Ed.
    assert (Hb : step_block i s ops).
    { replace ops with (fst (fst (nondir_step (i_umask i) s merged x))) by now rewrite Ed.
      apply SB_nondir; apply Hin; now left. }
    destruct err as [e|]; cbn [fst].
    + now apply Loc_single.
    + destruct (nondirs_phase (i_umask i) (run ops s) merged' r) as [[ops2 s2] err2] eqn:Ep. cbn [fst].
      apply Loc_app; [now apply Loc_single|].
      intros s' Hs'. apply run_opt_run in Hs'. subst s'.
      specialize (IH (run ops s) merged'). rewrite Ep in IH. apply IH. intros y Hy. apply Hin. now right.
Qed.

Lemma In_insert_sorted x y l : In x (insert_sorted y l) -> x = y \/ In x l.
Proof.
  induction l as [|z l IH]; cbn.
  - intros [H|[]]; auto.
  - destruct (str_ltb (path_str (e_loc y)) (path_str (e_loc z))); cbn.
    + intros [H|[H|H]]; auto.
    + intros [H|H]; auto. destruct (IH H); auto.
Qed.
Lemma In_sort_entries x l : In x (sort_entries l) -> In x l.
Proof.
  induction l as [|y l IH]; cbn; [auto|]. intro H. apply In_insert_sorted in H. destruct H; auto.
Qed.

Lemma dirs_phase_cons um s x r :
  dirs_phase um s (x :: r) =
  (let '(ops, err) := dir_step um s x in
   let s1 := run ops s in
   match err with
   | Some e => (ops, s1, Some e)
   | None => let '(ops2, s2, err2) := dirs_phase um s1 r in (ops ++ ops2, s2, err2)
   end).
Proof. reflexivity. Qed.

Lemma dirs_phase_state um : forall ds s ops1 s2,
  dirs_phase um s ds = (ops1, s2, None) -> forall s', run_opt ops1 s = Some s' -> s2 = s'.
Proof.
  induction ds as [|x r IH]; intros s ops1 s2 E s' Hr.
  - change (dirs_phase um s []) with (@nil op, s, @None N) in E.
    injection E as <- <-. change (Some s = Some s') in Hr. congruence.
  - rewrite dirs_phase_cons in E.
    destruct (dir_step um s x) as [ops err]. destruct err; [discriminate|].
    cbv zeta in E.
    destruct (dirs_phase um (run ops s) r) as [[opsr sr] errr] eqn:Er.
    injection E as <- <- ->. rewrite run_opt_app in Hr.
    destruct (run_opt ops s) as [s1|] eqn:Eo; [|discriminate].
    rewrite (run_opt_run _ _ _ Eo) in Er. eapply IH; eauto.
Qed.

Definition crash_localised_stmt : Prop := forall i k,
  exists sb blk k' j,
    step_block i sb blk /\
    crash_state (merge_ops i) (i_fs i) k = crash_state blk sb k' /\
    sb = crash_state (merge_ops i) (i_fs i) j.
Lemma crash_localised_proof : crash_localised_stmt.
Proof.
  intros i. unfold crash_state. change (Loc (step_block i) (merge_ops i) (i_fs i)).
  unfold merge_ops, merge.
  destruct (offset_ops (i_umask i) (i_fs i) (i_offset i)) as [ops0 err0] eqn:E0.
  assert (H0 : step_block i (i_fs i) ops0).
  { replace ops0 with (fst (offset_ops (i_umask i) (i_fs i) (i_offset i))) by now rewrite E0. constructor. }
  destruct err0 as [e|]; cbn [fst]; [now apply Loc_single|].
  fold (cset_of i).
  destruct (dirs_phase (i_umask i) (run ops0 (i_fs i)) (sort_entries (filter is_kdir (cset_of i))))
    as [[ops1 s2] err1] eqn:E1.
  assert (H1 : Loc (step_block i) ops1 (run ops0 (i_fs i))).
  { pose proof (dirs_phase_loc i (sort_entries (filter is_kdir (cset_of i))) (run ops0 (i_fs i))) as H.
    rewrite E1 in H. apply H. intros x Hx. apply In_sort_entries in Hx. apply filter_In in Hx. exact Hx. }
  destruct err1 as [e|]; cbn [fst].
  - apply Loc_app; [now apply Loc_single|]. intros s' Hs'. apply run_opt_run in Hs'. now subst s'.
  - destruct (nondirs_phase (i_umask i) s2 [] (filter (fun x => negb (is_kdir x)) (cset_of i)))
      as [[ops2 s3] err2] eqn:E2. cbn [fst].
    apply Loc_app; [now apply Loc_single|]. intros s' Hs'. apply run_opt_run in Hs'. subst s'.
    apply Loc_app; [exact H1|]. intros s' Hs'.
    rewrite <- (dirs_phase_state _ _ _ _ _ E1 _ Hs').
    pose proof (nondirs_phase_loc i (filter (fun x => negb (is_kdir x)) (cset_of i)) s2 []) as H.
    rewrite E2 in H. apply H. intros x Hx. apply filter_In in Hx. destruct Hx as [Hx Hk].
    split; [exact Hx|]. now destruct (is_kdir x).
Qed.
