#!/bin/bash
# usage: run.sh NAME  (the mutation must already be applied in /tmp/wt_C49)
cd /verif
git -C /tmp/wt_C49 diff > chk.scratch/c49/mut/$1.diff
( time VERIF_REPO=/tmp/wt_C49 VERIF_C49_CASES=4,60 ./check C49 ) > chk.scratch/c49/mut/$1.out 2>&1
echo "exit=$?" >> chk.scratch/c49/mut/$1.out
grep -E "VIOLATION|exit=|^\[C49\]|real" chk.scratch/c49/mut/$1.out
git -C /tmp/wt_C49 checkout -q -- .
