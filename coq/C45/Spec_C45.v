(* Spec_C45.v — when a GLSA <package> entry AFFECTS an installed package, written from the statement:

   "A package is reported as affected by a GLSA exactly when its name matches an affected package
    entry, its version and slot satisfy at least one vulnerable range and no unaffected range, and,
    when the entry names arches, it carries one of them.  Ranges follow the GLSA format:
    lt/le/eq/ge/gt compare full versions, the r-prefixed forms compare revisions of the same
    version, an eq range ending in * is a version-component prefix, and a slot attribute limits a
    range of any kind to that slot."

   The reference evaluator reads the nine operators from its own table, never builds restrictions,
   and treats an entry with a range that is not GLSA format (unknown operator, missing or invalid
   version, * with a non-eq operator) as no entry at all. *)
From Coq Require Import List NArith ZArith Bool Arith.
Import ListNotations.
From Verif Require Import Base.Val C01.Model_C01 C04.Model_C04 C04.Spec_C04 C44.Model_C44 C45.Model_C45.
From Verif Require C03.Model_C03.
Local Open Scope N_scope.

(* the GLSA range operators *)
Inductive cmpop := CLt | CLe | CEq | CGe | CGt.
Definition glsa_ops : list (str * (bool * cmpop)) :=      (* name -> (revision form?, comparison) *)
  [ ([108; 116], (false, CLt)); ([108; 101], (false, CLe)); ([101; 113], (false, CEq));
    ([103; 101], (false, CGe)); ([103; 116], (false, CGt));
    ([114; 108; 116], (true, CLt)); ([114; 108; 101], (true, CLe));
    ([114; 103; 101], (true, CGe)); ([114; 103; 116], (true, CGt)) ].
Fixpoint lookup_op (k : str) (l : list (str * (bool * cmpop))) : option (bool * cmpop) :=
  match l with [] => None | (k', v) :: l' => if str_eqb k k' then Some v else lookup_op k l' end.
Definition glsa_op (op : str) : option (bool * cmpop) := lookup_op op glsa_ops.
(* a comparison result is -1, 0 or 1 (C01's interface) *)
Definition cmp_holds (o : cmpop) (c : Z) : bool :=
  memZ c (match o with
          | CLt => [-1] | CLe => [-1; 0] | CEq => [0] | CGe => [0; 1] | CGt => [1]
          end)%Z.

(* a well-formed range: operator, slot ("" = every slot), version, revision, glob? *)
Record wrange := { w_rev_form : bool; w_cmp : cmpop; w_slot : str; w_ver : str; w_rev : option N;
                   w_fullver : str; w_glob : bool }.

Definition read_range (rg : range) : option wrange :=
  match glsa_op (strip (g_op rg)), g_text rg with
  | Some (rf, c), Some txt =>
      let base0 := strip txt in
      let glob := ends_star base0 in
      match parse_base (if glob then removelast base0 else base0) with
      | Some (v, r, fv) =>
          if glob && negb (negb rf && match c with CEq => true | _ => false end) then None
          else Some {| w_rev_form := rf; w_cmp := c; w_slot := opt_slot (g_slot rg); w_ver := v;
                       w_rev := rev_opt r; w_fullver := fv; w_glob := glob |}
      | None => None
      end
  | _, _ => None
  end.

(* does the package's version and slot satisfy the range? *)
Definition range_sat (w : wrange) (p : package) : bool :=
  (is_nil (w_slot w) || str_eqb (w_slot w) (p_slot p))
  && (if w_glob w then comp_prefix (w_fullver w) (p_fullver p)            (* version-component prefix *)
      else if w_rev_form w then
        Z.eqb (ver_cmp (p_ver p) None (w_ver w) None) 0                  (* the same version ... *)
        && cmp_holds (w_cmp w) (cmpN (rev_val (p_rev p)) (rev_val (w_rev w)))   (* ... compare revisions *)
      else cmp_holds (w_cmp w) (ver_cmp (p_ver p) (p_rev p) (w_ver w) (w_rev w))).   (* full versions *)

Definition arch_ok (a : option str) (kw : list str) : bool :=
  match a with
  | None => true
  | Some s => let l := words (strip s) in
              is_nil l || smem [c_star] l || existsb (fun x => smem x kw) l
  end.

Definition name_atom (e : entry) : option atom :=
  match Model_C03.parse_atom None false (strip (n_name e)) with
  | Model_C03.Ok a => if Model_C03.a_transitive a then None else Some (bridge a)
  | _ => None
  end.

(* the entry as GLSA data; None = not a GLSA entry (nothing is reported for it) *)
Definition read_entry (e : entry) : option (atom * list wrange * list wrange) :=
  match name_atom e, all_some (map read_range (n_vuln e)), all_some (map read_range (n_unaff e)) with
  | Some a, Some (v :: vs), Some us => Some (a, v :: vs, us)
  | _, _, _ => None
  end.

Definition rentry : Type := option (atom * list wrange * list wrange).
Definition affected_of (re : rentry) (arch : option str) (p : ipkg) : bool :=
  match re with
  | None => false
  | Some (a, vs, us) =>
      atom_match ver_cmp a (i_pkg p)
      && existsb (fun w => range_sat w (i_pkg p)) vs
      && forallb (fun w => negb (range_sat w (i_pkg p))) us
      && arch_ok arch (i_keywords p)
  end.
Definition affected_spec (e : entry) (p : ipkg) : bool := affected_of (read_entry e) (n_arch e) p.

(* ------------------------------------------------------------------ the classes in which the
   (repaired) implementation is known to differ *)
(* K3: a glob range whose text is a string prefix but not a component prefix (or vice versa) *)
Definition glob_disagrees (w : wrange) (p : package) : bool :=
  w_glob w && negb (Bool.eqb (startswith (p_fullver p) (w_fullver w)) (comp_prefix (w_fullver w) (p_fullver p))).
(* K4: rlt without a revision (an empty range): the implementation discards the whole entry *)
Definition rlt_r0 (w : wrange) : bool :=
  w_rev_form w && negb (w_glob w) && match w_cmp w, w_rev w with CLt, None => true | _, _ => false end.
(* the revision forms presuppose that the revision is the last tie-breaker of the version order:
   comparing with revisions = comparing without, and by revision when that is a tie *)
Definition rev_compat (w : wrange) (p : package) : bool :=
  let base := ver_cmp (p_ver p) None (w_ver w) None in
  Z.eqb (ver_cmp (p_ver p) (p_rev p) (w_ver w) (w_rev w))
        (if Z.eqb base 0 then cmpN (rev_val (p_rev p)) (rev_val (w_rev w)) else base).

Definition known_of (re : rentry) (p : ipkg) : bool :=
  match re with
  | None => false
  | Some (_, vs, us) => existsb (fun w => glob_disagrees w (i_pkg p) || rlt_r0 w) (vs ++ us)
  end.
Definition known_class (e : entry) (p : ipkg) : bool := known_of (read_entry e) p.
Definition revs_compat_of (re : rentry) (p : ipkg) : bool :=
  match re with
  | None => true
  | Some (_, vs, us) => forallb (fun w => rev_compat w (i_pkg p)) (vs ++ us)
  end.
Definition revs_compat (e : entry) (p : ipkg) : bool := revs_compat_of (read_entry e) p.

(* every version involved is a valid version (C01's model of isvalid_version_re, without the trailing
   newline Python's $ tolerates) *)
Definition versions_valid_of (re : rentry) (p : ipkg) : bool :=
  valid_version_core (p_ver (i_pkg p))
  && match re with
     | None => true
     | Some (_, vs, us) => forallb (fun w => valid_version_core (w_ver w)) (vs ++ us)
     end.
Definition versions_valid (e : entry) (p : ipkg) : bool := versions_valid_of (read_entry e) p.

(* the pinned tree additionally: K1 an unaffected glob, K2 a slot on a glob / rle / rge at -r0 *)
Definition slot_dropped (w : wrange) : bool :=
  negb (is_nil (w_slot w))
  && (w_glob w || (w_rev_form w && match w_cmp w, w_rev w with CLe, None | CGe, None => true | _, _ => false end)).
Definition known_orig_of (re : rentry) (p : ipkg) : bool :=
  known_of re p
  || match re with
     | None => false
     | Some (_, vs, us) => existsb w_glob us || existsb slot_dropped (vs ++ us)
     end.
Definition known_class_orig (e : entry) (p : ipkg) : bool := known_orig_of (read_entry e) p.

(* ------------------------------------------------------------------ (B) inside Coq *)
(* recorded: VNone (no restriction yielded) | VS bits.  Accept iff every package of the pool outside
   the known class is flagged exactly when affected_spec says so *)
Definition spec_entry_bad (orig : bool) (pool : list ipkg) (e : entry) (r : val) : bool :=
  let re := read_entry e in
  let kc := if orig then known_orig_of re else known_of re in
  let want := affected_of re (n_arch e) in
  match re with None => false | Some _ =>      (* not GLSA format: the statement says nothing *)
  match r with
  | VNone => existsb (fun p => negb (kc p) && want p) pool
  | VS b => negb (Nat.eqb (length b) (length pool))
            || existsb (fun pb => negb (kc (fst pb)) && negb (N.eqb (snd pb) (if want (fst pb) then 49 else 48)))
                       (combine pool b)
  | _ => true
  end end.
(* the cases on which the spec and the recorded result differ at all (inside or outside a class) *)
Definition spec_entry_differs (pool : list ipkg) (e : entry) (r : val) : bool :=
  let re := read_entry e in
  let want := affected_of re (n_arch e) in
  match r with
  | VNone => existsb want pool
  | VS b => existsb (fun pb => negb (N.eqb (snd pb) (if want (fst pb) then 49 else 48))) (combine pool b)
  | _ => true
  end.
Definition versions_bad (pool : list ipkg) (e : entry) (_ : val) : bool :=
  let re := read_entry e in negb (forallb (versions_valid_of re) pool).
Definition revs_bad (pool : list ipkg) (e : entry) (_ : val) : bool :=
  let re := read_entry e in negb (forallb (revs_compat_of re) pool).
