(* UseDep_C03.v — the USE-dependency token check of atom.__init__ ([valid_use_dep], which peels the
   token from both ends) accepts exactly the PMS 8.3.4 forms as the spec scans them left to right
   ([pms_use_dep]), for tokens without a newline.  Both are related through the declarative shape
   [decl]:  [!|-] flag [(+)|(-)] [=|?]. *)
From Coq Require Import List NArith ZArith Bool Arith Lia.
Import ListNotations.
From Verif Require Import Base.Val gen.Tables_eapi gen.Tables_C03 C03.Model_C03 C03.Spec_C03 C03.Proofs_C03.
Local Open Scope N_scope.

Definition is_default (d : bool) (D : str) : Prop :=
  D = [] \/ (d = true /\ exists b, (b = c_plus \/ b = c_dash) /\ D = [c_lpar; b; c_rpar]).
Definition is_tail (S : str) : Prop := S = [] \/ S = [c_eq] \/ S = [c_qm].

Definition decl (d : bool) (x : str) : Prop :=
  exists P name D S,
    x = P ++ name ++ D ++ S
    /\ pms_use_flag name = true
    /\ (P = [] \/ (P = [c_bang] /\ S <> []) \/ (P = [c_dash] /\ S = []))
    /\ is_default d D /\ is_tail S.

(* ---------------------------------------------------------------- list facts *)
Lemma lastc_snoc a c : lastc (a ++ [c]) = Some c.
Proof. unfold lastc. destruct (a ++ [c]) eqn:E; [now destruct a|]. rewrite <- E. now rewrite last_last. Qed.

Lemma not_in_app_l {A} (x : A) a b : ~ In x (a ++ b) -> ~ In x a.
Proof. intros H Hin. apply H, in_or_app. now left. Qed.
Lemma not_in_app_r {A} (x : A) a b : ~ In x (a ++ b) -> ~ In x b.
Proof. intros H Hin. apply H, in_or_app. now right. Qed.

Lemma ends_default_spec y :
  ends_default y = true ->
  exists b, (b = c_plus \/ b = c_dash) /\ y = drop_last3 y ++ [c_lpar; b; c_rpar].
Proof.
  unfold ends_default, drop_last3. intros H.
  destruct (rev y) as [|a [|b [|c r]]] eqn:Er; try discriminate.
  apply andb_true_iff in H as [H Hc]. apply andb_true_iff in H as [Ha Hb].
  apply N.eqb_eq in Ha, Hc. subst a c.
  assert (Ey : y = rev r ++ [c_lpar; b; c_rpar]).
  { rewrite <- (rev_involutive y), Er. cbn [rev]. now rewrite <- !app_assoc. }
  exists b. split.
  - apply orb_true_iff in Hb as [Hb|Hb]; apply N.eqb_eq in Hb; auto.
  - rewrite Ey at 1 2.
    change (rev r ++ [c_lpar; b; c_rpar]) with (rev r ++ [c_lpar] ++ [b] ++ [c_rpar]).
    rewrite !app_assoc, removelast_last, removelast_last, removelast_last.
    now rewrite <- !app_assoc.
Qed.

Lemma drop_last3_app z a b c : drop_last3 (z ++ [a; b; c]) = z.
Proof.
  unfold drop_last3. change (z ++ [a; b; c]) with (z ++ [a] ++ [b] ++ [c]).
  now rewrite !app_assoc, !removelast_last.
Qed.

Lemma ends_default_app z b : (b = c_plus \/ b = c_dash) -> ends_default (z ++ [c_lpar; b; c_rpar]) = true.
Proof.
  intros Hb. unfold ends_default. rewrite rev_app_distr. cbn [rev app].
  destruct Hb as [-> | ->]; reflexivity.
Qed.

(* ---------------------------------------------------------------- the code's check => the shape *)
Lemma tail_decl d y :
  ~ In c_nl y ->
  match lastc y with
  | None => false
  | Some l2 =>
      if (l2 =? c_rpar) && negb d then false
      else negb (is_nil (if (l2 =? c_rpar) && ends_default y then drop_last3 y else y))
           && m_use_flag (if (l2 =? c_rpar) && ends_default y then drop_last3 y else y)
  end = true ->
  exists name D, y = name ++ D /\ pms_use_flag name = true /\ is_default d D.
Proof.
  intros Hnl. destruct (lastc y) as [l2|] eqn:El; [|discriminate].
  apply lastc_some in El.
  destruct (N.eqb_spec l2 c_rpar) as [-> |Hl]; cbn [andb].
  - destruct d; cbn [negb]; [|discriminate].
    destruct (ends_default y) eqn:Ee.
    + destruct (ends_default_spec _ Ee) as (b & Hb & Ey).
      intros H. apply andb_true_iff in H as [_ H].
      exists (drop_last3 y), [c_lpar; b; c_rpar]. split; [exact Ey|]. split.
      * rewrite <- (proj1 (proj2 charsets_agree_proof)); [exact H|].
        rewrite Ey in Hnl. exact (not_in_app_l _ _ _ Hnl).
      * right. split; [reflexivity|]. eauto.
    + intros H. apply andb_true_iff in H as [_ H]. exfalso.
      apply (m_use_flag_no_rpar _ H). rewrite El. apply in_or_app. right. now left.
  - intros H. apply andb_true_iff in H as [_ H].
    exists y, []. split; [now rewrite app_nil_r|]. split; [|now left].
    now rewrite <- (proj1 (proj2 charsets_agree_proof)).
Qed.

Lemma mk_decl d x P name D S :
  x = P ++ name ++ D ++ S -> pms_use_flag name = true ->
  (P = [] \/ (P = [c_bang] /\ S <> []) \/ (P = [c_dash] /\ S = [])) ->
  is_default d D -> is_tail S -> decl d x.
Proof.
  intros H1 H2 H3 H4 H5. exists P, name, D, S.
  split; [exact H1|]. split; [exact H2|]. split; [exact H3|]. split; [exact H4 | exact H5].
Qed.

Lemma model_decl d x : ~ In c_nl x -> valid_use_dep d x = true -> decl d x.
Proof.
  intros Hnl. unfold valid_use_dep. destruct (lastc x) as [l|] eqn:El; [|discriminate].
  apply lastc_some in El.
  destruct ((l =? c_eq) || (l =? c_qm)) eqn:Ek.
  - assert (HS : is_tail [l]).
    { apply orb_true_iff in Ek as [E|E]; apply N.eqb_eq in E; subst; [right; now left | right; now right]. }
    destruct (removelast x) as [|c t] eqn:Er; [discriminate|].
    rewrite El in Hnl. pose proof (not_in_app_l _ _ _ Hnl) as Hnl1.
    destruct (N.eqb_spec c c_bang) as [->|Hc].
    + destruct t as [|d0 t']; [discriminate|]. destruct (d0 =? c_dash); [discriminate|].
      intros H. apply tail_decl in H as (name & D & Ey & Hf & HD).
      2:{ intros Hin. apply Hnl1. now right. }
      apply (mk_decl d x [c_bang] name D [l]); [ | exact Hf | | exact HD | exact HS].
      * rewrite El, Ey. cbn [app]. now rewrite <- app_assoc.
      * right. left. split; [reflexivity | discriminate].
    + destruct (c =? c_dash); [discriminate|].
      intros H. apply tail_decl in H as (name & D & Ey & Hf & HD); [|exact Hnl1].
      apply (mk_decl d x [] name D [l]); [ | exact Hf | now left | exact HD | exact HS].
      rewrite El, Ey. cbn [app]. now rewrite <- app_assoc.
  - destruct x as [|c t]; [discriminate|].
    destruct (N.eqb_spec c c_dash) as [->|Hc].
    + intros H. apply tail_decl in H as (name & D & Ey & Hf & HD).
      2:{ intros Hin. apply Hnl. now right. }
      apply (mk_decl d _ [c_dash] name D []); [ | exact Hf | | exact HD | now left].
      * rewrite Ey. cbn [app]. now rewrite !app_nil_r.
      * right. right. auto.
    + intros H. apply tail_decl in H as (name & D & Ey & Hf & HD); [|exact Hnl].
      apply (mk_decl d _ [] name D []); [ | exact Hf | now left | exact HD | now left].
      rewrite Ey. cbn [app]. now rewrite !app_nil_r.
Qed.

(* ---------------------------------------------------------------- the shape => the spec's scan *)
Lemma take_drop_app (p : N -> bool) a b :
  forallb p a = true -> match b with [] => True | c :: _ => p c = false end ->
  take_while p (a ++ b) = a /\ drop_while p (a ++ b) = b.
Proof.
  intros Ha Hb. induction a as [|x a IH]; cbn [app].
  - destruct b as [|c t]; [split; reflexivity|]. cbn. rewrite Hb. split; reflexivity.
  - cbn in Ha. apply andb_true_iff in Ha as [Hx Ha]. cbn. rewrite Hx.
    destruct (IH Ha) as [-> ->]. split; reflexivity.
Qed.

Lemma use_flag_facts name :
  pms_use_flag name = true ->
  forallb s_use_char name = true /\ exists c t, name = c :: t /\ c <> 33 /\ c <> 45.
Proof.
  unfold pms_use_flag. intros H. apply andb_true_iff in H as [Ha Hc]. split; [exact Ha|].
  destruct name as [|c t]; [discriminate|]. exists c, t. split; [reflexivity|].
  unfold s_alnum, s_digit, s_lower, s_upper in Hc.
  repeat rewrite ?orb_true_iff, ?andb_true_iff, ?N.leb_le in Hc. lia.
Qed.

Lemma body_spec d pfx name D S :
  pms_use_flag name = true -> is_default d D -> is_tail S ->
  (pfx = 1 -> S <> []) -> (pfx = 2 -> S = []) -> (pfx = 0 \/ pfx = 1 \/ pfx = 2) ->
  use_dep_body d pfx (name ++ D ++ S) = true.
Proof.
  intros Hf HD HS H1 H2 Hp. unfold use_dep_body.
  destruct (use_flag_facts _ Hf) as [Hall _].
  assert (Hb : match D ++ S with [] => True | c :: _ => s_use_char c = false end).
  { destruct HD as [-> |(_ & b & _ & ->)]; [|reflexivity].
    destruct HS as [-> |[-> | ->]]; cbn; auto. }
  destruct (take_drop_app s_use_char name (D ++ S) Hall Hb) as [-> ->]. rewrite Hf. cbn [andb].
  destruct HS as [-> | [-> | ->]]; destruct Hp as [-> | [-> | ->]];
    try (exfalso; now apply H1); try (specialize (H2 eq_refl); discriminate);
    destruct HD as [-> | (-> & b & [-> | ->] & ->)]; reflexivity.
Qed.

Lemma decl_spec d x : decl d x -> pms_use_dep d x = true.
Proof.
  intros (P & name & D & S & -> & Hf & HP & HD & HS).
  destruct (use_flag_facts _ Hf) as [_ (c & t & Hn & Hc1 & Hc2)].
  unfold pms_use_dep, use_dep_split.
  destruct HP as [-> |[[-> HSn]|[-> HSe]]]; cbn [app].
  - rewrite Hn. cbn [app].
    destruct (N.eqb_spec c 33); [congruence|]. destruct (N.eqb_spec c 45); [congruence|]. cbn [fst snd].
    change (c :: t ++ D ++ S) with ((c :: t) ++ D ++ S). rewrite <- Hn.
    apply body_spec; auto; discriminate.
  - change (c_bang =? 33) with true. cbn [fst snd]. apply body_spec; auto; discriminate.
  - change (c_dash =? 33) with false. change (c_dash =? 45) with true. cbn [fst snd].
    apply body_spec; auto; discriminate.
Qed.

Lemma use_dep_sound d x : ~ In c_nl x -> valid_use_dep d x = true -> pms_use_dep d x = true.
Proof. intros Hn H. apply decl_spec. now apply model_decl. Qed.

(* ---------------------------------------------------------------- the spec's scan => the shape *)
Lemma take_drop_spec (p : N -> bool) s : s = take_while p s ++ drop_while p s.
Proof. induction s as [|x t IH]; cbn; [reflexivity|]. destruct (p x); cbn; [now rewrite <- IH | reflexivity]. Qed.

Ltac ex6 n D S := exists n, D, S; split; [|split; [|split; [|split; [|split]]]].

Lemma body_decl d pfx body :
  use_dep_body d pfx body = true ->
  exists name D S, body = name ++ D ++ S /\ pms_use_flag name = true /\ is_default d D /\ is_tail S
                   /\ (pfx = 1 -> S <> []) /\ (pfx = 2 -> S = []).
Proof.
  unfold use_dep_body. intros H. apply andb_true_iff in H as [Hf H].
  pose proof (take_drop_spec s_use_char body) as Hb.
  set (name := take_while s_use_char body) in *. set (rest := drop_while s_use_char body) in *.
  assert (Htail : forall S,
            match S with
            | [] => negb (pfx =? 1)
            | [c] => ((c =? 61) || (c =? 63)) && negb (pfx =? 2)
            | _ :: _ :: _ => false
            end = true ->
            is_tail S /\ (pfx = 1 -> S <> []) /\ (pfx = 2 -> S = [])).
  { intros S HS. destruct S as [|c [|c2 S']]; [| |discriminate].
    - apply negb_true_iff, N.eqb_neq in HS. repeat split; [now left | congruence].
    - apply andb_true_iff in HS as [Hc Hp]. apply negb_true_iff, N.eqb_neq in Hp.
      repeat split; [|discriminate | congruence].
      apply orb_true_iff in Hc as [Hc|Hc]; apply N.eqb_eq in Hc; subst c; [right; now left | right; now right]. }
  destruct rest as [|c r] eqn:Er.
  - apply (Htail []) in H as (H1 & H2 & H3). rewrite app_nil_r in Hb. ex6 name (@nil N) (@nil N); [now rewrite !app_nil_r | exact Hf | now left | exact H1 | exact H2 | exact H3].
  - destruct (N.eqb_spec c 40) as [->|Hc].
    + destruct d; [|discriminate]. unfold strip_default in H.
      destruct r as [|b [|c3 S]]; try discriminate.
      destruct ((40 =? 40) && (c3 =? 41) && ((b =? 43) || (b =? 45))) eqn:E; [|discriminate].
      apply andb_true_iff in E as [E Eb]. apply andb_true_iff in E as [_ E3]. apply N.eqb_eq in E3. subst c3.
      apply (Htail S) in H as (H1 & H2 & H3). ex6 name [c_lpar; b; c_rpar] S; [exact Hb | exact Hf | | exact H1 | exact H2 | exact H3].
      right. split; [reflexivity|]. exists b. split; [|reflexivity].
      apply orb_true_iff in Eb as [Eb|Eb]; apply N.eqb_eq in Eb; auto.
    + apply (Htail (c :: r)) in H as (H1 & H2 & H3). ex6 name (@nil N) (c :: r); [exact Hb | exact Hf | now left | exact H1 | exact H2 | exact H3].
Qed.

Lemma spec_decl d x : pms_use_dep d x = true -> decl d x.
Proof.
  unfold pms_use_dep, use_dep_split. destruct x as [|c t].
  - cbn [fst snd]. intros H. apply body_decl in H as (name & D & S & Hb & Hf & _).
    destruct (use_flag_facts _ Hf) as [_ (c & t & -> & _)]. discriminate.
  - destruct (N.eqb_spec c 33) as [->|H33]; cbn [fst snd].
    + intros H. apply body_decl in H as (name & D & S & -> & Hf & HD & HS & H1 & _).
      apply (mk_decl d _ [c_bang] name D S);
        [reflexivity | exact Hf | right; left; split; [reflexivity | now apply H1] | exact HD | exact HS].
    + destruct (N.eqb_spec c 45) as [->|H45]; cbn [fst snd].
      * intros H. apply body_decl in H as (name & D & S & -> & Hf & HD & HS & _ & H2).
        apply (mk_decl d _ [c_dash] name D S);
          [reflexivity | exact Hf | right; right; split; [reflexivity | now apply H2] | exact HD | exact HS].
      * intros H. apply body_decl in H as (name & D & S & Hb & Hf & HD & HS & _).
        apply (mk_decl d _ [] name D S); [exact Hb | exact Hf | now left | exact HD | exact HS].
Qed.

(* ---------------------------------------------------------------- the shape => the code's check *)
Lemma use_char_facts l : s_use_char l = true -> (l =? c_eq) || (l =? c_qm) = false /\ (l =? c_rpar) = false /\ l <> c_nl.
Proof.
  unfold s_use_char, s_alnum, s_digit, s_lower, s_upper, c_eq, c_qm, c_rpar, c_nl. intros H.
  repeat rewrite ?orb_true_iff, ?andb_true_iff, ?N.leb_le, ?N.eqb_eq in H.
  repeat split; [apply orb_false_iff; split; apply N.eqb_neq; lia | apply N.eqb_neq; lia | lia].
Qed.

Lemma last_in_list {A} (l : list A) d : l <> [] -> In (last l d) l.
Proof. intros H. rewrite (app_removelast_last d H) at 2. apply in_or_app. right. now left. Qed.

Lemma name_last name :
  pms_use_flag name = true -> exists l, lastc name = Some l /\ s_use_char l = true.
Proof.
  intros Hf. destruct (use_flag_facts _ Hf) as [Hall (c & t & -> & _)].
  exists (last (c :: t) 0). split; [reflexivity|]. rewrite forallb_forall in Hall. apply Hall.
  apply last_in_list. discriminate.
Qed.

Lemma name_no_nl name : pms_use_flag name = true -> ~ In c_nl name.
Proof.
  intros Hf Hin. destruct (use_flag_facts _ Hf) as [Hall _]. rewrite forallb_forall in Hall.
  specialize (Hall _ Hin). apply use_char_facts in Hall as (_ & _ & H). congruence.
Qed.

Lemma lastc_app3 z a b c : lastc (z ++ [a; b; c]) = Some c.
Proof. change (z ++ [a; b; c]) with (z ++ [a; b] ++ [c]). rewrite app_assoc. apply lastc_snoc. Qed.

Lemma tail_model d name D :
  pms_use_flag name = true -> is_default d D ->
  match lastc (name ++ D) with
  | None => false
  | Some l2 =>
      if (l2 =? c_rpar) && negb d then false
      else negb (is_nil (if (l2 =? c_rpar) && ends_default (name ++ D) then drop_last3 (name ++ D) else name ++ D))
           && m_use_flag (if (l2 =? c_rpar) && ends_default (name ++ D) then drop_last3 (name ++ D) else name ++ D)
  end = true.
Proof.
  intros Hf HD.
  assert (Hm : m_use_flag name = true) by (rewrite (proj1 (proj2 charsets_agree_proof)); [exact Hf | now apply name_no_nl]).
  assert (Hne : is_nil name = false) by (destruct (use_flag_facts _ Hf) as [_ (c & t & -> & _)]; reflexivity).
  destruct HD as [-> | (-> & b & Hb & ->)].
  - rewrite app_nil_r. destruct (name_last _ Hf) as (l & -> & Hl).
    apply use_char_facts in Hl as (_ & -> & _). cbn [andb]. now rewrite Hne, Hm.
  - rewrite lastc_app3. rewrite N.eqb_refl. cbn [negb andb].
    rewrite (ends_default_app _ _ Hb), drop_last3_app. now rewrite Hne, Hm.
Qed.

Lemma decl_model d x : decl d x -> valid_use_dep d x = true.
Proof.
  intros (P & name & D & S & -> & Hf & HP & HD & HS).
  pose proof (tail_model d name D Hf HD) as Ht.
  destruct (use_flag_facts _ Hf) as [_ (c & t & Hn & Hc1 & Hc2)].
  assert (Hy : name ++ D = c :: (t ++ D)) by now rewrite Hn.
  unfold valid_use_dep.
  destruct HS as [-> | HS].
  - (* no "=" / "?" *)
    rewrite app_nil_r.
    assert (Hl : exists l, lastc (P ++ name ++ D) = Some l /\ (l =? c_eq) || (l =? c_qm) = false).
    { destruct HD as [-> | (_ & b & _ & ->)].
      - rewrite app_nil_r. destruct (name_last _ Hf) as (l & El & Hl). exists l. split.
        + apply lastc_some in El. rewrite El, app_assoc. apply lastc_snoc.
        + now apply use_char_facts in Hl as (-> & _).
      - exists c_rpar. split; [rewrite app_assoc; apply lastc_app3 | reflexivity]. }
    destruct Hl as (l & -> & ->).
    destruct HP as [-> | [[_ Hbad] | [-> _]]]; [ | exfalso; now apply Hbad | ].
    + cbn [app]. rewrite Hy. destruct (N.eqb_spec c c_dash) as [e|_]; [exact (False_ind _ (Hc2 e))|]. rewrite <- Hy. exact Ht.
    + cbn [app]. rewrite N.eqb_refl. exact Ht.
  - assert (El : exists l, S = [l] /\ (l =? c_eq) || (l =? c_qm) = true)
      by (destruct HS as [-> | ->]; eexists; split; reflexivity).
    destruct El as (l & -> & Hl).
    replace (P ++ name ++ D ++ [l]) with ((P ++ name ++ D) ++ [l]) by now rewrite <- !app_assoc.
    rewrite lastc_snoc, Hl, removelast_last.
    destruct HP as [-> | [[-> _] | [_ Hbad]]]; [ | | discriminate].
    + cbn [app]. rewrite Hy. destruct (N.eqb_spec c c_bang) as [e|_]; [exact (False_ind _ (Hc1 e))|].
      destruct (N.eqb_spec c c_dash) as [e|_]; [exact (False_ind _ (Hc2 e))|]. rewrite <- Hy. exact Ht.
    + cbn [app]. rewrite N.eqb_refl. rewrite Hy. destruct (N.eqb_spec c c_dash) as [e|_]; [exact (False_ind _ (Hc2 e))|].
      rewrite <- Hy. exact Ht.
Qed.

(* the two checks agree on every token without a newline *)
Lemma use_dep_agree_proof :
  forall d x, ~ In c_nl x -> valid_use_dep d x = pms_use_dep d x.
Proof.
  intros d x Hn. apply eq_true_iff_eq. split; intros H.
  - apply decl_spec. now apply model_decl.
  - apply decl_model. now apply spec_decl.
Qed.
