(* Prop_C28.v — the property theorems of C28 and nothing else. *)
From Coq Require Import List NArith ZArith Bool Permutation.
Import ListNotations.
From Verif Require Import Base.Val C18.Fs C28.Model_C28 C28.Spec_C28 C28.Proofs_C28.

(* a generated Manifest parses back (parse_manifest) to exactly the covered files and distfiles with
   their sizes and checksums; well-formed inputs never fail *)
Theorem parse_render : forall thin scan fetch,
  wf_update thin scan fetch = true ->
  match update_text thin scan fetch with
  | Ok (Some t) => parse_text t = Some (expected_pm thin scan fetch)
  | Ok None => thin = true /\ fetch = []
  | Fail _ => False
  end.
Proof. exact parse_render_proof. Qed.
Print Assumptions parse_render.

(* ... where the expected content of a class is the covered entries themselves (as a multiset), each
   with its size and its other checksums and nothing else *)
Theorem canon_sec_exact : forall l,
  Permutation (canon_sec l) (map (fun e => (fst e, canon_chks (snd e))) l).
Proof. exact canon_sec_exact_proof. Qed.
Print Assumptions canon_sec_exact.
Theorem canon_chks_exact : forall ck,
  Permutation (canon_chks ck)
              ((SIZE, Z.of_N (size_of ck)) :: map (fun e => (fst e, Z.of_N (snd e))) (filter not_size ck)).
Proof. exact canon_chks_exact_proof. Qed.
Print Assumptions canon_chks_exact.

(* the text does not depend on the directory listing order nor on the order of the distfiles *)
Theorem order_independent : forall thin scan scan' fetch fetch',
  Permutation scan scan' -> NoDup (map s_loc scan) ->
  Permutation fetch fetch' -> NoDup (map fst fetch) ->
  update_text thin scan fetch = update_text thin scan' fetch'.
Proof. exact order_independent_proof. Qed.
Print Assumptions order_independent.

(* regenerating an up-to-date Manifest writes nothing *)
Theorem up_to_date_no_ops : forall i s old t,
  update_text (u_thin i) (u_scan i) (u_fetch i) = Ok (Some t) ->
  file_data s P = Some old -> read_nl old = t ->
  update_ops i s = Ok (false, []).
Proof. exact up_to_date_no_ops_proof. Qed.
Print Assumptions up_to_date_no_ops.

(* ... in particular right after a completed update (text without carriage returns) *)
Theorem idempotent : forall i s wr ops s',
  tmp_private s ->
  update_ops i s = Ok (wr, ops) -> run_opt ops s = Some s' ->
  (forall text, update_text (u_thin i) (u_scan i) (u_fetch i) = Ok (Some text) -> ~ In 13%N text) ->
  update_ops i s' = Ok (false, []).
Proof. exact idempotent_proof. Qed.
Print Assumptions idempotent.

(* ... for every well-formed input *)
Theorem idempotent_wf : forall i s wr ops s',
  tmp_private s -> wf_update (u_thin i) (u_scan i) (u_fetch i) = true ->
  update_ops i s = Ok (wr, ops) -> run_opt ops s = Some s' ->
  update_ops i s' = Ok (false, []).
Proof. exact idempotent_wf_proof. Qed.
Print Assumptions idempotent_wf.

(* interrupted at ANY call k, the Manifest node is the old one or a file holding the complete new
   text (and then every call was issued); nothing but the Manifest and its temporary changes *)
Theorem update_atomic : forall i s wr ops k,
  tmp_private s ->
  update_ops i s = Ok (wr, ops) ->
  let sk := run (firstn k ops) s in
  (forall q, q <> P -> q <> TMP -> lookup sk q = lookup s q) /\
  (lookup sk P = lookup s P \/
   exists text, update_text (u_thin i) (u_scan i) (u_fetch i) = Ok (Some text) /\
                file_data sk P = Some text /\ (length ops <= k)%nat).
Proof. exact update_atomic_proof. Qed.
Print Assumptions update_atomic.

(* an OSError at any call leaves the old Manifest *)
Theorem update_eio_keeps_old : forall i s wr ops k,
  tmp_private s -> update_ops i s = Ok (wr, ops) -> (k < length ops)%nat ->
  lookup (run (eio_ops ops k) s) P = lookup s P.
Proof. exact update_eio_keeps_old_proof. Qed.
Print Assumptions update_eio_keeps_old.

(* an update whose calls all succeed leaves the new text *)
Theorem update_completes : forall i s ops s',
  tmp_private s -> update_ops i s = Ok (true, ops) -> run_opt ops s = Some s' ->
  exists text, update_text (u_thin i) (u_scan i) (u_fetch i) = Ok (Some text) /\ file_data s' P = Some text.
Proof. exact update_completes_proof. Qed.
Print Assumptions update_completes.

(* the write of the unrepaired code (open(path, "w")) is not atomic *)
Theorem inplace_not_atomic_refuted :
  exists i s wr ops k text,
    tmp_private s /\ update_ops_inplace i s = Ok (wr, ops) /\
    update_text (u_thin i) (u_scan i) (u_fetch i) = Ok (Some text) /\
    lookup (run (firstn k ops) s) P <> lookup s P /\
    file_data (run (firstn k ops) s) P <> Some text.
Proof. exact inplace_not_atomic_refuted_proof. Qed.
Print Assumptions inplace_not_atomic_refuted.
