(* C29/Model_C29.v — package database updates (vdb, binpkg) as filesystem op lists.

   Transcribes (bug-compatibly) the finalisation of
     pkgcore/vdb/repo_ops.py      install (add_data + finalize_data), uninstall.finalize_data,
                                  replace.finalize_data (= uninstall.finalize_data THEN install.finalize_data)
     pkgcore/binpkg/repo_ops.py   install.add_data/finalize_data, replace (= install), uninstall
     pkgcore/vdb/ondisk.py        tree._get_categories/_get_packages/_internal_load_key (the fresh view)
     pkgcore/binpkg/repository.py tree._get_categories/_get_packages, notify_add_package (Packages cache
                                  rewritten through .update.Packages + rename), notify_remove_package
                                  (rmdir of the category, ENOTEMPTY swallowed)
   over the abstract filesystem of C18/Fs.v.  The repository lives at [loc] below the root of
   the scratch tree.  No proofs here.

   What is INPUT rather than computed: the serialised bytes of every metadata file / the tarball /
   the xpak segment / the Packages cache (they are other properties' business: C24 C25 C26),
   the order in which the attribute files are written (iteration order of a frozenset), the
   write() chunking, and the scandir order rmtree sees (the [rt] tree). *)
From Coq Require Import List NArith ZArith Bool.
From Coq Require Strings.Byte.
Import ListNotations.
From Verif Require Import Base.Val C18.Fs.

(* ------------------------------------------------------------------ byte-string literals *)
Inductive bstr := BS (l : list Byte.byte).
Definition bs_parse (l : list Byte.byte) : bstr := BS l.
Definition bs_print (b : bstr) : list Byte.byte := match b with BS l => l end.
Declare Scope bs_scope.
Delimit Scope bs_scope with bs.
String Notation bstr bs_parse bs_print : bs_scope.
Definition s2l (b : bstr) : str := match b with BS l => map Byte.to_N l end.
(* binary data travels hex-encoded *)
Definition hexv (c : N) : N :=
  if (c <? 58)%N then (c - 48)%N else (c - 87)%N.
Fixpoint unhex (l : str) : list N :=
  match l with
  | a :: b :: r => (16 * hexv a + hexv b)%N :: unhex r
  | _ => []
  end.
Definition hx (b : bstr) : list N := unhex (s2l b).

(* ------------------------------------------------------------------ names *)
Fixpoint startswith (p s : str) : bool :=
  match p, s with
  | [], _ => true
  | x :: p', y :: s' => N.eqb x y && startswith p' s'
  | _ :: _, [] => false
  end.
Definition endswith (p s : str) : bool := startswith (rev p) (rev s).
Definition lower (s : str) : str :=
  map (fun c => if (65 <=? c)%N && (c <=? 90)%N then (c + 32)%N else c) s.

Definition TMP : str := s2l ".tmp."%bs.
Definition MERGING : str := s2l "-MERGING-"%bs.
Definition LOCKF : str := s2l ".lockfile"%bs.
Definition TBZ2 : str := s2l ".tbz2"%bs.
Definition UPDATE : str := s2l ".update."%bs.
Definition CONTENTS : str := s2l "CONTENTS"%bs.
Definition PACKAGES : str := s2l "Packages"%bs.
Definition EBUILD : str := s2l ".ebuild"%bs.
Definition ALL : str := s2l "all"%bs.
Definition DOT : str := [46%N].

(* vdb/ondisk.py:95   x.startswith((".tmp.", "-MERGING-")) or x.endswith(".lockfile") *)
Definition vdb_skip (x : str) : bool :=
  startswith TMP x || startswith MERGING x || endswith LOCKF x.
(* vdb/ondisk.py:81   categories: directories not starting with "." *)
Definition vdb_cat_ok (c : str) : bool := negb (startswith DOT c).
(* binpkg/repository.py:258   .lockfile / extension (case-insensitive) / .tmp. *)
Definition bin_skip (x : str) : bool :=
  endswith LOCKF x || negb (endswith TBZ2 (lower x)) || startswith TMP x.
(* binpkg/repository.py:246   every directory but "all"; the cache files Packages and
   .update.Packages are regular files of the base directory, never categories *)
Definition bin_cat_ok (c : str) : bool :=
  negb (str_eqb (lower c) ALL) && negb (str_eqb c PACKAGES) && negb (str_eqb c (UPDATE ++ PACKAGES)).

(* a deliberately small recogniser of "name-version[-rN]" directory names: the generator stays
   inside the language on which it agrees with VersionedCPV *)
Definition is_digit (c : N) : bool := (48 <=? c)%N && (c <=? 57)%N.
Definition is_lower (c : N) : bool := (97 <=? c)%N && (c <=? 122)%N.
Fixpoint split_on (sep : N) (s : str) : list str :=
  match s with
  | [] => [[]]
  | c :: r => if N.eqb c sep then [] :: split_on sep r
              else match split_on sep r with
                   | h :: t => (c :: h) :: t
                   | [] => [[c]]
                   end
  end.
Definition name_ok (n : str) : bool :=
  match n with
  | c :: r => is_lower c && forallb (fun c => is_lower c || is_digit c || N.eqb c 43 || N.eqb c 95) r
  | [] => false
  end.
Definition ver_ok (v : str) : bool :=
  match v with
  | c :: r => is_digit c && forallb (fun c => is_digit c || N.eqb c 46) r && is_digit (last v 0%N)
  | [] => false
  end.
Definition rev_ok (r : str) : bool :=
  match r with
  | 114%N :: d :: ds => forallb is_digit (d :: ds)
  | _ => false
  end.
Definition simple_pf (x : str) : bool :=
  match split_on 45 x with
  | [n; v] => name_ok n && ver_ok v
  | [n; v; r] => name_ok n && ver_ok v && rev_ok r
  | _ => false
  end.

(* ------------------------------------------------------------------ op lists *)
Definition bound (s : fs) (p : path) : bool :=
  match lookup s p with Some _ => true | None => false end.
(* snakeoil ensure_dirs(minimal=True) on one component: mkdir 0o755 when missing *)
Definition ensure_dir (s : fs) (p : path) : list op :=
  if bound s p then [] else [Mkdir p 493].
(* open(path, "w"): O_CREAT|O_TRUNC *)
Definition open_w (s : fs) (p : path) (mode : N) : op :=
  if bound s p then Truncate p else Create p mode.
Definition put (p : path) (chunks : list (list N)) : list op :=
  map (Append p) (filter (fun c => match c with [] => false | _ => true end) chunks).

(* one file of the staging directory: W = open(..., "w").write(data);
   WC = ContentsFile.flush: AtomicWriteFile (.update.CONTENTS opened under umask 0o200 -> 0o466,
   chmod 0o644 and chown at once, the writes, rename on close) *)
Inductive item : Type :=
| W (name : str) (chunks : list (list N))
| WC (chunks : list (list N)).
Definition item_ops (s : fs) (d : path) (it : item) : list op :=
  match it with
  | W n ch => open_w s (d ++ [n]) 420 :: put (d ++ [n]) ch
  | WC ch =>
      let u := d ++ [UPDATE ++ CONTENTS] in
      open_w s u 310 :: [Chmod u 420; Chown u (Some 0%N) (Some 0%N)] ++ put u ch ++ [Rename u (d ++ [CONTENTS])]
  end.

Definition tmpdir (loc : path) (cat pf : str) : path := loc ++ [cat; TMP ++ pf].
Definition pkgdir (loc : path) (cat pf : str) : path := loc ++ [cat; pf].

(* vdb install.add_data: everything before the commit point *)
Definition vdb_stage (s : fs) (loc : path) (cat pf : str) (items : list item) : list op :=
  ensure_dir s (loc ++ [cat]) ++ ensure_dir s (tmpdir loc cat pf) ++ [Utime loc NOW]
  ++ flat_map (item_ops s (tmpdir loc cat pf)) items.
(* vdb install.finalize_data *)
Definition vdb_commit (loc : path) (cat pf : str) : list op :=
  [Rename (tmpdir loc cat pf) (pkgdir loc cat pf); Utime loc NOW].
Definition vdb_install_ops (s : fs) (loc : path) (cat pf : str) (items : list item) : list op :=
  vdb_stage s loc cat pf items ++ vdb_commit loc cat pf.

(* shutil.rmtree: entries in scandir order, directories recursively, then the directory *)
Inductive rt : Type :=
| RF (name : str)
| RD (name : str) (children : list rt).
Fixpoint rm_ops (d : path) (t : rt) : list op :=
  match t with
  | RF n => [Unlink (d ++ [n])]
  | RD n ch => (fix go (l : list rt) : list op :=
                  match l with
                  | [] => []
                  | t' :: l' => rm_ops (d ++ [n]) t' ++ go l'
                  end) ch ++ [Rmdir (d ++ [n])]
  end.
Definition rmtree_ops (d : path) (entries : list rt) : list op :=
  flat_map (rm_ops d) entries ++ [Rmdir d].

(* notify_remove_package: os.rmdir(category), ENOTEMPTY swallowed *)
Definition rmdir_if_empty (s : fs) (p : path) : list op :=
  if has_child s p then [] else [Rmdir p].

(* vdb uninstall.finalize_data + _notify_repo_remove *)
Definition vdb_unmerge (loc : path) (cat old : str) (tree : list rt) : list op :=
  [Utime loc NOW] ++ rmtree_ops (pkgdir loc cat old) tree ++ [Utime loc NOW].
Definition vdb_uninstall_ops (s : fs) (loc : path) (cat old : str) (tree : list rt) : list op :=
  let a := vdb_unmerge loc cat old tree in
  a ++ rmdir_if_empty (run a s) (loc ++ [cat]).
(* vdb replace: add_data; (_notify_repo_remove: rmdir(cat) fails, the staging dir is inside);
   uninstall.finalize_data; install.finalize_data *)
Definition vdb_replace_ops (s : fs) (loc : path) (cat old pf : str) (tree : list rt) (items : list item) : list op :=
  vdb_stage s loc cat pf items ++ vdb_unmerge loc cat old tree ++ vdb_commit loc cat pf.

(* the crash points at which replace / uninstall are NOT old-or-new lie strictly between: *)
Definition replace_lo (loc : path) (s : fs) (cat pf : str) (items : list item) : nat :=
  length (vdb_stage s loc cat pf items) + 1.
Definition replace_hi (loc : path) (s : fs) (cat old pf : str) (tree : list rt) (items : list item) : nat :=
  replace_lo loc s cat pf items + (length (rmtree_ops (pkgdir loc cat old) tree) + 2).
Definition uninstall_hi (loc : path) (cat old : str) (tree : list rt) : nat :=
  1 + length (rmtree_ops (pkgdir loc cat old) tree).

(* binpkg: tarball written to .tmp.PID.PF.tbz2 (first chunk: the compressed tar, written by the
   compressor; then the xpak writes), chmod 0o644, rename; then the Packages cache *)
Definition bin_tmp (base : path) (cat pid pf : str) : path :=
  base ++ [cat; TMP ++ pid ++ DOT ++ pf ++ TBZ2].
Definition bin_final (base : path) (cat pf : str) : path := base ++ [cat; pf ++ TBZ2].
Definition bin_stage (s : fs) (base : path) (cat pid pf : str) (chunks : list (list N)) : list op :=
  let t := bin_tmp base cat pid pf in
  ensure_dir s (base ++ [cat]) ++ open_w s t 420 :: put t chunks ++ [Chmod t 420].
Definition bin_cache (s : fs) (base : path) (cache : list (list N)) : list op :=
  let u := base ++ [UPDATE ++ PACKAGES] in
  open_w s u 420 :: put u cache ++ [Rename u (base ++ [PACKAGES])].
Definition bin_install_ops (s : fs) (base : path) (cat pid pf : str) (chunks cache : list (list N)) : list op :=
  bin_stage s base cat pid pf chunks ++ [Rename (bin_tmp base cat pid pf) (bin_final base cat pf)]
  ++ bin_cache s base cache.
(* binpkg replace (repaired: fixes/C29-binpkg-replace-removes-old): install.finalize_data renames
   the new tarball in; when the replaced package has another file name (version bump, 1.0 vs
   1.0-r0) its tarball is unlinked afterwards (unlink_if_exists: nothing if it is not there);
   then the Packages cache as for install *)
Definition bin_unlink_old (s : fs) (base : path) (cat old pf : str) : list op :=
  if path_eq_dec (bin_final base cat old) (bin_final base cat pf) then []
  else if bound s (bin_final base cat old) then [Unlink (bin_final base cat old)] else [].
Definition bin_replace_ops (s : fs) (base : path) (cat pid old pf : str) (chunks cache : list (list N)) : list op :=
  bin_stage s base cat pid pf chunks
  ++ (Rename (bin_tmp base cat pid pf) (bin_final base cat pf) :: bin_unlink_old s base cat old pf)
  ++ bin_cache s base cache.
(* the one crash point (strictly between lo and hi) at which both tarballs are listed *)
Definition bin_replace_lo (s : fs) (base : path) (cat pid pf : str) (chunks : list (list N)) : nat :=
  length (bin_stage s base cat pid pf chunks).
Definition bin_replace_hi (s : fs) (base : path) (cat pid old pf : str) (chunks : list (list N)) : nat :=
  bin_replace_lo s base cat pid pf chunks + 1 + length (bin_unlink_old s base cat old pf).
Definition bin_uninstall_ops (s : fs) (base : path) (cat old : str) : list op :=
  let a := [Unlink (bin_final base cat old)] in
  a ++ rmdir_if_empty (run a s) (base ++ [cat]).

(* ------------------------------------------------------------------ the fresh view (executable) *)
Definition children (s : fs) (d : path) : list (str * node) :=
  flat_map (fun e => match fst e with
                     | [] => []
                     | _ => if path_eq_dec (parent (fst e)) d then [(last (fst e) [], snd e)] else []
                     end) s.
Definition subdirs (s : fs) (d : path) : list str :=
  map fst (filter (fun e => is_dir_node (snd e)) (children s d)).
(* listdir_files follows symlinks; the generator has none in a repository *)
Definition subfiles (s : fs) (d : path) : list str :=
  map fst (filter (fun e => is_file_node (snd e)) (children s d)).

Definition rstrip_nl (d : list N) : list N :=
  rev ((fix go (l : list N) := match l with 10%N :: r => go r | _ => l end) (rev d)).
Definition read_file (s : fs) (p : path) : option (list N) :=
  match lookup s p with Some (File d _ _ _ _ _) => Some d | _ => None end.
(* the metadata keys the check reads: (file name, plain-text key?) ; plain keys go through
   readfile(...).rstrip("\n"); contents / environment / ebuild are data sources (raw bytes) *)
Definition vdb_keys (pf : str) : list (str * bool) :=
  map (fun k => (s2l k, true))
      ["DESCRIPTION"%bs; "SLOT"%bs; "EAPI"%bs; "KEYWORDS"%bs; "RDEPEND"%bs; "USE"%bs; "IUSE"%bs; "repository"%bs;
       "COUNTER"%bs; "PKGMANAGER"%bs]
  ++ [(CONTENTS, false); (s2l "environment.bz2"%bs, false); (pf ++ EBUILD, false)].
Definition read_key (s : fs) (d : path) (k : str * bool) : val :=
  match read_file s (d ++ [fst k]) with
  | Some data => VS (if snd k then rstrip_nl data else data)
  | None => VNone
  end.
Definition INVALIDCPV : str := s2l "InvalidCPV"%bs.
Definition vdb_view (s : fs) (loc : path) : val :=
  let cats := filter vdb_cat_ok (subdirs s loc) in
  let pkgs := flat_map (fun c => map (fun x => (c, x))
                                     (filter (fun x => negb (vdb_skip x)) (subdirs s (loc ++ [c])))) cats in
  if forallb (fun cx => simple_pf (snd cx)) pkgs
  then VL (map (fun cx => VL [VS (fst cx); VS (snd cx);
                              VL (map (read_key s (loc ++ [fst cx; snd cx])) (vdb_keys (snd cx)))]) pkgs)
  else VErr INVALIDCPV.
Definition strip_ext (x : str) : str := firstn (length x - length TBZ2) x.
Definition bin_view (s : fs) (base : path) : val :=
  let cats := filter (fun c => negb (str_eqb (lower c) ALL)) (subdirs s base) in
  let pkgs := flat_map (fun c => map (fun x => (c, x))
                                     (filter (fun x => negb (bin_skip x)) (subfiles s (base ++ [c])))) cats in
  if forallb (fun cx => simple_pf (strip_ext (snd cx))) pkgs
  then VL (map (fun cx => VL [VS (fst cx); VS (strip_ext (snd cx));
                              match read_file s (base ++ [fst cx; snd cx]) with
                              | Some d => VS d | None => VNone end]) pkgs)
  else VErr INVALIDCPV.

(* ------------------------------------------------------------------ scenarios for the harness *)
Inductive skind := KVInstall | KVUninstall | KVReplace | KBInstall | KBUninstall | KBReplace.
Record scen := {
  sc_kind : skind;
  sc_fs : fs;                  (* the scratch tree before the operation *)
  sc_loc : path;               (* repository location *)
  sc_cat : str;
  sc_pf : str;                 (* package installed (install/replace) *)
  sc_old : str;                (* package removed (uninstall/replace) *)
  sc_items : list item;        (* vdb staging files, in write order *)
  sc_tree : list rt;           (* old package directory in scandir order *)
  sc_pid : str;                (* binpkg: os.getpid() *)
  sc_chunks : list (list N);   (* binpkg: tar + xpak writes *)
  sc_cache : list (list N)     (* binpkg: Packages cache writes *)
}.
Definition sc_ops (c : scen) : list op :=
  match sc_kind c with
  | KVInstall => vdb_install_ops (sc_fs c) (sc_loc c) (sc_cat c) (sc_pf c) (sc_items c)
  | KVUninstall => vdb_uninstall_ops (sc_fs c) (sc_loc c) (sc_cat c) (sc_old c) (sc_tree c)
  | KVReplace => vdb_replace_ops (sc_fs c) (sc_loc c) (sc_cat c) (sc_old c) (sc_pf c) (sc_tree c) (sc_items c)
  | KBInstall => bin_install_ops (sc_fs c) (sc_loc c) (sc_cat c) (sc_pid c) (sc_pf c) (sc_chunks c) (sc_cache c)
  | KBUninstall => bin_uninstall_ops (sc_fs c) (sc_loc c) (sc_cat c) (sc_old c)
  | KBReplace => bin_replace_ops (sc_fs c) (sc_loc c) (sc_cat c) (sc_pid c) (sc_old c) (sc_pf c) (sc_chunks c) (sc_cache c)
  end.
Definition sc_window (c : scen) : nat * nat :=
  match sc_kind c with
  | KVReplace => (replace_lo (sc_loc c) (sc_fs c) (sc_cat c) (sc_pf c) (sc_items c),
                  replace_hi (sc_loc c) (sc_fs c) (sc_cat c) (sc_old c) (sc_pf c) (sc_tree c) (sc_items c))
  | KVUninstall => (1, uninstall_hi (sc_loc c) (sc_cat c) (sc_old c) (sc_tree c))
  | KBReplace => (bin_replace_lo (sc_fs c) (sc_loc c) (sc_cat c) (sc_pid c) (sc_pf c) (sc_chunks c),
                  bin_replace_hi (sc_fs c) (sc_loc c) (sc_cat c) (sc_pid c) (sc_old c) (sc_pf c) (sc_chunks c))
  | _ => (0, 0)
  end.
Definition is_vdb (c : scen) : bool :=
  match sc_kind c with KVInstall | KVUninstall | KVReplace => true | _ => false end.
Definition sc_state (c : scen) (k : nat) : fs := run (firstn k (sc_ops c)) (sc_fs c).
Definition sc_view (c : scen) (k : nat) : val :=
  if is_vdb c then vdb_view (sc_state c k) (sc_loc c) else bin_view (sc_state c k) (sc_loc c).

(* comparisons for the harness *)
Definition N_opt_eqb (a b : option N) : bool :=
  match a, b with Some x, Some y => N.eqb x y | None, None => true | _, _ => false end.
Definition path_eqb (a b : path) : bool := if path_eq_dec a b then true else false.
Definition op_eqb (a b : op) : bool :=
  match a, b with
  | Mkdir p m, Mkdir q n | Create p m, Create q n | Chmod p m, Chmod q n | Mkfifo p m, Mkfifo q n =>
      path_eqb p q && N.eqb m n
  | Append p d, Append q e => path_eqb p q && str_eqb d e
  | Pwrite p o d, Pwrite q o' e => path_eqb p q && Nat.eqb o o' && str_eqb d e
  | Truncate p, Truncate q | Unlink p, Unlink q | Rmdir p, Rmdir q => path_eqb p q
  | Rename a1 b1, Rename a2 b2 | Link a1 b1, Link a2 b2 => path_eqb a1 a2 && path_eqb b1 b2
  | Symlink t p, Symlink u q => str_eqb t u && path_eqb p q
  | Mknod p m r, Mknod q n r' => path_eqb p q && N.eqb m n && N.eqb r r'
  | Chown p u g, Chown q u' g' => path_eqb p q && N_opt_eqb u u' && N_opt_eqb g g'
  | Utime p t, Utime q t' => path_eqb p q && Z.eqb t t'
  | _, _ => false
  end.
Fixpoint ops_eqb (a b : list op) : bool :=
  match a, b with
  | [], [] => true
  | x :: a', y :: b' => op_eqb x y && ops_eqb a' b'
  | _, _ => false
  end.
(* views are compared as sets of package entries *)
Definition val_subset (a b : list val) : bool := forallb (fun x => existsb (val_eqb x) b) a.
Definition view_eqb (a b : val) : bool :=
  match a, b with
  | VL x, VL y => Nat.eqb (length x) (length y) && val_subset x y && val_subset y x
  | _, _ => val_eqb a b
  end.

(* stream "ops": the traced successful calls of the complete run are the model's op list, every
   model op succeeds on the model state; and the window of the known classes *)
Definition run_ops (i : scen * list op) : val :=
  VL [VB (ops_eqb (sc_ops (fst i)) (snd i));
      VB match run_opt (sc_ops (fst i)) (sc_fs (fst i)) with Some _ => true | None => false end;
      VZ (Z.of_nat (fst (sc_window (fst i)))); VZ (Z.of_nat (snd (sc_window (fst i))))].
(* snapshot comparison (repositories hold plain files and directories, no hard links): same
   paths, same nodes up to inode numbers (BUMPED directory mtimes as in Fs.node_eqb_noino),
   and no inode occurs twice on either side *)
Definition inos (s : fs) : list N :=
  flat_map (fun e => match ino_of (snd e) with Some i => [i] | None => [] end) s.
Fixpoint nodupb {A} (eqb : A -> A -> bool) (l : list A) : bool :=
  match l with
  | [] => true
  | x :: r => negb (existsb (eqb x) r) && nodupb eqb r
  end.
Definition state_eqb (model real : fs) : bool :=
  forallb (fun e => match lookup real (fst e) with
                    | Some n => node_eqb_noino (snd e) n | None => false end) model
  && Nat.eqb (length model) (length real)
  && nodupb path_eqb (keys model) && nodupb N.eqb (inos model) && nodupb N.eqb (inos real).

(* what the harness asks about one scenario *)
Inductive probe : Type :=
| POps (c : scen) (traced : list op)          (* recorded: [ops equal; all succeed; lo; hi] *)
| PState (c : scen) (k : nat) (real : fs)     (* snapshot after a crash with k ops done *)
| PView (c : scen) (k : nat) (old new : val). (* recorded: the fresh view after that crash *)
(* (A) true = model and implementation disagree *)
Definition probe_bad (p : probe) (r : val) : bool :=
  match p with
  | POps c traced => negb (val_eqb (run_ops (c, traced)) r)
  | PState c k real => negb (state_eqb (sc_state c k) real)
  | PView c k _ _ => negb (view_eqb (sc_view c k) r)
  end.
