From Coq Require Import List NArith ZArith Bool.
From Verif Require Import Base.Val C46.Model_C46 C46.Spec_C46.
Import ListNotations.

Definition cases : list ((input) * val) := 
[
  (mki [TExists; TMod [50;104]%N] [mkf 3 93600 3; mkf 1 6600 0; mkf 4 14400 70000; mkf 8 14400 1500; mkf 10 93600 70000; mkf 5 7800 1; mkf 6 7800 1; mkf 9 34560000 70000; mkf 7 7800 3; mkf 2 0 1500] [mkp [2]%N false []; mkp [4;11]%N false []; mkp [3]%N false []; mkp [8;7]%N true []; mkp [9;1]%N false []] [[3]%N; [6]%N; [4;11]%N] [1;2;3;4;5;6;7;8;9;10]%N true,
   res VNone [1;2;3;4;7;8;9]%N []);
  (mki [TTarget 3%N; TExcl [1;2]%N; TInst; TPretend; TFetch] [mkf 10 0 0; mkf 2 259200 1; mkf 5 3456000 0; mkf 9 34560000 0; mkf 11 259200 1500; mkf 7 3456000 70000; mkf 3 3600 70000; mkf 8 0 3; mkf 6 3600 1; mkf 4 3456000 1; mkf 1 259200 70000] [mkp [1]%N false []; mkp [3;2]%N false []; mkp [5]%N true [1;2]%N; mkp [7;6]%N false [1;2]%N; mkp [5;4]%N false [2;3]%N] [[7;6]%N] [] true,
   res VNone [1;2;3;4;5;6;7;8;9;10;11]%N []);
  (mki [TInst] [mkf 1 0 70000; mkf 8 0 1; mkf 4 259200 70000; mkf 3 3600 3; mkf 5 34560000 1; mkf 2 3600 0; mkf 9 3456000 3; mkf 7 3600 70000; mkf 6 0 0; mkf 11 259200 1500; mkf 10 0 0] [mkp [2;10;6]%N true []; mkp [5]%N false []; mkp [9;8]%N false []; mkp [] true []] (@nil (list N)) [1;2;3;4;5;6;7;8;9;10;11]%N true,
   res VNone [] []);
  (mki [TExcl [2;1]%N; TSize [49;48;48;75]%N; TExists; TExcl [3;4]%N; TInst] [mkf 5 0 0; mkf 12 3456000 1; mkf 4 259200 102399; mkf 8 259200 101400; mkf 7 3600 1500; mkf 11 34560000 102399; mkf 2 259200 101400; mkf 3 0 1500; mkf 9 3600 103400; mkf 6 259200 103400; mkf 10 3456000 102401] [mkp [5;12;3;1]%N false [2]%N; mkp [9;8;4;7]%N true [1;3]%N] [[10]%N; [2;12]%N; [5;12;3;1]%N] [3;4;5;12]%N false,
   res VNone [2;3;4;5;6;7;8;9;10;11;12]%N []);
  (mki [TExists; TInst; TTarget 1%N] [mkf 9 0 3; mkf 8 3456000 1500; mkf 7 3456000 70000; mkf 6 3600 70000; mkf 11 259200 1500; mkf 2 34560000 70000; mkf 12 0 70000; mkf 5 0 3; mkf 1 34560000 0; mkf 4 3600 0; mkf 3 3600 1500; mkf 10 34560000 0] [mkp [3]%N true []; mkp [10;7;1]%N false [1]%N] [[10;7;1]%N; [8]%N] [6;7;8;9;10]%N true,
   res VNone [1;2;3;4;5;7;8;10;11;12]%N []);
  (mki [TInst; TTarget 1%N; TTarget 2%N; TFetch] [mkf 3 3456000 70000; mkf 6 0 3; mkf 7 3456000 1; mkf 4 3456000 1500; mkf 2 34560000 3; mkf 9 0 70000; mkf 1 3456000 1; mkf 5 3456000 3] [mkp [1;2]%N false []; mkp [5;9]%N false []; mkp [7]%N false [1;2]%N] [[5;9]%N; [8;4]%N] [7]%N true,
   res VNone [1;2;3;4;5;6;7;9]%N []);
  (mki [TExcl [4]%N; TExcl [1]%N; TTarget 3%N; TTarget 2%N; TInst] [mkf 9 259200 3; mkf 6 3600 1; mkf 8 3600 3; mkf 11 34560000 3; mkf 10 0 0; mkf 2 259200 70000; mkf 3 34560000 3; mkf 1 34560000 1; mkf 12 0 1500; mkf 7 259200 3; mkf 5 34560000 1500; mkf 4 34560000 1500; mkf 13 3456000 70000] [mkp [5;4;11]%N true [1]%N; mkp [6;13;2]%N false [2]%N; mkp [9;7]%N true [3;4]%N] [[6;13;2]%N] [6;7;9;13]%N true,
   res VNone [1;2;3;4;5;6;8;10;11;12;13]%N []);
  (mki [TMod [52;53;104]%N; TSize [49;48;48;77]%N; TTarget 1%N] [mkf 6 161400 104856600; mkf 1 248400 104857601; mkf 7 34560000 104857599; mkf 4 161400 104857601; mkf 5 248400 104857600; mkf 2 259200 104857601; mkf 3 3600 104858600] [mkp [1]%N false []; mkp [4]%N true []] (@nil (list N)) [] true,
   res VNone [1;2;3;4;5;6;7]%N []);
  (mki [TExcl [1]%N] [mkf 9 259200 1; mkf 3 0 3; mkf 8 3456000 0; mkf 7 0 3; mkf 6 259200 70000] [mkp [2;3;1]%N false []; mkp [5]%N true [1]%N; mkp [6]%N false [1]%N; mkp [7]%N false [1]%N; mkp [9;4]%N false []] [[9;4]%N] [3;8;9]%N true,
   res VNone [6;7]%N []);
  (mki [TExists; TMod [51;104]%N; TTarget 1%N; TTarget 2%N; TInst] [mkf 5 10200 1500; mkf 8 11400 3; mkf 3 (-75600) 0; mkf 1 97200 1; mkf 10 34560000 3; mkf 6 18000 0; mkf 9 97200 1500; mkf 2 11400 1500] [mkp [2]%N false []; mkp [6;5;3]%N true []; mkp [8;7;3]%N false [2]%N] [[4;3]%N; [8;7;3]%N] [3;8]%N true,
   res VNone [1;2;3;5;6;8;9;10]%N []);
  (mki (@nil (tok)) [mkf 1 34560000 1500; mkf 3 259200 1; mkf 6 3456000 1500; mkf 8 3600 3; mkf 7 3600 70000; mkf 4 34560000 1; mkf 2 34560000 1500; mkf 9 34560000 3; mkf 10 0 1] [mkp [4]%N false []; mkp [5;9]%N false []; mkp [1]%N false []; mkp [7]%N false []] (@nil (list N)) [1;2;3;4;6;7;8;9;10]%N false,
   res VNone [1;2;3;4;6;7;8;9;10]%N [1;2;3;4;6;7;8;9;10]%N);
  (mki [TExcl [1]%N; TTarget 1%N; TTarget 2%N; TInst; TExists] [mkf 3 3600 1500; mkf 4 259200 1; mkf 6 3600 0; mkf 1 3600 3; mkf 7 259200 1500; mkf 5 34560000 1; mkf 2 34560000 0] [mkp [3;5]%N false [1]%N; mkp [6;1]%N true [2]%N] (@nil (list N)) [1;6]%N false,
   res VNone [1;2;3;4;5;6;7]%N []);
  (mki [TTarget 1%N; TTarget 2%N; TInst] [mkf 7 3456000 1500; mkf 1 3600 0; mkf 8 3600 0; mkf 5 0 1500; mkf 6 3600 3; mkf 2 259200 0; mkf 3 3600 0; mkf 9 3600 3; mkf 4 0 70000] [mkp [2]%N true [1]%N; mkp [6;5;1]%N false []; mkp [8;3]%N false []] [[6;5;1]%N] [2]%N false,
   res VNone [1;2;3;4;5;6;7;8;9]%N [2]%N);
  (mki [TMod [52;53;109;105;110]%N; TInst; TTarget 1%N] [mkf 8 9900 0; mkf 5 3600 1; mkf 1 (-83700) 70000; mkf 3 3300 1; mkf 9 9900 3; mkf 6 3456000 1; mkf 4 9900 70000; mkf 2 9900 0] [mkp [3;2;10]%N false [1]%N; mkp [4]%N false [1]%N; mkp [7]%N false [1]%N] [[8]%N] [2;3;4;6]%N true,
   res VNone [1;5;8;9]%N []);
  (mki [TSize [49;48;48;75]%N; TExcl [4]%N; TExcl [3]%N; TTarget 1%N; TTarget 2%N] [mkf 5 3456000 3; mkf 11 259200 102401; mkf 2 3600 102401; mkf 7 0 102401; mkf 1 3600 102401; mkf 12 34560000 102401; mkf 4 259200 102401; mkf 10 3600 102399; mkf 13 3456000 102401; mkf 15 0 102400; mkf 9 34560000 102400; mkf 14 3600 103400; mkf 8 3456000 102399; mkf 3 259200 102401; mkf 6 3456000 101400] [mkp [1]%N false [1]%N; mkp [9;8;2]%N false [2;4]%N; mkp [11;10;12]%N true [2;4]%N; mkp [15]%N true [2;4]%N; mkp [14]%N false []] [[3]%N; [14]%N] [1;8;9;10;11;12;15]%N true,
   res VNone [1;2;3;4;5;6;7;9;11;12;13;14;15]%N []);
  (mki [TSize [50;75]%N; TExists; TMod [49;48;100]%N] [mkf 8 777600 2047; mkf 13 3456000 70000; mkf 1 864600 1048; mkf 3 863400 2049; mkf 4 950400 1500; mkf 5 864600 2049; mkf 7 863400 2049; mkf 6 871200 2048; mkf 2 863400 3048; mkf 11 777600 2047] [mkp [3;13;1]%N true []; mkp [8]%N false []; mkp [9]%N false []; mkp [10]%N false []; mkp [12]%N true []] [[8]%N; [6]%N] [1;2;3;4;5;6;7;8;11;13]%N true,
   res VNone [1;2;3;5;6;7;8;11;13]%N []);
  (mki [TInst; TTarget 2%N; TTarget 1%N] [mkf 5 3600 70000; mkf 1 3600 1; mkf 2 0 1500; mkf 3 259200 1500; mkf 9 34560000 1500; mkf 7 34560000 0; mkf 6 3600 70000; mkf 8 259200 1] [mkp [8;7;9;1]%N false [1;2]%N] [[4;9]%N; [8;7;9;1]%N] [1;7;8;9]%N true,
   res VNone [1;2;3;5;6;7;8;9]%N []);
  (mki [TTarget 1%N; TTarget 1%N; TExcl []] [mkf 5 259200 1; mkf 7 3456000 1; mkf 1 3600 3; mkf 2 34560000 1500; mkf 4 3456000 0] [mkp [3]%N true [1]%N; mkp [6;5;4]%N false []] [[6]%N] [] true,
   res VNone [1;2;4;5;7]%N []);
  (mki [TExists; TExcl [2;3]%N; TTarget 1%N] [mkf 9 34560000 70000; mkf 4 259200 70000; mkf 7 3456000 1; mkf 1 0 70000; mkf 14 3600 3; mkf 16 34560000 3; mkf 11 3456000 1; mkf 12 3600 3; mkf 5 34560000 1; mkf 10 259200 1; mkf 8 259200 1; mkf 6 3456000 1; mkf 13 3600 70000] [mkp [2;1;6;14]%N false [2]%N; mkp [9]%N true []; mkp [11;10;6]%N false []; mkp [15;12]%N false []; mkp [3;5]%N false []] [[8]%N] [] true,
   res VNone [1;4;5;6;7;8;9;10;11;12;13;14;16]%N []);
  (mki [TExcl [2;1]%N; TSize [50;75]%N; TFetch; TExists; TTarget 1%N] [mkf 5 0 2049; mkf 1 34560000 0; mkf 3 259200 2049; mkf 2 3600 2048; mkf 7 34560000 2047] [mkp [2;3]%N true [1]%N; mkp [4]%N false []] [[2;3]%N; [6;3]%N] [] true,
   res VNone [1;2;3;5;7]%N []);
  (mki [TSize [53;75]%N; TExcl []; TFetch; TInst; TTarget 1%N] [mkf 9 0 5121; mkf 1 0 4120; mkf 4 0 5121; mkf 6 3600 3; mkf 7 259200 5121; mkf 8 34560000 5119; mkf 2 259200 5121; mkf 3 0 5121; mkf 10 3600 5121] [mkp [5]%N true []; mkp [9]%N false [1]%N; mkp [4;2;3]%N false []] [[6]%N] [9]%N true,
   res VNone [1;2;3;4;6;7;8;9;10]%N []);
  (mki [TFetch; TMod [49;104]%N] [mkf 5 4200 70000; mkf 6 3600 1500; mkf 4 10800 3; mkf 9 (-82800) 1; mkf 2 0 1; mkf 10 3000 1; mkf 1 3000 70000; mkf 7 0 0] [mkp [5;3;6]%N false []; mkp [7;4;1]%N false []; mkp [9;8]%N false []; mkp [10]%N false []] (@nil (list N)) [1;2;4;5;6;7;9;10]%N true,
   res VNone [1;2;4;5;6;7;9;10]%N []);
  (mki [TPretend; TInst; TTarget 1%N; TMod [50;104]%N] [mkf 7 6600 0; mkf 6 93600 1500; mkf 8 259200 1500; mkf 1 (-79200) 1; mkf 11 3456000 1500; mkf 2 93600 3; mkf 10 34560000 1; mkf 9 6600 3; mkf 5 (-79200) 0; mkf 3 34560000 3; mkf 13 (-79200) 3; mkf 4 3600 70000] [mkp [4]%N true []; mkp [6;12]%N false []; mkp [] false []; mkp [8;7;13;1]%N true [1]%N; mkp [10;9;2]%N false [1]%N] [[4]%N; []] [7;8;9;10;13]%N true,
   res VNone [1;2;3;4;5;6;7;8;9;10;11;13]%N [8;10]%N);
  (mki [TSize [49;48;48;77]%N; TExists] [mkf 1 34560000 104857599; mkf 3 3456000 104856600; mkf 5 3456000 104857599; mkf 4 34560000 104857601; mkf 2 259200 104857601] [mkp [4;1]%N false []] [[4;1]%N] [1;2;3;4;5]%N false,
   res VNone [1;2;3;4;5]%N [3;5]%N);
  (mki [TMod [51;104]%N; TSize [53;75]%N] [mkf 3 11400 4120; mkf 4 97200 5121; mkf 5 11400 5120; mkf 1 11400 5120; mkf 2 18000 5120] [mkp [2]%N true []] [[2]%N] [1;2;3;4;5]%N false,
   res VNone [1;2;3;4;5]%N [3]%N);
  (mki [TSize [49;48;48;75]%N; TTarget 1%N; TFetch] [mkf 2 3456000 102401; mkf 4 34560000 101400; mkf 6 34560000 102400; mkf 3 0 102399; mkf 5 0 103400; mkf 7 34560000 102399; mkf 8 34560000 103400] [mkp [5;3]%N false []; mkp [7;6;2]%N false []; mkp [1;4]%N false [1]%N] [[1;4]%N] [2]%N true,
   res VNone [2;3;4;5;6;7;8]%N []);
  (mki [TFetch; TTarget 1%N] [mkf 10 3456000 0; mkf 5 259200 1; mkf 4 3600 3; mkf 1 3456000 1; mkf 3 3456000 1; mkf 8 0 1; mkf 9 3456000 3; mkf 6 3456000 0; mkf 11 3600 70000] [mkp [2]%N false []; mkp [6;1]%N false []; mkp [7]%N false []; mkp [4;3]%N false [1]%N] (@nil (list N)) [3;4]%N true,
   res VNone [1;3;4;5;6;8;9;10;11]%N []);
  (mki [TInst; TExcl [2]%N; TTarget 1%N] [mkf 7 0 1; mkf 5 0 1500; mkf 9 259200 1500; mkf 3 0 1; mkf 8 3456000 3; mkf 2 0 0; mkf 6 34560000 0] [mkp [3;6]%N false [1;2]%N] [[7;8]%N; [1;4]%N] [] false,
   res VNone [2;3;5;6;7;8;9]%N []);
  (mki [TTarget 1%N] [mkf 3 34560000 3; mkf 1 259200 1; mkf 7 34560000 1500; mkf 5 259200 70000; mkf 8 34560000 1; mkf 2 0 70000] [mkp [4;3]%N true []; mkp [6]%N false []] [[4]%N] [] true,
   res VNone [1;2;3;5;7;8]%N []);
  (mki [TFetch; TTarget 1%N; TSize [50;66]%N] [mkf 1 34560000 3; mkf 7 259200 0; mkf 6 259200 1; mkf 3 34560000 1; mkf 5 3456000 1; mkf 4 34560000 0] [mkp [5;4]%N false []; mkp [6]%N false [1]%N] [[2]%N; [3]%N; [6]%N] [6]%N true,
   res VNone [1;3;4;5;6;7]%N []);
  (mki [TInst; TTarget 1%N; TMod [49;48;119]%N] [mkf 9 6055200 1; mkf 10 6134400 0; mkf 5 6055200 1500; mkf 2 6055200 3; mkf 12 259200 0; mkf 11 259200 1500; mkf 3 259200 1; mkf 13 6047400 1; mkf 8 6048600 3; mkf 1 6044400 0; mkf 4 6134400 0; mkf 7 34560000 1] [mkp [5;7;1]%N true []; mkp [6;3]%N false []; mkp [8;11]%N false []; mkp [10]%N false []] [[8;11]%N] [] true,
   res VNone [1;2;3;4;5;7;8;9;10;11;12;13]%N []);
  (mki [TTarget 1%N; TMod [51;115]%N; TPretend; TExcl [1]%N] [mkf 12 (-597) 1500; mkf 7 86403 3; mkf 9 (-597) 0; mkf 1 (-597) 0; mkf 2 (-86397) 0; mkf 8 (-597) 0; mkf 4 7203 0; mkf 3 (-597) 1500; mkf 11 0 1500; mkf 5 (-597) 70000] [mkp [9;12]%N true [1]%N; mkp [10;6]%N false [1]%N; mkp [9;8]%N false []] [[2;12]%N] [] true,
   res VNone [1;2;3;4;5;7;8;9;11;12]%N []);
  (mki [TMod [50;109]%N; TSize [49;75]%N; TExists; TTarget 1%N; TFetch] [mkf 8 5270400 24; mkf 10 5184600 1025; mkf 5 5184600 1; mkf 6 5191200 2024; mkf 1 3456000 1; mkf 3 5270400 1; mkf 7 5097600 2024; mkf 9 5184600 1500] [mkp [3;2]%N false [1]%N; mkp [9]%N false []; mkp [6;4]%N true []] [[8]%N; [6;4]%N] [1;3]%N true,
   res VNone [1;3;5;6;7;8;9;10]%N []);
  (mki [TInst; TPretend; TTarget 1%N; TExcl [2;2]%N; TMod [49;104]%N] [mkf 3 3000 0; mkf 7 259200 0; mkf 6 (-82800) 70000; mkf 1 (-82800) 0; mkf 5 (-82800) 1500; mkf 2 0 70000; mkf 4 10800 3] [mkp [1;2;3]%N false [1]%N; mkp [4;7]%N false [2]%N] [[6]%N; [4;7]%N] [1;2]%N true,
   res VNone [1;2;3;4;5;6;7]%N []);
  (mki [TFetch; TTarget 1%N; TPretend; TExcl [2]%N] [mkf 13 34560000 1; mkf 7 3456000 3; mkf 8 0 1500; mkf 6 0 3; mkf 12 259200 1500; mkf 2 3456000 0; mkf 11 0 0; mkf 3 0 70000; mkf 14 3456000 1500; mkf 5 3600 0; mkf 10 3600 1500; mkf 1 259200 0] [mkp [4;6]%N false [2]%N; mkp [8;7]%N false []; mkp [9]%N false [1]%N; mkp [10;2]%N true []] [[3]%N; [4;6]%N; [13]%N] [7;8;10]%N true,
   res VNone [1;2;3;5;6;7;8;10;11;12;13;14]%N []);
  (mki [TTarget 1%N] [mkf 7 3600 70000; mkf 6 0 70000; mkf 8 0 1; mkf 3 3456000 1; mkf 9 3600 1500; mkf 5 3600 1; mkf 2 259200 1] [mkp [4;3]%N false [1]%N] [[4;3]%N; [1]%N] [3]%N true,
   res VNone [2;5;6;7;8;9]%N []);
  (mki [TTarget 1%N; TExcl [2]%N; TInst] [mkf 6 34560000 1500; mkf 4 3456000 1500; mkf 7 3600 1; mkf 9 259200 1; mkf 3 259200 70000; mkf 1 259200 3; mkf 2 3600 1500; mkf 8 3600 3; mkf 5 259200 70000] [mkp [5]%N false [1;2]%N; mkp [6;7;1]%N false []] (@nil (list N)) [] true,
   res VNone [1;2;3;4;5;6;7;8;9]%N []);
  (mki [TMod [52;53;109]%N; TExcl [1]%N; TExists; TInst] [mkf 1 116640600 0; mkf 7 116636400 1; mkf 9 116726400 70000; mkf 2 116553600 1500; mkf 4 34560000 1500; mkf 6 116636400 1; mkf 8 116647200 1500; mkf 10 116636400 1; mkf 5 116726400 70000] [mkp [3;2]%N true []; mkp [5]%N false []; mkp [6;10]%N false []; mkp [9;7;8]%N false []] (@nil (list N)) [2;5;6;7;8;9;10]%N true,
   res VNone [1;2;4;5;6;7;8;9;10]%N []);
  (mki [TSize [49;71]%N; TExcl [1]%N; TExists; TTarget 2%N] [mkf 10 0 1073741825; mkf 2 0 1073741823; mkf 4 0 70000; mkf 9 0 1073741825; mkf 7 3456000 1073741825; mkf 5 0 1073741823; mkf 6 0 70000; mkf 1 259200 1073741823; mkf 3 34560000 3; mkf 8 3456000 0] [mkp [6;3]%N false []; mkp [8;7;3]%N false [1]%N] [[9]%N; [1;10]%N; [8;7;3]%N] [] true,
   res VNone [1;2;3;4;5;6;7;8;9;10]%N []);
  (mki [TTarget 3%N; TTarget 1%N; TExcl [2]%N] [mkf 6 34560000 1500; mkf 4 3600 1; mkf 5 34560000 1500; mkf 1 34560000 1500; mkf 2 0 3; mkf 3 3456000 3; mkf 10 259200 1500; mkf 7 3600 1; mkf 9 3600 1; mkf 8 0 0] [mkp [4;10;8]%N false [1]%N; mkp [7;3]%N false [2]%N] [[7;3]%N; [2;10]%N] [4;5;6;8;10]%N true,
   res VNone [1;2;3;7;9]%N []);
  (mki [TTarget 1%N; TMod [49;48;100]%N; TInst; TExcl [2;2]%N; TExists] [mkf 8 860400 0; mkf 3 863400 1; mkf 5 860400 0; mkf 2 3456000 70000; mkf 1 863400 3; mkf 9 777600 3; mkf 6 0 0; mkf 7 259200 3; mkf 4 864600 1] [mkp [5;4;1]%N false [1;2]%N] [[5;4;1]%N] [] true,
   res VNone [1;2;3;4;5;6;7;8;9]%N []);
  (mki [TFetch; TTarget 1%N; TExists] [mkf 2 259200 70000; mkf 1 259200 3; mkf 4 259200 3; mkf 5 0 70000; mkf 6 259200 3; mkf 3 3600 3] [mkp [3;2]%N false []; mkp [5;4]%N false []] [[5;4]%N; [3;2]%N] [] true,
   res VNone [1;2;3;4;5;6]%N []);
  (mki [TExists; TExcl [2]%N; TTarget 1%N; TSize [53;77]%N] [mkf 9 34560000 5242880; mkf 13 0 5242879; mkf 3 34560000 5242881; mkf 7 259200 5242881; mkf 4 3600 5242879; mkf 15 3600 5242881; mkf 8 0 1; mkf 2 3600 1500; mkf 6 259200 5242879; mkf 14 3600 5242881; mkf 1 3456000 5242879; mkf 5 3456000 5242881; mkf 11 3456000 5241880] [mkp [2]%N false [1]%N; mkp [4;3;6]%N false []; mkp [13]%N false [2]%N; mkp [9;8;5;10]%N false []; mkp [12;5]%N false []] (@nil (list N)) [1;2;3]%N false,
   res VNone [1;2;3;4;5;6;7;8;9;11;13;14;15]%N [1]%N);
  (mki [TSize [49;71]%N; TExists; TPretend] [mkf 3 259200 70000; mkf 11 3600 1073740824; mkf 4 0 1073740824; mkf 2 259200 1500; mkf 8 0 1073741825; mkf 5 259200 1073741825; mkf 6 34560000 1073741825; mkf 1 0 1073741824; mkf 9 3600 1073741824; mkf 7 3456000 1073741823; mkf 10 3600 0] [mkp [3;8]%N false []; mkp [1]%N false []] (@nil (list N)) [1;2;3;4;5;6;7;8;9;10;11]%N false,
   res VNone [1;2;3;4;5;6;7;8;9;10;11]%N [2;4;7;10;11]%N);
  (mki [TExists; TTarget 2%N; TMod [51;100]%N; TInst; TSize [49;48;48;75]%N; TExcl [1;3]%N] [mkf 4 259800 103400; mkf 6 3600 102399; mkf 2 3456000 102401; mkf 5 259800 70000; mkf 3 345600 3] [mkp [3;1]%N false [1]%N; mkp [4;6]%N false [2;3]%N] [[4]%N; [3]%N] [] false,
   res VNone [2;3;4;5;6]%N []);
  (mki [TSize [53;77]%N; TExcl [1]%N; TExcl []] [mkf 2 3600 5243880; mkf 3 34560000 5242879; mkf 1 3456000 1; mkf 8 3600 5243880; mkf 7 259200 5241880; mkf 4 3600 1; mkf 5 3600 1500; mkf 6 34560000 0] [mkp [3;2]%N false []] [[7;8]%N] [1;2;3;4;5;6;7;8]%N true,
   res VNone [2;8]%N []);
  (mki [TTarget 1%N; TTarget 1%N; TExists; TExcl []] [mkf 4 259200 70000; mkf 6 34560000 0; mkf 3 3456000 70000] [mkp [5]%N true []; mkp [2;1]%N false [1]%N] [[5]%N] [] false,
   res VNone [3;4;6]%N []);
  (mki [TPretend; TInst; TSize [50;66]%N; TTarget 2%N; TTarget 1%N; TExcl [3;4]%N] [mkf 9 259200 1; mkf 13 34560000 2; mkf 16 0 1002; mkf 3 34560000 0; mkf 14 0 0; mkf 1 34560000 0; mkf 10 259200 70000; mkf 12 3456000 3; mkf 11 259200 1002; mkf 7 259200 0; mkf 8 0 3; mkf 5 34560000 70000; mkf 2 3600 3; mkf 15 259200 1; mkf 6 34560000 1002; mkf 4 3600 1] [mkp [9]%N false []; mkp [12]%N false []; mkp [1]%N true [3]%N; mkp [2;13;8]%N false [1;4]%N; mkp [5;4;6]%N true [2]%N] [[2;13;8]%N; [9]%N; [14]%N] [3;4;5;6]%N true,
   res VNone [1;2;3;4;5;6;7;8;9;10;11;12;13;14;15;16]%N [3;4]%N);
  (mki [TExists; TTarget 1%N; TSize [49;75]%N; TInst] [mkf 8 3600 1023; mkf 2 0 1025; mkf 10 3600 24; mkf 1 259200 1024; mkf 6 259200 1025; mkf 5 34560000 70000; mkf 7 259200 24; mkf 9 0 70000; mkf 3 34560000 1023] [mkp [5;4;7;1]%N false [1]%N; mkp [8;9]%N true [1]%N] (@nil (list N)) [5;6;7;8;9]%N true,
   res VNone [1;2;3;5;6;7;8;9;10]%N []);
  (mki [TExcl [3]%N; TExists; TTarget 1%N; TTarget 2%N; TInst; TSize [49;71]%N] [mkf 6 3456000 1073741823; mkf 2 3456000 3; mkf 3 259200 1073741824; mkf 1 0 1073741823; mkf 5 3456000 1073742824] [mkp [4;3]%N false [1;3]%N] [[4;3]%N] [] true,
   res VNone [1;2;3;5;6]%N []);
  (mki [TMod [51;109;105;110]%N; TTarget 1%N; TTarget 2%N; TFetch; TExists] [mkf 4 7380 1500; mkf 3 0 1500; mkf 1 (-420) 3; mkf 2 86580 1] [mkp [1]%N false [1]%N; mkp [3]%N false [2]%N] (@nil (list N)) [1;3]%N true,
   res VNone [1;2;3;4]%N []);
  (mki [TTarget 1%N; TExists; TExcl [2]%N; TSize [50;77]%N; TExcl [3]%N] [mkf 4 34560000 2097153; mkf 7 0 1; mkf 1 259200 2097153; mkf 6 259200 2096152; mkf 3 259200 2097151; mkf 2 0 2097153; mkf 9 3456000 2097151; mkf 8 3600 2097153] [mkp [3;5]%N true [2]%N; mkp [6]%N false [3]%N] [[6]%N; [8]%N] [] true,
   res VNone [1;2;3;4;6;7;8;9]%N []);
  (mki [TTarget 2%N; TExcl [1;3]%N; TExcl [3]%N; TMod [49;48;109]%N] [mkf 4 25919400 0; mkf 5 25916400 1; mkf 3 25920600 1; mkf 2 25833600 0] [mkp [2;1]%N false [2]%N; mkp [3]%N false []; mkp [6]%N false [1;3]%N] (@nil (list N)) [2]%N true,
   res VNone [2;3;4;5]%N []);
  (mki [TSize [49;71]%N; TExcl []; TExcl [1]%N] [mkf 2 259200 1073741823; mkf 11 259200 1073742824; mkf 10 3456000 1073740824; mkf 6 34560000 1; mkf 12 3600 1073741825; mkf 9 259200 1073741823; mkf 3 0 1073741824; mkf 7 0 1073741823; mkf 1 3600 1073740824] [mkp [3;2]%N false []; mkp [5;1]%N false []; mkp [8;7]%N false [1]%N; mkp [5;6]%N false []; mkp [9]%N false []] [[5]%N; [4]%N] [2;3;6;7;9;10]%N true,
   res VNone [1;3;7;11;12]%N []);
  (mki [TMod [50;121]%N; TInst; TTarget 2%N; TTarget 1%N] [mkf 9 63068400 70000; mkf 8 63071400 1; mkf 1 63071400 1; mkf 2 63072600 3; mkf 3 63079200 1500; mkf 6 63072600 0; mkf 7 0 0; mkf 5 63158400 1; mkf 4 3456000 1500] [mkp [3;4]%N false [1;2]%N; mkp [7;1]%N false []] [[3;4]%N; [7;1]%N] [2;3;4]%N true,
   res VNone [1;3;4;5;6;7;8;9]%N []);
  (mki [TExists; TExcl [1]%N; TInst] [mkf 1 259200 3; mkf 8 0 0; mkf 6 259200 1500; mkf 7 34560000 1; mkf 3 0 0; mkf 9 0 70000; mkf 4 259200 1; mkf 5 259200 1500] [mkp [2;5;1]%N false [1]%N; mkp [4]%N true []; mkp [8;7]%N false []] (@nil (list N)) [4;5;6;7;8]%N true,
   res VNone [1;3;4;5;7;8;9]%N []);
  (mki [TExists; TInst; TTarget 1%N] [mkf 2 3456000 3; mkf 7 34560000 1; mkf 1 3456000 70000; mkf 4 34560000 3; mkf 3 3600 0; mkf 5 34560000 0] [mkp [4;3]%N false [1]%N; mkp [6;7]%N false [1]%N] (@nil (list N)) [3;4;5;7]%N true,
   res VNone [1;2;3;4;7]%N []);
  (mki [TInst; TSize [49;48;48;66]%N; TTarget 2%N; TTarget 1%N; TExists] [mkf 3 34560000 1100; mkf 1 0 1100; mkf 5 259200 70000; mkf 2 34560000 100; mkf 4 3456000 1100] [mkp [3]%N false [1;2]%N] [[3]%N; [2]%N] [2;3]%N true,
   res VNone [1;2;3;4;5]%N []);
  (mki [TExists; TMod [49;48;109;105;110]%N; TExcl []] [mkf 6 7800 1500; mkf 11 7800 0; mkf 7 7800 0; mkf 4 0 3; mkf 9 1200 3; mkf 5 34560000 3; mkf 10 (-3000) 0; mkf 8 1200 1500; mkf 3 87000 1] [mkp [] true []; mkp [3]%N true []; mkp [5;4]%N false []; mkp [9;8;1]%N true []] [[2]%N; [3]%N; []] [3;4;5;6;7;8;9;10;11]%N false,
   res VNone [3;4;5;6;7;8;9;10;11]%N [6;7;11]%N);
  (mki [TMod [52;53;100]%N; TExists] [mkf 10 3895200 1500; mkf 2 3887400 70000; mkf 9 3600 1500; mkf 8 3887400 1; mkf 7 3884400 70000; mkf 3 3600 3; mkf 12 0 1500; mkf 6 3974400 1; mkf 1 3887400 1500; mkf 11 3884400 3; mkf 4 3974400 0; mkf 5 3884400 3] [mkp [4;5]%N false []; mkp [7;6;1]%N false []; mkp [9]%N false []] [[2]%N] [1;2;3;4;5;6;7;8;9;10;11;12]%N true,
   res VNone [1;2;3;4;5;6;7;8;9;11;12]%N []);
  (mki [TSize [48;120;49;75]%N; TInst; TFetch; TMod [52;53;115]%N] [mkf 1 7245 1; mkf 2 (-3555) 1; mkf 3 86445 1500; mkf 4 (-555) 3; mkf 5 86445 3] [mkp [3]%N true []] [[3]%N] [1;2;3;4;5]%N true,
   res (VErr [117;115;97;103;101]%N) [1;2;3;4;5]%N []);
  (mki [TSize [49;75]%N; TSize [53;98]%N; TExists; TTarget 1%N; TExcl [2;1]%N] [mkf 1 0 3; mkf 3 259200 1025; mkf 4 34560000 1024; mkf 5 259200 1024; mkf 6 0 1024; mkf 7 3456000 1023; mkf 8 3456000 1023; mkf 9 3456000 1024; mkf 10 34560000 1025; mkf 11 3600 1023; mkf 12 259200 1500] [mkp [3;12]%N false []; mkp [4;1]%N false [1]%N; mkp [5]%N false [2]%N; mkp [10]%N false []; mkp [2;6]%N false []] (@nil (list N)) [] true,
   res (VErr [117;115;97;103;101]%N) [1;3;4;5;6;7;8;9;10;11;12]%N []);
  (mki [TTarget 1%N; TMod [50;104]%N; TSize [49;75;66]%N] [mkf 1 (-79200) 3; mkf 2 3600 1; mkf 3 3456000 0; mkf 5 7800 3; mkf 6 3600 0; mkf 7 7800 3] [mkp [3;5]%N false [1]%N; mkp [4;2]%N false [1]%N; mkp [6]%N true []] [[4;2]%N; [1]%N] [2;3;5]%N true,
   res (VErr [117;115;97;103;101]%N) [1;2;3;5;6;7]%N []);
  (mki [TExcl [2]%N; TTarget 1%N; TInst; TPretend; TMod [49;68]%N] [mkf 1 259200 70000; mkf 2 3456000 3; mkf 3 3456000 70000; mkf 4 34560000 1500; mkf 5 3600 1; mkf 6 259200 3; mkf 7 34560000 1; mkf 8 0 70000; mkf 9 3600 1500; mkf 11 259200 1500] [mkp [5;4]%N false []; mkp [7;6;10]%N false [1]%N; mkp [9;10;3]%N false [2]%N] [[7;6;10]%N] [6;7]%N true,
   res (VErr [117;115;97;103;101]%N) [1;2;3;4;5;6;7;8;9;11]%N []);
  (mki [TSize [49;71]%N; TSize (@nil N); TTarget 1%N; TFetch] [mkf 2 3600 1073741824; mkf 3 3600 1073741823; mkf 4 34560000 1073741825; mkf 6 34560000 0; mkf 7 3600 0; mkf 8 3456000 1073741823; mkf 10 0 1; mkf 11 0 1073741823; mkf 13 0 1; mkf 14 3600 0; mkf 15 3456000 1073741825] [mkp [2;1;11]%N true []; mkp [6;5]%N false []; mkp [8;7;3]%N false []; mkp [12;9]%N false [1]%N] (@nil (list N)) [7;8;10;11]%N true,
   res (VErr [117;115;97;103;101]%N) [2;3;4;6;7;8;10;11;13;14;15]%N []);
  (mki [TExcl [3;2]%N; TSize [50;75]%N; TInst; TSize [49;48;107]%N; TMod [50;115]%N; TExists; TExcl [4;1]%N] [mkf 1 0 3048; mkf 2 0 3; mkf 3 (-598) 1; mkf 4 3456000 2047; mkf 5 3456000 70000; mkf 6 (-3598) 1; mkf 7 602 2047; mkf 9 602 3048; mkf 10 3600 0] [mkp [2;7]%N false [2]%N; mkp [6]%N true [3]%N] [[5]%N; [8]%N; [2;7]%N] [1;2;5;6;7]%N true,
   res (VErr [117;115;97;103;101]%N) [1;2;3;4;5;6;7;9;10]%N []);
  (mki [TExcl [0;2]%N] [mkf 1 3600 1500; mkf 2 259200 1500; mkf 3 3456000 1; mkf 4 0 1] [mkp [2]%N false [2]%N] [[2]%N] [] true,
   res (VErr [84;121;112;101;69;114;114;111;114]%N) [1;2;3;4]%N []);
  (mki [TTarget 2%N; TExcl [0;3]%N] [mkf 1 3600 70000; mkf 2 3600 70000; mkf 3 34560000 1500; mkf 4 259200 70000; mkf 5 259200 1; mkf 7 259200 1500; mkf 8 34560000 1; mkf 9 0 0; mkf 10 259200 3; mkf 11 3456000 1500] [mkp [2;1]%N false [3]%N; mkp [10]%N true [2]%N] [[9]%N; [6;10]%N; [5;10]%N] [10]%N false,
   res (VErr [84;121;112;101;69;114;114;111;114]%N) [1;2;3;4;5;7;8;9;10;11]%N []);
  (mki [TInst; TSize [49;48;107]%N; TTarget 1%N; TTarget 2%N; TExists] [mkf 1 259200 1500; mkf 2 3600 70000; mkf 3 259200 3; mkf 4 3600 1; mkf 5 3600 70000; mkf 6 0 3; mkf 7 259200 70000; mkf 8 3600 0] [mkp [2;1;8]%N false []; mkp [5;8]%N true [2]%N; mkp [6;8]%N false []] [[4]%N; [3]%N] [5;8]%N true,
   res (VErr [117;115;97;103;101]%N) [1;2;3;4;5;6;7;8]%N []);
  (mki [TMod [49;109;105;110;115]%N; TTarget 1%N; TExcl [1]%N; TExists] [mkf 1 34560000 1; mkf 3 3456000 70000; mkf 4 34560000 0; mkf 5 34560000 70000; mkf 6 34560000 1500; mkf 7 3600 1; mkf 8 34560000 3] [mkp [3;2]%N false [1]%N] [[3]%N] [] true,
   res (VErr [117;115;97;103;101]%N) [1;3;4;5;6;7;8]%N []);
  (mki [TSize [50;77]%N; TMod [49;109;105;110;115]%N; TExists; TTarget 1%N; TFetch] [mkf 1 0 1500; mkf 2 3456000 0; mkf 3 3456000 2097153; mkf 4 34560000 2097153; mkf 5 3600 2098152; mkf 6 34560000 2096152; mkf 7 3600 2097151; mkf 8 0 2098152; mkf 10 0 2098152] [mkp [2]%N false []; mkp [6]%N true []; mkp [3;11]%N false []; mkp [4;1]%N true []; mkp [10;9]%N false []] [[6]%N; [2]%N; [8]%N] [] true,
   res (VErr [117;115;97;103;101]%N) [1;2;3;4;5;6;7;8;10]%N []);
  (mki [TExcl [0;2]%N; TFetch; TSize [49;71]%N] [mkf 1 259200 1073741825; mkf 2 0 1073741825; mkf 3 3600 1073741824; mkf 4 259200 1073741823; mkf 5 3456000 1073741825; mkf 6 259200 1073741824] [mkp [2]%N true [2]%N] [[2]%N] [] true,
   res (VErr [84;121;112;101;69;114;114;111;114]%N) [1;2;3;4;5;6]%N []);
  (mki [TTarget 2%N; TTarget 1%N; TMod [49;46;53;100]%N; TMod [49;48;115]%N] [mkf 1 610 0; mkf 2 (-590) 1500; mkf 3 86410 70000; mkf 4 (-3590) 70000; mkf 5 7210 70000; mkf 6 610 1; mkf 7 610 1500; mkf 8 (-3590) 1500; mkf 9 (-590) 70000; mkf 10 610 1; mkf 11 7210 3; mkf 12 (-86390) 1500; mkf 13 (-86390) 1; mkf 14 7210 1] [mkp [3;2;10]%N false [1]%N; mkp [8;7;9;5]%N true [2]%N] [[11]%N; [8;7;9;5]%N; [13;14]%N] [1;2;3;7;8;9;10]%N false,
   res (VErr [117;115;97;103;101]%N) [1;2;3;4;5;6;7;8;9;10;11;12;13;14]%N []);
  (mki [TTarget 1%N; TMod [49;120]%N; TExists; TInst] [mkf 1 0 70000; mkf 2 0 70000; mkf 3 3456000 0; mkf 5 3456000 0; mkf 6 0 3; mkf 7 34560000 1500; mkf 8 0 0; mkf 9 0 3; mkf 11 3600 0] [mkp [2;4]%N false [1]%N; mkp [3]%N false []; mkp [8;11]%N false []; mkp [8;7]%N true []; mkp [9;10]%N false []] [[5]%N; [9;10]%N] [1;2]%N true,
   res (VErr [117;115;97;103;101]%N) [1;2;3;5;6;7;8;9;11]%N []);
  (mki [TTarget 1%N; TExists; TSize [48;120;49;75]%N; TSize [49;71]%N] [mkf 1 34560000 1073741825; mkf 2 3456000 1073742824; mkf 3 34560000 1073741825; mkf 4 259200 1073741823; mkf 5 3456000 1073741824; mkf 6 259200 1073741824; mkf 7 34560000 1073741823; mkf 8 3456000 1073741823; mkf 9 3600 1073741823] [mkp [2]%N true [1]%N; mkp [5]%N true []; mkp [7]%N false []] [[5]%N; [7]%N] [2]%N true,
   res (VErr [117;115;97;103;101]%N) [1;2;3;4;5;6;7;8;9]%N []);
  (mki [TExcl [0;1]%N] [mkf 1 3456000 3; mkf 2 34560000 3; mkf 3 259200 1500; mkf 4 3456000 0; mkf 5 259200 1500; mkf 6 259200 1; mkf 7 3600 3; mkf 8 3600 1; mkf 9 259200 70000; mkf 10 259200 0] [mkp [5;2]%N true []; mkp [4;3;7]%N true [1]%N] [[5]%N] [1;2;3;4;5]%N true,
   res (VErr [84;121;112;101;69;114;114;111;114]%N) [1;2;3;4;5;6;7;8;9;10]%N []);
  (mki [TFetch; TMod [49;104]%N; TExists; TInst; TExcl []; TSize [75]%N] [mkf 2 3456000 1; mkf 3 0 0; mkf 4 0 1500; mkf 5 4200 1; mkf 6 3000 1] [mkp [2;1]%N false []] [[4;3]%N] [2;3;4;5;6]%N false,
   res (VErr [117;115;97;103;101]%N) [2;3;4;5;6]%N []);
  (mki [TInst; TTarget 1%N; TSize [49;32;71]%N; TSize [49;48;48;77]%N; TExcl [4;3]%N; TMod [52;53;115]%N; TExcl [2]%N] [mkf 1 (-3555) 104857601; mkf 3 645 104856600; mkf 4 (-3555) 104857599; mkf 5 645 104857599; mkf 6 86445 104857601; mkf 7 (-86355) 104857600; mkf 8 (-86355) 1500; mkf 9 3600 104857599; mkf 10 7245 104856600; mkf 11 (-555) 104857600; mkf 12 (-3555) 104857600] [mkp [4]%N false [1]%N; mkp [6;3;2]%N false [2]%N; mkp [8;3]%N true [3]%N; mkp [9;3]%N true [4]%N; mkp [7]%N false []] [[4]%N; [9;3]%N] [] true,
   res (VErr [117;115;97;103;101]%N) [1;3;4;5;6;7;8;9;10;11;12]%N []);
  (mki [TTarget 2%N; TTarget 1%N; TSize [48;120;49;75]%N; TExcl []; TSize [53;66]%N] [mkf 1 0 6; mkf 2 34560000 4; mkf 3 259200 0; mkf 4 3456000 0; mkf 6 0 6; mkf 7 3600 4; mkf 8 34560000 4] [mkp [2]%N false [1]%N; mkp [6]%N false []; mkp [7]%N false []] [[5]%N] [1;2]%N true,
   res (VErr [117;115;97;103;101]%N) [1;2;3;4;6;7;8]%N []);
  (mki [TFetch; TExcl []; TMod [100]%N] [mkf 1 3600 70000; mkf 2 0 3; mkf 4 0 0; mkf 5 3456000 70000; mkf 6 3600 0; mkf 7 34560000 0; mkf 8 0 1; mkf 9 259200 1; mkf 10 3600 70000; mkf 11 3456000 70000; mkf 12 3600 3; mkf 13 259200 70000] [mkp [12;7]%N true []; mkp [5;3]%N true []; mkp [10;9]%N true []] [[8]%N] [1;2;4;5;6;7;8;9;10;11;12;13]%N false,
   res (VErr [117;115;97;103;101]%N) [1;2;4;5;6;7;8;9;10;11;12;13]%N []);
  (mki [TMod [49;68]%N; TExcl []; TInst] [mkf 2 3600 70000; mkf 3 0 3; mkf 5 3456000 3; mkf 6 3456000 1; mkf 7 34560000 1; mkf 8 0 1; mkf 9 34560000 0; mkf 10 34560000 70000; mkf 11 3600 70000; mkf 12 3600 1500] [mkp [3;4]%N false []; mkp [7;1]%N false []; mkp [9;8]%N false []; mkp [11;10;5]%N true []] [[7;1]%N; [2]%N] [2;3;5;6;7;8;9;10;11;12]%N true,
   res (VErr [117;115;97;103;101]%N) [2;3;5;6;7;8;9;10;11;12]%N []);
  (mki [TExcl [2]%N; TExcl [0;3]%N] [mkf 3 34560000 0; mkf 4 0 1500; mkf 5 3456000 0; mkf 6 34560000 0; mkf 7 3600 1500; mkf 8 0 1] [mkp [1;9]%N true []; mkp [2;4]%N false [2]%N; mkp [6;9]%N false [3]%N; mkp [8;7]%N true []] [[1;9]%N] [4;7;8]%N true,
   res (VErr [84;121;112;101;69;114;114;111;114]%N) [3;4;5;6;7;8]%N []);
  (mki [TTarget 1%N; TExists; TInst; TMod [45;49;100]%N; TFetch] [mkf 1 0 1; mkf 2 259200 1; mkf 3 3456000 0; mkf 4 3600 70000; mkf 5 0 1500; mkf 6 34560000 1500; mkf 7 3600 1; mkf 8 0 70000; mkf 10 34560000 1] [mkp [6;5;11]%N true []; mkp [8;9]%N true []; mkp [10]%N false [1]%N] [[10]%N; [3]%N; [8;9]%N] [10]%N true,
   res (VErr [117;115;97;103;101]%N) [1;2;3;4;5;6;7;8;10]%N []);
  (mki [TInst; TMod [52;53;109;105;110]%N; TExists; TExcl [0]%N; TExcl [2]%N] [mkf 1 3600 3; mkf 2 2100 0; mkf 5 9900 0; mkf 6 9900 70000; mkf 7 (-83700) 3; mkf 9 34560000 1] [mkp [3]%N true []; mkp [8;4;1]%N false [2]%N] [[3]%N; [8;4;1]%N] [2]%N true,
   res VNone [1;2;5;6;7;9]%N []);
  (mki [TTarget 2%N; TTarget 0%N; TTarget 3%N; TExcl [4]%N; TSize [49;48;48;77]%N; TExcl []] [mkf 1 0 104857599; mkf 2 3456000 104857601; mkf 3 3600 104858600; mkf 4 0 3; mkf 5 3456000 104856600; mkf 6 3456000 104856600; mkf 7 0 104857599; mkf 8 3456000 104857599; mkf 9 259200 104858600; mkf 10 259200 104857601] [mkp [2;1]%N false [4]%N; mkp [3]%N false []; mkp [6;5]%N true [2]%N; mkp [7;10]%N false []; mkp [8]%N false []] (@nil (list N)) [5;6;7]%N true,
   res (VErr [117;115;97;103;101]%N) [1;2;3;4;5;6;7;8;9;10]%N []);
  (mki [TExcl [1;3]%N; TTarget 2%N; TTarget 4%N; TSize [53;98]%N] [mkf 1 3600 1500; mkf 2 0 70000; mkf 4 34560000 3; mkf 5 0 70000; mkf 6 0 3; mkf 8 259200 3; mkf 9 3600 3] [mkp [2]%N false [1]%N; mkp [3]%N false [2;4]%N; mkp [5;4]%N false [3]%N; mkp [6]%N false []; mkp [8;7]%N false []] (@nil (list N)) [] true,
   res (VErr [117;115;97;103;101]%N) [1;2;4;5;6;8;9]%N []);
  (mki [TExcl [0]%N; TMod [49;48;104]%N] [mkf 1 43200 3; mkf 2 35400 70000; mkf 3 (-50400) 1500; mkf 4 36600 3; mkf 5 122400 70000; mkf 6 122400 70000; mkf 7 36600 70000; mkf 8 3600 0; mkf 9 3456000 0; mkf 10 122400 0; mkf 11 32400 0] [mkp [3;4]%N false []; mkp [5]%N true []; mkp [8]%N false []; mkp [10;9]%N false []] [[8]%N; [2]%N; [7]%N] [2;3;4;5;7;8;9;10]%N true,
   res (VErr [84;121;112;101;69;114;114;111;114]%N) [1;2;3;4;5;6;7;8;9;10;11]%N []);
  (mki [TInst; TSize [49;75;66]%N; TMod [51;121]%N] [mkf 1 94615200 1500; mkf 2 3456000 70000; mkf 4 94615200 70000; mkf 5 94615200 70000; mkf 6 94615200 1500; mkf 8 94604400 70000; mkf 9 94608600 1] [mkp [2;3;7]%N false []; mkp [5]%N false []] (@nil (list N)) [1;2;4;5;6;8;9]%N true,
   res (VErr [117;115;97;103;101]%N) [1;2;4;5;6;8;9]%N []);
  (mki [TPretend; TMod (@nil N); TTarget 1%N; TSize [50;66]%N] [mkf 1 3456000 1; mkf 2 3456000 3; mkf 3 34560000 1; mkf 4 0 3; mkf 5 34560000 0; mkf 6 259200 3; mkf 7 259200 1002; mkf 8 259200 3; mkf 9 3600 1] [mkp [3;2]%N true []; mkp [8;7]%N true []; mkp [] false []] [[1;4]%N] [] true,
   res (VErr [117;115;97;103;101]%N) [1;2;3;4;5;6;7;8;9]%N []);
  (mki [TInst; TMod [51;109]%N; TExists; TTarget 1%N; TMod [121;49]%N] [mkf 1 7775400 1500; mkf 2 7776600 0; mkf 3 7776600 70000; mkf 4 7783200 70000; mkf 6 7783200 1500; mkf 7 3600 1500; mkf 8 34560000 1; mkf 9 7783200 1] [mkp [3]%N false []; mkp [2;1]%N false []; mkp [5]%N false []; mkp [9;8]%N true []] [[4]%N; [9;8]%N] [] false,
   res (VErr [117;115;97;103;101]%N) [1;2;3;4;6;7;8;9]%N []);
  (mki [TExists; TMod [100]%N; TTarget 1%N] [mkf 1 259200 1; mkf 2 3600 3; mkf 3 34560000 0; mkf 4 3600 3; mkf 5 0 3] [mkp [3]%N false [1]%N] [[3]%N] [3;4]%N true,
   res (VErr [117;115;97;103;101]%N) [1;2;3;4;5]%N []);
  (mki [TTarget 1%N; TInst; TExists; TMod [121;49]%N; TMod [49;109;105;110]%N] [mkf 1 3456000 70000; mkf 2 3600 0; mkf 3 259200 70000; mkf 4 660 1; mkf 5 86460 1; mkf 6 86460 3; mkf 7 660 1] [mkp [2]%N false []; mkp [6]%N false []] [[4;7]%N; [6]%N] [] true,
   res (VErr [117;115;97;103;101]%N) [1;2;3;4;5;6;7]%N []);
  (mki [TSize [49;71]%N; TExcl [0]%N; TExcl []; TTarget 2%N; TExcl [3]%N] [mkf 1 0 1073741823; mkf 2 3600 0; mkf 3 3600 70000; mkf 4 259200 0; mkf 6 259200 1073741823; mkf 7 3600 1073741823; mkf 8 3456000 1073742824; mkf 9 3456000 1073741825; mkf 10 0 1073741825; mkf 11 259200 1073741823; mkf 12 3600 1073741825; mkf 13 259200 1073741825; mkf 14 3456000 1073741825; mkf 15 0 1073742824] [mkp [3;2;11]%N false [2]%N; mkp [5]%N false [3]%N; mkp [9]%N false []; mkp [13;12;6]%N true []] (@nil (list N)) [2;3;4;11]%N true,
   res VNone [1;6;7;8;9;10;12;13;14;15]%N []);
  (mki [TInst; TTarget 1%N; TTarget 2%N; TMod [100]%N] [mkf 1 0 3; mkf 2 259200 1500; mkf 3 0 70000; mkf 4 3600 1; mkf 5 3600 1; mkf 6 34560000 1; mkf 7 3456000 1; mkf 8 0 1500; mkf 9 3456000 0] [mkp [3;2]%N false [1]%N; mkp [7;6;1]%N true []] (@nil (list N)) [2;3]%N true,
   res (VErr [117;115;97;103;101]%N) [1;2;3;4;5;6;7;8;9]%N []);
  (mki [TMod [50;115]%N; TExcl [4]%N; TExcl [1]%N; TExcl [0;3]%N; TSize [49;48;48;75]%N] [mkf 1 (-598) 101400; mkf 2 (-598) 103400; mkf 3 (-86398) 102399; mkf 4 (-598) 102399; mkf 5 3600 1500; mkf 6 (-86398) 102401; mkf 8 (-86398) 102399; mkf 9 (-86398) 102401; mkf 11 3600 102401; mkf 12 0 102399; mkf 13 (-86398) 103400] [mkp [2;1]%N false [1;4]%N; mkp [6]%N false []; mkp [10;4]%N false []; mkp [12;11;7]%N false [3]%N] [[8;7]%N; [3]%N] [1;2;4;5;6;11;12]%N true,
   res (VErr [84;121;112;101;69;114;114;111;114]%N) [1;2;3;4;5;6;8;9;11;12;13]%N []);
  (mki [TSize [75]%N; TMod [51;109;105;110]%N; TTarget 1%N] [mkf 1 780 3; mkf 2 86580 0; mkf 3 86580 0; mkf 4 (-420) 3; mkf 5 780 1500; mkf 6 86580 1; mkf 8 (-3420) 3; mkf 9 (-420) 1] [mkp [3;1]%N false []; mkp [8;7;6]%N true [1]%N] (@nil (list N)) [6;8]%N true,
   res (VErr [117;115;97;103;101]%N) [1;2;3;4;5;6;8;9]%N []);
  (mki [TMod [52;53;115]%N; TInst; TMod [100]%N; TSize [49;77]%N] [mkf 2 86445 1048576; mkf 3 (-555) 1048576; mkf 4 7245 1048577; mkf 5 7245 1; mkf 6 3456000 70000; mkf 7 (-3555) 1048577] [mkp [3;2;6;4;1]%N false []; mkp [5;6]%N false []; mkp [3;2]%N false []] [[3]%N; [3;2]%N] [2;3;4;5;6;7]%N true,
   res (VErr [117;115;97;103;101]%N) [2;3;4;5;6;7]%N []);
  (mki [TMod [121;49]%N; TInst; TSize [49;71]%N] [mkf 1 3600 1073741825; mkf 2 259200 0; mkf 3 34560000 1073741825; mkf 4 34560000 1073741825; mkf 5 3600 1073741823; mkf 6 34560000 1073741823; mkf 7 259200 1] [mkp [3;1]%N false []] [[2]%N; [5]%N] [1;2;3;4;5;6;7]%N true,
   res (VErr [117;115;97;103;101]%N) [1;2;3;4;5;6;7]%N []);
  (mki [TInst; TTarget 2%N; TMod [49;48;119]%N; TExcl [4]%N; TExcl [0;3]%N; TExcl [3]%N] [mkf 1 6134400 70000; mkf 2 6044400 70000; mkf 3 5961600 1; mkf 4 6047400 70000; mkf 5 6048600 1500; mkf 6 6055200 1500; mkf 7 0 3; mkf 8 3456000 70000] [mkp [6;4]%N false [3]%N; mkp [7;9;1]%N false [2;4]%N] [[6;4]%N] [1;7]%N false,
   res VNone [1;2;3;4;5;6;7;8]%N [1]%N);
  (mki [TFetch; TTarget 2%N; TTarget 0%N; TMod [50;104]%N] [mkf 2 34560000 0; mkf 3 14400 0; mkf 4 3600 70000; mkf 5 7800 0; mkf 6 3600 3] [mkp [4;3]%N false [2]%N] [[1;2]%N] [3;4]%N true,
   res (VErr [117;115;97;103;101]%N) [2;3;4;5;6]%N [])
].
Eval vm_compute in (mismatches run cases).
Eval vm_compute in (where_ (fun i r => negb (spec_ok i r)) cases).
