(* Proofs_C33.v — placement lemmas of the helper model against the PMS reference (Spec_C33),
   and re-export of the path theorems (PathProofs.v). *)
From Coq Require Import List NArith ZArith Bool Arith Lia.
From Coq Require String Ascii.
Import String.StringSyntax.
Delimit Scope string_scope with string.
Import ListNotations.
From Verif Require Import Base.Val C33.Path C33.PathProofs gen.Tables_C33 C33.Model_C33 C33.Spec_C33.

(* ------------------------------------------------------------------ keys of joined paths *)
Definition rel_resolve (p : str) : list str := rev (run [] (split_sl p)).

Lemma key_rel p : key p = rel_resolve p.
Proof. reflexivity. Qed.

Lemma rel_resolve_slash p : rel_resolve (SL :: p) = rel_resolve p.
Proof. reflexivity. Qed.

Lemma key_lstrip d : key (lstrip_sl d) = key d.
Proof.
  rewrite !key_rel. unfold lstrip_sl. induction d as [|c d IH]; [reflexivity|].
  cbn [dropwhile]. destruct (is_sl c) eqn:E; [|reflexivity].
  apply is_sl_eq in E. subst c. rewrite rel_resolve_slash. exact IH.
Qed.

Definition goodb (b : str) : Prop := plain b /\ noslash b.

Lemma good_name_goodb b : good_name b = true -> goodb b.
Proof.
  unfold good_name. intro H. repeat (apply andb_true_iff in H as [H ?]).
  split; [repeat split; intro; subst; cbn in *; congruence|exact H0].
Qed.

Lemma isabs_good b : goodb b -> isabs b = false.
Proof.
  intros [(H & _ & _) N]. destruct b as [|x b]; [congruence|]. unfold noslash in N. cbn in N.
  apply andb_true_iff in N as [N _]. now apply negb_true_iff in N.
Qed.

Lemma lstrip_good b : goodb b -> lstrip_sl b = b.
Proof.
  intro G. pose proof (isabs_good b G) as A. destruct b as [|x b]; [reflexivity|].
  cbn in A. unfold lstrip_sl. cbn. now rewrite A.
Qed.

Lemma key_join_good a b : goodb b -> key (join2 a b) = key a ++ [b].
Proof.
  intros G. pose proof (isabs_good b G) as A. destruct G as [P N].
  rewrite !key_rel. unfold rel_resolve.
  destruct a as [|x a].
  - unfold join2. rewrite A. cbn [rev]. rewrite (split_noslash_single b N), run_cons, run_nil, step_plain by assumption.
    reflexivity.
  - rewrite run_split_join2 by (discriminate || assumption).
    rewrite (split_noslash_single b N), run_cons, run_nil, step_plain by assumption. reflexivity.
Qed.

Lemma key_under dest b : goodb b -> key (under dest b) = comps dest ++ [b].
Proof.
  intro G. unfold under, edjoin. rewrite (lstrip_good b G), key_join_good by assumption.
  now rewrite key_lstrip.
Qed.

(* ------------------------------------------------------------------ what a plan installs where *)
Definition action_entry (a : action) : option (list str * pnode) :=
  match a with
  | AInstall (FReg cid) p (Some m) => Some (key p, PFile m cid)
  | AInstall (FLink t _) p _ => Some (key p, PLink t)
  | AMkdirs p m => Some (key p, PDir m)
  | ASymlinkNew t p => Some (key p, PLink t)
  | _ => None
  end.

(* doexe dobin dosbin dolib dolib.so dolib.a doinfo (and the file arguments of doins/dodoc):
   each file goes to <dest>/<basename> with the requested mode — exactly the reference list *)
Theorem base_placement_proof : forall c mode pos l,
  c_insmode c = Some mode ->
  flat_files (comps (c_dest c)) mode pos = Some l ->
  map action_entry (install_basenames c pos) = map Some l.
Proof.
  intros c mode pos. induction pos as [|a r IH]; intros l Hm H; cbn [flat_files] in H.
  - injection H as <-. reflexivity.
  - destruct (flat_one (comps (c_dest c)) mode a) as [x|] eqn:E1; [|discriminate].
    destruct (flat_files (comps (c_dest c)) mode r) as [xs|] eqn:E2; [|discriminate].
    injection H as <-. unfold install_basenames in *. cbn [map concat]. rewrite map_app, (IH xs Hm eq_refl).
    cbn [map]. f_equal. unfold flat_one in E1. unfold install_one. destruct (snd a) as [f| |]; try discriminate.
    destruct (good_name (basename (fst a))) eqn:G; [|discriminate]. apply good_name_goodb in G.
    destruct f as [cid|t ok]; cbn in E1.
    + injection E1 as <-. cbn [map action_entry]. rewrite Hm, key_under by assumption. reflexivity.
    + destruct ok; [|discriminate]. injection E1 as <-. cbn [map action_entry]. rewrite key_under by assumption. reflexivity.
Qed.

Theorem plan_base_shape_proof : forall c pos, plan_base c pos = inl (base_action (c_dest c) :: install_basenames c pos).
Proof. reflexivity. Qed.

(* ------------------------------------------------------------------ keepdir *)
Theorem keepdir_name_proof : forall i,
  keep_name i = lit ".keep_" ++ cat i ++ lit "_" ++ pn i ++ lit "-" ++ slot i.
Proof. reflexivity. Qed.

Theorem keepdir_placement_proof : forall name dest dirm pos acts,
  goodb name -> plan_dirs (Some name) dest dirm pos = inl acts ->
  forall a, In a pos ->
    In (AMkdirs (under dest (fst a)) dirm) acts
    /\ exists p, In (ATouch p) acts /\ key p = comps (fst a) ++ [name].
Proof.
  intros name dest dirm pos acts G H a Ha. unfold plan_dirs in H. destruct pos as [|a0 r]; [destruct Ha|].
  remember (a0 :: r) as pos eqn:Epos. injection H as <-. split.
  - rewrite in_app_iff. left. apply (in_map (fun a => AMkdirs (under dest (fst a)) dirm)), Ha.
  - exists (edjoin (lstrip_sl (fst a)) name). split.
    + rewrite in_app_iff. right. apply (in_map (fun a => ATouch (edjoin (lstrip_sl (fst a)) name))), Ha.
    + unfold edjoin. rewrite key_join_good by assumption. now rewrite key_lstrip.
Qed.

Theorem dodir_keepdir_need_args_proof : forall keep dest dirm, plan_dirs keep dest dirm [] = inr (E "missing").
Proof. reflexivity. Qed.

(* ------------------------------------------------------------------ dosym / dohard *)
Theorem link_missing_name_proof : forall g h dirm pre r pos,
  (length pos < 2)%nat -> plan_link g h dirm pre r pos = inr (E "missing").
Proof. intros g h dirm pre r [|a [|b l]] H; cbn in *; try reflexivity; lia. Qed.

Theorem dosym_rejects_trailing_slash_proof : forall g dirm pre r s t,
  endswith_sl t = true -> plan_dosym g dirm pre r s t = inr (E "nolinkname").
Proof. intros. unfold plan_dosym. now rewrite H. Qed.

Theorem dosym_rejects_image_dir_proof : forall g dirm pre r s t m,
  lookup (key (lstrip_sl t)) pre = Some (NDir m) -> plan_dosym g dirm pre r s t = inr (E "nolinkname").
Proof. intros. unfold plan_dosym. rewrite H. now rewrite orb_true_r. Qed.

Theorem dosym_r_gated_proof : forall g dirm pre s t acts,
  plan_dosym g dirm pre true s t = inl acts -> g_dosym_rel g = true /\ isabs s = true.
Proof.
  intros g dirm pre s t acts. unfold plan_dosym.
  destruct (endswith_sl t || _); [discriminate|].
  destruct (g_dosym_rel g); [|discriminate]. destruct (isabs s); [|discriminate]. now split.
Qed.

Lemma link_actions_in h dirm s t : In (if str_eqb h (lit "dosym") then ASymlink s (lstrip_sl t)
                                      else AHardlink (lstrip_sl s) (lstrip_sl t)) (link_actions h dirm s t).
Proof. unfold link_actions. apply in_or_app. right. now left. Qed.

(* the link a successful dosym creates: verbatim without -r; with -r a relative content that
   resolves, from the directory of the link, to the requested absolute target *)
Theorem dosym_link_content_proof : forall g dirm pre r s t acts,
  plan_dosym g dirm pre r s t = inl acts ->
  exists c, In (ASymlink c (lstrip_sl t)) acts
            /\ (r = false -> c = s)
            /\ (r = true -> resolve (join2 (absdir t) c) = resolve s).
Proof.
  intros g dirm pre r s t acts. unfold plan_dosym.
  destruct (endswith_sl t || _); [discriminate|]. destruct r.
  - destruct (g_dosym_rel g); [|discriminate]. destruct (isabs s) eqn:A; [|discriminate]. cbn [negb].
    intro H. injection H as <-. exists (relative_target [] s t). split; [|split].
    + apply (link_actions_in (lit "dosym")).
    + discriminate.
    + intros _. now apply dosym_r_resolves_proof.
  - intro H. injection H as <-. exists s. split; [apply (link_actions_in (lit "dosym"))|split; [reflexivity|discriminate]].
Qed.

(* ------------------------------------------------------------------ rejections *)
Theorem dodoc_rejects_dirs_proof : forall g c r pos,
  dirs_of pos <> [] -> r && g_dodoc_r g = false -> plan_dodoc g c r pos = inr (E "isdir").
Proof.
  intros g c r pos H1 H2. unfold plan_dodoc. destruct (dirs_of pos); [congruence|]. now rewrite H2.
Qed.

Theorem dohtml_rejects_dirs_without_r_proof : forall dest insm dirm o pos,
  dirs_of pos <> [] -> h_r o = false -> plan_dohtml dest insm dirm o pos = inr (E "isdir").
Proof.
  intros. unfold plan_dohtml. destruct (dirs_of pos); [congruence|]. now rewrite H0.
Qed.

(* a man page without a section suffix is refused, whatever the EAPI gates and -i18n *)
Lemma takewhile_all {A} (f : A -> bool) l : forallb f l = true -> takewhile f l = l /\ dropwhile f l = [].
Proof.
  induction l as [|x l IH]; cbn; [now split|]. intro H. apply andb_true_iff in H as [H1 H2].
  rewrite H1. destruct (IH H2) as [-> ->]. now split.
Qed.

Definition nodot (b : str) : Prop := forallb (fun c => negb (is_dot c)) b = true.

Lemma forallb_rev {A} (f : A -> bool) l : forallb f (rev l) = forallb f l.
Proof.
  induction l as [|x l IH]; [reflexivity|]. cbn. rewrite forallb_app, IH. cbn. rewrite andb_true_r. apply andb_comm.
Qed.

Lemma splitext_nodot b : noslash b -> nodot b -> splitext b = (b, []).
Proof.
  intros N D. unfold splitext.
  assert (B : basename b = b).
  { unfold basename. destruct (takewhile_all (fun c => negb (is_sl c)) (rev b)) as [-> _];
      [now rewrite forallb_rev|apply rev_involutive]. }
  rewrite B. destruct (takewhile_all (fun c => negb (is_dot c)) (rev b)) as [_ ->]; [now rewrite forallb_rev|].
  reflexivity.
Qed.

Lemma split_on_nodot b : nodot b -> split_on 46 b = [b].
Proof.
  unfold nodot. induction b as [|x b IH]; cbn; intro H; [reflexivity|].
  apply andb_true_iff in H as [H1 H2]. apply negb_true_iff in H1. unfold is_dot in H1. rewrite H1, (IH H2). reflexivity.
Qed.

Lemma basename_join_man l : basename (join2 l (lit "man")) = lit "man".
Proof.
  unfold join2. change (isabs (lit "man")) with false. cbv iota.
  unfold basename. destruct (rev l) as [|c r] eqn:E; [reflexivity|].
  destruct (is_sl c) eqn:Ec; rewrite rev_app_distr.
  - change (rev (lit "man")) with [110; 97; 109]%N. cbn [app takewhile is_sl N.eqb Pos.eqb negb].
    rewrite E. cbn [takewhile]. rewrite Ec. reflexivity.
  - reflexivity.
Qed.

Lemma assoc_in {A} k (l : list (str * A)) v : assoc k l = Some v -> exists k', In (k', v) l.
Proof.
  induction l as [|[k' v'] l IH]; cbn; [discriminate|]. destruct (str_eqb k k').
  - intro H. injection H as <-. exists k'. now left.
  - intro H. destruct (IH H) as [k2 H2]. exists k2. now right.
Qed.

Lemma no_empty_archive_ext : forall e g, gates_of e = Some g -> is_archive_ext g [] = false.
Proof.
  intros e g H. destruct (assoc_in _ _ _ H) as [k Hk].
  assert (F : forallb (fun kv => negb (is_archive_ext (snd kv) [])) eapi_table = true) by (vm_compute; reflexivity).
  rewrite forallb_forall in F. specialize (F _ Hk). cbn in F. now apply negb_true_iff in F.
Qed.

Theorem doman_rejects_no_section_proof : forall e g i18n x,
  gates_of e = Some g -> nodot (basename x) -> noslash (basename x) -> doman_dest g i18n x = None.
Proof.
  intros e g i18n x Hg D N. unfold doman_dest.
  rewrite (splitext_nodot _ N D). cbn [snd]. rewrite (no_empty_archive_ext e g Hg). cbn [tl].
  rewrite app_nil_r.
  assert (L : lang_match (basename x) = None) by (unfold lang_match; now rewrite (split_on_nodot _ D)).
  rewrite L.
  destruct (if g_doman_override g then i18n else None) as [l|].
  - rewrite basename_join_man. reflexivity.
  - destruct (g_doman_detect g); reflexivity.
Qed.

(* ------------------------------------------------------------------ the regenerated tables agree with PMS *)
Theorem gates_are_pms_proof : forallb gates_agree numbered_eapis = true.
Proof. vm_compute. reflexivity. Qed.

Example keepdir_example :
  keep_name {| helper := lit "keepdir"; eapi := lit "7";
               sh := {| v_desttree := []; v_insdesttree := []; v_exedesttree := []; v_docdesttree := []; v_pf := [];
                        v_libdir := []; v_insoptions := []; v_exeoptions := []; v_liboptions := []; v_diroptions := [] |};
               args := []; cat := lit "dev-libs"; pn := lit "foo"; slot := lit "2"; umask := 18%N; pre := [] |}
  = lit ".keep_dev-libs_foo-2".
Proof. reflexivity. Qed.

Example doman_example :
  match gates_of (lit "7") with
  | Some g => doman_dest g None (lit "x/foo.pt_BR.1") = Some (lit "pt_BR/man1", lit "foo.1")
              /\ doman_dest g (Some (lit "fr")) (lit "foo.de.3") = Some (lit "fr/man3", lit "foo.de.3")
              /\ doman_dest g None (lit "README") = None
  | None => False
  end.
Proof. vm_compute. repeat split. Qed.

(* ------------------------------------------------------------------ where the wrappers send things *)
Definition dest_of (g : eapi_row) (h : String.string) (v : shvars) : option str :=
  match wrapper_opts g (lit h) v with Some w => o_dest w | None => None end.
Definition insopts_of (g : eapi_row) (h : String.string) (v : shvars) : option str :=
  match wrapper_opts g (lit h) v with Some w => o_ins w | None => None end.
Arguments dest_of g h%string v.
Arguments insopts_of g h%string v.

(* PMS 12.3: dobin -> DESTTREE/bin, dosbin -> DESTTREE/sbin, dolib* -> DESTTREE/<libdir>,
   doins -> INSDESTTREE, doexe -> EXEDESTTREE, dodoc -> /usr/share/doc/PF/<docinto>,
   dohtml -> /usr/share/doc/PF/<docinto or html>, doinfo -> /usr/share/info, doman -> /usr/share/man *)
Theorem wrapper_dests_are_pms_proof : forall g v,
  dest_of g "dobin" v = Some (v_desttree v ++ lit "/bin")
  /\ dest_of g "dosbin" v = Some (v_desttree v ++ lit "/sbin")
  /\ dest_of g "dolib" v = Some (v_desttree v ++ lit "/" ++ v_libdir v)
  /\ dest_of g "dolib.so" v = Some (v_desttree v ++ lit "/" ++ v_libdir v)
  /\ dest_of g "dolib.a" v = Some (v_desttree v ++ lit "/" ++ v_libdir v)
  /\ dest_of g "doins" v = Some (v_insdesttree v)
  /\ dest_of g "doexe" v = Some (v_exedesttree v)
  /\ dest_of g "dodoc" v = Some (lit "/usr/share/doc/" ++ v_pf v ++ lit "/" ++ v_docdesttree v)
  /\ dest_of g "dohtml" v = Some (lit "/usr/share/doc/" ++ v_pf v ++ lit "/"
                                  ++ match v_docdesttree v with [] => lit "html" | d => d end)
  /\ dest_of g "doinfo" v = Some (lit "/usr/share/info")
  /\ dest_of g "doman" v = Some (lit "/usr/share/man")
  /\ insopts_of g "dolib.so" v = Some (lit "-m0755")
  /\ insopts_of g "dolib.a" v = Some (lit "-m0644")
  /\ insopts_of g "doins" v = Some (v_insoptions v)
  /\ insopts_of g "doexe" v = Some (v_exeoptions v).
Proof.
  intros g v. unfold dest_of, insopts_of.
  repeat split; cbv -[app]; rewrite ?app_nil_r; try reflexivity.
Qed.

(* ------------------------------------------------------------------ doman: section, language, -i18n *)
Lemma split_on_nonnil s b : split_on s b <> [].
Proof. destruct b as [|c r]; cbn; [discriminate|]. destruct (N.eqb c s); [discriminate|]. destruct (split_on s r); discriminate. Qed.

Lemma join_on_cons2 s a b l : join_on s (a :: b :: l) = a ++ s :: join_on s (b :: l).
Proof. reflexivity. Qed.

Lemma join_split_on s b : join_on s (split_on s b) = b.
Proof.
  induction b as [|c r IH]; [reflexivity|]. cbn [split_on]. pose proof (split_on_nonnil s r) as NN.
  destruct (split_on s r) as [|h t] eqn:E2; [congruence|]. destruct (N.eqb c s) eqn:E.
  - apply N.eqb_eq in E. subst c. rewrite join_on_cons2, IH. reflexivity.
  - destruct t as [|h2 t].
    + cbn in *. now rewrite IH.
    + rewrite join_on_cons2 in *. cbn [app]. now rewrite IH.
Qed.

Definition nosep (s : N) (c : str) : Prop := forallb (fun x => negb (N.eqb x s)) c = true.
Lemma split_on_nosep s b : Forall (nosep s) (split_on s b).
Proof.
  induction b as [|c r IH]; cbn; [repeat constructor|]. destruct (N.eqb c s) eqn:E.
  - constructor; [reflexivity|exact IH].
  - destruct (split_on s r) as [|h t]; [repeat constructor; unfold nosep; cbn; now rewrite E|].
    inversion IH; subst. constructor; [|assumption]. unfold nosep in *. cbn. now rewrite E.
Qed.

Lemma nosep_nodot c : nosep 46 c -> nodot c.
Proof. exact (fun H => H). Qed.

Lemma takewhile_app_stop {A} (f : A -> bool) l x r :
  forallb f l = true -> f x = false -> takewhile f (l ++ x :: r) = l /\ dropwhile f (l ++ x :: r) = x :: r.
Proof.
  induction l as [|y l IH]; cbn; intros H Hx; [now rewrite Hx|].
  apply andb_true_iff in H as [H1 H2]. rewrite H1. destruct (IH H2 Hx) as [-> ->]. now split.
Qed.

Lemma basename_noslash b : noslash b -> basename b = b.
Proof.
  intro N. unfold basename. destruct (takewhile_all (fun c => negb (is_sl c)) (rev b)) as [-> _];
    [now rewrite forallb_rev|apply rev_involutive].
Qed.

Lemma firstn_app_exact {A} (a b : list A) n : n = length a -> firstn n (a ++ b) = a.
Proof. intros ->. rewrite firstn_app, Nat.sub_diag, firstn_all. cbn. apply app_nil_r. Qed.

(* splitext of  root ++ "." ++ sec  when sec has no dot and root is not made of dots only *)
Lemma splitext_root_sec root sec :
  noslash (root ++ DOT :: sec) -> nodot sec -> forallb is_dot root = false ->
  splitext (root ++ DOT :: sec) = (root, DOT :: sec).
Proof.
  intros N D R. unfold splitext. rewrite (basename_noslash _ N).
  rewrite rev_app_distr. cbn [rev]. rewrite <- app_assoc. cbn [app].
  destruct (takewhile_app_stop (fun c => negb (is_dot c)) (rev sec) DOT (rev root)) as [-> ->];
    [now rewrite forallb_rev|reflexivity|].
  rewrite forallb_rev, R, rev_length, rev_involutive.
  rewrite firstn_app_exact; [reflexivity|]. rewrite app_length. cbn [length]. lia.
Qed.

Lemma simple_stem_facts s : simple_stem s = true ->
  s <> [] /\ nodot s /\ noslash s /\ forallb is_dot s = false.
Proof.
  unfold simple_stem. intro H. apply andb_true_iff in H as [H1 H2].
  destruct s as [|c s]; [discriminate|]. repeat split; try discriminate.
  - unfold nodot. rewrite forallb_forall in *. intros x Hx. specialize (H2 x Hx). now apply andb_true_iff in H2 as [H2 _].
  - unfold noslash. rewrite forallb_forall in *. intros x Hx. specialize (H2 x Hx). now apply andb_true_iff in H2 as [_ H2].
  - cbn in *. apply andb_true_iff in H2 as [H2 _]. apply andb_true_iff in H2 as [H2 _]. apply negb_true_iff in H2. now rewrite H2.
Qed.

Lemma is_section_facts sec : is_section sec = true ->
  exists c, sec = [c] /\ (is_digit c || N.eqb c 110) = true.
Proof. destruct sec as [|c [|d r]]; cbn; try discriminate. intro H. now exists c. Qed.

Lemma section_char_facts c : (is_digit c || N.eqb c 110) = true ->
  is_dot c = false /\ is_sl c = false /\ is_word c = true.
Proof.
  intro H. unfold is_dot, is_sl, is_word, is_digit, is_lower, is_upper in *.
  apply orb_true_iff in H as [H|H].
  - apply andb_true_iff in H as [H1 H2]. apply N.leb_le in H1, H2.
    repeat split; [apply N.eqb_neq; lia|apply N.eqb_neq; lia|].
    assert ((48 <=? c) = true /\ (c <=? 57) = true)%N as [-> ->] by (split; apply N.leb_le; lia). reflexivity.
  - apply N.eqb_eq in H. subst c. repeat split.
Qed.

(* one-character section suffixes are never archive extensions, in every tabulated EAPI *)
Lemma section_not_archive : forall e g c, gates_of e = Some g -> (is_digit c || N.eqb c 110) = true ->
  is_archive_ext g [DOT; c] = false.
Proof.
  intros e g c H Hc. destruct (assoc_in _ _ _ H) as [k Hk].
  assert (F : forallb (fun kv => forallb (fun c => negb (is_archive_ext (snd kv) [DOT; c]))
                                   [48;49;50;51;52;53;54;55;56;57;110]%N) eapi_table = true) by (vm_compute; reflexivity).
  rewrite forallb_forall in F. specialize (F _ Hk). cbn [snd] in F. rewrite forallb_forall in F.
  assert (In c [48;49;50;51;52;53;54;55;56;57;110]%N).
  { unfold is_digit in Hc. apply orb_true_iff in Hc as [Hc|Hc].
    - apply andb_true_iff in Hc as [H1 H2]. apply N.leb_le in H1, H2.
      assert (c = 48 \/ c = 49 \/ c = 50 \/ c = 51 \/ c = 52 \/ c = 53 \/ c = 54 \/ c = 55 \/ c = 56 \/ c = 57)%N by lia.
      cbn. intuition.
    - apply N.eqb_eq in Hc. subst. cbn. intuition. }
  apply negb_true_iff, F, H0.
Qed.

Lemma valid_mandir_section c : (is_digit c || N.eqb c 110) = true -> valid_mandir (lit "man" ++ [c]) = true.
Proof. intro H. cbn. now rewrite H. Qed.

Lemma basename_dir_man l m : noslash m -> l <> [] -> noslash l -> basename (join2 l m) = m /\ join2 l m = join_sl [l; m].
Proof.
  intros Nm Hl Nl.
  assert (A : isabs m = false).
  { destruct m as [|x m]; [reflexivity|]. unfold noslash in Nm. cbn in *. apply andb_true_iff in Nm as [Nm _]. now apply negb_true_iff in Nm. }
  unfold join2. rewrite A. destruct (last_noslash l Hl Nl) as (x & r & E & Ex). rewrite E, Ex. split; [|reflexivity].
  unfold basename. rewrite rev_app_distr. cbn [rev]. rewrite <- app_assoc. cbn [app].
  destruct (takewhile_app_stop (fun c => negb (is_sl c)) (rev m) SL (rev l)) as [-> _];
    [now rewrite forallb_rev|reflexivity|apply rev_involutive].
Qed.

Lemma range_not_sl lo hi c : (47 < lo)%N -> (N.leb lo c && N.leb c hi) = true -> is_sl c = false.
Proof. intros L H. apply andb_true_iff in H as [H1 _]. apply N.leb_le in H1. apply N.eqb_neq. lia. Qed.

Lemma lower_not_sl c : is_lower c = true -> is_sl c = false.
Proof. apply (range_not_sl 97 122). lia. Qed.
Lemma upper_not_sl c : is_upper c = true -> is_sl c = false.
Proof. apply (range_not_sl 65 90). lia. Qed.

Lemma pms_is_lang_noslash l : pms_is_lang l = true -> noslash l /\ l <> [].
Proof.
  unfold pms_is_lang, noslash. destruct l as [|a1 [|a2 [|a3 [|a4 [|a5 [|? ?]]]]]]; try discriminate; intro H; (split; [|discriminate]).
  - apply andb_true_iff in H as [H1 H2]. cbn. now rewrite (lower_not_sl _ H1), (lower_not_sl _ H2).
  - apply andb_true_iff in H as [H H5]. apply andb_true_iff in H as [H H4]. apply andb_true_iff in H as [H H3].
    apply andb_true_iff in H as [H1 H2]. cbn.
    rewrite (lower_not_sl _ H1), (lower_not_sl _ H2), (upper_not_sl _ H4), (upper_not_sl _ H5).
    apply N.eqb_eq in H3. subst a3. reflexivity.
Qed.

Definition gates_match (g : eapi_row) (n : N) : Prop :=
  g_doman_detect g = pms_doman_lang n /\ g_doman_override g = pms_doman_i18n_wins n.

(* the placement of a man page is the PMS one wherever PMS defines it: section directory from
   the suffix, language directory from the name in EAPI 2+, -i18n=<lang> taking precedence in
   EAPI 4+ (empty <lang>: no language level), the language suffix removed from the name *)
Theorem doman_placement_is_pms_proof : forall e g i18n b d name,
  gates_of e = Some g -> gates_match g (decimal e) ->
  pms_doman (decimal e) i18n b = Some (Some (d, name)) ->
  doman_dest g i18n b = Some (join_sl d, name).
Proof.
  intros e g i18n b d name Hg [Gd Go] H. unfold pms_doman in H. set (n := decimal e) in *.
  pose proof (join_split_on 46 b) as J. pose proof (split_on_nosep 46 b) as NS. unfold dot_parts in H.
  destruct (split_on 46 b) as [|p1 [|p2 [|p3 [|p4 rest]]]] eqn:ES; try discriminate.
  - (* stem.sec *)
    destruct (simple_stem p1) eqn:S1; [|discriminate]. destruct (is_section p2) eqn:S2; [|discriminate]. cbn [andb] in H.
    destruct (simple_stem_facts _ S1) as (N1 & D1 & L1 & A1).
    destruct (is_section_facts _ S2) as (c & -> & Hc). destruct (section_char_facts c Hc) as (Cd & Cs & Cw).
    cbn [join_on] in J. change (p1 ++ DOT :: [c] = b) in J. subst b.
    assert (NB : noslash (p1 ++ DOT :: [c])).
    { unfold noslash in *. rewrite forallb_app. cbn. rewrite L1, Cs. reflexivity. }
    unfold doman_dest. rewrite (basename_noslash _ NB).
    rewrite (splitext_root_sec p1 [c] NB) by (assumption || (unfold nodot; cbn; now rewrite Cd)).
    cbn [snd]. rewrite (section_not_archive e g c Hg Hc). cbn [tl].
    assert (LM : lang_match (p1 ++ DOT :: [c]) = None).
    { unfold lang_match. rewrite ES. cbn [rev app join_on is_nil andb negb]. now rewrite !andb_false_r. }
    rewrite LM, Go. fold n.
    assert (Nm : noslash (lit "man" ++ [c])) by (unfold noslash; cbn; now rewrite Cs).
    destruct (if pms_doman_i18n_wins n then i18n else None) as [l|].
    + destruct (is_nil l) eqn:El.
      * destruct l; [|discriminate]. injection H as <- <-. cbn [join2 isabs rev].
        change (join2 [] (lit "man" ++ [c])) with (lit "man" ++ [c]).
        rewrite (basename_noslash _ Nm), (valid_mandir_section c Hc). reflexivity.
      * destruct (simple_stem l) eqn:Sl; [|discriminate]. injection H as <- <-.
        destruct (simple_stem_facts _ Sl) as (Nl & _ & Ll & _).
        destruct (basename_dir_man l (lit "man" ++ [c]) Nm Nl Ll) as [-> ->].
        rewrite (valid_mandir_section c Hc). reflexivity.
    + injection H as <- <-. destruct (g_doman_detect g); rewrite (basename_noslash _ Nm), (valid_mandir_section c Hc); reflexivity.
  - (* stem.lang.sec *)
    destruct (simple_stem p1) eqn:S1; [|discriminate]. destruct (is_section p3) eqn:S3; [|discriminate].
    destruct (pms_is_lang p2) eqn:S2; [|discriminate]. cbn [andb] in H.
    destruct (simple_stem_facts _ S1) as (N1 & D1 & L1 & A1).
    destruct (is_section_facts _ S3) as (c & -> & Hc). destruct (section_char_facts c Hc) as (Cd & Cs & Cw).
    cbn [join_on] in J. change (p1 ++ DOT :: p2 ++ DOT :: [c] = b) in J. subst b.
    inversion NS as [|? ? _ NS2]; subst. inversion NS2 as [|? ? D2 _]; subst.
    destruct (pms_is_lang_noslash _ S2) as [L2 Np2].
    assert (NB : noslash ((p1 ++ DOT :: p2) ++ DOT :: [c])).
    { unfold noslash in *. repeat (first [rewrite forallb_app | progress cbn]). rewrite L1, L2, Cs. reflexivity. }
    assert (AR : forallb is_dot (p1 ++ DOT :: p2) = false).
    { rewrite forallb_app, A1. reflexivity. }
    replace (p1 ++ DOT :: p2 ++ DOT :: [c]) with ((p1 ++ DOT :: p2) ++ DOT :: [c]) in * by (rewrite <- app_assoc; reflexivity).
    unfold doman_dest. rewrite (basename_noslash _ NB).
    rewrite (splitext_root_sec _ [c] NB) by (assumption || (unfold nodot; cbn; now rewrite Cd)).
    cbn [snd]. rewrite (section_not_archive e g c Hg Hc). cbn [tl].
    assert (LM : lang_match ((p1 ++ DOT :: p2) ++ DOT :: [c]) = Some (p1, p2, [c])).
    { unfold lang_match. rewrite ES. cbn [rev app join_on is_nil negb forallb]. rewrite Cw.
      change (is_lang p2) with (pms_is_lang p2). rewrite S2. destruct p1; [congruence|reflexivity]. }
    rewrite LM, Go, Gd. fold n.
    assert (Nm : noslash (lit "man" ++ [c])) by (unfold noslash; cbn; now rewrite Cs).
    destruct (if pms_doman_i18n_wins n then i18n else None) as [l|].
    + destruct (is_nil l) eqn:El.
      * destruct l; [|discriminate]. injection H as <- <-.
        change (join2 [] (lit "man" ++ [c])) with (lit "man" ++ [c]).
        rewrite (basename_noslash _ Nm), (valid_mandir_section c Hc). reflexivity.
      * destruct (simple_stem l) eqn:Sl; [|discriminate]. injection H as <- <-.
        destruct (simple_stem_facts _ Sl) as (Nl & _ & Ll & _).
        destruct (basename_dir_man l (lit "man" ++ [c]) Nm Nl Ll) as [-> ->].
        rewrite (valid_mandir_section c Hc). reflexivity.
    + destruct (pms_doman_lang n).
      * injection H as <- <-.
        destruct (basename_dir_man p2 (lit "man" ++ [c]) Nm Np2 L2) as [-> ->].
        rewrite (valid_mandir_section c Hc). reflexivity.
      * injection H as <- <-. rewrite (basename_noslash _ Nm), (valid_mandir_section c Hc). reflexivity.
Qed.

(* ------------------------------------------------------------------ recursive installs (doins -r, dodoc -r) *)
Lemma goodb_plain cs : Forall goodb cs -> Forall plain cs.
Proof. intro H. eapply Forall_impl; [|exact H]. now intros a [P _]. Qed.
Lemma goodb_noslash cs : Forall goodb cs -> Forall noslash cs.
Proof. intro H. eapply Forall_impl; [|exact H]. now intros a [_ N]. Qed.
Lemma goodb_ne cs : Forall goodb cs -> Forall (fun c => c <> [] /\ noslash c) cs.
Proof. intro H. eapply Forall_impl; [|exact H]. intros a [(P & _) N]. now split. Qed.

Lemma forallb_good cs : forallb good_name cs = true -> Forall goodb cs.
Proof. rewrite forallb_forall, Forall_forall. intros H x Hx. apply good_name_goodb, H, Hx. Qed.

Lemma step_plain_rel stk c : plain c -> norm_step false stk c = c :: stk.
Proof.
  intros (H1 & H2 & H3). unfold norm_step. destruct c; [congruence|]. cbn [is_nil orb].
  rewrite (str_eqb_neq _ _ H2), (str_eqb_neq _ _ H3). reflexivity.
Qed.
Lemma fold_plain_rel cs : forall stk, Forall plain cs -> fold_left (norm_step false) cs stk = rev cs ++ stk.
Proof.
  induction cs as [|c r IH]; intros stk H; [reflexivity|]. inversion H; subst. cbn [fold_left].
  rewrite step_plain_rel by assumption. rewrite IH by assumption. cbn [rev]. now rewrite <- app_assoc.
Qed.

Lemma join_sl_head c r : c <> [] -> noslash c -> exists x t, join_sl (c :: r) = x :: t /\ is_sl x = false.
Proof.
  intros Hc N. destruct c as [|x c']; [congruence|]. unfold noslash in N. cbn in N. apply andb_true_iff in N as [N _].
  apply negb_true_iff in N. destruct r; [exists x, c'|exists x, (c' ++ SL :: join_sl (l :: r))]; split; (reflexivity || assumption).
Qed.

Lemma isabs_join_sl_good c r : c <> [] -> noslash c -> isabs (join_sl (c :: r)) = false.
Proof.
  intros Hc N. destruct (join_sl_head c r Hc N) as (x & t & E & Ex).
  transitivity (isabs (x :: t)); [f_equal; exact E|exact Ex].
Qed.

(* a relative path made of ordinary components is its own normpath *)
Lemma normpath_good cs : cs <> [] -> Forall goodb cs -> normpath (join_sl cs) = join_sl cs.
Proof.
  intros Hn G. destruct cs as [|c r]; [congruence|]. inversion G as [|? ? [(Pc & _) Nc] Gr]; subst.
  destruct (join_sl_head c r Pc Nc) as (x & t & E & Ex).
  remember (join_sl (c :: r)) as p eqn:Ep. assert (E' : p = x :: t) by (rewrite Ep; exact E). clear E. rename E' into E. rewrite E at 1.
  unfold normpath. cbn [lead_slashes]. rewrite Ex. cbn [Nat.eqb negb repeat app].
  unfold norm_comps. rewrite <- E, Ep. rewrite split_join by (apply goodb_noslash, G || discriminate).
  rewrite fold_plain_rel by (apply goodb_plain, G). rewrite app_nil_r, rev_involutive.
  rewrite <- Ep, E. reflexivity.
Qed.

Lemma join2_good_tail a b : a <> [] -> noslash a -> isabs b = false -> join2 a b = a ++ SL :: b.
Proof.
  intros Ha Na Hb. unfold join2. rewrite Hb. destruct (last_noslash a Ha Na) as (x & l & E & Ex). now rewrite E, Ex.
Qed.

Lemma dest_dir_string base rel : goodb base -> Forall goodb rel ->
  normpath (join2 base (rel_string rel)) = join_sl (base :: rel).
Proof.
  intros [(Pb & Pb2 & Pb3) Nb] G. destruct rel as [|r1 rel'].
  - cbn [rel_string]. rewrite join2_good_tail by (assumption || reflexivity).
    assert (Eb : exists x t, base = x :: t /\ is_sl x = false).
    { destruct (join_sl_head base [] Pb Nb) as (x & t & E & Ex). now exists x, t. }
    destruct Eb as (x & t & -> & Ex).
    unfold normpath. cbn [app lead_slashes]. rewrite Ex. cbn [Nat.eqb negb repeat app].
    unfold norm_comps. change ((x :: t) ++ SL :: dot) with ((x :: t) ++ SL :: dot).
    change (x :: t ++ SL :: dot) with ((x :: t) ++ SL :: dot).
    rewrite split_app, (split_noslash_single _ Nb). change (split_sl dot) with [dot]. cbn [app fold_left].
    rewrite (step_plain_rel [] (x :: t)) by (exact (conj Pb (conj Pb2 Pb3))).
    unfold norm_step. cbn [is_nil dot orb str_eqb N.eqb Pos.eqb andb rev app join_sl]. reflexivity.
  - cbn [rel_string]. inversion G as [|? ? [(P1 & _) N1] _]; subst.
    rewrite join2_good_tail by (assumption || now apply isabs_join_sl_good).
    change (base ++ SL :: join_sl (r1 :: rel')) with (join_sl (base :: r1 :: rel')).
    apply normpath_good; [discriminate|]. constructor; [repeat split; assumption|exact G].
Qed.

Lemma join_sl_snoc cs n : cs <> [] -> join_sl (cs ++ [n]) = join_sl cs ++ SL :: n.
Proof.
  induction cs as [|c r IH]; intro H; [congruence|]. destruct r as [|c2 r'].
  - reflexivity.
  - change ((c :: c2 :: r') ++ [n]) with (c :: (c2 :: r') ++ [n]).
    change (join_sl (c :: (c2 :: r') ++ [n])) with (c ++ SL :: join_sl ((c2 :: r') ++ [n])).
    rewrite IH by discriminate. change (join_sl (c :: c2 :: r')) with (c ++ SL :: join_sl (c2 :: r')).
    now rewrite <- app_assoc.
Qed.

Lemma join_sl_last_noslash cs : cs <> [] -> Forall goodb cs -> exists x l, rev (join_sl cs) = x :: l /\ is_sl x = false.
Proof.
  intros Hn G. destruct (exists_last Hn) as (ini & lst & ->).
  apply Forall_app in G as [_ Gl]. inversion Gl as [|? ? [(Pl & _) Nl] _]; subst.
  destruct (last_noslash lst Pl Nl) as (x & l & E & Ex).
  destruct ini as [|i0 ini'].
  - cbn. now exists x, l.
  - rewrite join_sl_snoc by discriminate. rewrite rev_app_distr. cbn [rev]. rewrite <- app_assoc, E.
    cbn [app]. eexists x, _. split; [reflexivity|exact Ex].
Qed.

Lemma join2_snoc cs n : cs <> [] -> Forall goodb cs -> goodb n -> join2 (join_sl cs) n = join_sl (cs ++ [n]).
Proof.
  intros Hn G Gn. unfold join2. rewrite (isabs_good n Gn).
  destruct (join_sl_last_noslash cs Hn G) as (x & l & E & Ex). rewrite E, Ex. now rewrite join_sl_snoc.
Qed.

Lemma key_join_comps a cs : cs <> [] -> Forall goodb cs -> key (join2 a (join_sl cs)) = key a ++ cs.
Proof.
  intros Hn G. destruct cs as [|c r]; [congruence|]. inversion G as [|? ? [(Pc & _) Nc] _]; subst.
  assert (A : isabs (join_sl (c :: r)) = false) by now apply isabs_join_sl_good.
  rewrite !key_rel. unfold rel_resolve. destruct a as [|y a].
  - unfold join2. rewrite A. cbn [rev]. rewrite split_join by (apply goodb_noslash, G || discriminate).
    rewrite run_plain by (apply goodb_plain, G). rewrite app_nil_r, rev_involutive. reflexivity.
  - rewrite run_split_join2 by (discriminate || assumption).
    rewrite split_join by (apply goodb_noslash, G || discriminate).
    rewrite run_plain by (apply goodb_plain, G). rewrite rev_app_distr, rev_involutive. reflexivity.
Qed.

Lemma lstrip_join_sl cs : cs <> [] -> Forall goodb cs -> lstrip_sl (join_sl cs) = join_sl cs.
Proof.
  intros Hn G. destruct cs as [|c r]; [congruence|]. inversion G as [|? ? [(Pc & _) Nc] _]; subst.
  destruct (join_sl_head c r Pc Nc) as (x & t & E & Ex).
  transitivity (lstrip_sl (x :: t)); [f_equal; exact E|]. unfold lstrip_sl. cbn. rewrite Ex. symmetry. exact E.
Qed.

Lemma key_under_comps dest cs : cs <> [] -> Forall goodb cs -> key (under dest (join_sl cs)) = comps dest ++ cs.
Proof.
  intros Hn G. unfold under, edjoin. rewrite lstrip_join_sl, key_join_comps by assumption. now rewrite key_lstrip.
Qed.

Lemma opt_all_map_entries {A} (spec : A -> option (list str * pnode)) (act : A -> action) l :
  (forall a x, spec a = Some x -> action_entry (act a) = Some x) ->
  forall xs, opt_all (map spec l) = Some xs -> map action_entry (map act l) = map Some xs.
Proof.
  intro H. induction l as [|a r IH]; intros xs E; cbn in E.
  - injection E as <-. reflexivity.
  - destruct (spec a) as [x|] eqn:Ea; [|discriminate]. destruct (opt_all (map spec r)) as [ys|]; [|discriminate].
    injection E as <-. cbn [map]. rewrite (H a x Ea), (IH ys eq_refl). reflexivity.
Qed.

Lemma lstrip_nonabs x : isabs x = false -> lstrip_sl x = x.
Proof. destruct x as [|c x]; [reflexivity|]. cbn. intro H. unfold lstrip_sl. cbn. now rewrite H. Qed.

(* the key of a relative string joined below <dest>, from the way its components resolve *)
Lemma key_under_rel dest x cs : isabs x = false -> (forall S, run S (split_sl x) = rev cs ++ S) ->
  key (under dest x) = comps dest ++ cs.
Proof.
  intros A R. unfold under, edjoin. rewrite (lstrip_nonabs x A).
  change (comps dest) with (key dest). rewrite <- (key_lstrip dest).
  change (rel_resolve (join2 (lstrip_sl dest) x) = rel_resolve (lstrip_sl dest) ++ cs). unfold rel_resolve.
  destruct (lstrip_sl dest) as [|y a] eqn:E.
  - unfold join2. rewrite A. cbn [rev]. rewrite R, app_nil_r, rev_involutive. reflexivity.
  - rewrite run_split_join2 by (discriminate || assumption). rewrite R, rev_app_distr, rev_involutive. reflexivity.
Qed.

(* one os.walk entry, given where the model's directory string lands *)
Lemma tree_one_entries_gen sl c mode ddstr ddl w l :
  c_insmode c = Some mode ->
  key (under (c_dest c) ddstr) = comps (c_dest c) ++ ddl ->
  (forall n, goodb n -> key (under (c_dest c) (join2 ddstr n)) = (comps (c_dest c) ++ ddl) ++ [n]) ->
  match opt_all (map (tree_dlink sl (comps (c_dest c) ++ ddl)) (w_dlinks w)),
        opt_all (map (tree_file sl (comps (c_dest c) ++ ddl) mode) (w_files w)) with
  | Some ls, Some fs => Some ((comps (c_dest c) ++ ddl, PDir (c_dirmode c)) :: ls ++ fs)
  | _, _ => None
  end = Some l ->
  map action_entry
    (AMkdirs (under (c_dest c) ddstr) (c_dirmode c)
     :: map (fun nt => ASymlinkNew (snd nt) (under (c_dest c) (join2 ddstr (fst nt)))) (w_dlinks w)
     ++ map (fun nf => AInstall (snd nf) (under (c_dest c) (join2 ddstr (fst nf))) (c_insmode c)) (w_files w))
  = map Some l.
Proof.
  intros Hm K0 Kn H.
  destruct (opt_all (map (tree_dlink sl (comps (c_dest c) ++ ddl)) (w_dlinks w))) as [ls|] eqn:E1; [|discriminate].
  destruct (opt_all (map (tree_file sl (comps (c_dest c) ++ ddl) mode) (w_files w))) as [fs|] eqn:E2; [|discriminate].
  injection H as <-. cbn [map action_entry]. rewrite map_app, K0. f_equal. rewrite map_app. f_equal.
  - apply (opt_all_map_entries (tree_dlink sl (comps (c_dest c) ++ ddl))); [|exact E1].
    intros [n t] x Hx. unfold tree_dlink in Hx. cbn [fst snd] in *.
    destruct (good_name n) eqn:Gn; [|discriminate]. destruct sl; [|discriminate]. injection Hx as <-.
    apply good_name_goodb in Gn. cbn [action_entry]. now rewrite Kn.
  - apply (opt_all_map_entries (tree_file sl (comps (c_dest c) ++ ddl) mode)); [|exact E2].
    intros [n f] x Hx. unfold tree_file in Hx. cbn [fst snd] in *.
    destruct (good_name n) eqn:Gn; [|discriminate]. cbn [negb] in Hx. apply good_name_goodb in Gn.
    destruct f as [cid|t ok].
    + destruct (negb sl && false); [discriminate|]. cbn in Hx. injection Hx as <-. rewrite Hm. cbn [action_entry]. now rewrite Kn.
    + destruct sl; cbn in Hx; [|discriminate]. destruct ok; injection Hx as <-; cbn [action_entry]; now rewrite Kn.
Qed.

(* a named directory argument: everything lands below <dest>/<base> *)
Lemma tree_one_entries sl c mode base w l :
  goodb base -> c_insmode c = Some mode ->
  tree_one sl (comps (c_dest c) ++ [base]) (c_dirmode c) mode w = Some l ->
  let dd := normpath (join2 base (rel_string (w_rel w))) in
  map action_entry
    (AMkdirs (under (c_dest c) dd) (c_dirmode c)
     :: map (fun nt => ASymlinkNew (snd nt) (under (c_dest c) (join2 dd (fst nt)))) (w_dlinks w)
     ++ map (fun nf => AInstall (snd nf) (under (c_dest c) (join2 dd (fst nf))) (c_insmode c)) (w_files w))
  = map Some l.
Proof.
  intros Gb Hm H dd. unfold tree_one in H.
  destruct (forallb good_name (w_rel w)) eqn:Gr; [|discriminate]. cbn [negb] in H. apply forallb_good in Gr.
  assert (Gall : Forall goodb (base :: w_rel w)) by (constructor; assumption).
  assert (Edd : dd = join_sl (base :: w_rel w)) by (apply dest_dir_string; assumption).
  rewrite <- app_assoc in H. cbn [app] in H.
  apply (tree_one_entries_gen sl c mode dd (base :: w_rel w) w l Hm); [| |exact H]; rewrite Edd.
  - apply key_under_comps; [discriminate|assumption].
  - intros n Gn. rewrite join2_snoc, key_under_comps by (assumption || discriminate || (apply Forall_app; split; [assumption|now constructor])).
    now rewrite <- app_assoc.
Qed.

(* a directory argument spelled with a final "." component: the contents land in <dest> itself *)
Lemma dot_dir_string rel : Forall goodb rel ->
  normpath (join2 dot (rel_string rel)) = match rel with [] => dot | _ => join_sl rel end.
Proof.
  intro G. destruct rel as [|r1 rel']; [reflexivity|]. cbn [rel_string].
  inversion G as [|? ? [(P1 & _) N1] _]; subst.
  rewrite join2_good_tail by (discriminate || reflexivity || now apply isabs_join_sl_good).
  destruct (join_sl_head r1 rel' P1 N1) as (x & t & E & Ex).
  unfold normpath. cbn [dot app lead_slashes is_sl N.eqb Pos.eqb Nat.eqb negb repeat].
  unfold norm_comps. change (46%N :: SL :: join_sl (r1 :: rel')) with (dot ++ SL :: join_sl (r1 :: rel')).
  rewrite split_app, (split_join (r1 :: rel')) by (apply goodb_noslash, G || discriminate).
  change (split_sl dot) with [dot]. cbn [app].
  change (fold_left (norm_step false) (dot :: r1 :: rel') []) with (fold_left (norm_step false) (r1 :: rel') (norm_step false [] dot)).
  change (norm_step false [] dot) with (@nil str).
  rewrite fold_plain_rel by (apply goodb_plain, G). rewrite app_nil_r, rev_involutive.
  cbn [repeat app]. destruct (join_sl (r1 :: rel')) as [|j0 jr] eqn:EE; [exfalso|reflexivity].
  assert (X : x :: t = []) by (transitivity (join_sl (r1 :: rel')); [symmetry; exact E|exact EE]). discriminate.
Qed.

Lemma run_dot_name S n : goodb n -> run S (split_sl (dot ++ SL :: n)) = rev [n] ++ S.
Proof.
  intros [P N]. rewrite split_app, (split_noslash_single n N). change (split_sl dot) with [dot].
  cbn [app]. rewrite !run_cons, run_nil. change (norm_step true S dot) with S. now rewrite step_plain.
Qed.

Lemma tree_one_entries_dot sl c mode w l :
  c_insmode c = Some mode ->
  tree_one sl (comps (c_dest c)) (c_dirmode c) mode w = Some l ->
  let dd := normpath (join2 dot (rel_string (w_rel w))) in
  map action_entry
    (AMkdirs (under (c_dest c) dd) (c_dirmode c)
     :: map (fun nt => ASymlinkNew (snd nt) (under (c_dest c) (join2 dd (fst nt)))) (w_dlinks w)
     ++ map (fun nf => AInstall (snd nf) (under (c_dest c) (join2 dd (fst nf))) (c_insmode c)) (w_files w))
  = map Some l.
Proof.
  intros Hm H dd. unfold tree_one in H.
  destruct (forallb good_name (w_rel w)) eqn:Gr; [|discriminate]. cbn [negb] in H. apply forallb_good in Gr.
  assert (Edd : dd = match w_rel w with [] => dot | _ => join_sl (w_rel w) end) by (apply dot_dir_string; assumption).
  apply (tree_one_entries_gen sl c mode dd (w_rel w) w l Hm); [| |exact H]; rewrite Edd; destruct (w_rel w) as [|r1 rel'] eqn:Er.
  - apply key_under_rel; [reflexivity|]. intro S. reflexivity.
  - apply key_under_comps; [discriminate|assumption].
  - intros n Gn. rewrite app_nil_r. rewrite join2_good_tail by (discriminate || reflexivity || now apply isabs_good).
    apply key_under_rel; [reflexivity|]. intro S. now apply run_dot_name.
  - intros n Gn. rewrite join2_snoc, key_under_comps by (assumption || discriminate || (apply Forall_app; split; [assumption|now constructor])).
    now rewrite app_assoc.
Qed.

(* a whole directory argument: induction over the os.walk listing of the source tree *)
Lemma from_dir_entries sl c mode d walk l :
  c_insmode c = Some mode ->
  tree_entries sl (comps (c_dest c)) (c_dirmode c) mode d walk = Some l ->
  map action_entry (from_dir c d walk) = map Some l.
Proof.
  intros Hm H. unfold tree_entries in H. unfold from_dir.
  destruct (str_eqb (basename (rstrip_sl d)) dot) eqn:Ed.
  - apply str_eqb_eq in Ed. rewrite Ed. revert l H.
    induction walk as [|w r IH]; intros l H; cbn [tree_walk] in H.
    + injection H as <-. reflexivity.
    + destruct (tree_one sl (comps (c_dest c)) (c_dirmode c) mode w) as [a|] eqn:E1; [|discriminate].
      destruct (tree_walk sl (comps (c_dest c)) (c_dirmode c) mode r) as [b|] eqn:E2; [|discriminate].
      injection H as <-. cbn [map concat]. rewrite !map_app, (IH b eq_refl). f_equal.
      exact (tree_one_entries_dot sl c mode w a Hm E1).
  - destruct (good_name (basename (rstrip_sl d))) eqn:Gb; [|discriminate]. apply good_name_goodb in Gb. revert l H.
    induction walk as [|w r IH]; intros l H; cbn [tree_walk] in H.
    + injection H as <-. reflexivity.
    + destruct (tree_one sl (comps (c_dest c) ++ [basename (rstrip_sl d)]) (c_dirmode c) mode w) as [a|] eqn:E1; [|discriminate].
      destruct (tree_walk sl (comps (c_dest c) ++ [basename (rstrip_sl d)]) (c_dirmode c) mode r) as [b|] eqn:E2; [|discriminate].
      injection H as <-. cbn [map concat]. rewrite !map_app, (IH b eq_refl). f_equal.
      exact (tree_one_entries sl c mode _ w a Gb Hm E1).
Qed.

(* the rule on the spelling of a directory argument *)
Theorem recursive_name_rule_proof : forall sl dest dm m d w,
  (basename (rstrip_sl d) = dot -> tree_entries sl dest dm m d w = tree_walk sl dest dm m w)
  /\ (good_name (basename (rstrip_sl d)) = true ->
      tree_entries sl dest dm m d w = tree_walk sl (dest ++ [basename (rstrip_sl d)]) dm m w).
Proof.
  intros. unfold tree_entries. split.
  - intros ->. reflexivity.
  - intro G. rewrite G. destruct (str_eqb (basename (rstrip_sl d)) dot) eqn:E; [|reflexivity].
    apply str_eqb_eq in E. rewrite E in G. discriminate.
Qed.

Example spelling_examples :
  basename (rstrip_sl (lit "dir/.")) = dot /\ basename (rstrip_sl (lit "dir/sub/.")) = dot
  /\ basename (rstrip_sl (lit "./dir/./")) = dot /\ basename (rstrip_sl (lit ".")) = dot
  /\ basename (rstrip_sl (lit "dir//")) = lit "dir" /\ basename (rstrip_sl (lit "./dir/")) = lit "dir"
  /\ basename (rstrip_sl (lit "a/dir")) = lit "dir".
Proof. repeat split. Qed.

(* "doins -r hd/." puts hd's contents directly into <dest>; "doins -r hd" below <dest>/hd *)
Example dot_spelling_example :
  let c := {| c_dest := lit "/usr/share/foo"; c_insmode := Some 420%N; c_dirmode := Some 493%N |} in
  let walk := [ {| w_rel := []; w_dlinks := []; w_files := [(lit "k.html", FReg 7%N)] |};
                {| w_rel := [lit "sub"]; w_dlinks := []; w_files := [(lit "z.txt", FReg 8%N)] |} ] in
  map action_entry (from_dir c (lit "hd/.") walk)
  = [Some ([lit "usr"; lit "share"; lit "foo"], PDir (Some 493%N));
     Some ([lit "usr"; lit "share"; lit "foo"; lit "k.html"], PFile 420%N 7%N);
     Some ([lit "usr"; lit "share"; lit "foo"; lit "sub"], PDir (Some 493%N));
     Some ([lit "usr"; lit "share"; lit "foo"; lit "sub"; lit "z.txt"], PFile 420%N 8%N)]
  /\ nth_error (map action_entry (from_dir c (lit "hd") walk)) 1
     = Some (Some ([lit "usr"; lit "share"; lit "foo"; lit "hd"; lit "k.html"], PFile 420%N 7%N)).
Proof. split; vm_compute; reflexivity. Qed.

Lemma from_dirs_entries sl c mode pos l :
  c_insmode c = Some mode ->
  dirs_entries sl (comps (c_dest c)) (c_dirmode c) mode pos = Some l ->
  map action_entry (from_dirs c pos) = map Some l.
Proof.
  intros Hm. unfold from_dirs. revert l. induction pos as [|a r IH]; intros l H; cbn [dirs_entries] in H.
  - injection H as <-. reflexivity.
  - destruct (snd a) as [f|lnk w|] eqn:Ea.
    + destruct (dirs_entries sl (comps (c_dest c)) (c_dirmode c) mode r) as [y|]; [|discriminate].
      injection H as <-. cbn [map concat]. rewrite Ea. cbn [app]. apply IH. reflexivity.
    + destruct (tree_entries sl (comps (c_dest c)) (c_dirmode c) mode (fst a) w) as [x|] eqn:E1; [|discriminate].
      destruct (dirs_entries sl (comps (c_dest c)) (c_dirmode c) mode r) as [y|]; [|discriminate].
      injection H as <-. cbn [map concat]. rewrite Ea, !map_app, (IH y eq_refl). f_equal.
      eapply from_dir_entries; eassumption.
    + destruct (dirs_entries sl (comps (c_dest c)) (c_dirmode c) mode r) as [y|]; [|discriminate].
      injection H as <-. cbn [map concat]. rewrite Ea. cbn [app]. apply IH. reflexivity.
Qed.

Lemma base_action_entry dest : action_entry (base_action dest) = Some (comps dest, PDir None).
Proof. unfold base_action. cbn [action_entry]. now rewrite key_lstrip. Qed.

(* doins -r and dodoc -r: the image below <dest> is exactly the source trees of the directory
   arguments (directories, symlinks kept as links, files with the requested mode) followed by
   the file arguments *)
Theorem recursive_placement_proof : forall sl g c mode pos l,
  c_insmode c = Some mode ->
  recursive_entries sl (comps (c_dest c)) (c_dirmode c) mode pos = Some l ->
  let acts := base_action (c_dest c) :: from_dirs c (dirs_of pos) ++ install_basenames c (files_of pos) in
  map action_entry acts = Some (comps (c_dest c), PDir None) :: map Some l
  /\ plan_doins c true pos = inl acts
  /\ (forall r, dirs_of pos <> [] -> r && g_dodoc_r g = true -> plan_dodoc g c r pos = inl acts).
Proof.
  intros sl g c mode pos l Hm H acts. unfold recursive_entries in H.
  destruct (dirs_entries sl (comps (c_dest c)) (c_dirmode c) mode (dirs_of pos)) as [ds|] eqn:E1; [|discriminate].
  destruct (flat_files (comps (c_dest c)) mode (files_of pos)) as [fl|] eqn:E2; [|discriminate].
  injection H as <-. split; [|split].
  - unfold acts. cbn [map]. rewrite base_action_entry, !map_app. f_equal. f_equal.
    + eapply from_dirs_entries; eassumption.
    + eapply base_placement_proof; eassumption.
  - reflexivity.
  - intros r Hd Hr. unfold plan_dodoc. destruct (dirs_of pos) eqn:Ed; [congruence|]. rewrite Hr. reflexivity.
Qed.

Example recursive_example : exists l,
  tree_entries true [lit "usr"] (Some 493%N) 420%N (lit "d/")
    [ {| w_rel := []; w_dlinks := [(lit "dl", lit "sub")];
         w_files := [(lit "e.txt", FReg 7%N); (lit "lnk", FLink (lit "/x") false)] |};
      {| w_rel := [lit "sub"]; w_dlinks := []; w_files := [(lit "f.png", FReg 8%N)] |} ] = Some l
  /\ length l = 6%nat
  /\ In ([lit "usr"; lit "d"; lit "sub"; lit "f.png"], PFile 420%N 8%N) l
  /\ In ([lit "usr"; lit "d"; lit "lnk"], PLink (lit "/x")) l.
Proof. eexists. split; [vm_compute; reflexivity|]. split; [reflexivity|]. split; cbn; intuition. Qed.

(* ------------------------------------------------------------------ domo *)
Lemma basename_is_noslash x : noslash (basename x).
Proof.
  unfold basename, noslash. rewrite forallb_rev. induction (rev x) as [|c r IH]; [reflexivity|].
  cbn [takewhile]. destruct (negb (is_sl c)) eqn:E; [|reflexivity]. cbn. now rewrite E.
Qed.

Lemma domo_lang_splitext b lang : noslash b -> pms_domo_lang b = Some lang ->
  fst (splitext b) = lang /\ goodb lang.
Proof.
  intros Nb H. unfold pms_domo_lang, dot_parts in H.
  pose proof (join_split_on 46 b) as J. pose proof (split_on_nosep 46 b) as NS.
  destruct (split_on 46 b) as [|p1 [|p2 [|p3 rest]]]; try discriminate.
  destruct (simple_stem p1) eqn:S1; [|discriminate]. injection H as <-.
  destruct (simple_stem_facts _ S1) as (N1 & D1 & L1 & A1).
  cbn [join_on] in J. change (p1 ++ DOT :: p2 = b) in J. subst b.
  inversion NS as [|? ? _ NS2]; subst. inversion NS2 as [|? ? D2 _]; subst.
  rewrite (splitext_root_sec p1 p2 Nb) by assumption. split; [reflexivity|].
  split; [|exact L1]. repeat split; [assumption| |]; intro Q; subst; cbn in *; discriminate.
Qed.

Theorem domo_placement_proof : forall c pn x f lang mode,
  c_insmode c = Some mode -> goodb (pn ++ lit ".mo") ->
  pms_domo_lang (basename x) = Some lang ->
  map action_entry (domo_plan c pn [(x, SFile f)])
  = [Some (comps (c_dest c) ++ [lang; lit "LC_MESSAGES"], PDir (c_dirmode c));
     action_entry (AInstall f (under (c_dest c) (join_sl [lang; lit "LC_MESSAGES"; pn ++ lit ".mo"])) (Some mode))]
  /\ key (under (c_dest c) (join_sl [lang; lit "LC_MESSAGES"; pn ++ lit ".mo"]))
     = comps (c_dest c) ++ [lang; lit "LC_MESSAGES"; pn ++ lit ".mo"].
Proof.
  intros c pn x f lang mode Hm Gn H.
  destruct (domo_lang_splitext _ lang (basename_is_noslash x) H) as [E Gl].
  assert (GL : goodb (lit "LC_MESSAGES")) by (split; [repeat split; discriminate|reflexivity]).
  assert (G2 : Forall goodb [lang; lit "LC_MESSAGES"]) by (constructor; [exact Gl|constructor; [exact GL|constructor]]).
  assert (G3 : Forall goodb [lang; lit "LC_MESSAGES"; pn ++ lit ".mo"]) by (constructor; [exact Gl|constructor; [exact GL|constructor; [exact Gn|constructor]]]).
  split; [|apply key_under_comps; [discriminate|exact G3]].
  unfold domo_plan. cbn [map concat fst snd app install_one].
  assert (Eb : fst (splitext (basename (basename x))) = lang).
  { rewrite (basename_noslash _ (basename_is_noslash x)). exact E. }
  assert (Ed : join2 (fst (splitext (basename x))) (lit "LC_MESSAGES") = join_sl [lang; lit "LC_MESSAGES"]).
  { rewrite E. apply (join2_snoc [lang]); [discriminate|constructor; [exact Gl|constructor]|exact GL]. }
  rewrite Ed. cbn [action_entry map]. rewrite key_under_comps by (discriminate || assumption).
  rewrite (join2_snoc [lang; lit "LC_MESSAGES"]) by (discriminate || assumption). rewrite Hm. reflexivity.
Qed.

(* the domo wrapper: below the `into` directory while DESTTREE exists (EAPI < 7), /usr/share/locale after *)
Theorem domo_dest_is_pms_proof :
  (forall g v, dest_of g "domo" v = Some (if g_has_desttree g then v_desttree v ++ lit "/share/locale"
                                          else lit "/usr/share/locale"))
  /\ forallb (fun e => match gates_of e with
                       | Some g => Bool.eqb (negb (g_has_desttree g)) (pms_domo_ignores_into (decimal e))
                       | None => false end) numbered_eapis = true.
Proof.
  split; [|vm_compute; reflexivity].
  intros g v. unfold dest_of. destruct (g_has_desttree g) eqn:E; cbv -[app g_has_desttree]; rewrite E; rewrite ?app_nil_r; reflexivity.
Qed.


(* ------------------------------------------------------------------ dohtml, non-recursive *)
Lemma split_on_single s b p : split_on s b = [p] -> p = b /\ nosep s b.
Proof.
  intro H. pose proof (join_split_on s b) as J. pose proof (split_on_nosep s b) as NS. rewrite H in *.
  cbn in J. subst p. split; [reflexivity|now inversion NS].
Qed.

Lemma html_allowed_is_pms o x v : pms_html_ok o (basename x) = Some v -> html_allowed o x = v.
Proof.
  unfold pms_html_ok, html_allowed, dot_parts. intro H.
  pose proof (basename_is_noslash x) as Nb.
  pose proof (join_split_on 46 (basename x)) as J. pose proof (split_on_nosep 46 (basename x)) as NS.
  destruct (split_on 46 (basename x)) as [|p1 [|p2 [|p3 rest]]] eqn:ES; try discriminate.
  - injection H as <-. destruct (split_on_single _ _ _ ES) as [_ D].
    rewrite (splitext_nodot _ Nb D). reflexivity.
  - destruct (simple_stem p1) eqn:S1; [|discriminate]. injection H as <-.
    destruct (simple_stem_facts _ S1) as (N1 & D1 & L1 & A1).
    cbn [join_on] in J. change (p1 ++ DOT :: p2 = basename x) in J.
    inversion NS as [|? ? _ NS2]; subst. inversion NS2 as [|? ? D2 _]; subst.
    rewrite <- J in *. rewrite (splitext_root_sec p1 p2 Nb) by assumption. reflexivity.
Qed.

Lemma run_lstrip S p : run S (split_sl (lstrip_sl p)) = run S (split_sl p).
Proof.
  unfold lstrip_sl. induction p as [|c p IH]; [reflexivity|]. cbn [dropwhile]. destruct (is_sl c) eqn:E; [|reflexivity].
  rewrite IH. cbn [split_sl]. rewrite E. now rewrite run_cons.
Qed.

Lemma isabs_lstrip p : isabs (lstrip_sl p) = false.
Proof.
  unfold lstrip_sl. induction p as [|c p IH]; [reflexivity|]. cbn [dropwhile]. destruct (is_sl c) eqn:E; [exact IH|].
  cbn. exact E.
Qed.

Lemma comps_join_lstrip_ne dest p : dest <> [] -> comps (join2 dest (lstrip_sl p)) = comps (dest ++ SL :: p).
Proof.
  intro Hn. change (rel_resolve (join2 dest (lstrip_sl p)) = rel_resolve (dest ++ SL :: p)). unfold rel_resolve.
  rewrite run_split_join2 by (assumption || apply isabs_lstrip). rewrite run_lstrip, split_app, run_app. reflexivity.
Qed.

Lemma comps_join_lstrip dest p : comps (join2 dest (lstrip_sl p)) = comps (dest ++ SL :: p).
Proof.
  destruct dest as [|y d]; [|apply comps_join_lstrip_ne; discriminate].
  change (rel_resolve (join2 [] (lstrip_sl p)) = rel_resolve (SL :: p)). unfold rel_resolve.
  unfold join2. rewrite isabs_lstrip. cbn [rev]. rewrite run_lstrip. reflexivity.
Qed.

(* dohtml without directory arguments: exactly the arguments whose extension is allowed
   (defaults or -a, plus -A) or whose name is listed with -f go to <dest>/<-p prefix>/<basename> *)
Theorem dohtml_placement_proof : forall dest mode dirm o pos l,
  dirs_of pos = [] ->
  (forall a, In a pos -> pms_html_ok o (basename (fst a)) <> None) ->
  flat_files (comps (dest ++ SL :: h_p o)) mode
    (filter (fun a => match pms_html_ok o (basename (fst a)) with Some true => true | _ => false end) pos) = Some l ->
  exists acts, plan_dohtml dest (Some mode) dirm o pos = inl (base_action (join2 dest (lstrip_sl (h_p o))) :: acts)
               /\ map action_entry acts = map Some l.
Proof.
  intros dest mode dirm o pos l Hd Hdef H. unfold plan_dohtml. rewrite Hd.
  eexists. split; [reflexivity|].
  assert (F : filter (fun a => html_allowed o (fst a)) pos
              = filter (fun a => match pms_html_ok o (basename (fst a)) with Some true => true | _ => false end) pos).
  { apply filter_ext_in. intros a Ha. specialize (Hdef a Ha).
    destruct (pms_html_ok o (basename (fst a))) as [v|] eqn:E; [|congruence].
    rewrite (html_allowed_is_pms o (fst a) v E). now destruct v. }
  rewrite F. eapply base_placement_proof; [reflexivity|]. cbn [c_dest]. rewrite comps_join_lstrip. exact H.
Qed.

(* ------------------------------------------------------------------ modes *)
Definition modes_of (g : eapi_row) (h : String.string) (v : shvars) : res (option N * option N) :=
  match wrapper_opts g (lit h) v with Some w => helper_modes (lit h) w | None => inr [] end.
Arguments modes_of g h%string v.

Definition fst_mode (r : res (option N * option N)) : option (option N) :=
  match r with inl (a, _) => Some a | inr _ => None end.

(* the meaning of an option string "-m<octal>": that mode *)
Lemma split_on_nosep_single s b : nosep s b -> split_on s b = [b].
Proof.
  unfold nosep. induction b as [|x b IH]; cbn; intro H; [reflexivity|].
  apply andb_true_iff in H as [H1 H2]. apply negb_true_iff in H1. rewrite H1, (IH H2). reflexivity.
Qed.

Theorem install_mode_dash_m_proof : forall ds m,
  ds <> [] -> nosep 32 ds -> octal ds = Some m -> install_mode (Some (lit "-m" ++ ds)) = Some (Some m).
Proof.
  intros ds m Hn Hs Ho. unfold install_mode, words.
  assert (NS : nosep 32 (lit "-m" ++ ds)) by (unfold nosep in *; cbn; exact Hs).
  rewrite (split_on_nosep_single _ _ NS). cbn [nonempty filter is_nil negb lit app List.length].
  destruct ds as [|d ds']; [congruence|].
  cbn [install_mode_words]. cbv [startswith]. cbn -[octal]. now rewrite Ho.
Qed.

(* PMS 12.3: dobin/dosbin 0755; dolib.so 0755; dolib.a 0644; dodoc doinfo doman dohtml 0644;
   doins / doexe / dolib / dodir / keepdir: what insopts / exeopts / libopts / diropts ask for *)
Theorem modes_are_pms_proof : forall g v,
  (fst_mode (modes_of g "dobin" v) = Some (Some 493%N) /\ fst_mode (modes_of g "dosbin" v) = Some (Some 493%N)
   /\ fst_mode (modes_of g "dolib.so" v) = Some (Some 493%N) /\ fst_mode (modes_of g "dolib.a" v) = Some (Some 420%N)
   /\ fst_mode (modes_of g "dodoc" v) = Some (Some 420%N) /\ fst_mode (modes_of g "doinfo" v) = Some (Some 420%N)
   /\ fst_mode (modes_of g "doman" v) = Some (Some 420%N) /\ fst_mode (modes_of g "dohtml" v) = Some (Some 420%N)
   /\ fst_mode (modes_of g "domo" v) = Some (Some 420%N))
  /\ (forall m1 m2, install_mode (Some (v_insoptions v)) = Some (Some m1) ->
                    install_mode (Some (v_diroptions v)) = Some (Some m2) ->
                    modes_of g "doins" v = inl (Some m1, Some m2))
  /\ (forall m, install_mode (Some (v_exeoptions v)) = Some (Some m) -> modes_of g "doexe" v = inl (Some m, None))
  /\ (forall m, install_mode (Some (v_liboptions v)) = Some (Some m) -> modes_of g "dolib" v = inl (Some m, None))
  /\ (forall m, install_mode (Some (v_diroptions v)) = Some (Some m) ->
        modes_of g "dodir" v = inl (None, Some m) /\ modes_of g "keepdir" v = inl (None, Some m)).
Proof.
  intros g v. split; [|split; [|split; [|split]]].
  - repeat split; try (vm_compute; reflexivity).
    unfold modes_of. destruct (g_has_desttree g) eqn:E; cbv -[g_has_desttree]; rewrite E; reflexivity.
  - intros m1 m2 H1 H2. unfold modes_of. cbv -[install_mode app]. cbv -[install_mode app] in H1, H2. rewrite !app_nil_r. now rewrite H1, H2.
  - intros m H. unfold modes_of. cbv -[install_mode app]. cbv -[install_mode app] in H. rewrite !app_nil_r. rewrite H. reflexivity.
  - intros m H. unfold modes_of. cbv -[install_mode app]. cbv -[install_mode app] in H. rewrite !app_nil_r. rewrite H. reflexivity.
  - intros m H. cbv -[install_mode app] in H. split; unfold modes_of; cbv -[install_mode app]; rewrite !app_nil_r; rewrite H; reflexivity.
Qed.


(* ------------------------------------------------------------------ set-id modes with -o/-g *)
Lemma str_cmp_refl a : str_cmp a a = Eq.
Proof. induction a as [|x a IH]; [reflexivity|]. cbn. now rewrite N.compare_refl. Qed.
Lemma key_cmp_refl k : key_cmp k k = Eq.
Proof. induction k as [|x k IH]; [reflexivity|]. cbn. now rewrite str_cmp_refl. Qed.

Lemma lookup_put_same k n img : lookup k (put k n img) = Some n.
Proof.
  induction img as [|[k' n'] r IH]; cbn [put lookup].
  - now rewrite key_cmp_refl.
  - destruct (key_cmp k k') eqn:E; cbn [lookup]; rewrite ?key_cmp_refl, ?E; (reflexivity || exact IH).
Qed.

(* the file a successful install leaves at its destination has EXACTLY the requested mode, all
   twelve bits: the model applies ownership before the mode (lchown, then chmod), so set-uid /
   set-gid / sticky bits asked for with -m survive a simultaneous -o/-g *)
Theorem installed_mode_is_requested_proof : forall um s cid p m s',
  exec1 um s (AInstall (FReg cid) p (Some m)) = inl s' ->
  lookup (key p) (s_img s') = Some (NFile m cid (s_ino s)).
Proof.
  intros um s cid p m s' H. unfold exec1 in H. cbn [action_path] in H.
  destruct (parent_is_link (key p) (s_img s)); [discriminate|]. cbn [exec1_raw] in H.
  destruct (negb (parent_ok (key p) (s_img s))); [discriminate|].
  destruct (key p) as [|k0 kr] eqn:Ek; [discriminate|].
  destruct (lookup (k0 :: kr) (s_img s)) as [[?|? ? ?|?]|]; try discriminate;
    injection H as <-; cbn [s_img]; apply lookup_put_same.
Qed.

(* -o/--owner/-g/--group never change the mode the option string asks for *)
Theorem owner_options_keep_mode_proof : forall v i ws mode f,
  owner_id v = Some i ->
  install_mode_words (lit "-o" :: v :: ws) mode (S f) = install_mode_words ws mode f
  /\ install_mode_words (lit "-g" :: v :: ws) mode (S f) = install_mode_words ws mode f
  /\ install_mode_words (lit "--owner" :: v :: ws) mode (S f) = install_mode_words ws mode f
  /\ install_mode_words (lit "--group" :: v :: ws) mode (S f) = install_mode_words ws mode f.
Proof. intros v i ws mode f H. repeat split; cbn -[owner_id install_mode_words]; cbn [install_mode_words]; cbv [startswith]; cbn -[owner_id install_mode_words]; now rewrite H. Qed.

Example setid_with_owner_example :
  install_mode (Some (lit "-m4711 -o root -g 0")) = Some (Some 2505%N)                 (* 0o4711 *)
  /\ install_mode (Some (lit "-g 2 -m2755")) = Some (Some 1517%N)                      (* 0o2755 *)
  /\ install_full (lit "--owner=1 -m 6755 -p")
     = Some {| io_mode := 3565%N; io_owner := Some 1%N; io_group := None; io_preserve := true |}.
Proof. repeat split; vm_compute; reflexivity. Qed.

(* ------------------------------------------------------------------ the statements of Prop_C33 *)
Theorem placement_is_pms_files_proof : forall c mode pos l,
  c_insmode c = Some mode ->
  flat_files (comps (c_dest c)) mode pos = Some l ->
  plan_base c pos = inl (base_action (c_dest c) :: install_basenames c pos)
  /\ map action_entry (install_basenames c pos) = map Some l.
Proof. intros. split; [apply plan_base_shape_proof|eapply base_placement_proof; eassumption]. Qed.

Theorem placement_is_pms_keepdir_proof : forall i dest dirm pos acts,
  goodb (keep_name i) -> plan_dirs (Some (keep_name i)) dest dirm pos = inl acts ->
  keep_name i = lit ".keep_" ++ cat i ++ lit "_" ++ pn i ++ lit "-" ++ slot i
  /\ forall a, In a pos ->
       In (AMkdirs (under dest (fst a)) dirm) acts
       /\ exists p, In (ATouch p) acts /\ key p = comps (fst a) ++ [keep_name i].
Proof. intros. split; [apply keepdir_name_proof|eapply keepdir_placement_proof; eassumption]. Qed.

Theorem placement_is_pms_dosym_proof : forall g dirm pre r s t,
  (endswith_sl t = true -> plan_dosym g dirm pre r s t = inr (E "nolinkname"))
  /\ (forall m, lookup (key (lstrip_sl t)) pre = Some (NDir m) -> plan_dosym g dirm pre r s t = inr (E "nolinkname"))
  /\ (forall acts, plan_dosym g dirm pre r s t = inl acts ->
        (r = true -> g_dosym_rel g = true /\ isabs s = true)
        /\ exists c, In (ASymlink c (lstrip_sl t)) acts
                     /\ (r = false -> c = s)
                     /\ (r = true -> resolve (join2 (absdir t) c) = resolve s)).
Proof.
  intros. split; [apply dosym_rejects_trailing_slash_proof|].
  split; [intros; eapply dosym_rejects_image_dir_proof; eassumption|].
  intros acts H. split; [intros ->; eapply dosym_r_gated_proof; eassumption|eapply dosym_link_content_proof; eassumption].
Qed.

Theorem rejections_are_pms_proof :
  (forall g h dirm pre r pos, (length pos < 2)%nat -> plan_link g h dirm pre r pos = inr (E "missing"))
  /\ (forall g c r pos, dirs_of pos <> [] -> r && g_dodoc_r g = false -> plan_dodoc g c r pos = inr (E "isdir"))
  /\ (forall dest insm dirm o pos, dirs_of pos <> [] -> h_r o = false -> plan_dohtml dest insm dirm o pos = inr (E "isdir"))
  /\ (forall keep dest dirm, plan_dirs keep dest dirm [] = inr (E "missing")).
Proof.
  split; [exact link_missing_name_proof|].
  split; [exact dodoc_rejects_dirs_proof|].
  split; [exact dohtml_rejects_dirs_without_r_proof|exact dodir_keepdir_need_args_proof].
Qed.
