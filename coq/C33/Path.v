(* C33/Path.v — POSIX path functions of CPython's posixpath (split on '/', join, dirname,
   basename, splitext, normpath incl. the two-leading-slashes rule, abspath, relpath) as total
   Gallina functions over strings = lists of code points.  No proofs (see PathProofs.v). *)
From Coq Require Import List NArith Bool Arith.
Import ListNotations.
From Verif Require Import Base.Val.

Definition SL : N := 47%N.    (* '/' *)
Definition DOT : N := 46%N.   (* '.' *)
Definition is_sl (c : N) : bool := N.eqb c 47%N.
Definition is_dot (c : N) : bool := N.eqb c 46%N.
Definition dot : str := [46%N].
Definition dotdot : str := [46%N; 46%N].
Definition is_nil {A} (l : list A) : bool := match l with [] => true | _ => false end.

(* s.split('/') *)
Fixpoint split_sl (s : str) : list str :=
  match s with
  | [] => [[]]
  | c :: r =>
      if is_sl c then [] :: split_sl r
      else match split_sl r with h :: t => (c :: h) :: t | [] => [[c]] end
  end.

(* '/'.join(cs) *)
Fixpoint join_sl (cs : list str) : str :=
  match cs with
  | [] => []
  | c :: r => match r with [] => c | _ => c ++ SL :: join_sl r end
  end.

Definition isabs (p : str) : bool := match p with c :: _ => is_sl c | [] => false end.

(* os.path.join(a, b) *)
Definition join2 (a b : str) : str :=
  if isabs b then b
  else match rev a with
       | [] => b
       | c :: _ => if is_sl c then a ++ b else a ++ SL :: b
       end.
(* os.path.join(a, *rest) *)
Definition join_many (a : str) (rest : list str) : str := fold_left join2 rest a.

Fixpoint dropwhile {A} (f : A -> bool) (l : list A) : list A :=
  match l with [] => [] | x :: r => if f x then dropwhile f r else l end.

Definition lstrip_sl (s : str) : str := dropwhile is_sl s.
Definition rstrip_sl (s : str) : str := rev (dropwhile is_sl (rev s)).

(* os.path.dirname: head = p[:rfind('/')+1]; strip trailing slashes unless head is all slashes *)
Definition dirname (p : str) : str :=
  let r := dropwhile (fun c => negb (is_sl c)) (rev p) in      (* reversed head *)
  if forallb is_sl r then rev r else rev (dropwhile is_sl r).

(* os.path.basename: p[rfind('/')+1:] *)
Fixpoint takewhile {A} (f : A -> bool) (l : list A) : list A :=
  match l with [] => [] | x :: r => if f x then x :: takewhile f r else [] end.
Definition basename (p : str) : str := rev (takewhile (fun c => negb (is_sl c)) (rev p)).

(* os.path.splitext on a basename-like string (no '/' handling needed beyond the last component):
   genericpath._splitext: the last dot of the last component, provided some character before it
   in that component is not a dot. *)
Definition splitext (p : str) : str * str :=
  let b := basename p in
  let rb := rev b in
  let ext_r := takewhile (fun c => negb (is_dot c)) rb in      (* reversed text after last dot *)
  let rest_r := dropwhile (fun c => negb (is_dot c)) rb in     (* reversed: "....stem." *)
  match rest_r with
  | [] => (p, [])                                              (* no dot *)
  | _ :: stem_r =>
      if forallb is_dot stem_r then (p, [])                    (* only leading dots before it *)
      else (firstn (length p - (length ext_r + 1)) p, DOT :: rev ext_r)
  end.

(* one iteration of normpath's loop; the stack is kept reversed (head = last pushed) *)
Definition norm_step (absolute : bool) (stk : list str) (c : str) : list str :=
  if is_nil c || str_eqb c dot then stk
  else if negb (str_eqb c dotdot) then c :: stk
  else match stk with
       | [] => if absolute then stk else c :: stk
       | top :: rest => if str_eqb top dotdot then c :: stk else rest
       end.

(* Python's initial_slashes: 0, 1 or 2 *)
Definition lead_slashes (p : str) : nat :=
  match p with
  | a :: r =>
      if is_sl a then
        match r with
        | b :: r2 =>
            if is_sl b then
              match r2 with
              | c :: _ => if is_sl c then 1 else 2
              | [] => 2
              end
            else 1
        | [] => 1
        end
      else 0
  | [] => 0
  end.

Definition norm_comps (absolute : bool) (p : str) : list str :=
  rev (fold_left (norm_step absolute) (split_sl p) []).

Definition normpath (p : str) : str :=
  match p with
  | [] => dot
  | _ =>
      let n := lead_slashes p in
      let r := repeat SL n ++ join_sl (norm_comps (negb (Nat.eqb n 0)) p) in
      match r with [] => dot | _ => r end
  end.

(* lexical resolution of an absolute path to its components from the root (Linux: // = /) *)
Definition resolve (p : str) : list str := norm_comps true p.

Definition abspath (cwd p : str) : str := normpath (join2 cwd p).

Definition nonempty_comps (s : str) : list str := filter (fun c => negb (is_nil c)) (split_sl s).

Fixpoint common_len (a b : list str) : nat :=
  match a, b with
  | x :: a', y :: b' => if str_eqb x y then S (common_len a' b') else 0
  | _, _ => 0
  end.

(* os.path.relpath(path, start) for non-empty path (ValueError otherwise, never reached) *)
Definition relpath (cwd path start : str) : str :=
  let sl := nonempty_comps (abspath cwd start) in
  let pl := nonempty_comps (abspath cwd path) in
  let i := common_len sl pl in
  match repeat dotdot (length sl - i) ++ skipn i pl with
  | [] => dot
  | c :: rest => join_many c rest
  end.

(* ebuild/misc.py get_relative_dosym_target(source, target) *)
Definition absdir (l : str) : str := join2 [SL] (dirname l).
Definition relative_target (cwd t l : str) : str := relpath cwd t (absdir l).
