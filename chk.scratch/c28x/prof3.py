import sys, os, time, subprocess, shutil
from harness.common import Check
from harness import c28
from pkgcore.ebuild import digest
chk = Check("C28")
work = chk.scratch / "c28"; work.mkdir()
rows, metas, bad = c28.stream_update(chk, digest, work)
texts=[m[1]["text"] for m in metas]
prow = c28.stream_parse(chk, digest, work, texts)
print(len(prow))
for name, rows_, ev in (("parse", prow, ["mismatches run_parse cases"]), ("update", rows, ["mismatches run_update cases"])):
    r = chk.coq_eval(name, c28.IMPORTS, "bstr", rows_, ev, shard=1000)
    f = chk.scratch / f"cases_{name}_0.v"
    print(name, len(rows_), f.stat().st_size)
    shutil.copy(f, f"/verif/chk.scratch/c28x/cases_{name}_0.v")
