From Coq Require Import List NArith ZArith Bool.
From Verif Require Import Base.Val C18.Fs C47.Model_C47 C47.Spec_C47.
Import ListNotations.
Definition F (p : path) (d : list N) (m : N) : path * node := (p, File d m 0 0 NOW 0).
Definition D (p : path) (m : N) : path * node := (p, Dir m 0 0 NOW).
Definition L (p : path) (t : list N) : path * node := (p, Sym t 0 0 NOW).
Definition SD (t : tree) : option slot := Some (SDir t).
Definition SF : option slot := Some SFile.
Definition NS : option slot := None.

Definition c : case := (let t0 : tree := [F [[46;101;116;97;103]%N] [34;118;50;34]%N 420%N; D [[109;101;116;97;100;97;116;97]%N] 493%N; F [[116;111;112]%N] [79]%N 384%N] in
let t1 : tree := [F [[46;101;116;97;103]%N] [34;110;51;34]%N 420%N; F [[97;50]%N] [77;114;97]%N 420%N; F [[108;97;121;111;117;116;46;99;111;110;102;48]%N] [77;100]%N 420%N; F [[120;46;101;98;117;105;108;100;49]%N] [77;98;107]%N 420%N] in
let t2 : tree := (@nil (path * node)) in
let t3 : tree := [F [[97;50]%N] [77;114;97]%N 420%N; F [[108;97;121;111;117;116;46;99;111;110;102;48]%N] [77;100]%N 420%N; F [[120;46;101;98;117;105;108;100;49]%N] [77;98;107]%N 420%N] in
mkcase true false (mksrv 200%N false false (Some [34;110;51;34]%N) (@None (str)) [54235%N; 14416%N] true) (t2, false) 0%nat (mkst (SD t0) NS NS (@None (list N)) (@None (list N))) false (mksrv 200%N true false (Some [34;110;51;34]%N) (@None (str)) [1%N] true) (t3, true) 5%N [1%N; 3%N; 4%N; 4%N; 5%N; 6%N; 7%N; 8%N; 16%N; 17%N; 18%N] (mkst (SD t0) NS NS (@None (list N)) (@None (list N))) [(mkcp 0%nat false (mkst (SD t0) NS NS (@None (list N)) (@None (list N))) true 0%N (mkst (SD t1) NS NS (@None (list N)) (@None (list N)))); (mkcp 1%nat false (mkst (SD t0) NS NS (Some (@nil N)) (@None (list N))) false 0%N (mkst (SD t0) NS NS (Some (@nil N)) (@None (list N)))); (mkcp 5%nat false (mkst (SD t0) NS NS (Some [54235%N; 14416%N]) (@None (list N))) false 0%N (mkst (SD t0) NS NS (Some [54235%N; 14416%N]) (@None (list N)))); (mkcp 6%nat false (mkst (SD t0) (SD t2) NS (Some [54235%N; 14416%N]) (@None (list N))) true 0%N (mkst (SD t1) NS NS (@None (list N)) (@None (list N)))); (mkcp 8%nat false (mkst (SD t0) (SD t2) (SD t2) (Some [54235%N; 14416%N]) (@None (list N))) true 0%N (mkst (SD t1) NS NS (@None (list N)) (@None (list N)))); (mkcp 9%nat false (mkst (SD t0) (SD t2) NS (Some [54235%N; 14416%N]) (@None (list N))) false 0%N (mkst (SD t0) (SD t2) NS (Some [54235%N; 14416%N]) (@None (list N))))]).
Eval vm_compute in (run_case c).
Eval vm_compute in (map step_tag (fst (sync (c_fixed c) (c_force c) (c_srv c) (c_tar c) (c_chunk c) (c_s0 c))), point_codes c, final_code c).
