#!/usr/bin/env python3
# Generates /verif/notes/RESULTS.md.  Numbers are read from the files at generation time;
# the descriptive text is hand-written from notes/, manifest.d/, known_findings/ and seeded/.
import json, os, re, subprocess, collections, sys

V = '/verif'
PROPS = ['C%02d' % i for i in range(1, 50)]
warn = []

def J(path):
    try:
        with open(path) as f:
            return json.load(f)
    except Exception as e:
        warn.append('cannot read %s: %s' % (path, e))
        return None

# ---------------------------------------------------------------- hand-written tables
TITLE = {
 'C01': 'Version comparison = PMS algorithm, total preorder',
 'C02': '==, ordering and hash of CPVs and atoms agree',
 'C03': 'Atom syntax per EAPI = PMS grammar; round-trip',
 'C04': 'atom.match = PMS dependency matching',
 'C05': 'Atom intersection symmetric, complete, witnessed',
 'C06': 'Boolean restriction trees = propositional logic; DNF/CNF agree',
 'C07': 'Equal restrictions are interchangeable',
 'C08': 'Repository queries return exactly the matches',
 'C09': 'Dependency strings round-trip; USE evaluation keeps meaning',
 'C10': 'REQUIRED_USE solving sound, complete, preference-first',
 'C11': 'Stacked USE config applies entries in order (-* resets)',
 'C12': 'Incremental token expansion is left-to-right',
 'C13': 'Visibility follows mask / keyword / license config',
 'C14': 'USE-configured package views reflect the current USE set',
 'C15': 'Successful resolutions give closed, slot-consistent plans',
 'C16': 'Resolver choice policy (highest / reuse)',
 'C17': 'Planner rollback restores the exact earlier state',
 'C18': 'Merge places exactly the package contents',
 'C19': 'Interrupted merge never leaves a replaced file half-written',
 'C20': 'Unmerge removes exactly what it owns, never base dirs',
 'C21': 'Protected config files never silently overwritten/removed',
 'C22': 'Contents sets behave like path-keyed maps',
 'C23': 'Permission hardening never lets unsafe modes through',
 'C24': 'vdb CONTENTS files round-trip',
 'C25': 'Binpkg tarballs round-trip their contents',
 'C26': 'XPAK segments round-trip; rewrites preserve the archive',
 'C27': 'Metadata cache entries round-trip, replaced atomically',
 'C28': 'Manifest generation deterministic, idempotent, parseable, atomic',
 'C29': 'Package database updates are crash-consistent',
 'C30': 'World-file updates record exactly the requested entries',
 'C31': 'Environment sent to the build daemon arrives exactly',
 'C32': 'Every IPC helper request gets exactly one truthful reply',
 'C33': 'Install helpers create exactly the requested image entries',
 'C34': 'Saved-env filtering removes exactly the named definitions',
 'C35': 'Python/daemon protocol never deadlocks or desynchronises',
 'C36': 'Fetch returns only verified files, uses every attempt',
 'C37': 'Bugzilla searches keep meaning when rendered/combined/batched',
 'C38': 'Package-list rewriting touches only the lines it must',
 'C39': 'Bug update list changes compose sequentially',
 'C40': 'Keywording requests name only valid, narrowed, new arches',
 'C41': 'Parallel map processes every item exactly once',
 'C42': 'Package move updates follow chains in file order',
 'C43': 'Config section inheritance = nearest definition',
 'C44': 'Query strings select exactly what they describe',
 'C45': 'GLSAs flag exactly the vulnerable installed versions',
 'C46': 'Distfile cleaning never deletes a needed distfile',
 'C47': 'Tarball sync is atomic and recovers from interruption',
 'C48': 'Cached metadata is used only while valid',
 'C49': 'Generated metadata accumulates eclass values per PMS',
}

# category: F = full, K = full outside known classes, M = mixed (text itself says full for one part,
# partial for another), P = partial.  Phrase = opening words of manifest.d level_claimed.text.
QUAL = {
 'C01': ('F', 'Full (for the repaired ver_cmp)'),
 'C02': ('K', 'Full outside five known classes'),
 'C03': ('P', 'Partial (soundness half proved in full; completeness not proved)'),
 'C04': ('K', 'Full outside known classes K1, K2'),
 'C05': ('P', 'Partial, by operator cell (symmetry full)'),
 'C06': ('K', 'Full for matching; full outside two known classes for the normal forms'),
 'C07': ('K', 'Full outside two known classes'),
 'C08': ('K', 'Full for versioned queries and unversioned over package objects; bare-tuple unversioned call is a known finding'),
 'C09': ('K', 'Full (after two repairs), outside the known class depset-eq-atom-hash'),
 'C10': ('K', 'Full outside known class K, under the recorded contract S of the external solver'),
 'C11': ('K', 'Full outside known classes K (+ the crash class optimize-then-mutate)'),
 'C12': ('K', 'Full outside one known class'),
 'C13': ('F', 'Full for the repaired tree'),
 'C14': ('F', 'Full, for the repaired wrapper'),
 'C15': ('P', 'Partial (search not modelled; verified plan checker + validated runs)'),
 'C16': ('M', 'Strategy functions: full; resolution-level policy: partial (validated runs)'),
 'C17': ('K', 'Full under WF (the 9 ways to violate WF are the known classes)'),
 'C18': ('P', 'Partial'),
 'C19': ('P', 'Partial'),
 'C20': ('K', 'Full outside the known class alias_to_protected, on the model'),
 'C21': ('M', 'Full for the repaired code under a domain condition; partial in that merge/unmerge are modelled by their effect'),
 'C22': ('K', 'Full outside known classes K'),
 'C23': ('F', 'Full, on the property\'s domain'),
 'C24': ('M', 'Full outside known class K; partial for the crash semantics'),
 'C25': ('P', 'Partial (tar/bzip2/xz byte codec trusted)'),
 'C26': ('K', 'Full outside two known classes'),
 'C27': ('F', 'Full after repair'),
 'C28': ('F', 'Full for the repaired write'),
 'C29': ('K', 'Full outside the known classes K'),
 'C30': ('M', 'Full for the repaired code; partial for the crash semantics'),
 'C31': ('P', 'Partial (bash is modelled, not verified)'),
 'C32': ('M', 'Full for the protocol layer outside three recorded classes; image post-conditions not lifted through option parsing'),
 'C33': ('M', 'Paths full, placement partial'),
 'C34': ('P', 'Partial'),
 'C35': ('P', 'Partial (line-level protocol)'),
 'C36': ('K', 'Full outside one known class, for the repaired loop'),
 'C37': ('K', 'Full outside the known classes K'),
 'C38': ('F', 'Full'),
 'C39': ('F', 'Full'),
 'C40': ('K', 'Full outside known classes K'),
 'C41': ('P', 'Partial (runtime trusted), full outside known classes'),
 'C42': ('F', 'Full (for the repaired code)'),
 'C43': ('F', 'Full'),
 'C44': ('K', 'Full for the repaired parse_match, outside one recorded class'),
 'C45': ('P', 'Partial (full outside named classes)'),
 'C46': ('F', 'Full on the set algebra and option glue, for the repaired code'),
 'C47': ('M', 'Full outside the known class rename-window, partial on the runtime'),
 'C48': ('F', 'Full'),
 'C49': ('P', 'Partial (bash subset modelled), full outside the known class'),
}
CATNAME = {'F': 'full', 'K': 'full outside known classes', 'M': 'mixed (full in part, partial in part)', 'P': 'partial'}

KEYTHM = {
 'C01': ['ver_cmp_is_pms', 'ver_cmp_total_preorder', 'version_match_agrees', 'cpv_cmp_total_preorder'],
 'C02': ['cpv_six_ops_consistent', 'cpv_eq_hash_partial', 'atom_clauses_outside_known_classes', 'atom_cmp_total_preorder'],
 'C03': ['accept_sound_partial', 'print_parse_roundtrip', 'gating_sound', 'accept_iff_grammar_refuted'],
 'C04': ['match_is_pms_partial', 'match_is_pms_negate_partial', 'match_is_pms_refuted', 'glob_only_over_matches'],
 'C05': ['intersects_sym', 'intersects_complete_cells', 'intersects_witnessed_partial', 'complete_refuted'],
 'C06': ['match_is_propositional', 'dnf_equiv_partial', 'cnf_equiv_partial', 'dnf_equiv_refuted'],
 'C07': ['eq_implies_same_match', 'eq_implies_same_hash_key', 'eq_interchangeable_partial', 'cache_sound_partial'],
 'C08': ['candidates_complete', 'query_exact', 'sorted_query', 'multiplex_union'],
 'C09': ['parse_print_roundtrip', 'evaluate_preserves_meaning', 'accepted_grammatical', 'transitive_use_expansion'],
 'C10': ['constraint_is_implication', 'sound_partial', 'complete_perm_partial', 'preferred_first_partial'],
 'C11': ['render_is_fold_partial', 'chunked_is_fold', 'splitter_is_fold', 'line_is_fold_partial'],
 'C12': ['expand_last_writer', 'optimize_sound', 'incomplete_negation_rejected', 'pull_data_is_stream'],
 'C13': ['visible_is_spec', 'mask_conjunct', 'keywords_conjunct', 'license_conjunct'],
 'C14': ['reads_current', 'all_reads_current', 'refused_unchanged', 'requests_answered'],
 'C15': ['check_plan_sound', 'check_plan_complete', 'each_class_reads_its_own_attribute'],
 'C16': ['highest_first', 'prefer_highest_sorted', 'reuse_first', 'merge_deterministic'],
 'C17': ['revert_inverts_apply', 'rollback_restores_earlier', 'backtrack_is_replay'],
 'C18': ['frame', 'staged_copy_exact', 'merged_exact', 'copyfile_refuses_dir'],
 'C19': ['crash_frame', 'crash_localised', 'copy_crash_atomic', 'link_crash_atomic'],
 'C20': ['unmerge_nondirs_gone', 'unmerge_nothing_unlisted', 'protected_kept_partial', 'protection_before_unmerge'],
 'C21': ['never_overwritten', 'written_beside_with_numbering_rule', 'recorded_keeps_real_name', 'uninstall_keeps_modified'],
 'C22': ['ops_preserve_wf', 'lookup_refines', 'normpath_idempotent', 'missing_dirs_exact'],
 'C23': ['harden_mode_safe', 'no_suid_world_writable', 'pre_merge_order', 'only_mode_owner_change'],
 'C24': ['roundtrip', 'contents_roundtrip', 'flush_atomic', 'roundtrip_refuted_sym'],
 'C25': ['tar_roundtrip', 'tar_roundtrip_dirs', 'tar_roundtrip_symdir', 'symdirs_resolved_refuted'],
 'C26': ['decode_encode', 'roundtrip_typed', 'rewrite_replaces_segment', 'rewrite_preserves_prefix'],
 'C27': ['cache_roundtrip', 'store_atomic', 'listing_no_partial', 'listing_unrepaired_refuted'],
 'C28': ['parse_render', 'order_independent', 'idempotent', 'update_atomic'],
 'C29': ['window_consistent', 'vdb_install_consistent', 'vdb_replace_partial', 'vdb_replace_refuted'],
 'C30': ['records_exact_add', 'records_exact_remove', 'flush_atomic', 'world_persist'],
 'C31': ['env_roundtrip', 'framing_in_sync', 'send_env_inline_exact', 'send_env_file_exact'],
 'C32': ['one_reply_line', 'truthful', 'channel_in_sync', 'lockstep'],
 'C33': ['dosym_r_resolves', 'placement_is_pms_files', 'placement_is_pms_doman', 'gates_are_pms'],
 'C34': ['filter_commutes_partial', 'no_stray_bytes_partial', 'filter_commutes_refuted'],
 'C35': ['no_deadlock', 'replies_matched', 'expect_reads_own_reply', 'literals_agree'],
 'C36': ['only_verified', 'never_wrong_checksum', 'uses_every_attempt', 'gives_up_only_when_exhausted_partial'],
 'C37': ['parse_render', 'and_is_conjunction_partial', 'batches_partition', 'batch_within_budget_partial'],
 'C38': ['render_parse_id', 'with_keywords_local', 'expand_frame', 'sentinel_meaning'],
 'C39': ['or_is_sequential', 'or_refused_iff', 'change_wire_exact', 'update_wire_exact'],
 'C40': ['yield_general', 'known_partial', 'new_partial', 'acts_on_named'],
 'C41': ['exactly_once', 'conservation', 'always_terminates', 'results_complete'],
 'C42': ['updates_is_chain', 'flatten_is_chain', 'file_order_independent', 'malformed_skipped'],
 'C43': ['nearest_definition', 'bfs_order_characterisation', 'cycle_reported', 'missing_reported'],
 'C44': ['query_selects', 'glob_match_is_shell', 'regex_is_glob', 'plain_atom_same_as_atom'],
 'C45': ['affected_is_spec_partial', 'op_translate_is_glsa', 'slot_limits_range', 'rev_last_tiebreak'],
 'C46': ['never_needed', 'removed_exact', 'never_removes_installed', 'run_never_removes_needed'],
 'C47': ['failed_sync_untouched', 'crash_old_or_new_partial', 'next_sync_completes', 'next_sync_after_any_history'],
 'C48': ['validate_iff_valid', 'used_iff_valid', 'regen_iff_none_valid', 'stale_replaced'],
 'C49': ['accumulates_partial', 'metadata_spec', 'inherited_all_sourced', 'defined_phases_exact'],
}

# one-line "what fails" per open finding (condensed from known_findings/*.json "what")
FIND = {
 ('C02', 'cpv-respelled-version'): 'CPVs with differently spelled equal versions (1.0 / 1.00, 1_alpha / 1_alpha0) are == but hash differently (hash of the text)',
 ('C02', 'atom-blocker-strength'): '!cat/pkg == !!cat/pkg, yet hashes differ and !cat/pkg < !!cat/pkg',
 ('C02', 'atom-use-order'): 'atoms with USE deps written in another order are == but hash differently',
 ('C02', 'atom-subslot-slotop-unordered'): 'atoms differing only in sub-slot / slot operator are != yet neither < nor >',
 ('C02', 'atom-respelled-version-unordered'): 'atoms whose version text differs but compares equal (1.0 / 1.00, -r0 / none) are != yet neither < nor >',
 ('C03', 'trailing-newline'): 'atom() accepts text with a newline (regex `$` matches before a final \\n): `a/b\\n`, `=a/b-1\\n`, `a/b[x\\n]`',
 ('C03', 'upper-version-letter'): 'upper-case version letter accepted (`=a/b-1A`), and the PMS-valid name `a/b-1A` rejected',
 ('C03', 'slot-leading-plus'): 'slot / sub-slot beginning with `+` accepted (`a/b:+0`); PMS forbids it',
 ('C03', 'unicode-digit'): 'non-ASCII Unicode digits accepted in versions and revisions (outside the model domain; probed directly)',
 ('C04', 'glob-string-prefix'): '`=cat/pkg-V*` matches by plain string prefix of fullver (=a/b-1* matches a/b-10); PMS: component boundaries only',
 ('C04', 'use-negative-group-nand'): 'several negative USE deps of one kind are evaluated as "not all enabled": a/b[-x,-y] matches x on, y off',
 ('C05', 'unwitnessed-adjacent-revisions'): '>V-rN and <V-r(N+1) reported as intersecting although no version lies between',
 ('C05', 'unwitnessed-glob-revision-ignored'): 'a glob with a revision (=V-rN*) against >/>= of a greater version or ~W: intersection reported that no package has',
 ('C05', 'unwitnessed-use-default-hidden-conflict'): 'USE conflict test compares raw tokens: x vs -x(+) not seen as a conflict, atoms reported as intersecting',
 ('C05', 'incomplete-respelt-version'): 'string tests on equal but differently spelt versions: atoms reported disjoint although a package matches both',
 ('C05', 'incomplete-glob-nonboundary-witness'): 'consequence of C04 glob-string-prefix: =a/b-1* and >a/b-2 reported disjoint although a/b-10 matches both',
 ('C05', 'incomplete-use-nand-witness'): 'consequence of C04 use-negative-group-nand: a/b[-x,-y] and a/b[x] reported disjoint although a package matches both',
 ('C06', 'empty-any-of'): 'an any-of without children matches nothing but its DNF/CNF say "true"',
 ('C06', 'negated-empty-all-of'): 'a negated all-of without children matches nothing but dnf_solutions answers [[]] ("true")',
 ('C07', 'atom-blocker-strength'): '!cat/pkg == !!cat/pkg and match alike, yet hashes differ (same class as C02)',
 ('C07', 'atom-use-order'): 'atoms with reordered USE deps are == and match alike, yet hash differently (same class as C02)',
 ('C08', 'unversioned-bare-tuple'): 'itermatch(r, versioned=False) without raw_pkg_cls matches against bare (category, package) tuples: attribute leaves see a missing attribute (category==a yields nothing, a wrapper-negated leaf yields everything)',
 ('C09', 'depset-eq-atom-hash'): 'DepSet.parse(str(d)) == d is False when d holds a non-canonically written atom (a/b[y,x]): set-based __eq__ through atom.__hash__ (C02 finding)',
 ('C10', 'cond-member-of-group'): 'a use-conditional that is an immediate child of ||, ^^ or ?? is compiled as an implication instead of being dropped when unmet: non-satisfying assignments emitted, satisfying ones omitted',
 ('C11', 'wildcard-collapse'): 'collapsing chunks treats -* / -PREFIX_* as an ordinary flag name: `*/* a; */* -* b` renders {a,b}',
 ('C11', 'stale-globals-reappended'): 'update_from_stream re-appends the collapsed globals behind a key\'s entries (`*/* a; cata/p1 -a; */* b; cata/p1 d` re-enables a); a clone seeds new keys from its source\'s globals',
 ('C11', 'specific-delta-dropped'): 'second pass of _build_cp_atom_payload drops a version-specific token as redundant although an intermediate specific entry changed the flag',
 ('C11', 'optimize-then-mutate'): 'optimize() on an unfrozen dict stores tuples; the next mutation of such a key raises AttributeError',
 ('C11', 'line-conflict'): 'one package.use line becomes ONE (neg, pos) entry: `cat/pkg a -a` enables a; `FOO: a BAR: x FOO: -*` keeps foo_a',
 ('C12', 'unfinalized-defaults-set-order'): 'pull_data with finalize_defaults=False and non-empty pre_defaults re-expands the stored set in set-iteration order: a kept -* can run after the flags that followed it (combination unused in pkgcore)',
 ('C15', 'cycle-nontermination'): 'a target reaching a dependency cycle can recurse without bound (RecursionError / no answer)',
 ('C15', 'slot-contention'): 'success reported although a target or dependency clause is unmet, its only candidates sitting in a (key, slot) given to another package',
 ('C15', 'cycle-assumed'): 'a dependency closing a cycle is answered "satisfied" assuming the package higher in the stack gets inserted; when that package is abandoned the clause stays unmet',
 ('C15', 'forced-vdb-load'): 'an installed package side-loaded by _ensure_livefs_is_loaded (dependencies/blockers never processed) later satisfies an atom; its blocker then matches a merged package',
 ('C17', 'forced-add-of-bound-package'): 'add_op(force=True) of a package already in the plan: reverting the second add removes the first add\'s slotting and binding',
 ('C17', 'remove-with-foreign-choices'): 'remove_op with a foreign choice point: revert re-binds the package to the op\'s choice point, not the original',
 ('C17', 'forced-replace-with-conflicts'): 'replace_op(force=True).apply hitting a limiter: new package slotted anyway, old not put back, AssertionError',
 ('C17', 'replace-blocked-new-package'): 'replace_op.apply failure path when the old package is itself matched by a limiter: old package dropped from the slot table, AssertionError',
 ('C17', 'replace-old-blocked-by-own-blocker'): 'replace_op.revert computes force_old before the old package\'s own blockers are dropped: AssertionError, backtrack stops half-way',
 ('C17', 'replace-by-planned-package'): 'replace_op whose new package is already planned: later rollbacks leave vdb_filter/pkg_choices different from a replay',
 ('C17', 'forced-duplicate-slot'): 'forced add into an occupied (key, slot): a later replace_op fails on the way back, AssertionError with the package dropped',
 ('C17', 'readded-filtered-package'): 'a package in vdb_filter added and removed again: the second remove\'s revert deletes the membership the first established',
 ('C17', 'blocker-under-foreign-key'): 'the same blocker object filed under two keys: last decref removes the limiter under the wrong key, KeyError',
 ('C18', 'symlink-mtime-not-set'): 'a merged symlink does not get its recorded mtime (ensure_perms skips utime for symlinks)',
 ('C18', 'directory-mtime-bumped'): 'a merged directory loses its recorded mtime when later steps create entries inside it',
 ('C18', 'symlink-over-directory-kept'): 'a symlink entry over a live directory is silently skipped when <location>/<target> is a directory; otherwise the merge aborts half-way with CannotOverwrite',
 ('C18', 'stale-new-reused'): 'copyfile writes into a pre-existing `<path>#new` without truncating/unlinking: trailing garbage, and a hard-linked outside file gets overwritten',
 ('C18', 'new-sibling-left-behind'): 'two hard-linked entries naming the same live file (via a symlinked directory): rename(2) is a no-op and `<name>#new` stays in the root',
 ('C19', 'symlink-replaced-by-directory-nonatomic'): 'directory entry over a dangling symlink: unlink+mkdir+lchown+chmod+utime; a fault leaves the path missing or a directory with default owner/mode',
 ('C19', 'stale-new-reused'): 'a stale `#new` hard-linked elsewhere is overwritten in place, so a fault leaves the outside file half-written',
 ('C20', 'protected-dir-reached-through-alias'): 'BaseSystemUnmergeProtection filters by name only: a protected base directory listed under an unprotected alias (through a symlinked directory) is rmdir\'ed when empty',
 ('C22', 'raw-in-container'): 'difference / intersection_update / issubset / isdisjoint use a raw `location in other`: a list of fs objects or an un-normalised path string never matches',
 ('C22', 'intersection-arg-objects'): 'intersection() returns the argument\'s objects for the common paths (intersection_update keeps self\'s)',
 ('C22', 'symdiff-list-class-equality'): 'symmetric_difference(_update) with a list uses fsBase.__eq__ (class and location): a common path of another class is kept',
 ('C22', 'change-offset-unnormalised-old'): 'change_offset strips len(old_offset.rstrip("/")) characters: an un-normalised old offset cuts the wrong prefix',
 ('C24', 'sym-location-arrow'): 'a symlink whose LOCATION contains a stand-alone ` -> ` token does not round-trip (reader cuts at the first `->`)',
 ('C25', 'symdir-chain'): 'an entry beneath a symlinked directory whose resolution takes more than one hop is moved once only and can be left beneath a symlink',
 ('C26', 'repo-alias'): 'a mapping with key `repo` reads back as `REPO` (read alias), merging with an existing `REPO` entry',
 ('C26', 'index-walk-crash'): 'a tail passing the magic checks whose index walk runs off the file / meets a non-ASCII key raises struct.error / UnicodeDecodeError instead of MalformedXpak; write_xpak then fails instead of appending',
 ('C29', 'vdb-rmtree-partial'): 'vdb replace/uninstall: a crash inside rmtree of the old package directory leaves the old package listed with part of its metadata gone',
 ('C29', 'vdb-replace-neither'): 'vdb replace removes the old directory before renaming the staged one in: a crash in between leaves neither version listed',
 ('C29', 'binpkg-replace-keeps-old'): 'binpkg replace whose old and new tarball names differ never removes the old tarball: a fresh view lists both versions',
 ('C32', 'newline-in-argument'): 'a helper argument containing a newline splits the request; the remainder is taken for the next command',
 ('C32', 'fallback-dest-is-directory'): 'install(1) fallback onto a destination that is an existing directory copies INTO it and exits 0: success reported though the file is not at its destination',
 ('C32', 'status-multiple-of-256'): 'a failure code that is a multiple of 256 (command killed by a signal) becomes success via bash `return ${ret}` under nonfatal',
 ('C33', 'dohtml-recursive-unfiltered'): 'dohtml -r installs every file below a directory argument (extension filter, -f, -x apply to top-level arguments only)',
 ('C34', 'open-brace-word'): 'function body with an unquoted word holding an unmatched `{`: function end missed, rest of the dump swallowed, NUL byte appended',
 ('C34', 'quoted-brace-in-expansion'): 'quoted `}` inside ${...}: expansion cut at the first `}`, following definitions mis-filtered, NUL byte appended',
 ('C34', 'close-brace-word'): 'a literal `}` word inside a group / at the start of a body line closes the group/function early',
 ('C34', 'assign-closes-cmdsub'): 'an assignment as last word inside $(...): the value walker runs over the closing `)`, rest of the dump swallowed',
 ('C34', 'heredoc-in-group'): 'a here-document inside a group whose text contains the closer or a quote: the group ends inside the text',
 ('C34', 'escaped-brace-expansion-in-group'): '${x%\\}} inside a {...} group: expansion cut at the escaped brace, real `}` closes the group early',
 ('C34', 'heredoc-empty-delimiter-hang'): 'a here-document with an empty quoted delimiter (cat <<\'\') makes walk_here_statement loop forever',
 ('C36', 'chksum-failure-aborts-remaining-attempts'): 'an oversized / wrong-checksum download makes fetch() raise ChksumFailure at once although attempts and URIs remain (fetch_one relies on this raise)',
 ('C37', 'and-same-simple-key'): 'a & b unions the values of a plain key carried by both operands: ids[1,2] & ids[2,3] selects {1,2,3}, not {2} (pinned by tests)',
 ('C37', 'anyof-operand-not-one-chart'): 'any_of() splices the charts of every operand into one OR group: any_of(x & y, z) renders x OR y OR z',
 ('C37', 'batch-budget-short-field'): 'batches() prices a value with the field name instead of v<slot>: with a short field name a batch exceeds max_length although every value fits',
 ('C40', 'cc-unknown-arch'): 'match_packages does not validate cc_arches: unknown arches inherited from cc are yielded',
 ('C40', 'allarches-unknown-arch'): 'allarches re-adds stabilization candidates from KEYWORDS without checking them against the known arches',
 ('C40', 'allarches-outside-cc'): 'allarches re-adds candidates not among the cc arches (cc narrowing bypassed)',
 ('C40', 'allarches-already-stable'): 'with only_new, allarches re-adds an arch the version already carries as stable',
 ('C40', 'suggested-self-stable'): 'suggested_keywords(stable=True) counts the version itself as "another version"',
 ('C41', 'no-workers'): 'map_async with threads<=0 (or len 0 reported) and non-empty input creates no worker: nothing processed, empty result, no error',
 ('C41', 'worker-death'): 'a functor exception inside a worker is swallowed: with as many raising items as workers the remaining items are never processed, map_async returns normally',
 ('C44', 'atom-slotop-star-use-rejected'): 'valid atom `cat/pkg:*[flag]` is rejected: parse_match takes `*[flag]` for a slot glob',
 ('C45', 'glob-string-prefix'): 'an eq range ending in * is a string prefix of the full version, not a component prefix (=1* matches 10)',
 ('C45', 'rlt-r0-discards-entry'): 'an rlt range without a revision raises ValueError and the whole <package> entry is discarded: nothing flagged',
 ('C47', 'rename-window'): 'a crash between rename(<repo> -> .<repo>.old) and rename(.<repo>.update -> <repo>) leaves no directory at the repository path (next sync restores the old tree first, after the C47 repair)',
 ('C49', 'eclass-unsets-accumulated-var'): 'an eclass running `unset` on an accumulated variable uncovers the caller\'s variable: value accumulated twice, a later eclass can overwrite the ebuild\'s own variable; EAPI 0-3 RDEPEND default can lose DEPEND',
}

# seeds: (summary, needs)
SEED = {
 'C01': ('ver_cmp gets its dotted components from an lru_cache\'d helper and strips a trailing version letter from the cached list IN PLACE: the letter is lost from the second comparison on',
         'version with a trailing letter compared at least twice in one process against a version with a different dotted string'),
 'C01-2': ('_VersionMatch.match for `~` short-cuts to string equality pkg.version == self.ver instead of ver_cmp without revisions',
           '`~` restriction whose version is PMS-equal but spelled differently (1.0 / 1.00, 1_p / 1_p0)'),
 'C02': ('CPV caches its hash in __init__ from the raw cpvstr before the revision is canonicalised (-r0 dropped, -r01 -> -r1)',
         'two equal CPVs of which one spells -r0/-r00 or a leading-zero revision'),
 'C03': ('atom.__init__ replaces atom.cpvstr with the CPV\'s canonical cpvstr, while the =* glob restriction is built from the fullver as written',
         'accepted `=...*` glob atom with a revision spelled -r0 / -r01; round trip must compare matched sets'),
 'C03-2': ('slot dep split on every `/` instead of the first one; three or more chunks silently accepted as slot "a/b/c"',
           'slot dependency with two or more `/` (cat/pkg:0/1/2) under EAPI 5+ or no EAPI'),
 'C04': ('atom.restrictions adds SubSlotDep only when the sub-slot differs from the slot (`:1/1` treated as `:1`)',
         'atom spelling a sub-slot identical to its slot, package in that slot with a different sub-slot'),
 'C04-2': ('_UseDepDefaultContainment.match computes the flags left to check as vals & use instead of vals & iuse_stripped',
           '>=2 same-default USE deps, one flag missing from IUSE, another in IUSE but disabled'),
 'C05': ('intersects(): guard `if other.revision` for a glob against </<= rewritten as `is not None and != 0`, letting a -r0 glob fall through to startswith',
         '=cat/pkg-V-r0* intersected with </<= atom whose fullver starts with V; wrong in both argument orders, needs witness search'),
 'C06': ('AndRestriction.iter_dnf_solutions builds the tail generator once and re-uses it: only the first alternative of a group is combined with later groups',
         'all-of node with >=2 children each expanding to >1 DNF alternative; package satisfying only a non-first alternative'),
 'C06-2': ('JustOneRestriction.match tail collapsed to `return armed or self.negate` (wrong for armed and negate both true)',
           'negated exactly-one-of node with exactly one matching member'),
 'C07': ('boolean.base compares and hashes its children as a frozenset; ^^ / ?? count children, so `^^ ( a a b )` == `^^ ( a b )`',
         'two ^^ / ?? trees equal as child sets but differing in multiplicity'),
 'C08': ('prototype.tree._package_filter loops interchanged: a package accepted by two matchers becomes a candidate twice (versions yielded twice)',
         'query with >=2 non-exact package matchers (or one plus exact names) accepting the same package'),
 'C08-2': ('_fast_identify_candidates: single-candidate shortcut guarded by `not cat_restrict` instead of `not pkg_restrict`: packages of glob/regex alternatives missing',
           'boolean query with one exact category, one exact package and a non-exact package matcher in another alternative'),
 'C09': ('`_evaluate_collapsable` typo "fixed" to `_evaluate_collapsible`, switching on same-class flattening for ^^ and ?? (not associative)',
         '^^ directly inside ^^ (or ?? in ??) plus at least one USE conditional in the same string'),
 'C09-2': ('Conditional.evaluate_conditionals fast path for single-member payloads evaluates the lone member with AndRestriction as parent: members lose their grouping inside || / ^^ / ??',
           'conditional with exactly one member that is a multi-member all-of group or nested conditional, directly inside a non-all-of group, all flags on'),
 'C10': ('required_use.__to_single_constraint passes restrict.negate instead of x.negate: `!flag? ( ... )` inside a group compiled as `flag? ( ... )`',
         'negated use-conditional as a member of a ||, ^^ or ?? group'),
 'C10-2': ('find_constraint_satisfaction builds flag domains by successive dict updates with prefer_true last: a forced flag that is also preferred gets a two-valued domain',
           'flag in IUSE that is in prefer_true and in force_true/force_false at once'),
 'C11': ('package_use_splitter emits tokens[:idx] instead of tokens[start_idx:idx] at a USE_EXPAND header: an earlier -* no longer discards the plain flags before it',
         'package.use line with plain flags, then -*, then a USE_EXPAND section'),
 'C11-2': ('ChunkedDataDict._expand_globals rebinds _global_settings instead of assigning in place: the defaultdict factory keeps a stale snapshot of the globals',
           '>=2 global additions, then merge() of a dict bringing a new package key without those globals'),
 'C12': ('optimize_incrementals skips `-x` negations once a -* was seen, before recording x as terminal: an earlier plain x between -* and -x is emitted as enabled',
         'stream with -* and, right of the last -*, a flag enabled then disabled (`-* a -a`)'),
 'C13': ('_apply_license_filter aliases and extends the shared ACCEPT_LICENSE list in place: matching package.license tokens leak into the domain-wide stream',
         'two visibility evaluations on one domain, the first for a package matching a package.license entry'),
 'C13-2': ('filter_repo seeds the mask set with repo masks AND user package.mask before applying profile (neg, pos) pairs: a profile `-atom` also deletes the user\'s identical mask',
           'profile package.mask negation `-X` plus a user package.mask entry textually equal to X'),
 'C14': ('_request_configurable pre-checks only locked flags and applies flags in the given order: a refusal after a recorded pin makes rollback invert the pin',
         'multi-flag request where a pin precedes a changeable flag touched earlier in the same change window'),
 'C15': ('insert_choice asks _ensure_livefs_is_loaded for the unversioned atom instead of the slotted one: installed package of another slot never loaded, upgrade recorded as add',
         'multi-slot package with two installed slots touched by one resolution'),
 'C15-2': ('insert_blockers drops the re-check state.match_atom(x) after re-resolving past a weak blocker: a replacement in a different slot counts as resolved',
           'weak blocker matching a planned/installed version of a slotted package, non-matching version in another slot'),
 'C16': ('_viable records an atom as globally insoluble also when the lookup was limited to the vdb (guard `not limit_to_vdb` dropped)',
         'build-time dependency cycle through an any-of whose cycling package is not installed, the same atom needed again later'),
 'C17': ('replace_op.revert passes force=self.force instead of self.force_old when putting the old package back',
         'blocker registered; matching package added with force; unforced replace; rollback before the replace'),
 'C18': ('ensure_perms reordered: chmod/utime before lchown; chown strips set-id bits',
         'non-directory entry with set-uid/set-gid mode and recorded uid/gid'),
 'C18-2': ('copyfile calls ensure_dirs(parent, mode=0o750, minimal=True) even when the parent exists: missing 0750 bits ORed into the directory mode',
           'new file whose parent directory mode lacks some rwxr-x--- bit (0700, 0711, 0500)'),
 'C19': ('copyfile "unchanged file" shortcut: same size+sha1 -> ensure_perms in place on the live path, no #new + rename',
         'file replacing a byte-identical live file with different metadata, merge interrupted between the attribute syscalls'),
 'C20': ('get_remove_cset (replace) builds the protected resolved-path set from non-directory entries only',
         'replace where the old package lists a directory through a symlinked parent, new package installs it under the resolved path, directory empty'),
 'C20-2': ('BaseSystemUnmergeProtection registered on pre_unmerge instead of unmerge: in a replace engine the pruned cset is regenerated and the pruning lost',
           'replace mode, old package lists a protected base directory the new one does not, directory empty afterwards'),
 'C21': ('ConfigProtectInstall no longer re-merges an incoming file identical to a pending ._cfg update and registers no rename: the file drops out of the recorded contents',
         'protected file differing from incoming AND a pending ._cfgNNNN_ update identical to incoming'),
 'C21-2': ('._cfg number chosen as count of differing pending updates (`count += 1`) instead of max+1',
           'pending ._cfg updates with a gap in the numbering and an incoming file differing from all'),
 'C22': ('add_missing_directories seeds its missing-parents set only from non-directory entries',
         'set with an explicit directory entry whose own parent chain is absent'),
 'C23': ('fix_set_bits iterates files and dirs only instead of everything that is not a symlink: fifos and device nodes skipped',
         'fifo or device entry with set-id + world-writable mode'),
 'C24': ('ContentsFile._iter_contents tokenises with line.split() instead of split(" "): runs of whitespace in paths collapse',
         'path or symlink target with consecutive spaces, a tab or unicode whitespace'),
 'C24-2': ('ContentsFile._write uses contextlib.closing(): close() (= commit rename) runs on every exit path, a failing flush installs a truncated CONTENTS',
           'fault while flush() is writing'),
 'C25': ('archive_to_fsobj derives the location with name.lstrip("./"), which strips a character set: top-level dot-names lose their dot',
         'image with a top-level entry whose name starts with a dot'),
 'C25-2': ('archive_to_fsobj masks member modes with 0o777 (one digit short): set-uid/set-gid/sticky bits dropped on read',
           'entry with a set-uid, set-gid or sticky mode'),
 'C26': ('write_xpak records value lengths before utf8 encoding (character count, not byte count)',
         'str value with a non-ASCII character'),
 'C26-2': ('write_xpak opens a path target with mode a+b instead of r+b: every write lands at EOF, a rewrite appends the new segment after the old',
           'second write_xpak on a file that already has a segment, and an inspection of file layout/size'),
 'C27': ('_mtime_serializer formats with f"{mtime:.0f}" (rounds) instead of floor',
         'chf/eclass mtime that is a float with fractional part >= .5'),
 'C28': ('_manifest_line iterates chksums.items() instead of sorted(chksums): hash columns follow insertion order',
         '>=2 hashes not in alphabetical insertion order'),
 'C29': ('binpkg Packages index now trusted at whole-second mtime granularity (`_mtime_` mapped to mtime), while replace renames the new tbz2 in before refreshing the index',
         'binpkg replace of the same version with different metadata, crash after the tbz2 rename and before the index commit, within the same second'),
 'C29-2': ('binpkg replace.finalize_data removes the old differently-named tbz2 (uninstall) BEFORE renaming the staged file in',
           'binpkg replace whose old/new file names differ and a crash between the unlink and the rename'),
 'C30': ('WorldFile._modify decides "default slot" by slot[0] != "0" instead of slot != "0"',
         'atom whose slot starts with 0 but is not exactly 0 (0.10)'),
 'C31': ('_generate_env_str no-quoting shortcut widened to regex ^\\w+$, whose `$` also matches before a trailing newline',
         'scalar env value of word characters followed by exactly one newline'),
 'C31-2': ('_quote_env_element character set hoisted into a non-raw literal that loses the backslash: elements with backslashes sent in "..." form',
           'list-valued variable whose element has \\\\, backslash-newline or a trailing backslash and no " $ `'),
 'C32': ('install(1) fallback collects failures and raises after the loop with the exit code of the LAST install call',
         'fallback-forcing insoptions, >=2 files in one request, failing file not last'),
 'C33': ('Doman tests the -i18n override by truthiness instead of `is not None`: an empty -i18n= no longer overrides language detection',
         'doman (EAPI >= 4) with `-i18n=` on a page name carrying a language code'),
 'C34': ('filter_env $\'...\' scanner rewritten to hop between quotes, treating a quote after a backslash as escaped: `\\\\\'` no longer closes the string',
         '$\'...\' value (contains a control character) ending in a backslash; filtered name is it or a later definition'),
 'C35': ('_consume_async_expects uses all() over a generator: short-circuits at the first mismatching reply, the remaining replies stay in the pipe',
         'batch of >=2 outstanding expectations where a non-last reply mismatches (e.g. a failed preload_eclass)'),
 'C36': ('fetch() returns the path straight away for checksum-less targets when the fetch command exits 0',
         'fetchable without checksums, fetcher exits 0 leaving no (or an empty) file'),
 'C37': ('BugQuery._split_axis rebuild callbacks turned into lambdas closing over the loop variable `index` (late binding)',
         'query whose splittable package-list criterion is not the last top-level chart'),
 'C38': ('PackageList.expand memoises suggest() per atom.key (unversioned name) instead of per atom',
         '>=2 `*` lines for the same cat/pkg in different versions, version-dependent suggestion'),
 'C39': ('ListChange.__or__ tests other.replace by truthiness: an empty set (clear the field) is not treated as a replace',
         'second operand `setting()` with no values, first operand non-empty'),
 'C40': ('match_packages validates keywords against known arches before the `*` sentinel is expanded',
         'version carrying a keyword whose arch is not in arch.list, request line using `*`'),
 'C41': ('map_async clamps threads to len(iterable)//2 with lower bound 0',
         'sized iterable holding exactly one item'),
 'C42': ('_process_updates slotmove branch no longer builds the throw-away atom validating the target slot',
         'slotmove line with a malformed target slot'),
 'C43': ('_get_inherited_sections inserts a self-inherited section directly behind the inheriting one instead of appending it',
         'self-inheriting section plus another inherited section that should come earlier breadth-first, both setting a key'),
 'C44': ('parse_match slot/sub-slot handling folded into a loop that still tests `"*" in slot` for the sub-slot token',
         'query with a globbed sub-slot behind a plain slot (boost:0/1.6*)'),
 'C45': ('generate_restrict_from_range glob branch uses the bare version instead of base.fullver: revision dropped from the prefix',
         'eq range ending in * whose version carries -rN'),
 'C45-2': ('unaffected ranges generated un-negated under one OrRestriction(negate=True): the dead filter `x not in vuln_list` becomes live and drops an unaffected range equal to a vulnerable one',
           'advisory entry with an <unaffected> range identical to one of its <vulnerable> ranges'),
 'C46': ('pclean dist: the --exists / --fetch-restricted scan iterates only packages matching the targets',
         'targets with -E / -f and a distfile matching the target\'s name pattern but needed by another package'),
 'C47': ('_pre_download (which holds tar_syncer\'s crash recovery) moved after the request and makedirs: the parked old tree is removed instead of restored',
         'sync killed between the two renames, then a NEXT sync that fails'),
 'C47-2': ('tar_syncer._pre_download runs its recovery only when .<repo>.old exists: a stale .<repo>.update alone is never removed',
           'interruption between the two makedirs of _post_download (.update exists, .old does not)'),
 'C48': ('rebuild_cache_entry first looks up the recorded inherit set in the name-keyed eclass-data memo and returns a hit without comparing recorded checksums',
         'one long-lived cache object reading >=2 packages with the same inherit set, the later entry recording outdated eclass data'),
 'C49': ('inherit(): `E_IDEPEND+=${E_BDEPEND:+ }${IDEPEND}` takes the separator test from the BDEPEND accumulator: tokens glued',
         'EAPI 8, >=2 eclasses each setting IDEPEND, no earlier eclass setting BDEPEND'),
}

# follow-up recorded in notes/Cxx.md for seeds that were missed or caught only as a broken tie
FOLLOW = {
 'C07': 'yes - notes/C07.md "Follow-up": when the proof build fails the harness now builds Spec_C07 alone and still runs all streams; new spec kinds rnode/reqset and 38 witness pairs (same child set, other multiplicity/order). Builder\'s own version of the mutation: exit 1, VIOLATION with concrete pairs (`^^ ( x x y )` vs `^^ ( x y )`).',
 'C08-2': 'none recorded for this seed in notes/C08.md. (The notes\' own mutation M7 - single-key shortcut taken with one exact category and two exact packages - was first tie-only too and became a property violation after `And(cat, Or(pkg, pkg))` shapes, corpus case 12 and a search on a full repository around disagreements were added.)',
 'C11': 'yes - notes/C11.md finding 5 (line-conflict) and self-test row S1: the first round did not compare the (neg, pos) entry with the line; now exit 1, property, line `cata/p1 a b -* c FOO: a`.',
 'C16': 'yes - notes/C16.md: structured family `gen_cycle_scenario` (build-time cycle through an any-of, atom needed twice / second target), judged by the oracle alone; corpus 20/21; own mutation N5: exit 1, 5 VIOLATION lines with universes.',
 'C19': 'yes - notes/C19.md "Follow-up: missed seeded defect": generator now produces file-samedata / file-samemeta replacements; own mutation: ./check C19 exit 1 with 5 property violations (and C18 exit 1 by op trace).',
 'C26-2': 'none recorded in notes/C26.md.',
 'C27': 'yes - notes/C27.md "Follow-up: fractional mtimes": stamps in milliseconds, float mtimes with fractions n/8; own mutation: exit 1 with seeds 0-2 and 4 (property + correspondence); (de)serialisers added to the fingerprint anchors.',
 'C29-2': 'none recorded in notes/C29.md.',
 'C48': 'yes - notes/C48.md "Follow-up: state carried across reads": histories of 2-4 sessions with long-lived objects and packages sharing inherit lists; own mutation caught at the quick budget with seeds 0-3.',
 'C49': 'yes - notes/C49.md self-test row M11 (same edit): "missed before the solo cases existed"; now exit 1, property, IDEPEND solo case.',
}

PARTIAL = {
 'C01': ['Only ASCII digits/letters modelled (Python \\d / isalpha accept other Unicode classes).',
         'isvalid_version_re tied by regenerated shape check + `valid` stream, not translated; link is by correspondence, not theorem.',
         'Revisions passed as raw str (not Revision) are outside the domain.'],
 'C02': ['Parsers not modelled (premises cpv_consistent, atom_consistent, slot_wf, atom_valid).',
         'Hash collisions are outside the property; only hash keys are modelled.'],
 'C03': ['Completeness (PMS-grammatical => accepted) is not proved, only compared by (B) each run; proved converse components: versions, USE-dep tokens, package names, character classes.',
         '"Matches exactly the same packages" is covered as record identity, no model of matching here (C04).'],
 'C04': ['Transitive USE deps (C09) and the atom parser (C03) are outside this model.'],
 'C05': ['Unproved: completeness and witnessed-ness for a ranged operator against `=*`; witnessed-ness for a glob with revision against `~` on equal versions.',
         'Completeness when the package is spelt differently from the atom text, and USE completeness inside C04\'s NAND class, are false (recorded classes).',
         '"No package matches both" for unwitnessed classes other than adjacent revisions rests on the finite universe only.'],
 'C06': ['force_True/force_False, evaluate_conditionals (C09), leaf semantics (C04/C07), restriction equality/hash (C07) not modelled.',
         'Literals are named by position among the tree\'s subterms (trusted canonicaliser).'],
 'C07': ['transitive_use_atom, FlatteningRestriction, FunctionRestriction, AnyMatch, EqualityMatch not modelled.',
         'Regexes in the correspondence are literal patterns; force_True/force_False outside the statement.'],
 'C08': ['filtered.tree, misc wrappers, pkg_filter, pkg_cls, force, yield_none, PackageRestrictionMulti, case-insensitive matchers not modelled.',
         'Python `sorted` taken as the stdlib merge sort on the same order; ver_cmp exercised only on single-integer versions.'],
 'C09': ['atom() reading back str(atom), and a variable use dep naming a plain flag, are explicit premises (checked on the atom pool each run).',
         '"Read under a flag set" follows the code / Portage reading (a group whose members are all switched off is not a member of its parent).'],
 'C10': ['snakeoil\'s solver is not verified: it enters every theorem as hypothesis S, checked differentially on raw Problems each run.',
         'Which solution comes first when the preferred assignment does not satisfy is neither modelled nor compared; DepSet.parse not modelled (C09).'],
 'C11': ['The theorem excludes every applicable wildcard entry (coarse class a); the region between class_a and class_a_tight is correspondence-tested only.',
         'Trees, not register machines: mutating a clone\'s source afterwards / merging a dict into itself not modelled.',
         'Refusals only characterised by the model, no theorem.'],
 'C12': ['finalize_defaults=False + pre_defaults: reference comparison only.',
         'Restrictions in collapsed_restrict_to_data abstracted to (bucket, matches); Python set iteration order not modelled.'],
 'C13': ['Atoms/globs abstracted to their truth value per package (matching is C04/C44); config-file parsing modelled, compared through real files.',
         'Keyword application order = pkgcore\'s specificity order, taken as the reading of "matching entries".'],
 'C14': ['snakeoil LimitedChangeSet modelled and compared, not verified.',
         'node_conds branch of request_enable/disable not modelled; lock(), freeze()/__copy__ out of scope.'],
 'C15': ['The backtracking search is not modelled; no theorem over all inputs of the search. Theorems are about the plan checker; tie to plan.py is per-run validation.',
         'Trusted: exported match relation (real atom.match), cnf_solutions() of the real DepSet.'],
 'C16': ['Resolution-level policy has no theorem: validated per run against a brute-force oracle (random universes + structured cycle family).',
         'downgrade_iter_sort not modelled (comparison not a preorder); list.sort assumed stable.'],
 'C17': ['Behaviour outside WF (forced duplicates, failing replace, rollback into the middle of a compound op) is modelled bug-compatibly and checked by (A) only.',
         'Fake package/blocker objects (identity = equality); RefCountingSet hashing of real atoms not modelled.'],
 'C18': ['Whole-merge exactness proved per step; composition over the entry list (aliasing through symlinked directories) not proved, correspondence only.',
         'Kernel semantics not modelled: EXDEV/overlayfs, permission errors, setgid inheritance, implicit parent mtime updates.'],
 'C19': ['That a path\'s step-start content equals its pre-merge content under aliasing (composition) is not proved.',
         'Durability: each completed call assumed durable (no page-cache loss / reordering); kernel semantics as C18.'],
 'C20': ['Laziness/caching of MergeEngine\'s csets (which tree the intersection sees) compared every run, not proved.',
         'ELOOP/EACCES/EXDEV/mount points/permissions not modelled.'],
 'C21': ['merge/unmerge reduced to setting/deleting files and symlinks in a path-keyed map; file contents are opaque tokens.',
         'Domain condition: one entry per location, package ships no ._cfg names; four conclusions assume pairwise distinct renamed locations.',
         'fnmatch bracket expressions with at most one range; env.d arrives parsed.'],
 'C22': ['relocate_prefix proved for a normalised new offset; other spellings covered by correspondence / dict oracle only.',
         'map_directory_structure, OrderedContentsSet, the iter* family, relative new offsets not modelled.'],
 'C23': ['contentsSet.update modelled as a position-preserving map; attributes other than mode/owner are abstract ids.',
         'Domain-configured triggers (BinaryDebug, PruneFiles, ...) and the later application of modes to the filesystem (C18) out of scope.'],
 'C24': ['Atomicity is about the model\'s op list (tie = per-run trace/fault correspondence); completed calls durable; realpath of a symlinked CONTENTS not modelled.',
         'No tightness theorem for the known class; only the UTF-8 encoder is modelled.'],
 'C25': ['tar/bzip2/xz byte codec (Python tarfile + compressor) trusted and only exercised.',
         'Several symlinked directories at once, symlinks beneath symlinks, colliding targets: correspondence and direct oracles only.'],
 'C26': ['Lengths >= 2^32: refusal only; data_source targets not driven.'],
 'C27': ['File content as code points (UTF-8 layer not modelled); float()/int(,16) restricted to plain digit strings.',
         'EIO paths and liveness (a completed store makes the entry visible) checked by correspondence and an Example, no general theorem.'],
 'C28': ['iter_scan traversal not modelled (harness recomputes the listing and checksums).',
         'File data = code points; byte-chunked crash points for ASCII texts only; gpg signature skipping outside the model.'],
 'C29': ['"New state is complete" proved for vdb install and binpkg install/replace; for vdb replace only checked per run.',
         'repo_shaped (hypothesis of the view_exec theorems) not proved to be preserved by the op lists; theorems assume no hard links.',
         'Tarball creation by the external compressor is one crash point.'],
 'C30': ['World files holding versioned / blocker / use-dep atoms are outside the model.',
         'Atomicity caveats as C24. pmerge.slotatom_if_slotted seen broken on the pinned tree, not anchored, not repaired.'],
 'C31': ['bash itself: only the emitted fragment is modelled; bash_eval returns None outside it.',
         'Strings are code points (UTF-8 in the framing only); non-string list elements not modelled.',
         '_run_depend_like_phase shares the generator but is not driven end to end.'],
 'C32': ['Image post-conditions proved at install_files level, not lifted through option parsing / makedirs / Doins-Dodoc directory handling.',
         'Converse "failure => a primitive really failed" checked by (B) only; argparse abbreviations, -o/-g, several helper bodies not modelled.'],
 'C33': ['exec (os-call effects) compared, not proved; recursive placement and domo compared against the reference only.',
         'install(1) fallback, -o/-g, -p, argparse intermixing, new*/doconfd/doenvd/doinitd/doheader wrappers not modelled.'],
 'C34': ['Theorems hold for dumps in the quoting styles bash `set` prints and function bodies in the token grammar body_ok; seven failing classes recorded.',
         'The scanner is heuristic: a rare mis-nesting combination of "clean" constructs may still exist (would show as a VIOLATION).'],
 'C35': ['Line-level only; atomic read+reply steps; die text dropped; post-error cleanup not modelled.',
         'Sandboxed daemons and bashrc/IPC-heavy phases exercised only through scripted sessions and one real filter_env round trip.'],
 'C36': ['Unlink failures, userpriv uid/gid switching, signal-killed fetch commands, concurrent distdir writers not modelled.',
         'Digest functions abstract (injective stand-in).'],
 'C37': ['Reference reader/evaluator is the builder\'s reading of Bugzilla::Search::_custom_search; premises wf_query and unique plain keys.',
         'The any_of class (anyof-operand-not-one-chart) is recorded with _refuted/_partial theorems; none of the three findings repaired.'],
 'C38': ['Nothing in the statement. Outside it: `build` modelled on (spec text, keywords) pairs; str(atom) re-parse checked for pool atoms only (C03).'],
 'C39': ['Nothing named in the manifest; the correspondence is exhaustive over a 3-value alphabet (thorough) plus random BugUpdates. (No notes/C39.md exists.)'],
 'C40': ['repo.match modelled for six operators only; use deps / repo ids / blockers never reach match_packages.',
         'Equal versions under different spellings are not generated.'],
 'C41': ['GIL, queue/deque atomicity, thread start/join, threading.Event trusted.',
         'Interrupts, thread-start failure, a functor returning early are outside the model; sampled schedules are those the OS produces.'],
 'C42': ['Atom syntax outside the modelled grammar (use deps, ::repo, blockers, subslots, globs); FileNotFoundError mid-scan; unicode digits in file names.'],
 'C43': ['Typed rendering (convert_string, refs, lazy refs), autoload config sources, `default`, instantiation not covered.'],
 'C44': ['Transitive USE deps and non-ASCII digits outside the model.',
         'That every valid atom text outside head_rejects is atom_shaped is evaluated per case, not proved; C04\'s known classes apply to `describes`.'],
 'C45': ['Premise versions_valid is decidable and evaluated on every case, not discharged in general.',
         'find_vulnerable_repo_pkgs / SecurityUpgrades (repo iteration, MutatedPkg) not modelled.'],
 'C46': ['Name regexes not modelled in Coq (`selected` abstract; the harness replica is trusted).',
         'In-memory domain: the filtered source_repos view of a real domain is not reproduced; -r, -S, -X, os.remove failures not exercised.'],
 'C47': ['HTTP stack and tar binary trusted/compared; kernel rename/mkdir semantics on directories trusted; completed calls durable.',
         'Hidden staging names of other repos, permissions, EXDEV not modelled.'],
 'C48': ['Names, mtimes, md5 values, payloads are abstract numbers; the ebuild daemon is a counting stub (regeneration content is C49).',
         'A failing `del cache[cpv]`, None cache members, force_regen, unsupported EAPIs outside the model.'],
 'C49': ['Only the listed statement forms with metacharacter-free tokens: no conditionals, global-scope function calls, arrays, quoting, `unset -f`, `local`/`declare` in eclass code.',
         'Eclass name -> file resolution given resolved; bash trusted and validated differentially only.'],
}

# ---------------------------------------------------------------- read the tree
def theorems(p):
    path = f'{V}/coq/{p}/Prop_{p}.v'
    if not os.path.exists(path):
        return None
    txt = open(path).read()
    return re.findall(r'(?m)^Theorem\s+([A-Za-z0-9_\']+)', txt)

def tables(p):
    d = f'{V}/coq/{p}'
    s = set()
    if os.path.isdir(d):
        for fn in os.listdir(d):
            if fn.endswith('.v'):
                s.update(re.findall(r'Tables_[A-Za-z0-9_]+', open(os.path.join(d, fn)).read()))
    return sorted(s)

def _note_has(p, pat):
    try:
        return re.search(pat, open(f'{V}/notes/{p}.md').read(), re.I) is not None
    except Exception:
        return False
for _seed, _p in (('C08-2', 'C08'), ('C26-2', 'C26'), ('C29-2', 'C29')):
    if _note_has(_p, r'follow-up|strengthen|missed|seeded'):
        warn.append('notes/%s.md now mentions follow-up/strengthen/missed/seeded: FOLLOW[%s] must be re-read by hand' % (_p, _seed))
_k29 = J(f'{V}/known_findings/C29.json') or {}
if any(f.get('class_id') == 'binpkg-replace-keeps-old' for f in _k29.get('findings', [])):
    FOLLOW['C29-2'] += (' known_findings/C29.json (as read now) has a third class `binpkg-replace-keeps-old` about the same code path '
                        '(a different-name binpkg replace never removes the old tarball on the unchanged tree), which '
                        'manifest.d/C29.json does not name in K%s.' % (
                            '; Prop_C29.v contains a theorem `bin_replace_old_kept`' if 'bin_replace_old_kept' in (theorems('C29') or []) else ''))
hooks = J(f'{V}/manifest.d/_hooks.json') or {}
log = subprocess.check_output(['git', '-C', '/repo', 'log', '--oneline', '--reverse', 'cddb5bf..HEAD'], text=True).strip().splitlines()
commits = [(l.split()[0], l.split(' ', 1)[1]) for l in log]
fixcommits = [(h, s) for h, s in commits if s.startswith('fix:')]
othercommits = [(h, s) for h, s in commits if not s.startswith('fix:')]

kf = {p: (J(f'{V}/known_findings/{p}.json') or {}) for p in PROPS}
commit_props = collections.defaultdict(list)
fixed_lines = {}
for p in PROPS:
    fl = kf[p].get('fixed', []) or []
    fixed_lines[p] = fl
    for f in fl:
        m = re.match(r'fixed: property=(C\d+) ([0-9a-f]{7,})', f)
        if m:
            if p not in commit_props[m.group(2)[:7]]:
                commit_props[m.group(2)[:7]].append(p)
        else:
            warn.append('unparsed fixed line in %s: %s' % (p, f[:60]))

out = []
W = out.append

W('# RESULTS - machine-checked properties of pkgcore (C01..C49)')
W('')
W('Generated from the files of /verif and the history of /repo as they were when this file was written')
W('(`notes/C*.md`, `manifest.d/C*.json`, `known_findings/C*.json`, `seeded/*/meta.json|result.json`,')
W('`coq/C*/Prop_C*.v`, `git -C /repo log cddb5bf..HEAD`).  Nothing was re-run for this summary.')
W('Other builders were still editing /verif while this was written (uncommitted changes under `coq/C18`, `coq/C29`, `evidence/`),')
W('so the counts are a snapshot of the working tree, not of a commit.')
W('')
W('Construction (DESIGN.md sections 1, 4, 7, 11): every property has a hand-written, bug-compatible Gallina **model** of the')
W('code, a declarative **spec** written from the statement, and Coq **theorems** (closed in `Prop_Cxx.v`, no axioms) relating')
W('the two for all inputs.  The theorems are about the model; the model is tied to `/repo` on every run by a')
W('**correspondence** check: (A) implementation vs model and (B) implementation vs spec / direct oracle on generated inputs,')
W('evaluated inside Coq with `vm_compute`.  A failing (B) gives `VIOLATION ... replay=<file>` with a concrete input; a failing')
W('(A), proof obligation, generated table or harness exception without such an input gives the same line ending in')
W('`no-failing-input-found` ("broken tie").  Where the unchanged code violates a property, the defect was either repaired')
W('(`fix:` commit in /repo, `fixed:` line in known_findings) or recorded as an open known finding with a decidable class;')
W('the theorem then holds outside the class (`*_partial`) and the full statement is refuted by a witness (`*_refuted`).')
W('')

# ---------------------------------------------------------------- section 1
W('## 1. Per-property summary')
W('')
W('Qualifier: opening words of `manifest.d/Cxx.json` `level_claimed.text`, preceded by a category:')
W('**F** = full, **K** = full outside known classes, **M** = the text claims full for one part and partial for another,')
W('**P** = partial.  "Thms" = number of `^Theorem` in `coq/Cxx/Prop_Cxx.v` (this includes `*_refuted` and table theorems).')
W('"Open" = entries under `findings` in `known_findings/Cxx.json`; "Fixed" = number of `fixed:` lines there (several lines may')
W('name one commit, and one commit may be listed under two properties; see section 2 for distinct commits).')
W('"Tables" = generated `coq/gen/Tables_*` modules referenced by the property\'s own Coq files (regenerated from source every run;')
W('tables reached only through an imported property\'s model are not repeated).')
W('')
W('| Prop | Title | Qualifier | Thms | Key theorems | Open | Fixed | Tables / hook |')
W('|---|---|---|---|---|---|---|---|')
tot_thm = 0
tot_open = 0
tot_fixed_lines = 0
cat_count = collections.Counter()
thm_unknown = False
for p in PROPS:
    th = theorems(p)
    if th is None:
        n = '?'
        thm_unknown = True
        warn.append('no Prop file for ' + p)
        keys = KEYTHM[p]
    else:
        n = len(th)
        tot_thm += n
        keys = [k for k in KEYTHM[p] if k in th]
        for k in KEYTHM[p]:
            if k not in th:
                warn.append('%s: key theorem %s not in Prop file' % (p, k))
    fs = kf[p].get('findings', []) or []
    tot_open += len(fs)
    tot_fixed_lines += len(fixed_lines[p])
    cat, phrase = QUAL[p]
    cat_count[cat] += 1
    tb = tables(p)
    tcell = ('yes: ' + ', '.join(tb)) if tb else 'no'
    if p == 'C35':
        tcell += '; hook PKGCORE_VERIF_TRACE (' + ', '.join(hooks.get('source_commits', ['?'])) + ')'
    W('| %s | %s | **%s** %s | %s | %s | %d | %d | %s |' % (
        p, TITLE[p], cat, phrase, n, ', '.join('`%s`' % k for k in keys), len(fs), len(fixed_lines[p]), tcell))
W('')
W('Totals: %d properties; category F %d, K %d, M %d, P %d; %s%d property theorems; %d open findings; %d `fixed:` lines.' % (
    len(PROPS), cat_count['F'], cat_count['K'], cat_count['M'], cat_count['P'],
    '>= ' if thm_unknown else '', tot_thm, tot_open, tot_fixed_lines))
W('')
W('Cross-property imports (Coq `Require` of another property\'s model/lemmas): C02, C04, C05, C07, C16, C44, C45 use C01;')
W('C05, C44, C45 use C04; C44, C45 use C03; C07, C08 use C06 (`Restr.v`); C13 uses C12; C19, C20, C24, C27-C30, C47 use')
W('C18 (`Fs.v`); C21, C24, C25, C30 use C22; C30 uses C24; C35 uses C41 (`Lts.v`); C43 uses C42; C45 uses C44.')
W('')

# ---------------------------------------------------------------- section 2
W('## 2. Defects repaired in /repo')
W('')
W('`git -C /repo log --oneline cddb5bf..HEAD` has %d commits: %d `fix:` commits and %d other.  "Property" is taken from the' % (
    len(commits), len(fixcommits), len(othercommits)))
W('`fixed: property=Cxx <commit>` lines of `known_findings/*.json`.  Descriptions are the commit subjects; the failing')
W('inputs are in the `fixed:` lines and the notes.  In commit order:')
W('')
W('| # | Commit | Property | Description |')
W('|---|---|---|---|')
unref = []
for i, (h, s) in enumerate(fixcommits, 1):
    ps = commit_props.get(h[:7], [])
    if not ps:
        unref.append(h)
    W('| %d | %s | %s | %s |' % (i, h, ', '.join(ps) if ps else '?', s[len('fix:'):].strip().replace('|', '\\|')))
W('')
multi = [h for h, _ in fixcommits if len(commit_props.get(h[:7], [])) > 1]
W('Distinct `fix:` commits: %d.  Commits listed under two properties: %s.  Commits whose `fixed:` entry spans several lines'
  % (len(fixcommits), ', '.join('%s (%s)' % (h, '+'.join(commit_props[h[:7]])) for h in multi) or 'none'))
many = []
for p in PROPS:
    c = collections.Counter(re.match(r'fixed: property=C\d+ ([0-9a-f]{7})', f).group(1) for f in fixed_lines[p] if re.match(r'fixed: property=C\d+ ([0-9a-f]{7})', f))
    for h, n in c.items():
        if n > 1:
            many.append('%s (%s, %d defects)' % (h, p, n))
W('(several defects closed by one commit): %s.' % (', '.join(many) or 'none'))
if unref:
    W('`fix:` commits not named in any `fixed:` line: %s.' % ', '.join(unref))
hashes_in_log = set(h[:7] for h, _ in commits)
stray = [h for h in commit_props if h not in hashes_in_log]
if stray:
    W('Hashes in `fixed:` lines that are not in the log range: %s.' % ', '.join(stray))
W('')
W('Hook commit (not a repair):')
W('')
for h, s in othercommits:
    W('* %s - %s' % (h, s))
W('  `manifest.d/_hooks.json`: guard `%s`, add_only=%s, source_commits=%s.  Used by C35 (trace correspondence of the'
  % (hooks.get('guard', '?'), hooks.get('add_only', '?'), hooks.get('source_commits', '?')))
W('  protocol lines; per the manifest the C35 check can also tap the lines from the harness without it).  No other property')
W('  uses a hook in /repo.')
W('')
W('Patches are kept in `/verif/fixes/` (%d files; not one file per commit throughout, e.g. a single `C15-resolver.patch`,' % len(os.listdir(f'{V}/fixes')))
W('`C14-cache-invalidation.patch`, `C31-env-quoting.patch`), including `C35-hook-trace.patch` and the optional cosmetic')
W('`C23-setid-warning-labels.patch`, which has no commit in the log.')
W('')

# ---------------------------------------------------------------- section 3
W('## 3. Open known findings')
W('')
W('Recorded, not repaired; each reproduces on the real code and is printed as `KNOWN-FINDING:` by the check, which exits 0.')
W('A failure outside the listed class predicates is reported as a new violation.  %d findings in %d properties.' % (
    tot_open, sum(1 for p in PROPS if kf[p].get('findings'))))
W('')
for p in PROPS:
    fs = kf[p].get('findings', []) or []
    if not fs:
        continue
    W('**%s** (%d)' % (p, len(fs)))
    W('')
    for f in fs:
        cid = f.get('class_id', '?')
        txt = FIND.get((p, cid))
        if txt is None:
            w = (f.get('what') or '?').replace('\n', ' ')
            txt = w if len(w) <= 260 else w[:257].rsplit(' ', 1)[0] + ' ...'
            warn.append('finding %s/%s has no hand-written line; used "what"' % (p, cid))
        W('* `%s` - %s' % (cid, txt))
    W('')
none = [p for p in PROPS if not kf[p].get('findings')]
W('No open findings: %s.' % ', '.join(none))
W('')
W('Related classes: C07 `atom-blocker-strength` / `atom-use-order` and C09 `depset-eq-atom-hash` are the C02 atom hash/eq')
W('findings seen from another property; C05 `incomplete-glob-nonboundary-witness` / `incomplete-use-nand-witness` and C45')
W('`glob-string-prefix` follow from the two C04 classes; C19 `stale-new-reused` is the C18 class seen at a fault.')
W('')

# ---------------------------------------------------------------- section 4
W('## 4. Seeded changes and which checks catch them')
W('')
W('`seeded/<dir>/` holds one independently written breaking change each (`patch.diff`, `meta.json`, a `demo.py` that exits 0')
W('on the pristine tree and 1 with the change) and `result.json` = what `./check Cxx` (quick tier, seed 0) reported on the')
W('changed tree at the time the seed was evaluated.  Result classes:')
W('**INPUT** = `check_rc` 1 and `violation_kinds` contains `property` (a concrete failing input was reported);')
W('**TIE** = `check_rc` 1 but only correspondence / proof / table / harness-exception kinds (`no-failing-input-found`);')
W('**MISSED** = `check_rc` 0.  The kinds column counts the VIOLATION lines by kind.')
W('')
W('| Seed | Prop | Seeded change | Needs to manifest | Result (first run) | Kinds | After strengthening |')
W('|---|---|---|---|---|---|---|')
after_count = collections.Counter()
seed_dirs = sorted(os.listdir(f'{V}/seeded'))
res_count = collections.Counter()
weak = []
for d in seed_dirs:
    if not os.path.isdir(f'{V}/seeded/{d}'):
        continue
    meta = J(f'{V}/seeded/{d}/meta.json') if os.path.exists(f'{V}/seeded/{d}/meta.json') else None
    res = J(f'{V}/seeded/{d}/result.json') if os.path.exists(f'{V}/seeded/{d}/result.json') else None
    prop = (meta or {}).get('property') or (res or {}).get('property') or '?'
    if d in SEED:
        summ, needs = SEED[d]
    else:
        summ = ((meta or {}).get('summary') or '?')[:200]
        needs = ((meta or {}).get('needs') or '?')[:200]
    if res is None:
        cls, kinds = '?', 'no result.json'
        res_count['?'] += 1
    else:
        vk = res.get('violation_kinds') or []
        rc = res.get('check_rc')
        cnt = collections.Counter(vk)
        kinds = ', '.join('%s x%d' % (k, v) for k, v in cnt.items()) or '-'
        if rc == 0:
            cls = 'MISSED'
        elif rc is None:
            cls = '?'
        elif 'property' in vk:
            cls = 'INPUT'
        else:
            cls = 'TIE'
        res_count[cls] += 1
        if cls in ('MISSED', 'TIE'):
            weak.append((d, prop, cls))
        # consistency with the flags stored in result.json
        if res.get('caught') is not None and bool(res.get('caught')) != (cls in ('INPUT', 'TIE')):
            warn.append('seed %s: caught flag disagrees with check_rc' % d)
        if res.get('caught_with_input') is not None and bool(res.get('caught_with_input')) != (cls == 'INPUT'):
            warn.append('seed %s: caught_with_input flag disagrees with violation_kinds' % d)
    aft = J(f'{V}/seeded/{d}/result_after.json') if os.path.exists(f'{V}/seeded/{d}/result_after.json') else None
    if aft is None:
        acls = '' ; final = cls
    elif aft.get('error'):
        acls = 'n/a (seed patch no longer applies after a repair of the same lines)'; final = 'n/a'
    else:
        avk = aft.get('violation_kinds') or []
        acls = 'MISSED' if aft.get('check_rc') == 0 else ('INPUT' if 'property' in avk else 'TIE'); final = acls
    after_count[final] += 1
    W('| %s | %s | %s | %s | **%s** | %s | %s |' % (d, prop, summ.replace('|', '\\|'), needs.replace('|', '\\|'), cls, kinds.replace('|', '\\|'), ('**%s**' % acls) if acls else ''))
W('')
nseeds = sum(res_count.values())
W('Totals: %d seeds over %d properties; caught with a concrete failing input %d; caught only as a broken tie %d; missed %d%s.' % (
    nseeds, len(set(re.sub(r'-\d+$', '', d) for d in seed_dirs)), res_count['INPUT'], res_count['TIE'], res_count['MISSED'],
    ('; undetermined %d' % res_count['?']) if res_count['?'] else ''))
W('After the follow-up strengthening rounds the seeds marked in the last column were re-run (`result_after.json`): final state INPUT %d, TIE %d, MISSED %d, n/a %d.' % (after_count['INPUT'], after_count['TIE'], after_count['MISSED'], after_count['n/a']))
W('All %d demos behave as described in `result.json` (`demo_pristine_rc` 0, `demo_patched_rc` 1).' % nseeds
  if all((J(f'{V}/seeded/{d}/result.json') or {}).get('demo_pristine_rc') == 0 and (J(f'{V}/seeded/{d}/result.json') or {}).get('demo_patched_rc') == 1
         for d in seed_dirs if os.path.exists(f'{V}/seeded/{d}/result.json'))
  else 'Not every demo has demo_pristine_rc 0 / demo_patched_rc 1 in result.json.')
W('')
W('Missed and tie-only seeds, and whether `notes/Cxx.md` records a follow-up strengthening (searched for "follow-up",')
W('"strengthen", "missed").  The first-run column shows the first evaluation; the last column the re-run after the follow-up.')
W('')

def follow_from_notes(d, prop):
    """first lines of the builder's own paragraph about the round this seed belongs to (notes/Cxx.md)"""
    m = re.search(r'-(\d+)$', d)
    rnd = int(m.group(1)) if m else 1
    if prop == 'C35' and rnd >= 3:
        rnd += 1
    pats = {5: r'round[ -]5', 4: r'round[ -]4', 3: r'round[ -]3|third[ -]round', 2: r'round[ -]2|second[ -]round|follow-up'}.get(rnd, r'follow-up')
    after = os.path.exists(f'{V}/seeded/{d}/result_after.json')
    tail = ' (re-run: `seeded/%s/result_after.json`)' % d if after else ''
    path = f'{V}/notes/{prop}.md'
    if os.path.exists(path):
        txt = open(path).read()
        mm = re.search(r'(?im)^.*(' + pats + r').*$', txt)
        if mm:
            para = txt[mm.start():mm.start() + 900]
            para = re.sub(r'\s+', ' ', para.replace('|', '/')).strip()
            return 'notes/%s.md: "%s ..."%s' % (prop, para[:520], tail)
    return 'see notes/%s.md%s' % (prop, tail)

for d, prop, cls in weak:
    W('* **%s** (%s, %s): %s' % (d, prop, cls, FOLLOW.get(d) or follow_from_notes(d, prop)))
W('')
W('What the notes give as the cause: for C16, C19, C27, C48 and C49 a generator gap - the input shape or multi-step history the')
W('seed needs was not produced at the time (a build-time cycle with the atom needed twice judged without asking the same resolver;')
W('a content-identical replaced file plus a fault; fractional mtimes; objects kept across reads of packages sharing an inherit set;')
W('eclasses setting one accumulated variable alone).  For C07 the Coq build failed on a `tbl_*_ok` tie to a regenerated tuple (the only')
W('VIOLATION line; per the follow-up the harness now still runs the Coq streams in that case), and for C11 the (neg, pos) entry was not compared with the line it came from.  For C26-2 `result.json` shows the harness itself')
W('raising in `harness/c26.py` (obligations 0/0, one `harness-exception` line); for C08-2 three correspondence lines (the first on')
W('stream `shapes`); for C29-2 an exit 0 with 22/22 obligations.  The notes give no cause for these three.')
W('')

# ---------------------------------------------------------------- section 5
W('## 5. What remains partial')
W('')
W('Taken from the "Partial / Limits / Not modelled / Remaining" sections of `notes/Cxx.md`; where a note has no such section,')
W('from `level_claimed.text` / `level_note` of `manifest.d/Cxx.json`.  Common to all properties (DESIGN section 7): the theorems are')
W('about hand-written models tied to the code only by the per-run correspondence; trusted are the Coq kernel with `vm_compute`,')
W('the table translator, and the Python generators, drivers, canonicalisers and oracles of `harness/`.  The filesystem properties')
W('additionally assume each completed call is atomic and durable (C18/Fs.v).')
W('')
for p in PROPS:
    W('**%s** - %s (%s)' % (p, TITLE[p], CATNAME[QUAL[p][0]]))
    W('')
    for b in PARTIAL[p]:
        W('* ' + b)
    W('')

if warn:
    W('## Generation warnings')
    W('')
    for w_ in warn:
        W('* ' + w_)
    W('')

text = '\n'.join(out) + '\n'
with open(f'{V}/notes/RESULTS.md', 'w') as f:
    f.write(text)

# ---------------------------------------------------------------- console summary
print(f'{V}/notes/RESULTS.md  ({len(text.splitlines())} lines)')
print('properties: %d  (full %d, full outside known classes %d, mixed %d, partial %d)' % (
    len(PROPS), cat_count['F'], cat_count['K'], cat_count['M'], cat_count['P']))
print('property theorems in Prop_C*.v: %s%d' % ('>= ' if thm_unknown else '', tot_thm))
print('fix commits in /repo: %d (+ %d hook commit); fixed: lines in known_findings: %d' % (len(fixcommits), len(othercommits), tot_fixed_lines))
print('open known findings: %d in %d properties' % (tot_open, sum(1 for p in PROPS if kf[p].get('findings'))))
print('seeds: %d' % nseeds)
print('  caught with concrete input: %d' % res_count['INPUT'])
print('  caught as broken tie only : %d  (%s)' % (res_count['TIE'], ', '.join(d for d, _, c in weak if c == 'TIE')))
print('  missed (check_rc 0)       : %d  (%s)' % (res_count['MISSED'], ', '.join(d for d, _, c in weak if c == 'MISSED')))
print('  follow-up recorded in notes for: %s' % ', '.join(d for d, _, _ in weak if FOLLOW.get(d, '').startswith('yes')))
print('warnings: %d' % len(warn))
for w_ in warn:
    print('  WARN', w_)
