"""C30 — world-file updates record exactly the requested entries (DESIGN §6 C30).

The check passes only on a tree with fixes/C30-world-slot.patch applied (WorldFile._modify iterated
the slot string character by character; the model is the repaired behaviour).

Streams
  seq     random existing world files (entries cat/pkg[:slot], comments, blank lines, @set lines,
          padded lines, CRLF) and sequences of add / remove / flush / pmerge.update_worldset calls
          with atoms of every slot shape (none, 0, one character, multi-character, dotted, 00, 0.,
          with sub-slot, with slot operator, :* and :=) and decorations (version operators,
          blockers, use deps, repo ids); after every call: exception kind + text of the file;
          at the end the sorted set:
            (A) vs Model_C30.run_seq
            (B) Python reference over plain text lines: exactly name / name:slot recorded or
                removed, KeyError iff absent, every other line intact, file == set after a flush
  parse   world-file texts incl. malformed lines -> sorted entries or ParsingError vs run_wparse
  fault   flush() after some adds/removes into a directory holding the old world file, possibly a
          stale .update.world, and a bystander; every attempted mutating call is a crash point and
          an EIO point (harness/fsx.py): (A) vs Model_C30.run_wfault, (B) Spec_C30.spec_wfault_ok +
          Python oracle (old or complete new file with the requested mode/gid, nothing else
          touched, no temporary after an EIO)
"""

from __future__ import annotations

import gc
import json
import os
import shutil
import sys
import time

from . import fsx
from .c24 import cres, esc
from .common import VERIF, Check, Err, Raw, cN, cbool, clist, cnat, copt, impl_call

IMPORTS = ("From Coq Require Import List NArith ZArith Bool.\n"
           "From Verif Require Import Base.Val C18.Fs C24.Model_C24 C30.Model_C30 C30.Spec_C30.")
ANCHORS = ["pkgsets/filelist.py::WorldFile._modify", "pkgsets/filelist.py::WorldFile.add",
           "pkgsets/filelist.py::WorldFile.remove", "pkgsets/filelist.py::FileList.flush",
           "pkgsets/filelist.py::FileList._parse", "pkgsets/filelist.py::FileList.add",
           "pkgsets/filelist.py::FileList.remove", "scripts/pmerge.py::update_worldset"]

CATS = ["dev-util", "sys-apps", "x11-base", "a", "dev-libs", "a-b"]
PKGS = ["bsdiff", "diffball", "foo-bar", "lib", "b", "gtk+", "xorg-x11", "a_b"]
SLOTS = [None, None, "0", "1", "2", "7", "10", "12", "00", "0.", "1.2", "1.2.3-r1", "3.11", "stable", "_x", "+x",
         "2.0", "20", "101", "0a"]


# --------------------------------------------------------------------------- generators
def gen_key(rng, pool):
    if pool and rng.random() < 0.6:
        return rng.choice(pool)
    k = (rng.choice(CATS), rng.choice(PKGS))
    pool.append(k)
    return k


def gen_world_text(rng, pool, malformed=False):
    lines, ents = [], []
    for _ in range(rng.randint(0, 6)):
        c, p = gen_key(rng, pool)
        s = rng.choice(SLOTS)
        ents.append((c, p, s))
        lines.append(f"{c}/{p}" + (f":{s}" if s is not None else ""))
    for _ in range(rng.choice([0, 0, 1, 2])):
        lines.insert(rng.randrange(len(lines) + 1),
                     rng.choice(["", "# a comment", "#", "@world", "@system", "   ", "#a/b:1"]))
    if malformed:
        lines.insert(rng.randrange(len(lines) + 1), rng.choice(["foo", "a/b c", "a/b:", ":1", "a/", "/b", "x y/z"]))
    lines = [(rng.choice([" ", "\t", "  "]) + l + rng.choice([" ", "", "\t"])) if rng.random() < 0.15 else l
             for l in lines]
    eol = rng.choice(["\n", "\n", "\n", "\r\n"])
    return eol.join(lines) + (eol if lines and rng.random() < 0.7 else ""), ents


def gen_atom(rng, pool):
    """-> atom string whose (category, package, slot) the real parser will extract"""
    c, p = gen_key(rng, pool)
    s = rng.choice(SLOTS)
    txt = f"{c}/{p}"
    r = rng.random()
    if r < 0.2:
        op = rng.choice(["=", ">=", "~", "<"])
        txt = op + txt + "-" + rng.choice(["1", "2.1", "0.4"] + ([] if op == "~" else ["0.4-r1"]))
    tail = ""
    if s is not None:
        tail = ":" + s
        r2 = rng.random()
        if r2 < 0.12:
            tail += "/" + rng.choice(["2", "5.2", "0"])
        if r2 > 0.88:
            tail += "="
    elif rng.random() < 0.12:
        tail = rng.choice([":*", ":="])
    txt += tail
    if rng.random() < 0.06:
        txt += "::gentoo"
    if rng.random() < 0.1:
        txt += rng.choice(["[foo]", "[-bar,baz]"])
    if rng.random() < 0.06:
        txt = rng.choice(["!", "!!"]) + txt
    return txt


def gen_ops(rng, pool, n_lo=1, n_hi=6, kinds=("add", "add", "remove", "remove", "flush", "uadd", "uremove")):
    return [(k, None) if k == "flush" else (k, gen_atom(rng, pool))
            for k in (rng.choice(kinds) for _ in range(rng.randint(n_lo, n_hi)))]


# --------------------------------------------------------------------------- implementation driver
class Impl:
    def __init__(self, chk):
        from pkgcore.ebuild.atom import atom
        from pkgcore.pkgsets.filelist import WorldFile
        from pkgcore.scripts.pmerge import update_worldset
        self.atom, self.WF, self.uws = atom, WorldFile, update_worldset
        self.dir = str(chk.scratch / "impl30")
        os.makedirs(self.dir, exist_ok=True)
        self.path = os.path.join(self.dir, "world")

    def clean(self):
        for n in os.listdir(self.dir):
            os.unlink(os.path.join(self.dir, n))

    def text(self, path=None):
        try:
            with open(path or self.path, "rb") as f:
                return f.read().decode("ascii", "replace")
        except FileNotFoundError:
            return None

    def apply(self, w, kind, a):
        if kind == "add":
            w.add(a)
        elif kind == "remove":
            w.remove(a)
        elif kind == "flush":
            w.flush()
        elif kind == "uadd":
            self.uws(w, a)
        else:
            self.uws(w, a, remove=True)

    def run_seq(self, text, ops):
        """-> canonical result (list of [status, file text] + final sorted set) or Err"""
        self.clean()
        with open(self.path, "wb") as f:
            f.write(text.encode("ascii"))
        w = self.WF(self.path, gid=0)
        r = impl_call(lambda: len(w))
        if isinstance(r, Err):
            return r
        out = []
        for kind, a in ops:
            st = impl_call(lambda: self.apply(w, kind, a))
            out.append([st if isinstance(st, Err) else None, self.text()])
        out.append([str(x) for x in sorted(w)])
        return out

    def run_parse(self, text):
        self.clean()
        with open(self.path, "wb") as f:
            f.write(text.encode("ascii"))
        return impl_call(lambda: [str(x) for x in sorted(self.WF(self.path, gid=0))])


def recorded(a) -> str:
    """the statement: name, or name:slot when a non-zero slot is given"""
    return a.key if (not a.slot or a.slot == "0") else f"{a.key}:{a.slot}"


def ref_lines(text):
    out = set()
    for l in text.replace("\r\n", "\n").replace("\r", "\n").split("\n"):
        l = l.strip()
        if l and not l.startswith("#") and not l.startswith("@"):
            out.add(l)
    return out


def oracle_seq(text, ops, res):
    """(B): deviations of the implementation's run from the statement, on plain text lines"""
    if isinstance(res, Err):
        return None
    ref = ref_lines(text)
    disk = text
    for i, ((kind, a), (st, ftxt)) in enumerate(zip(ops, res[:-1])):
        if kind in ("add", "uadd"):
            if st is not None:
                return f"op {i} ({kind} {a}): raised {st.kind}"
            ref = ref | {recorded(a)}
        elif kind in ("remove", "uremove"):
            want = recorded(a)
            if want in ref:
                if st is not None:
                    return f"op {i} ({kind} {a}): raised {st.kind} although {want} is recorded"
                ref = ref - {want}
                if kind == "uremove":
                    disk = None
            else:
                if kind == "remove" and (st is None or st.kind != "KeyError"):
                    return f"op {i} (remove {a}): {want} is not recorded, expected KeyError, got {st}"
                if kind == "uremove" and st is not None:
                    return f"op {i} (update_worldset remove {a}): raised {st.kind}"
                if ftxt != disk and disk is not None:
                    return f"op {i} ({kind} {a}): the file changed although nothing was removed"
                continue
        elif st is not None:
            return f"op {i} (flush): raised {st.kind}"
        if kind in ("flush", "uadd", "uremove"):
            lines = ftxt.split("\n") if ftxt else []
            if set(lines) != ref or len(lines) != len(ref):
                return (f"op {i} ({kind} {a}): file holds {sorted(lines)} but the set must be {sorted(ref)}")
            disk = ftxt
        elif ftxt != disk and disk is not None:
            return f"op {i} ({kind} {a}): the file changed without a flush"
        else:
            disk = ftxt
    if set(res[-1]) != ref or len(res[-1]) != len(ref):
        return f"final set {res[-1]} but must be {sorted(ref)}"
    return None


# --------------------------------------------------------------------------- Coq rendering
def c_op(impl, kind, a):
    if kind == "flush":
        return "WFlush"
    at = impl.atom(a)
    ctor = {"add": "WAdd", "remove": "WRemove", "uadd": "UAdd", "uremove": "URemove"}[kind]
    return f"{ctor} {esc(at.category)} {esc(at.package)} {copt(at.slot, esc, 'bstr')}"


def c_ops(impl, ops):
    return clist([c_op(impl, k, a) for k, a in ops], "wop")


# --------------------------------------------------------------------------- fault stream
class FaultRunner:
    NAMES = ("world", ".update.world", "other")

    def __init__(self, chk, impl):
        self.impl = impl
        self.root = str(chk.scratch / "fault30")

    def build(self, old, stale):
        shutil.rmtree(self.root, ignore_errors=True)
        os.makedirs(self.root)
        for name, data, mode in (("world", old, 0o600), (".update.world", stale, 0o640), ("other", b"", 0o644)):
            if data is None:
                continue
            p = os.path.join(self.root, name)
            with open(p, "wb") as f:
                f.write(data)
            os.chmod(p, mode)
            os.utime(p, (0, 0))

    def snap(self):
        out = []
        for name in self.NAMES:
            p = os.path.join(self.root, name)
            try:
                st = os.lstat(p)
            except FileNotFoundError:
                out.append(None)
                continue
            if not os.path.isfile(p) or os.path.islink(p):
                out.append(Err("notfile"))
                continue
            with open(p, "rb") as f:
                out.append([f.read(), st.st_mode & 0o7777, st.st_uid, st.st_gid])
        return out, sorted(set(os.listdir(self.root)) - set(self.NAMES))

    def run(self, old, stale, ops, mode, gid, chunk, k=None, fmode="crash"):
        self.build(old, stale)
        w = self.impl.WF(os.path.join(self.root, "world"), gid=gid, mode=mode)
        for kind, a in ops:
            try:
                self.impl.apply(w, kind, self.impl.atom(a))
            except Exception:  # noqa: BLE001 - KeyError of remove; anything else shows up in stream seq
                pass
        new_text = "\n".join(str(x) for x in sorted(w))
        ch = chunk or None
        if k is None:
            r = fsx.record(w.flush, self.root, chunk=ch)
        else:
            r = fsx.run_with_fault(w.flush, self.root, k, fmode, chunk=ch)
        trace, exc = r.trace, (type(r.exc).__name__ if r.exc is not None else None)
        if r.crashed:
            snap, stray = self.snap()
        r.exc = None
        del r, w
        gc.collect()
        if not (k is not None and fmode == "crash"):
            snap, stray = self.snap()
        return trace, exc, snap, stray, new_text


def c_wfault(impl, old, stale, ops, mode, gid, chunk, k, eio):
    return ("{| w_old := %s; w_stale := %s; w_ops := %s; w_mode := %s; w_gid := %s; w_chunk := %s; w_k := %s; "
            "w_eio := %s |}" % (copt(old, esc, "bstr"), copt(stale, esc, "bstr"), c_ops(impl, ops), cN(mode), cN(gid),
                                cnat(chunk), cnat(k), cbool(eio)))


def corpus():
    out = []
    d = VERIF / "corpus" / "C30"
    if d.is_dir():
        for p in sorted(d.glob("*.json")):
            out += json.loads(p.read_text())
    return out


# --------------------------------------------------------------------------- main
def main(chk: Check):
    chk.rule("seq: random world files (0-6 entries cat/pkg[:slot] + comment/blank/@set/padded lines) and 1-6 "
             "add/remove/flush/update_worldset calls with atoms of every slot shape (none, 0, 1 char, multi-char, "
             "dotted, 00, 0., sub-slot, slot operator, :*, :=) and decorations; non-trivial = a sequence holding a call "
             "whose atom has a slot of more than one character, or the slot 0, on a key present in the file.  fault: "
             "every attempted mutating call of flush() is a crash and an EIO point; non-trivial = fault after the "
             "first data byte")
    ok = chk.build(["C30/Prop_C30.vo"])
    if ok:
        chk.check_assumptions("C30/Prop_C30.v")
    chk.lint(["C30", "C24"])
    chk.check_fingerprint(ANCHORS)
    chk.note("the model is the REPAIRED WorldFile._modify (fixes/C30-world-slot.patch); partial (atomicity): a "
             "completed call is assumed durable; AtomicWriteFile modelled as its os-level call sequence")
    import logging
    lg = logging.getLogger("pkgcore")
    old_hook, old_level = sys.unraisablehook, lg.level
    sys.unraisablehook = lambda *a: None
    lg.setLevel(logging.ERROR)          # "set item 'world' found in pkgset ..." for every @set line
    try:
        _run(chk, ok)
    finally:
        sys.unraisablehook = old_hook
        lg.setLevel(old_level)


def _run(chk, ok):
    rng = chk.rng
    impl = Impl(chk)
    prop_bad = []
    tm = {"setup": round(time.time() - chk.t0, 1)}
    t1 = time.time()
    # ---------------------------------------------------------------- seq
    seq_cases, seq_meta = [], []
    todo = [(c["text"], [tuple(o) for o in c["ops"]]) for c in corpus() if c.get("stream") == "seq"]
    for _ in range(chk.n(320, 5000)):
        pool = []
        text, _ents = gen_world_text(rng, pool, malformed=rng.random() < 0.04)
        todo.append((text, gen_ops(rng, pool)))
    for text, ops in todo:
        aops = [(k, impl.atom(a) if a is not None else None) for k, a in ops]
        res = impl.run_seq(text, aops)
        seq_cases.append((f"({esc(text)}, {c_ops(impl, ops)})", Raw(cres(res))))
        seq_meta.append({"text": text, "ops": ops})
        chk.count("seq")
        keys = {l.split(":")[0] for l in ref_lines(text)}
        if any(a is not None and a.slot and (len(a.slot) > 1 or a.slot == "0") and a.key in keys for _, a in aops):
            chk.nontrivial(("seq", text, tuple(ops)))
        why = oracle_seq(text, aops, res)
        if why:
            prop_bad.append((why, {"text": text, "ops": ops, "implementation": res}))
    chk.sample({"stream": "seq", "input": seq_cases[-1][0][:300], "impl": seq_cases[-1][1].term[:300]})
    tm["seq"] = round(time.time() - t1, 1)
    t1 = time.time()

    # ---------------------------------------------------------------- parse
    parse_cases = []
    texts = [c["text"] for c in corpus() if c.get("stream") == "parse"]
    for _ in range(chk.n(150, 2000)):
        texts.append(gen_world_text(rng, [], malformed=rng.random() < 0.3)[0])
    for t in texts:
        res = impl.run_parse(t)
        if isinstance(res, Err):
            chk.nontrivial(("parse-err", t))
        parse_cases.append((esc(t), Raw(cres(res))))
        chk.count("parse")

    # ---------------------------------------------------------------- fault
    fr = FaultRunner(chk, impl)
    fault_cases, fault_meta = [], []
    max_pts = chk.n(22, 70)
    for i in range(chk.n(6, 40)):
        pool = []
        old_text, _ = gen_world_text(rng, pool)
        old = old_text.encode("ascii")
        ops = gen_ops(rng, pool, 1, 3, kinds=("add", "add", "remove"))
        stale = rng.choice([None, None, b"junk", b""])
        mode = rng.choice([0o644, 0o600, 0o664])
        gid = rng.choice([0, 0, 250])
        chunk = rng.choice([0, 1, 4])
        trace0, exc0, snap0, stray0, new_text = fr.run(old, stale, ops, mode, gid, chunk)
        if exc0 is not None:
            prop_bad.append(("flush raised without any fault", {"old": old_text, "ops": ops, "exc": exc0}))
            continue
        n = len(trace0)
        first_write = next((j for j, c in enumerate(trace0) if c.kind == "write"), n)
        pts = list(range(n + 1))
        if len(pts) > max_pts:
            keep = {0, 1, 2, 3, n - 2, n - 1, n}
            pts = sorted(keep | set(rng.sample(pts, max_pts - len(keep))))
        for k in pts:
            for fmode in (("crash", "eio") if k < n else ("crash",)):
                if k == n:
                    snap, stray = snap0, stray0
                else:
                    _, _, snap, stray, _ = fr.run(old, stale, ops, mode, gid, chunk, k, fmode)
                eio = fmode == "eio"
                fault_cases.append((c_wfault(impl, old, stale, ops, mode, gid, chunk, k, eio), Raw(cres([n, snap]))))
                meta = {"old": old_text, "stale": stale, "ops": ops, "mode": mode, "gid": gid, "chunk": chunk, "k": k,
                        "fault": fmode, "call": repr(trace0[k]) if k < n else "(none: complete run)"}
                fault_meta.append(meta)
                chk.count("fault")
                if first_write < k < n:
                    chk.nontrivial(("fault", i, k, fmode))
                w_node, t_node, o_node = snap
                want_old = [old, 0o600, 0, 0]
                want_new = [new_text.encode("ascii"), mode, 0, gid]
                why = None
                if w_node != want_old and w_node != want_new:
                    why = "the world file is neither the old nor the complete new file"
                elif o_node != [b"", 0o644, 0, 0] or stray:
                    why = "a file that is not part of the update changed or appeared"
                elif eio and k >= 1 and t_node is not None:
                    why = "temporary left behind after an I/O error"
                elif k == n and (w_node != want_new or t_node is not None):
                    why = "a complete flush did not install the new file"
                if why:
                    prop_bad.append((why, {**meta, "found": snap, "stray": stray}))
    tm["parse+fault"] = round(time.time() - t1, 1)
    t1 = time.time()

    # ---------------------------------------------------------------- Coq
    corr_bad, spec_bad = [], []
    if ok:
        r = chk.coq_eval("seq", IMPORTS, "bstr * list wop", seq_cases, ["mismatches run_seq cases"], shard=400)
        if r is not None:
            corr_bad += [("seq", seq_cases[i], seq_meta[i]) for i in r[0]]
        r = chk.coq_eval("parse", IMPORTS, "bstr", parse_cases, ["mismatches run_wparse cases"], shard=400)
        if r is not None:
            corr_bad += [("parse", parse_cases[i], None) for i in r[0]]
        r = chk.coq_eval("fault", IMPORTS, "wfault_in", fault_cases,
                         ["mismatches run_wfault cases", "where_ (fun i r => negb (spec_wfault_ok i r)) cases"],
                         shard=400)
        if r is not None:
            corr_bad += [("fault", fault_cases[i], fault_meta[i]) for i in r[0]]
            spec_bad += [("Spec_C30.spec_wfault_ok rejects the tree found after the fault", fault_meta[i]) for i in r[1]]
    tm["coq"] = round(time.time() - t1, 1)
    chk.note("phase seconds: " + json.dumps(tm))

    seen = {}
    for what, inp in prop_bad + (spec_bad if not prop_bad else []):
        key = what.split(":")[0][:40] if what.startswith("op ") else what
        key = "op" if what.startswith("op ") else key
        seen[key] = seen.get(key, 0) + 1
        if seen[key] > 3 or sum(min(v, 3) for v in seen.values()) > 6:
            continue
        chk.violation("property", {"what": what, "input": inp})
    for name, case, meta in corr_bad[:4]:
        chk.violation("correspondence",
                      {"what": f"implementation and Model_C30 disagree on stream '{name}' "
                               "(theorems of Prop_C30 no longer speak about this code)",
                       "input": case[0][:2000], "implementation": case[1].term[:2000], "meta": meta},
                      no_input=not (prop_bad or spec_bad))


def replay(chk, data):
    inp = data.get("detail", {}).get("input", {})
    if not isinstance(inp, dict) or "ops" not in inp or "text" not in inp:
        print("nothing to re-run for this record (see 'what')")
        return
    impl = Impl(chk)
    ops = [tuple(o) for o in inp["ops"]]
    aops = [(k, impl.atom(a) if a is not None else None) for k, a in ops]
    res = impl.run_seq(inp["text"], aops)
    print("implementation:", res)
    print("statement:     ", oracle_seq(inp["text"], aops, res) or "satisfied")
    if chk.build(["C30/Prop_C30.vo"]):
        r = chk.coq_eval("replay", IMPORTS, "bstr * list wop",
                         [(f"({esc(inp['text'])}, {c_ops(impl, ops)})", Raw(cres(res)))], ["mismatches run_seq cases"])
        print("model disagrees:", bool(r and r[0]))
