(* Ord_C08.v — data shared by model and spec of C08: python's string operations and orderings
   (str comparison by code point, tuple comparison, package comparison by (category, package,
   version)), and the standard library's merge sort instantiated with them (the three totality
   lemmas the functor asks for are the only proofs here). *)
From Coq Require Import List NArith Bool Sorting.Mergesort Orders.
Import ListNotations.
From Verif Require Import Base.Val.

(* ------------------------------------------------------------------ strings *)
Fixpoint prefixb (a s : str) : bool :=                  (* s.startswith(a) *)
  match a, s with
  | [], _ => true
  | x :: a', y :: s' => N.eqb x y && prefixb a' s'
  | _ :: _, [] => false
  end.
Definition suffixb (a s : str) : bool := prefixb (rev a) (rev s).   (* s.endswith(a) *)
Fixpoint substrb (a s : str) : bool :=                  (* a in s *)
  prefixb a s || match s with [] => false | _ :: s' => substrb a s' end.
Definition mem_str (s : str) (l : list str) : bool := existsb (str_eqb s) l.
Fixpoint dedup (l : list str) : list str :=             (* a python set of strings, as a list *)
  match l with
  | [] => []
  | x :: r => if mem_str x r then dedup r else x :: dedup r
  end.

(* python's order on str: lexicographic by code point *)
Fixpoint str_leb (a b : str) : bool :=
  match a, b with
  | [], _ => true
  | _ :: _, [] => false
  | x :: a', y :: b' => if N.eqb x y then str_leb a' b' else N.ltb x y
  end.

Definition ver := N.
Definition cp := (str * str)%type.

(* what a restriction is matched against *)
Inductive pobj : Type :=
| PV (c p : str) (v : ver)                  (* package_class(c, p, v) *)
| PU (c p : str)                            (* versioned=False, raw_pkg_cls=UnversionedCPV *)
| PT (c p : str).                           (* versioned=False, default raw_pkg_cls: the bare tuple *)


(* --- sorter=sorted: python's order on (category, package) tuples and on packages *)
Definition cp_leb (a b : cp) : bool :=
  if str_eqb (fst a) (fst b) then str_leb (snd a) (snd b) else str_leb (fst a) (fst b).
Definition okey (o : pobj) : cp := match o with PV c p _ | PU c p | PT c p => (c, p) end.
Definition over (o : pobj) : N := match o with PV _ _ v => v | _ => 0%N end.
Definition obj_leb (a b : pobj) : bool :=
  if str_eqb (fst (okey a)) (fst (okey b)) && str_eqb (snd (okey a)) (snd (okey b))
  then N.leb (over a) (over b) else cp_leb (okey a) (okey b).

Lemma str_leb_total a : forall b, str_leb a b = true \/ str_leb b a = true.
Proof.
  induction a as [|x a IH]; intros [|y b]; cbn; auto.
  rewrite (N.eqb_sym y x). destruct (N.eqb x y) eqn:E; [apply IH|].
  apply N.eqb_neq in E. destruct (N.ltb x y) eqn:L; [auto|right].
  apply N.ltb_ge in L. apply N.ltb_lt. apply N.le_neq; split; auto.
Qed.
Lemma str_eqb_sym a b : str_eqb a b = str_eqb b a.
Proof.
  destruct (str_eqb a b) eqn:E.
  - apply str_eqb_eq in E. subst. symmetry. apply str_eqb_refl.
  - destruct (str_eqb b a) eqn:E2; [|reflexivity]. apply str_eqb_eq in E2. subst.
    rewrite str_eqb_refl in E. discriminate.
Qed.

Module CpOrder <: TotalLeBool.
  Definition t := cp.
  Definition leb := cp_leb.
  Theorem leb_total : forall a b, leb a b = true \/ leb b a = true.
  Proof.
    intros a b. unfold leb, cp_leb. rewrite (str_eqb_sym (fst b) (fst a)).
    destruct (str_eqb (fst a) (fst b)); apply str_leb_total.
  Qed.
End CpOrder.
Module VerOrder <: TotalLeBool.
  Definition t := N.
  Definition leb := N.leb.
  Theorem leb_total : forall a b, leb a b = true \/ leb b a = true.
  Proof.
    intros a b. unfold leb. destruct (N.leb a b) eqn:E; [auto|right].
    apply N.leb_gt in E. apply N.leb_le. apply N.lt_le_incl. exact E.
  Qed.
End VerOrder.
Module ObjOrder <: TotalLeBool.
  Definition t := pobj.
  Definition leb := obj_leb.
  Theorem leb_total : forall a b, leb a b = true \/ leb b a = true.
  Proof.
    intros a b. unfold leb, obj_leb.
    rewrite (str_eqb_sym (fst (okey b)) (fst (okey a))), (str_eqb_sym (snd (okey b)) (snd (okey a))).
    destruct (str_eqb (fst (okey a)) (fst (okey b)) && str_eqb (snd (okey a)) (snd (okey b))).
    - apply VerOrder.leb_total.
    - apply CpOrder.leb_total.
  Qed.
End ObjOrder.
Module CpSort := Sort CpOrder.
Module VerSort := Sort VerOrder.
Module ObjSort := Sort ObjOrder.

