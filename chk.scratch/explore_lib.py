import random, sys
from pkgcore.resolver import state as st
from pkgcore.restrictions import restriction

class Pkg:
    def __init__(s, i, key, slot): s.i, s.key, s.slot = i, key, slot
    def __repr__(s): return f"p{s.i}"
class Ch:
    def __init__(s, i): s.i = i
    def __repr__(s): return f"c{s.i}"
class Blk(restriction.base):
    __slots__ = ("i", "key", "m")
    __inst_caching__ = False
    def __init__(s, i, key, m):
        object.__setattr__(s, "i", i); object.__setattr__(s, "key", key); object.__setattr__(s, "m", m)
    def match(s, p): return s.m[p.i]
    def __repr__(s): return f"b{s.i}"
    def __hash__(s): return id(s)
    def __eq__(s, o): return s is o

def snap(ps):
    sd = {k: sorted(p.i for p in v) for k, v in ps.state.slot_dict.items()}
    lm = {k: sorted(b.i for b in v) for k, v in ps.state.limiters.items()}
    pc = {p.i: c.i for p, c in ps.pkg_choices.items()}
    rb = {c.i: sorted((b.i, k) for b, k in v) for c, v in ps.rev_blockers.items()}
    br = {b.i: n for b, n in ps.blockers_refcnt.items()}
    vf = sorted(p.i for p in ps.vdb_filter)
    fr = dict(ps.forced_restrictions)
    return (sd, lm, pc, rb, br, vf, fr, len(ps.plan))

def call(ps, U, a):
    P, C, B = U
    t = a[0]
    if t == "add": return st.add_op(C[a[1]], P[a[2]], force=a[3]).apply(ps)
    if t == "rep": return st.replace_op(C[a[1]], P[a[2]], force=a[3]).apply(ps)
    if t == "rem": return st.remove_op(C[a[1]], P[a[2]]).apply(ps)
    if t == "hard": return st.add_hardref_op(a[1]).apply(ps)
    if t == "back": return st.add_backref_op(C[a[1]], P[a[2]]).apply(ps)
    if t == "blk": return ps.add_blocker(C[a[1]], B[a[2]], key=a[3])
    if t == "dec": return st.decref_forward_block_op(C[a[1]], B[a[2]], a[3]).apply(ps)
    raise ValueError(a)

def mkU(rng):
    P = [Pkg(0,0,0), Pkg(1,0,0), Pkg(2,0,1), Pkg(3,1,0)]
    C = [Ch(i) for i in range(3)]
    B = [Blk(i, rng.randrange(2), tuple(rng.random()<0.4 for _ in P)) for i in range(2)]
    return P, C, B

def gen(rng, n):
    h = []
    for _ in range(n):
        r = rng.random()
        if r < 0.25: h.append(("add", rng.randrange(3), rng.randrange(4), rng.random()<0.3))
        elif r < 0.4: h.append(("rep", rng.randrange(3), rng.randrange(4), rng.random()<0.2))
        elif r < 0.5: h.append(("rem", rng.randrange(3), rng.randrange(4)))
        elif r < 0.55: h.append(("hard", rng.randrange(2)))
        elif r < 0.6: h.append(("back", rng.randrange(3), rng.randrange(4)))
        elif r < 0.8: h.append(("blk", rng.randrange(3), rng.randrange(2), None))
        else: h.append(("rb", rng.randrange(4)))
    return h

