import sys, time
sys.path.insert(0, "/verif")
from harness.common import Check, Err
from harness import c34
chk = Check("C34")
t=time.time()
cases = c34.build_cases(chk, 24, 2, 0.0)
for c in cases:
    c34.pick_filters(chk.rng, c)
    c.data = "".join(x for _,_,x in c.chunks)
    c.impl = c34.run_impl(c.data, c.vars, c.funcs, c.vwl, c.fwl)
print("total chars", sum(len(c.data) for c in cases)); t=time.time()
TY="((list ((bool * list N) * list N)) * list (list N) * list (list N)) * (bool * bool)"
for ev in (["where_ (fun i r => false) cases"], ["where_ (fun i r => negb (spec_dump_ok i r)) cases"], ["mismatches run_dump cases"]):
    t=time.time()
    r = chk.coq_eval("dump", c34.IMPORTS, TY, [(c34.c_case(c), c34.digest(c.impl)) for c in cases], ev, shard=12)
    print(ev, time.time()-t, r)
import shutil; shutil.copytree(chk.scratch, "/verif/chk.scratch/c34/keep", dirs_exist_ok=True); shutil.rmtree(chk.scratch, ignore_errors=True)
