from pkgcore.ebuild.atom import atom
from pkgcore.ebuild.cpv import CPV
a=atom("=a/b-1-r1"); print(type(a.revision), repr(a.revision), a.version, a.fullver)
a=atom("=a/b-1"); print(type(a.revision), repr(a.revision), a.fullver)
a=atom("=a/b-1-r0"); print(type(a.revision), repr(a.revision), a.fullver, a.cpvstr)
a=atom("~a/b-1"); print(a.restrictions)
a=atom("=a/b-1*"); print(a.restrictions, a.fullver)
a=atom("!!>=a/b-1-r2:0/3=::gentoo[x,-y,z(+),-w(-),q?]"); print(type(a), a.restrictions, a.use)
for r in a.restrictions: print(type(r).__name__, r.negate, r._attr_split, r.restriction)
import pkgcore.ebuild.cpv as c
print(c.Revision.__mro__ if hasattr(c,'Revision') else None)
