import subprocess, sys, os
WT="/tmp/wt_C13m"
def sh(*a, **k): return subprocess.run(a, capture_output=True, text=True, **k)
def edit(path, old, new):
    p=os.path.join(WT,path); s=open(p).read(); assert old in s, (path, old); open(p,"w").write(s.replace(old,new,1))
D="src/pkgcore/ebuild/domain.py"; M="src/pkgcore/ebuild/misc.py"
MUTS={
 "M1-mask-neg-dropped": lambda: edit(D,"            masks.difference_update(neg)\n","            pass\n"),
 "M2-user-unmask-dropped": lambda: edit(D,"        unmasks.update(pkg_unmasks)\n","        pass\n"),
 "M3-star-counts-negated-kw": lambda: edit(D,'                if k[0] not in "-~":','                if k[0] != "~":'),
 "M4-no-detilde-default": lambda: edit(D,'            if x.startswith("~"):\n                default_keywords.add(x.lstrip("~"))','            pass'),
 "M5-license-any-instead-of-all": lambda: edit(D,"            if accepted.issuperset(and_pair):","            if accepted.intersection(and_pair) or not and_pair:"),
 "M6-neg-group-only-name": lambda: edit(M,"                    seen.difference_update(license_groups.get(i, ()))","                    seen.discard(i)"),
 "M7-no-global-neg-replay": lambda: edit(M,"                        for atomlist in atom_d.values():","                        for atomlist in ():"),
 "M9-stable-test-swapped": lambda: edit(D,"        if self.unstable_arch not in default_keys:","        if self.stable_arch not in default_keys:"),
 "M10-pkg-license-appended-before-master": lambda: edit(D,"        raw_accepted_licenses = master_licenses + matched_pkg_licenses","        raw_accepted_licenses = matched_pkg_licenses + master_licenses"),
 "M11-profile-keywords-ignored-for-wildcards": lambda: edit(D,'        if "~*" in allowed:\n            for k in pkg_keywords:','        if "~*" in allowed:\n            for k in pkg.keywords:'),
 "H1-harmless-refactor": lambda: (edit(D,"    for r in chain(globs, atoms.get(pkg.key, ())):\n        if r.match(pkg):\n            return True\n    return False","    return any(r.match(pkg) for r in chain(globs, atoms.get(pkg.key, ())))"),
                                  edit(D,'        return any(True for x in pkg_keywords if x in allowed)','        return not allowed.isdisjoint(pkg_keywords)')),
}
only=sys.argv[1:]
for name,f in MUTS.items():
    if only and name not in only: continue
    sh("git","checkout","--",".",cwd=WT)
    for pf in sorted(os.listdir("/verif/fixes")):
        if pf.startswith("C13-"): r=sh("git","apply","/verif/fixes/"+pf,cwd=WT); assert r.returncode==0, r.stderr
    f()
    env=dict(os.environ, VERIF_REPO=WT)
    r=subprocess.run(["./check","C13"],cwd="/verif",env=env,capture_output=True,text=True)
    lines=[l for l in r.stdout.splitlines() if l.startswith(("VIOLATION","KNOWN","[C13]"))]
    print(name,"exit",r.returncode,"|"," ; ".join(lines[:3]+lines[-1:]),flush=True)
sh("git","checkout","--",".",cwd=WT)
