import time, sys, os
sys.argv=["x"]
from harness import common, c08
chk = common.Check("C08", "quick")
t=time.time(); ok = chk.build(["C08/Prop_C08.vo"]); print("build", time.time()-t)
t=time.time(); chk.check_assumptions("C08/Prop_C08.v"); print("assump", time.time()-t)
m = c08.load_mods()
import random
rng = random.Random(1)
t=time.time()
cases=[]
for i in range(300):
    dicts=[c08.gen_repo(rng) for _ in range(rng.choice([1,1,2,3]))]
    tree=c08.gen_tree(rng, rng.choice([1,2,2,3]))
    try: robj, term = c08.make_case(m, dicts, tree)
    except ValueError: continue
    res = c08.run_impl(m, dicts, robj); c08.oracle(m,dicts,robj)
    cases.append((term,res))
print("impl 300", time.time()-t, sum(len(c[0]) for c in cases)/len(cases))
t=time.time()
r = chk.coq_eval("query", c08.IMPORTS, "qinput", cases, ["mismatches run_query cases","where_ (fun i r => negb (spec_query_ok i r)) cases","where_ (fun i r => negb (spec_tuple_ok i r)) cases"], shard=150)
print("coq 300 (2 shards)", time.time()-t)
t=time.time()
r = chk.coq_eval("query", c08.IMPORTS, "qinput", cases[:50], ["mismatches run_query cases"], shard=50)
print("coq 50 model only", time.time()-t)
