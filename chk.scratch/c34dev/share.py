import sys, random, collections
sys.path.insert(0, "/verif")
from harness.common import Check
from harness import c34
chk = Check("C34"); chk.rng = random.Random(int(sys.argv[1]))
cases = c34.build_cases(chk, int(sys.argv[2]), 2, 0.0)
funs = []
for c in cases:
    for k, nm, t in c.chunks:
        if k == "f":
            f = c34.lex_func(nm, t)
            if f: funs.append((f, t))
r = chk.coq_eval("sh", c34.IMPORTS, "def", [(f, 0) for f, _ in funs], ["where_ (fun d r => def_ok d) cases"], shard=60)
ok = set(r[0])
print("functions", len(funs), "inside", len(ok))
bad = [t for i, (f, t) in enumerate(funs) if i not in ok]
bad.sort(key=len)
import re
reasons = collections.Counter()
for t in bad:
    rs = []
    if "$(" in t.replace("$((", ""): rs.append("cmdsub")
    if "`" in t: rs.append("backquote")
    if "<<" in t: rs.append("heredoc/herestring")
    if "<" in t.replace("<<", ""): rs.append("lt")
    if "#" in t: rs.append("hash")
    if re.search(r"^\s*[A-Za-z_]+=|^\s*arr=", t, re.M): rs.append("assign-stmt")
    if "function " in t: rs.append("nested-func")
    if re.search(r"\$[A-Za-z0-9_]*\$|\$\{[^}]*\$", t): rs.append("dollar-adjacent/nested")
    reasons[tuple(rs)] += 1
for k, v in reasons.most_common(12): print(v, k)
for t in bad[:6]:
    if not any(x in t for x in ["$(", "`", "<<", "#"]): print("-----"); print(t)
import shutil; shutil.rmtree(chk.scratch, ignore_errors=True)
