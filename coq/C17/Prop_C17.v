(* Prop_C17.v — the property theorems of C17 and nothing else. *)
From Coq Require Import List NArith ZArith Bool Arith.
Import ListNotations.
From Verif Require Import Base.Val C17.Model_C17 C17.Spec_C17 C17.Proofs_C17.

(* revert ∘ apply ≈ id, per call: add_op (incl. forced and refused), add_hardref_op,
   add_backref_op, add_blocker: the call does not raise, only appends to the plan, and rolling
   back to where it started restores the state up to order.  PARTIAL: remove_op/replace_op are
   not covered (full statement: Proofs_C17.revert_inverts_apply_statement). *)
Theorem revert_inverts_apply_partial : forall E s a,
  simple a = true -> Inv E s -> wf_api_b E s a = true -> Undoable E s a.
Proof. exact revert_inverts_apply_partial_proof. Qed.
Print Assumptions revert_inverts_apply_partial.

(* rollback restores the exact earlier state, for ALL well-formed histories of the calls above with
   arbitrarily interleaved rollbacks (induction over the log): if k is the plan position reached
   after h1 and no rollback of h2 went below k, then after h1 ++ h2 backtrack(k) succeeds and
   gives the state after h1 up to order, with the same plan.  PARTIAL in the set of calls. *)
Theorem rollback_restores_earlier_partial : forall E h1 h2 k,
  WF E (h1 ++ h2) -> forallb (okE simple) (h1 ++ h2) = true ->
  k = length (plan (run E h1 init)) -> (forall k', In (R k') h2 -> k <= k') ->
  exists s', backtrack E k (run E (h1 ++ h2) init) = (s', Ok tt) /\ equiv s' (run E h1 init).
Proof. exact rollback_restores_earlier_partial_proof. Qed.
Print Assumptions rollback_restores_earlier_partial.

(* the same for every call (remove_op, replace_op with their nested decrefs included), reduced to
   two per-call facts about a state invariant G *)
Theorem rollback_restores_earlier_reduction :
  forall E (G : state -> Prop) (ok : api -> bool),
  (forall s1 s2, obs_eq s1 s2 -> G s1 -> G s2) ->
  (forall s a, ok a = true -> G s -> wf_api_b E s a = true -> G (call_s E a s)) ->
  (forall s a, ok a = true -> G s -> wf_api_b E s a = true -> Undoable E s a) ->
  G init ->
  forall h1 h2 k, WF E (h1 ++ h2) -> forallb (okE ok) (h1 ++ h2) = true ->
    k = length (plan (run E h1 init)) -> (forall k', In (R k') h2 -> k <= k') ->
    exists s', backtrack E k (run E (h1 ++ h2) init) = (s', Ok tt) /\ equiv s' (run E h1 init).
Proof. exact rollback_restores_earlier_reduction_proof. Qed.
Print Assumptions rollback_restores_earlier_reduction.

(* backtrack respects ≈ — every operation, failing reverts and their partial states included *)
Theorem backtrack_respects_equiv : forall E k s1 s2, equiv s1 s2 ->
  equiv (backtrack_s E k s1) (backtrack_s E k s2) /\ snd (backtrack E k s1) = snd (backtrack E k s2).
Proof. exact backtrack_respects_equiv_proof. Qed.
Print Assumptions backtrack_respects_equiv.

(* rolling back in two stages = rolling back at once *)
Theorem backtrack_composes : forall E s n n' t t2,
  n' <= n -> n <= length (plan s) ->
  backtrack E n s = (t, Ok tt) -> backtrack E n' t = (t2, Ok tt) ->
  exists t3, backtrack E n' s = (t3, Ok tt) /\ equiv t3 t2.
Proof. exact backtrack_composes_proof. Qed.
Print Assumptions backtrack_composes.
