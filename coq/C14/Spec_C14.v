(* Spec_C14.v — the statement of C14, independent of how the wrapper caches.

   "For any sequence of USE enable and disable requests, rollbacks and commits on a
    configured package, every USE-dependent attribute read afterwards equals the raw
    attribute evaluated under the package's current USE set.  A refused request leaves
    the USE set as it was."

   The statements are parametric in the step function so that they can be asserted of the
   repaired wrapper and refuted of the pinned one. *)
From Coq Require Import List NArith ZArith Bool.
Import ListNotations.
From Verif Require Import Base.Val C14.Model_C14.

Definition same_set (a b : list N) : Prop := forall f, mem f a = mem f b.

Definition is_request (o : op) : Prop :=
  match o with Enable _ | Disable _ => True | _ => False end.

Section Statements.
  Variable V : Type.
  Variable E : N -> list N -> V.
  Variable stp : op -> st V -> res V * st V.

  (* after ANY history (reads included, anywhere), reading attribute a yields E a of the
     USE set the package has at that moment, and reading does not touch the USE set *)
  Definition reads_current_stmt : Prop :=
    forall (use locked : list N) (ops : list op) (a : N),
      let s := run V stp ops (init V use locked) in
      fst (stp (Read a) s) = RV (E a (current_use s))
      /\ current_use (snd (stp (Read a) s)) = current_use s.

  (* the same, for every read INSIDE a history: the i-th result of the run *)
  Definition all_reads_current_stmt : Prop :=
    forall (use locked : list N) (ops : list op) (i : nat) (a : N) r s',
      nth_error ops i = Some (Read a) ->
      nth_error (exec V stp ops (init V use locked)) i = Some (r, s') ->
      r = RV (E a (current_use s')).

  (* a request answered False, after any history, leaves the USE set as it was *)
  Definition refused_unchanged_stmt : Prop :=
    forall (use locked : list N) (ops : list op) (o : op),
      let s := run V stp ops (init V use locked) in
      is_request o -> fst (stp o s) = RB false ->
      same_set (current_use (snd (stp o s))) (current_use s).

  (* a request is answered True or False, it never raises *)
  Definition requests_answered_stmt : Prop :=
    forall (use locked : list N) (ops : list op) (o : op),
      let s := run V stp ops (init V use locked) in
      is_request o -> exists b, fst (stp o s) = RB b.
End Statements.

(* ---------------------------------------------------------------- comparison (B) inside Coq:
   an acceptor over the IMPLEMENTATION's recorded observations only.  For every op the harness
   recorded [result; bit mask of the observed flags in USE; changes_count].  Accept iff
     - every read returned the attribute evaluated under the USE set recorded at that step,
     - every request answered False left the recorded USE set equal to the previous one,
     - no request raised. *)
Definition obs_ok (ds : list (list node)) (prev : Z) (o : op) (r : val) (m : Z) : bool :=
  match o with
  | Read a => val_eqb r (enc_list (E_of ds a (set_of_mask m))) && Z.eqb m prev
  | Enable _ | Disable _ =>
      match r with
      | VB true => true
      | VB false => Z.eqb m prev
      | _ => false
      end
  | _ => true
  end.

Fixpoint hist_ok (ds : list (list node)) (prev : Z) (ops : list op) (obs : list val) : bool :=
  match ops, obs with
  | [], [] => true
  | o :: ops', (VL [r; VZ m; VZ _]) :: obs' => obs_ok ds prev o r m && hist_ok ds m ops' obs'
  | _, _ => false
  end.

Definition spec_hist_ok (i : hist_input) (recorded : val) : bool :=
  let '((use, locked, ds), ops) := i in
  match recorded with
  | VL obs => hist_ok ds (mask_of use) ops obs
  | _ => false
  end.

(* the same acceptor for a recorded fan: the prefix as a history, then every continuation
   against the USE set recorded at the end of the prefix *)
Fixpoint last_mask (prev : Z) (obs : list val) : Z :=
  match obs with
  | [] => prev
  | (VL [_; VZ m; _]) :: obs' => last_mask m obs'
  | _ :: obs' => last_mask prev obs'
  end.

Fixpoint lasts_ok (ds : list (list node)) (prev : Z) (lasts : list op) (obs : list val) : bool :=
  match lasts, obs with
  | [], [] => true
  | o :: lasts', (VL [r; VZ m; VZ _]) :: obs' => obs_ok ds prev o r m && lasts_ok ds prev lasts' obs'
  | _, _ => false
  end.

Definition spec_fan_ok (i : fan_input) (recorded : val) : bool :=
  let '(((use, locked, ds), ops), lasts) := i in
  match recorded with
  | VL [VL pre; VL post] =>
      hist_ok ds (mask_of use) ops pre && lasts_ok ds (last_mask (mask_of use) pre) lasts post
  | _ => false
  end.

(* ---------------------------------------------------------------- several configured packages *)
Section MultiStatements.
  Variable V : Type.
  Variable Er : N -> N -> list N -> V.

  (* whatever was done, in whatever interleaving, to any of the configured packages (of the
     same or of different raw packages): a read on wrapper w yields the attribute of ITS raw
     package evaluated under ITS current USE set *)
  Definition multi_reads_current_stmt : Prop :=
    forall (locked : list N) (cfgs : list (N * list N)) (ops : list (nat * op))
           (w : nat) (a : N) (raw : N) (s : st V),
      let ws := mrun V Er ops (minit V locked cfgs) in
      nth_error ws w = Some (raw, s) ->
      fst (mstep_at V Er w (Read a) ws) = Some (RV (Er raw a (current_use s))).

  (* an op addressed to one wrapper leaves every other wrapper exactly as it was; a request
     answered False also leaves the USE set of the addressed one as it was *)
  Definition multi_isolated_stmt : Prop :=
    forall (ws : list (wst V)) (w w' : nat) (o : op),
      w' <> w -> nth_error (snd (mstep_at V Er w o ws)) w' = nth_error ws w'.

  Definition multi_refused_unchanged_stmt : Prop :=
    forall (ws : list (wst V)) (w : nat) (o : op) (raw : N) (s : st V),
      nth_error ws w = Some (raw, s) -> is_request o ->
      fst (mstep_at V Er w o ws) = Some (RB false) ->
      exists s', nth_error (snd (mstep_at V Er w o ws)) w = Some (raw, s')
                 /\ same_set (current_use s') (current_use s).
End MultiStatements.

(* acceptor over the recorded observations of a multi history (comparison B in Coq):
   a read returns the attribute of the wrapper's raw package under the USE mask recorded for that
   wrapper at that step; a refused request leaves the recorded mask of that wrapper unchanged;
   no request raises *)
Fixpoint nth_mask (w : nat) (flat : list val) : Z :=
  match flat, w with
  | VZ m :: _ :: _, O => m
  | _ :: _ :: r, S w' => nth_mask w' r
  | _, _ => (-1)%Z
  end.

Definition flat_init (cfgs : list (N * Z)) : list val :=
  flat_map (fun c => [VZ (snd c); VZ 0]) cfgs.

Fixpoint multi_ok (dss : list (list (list node))) (cfgs : list (N * Z)) (prev : list val)
  (ops : list (nat * op)) (obs : list val) : bool :=
  match ops, obs with
  | [], [] => true
  | (w, o) :: ops', (VL [r; VL flat]) :: obs' =>
      let raw := fst (nth w cfgs (0%N, 0%Z)) in
      obs_ok (nth (N.to_nat raw) dss []) (nth_mask w prev) o r (nth_mask w flat)
      && multi_ok dss cfgs flat ops' obs'
  | _, _ => false
  end.

Definition spec_multi_ok (i : multi_input) (recorded : val) : bool :=
  let '((dss, cfgs, locked), ops) := i in
  match recorded with
  | VL obs => multi_ok dss cfgs (flat_init cfgs) ops obs
  | _ => false
  end.
