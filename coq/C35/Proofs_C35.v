(* Proofs_C35.v — proofs about the protocol LTS of Model_C35.

   The facts about the literal tables ([literals_agree_proof], [see_id], [tok_id], [reply_def]) are
   re-proved by computation against gen/Tables_protocol.v, i.e. against the literals of today's
   processor.py / ebd.py / ebuild-daemon*.bash: if the two sides stop agreeing this file stops
   compiling. *)
From Coq Require Import List NArith Bool Arith Lia.
Import ListNotations.
From Verif Require Import Base.Val C41.Lts gen.Tables_protocol C35.Model_C35 C35.Spec_C35.

(* ------------------------------------------------------------------ the table obligation *)
Lemma literals_agree_proof : tables_agree = true.
Proof. vm_compute. reflexivity. Qed.

Lemma see_id c : see c = c.
Proof. destruct c; vm_compute; reflexivity. Qed.
Lemma tok_id r : tok r = r.
Proof. destruct r; try destruct c; vm_compute; reflexivity. Qed.
Lemma reply_def c f : expects_reply c = true -> reply c f = if f then RAck c else RNak c.
Proof. destruct c; try discriminate; destruct f; intros _; vm_compute; reflexivity. Qed.

Lemma expected_replies_can_be_sent c : expects_reply c = true -> ack_ok c = true.
Proof. destruct c; try discriminate; intros _; vm_compute; reflexivity. Qed.
Lemma written_commands_are_dispatched c : c <> COther -> cmd_ok c = true.
Proof. destruct c; try congruence; intros _; vm_compute; reflexivity. Qed.
Lemma requests_are_handled r : req_ok r = true.
Proof. destruct r; try destruct c; vm_compute; reflexivity. Qed.

(* the daemon's reactions with the agreement predicates evaluated *)
Definition die_out (sub : bool) : option (sstate * list rep) :=
  if sub then Some (SMain, [RDying; RDead; RPhasesFail]) else Some (SDead, [RDying; RDead]).
Definition sreact' (s : sstate) (c : cmd) (fate : bool) : option (sstate * list rep) :=
  match s with
  | SInit0 => match c with CEbdQ => Some (SInit1, [RAck CEbdQ]) | _ => Some (SDead, []) end
  | SInit1 => match c with
              | CNoSandbox => Some (SMain, [RLine])
              | CSandboxLogQ => Some (SMain, [RLine; RLine])
              | _ => die_out false
              end
  | SMain => match c with
             | CProcess => Some (SSetup, [])
             | CShutdown => Some (SDead, [])
             | CPreload => Some (SMain, [if fate then RAck CPreload else RNak CPreload])
             | CClear => Some (SMain, [RAck CClear])
             | CSetMeta => Some (SMain, [RAck CSetMeta])
             | CGenMeta => Some (SRun KMeta, [])
             | CGenEnv => Some (SRun KEnv, [])
             | CAlive => Some (SMain, [RAck CAlive])
             | _ => die_out false
             end
  | SSetup => match c with
              | CStartEnv => if fate then Some (SSetup, [RAck CStartEnv])
                             else Some (SMain, [RNak CStartEnv; RPhasesFail])
              | CLogging => Some (SSetup, [RAck CLogging])
              | CSetSandbox => Some (SSetup, [])
              | CStartProc => Some (SRun KPhase, [])
              | CShutdown => Some (SMain, [RPhasesOk])
              | CAlive => Some (SSetup, [RAck CAlive])
              | _ => die_out true
              end
  | SInh1 k => match c with CPath | CTransfer => Some (SInh2 k, []) | _ => die_out true end
  | SInh2 k => Some (SRun k, [])
  | SRc1 => match c with
            | CEndRequest => Some (SRun KPhase, [])
            | CPath | CTransfer => Some (SRc2, [])
            | _ => Some (SMain, [RFailed; RDying; RDead; RPhasesFail])
            end
  | SRc2 => Some (SRc1, [RNext])
  | SIpcW => Some (SRun KPhase, [])
  | SSbx k => match c with CEndSbx => Some (SRun k, []) | _ => Some (SSbx k, []) end
  | SRun _ | SDead => None
  end.
Lemma sreact_eq s c f : sreact s c f = sreact' s c f.
Proof. destruct s; try destruct k; destruct c; destruct f; vm_compute; reflexivity. Qed.

Definition semit' (s : sstate) (e : emit) : option (sstate * list rep) :=
  match s, e with
  | SRun KMeta, EKey => Some (s, [RKey])
  | SRun KEnv, ERecvEnv => Some (s, [RRecvEnv])
  | SRun k, EInherit => Some (SInh1 k, [RReqInherit])
  | SRun KPhase, EBashrc => Some (SRc1, [RReqBashrcs])
  | SRun KPhase, EIpc => Some (SIpcW, [RIpc; RLine; RLine; RLine; RLine; RLine])
  | SRun k, ESbx => Some (SSbx k, [RReqSbx])
  | SRun _, EFinish ok => Some (SMain, [if ok then RPhasesOk else RPhasesFail])
  | SRun _, EDie => Some (SMain, [RDying; RDead; RPhasesFail])
  | _, _ => None
  end.
Lemma semit_eq s e : semit s e = semit' s e.
Proof. destruct s; try destruct k; destruct e; try destruct ok; vm_compute; reflexivity. Qed.

(* ------------------------------------------------------------------ unknown_is_error *)
Lemma unknown_is_error_daemon_proof :
  forall s c f s' out,
    sreact s c f = Some (s', out) -> listed s (see c) = false -> error_reaction s' out = true.
Proof.
  intros s c f s' out H. rewrite see_id. rewrite sreact_eq in H.
  destruct s; try destruct k; destruct c; destruct f; cbn in H; try discriminate;
    injection H as <- <-; intro L; try discriminate L; vm_compute; reflexivity.
Qed.

Lemma unknown_is_error_python_proof :
  forall h kt r ch, handled h r = false -> handle h kt r ch = (PExec Err, false).
Proof. intros h kt r ch. destruct r, h; cbn; intro H; try discriminate H; reflexivity. Qed.

(* a line python reads in the handler loop is taken by a handler only if it is listed; the
   interception of notices comes first *)
Lemma handler_read_unknown_proof :
  forall c h kt r ch c',
    py c = PHand h kt -> isnotice r = false -> handled h r = false ->
    stepf c (LR r ch) = Some c' -> py c' = PExec Err.
Proof.
  intros c h kt r ch c' Hp Hn Hh H. unfold stepf in H.
  destruct (d2p c) as [|[r' g] rest]; [discriminate|].
  destruct (rep_eqb r r'); [|discriminate]. rewrite Hp in H.
  unfold py_read in H. cbn [py] in H.
  destruct r; try discriminate Hn; cbn [py outs sh p2d d2p nxt set_py] in H;
    rewrite (unknown_is_error_python_proof h kt _ ch Hh) in H; injection H as <-; reflexivity.
Qed.

(* ------------------------------------------------------------------ drain *)
Lemma sreact_none s c f : sh_reads s = false -> sreact s c f = None.
Proof. rewrite sreact_eq. destruct s; cbn; intro H; try discriminate H; reflexivity. Qed.
Lemma sreact_some s c f : sh_reads s = true -> exists s' out, sreact s c f = Some (s', out).
Proof.
  rewrite sreact_eq. intro H.
  destruct s; try discriminate H; destruct c; destruct f; cbn; eauto.
Qed.

Lemma drain_stuck s q : sh_reads s = false -> drain s q = (s, [], q).
Proof.
  intro H. destruct q as [|[[c i] f] q]; [reflexivity|]. cbn. rewrite (sreact_none s c f H). reflexivity.
Qed.

Lemma drain_cons s c i f q s' out :
  sreact s c f = Some (s', out) ->
  drain s ((c, i, f) :: q) =
  (fst (fst (drain s' q)), tag i out ++ snd (fst (drain s' q)), snd (drain s' q)).
Proof. intro H. cbn. rewrite H. destruct (drain s' q) as [[a b] r]. reflexivity. Qed.

Lemma drain_snoc q : forall s x,
  drain s (q ++ [x]) =
  match snd (drain s q) with
  | [] => let '(c, i, f) := x in
          match sreact (fst (fst (drain s q))) c f with
          | Some (s2, out) => (s2, snd (fst (drain s q)) ++ tag i out, [])
          | None => (fst (fst (drain s q)), snd (fst (drain s q)), [x])
          end
  | r => (fst (fst (drain s q)), snd (fst (drain s q)), r ++ [x])
  end.
Proof.
  induction q as [|[[c i] f] q IH]; intros s [[cx ix] fx].
  - cbn. destruct (sreact s cx fx) as [[s2 out]|]; [rewrite app_nil_r|]; reflexivity.
  - cbn [app]. cbn [drain]. destruct (sreact s c f) as [[s' out]|] eqn:E.
    + rewrite (IH s' (cx, ix, fx)). destruct (drain s' q) as [[a b] r]. cbn.
      destruct r as [|r0 r].
      * destruct (sreact a cx fx) as [[s2 out2]|]; [rewrite app_assoc|]; reflexivity.
      * reflexivity.
    + cbn. reflexivity.
Qed.

(* a daemon read step does not change what python will see *)
Lemma view_shread c c' :
  stepf c LShRead = Some c' ->
  pipe c' = pipe c /\ drained c' = drained c /\ undrained c' = undrained c
  /\ py c' = py c /\ outs c' = outs c /\ nxt c' = nxt c.
Proof.
  unfold stepf. destruct (p2d c) as [|[[cm i] f] rest] eqn:Ep; [discriminate|].
  destruct (sreact (sh c) cm f) as [[s' out]|] eqn:E; [|discriminate].
  intro H. injection H as <-. unfold pipe, drained, undrained. cbn [sh p2d d2p py outs nxt].
  rewrite Ep. rewrite (drain_cons _ _ _ _ _ _ _ E). cbn [fst snd].
  rewrite app_assoc. repeat split; reflexivity.
Qed.

(* ------------------------------------------------------------------ typing of python's programs
   [okp p s u e]: program p can run when the daemon, once it has read everything in flight, is in
   state s and the not-yet-consumed part of the reply stream (beyond the answers to the
   outstanding expects) is u; e: _outstanding_expects is known to be empty. *)
Definition is_main (s : sstate) : bool := match s with SMain => true | _ => false end.
Definition is_dead (s : sstate) : bool := match s with SDead => true | _ => false end.
Definition null {A} (l : list A) : bool := match l with [] => true | _ => false end.
Definition reply_for (w r : rep) : bool :=
  match w with RAck k => rep_eqb r (RAck k) || rep_eqb r (RNak k) | _ => rep_eqb r w end.
Definition sync_only (w : rep) : bool :=
  match w with RAck CStartEnv | RAck CLogging | RAck CEbdQ | RNext => true | _ => false end.
Definition kmatch (h : hk) (k : rk) : bool :=
  match h, k with HPhase, KPhase | HMeta, KMeta | HEnv, KEnv => true | _, _ => false end.
Definition tagged (g : option nat) : bool := match g with Some _ => true | None => false end.

(* the handler loop facing stream u of a daemon that is (after reading everything) in state s *)
Fixpoint okh (h : hk) (s : sstate) (u : list rep) : bool :=
  match u with
  | [] => match s with SRun k => kmatch h k | _ => false end
  | r :: u' =>
      match r with
      | RKey => match h with HMeta => okh h s u' | _ => false end
      | RRecvEnv => match h with HEnv => okh h s u' | _ => false end
      | RPhasesOk => null u' && is_main s
      | RPhasesFail => null u' && is_main s
      | RReqInherit => null u' && match s with SInh1 k => kmatch h k | _ => false end
      | RReqBashrcs => null u' && match s, h with SRc1, HPhase => true | _, _ => false end
      | RIpc => match s, h with
                | SIpcW, HPhase => Nat.eqb (List.length u') 5   (* the five header lines; python reads them blindly *)
                | _, _ => false
                end
      | RReqSbx => null u' && match s with SSbx k => kmatch h k | _ => false end
      | _ => false
      end
  end.

Fixpoint okp (p : prog) (s : sstate) (u : list (rep * option nat)) (e : bool) : bool :=
  match p with
  | Ret _ true | Fail => is_main s && null u
  | Ret _ false | Err | GoneExc => true
  | Wr c k =>
      null u && sh_reads s &&
      forallb (fun f => match sreact' s c f with
                        | Some (s', out) => existsb isnotice out || is_dead s' || okp k s' (tag 0 out) e
                        | None => false
                        end) [true; false]
  | Exp w async kok kbad =>
      match u with
      | (r, g) :: u' =>
          reply_for w r && tagged g &&
          (if async then okp kok s u' false
           else okp (if rep_eqb r w then kok else kbad) s u' true
                && (if sync_only w then e else okp kok s u' true && okp kbad s u' true))
      | [] => false
      end
  | Rd k => e && match u with _ :: u' => okp k s u' e | [] => false end
  | Cons kok kbad => okp kok s u true && okp kbad s u true
  | Handle h kt => okp kt SMain [] true && okh h s (map fst u)
  end.

(* okp looks at the tags of u only to see whether there is one *)
Definition same_shape (u v : list (rep * option nat)) : Prop :=
  Forall2 (fun x y => fst x = fst y /\ tagged (snd x) = tagged (snd y)) u v.
Lemma same_shape_refl u : same_shape u u.
Proof. induction u; constructor; auto. Qed.
Lemma same_shape_map_fst u v : same_shape u v -> map fst u = map fst v.
Proof. induction 1 as [|x y u v [H1 _] _ IH]; cbn; [reflexivity|]. rewrite H1, IH. reflexivity. Qed.
Lemma okp_shape p : forall s u v e, same_shape u v -> okp p s u e = okp p s v e.
Proof.
  induction p as [b a| | | |c k IH|w a kok IHok kbad IHbad|kok IHok kbad IHbad|k IH|h kt IH];
    intros s u v e H; cbn [okp].
  - destruct a; [|reflexivity]. destruct H; reflexivity.
  - destruct H; reflexivity.
  - reflexivity.
  - reflexivity.
  - destruct H; [reflexivity|]. reflexivity.
  - destruct H as [|[r g] [r' g'] u v [H1 H2] H]; [reflexivity|]. cbn in H1, H2. subst r'. rewrite H2.
    destruct a.
    + rewrite (IHok s u v false H). reflexivity.
    + destruct (rep_eqb r w); rewrite ?(IHok s u v true H), ?(IHbad s u v true H); reflexivity.
  - rewrite (IHok s u v true H), (IHbad s u v true H). reflexivity.
  - destruct H as [|x y u v _ H]; [reflexivity|]. rewrite (IH s u v e H). reflexivity.
  - rewrite (same_shape_map_fst u v H). reflexivity.
Qed.
Lemma tag_shape i j out : same_shape (tag i out) (tag j out).
Proof. induction out; constructor; cbn; auto. Qed.

Lemma okp_e_mono p : forall s u, okp p s u false = true -> okp p s u true = true.
Proof.
  induction p as [b a| | | |c k IH|w a kok IHok kbad IHbad|kok IHok kbad IHbad|k IH|h kt IH];
    intros s u H; cbn [okp] in *; try exact H.
  - apply andb_true_iff in H as [H1 H2]. rewrite H1. cbn [andb].
    cbn [forallb] in *. apply andb_true_iff in H2 as [Ha H2]. apply andb_true_iff in H2 as [Hb _].
    apply andb_true_iff; split; [|apply andb_true_iff; split; [|reflexivity]].
    + destruct (sreact' s c true) as [[s' out]|]; [|discriminate].
      apply orb_true_iff in Ha as [Ha|Ha]; [rewrite Ha; reflexivity|]. rewrite (IH _ _ Ha). apply orb_true_r.
    + destruct (sreact' s c false) as [[s' out]|]; [|discriminate].
      apply orb_true_iff in Hb as [Hb|Hb]; [rewrite Hb; reflexivity|]. rewrite (IH _ _ Hb). apply orb_true_r.
  - destruct u as [|[r g] u']; [discriminate|]. destruct a; [exact H|].
    destruct (sync_only w); [|exact H].
    rewrite andb_false_r in H. rewrite andb_false_r in H. discriminate.
  - discriminate H.
Qed.
Lemma okp_e p s u e : okp p s u false = true -> okp p s u e = true.
Proof. destruct e; [apply okp_e_mono | trivial]. Qed.

Lemma preload_ok n k : okp k SMain [] false = true -> okp (preload n k) SMain [] false = true.
Proof.
  intro H. induction n as [|n IH]; [exact H|].
  cbn. rewrite IH. reflexivity.
Qed.
Lemma depend_ok c h sm n e :
  (c = CGenMeta /\ h = HMeta) \/ (c = CGenEnv /\ h = HEnv) ->
  okp (depend_prog c h sm n) SMain [] e = true.
Proof.
  assert (P : okp (preload n (Done true)) SMain [] true = true)
    by (apply okp_e_mono, preload_ok; reflexivity).
  intros [[-> ->]|[-> ->]]; unfold depend_prog; destruct sm; cbn; rewrite P; reflexivity.
Qed.
Lemma prog_of_ok o e : okp (prog_of o) SMain [] e = true.
Proof.
  destruct o as [| | |n sync|sm n|sm n|lg|].
  - destruct e; reflexivity.
  - destruct e; reflexivity.
  - destruct e; reflexivity.
  - apply okp_e. cbn [prog_of]. apply preload_ok. destruct sync; reflexivity.
  - apply depend_ok; auto.
  - apply depend_ok; auto.
  - destruct lg, e; reflexivity.
  - destruct e; reflexivity.
Qed.
Lemma init_ok b : okp (init_prog b) SInit0 [] true = true.
Proof. destruct b; reflexivity. Qed.

Lemma rc_ok m h kt : h = HPhase -> okp kt SMain [] true = true -> okp (rc_prog m (Handle h kt)) SRc1 [] true = true.
Proof. intros -> H. induction m as [|m IH]; cbn; rewrite ?H, ?IH; reflexivity. Qed.
Lemma sbx_ok m h kt k : kmatch h k = true -> okp kt SMain [] true = true ->
  okp (sbx_prog m (Handle h kt)) (SSbx k) [] true = true.
Proof. intros K H. induction m as [|m IH]; cbn; rewrite ?H, ?K, ?IH; reflexivity. Qed.

(* ------------------------------------------------------------------ emissions of a running daemon *)
Lemma okh_emit h k em s' out : forall U,
  okh h (SRun k) U = true -> semit' (SRun k) em = Some (s', out) ->
  existsb isnotice out = false -> okh h s' (U ++ out) = true.
Proof.
  induction U as [|r U IH]; intros H E N.
  - cbn in H. destruct h, k; try discriminate H; destruct em as [| | | | | |ok|]; cbn in E; try discriminate E;
      injection E as <- <-; try destruct ok; try reflexivity; discriminate N.
  - cbn [okh] in H. cbn [app okh].
    destruct r; try discriminate H;
      try (destruct h; try discriminate H; apply IH; assumption);
      try (rewrite andb_false_r in H; discriminate H);
      try (apply andb_true_iff in H as [_ H]; discriminate H).
Qed.

Lemma okp_emit p k em s' out : forall u e,
  okp p (SRun k) u e = true -> semit' (SRun k) em = Some (s', out) ->
  existsb isnotice out = false -> okp p s' (u ++ untag out) e = true.
Proof.
  induction p as [b a| | | |c q IH|w a kok IHok kbad IHbad|kok IHok kbad IHbad|q IH|h kt IH];
    intros u e H E N; cbn [okp] in *.
  - destruct a; [discriminate H|reflexivity].
  - discriminate H.
  - reflexivity.
  - reflexivity.
  - rewrite andb_false_r in H. discriminate H.
  - destruct u as [|[r g] u']; [discriminate|]. cbn [app].
    apply andb_true_iff in H as [H1 H2]. rewrite H1. cbn [andb].
    destruct a.
    + apply IHok; assumption.
    + apply andb_true_iff in H2 as [H2 H3]. apply andb_true_iff; split.
      * destruct (rep_eqb r w); [apply IHok | apply IHbad]; assumption.
      * destruct (sync_only w); [exact H3|].
        apply andb_true_iff in H3 as [H3 H4]. rewrite (IHok _ _ H3 E N), (IHbad _ _ H4 E N). reflexivity.
  - apply andb_true_iff in H as [H1 H2]. rewrite (IHok _ _ H1 E N), (IHbad _ _ H2 E N). reflexivity.
  - apply andb_true_iff in H as [H0 H]. subst e. cbn [andb].
    destruct u as [|x u']; [discriminate|]. cbn [app]. apply IH; assumption.
  - apply andb_true_iff in H as [H1 H2]. rewrite H1. cbn [andb].
    unfold untag. rewrite map_app, map_map. cbn [fst]. rewrite map_id.
    eapply okh_emit; eassumption.
Qed.

(* ------------------------------------------------------------------ the invariant *)
Definition utags (n : nat) (u : list (rep * option nat)) : Prop :=
  Forall (fun x => snd x = None \/ snd x = Some (pred n)) u.

Definition okst (p : pstate) (o : list (nat * rep)) (R : list (rep * option nat)) (s : sstate)
           (u : list (rep * option nat)) : Prop :=
  match p with
  | PIdle => s = SMain /\ u = []
  | PExec q => exists e, okp q s u e = true /\ (e = true -> o = [])
  | PRead1 (i, w) kok kbad =>
      o = [] /\ exists x, R = [x] /\ okp (if rep_eqb (fst x) w then kok else kbad) s u true = true
  | PCons rem ok kok kbad => o = [] /\ rem <> [] /\ okp kok s u true = true /\ okp kbad s u true = true
  | PRd k => o = [] /\ okp (Rd k) s u true = true
  | PHand h kt => o = [] /\ okp kt SMain [] true = true /\ okh h s (map fst u) = true
  | PDie | PErr | PGone => False
  end.

Definition healthy (c : conf) : Prop :=
  undrained c = [] /\
  exists R u, pipe c = R ++ u /\ Forall2 answers (pend c) R /\ utags (nxt c) u
              /\ okst (py c) (outs c) R (drained c) u.

Definition Inv (c : conf) : Prop := disturbed c \/ healthy c.

(* die blocks are well bracketed in the channel, and python is in PDie exactly inside one *)
Fixpoint wbk (inside : bool) (l : list rep) : bool :=
  match l with
  | [] => negb inside
  | RDying :: l' => wbk true l'
  | RDead :: l' => inside && wbk false l'
  | _ :: l' => wbk inside l'
  end.
Definition is_pdie (p : pstate) : bool := match p with PDie => true | _ => false end.
Definition py_ended (p : pstate) : bool :=
  match p with PErr | PGone | PExec GoneExc | PExec Err => true | _ => false end.
Definition Wb (c : conf) : Prop :=
  py_ended (py c) = true \/ wbk (is_pdie (py c)) (map fst (d2p c)) = true.

Lemma rep_eqb_eq a b : rep_eqb a b = true <-> a = b.
Proof.
  split.
  - destruct a, b; cbn; try discriminate; try reflexivity;
      destruct c, c0; cbn; try discriminate; reflexivity.
  - intros <-. destruct a; try reflexivity; destruct c; reflexivity.
Qed.
Lemma cmd_eqb_eq a b : cmd_eqb a b = true <-> a = b.
Proof. split; [destruct a, b; cbn; try discriminate; reflexivity | intros <-; destruct a; reflexivity]. Qed.

(* ------------------------------------------------------------------ frame lemmas *)
Lemma view_frame c c' :
  sh c' = sh c -> p2d c' = p2d c -> d2p c' = d2p c ->
  pipe c' = pipe c /\ drained c' = drained c /\ undrained c' = undrained c.
Proof. intros A B C. unfold pipe, drained, undrained. rewrite A, B, C. auto. Qed.

Lemma view_write c x p o n :
  let c' := mk p o (sh c) (p2d c ++ [x]) (d2p c) n in
  exists ext, pipe c' = pipe c ++ ext /\ (drained c = SDead -> drained c' = SDead).
Proof.
  cbn zeta. unfold pipe, drained. cbn [sh p2d d2p]. rewrite drain_snoc.
  destruct (drain (sh c) (p2d c)) as [[s o1] r] eqn:E. cbn [fst snd].
  destruct r as [|r0 r].
  - destruct x as [[cx ix] fx]. destruct (sreact s cx fx) as [[s2 out]|] eqn:E2; cbn [fst snd].
    + exists (tag ix out). split; [rewrite app_assoc; reflexivity|].
      intros ->. rewrite (sreact_none SDead cx fx eq_refl) in E2. discriminate.
    + exists []. rewrite app_nil_r. auto.
  - exists []. rewrite app_nil_r. auto.
Qed.

Lemma has_notice_app a b :
  existsb isnotice (map fst (a ++ b)) = existsb isnotice (map fst a) || existsb isnotice (map fst (b : list (rep * option nat))).
Proof. rewrite map_app, existsb_app. reflexivity. Qed.

Definition is_reading (p : pstate) : bool :=
  match p with PRead1 _ _ _ | PCons _ _ _ _ | PRd _ | PHand _ _ | PDie => true | _ => false end.

Lemma py_read_frame c r ch c' :
  py_read c r ch = Some c' ->
  p2d c' = p2d c /\ d2p c' = d2p c /\ outs c' = outs c /\ nxt c' = nxt c
  /\ (sh c' = sh c \/ sh c' = SDead) /\ is_reading (py c) = true.
Proof.
  unfold py_read. intro H.
  repeat match type of H with
         | context [match ?x with _ => _ end] => destruct x eqn:?; try discriminate H
         end;
    injection H as <-; cbn; auto 10.
Qed.

Lemma py_read_notice c r ch c' :
  py_read c (Some r) ch = Some c' -> isnotice r = true -> py_over (py c') = true.
Proof.
  unfold py_read. intros H N. destruct r; try discriminate N;
    destruct (py c); try discriminate H; injection H as <-; reflexivity.
Qed.

Lemma py_read_over c r ch c' :
  py_read c r ch = Some c' -> py_over (py c) = true -> py_over (py c') = true.
Proof.
  unfold py_read. intros H O.
  destruct (py c) eqn:E; try discriminate O; try (destruct p; discriminate O || (destruct r as [[]|]; discriminate H));
    destruct r as [[]|]; try discriminate H; injection H as <-; reflexivity.
Qed.

(* ------------------------------------------------------------------ a disturbed session stays disturbed *)
Lemma drained_dead_frame c c' :
  p2d c' = p2d c -> (sh c' = sh c \/ sh c' = SDead) -> drained c = SDead -> drained c' = SDead.
Proof.
  intros B [A|A] D; unfold drained in *; rewrite B, A; [exact D|].
  rewrite drain_stuck; reflexivity.
Qed.

Lemma disturbed_step c l c' : disturbed c -> stepf c l = Some c' -> disturbed c'.
Proof.
  intros D H. unfold disturbed in *. destruct l as [o|cm f|r ch| |e| | | |em|term]; cbn [stepf] in H.
  - (* LCall *)
    destruct (py c) eqn:Ep; try discriminate H. injection H as <-.
    destruct (view_frame c (set_py c (PExec (prog_of o))) eq_refl eq_refl eq_refl) as (A & B & _).
    rewrite A, B. destruct D as [D|[D|D]]; auto. discriminate D.
  - (* LW *)
    destruct (py c) as [| | |p| | | | |] eqn:Ep; try discriminate H.
    + injection H as <-. right; left; reflexivity.
    + destruct p as [| | | |c0 k| | | |]; try discriminate H.
      destruct (cmd_eqb cm c0); [|discriminate H]. injection H as <-.
      destruct (view_write c (cm, nxt c, f) (PExec k) (outs c) (S (nxt c))) as (ext & A & B).
      destruct D as [D|[D|D]]; [left|discriminate D|right; right; auto].
      rewrite A, has_notice_app, D. reflexivity.
  - (* LR *)
    destruct (d2p c) as [|[r' g] rest] eqn:Ed; [discriminate H|].
    destruct (rep_eqb r r') eqn:Er; [|discriminate H]. apply rep_eqb_eq in Er. subst r'.
    destruct (py c) eqn:Ep.
    2: { injection H as <-. right; left; reflexivity. }
    all: rewrite <- Ep in H.
    all: set (c0 := mk (py c) (outs c) (sh c) (p2d c) rest (nxt c)) in H;
      destruct (py_read_frame _ _ _ _ H) as (A & B & _ & _ & S & _); cbn [p2d d2p sh c0] in A, B, S.
    all: destruct (isnotice r) eqn:N; [right; left; eapply py_read_notice; eassumption|].
    all: destruct D as [D|[D|D]];
      [ | right; left; eapply py_read_over; [exact H | cbn [py c0]; rewrite Ep; exact D]
        | right; right; eapply drained_dead_frame; eassumption ].
    all: unfold pipe in D; rewrite Ed in D; cbn [app map existsb fst] in D; rewrite N in D; cbn [orb] in D.
    all: destruct S as [S|S];
      [ left; unfold pipe; rewrite A, B, S; exact D
      | right; right; unfold drained; rewrite S, drain_stuck; reflexivity ].
  - (* LEof *)
    destruct (d2p c) eqn:Ed; [|discriminate H]. destruct (sh c) eqn:Es; try discriminate H.
    destruct (py c) eqn:Ep.
    2: { injection H as <-. right; right. unfold drained. rewrite Es, drain_stuck; reflexivity. }
    all: destruct (py_read_frame _ _ _ _ H) as (A & B & _ & _ & S & _);
      right; right; unfold drained; destruct S as [S|S]; rewrite S, ?Es, drain_stuck; reflexivity.
  - (* LEnd *)
    destruct (py c) as [| | |p| | | | |] eqn:Ep; try discriminate H.
    + injection H as <-. right; left. rewrite Ep. reflexivity.
    + destruct p; try discriminate H.
      * destruct e as [b'|]; [|discriminate H]. destruct (Bool.eqb b b'); [|discriminate H]. injection H as <-.
        destruct alive.
        -- destruct D as [D|[D|D]]; [left|discriminate D|right; right]; exact D.
        -- right; left; reflexivity.
      * destruct e; [discriminate H|]. injection H as <-.
        destruct D as [D|[D|D]]; [left|discriminate D|right; right]; exact D.
      * destruct e; [discriminate H|]. injection H as <-. right; left; reflexivity.
      * destruct e; [discriminate H|]. injection H as <-. right; left; reflexivity.
  - (* LTau *)
    destruct (py c) as [| | |p| | | | |] eqn:Ep; try discriminate H.
    destruct D as [D|[D|D]].
    + left. destruct p; try discriminate H; try destruct async; try destruct (outs c); injection H as <-; exact D.
    + destruct p; try discriminate H; discriminate D.
    + right; right. destruct p; try discriminate H; try destruct async; try destruct (outs c); injection H as <-; exact D.
  - (* LKill *)
    destruct (py c); try discriminate H. injection H as <-. right; left; reflexivity.
  - (* LShRead *)
    destruct (view_shread c c' H) as (A & B & _ & P & _). rewrite A, B, P. exact D.
  - (* LShEmit *)
    destruct (semit (sh c) em) as [[s' out]|] eqn:E; [|discriminate H]. injection H as <-.
    assert (Hs : sh_reads (sh c) = false)
      by (rewrite semit_eq in E; destruct (sh c); try discriminate E; reflexivity).
    destruct D as [D|[D|D]].
    + left. unfold pipe in *. cbn [sh p2d d2p]. rewrite (drain_stuck _ _ Hs) in D. cbn [fst snd] in D.
      rewrite app_nil_r in D. rewrite <- app_assoc, has_notice_app, D. reflexivity.
    + right; left; exact D.
    + unfold drained in D. rewrite (drain_stuck _ _ Hs) in D. cbn in D. rewrite D in Hs.
      rewrite semit_eq in E. rewrite D in E. discriminate E.
  - (* LShSig *)
    destruct (signalable (sh c)); [|discriminate H]. injection H as <-.
    right; right. unfold drained. cbn [sh p2d]. rewrite drain_stuck; reflexivity.
Qed.

(* ------------------------------------------------------------------ healthy sessions *)
Lemma view_write_healthy c cm f p o n s' out :
  undrained c = [] -> sreact (drained c) cm f = Some (s', out) ->
  let c' := mk p o (sh c) (p2d c ++ [(cm, nxt c, f)]) (d2p c) n in
  pipe c' = pipe c ++ tag (nxt c) out /\ drained c' = s' /\ undrained c' = [].
Proof.
  unfold undrained, drained, pipe. cbn [sh p2d d2p]. intros U E. rewrite drain_snoc.
  destruct (drain (sh c) (p2d c)) as [[s o1] r]. cbn [fst snd] in *. subst r. rewrite E. cbn [fst snd].
  rewrite app_assoc. auto.
Qed.

Lemma reply_for_answers w r i : reply_for w r = true -> answers (i, w) (r, Some i).
Proof.
  intro H. split; [reflexivity|]. cbn [fst snd].
  destruct w; cbn [reply_for] in H; try (apply rep_eqb_eq in H; exact H).
  apply orb_true_iff in H as [H|H]; apply rep_eqb_eq in H; auto.
Qed.

Lemma utags_tag n out : utags (S n) (tag n out).
Proof. induction out; constructor; cbn; auto. Qed.
Lemma utags_untag n out : utags n (untag out).
Proof. induction out; constructor; cbn; auto. Qed.

Lemma healthy_call c o c' : healthy c -> stepf c (LCall o) = Some c' -> healthy c'.
Proof.
  intros (U & R & u & P & F & T & O) H. cbn [stepf] in H.
  destruct (py c) eqn:Ep; try discriminate H. injection H as <-.
  cbn [okst] in O. destruct O as [Hs ->].
  split; [exact U|]. exists R, []. unfold pend in *. rewrite Ep in F. cbn [set_py py outs nxt].
  repeat split; try assumption.
  exists false. split; [|discriminate]. change (drained (set_py c (PExec (prog_of o)))) with (drained c).
  rewrite Hs. apply prog_of_ok.
Qed.

Lemma healthy_write c cm f c' : healthy c -> stepf c (LW cm f) = Some c' -> Inv c'.
Proof.
  intros (U & R & u & P & F & T & O) H. cbn [stepf] in H.
  destruct (py c) as [| | |p| | | | |] eqn:Ep; try discriminate H; [destruct O|].
  destruct p as [| | | |c0 k| | | |]; try discriminate H.
  destruct (cmd_eqb cm c0) eqn:Ec; [|discriminate H]. apply cmd_eqb_eq in Ec. subst c0. injection H as <-.
  cbn [okst] in O. destruct O as (e & O & He). cbn [okp] in O.
  apply andb_true_iff in O as [O1 O2]. apply andb_true_iff in O1 as [Hu Hr].
  destruct u; [|discriminate Hu]. rewrite app_nil_r in P.
  destruct (sreact_some (drained c) cm f Hr) as (s' & out & E).
  assert (O3 : existsb isnotice out || is_dead s' || okp k s' (tag 0 out) e = true).
  { cbn [forallb] in O2.
    rewrite <- (sreact_eq _ _ true), <- (sreact_eq _ _ false), andb_true_r in O2. apply andb_true_iff in O2 as [Oa Ob].
    destruct f; [rewrite E in Oa; exact Oa | rewrite E in Ob; exact Ob]. }
  destruct (view_write_healthy c cm f (PExec k) (outs c) (S (nxt c)) s' out U E) as (A & B & C).
  apply orb_true_iff in O3 as [O3|O3]; [apply orb_true_iff in O3 as [O3|O3]|].
  - left. left. rewrite A, has_notice_app. unfold tag. rewrite map_map. cbn [fst]. rewrite map_id, O3.
    apply orb_true_r.
  - left. right. right. rewrite B. destruct s'; try discriminate O3; reflexivity.
  - right. split; [exact C|]. exists R, (tag (nxt c) out). rewrite A, P.
    unfold pend in *. rewrite Ep in F. cbn [py outs nxt]. repeat split; try assumption.
    + apply utags_tag.
    + cbn [okst]. exists e. split; [|exact He]. rewrite B.
      rewrite (okp_shape k s' _ _ e (tag_shape (nxt c) 0 out)). exact O3.
Qed.

Lemma healthy_tau c c' : healthy c -> stepf c LTau = Some c' -> healthy c'.
Proof.
  intros (U & R & u & P & F & T & O) H. cbn [stepf] in H.
  destruct (py c) as [| | |p| | | | |] eqn:Ep; try discriminate H.
  cbn [okst] in O. destruct O as (e & O & He). unfold pend in F. rewrite Ep, app_nil_r in F.
  destruct p as [| | | | |w a kok kbad|kok kbad|k|h kt]; try discriminate H.
  - (* Exp *)
    cbn [okp] in O. destruct u as [|[r g] u']; [discriminate O|].
    apply andb_true_iff in O as [O1 O2]. apply andb_true_iff in O1 as [Hr Hg].
    assert (G : g = Some (pred (nxt c))).
    { inversion T as [|? ? [G|G] _]; subst; cbn in G; [rewrite G in Hg; discriminate Hg | exact G]. }
    assert (T' : utags (nxt c) u') by (inversion T; assumption).
    assert (P' : pipe c = (R ++ [(r, g)]) ++ u') by (rewrite P, <- app_assoc; reflexivity).
    assert (An : answers (pred (nxt c), w) (r, g)) by (rewrite G; apply reply_for_answers; exact Hr).
    destruct a.
    + injection H as <-. split; [exact U|]. exists (R ++ [(r, g)]), u'.
      unfold pend. cbn [py outs nxt]. rewrite app_nil_r. refine (conj _ (conj _ (conj _ _))); try assumption.
      * apply Forall2_app; [exact F | constructor; [exact An | constructor]].
      * cbn [okst]. exists false. split; [exact O2 | discriminate].
    + apply andb_true_iff in O2 as [O2 O3]. destruct (outs c) as [|o0 ol] eqn:Eo.
      * injection H as <-. inversion F. subst R. split; [exact U|]. exists [(r, g)], u'.
        unfold pend. cbn [py outs nxt set_py]. rewrite Eo. cbn [app].
        refine (conj _ (conj _ (conj _ _))); try assumption.
        -- constructor; [exact An | constructor].
        -- cbn [okst]. split; [reflexivity|]. exists (r, g). split; [reflexivity|]. exact O2.
      * injection H as <-. split; [exact U|]. exists (R ++ [(r, g)]), u'.
        unfold pend. cbn [py outs nxt]. rewrite app_nil_r. refine (conj _ (conj _ (conj _ _))); try assumption.
        -- exact (Forall2_app F (Forall2_cons _ _ An (Forall2_nil _))).
        -- cbn [okst]. exists false. split; [|discriminate]. cbn [okp].
           destruct (sync_only w); [subst e; discriminate (He eq_refl) | exact O3].
  - (* Cons *)
    cbn [okp] in O. apply andb_true_iff in O as [O1 O2]. destruct (outs c) as [|o0 ol] eqn:Eo.
    + injection H as <-. split; [exact U|]. exists R, u. unfold pend. cbn [py outs nxt set_py].
      rewrite Eo. refine (conj _ (conj _ (conj _ _))); try assumption. cbn [okst]. exists true. split; [exact O1 | reflexivity].
    + injection H as <-. split; [exact U|]. exists R, u. unfold pend. cbn [py outs nxt app].
      refine (conj _ (conj _ (conj _ _))); try assumption. cbn [okst]. refine (conj _ (conj _ (conj _ _))); try assumption; [reflexivity | discriminate].
  - (* Rd *)
    injection H as <-. split; [exact U|]. exists R, u. unfold pend. cbn [py outs nxt set_py].
    rewrite app_nil_r. refine (conj _ (conj _ (conj _ _))); try assumption.
    cbn [okst]. cbn [okp] in O. destruct e; [|discriminate O]. split; [exact (He eq_refl) | exact O].
  - (* Handle *)
    destruct (outs c) as [|o0 ol] eqn:Eo.
    + injection H as <-. split; [exact U|]. exists R, u. unfold pend. cbn [py outs nxt set_py].
      rewrite Eo. refine (conj _ (conj _ (conj _ _))); try assumption. cbn [okst].
      cbn [okp] in O. apply andb_true_iff in O as [O1 O2]. auto.
    + injection H as <-. split; [exact U|]. exists R, u. unfold pend. cbn [py outs nxt set_py].
      rewrite Eo, app_nil_r. refine (conj _ (conj _ (conj _ _))); try assumption. cbn [okst]. exists false. split; [|discriminate].
      cbn [okp] in *. rewrite andb_true_r. exact O.
Qed.

Lemma healthy_end c e c' : healthy c -> stepf c (LEnd e) = Some c' -> Inv c'.
Proof.
  intros (U & R & u & P & F & T & O) H. cbn [stepf] in H.
  destruct (py c) as [| | |p| | | | |] eqn:Ep; try discriminate H; [destruct O|].
  cbn [okst] in O. destruct O as (e0 & O & He). unfold pend in F. rewrite Ep in F.
  destruct p; try discriminate H.
  - destruct e as [b'|]; [|discriminate H]. destruct (Bool.eqb b b'); [|discriminate H]. injection H as <-.
    destruct alive.
    + right. cbn [okp] in O. apply andb_true_iff in O as [O1 O2].
      split; [exact U|]. exists R, u. unfold pend. cbn [py outs nxt set_py]. refine (conj _ (conj _ (conj _ _))); try assumption.
      cbn [okst]. change (drained (set_py c PIdle)) with (drained c).
      destruct (drained c); try discriminate O1. destruct u; [auto | discriminate O2].
    + left. right. left. reflexivity.
  - destruct e; [discriminate H|]. injection H as <-. right.
    cbn [okp] in O. apply andb_true_iff in O as [O1 O2].
    split; [exact U|]. exists R, u. unfold pend. cbn [py outs nxt set_py]. refine (conj _ (conj _ (conj _ _))); try assumption.
    cbn [okst]. change (drained (set_py c PIdle)) with (drained c).
    destruct (drained c); try discriminate O1. destruct u; [auto | discriminate O2].
  - destruct e; [discriminate H|]. injection H as <-. left. right. left. reflexivity.
  - destruct e; [discriminate H|]. injection H as <-. left. right. left. reflexivity.
Qed.

Lemma map_fst_untag out : map fst (untag out) = out.
Proof. unfold untag. rewrite map_map. cbn [fst]. apply map_id. Qed.

Lemma okst_emit p o R k em s' out u :
  okst p o R (SRun k) u -> semit' (SRun k) em = Some (s', out) -> existsb isnotice out = false ->
  okst p o R s' (u ++ untag out).
Proof.
  intros O E N. destruct p as [| | |q|[i w] kok kbad|rem ok kok kbad|q|h kt|]; cbn [okst] in *; try contradiction.
  - destruct O as [O _]. discriminate O.
  - destruct O as (e & O & He). exists e. split; [|exact He]. eapply okp_emit; eassumption.
  - destruct O as (Ho & x & -> & O). split; [exact Ho|]. exists x. split; [reflexivity|].
    eapply okp_emit; eassumption.
  - destruct O as (Ho & Hr & O1 & O2). repeat split; try assumption; eapply okp_emit; eassumption.
  - destruct O as (Ho & O). split; [exact Ho|]. eapply (okp_emit (Rd q)); eassumption.
  - destruct O as (Ho & O1 & O2). repeat split; try assumption.
    rewrite map_app, map_fst_untag. eapply okh_emit; eassumption.
Qed.

Lemma healthy_emit c em c' : healthy c -> stepf c (LShEmit em) = Some c' -> Inv c'.
Proof.
  intros (U & R & u & P & F & T & O) H. cbn [stepf] in H.
  destruct (semit (sh c) em) as [[s' out]|] eqn:E; [|discriminate H]. injection H as <-.
  rewrite semit_eq in E.
  assert (Hk : exists k, sh c = SRun k) by (destruct (sh c); try discriminate E; eauto).
  destruct Hk as [k Hk].
  assert (Hq : p2d c = []).
  { unfold undrained in U. rewrite Hk, drain_stuck in U by reflexivity. exact U. }
  assert (Hd : drained c = SRun k) by (unfold drained; rewrite Hk, Hq; reflexivity).
  assert (Hp : pipe c = d2p c) by (unfold pipe; rewrite Hq; cbn; apply app_nil_r).
  set (c' := mk (py c) (outs c) s' (p2d c) (d2p c ++ untag out) (nxt c)).
  assert (Hp' : pipe c' = pipe c ++ untag out).
  { unfold pipe at 1. cbn [c' sh p2d d2p]. rewrite Hq. cbn [drain fst snd]. rewrite app_nil_r, Hp. reflexivity. }
  assert (Hd' : drained c' = s') by (unfold drained; cbn [c' sh p2d]; rewrite Hq; reflexivity).
  assert (Hu' : undrained c' = []) by (unfold undrained; cbn [c' sh p2d]; rewrite Hq; reflexivity).
  destruct (existsb isnotice out) eqn:N.
  - left. left. rewrite Hp', has_notice_app, map_fst_untag, N. apply orb_true_r.
  - right. split; [exact Hu'|]. exists R, (u ++ untag out). rewrite Hp', P, app_assoc.
    refine (conj eq_refl (conj F (conj _ _))).
    + apply Forall_app. split; [exact T | apply utags_untag].
    + rewrite Hd'. rewrite Hd, Hk in *. cbn [c' py outs]. eapply okst_emit; eassumption.
Qed.

Lemma healthy_shread c c' : healthy c -> stepf c LShRead = Some c' -> healthy c'.
Proof.
  intros (U & R & u & P & F & T & O) H.
  destruct (view_shread c c' H) as (A & B & C & Py & Ou & Nx).
  split; [rewrite C; exact U|]. exists R, u. unfold pend in *. rewrite A, B, Py, Ou, Nx. auto.
Qed.

Lemma healthy_sig c term c' : healthy c -> stepf c (LShSig term) = Some c' -> Inv c'.
Proof.
  intros _ H. cbn [stepf] in H. destruct (signalable (sh c)); [|discriminate H]. injection H as <-.
  left. right. right. unfold drained. cbn [sh p2d]. rewrite drain_stuck; reflexivity.
Qed.

Lemma map_fst_nil {A B} (l : list (A * B)) : map fst l = [] -> l = [].
Proof. destruct l; [reflexivity | discriminate]. Qed.

Lemma okh_handle h kt s r u' ch p kill :
  okh h s (r :: map fst u') = true -> okp kt SMain [] true = true ->
  handle h kt r ch = (p, kill) ->
  (kill = true /\ p = PExec GoneExc) \/ (kill = false /\ okst p [] [] s u').
Proof.
  intros H K E. destruct r; cbn [okh] in H; try discriminate H; cbn [handle] in E.
  - (* RPhasesOk *)
    injection E as <- <-. right. split; [reflexivity|]. apply andb_true_iff in H as [H1 H2].
    destruct (map fst u') eqn:Eu; [|discriminate H1]. apply map_fst_nil in Eu. subst u'.
    destruct s; try discriminate H2. cbn [okst]. exists true. auto.
  - (* RPhasesFail *)
    injection E as <- <-. right. split; [reflexivity|]. apply andb_true_iff in H as [H1 H2].
    destruct (map fst u') eqn:Eu; [|discriminate H1]. apply map_fst_nil in Eu. subst u'.
    destruct s; try discriminate H2. cbn [okst]. exists true. auto.
  - (* RReqInherit *)
    apply andb_true_iff in H as [H1 H2].
    destruct (map fst u') eqn:Eu; [|discriminate H1]. apply map_fst_nil in Eu. subst u'.
    destruct s; try discriminate H2.
    destruct ch as [|[|ch]]; injection E as <- <-; [left; auto | right | right];
      (split; [reflexivity|]); cbn [okst]; exists true; (split; [|reflexivity]); cbn; rewrite K, H2; reflexivity.
  - (* RReqBashrcs *)
    apply andb_true_iff in H as [H1 H2].
    destruct (map fst u') eqn:Eu; [|discriminate H1]. apply map_fst_nil in Eu. subst u'.
    destruct s; try discriminate H2. destruct h; try discriminate H2.
    injection E as <- <-. right. split; [reflexivity|]. cbn [okst]. exists true. split; [|reflexivity].
    apply rc_ok; auto.
  - (* RReqSbx *)
    apply andb_true_iff in H as [H1 H2].
    destruct (map fst u') eqn:Eu; [|discriminate H1]. apply map_fst_nil in Eu. subst u'.
    destruct s; try discriminate H2.
    injection E as <- <-. right. split; [reflexivity|]. cbn [okst]. exists true. split; [|reflexivity].
    apply sbx_ok; auto.
  - (* RKey *)
    destruct h; try discriminate H. injection E as <- <-. right. split; [reflexivity|].
    cbn [okst]. auto.
  - (* RRecvEnv *)
    destruct h; try discriminate H. injection E as <- <-. right. split; [reflexivity|].
    cbn [okst]. auto.
  - (* RIpc *)
    destruct s; try discriminate H. destruct h; try discriminate H.
    injection E as <- <-. right. split; [reflexivity|]. cbn [okst]. exists true. split; [|reflexivity].
    destruct u' as [|x1 [|x2 [|x3 [|x4 [|x5 [|x6 u']]]]]]; cbn [map List.length Nat.eqb] in H; try discriminate H.
    destruct ch; cbn; rewrite ?K; reflexivity.
Qed.

Lemma py_read_plain c r ch :
  isnotice r = false ->
  py_read c (Some r) ch =
  match py c with
  | PRead1 (_, w) kok kbad => Some (set_py c (PExec (if rep_eqb r w then kok else kbad)))
  | PCons [] _ _ _ => None
  | PCons [(_, w)] ok kok kbad => Some (set_py c (PExec (if ok && rep_eqb r w then kok else kbad)))
  | PCons ((_, w) :: rem) ok kok kbad => Some (set_py c (PCons rem (ok && rep_eqb r w) kok kbad))
  | PRd k => Some (set_py c (PExec k))
  | PHand h kt => let '(p, kill) := handle h kt r ch in
                  Some (mk p (outs c) (if kill then SDead else sh c) (p2d c) (d2p c) (nxt c))
  | PDie => match r with
            | RDead => Some (mk (PExec GoneExc) (outs c) SDead (p2d c) (d2p c) (nxt c))
            | _ => Some (set_py c PDie)
            end
  | _ => None
  end.
Proof. intro N. destruct r; try discriminate N; reflexivity. Qed.

Lemma healthy_read c r ch c' : healthy c -> stepf c (LR r ch) = Some c' -> Inv c'.
Proof.
  intros (U & R & u & P & F & T & O) H. cbn [stepf] in H.
  destruct (d2p c) as [|[r' g] rest] eqn:Ed; [discriminate H|].
  destruct (rep_eqb r r') eqn:Er; [|discriminate H]. apply rep_eqb_eq in Er. subst r'.
  assert (NE : py c <> PErr) by (intro E; rewrite E in O; exact O).
  set (c0 := mk (py c) (outs c) (sh c) (p2d c) rest (nxt c)) in H.
  assert (H0 : py_read c0 (Some r) ch = Some c') by (destruct (py c); try exact H; congruence).
  clear H.
  destruct (isnotice r) eqn:N.
  { left. right. left. eapply py_read_notice; eassumption. }
  rewrite (py_read_plain c0 r ch N) in H0. cbn [c0 py outs sh p2d d2p nxt set_py] in H0.
  assert (P0 : (r, g) :: pipe c0 = R ++ u).
  { rewrite <- P. unfold pipe. cbn [c0 sh p2d d2p]. rewrite Ed. reflexivity. }
  assert (D0 : drained c0 = drained c) by reflexivity.
  assert (U0 : undrained c0 = undrained c) by reflexivity.
  unfold pend in F. subst c0.
  destruct (py c) as [| | |q|[i w] kok kbad|rem ok kok kbad|q|h kt|] eqn:Ep; try discriminate H0;
    cbn [okst] in O.
  - (* PRead1 *)
    destruct O as (Ho & x & -> & O). rewrite Ho in F. cbn [app] in F, P0.
    injection P0 as <- Pu. injection H0 as <-. right.
    split; [exact U|]. exists [], u. unfold pend. cbn [py outs nxt set_py]. rewrite Ho.
    refine (conj _ (conj (Forall2_nil _) (conj T _))); [exact Pu|].
    cbn [okst]. exists true. split; [exact O | reflexivity].
  - (* PCons *)
    destruct O as (Ho & Hr & O1 & O2). rewrite Ho in F. cbn [app] in F.
    destruct rem as [|[i w] rem']; [contradiction|].
    inversion F as [|? x ? R' An F']. subst. cbn [app] in P0. injection P0 as <- Pu.
    destruct rem' as [|e2 rem''].
    + inversion F'. subst. injection H0 as <-. right.
      split; [exact U|]. exists [], u. unfold pend. cbn [py outs nxt set_py]. rewrite Ho.
      refine (conj _ (conj (Forall2_nil _) (conj T _))); [exact Pu|].
      cbn [okst]. exists true. split; [|reflexivity]. destruct (ok && rep_eqb r w); assumption.
    + injection H0 as <-. right.
      split; [exact U|]. exists R', u. unfold pend. cbn [py outs nxt set_py]. rewrite Ho.
      refine (conj _ (conj F' (conj T _))); [exact Pu|].
      cbn [okst]. refine (conj eq_refl (conj _ (conj O1 O2))). discriminate.
  - (* PRd *)
    destruct O as (Ho & O). rewrite Ho, app_nil_r in F. inversion F. subst R. cbn [app] in P0.
    destruct u as [|x u']; [discriminate P0|]. injection P0 as <- Pu. injection H0 as <-. right.
    split; [exact U|]. exists [], u'. unfold pend. cbn [py outs nxt set_py]. rewrite Ho.
    refine (conj _ (conj (Forall2_nil _) (conj _ _))); [exact Pu | inversion T; assumption|].
    cbn [okst]. exists true. split; [|reflexivity]. cbn [okp andb] in O. exact O.
  - (* PHand *)
    destruct O as (Ho & K & O). rewrite Ho, app_nil_r in F. inversion F. subst R. cbn [app] in P0.
    destruct u as [|x u']; [discriminate P0|]. injection P0 as <- Pu. cbn [map fst] in O.
    destruct (handle h kt r ch) as [p kill] eqn:Eh. injection H0 as <-.
    destruct (okh_handle h kt (drained c) r u' ch p kill O K Eh) as [[-> ->]|[-> Op]].
    + left. right. left. reflexivity.
    + right. split; [exact U|]. exists [], u'. unfold pend. cbn [py outs nxt set_py]. rewrite Ho.
      assert (Fp : Forall2 answers ([] ++ match p with PRead1 w0 _ _ => [w0] | PCons rem _ _ _ => rem | _ => [] end) []).
      { destruct p as [| | |q|[i w] kok kbad|rem ok kok kbad|q|h' kt'|]; cbn [okst] in Op;
          try constructor; try contradiction.
        - destruct Op as (_ & x0 & Hx & _). discriminate Hx.
        - destruct Op as (_ & _ & _ & _). exfalso.
          (* handle never returns a PCons *)
          destruct r; cbn in Eh; try discriminate Eh; try destruct h; try destruct ch as [|[|?]];
            discriminate Eh. }
      refine (conj _ (conj Fp (conj _ _))); [exact Pu | inversion T; assumption|].
      exact Op.
  - (* PDie *) destruct O.
Qed.

(* ------------------------------------------------------------------ the invariant is inductive *)
Lemma Inv_step c l c' : Inv c -> stepf c l = Some c' -> Inv c'.
Proof.
  intros [D|Hh] H; [left; eapply disturbed_step; eassumption|].
  destruct l as [o|cm f|r ch| |e| | | |em|term].
  - right. eapply healthy_call; eassumption.
  - eapply healthy_write; eassumption.
  - eapply healthy_read; eassumption.
  - (* LEof: the daemon is gone, so the session was disturbed already *)
    left. eapply disturbed_step; [|exact H]. right. right.
    cbn [stepf] in H. destruct (d2p c); [|discriminate H]. destruct (sh c) eqn:Es; try discriminate H.
    unfold drained. rewrite Es, drain_stuck; reflexivity.
  - eapply healthy_end; eassumption.
  - right. eapply healthy_tau; eassumption.
  - destruct Hh as (_ & R & u & _ & _ & _ & O). cbn [stepf] in H.
    destruct (py c); try discriminate H. destruct O.
  - right. eapply healthy_shread; eassumption.
  - eapply healthy_emit; eassumption.
  - eapply healthy_sig; eassumption.
Qed.

Lemma Inv_init c : init c -> Inv c.
Proof.
  intros [b ->]. right. split; [reflexivity|]. exists [], []. unfold pend. cbn.
  refine (conj eq_refl (conj (Forall2_nil _) (conj (Forall_nil _) _))).
  exists true. split; [apply init_ok | reflexivity].
Qed.

Lemma Inv_reach c : reach c -> Inv c.
Proof.
  apply (invariant_by_induction conf label protocol_step init Inv).
  - exact Inv_init.
  - intros s l s' HI Hs. eapply Inv_step; eassumption.
Qed.

(* ------------------------------------------------------------------ die blocks *)
Lemma wbk_app l : forall i out, wbk i l = true -> wbk false out = true -> wbk i (l ++ out) = true.
Proof.
  induction l as [|r l IH]; intros i out H B; cbn [app].
  - destruct i; [discriminate H | exact B].
  - destruct r; cbn [wbk] in *; try (apply IH; assumption).
    apply andb_true_iff in H as [-> H]. cbn [andb]. apply IH; assumption.
Qed.
Lemma sreact_balanced s c f s' out : sreact' s c f = Some (s', out) -> wbk false out = true.
Proof.
  destruct s; try destruct k; destruct c; destruct f; cbn; intro H; try discriminate H;
    injection H as <- <-; reflexivity.
Qed.
Lemma semit_balanced s e s' out : semit' s e = Some (s', out) -> wbk false out = true.
Proof.
  destruct s; try destruct k; destruct e; try destruct ok; cbn; intro H; try discriminate H;
    injection H as <- <-; reflexivity.
Qed.
Lemma map_fst_tag i out : map fst (tag i out) = out.
Proof. unfold tag. rewrite map_map. cbn [fst]. apply map_id. Qed.

Lemma handle_not_pdie h kt r ch p kill : handle h kt r ch = (p, kill) -> is_pdie p = false.
Proof.
  destruct r; cbn; try destruct h; try destruct ch as [|[|?]]; intro H; injection H as <- _; reflexivity.
Qed.

Lemma Wb_step c l c' : Wb c -> stepf c l = Some c' -> Wb c'.
Proof.
  unfold Wb. intros W H. destruct l as [o|cm f|r ch| |e| | | |em|term]; cbn [stepf] in H.
  - destruct (py c) eqn:Ep; try discriminate H. injection H as <-. cbn [py d2p set_py].
    destruct W as [W|W]; [discriminate W | right; exact W].
  - destruct (py c) as [| | |p| | | | |] eqn:Ep; try discriminate H.
    + injection H as <-. left; reflexivity.
    + destruct p as [| | | |c0 k| | | |]; try discriminate H.
      destruct (cmd_eqb cm c0); [|discriminate H]. injection H as <-. cbn [py d2p].
      destruct W as [W|W]; [discriminate W|]. right.
      destruct k; try exact W; left; reflexivity.
  - destruct (d2p c) as [|[r' g] rest] eqn:Ed; [discriminate H|].
    destruct (rep_eqb r r') eqn:Er; [|discriminate H]. apply rep_eqb_eq in Er. subst r'.
    destruct (py c) eqn:Ep.
    2: { injection H as <-. left; reflexivity. }
    all: destruct W as [W|W]; try discriminate W.
    all: try discriminate H.
    all: try (destruct p; discriminate H || discriminate W).
    all: cbn [map fst wbk is_pdie] in W.
    all: unfold py_read in H; cbn [py outs sh p2d d2p nxt set_py] in H.
    all: destruct r; cbn [wbk] in W; try discriminate W; try discriminate H;
      repeat match type of H with
             | context [match ?x with _ => _ end] => destruct x eqn:?; try discriminate H
             end;
      injection H as <-; cbn [py d2p set_py is_pdie py_ended];
      try (left; reflexivity); try (right; exact W).
    all: try (apply andb_true_iff in W as [W1 W2]; discriminate W1).
    all: match goal with E : handle _ _ _ _ = (?p, _) |- _ => right; rewrite (handle_not_pdie _ _ _ _ _ _ E); exact W end.
  - destruct (d2p c) eqn:Ed; [|discriminate H]. destruct (sh c); try discriminate H.
    destruct (py c) eqn:Ep.
    2: { injection H as <-. left. rewrite Ep. reflexivity. }
    all: unfold py_read in H; rewrite Ep in H; try discriminate H.
    all: repeat match type of H with
                | context [match ?x with _ => _ end] => destruct x eqn:?; try discriminate H
                end;
      injection H as <-; cbn [py d2p set_py]; rewrite Ed;
      destruct W as [W|W]; try discriminate W; try (left; reflexivity); right; exact W.
  - destruct (py c) as [| | |p| | | | |] eqn:Ep; try discriminate H.
    + injection H as <-. left. rewrite Ep. reflexivity.
    + destruct p; try discriminate H.
      * destruct e as [b'|]; [|discriminate H]. destruct (Bool.eqb b b'); [|discriminate H]. injection H as <-.
        cbn [py d2p set_py]. destruct alive; [|left; reflexivity].
        destruct W as [W|W]; [discriminate W | right; exact W].
      * destruct e; [discriminate H|]. injection H as <-. cbn [py d2p set_py].
        destruct W as [W|W]; [discriminate W | right; exact W].
      * destruct e; [discriminate H|]. injection H as <-. left; reflexivity.
      * destruct e; [discriminate H|]. injection H as <-. left; reflexivity.
  - destruct (py c) as [| | |p| | | | |] eqn:Ep; try discriminate H.
    destruct W as [W|W]; [destruct p; try discriminate H; discriminate W|].
    right. cbn [is_pdie] in W.
    destruct p; try discriminate H; try destruct async; try destruct (outs c); injection H as <-; exact W.
  - destruct (py c); try discriminate H. injection H as <-. left; reflexivity.
  - destruct (p2d c) as [|[[cm i] f] rest]; [discriminate H|].
    destruct (sreact (sh c) cm f) as [[s' out]|] eqn:E; [|discriminate H]. injection H as <-.
    cbn [py d2p]. destruct W as [W|W]; [left; exact W|]. right.
    rewrite map_app, map_fst_tag. apply wbk_app; [exact W|].
    rewrite sreact_eq in E. eapply sreact_balanced; exact E.
  - destruct (semit (sh c) em) as [[s' out]|] eqn:E; [|discriminate H]. injection H as <-.
    cbn [py d2p]. destruct W as [W|W]; [left; exact W|]. right.
    rewrite map_app, map_fst_untag. apply wbk_app; [exact W|].
    rewrite semit_eq in E. eapply semit_balanced; exact E.
  - destruct (signalable (sh c)); [|discriminate H]. injection H as <-.
    cbn [py d2p]. destruct W as [W|W]; [left; exact W|]. right.
    rewrite map_app. apply wbk_app; [exact W|]. unfold untag. cbn [map fst]. rewrite tok_id. destruct term; reflexivity.
Qed.

Lemma Wb_reach c : reach c -> Wb c.
Proof.
  apply (invariant_by_induction conf label protocol_step init Wb).
  - intros s [b ->]. right. reflexivity.
  - intros s l s' HI Hs. eapply Wb_step; eassumption.
Qed.

(* ------------------------------------------------------------------ the property theorems *)
Theorem no_deadlock_proof : forall c, reach c -> ~ deadlocked c.
Proof.
  intros c Hr (Hp & Hs & He).
  assert (Hq : p2d c = [] /\ d2p c = []).
  { unfold chans_empty in He. destruct (p2d c); [destruct (d2p c); [auto | discriminate He] | discriminate He]. }
  destruct Hq as [Hq Hd].
  assert (Pe : pipe c = []) by (unfold pipe; rewrite Hq, Hd; reflexivity).
  assert (De : drained c = sh c) by (unfold drained; rewrite Hq; reflexivity).
  unfold sh_waits in Hs. unfold py_waits in Hp.
  destruct (Inv_reach c Hr) as [[D|[D|D]]|(U & R & u & P & F & T & O)].
  - rewrite Pe in D. discriminate D.
  - destruct (Wb_reach c Hr) as [W|W].
    + destruct (py c) as [| | |p| | | | |]; try discriminate Hp; discriminate W.
    + destruct (py c) as [| | |p| | | | |]; try discriminate Hp; try discriminate D.
      rewrite Hd in W. discriminate W.
  - rewrite De in D. rewrite D in Hs. discriminate Hs.
  - rewrite Pe in P. symmetry in P. apply app_eq_nil in P as [-> ->].
    unfold pend in F. rewrite De in O.
    destruct (py c) as [| | |p|[i w] kok kbad|rem ok kok kbad|k|h kt|]; try discriminate Hp; cbn [okst] in O.
    + destruct O as (_ & x & Hx & _). discriminate Hx.
    + destruct O as (Ho & Hn & _). rewrite Ho in F. cbn [app] in F. inversion F. subst. contradiction.
    + destruct O as (_ & O). discriminate O.
    + destruct O as (_ & _ & O). cbn [map okh] in O. destruct (sh c); try discriminate O; discriminate Hs.
    + exact O.
Qed.

Theorem replies_matched_proof : forall c, reach c -> disturbed c \/ matched c.
Proof.
  intros c Hr. destruct (Inv_reach c Hr) as [D|(U & R & u & P & F & T & O)]; [left; exact D|].
  right. exists R, u. auto.
Qed.

(* in an undisturbed session a synchronous expect consumes the answer to its own command *)
Theorem expect_reads_own_reply_proof :
  forall c i w kok kbad r g rest,
    reach c -> ~ disturbed c -> py c = PRead1 (i, w) kok kbad -> d2p c = (r, g) :: rest ->
    answers (i, w) (r, g).
Proof.
  intros c i w kok kbad r g rest Hr Hn Hp Hd.
  destruct (Inv_reach c Hr) as [D|(U & R & u & P & F & T & O)]; [contradiction|].
  rewrite Hp in O. cbn [okst] in O. destruct O as (Ho & x & -> & _).
  unfold pend in F. rewrite Hp, Ho in F. cbn [app] in F. inversion F as [|? ? ? ? An _]. subst.
  unfold pipe in P. rewrite Hd in P. cbn [app] in P. injection P as <- _. exact An.
Qed.

(* a die / SIGINT / SIGTERM notice ends the session at the read that meets it, whatever was expected *)
Theorem notice_ends_session_proof :
  forall c r ch c', isnotice r = true -> stepf c (LR r ch) = Some c' -> py_over (py c') = true.
Proof.
  intros c r ch c' N H. cbn [stepf] in H.
  destruct (d2p c) as [|[r' g] rest]; [discriminate H|]. destruct (rep_eqb r r'); [|discriminate H].
  destruct (py c) eqn:Ep; try (eapply py_read_notice; [exact H | exact N]).
  injection H as <-. reflexivity.
Qed.

(* ------------------------------------------------------------------ non-vacuity *)
(* a deadlocked configuration exists (it is just not reachable) *)
Example deadlocked_is_satisfiable : deadlocked (mk (PHand HMeta (Done true)) [] SMain [] [] 3).
Proof. repeat split. Qed.

(* a reachable configuration with three outstanding expects, all matched, after a metadata request
   with an inherit round trip *)
Definition ex_labels : list label :=
  [LW CEbdQ true; LTau; LShRead; LR (RAck CEbdQ) 0; LW CNoSandbox true; LTau; LShRead; LR RLine 0;
   LEnd (ERet true);
   LCall (OKeys true 3); LW CSetMeta true; LTau; LShRead; LR (RAck CSetMeta) 0; LW CGenMeta true; LTau;
   LShRead; LShEmit EInherit; LR RReqInherit 1; LW CPath true; LW COther true; LTau; LShRead; LShRead;
   LShEmit EKey; LR RKey 0; LShEmit (EFinish true); LR RPhasesOk 0;
   LW CPreload true; LTau; LW CPreload false; LTau; LW CPreload true; LTau; LEnd (ERet true);
   LShRead].
Example ex_reachable :
  match run conf label stepf (conf0 false) ex_labels with
  | Some c => List.length (pend c) = 3 /\ py c = PIdle /\ List.length (d2p c) = 1 /\ List.length (p2d c) = 2
  | None => False
  end.
Proof. vm_compute. auto. Qed.

(* an unknown command: the daemon dies, python's next request ends with an error *)
Example ex_unknown_command :
  accepts_obs false
    [OW CEbdQ; OR (RAck CEbdQ); OW CNoSandbox; OR RLine; OE (ERet true);
     OC ORaw; OW COther; OE (ERet true);
     OC OAlive; OW CAlive; OR RDying; OR RDead; OE EExc] = true.
Proof. vm_compute. reflexivity. Qed.
(* ... and a trace in which the reply to that request arrives although the daemon must be dead is no behaviour *)
Example ex_unknown_command_not_misread :
  accepts_obs false
    [OW CEbdQ; OR (RAck CEbdQ); OW CNoSandbox; OR RLine; OE (ERet true);
     OC ORaw; OW COther; OE (ERet true);
     OC OAlive; OW CAlive; OR (RAck CAlive); OE (ERet true)] = false.
Proof. vm_compute. reflexivity. Qed.

(* ------------------------------------------------------------------ trace validation is sound *)
(* a trace the checker accepts is the python-side projection of a run of the LTS from an initial
   configuration: the theorems above speak about the configurations real sessions went through *)
Theorem accepted_trace_is_behaviour_proof :
  forall sandbox os, accepts_obs sandbox os = true ->
    exists ls c, run conf label stepf (conf0 sandbox) ls = Some c
                 /\ obs_list_eqb (project ls) os = true /\ reach c.
Proof.
  intros b os H. unfold accepts_obs in H.
  destruct (elab (conf0 b) os []) as [ls|]; [|discriminate H].
  apply andb_true_iff in H as [Ha Hp].
  destruct (accepts_reachable conf label stepf init (conf0 b) ls) as (c & Hrun & Hreach);
    [exists b; reflexivity | exact Ha |].
  exists ls, c. auto.
Qed.
