From Coq Require Import List NArith ZArith Bool.
From Verif Require Import Base.Val C10.Model_C10 C10.Spec_C10.
Import ListNotations.

Definition cases : list ((fcs_input) * val) := 
[
  (([(Flag false false [2%N]); (Flag false false [2%N])], ((@nil (N)), [2%N], (@nil (N)), [6%N])),
   (sols_val false 0 nil));
  (([(Flag false false [2%N]); (Flag false false [2%N])], ([2%N], [5%N], (@nil (N)), (@nil (N)))),
   (sols_val false 4 [4]%N));
  (([(Flag true false [0%N]); (Flag false false [1%N])], ((@nil (N)), [1%N], [0%N], [5%N])),
   (sols_val false 0 nil));
  (([(Flag true false [0%N]); (Flag false false [1%N])], ([0%N; 5%N], (@nil (N)), (@nil (N)), [0%N; 1%N])),
   (sols_val false 0 nil));
  (([(Flag true false [0%N]); (Flag false false [1%N])], ([1%N], (@nil (N)), (@nil (N)), (@nil (N)))),
   (sols_val false 3 [2]%N));
  (([(Flag true false [0%N]); (Flag false false [1%N])], ([0%N; 1%N], (@nil (N)), [1%N], [0%N; 1%N; 5%N])),
   (sols_val false 0 nil));
  (([(Grp KAnd false [(Cond false 3%N [(Flag true false [3%N]); (Flag false false [2%N])]); (Flag false false [3%N]); (Cond false 2%N [(Flag false false [3%N]); (Flag false false [1%N]); (Flag false false [2%N])])]); (Flag true false [1%N]); (Grp KAnd false [(Flag false false [2%N]); (Flag true false [1%N]); (Flag false false [0%N])])], ([2%N; 3%N; 5%N], (@nil (N)), (@nil (N)), [1%N; 2%N; 3%N])),
   (sols_val false 0 nil));
  (([(Grp KAnd false [(Cond false 3%N [(Flag true false [3%N]); (Flag false false [2%N])]); (Flag false false [3%N]); (Cond false 2%N [(Flag false false [3%N]); (Flag false false [1%N]); (Flag false false [2%N])])]); (Flag true false [1%N]); (Grp KAnd false [(Flag false false [2%N]); (Flag true false [1%N]); (Flag false false [0%N])])], ([0%N], [3%N; 6%N], [2%N], [1%N; 3%N; 6%N])),
   (sols_val false 0 nil));
  (([(Grp KAnd false [(Cond false 3%N [(Flag true false [3%N]); (Flag false false [2%N])]); (Flag false false [3%N]); (Cond false 2%N [(Flag false false [3%N]); (Flag false false [1%N]); (Flag false false [2%N])])]); (Flag true false [1%N]); (Grp KAnd false [(Flag false false [2%N]); (Flag true false [1%N]); (Flag false false [0%N])])], ([0%N; 3%N; 5%N], [1%N; 3%N; 5%N; 6%N], [2%N], [1%N])),
   (sols_val false 0 nil));
  (([(Grp KAnd false [(Cond false 3%N [(Flag true false [3%N]); (Flag false false [2%N])]); (Flag false false [3%N]); (Cond false 2%N [(Flag false false [3%N]); (Flag false false [1%N]); (Flag false false [2%N])])]); (Flag true false [1%N]); (Grp KAnd false [(Flag false false [2%N]); (Flag true false [1%N]); (Flag false false [0%N])])], ([1%N; 3%N], (@nil (N)), [1%N; 3%N; 5%N; 6%N], [0%N])),
   (sols_val false 0 nil));
  (([(Grp KAnd false [(Cond false 3%N [(Flag true false [3%N]); (Flag false false [2%N])]); (Flag false false [3%N]); (Cond false 2%N [(Flag false false [3%N]); (Flag false false [1%N]); (Flag false false [2%N])])]); (Flag true false [1%N]); (Grp KAnd false [(Flag false false [2%N]); (Flag true false [1%N]); (Flag false false [0%N])])], ([0%N; 1%N; 2%N; 3%N; 5%N], [0%N; 2%N], [5%N], [1%N])),
   (sols_val false 0 nil));
  (([(Grp KAnd false [(Cond false 3%N [(Flag true false [3%N]); (Flag false false [2%N])]); (Flag false false [3%N]); (Cond false 2%N [(Flag false false [3%N]); (Flag false false [1%N]); (Flag false false [2%N])])]); (Flag true false [1%N]); (Grp KAnd false [(Flag false false [2%N]); (Flag true false [1%N]); (Flag false false [0%N])])], ([3%N], (@nil (N)), (@nil (N)), [1%N; 2%N; 5%N])),
   (sols_val false 0 nil));
  (([(Grp KAnd false [(Cond false 3%N [(Flag true false [3%N]); (Flag false false [2%N])]); (Flag false false [3%N]); (Cond false 2%N [(Flag false false [3%N]); (Flag false false [1%N]); (Flag false false [2%N])])]); (Flag true false [1%N]); (Grp KAnd false [(Flag false false [2%N]); (Flag true false [1%N]); (Flag false false [0%N])])], ([1%N; 2%N; 5%N], (@nil (N)), (@nil (N)), [6%N])),
   (sols_val false 0 nil));
  (([(Grp KAnd false [(Cond false 3%N [(Flag true false [3%N]); (Flag false false [2%N])]); (Flag false false [3%N]); (Cond false 2%N [(Flag false false [3%N]); (Flag false false [1%N]); (Flag false false [2%N])])]); (Flag true false [1%N]); (Grp KAnd false [(Flag false false [2%N]); (Flag true false [1%N]); (Flag false false [0%N])])], ([2%N; 5%N], (@nil (N)), (@nil (N)), [0%N; 2%N])),
   (sols_val false 0 nil));
  (([(Grp KAnd false [(Cond false 3%N [(Flag true false [3%N]); (Flag false false [2%N])]); (Flag false false [3%N]); (Cond false 2%N [(Flag false false [3%N]); (Flag false false [1%N]); (Flag false false [2%N])])]); (Flag true false [1%N]); (Grp KAnd false [(Flag false false [2%N]); (Flag true false [1%N]); (Flag false false [0%N])])], ([0%N; 1%N; 3%N], (@nil (N)), [6%N], [2%N])),
   (sols_val false 0 nil));
  (([(Grp KAnd false [(Cond false 3%N [(Flag true false [3%N]); (Flag false false [2%N])]); (Flag false false [3%N]); (Cond false 2%N [(Flag false false [3%N]); (Flag false false [1%N]); (Flag false false [2%N])])]); (Flag true false [1%N]); (Grp KAnd false [(Flag false false [2%N]); (Flag true false [1%N]); (Flag false false [0%N])])], ([0%N; 2%N; 3%N; 5%N], [1%N; 6%N], [0%N], [1%N])),
   (sols_val false 0 nil));
  (([(Flag true false [0%N]); (Grp KOne false [(Cond false 0%N [(Flag false false [0%N]); (Flag false false [0%N]); (Flag false false [0%N])]); (Grp KOr false [(Flag true false [0%N]); (Flag false false [0%N]); (Flag true false [0%N])])])], ([5%N], [5%N; 6%N], [0%N], [5%N; 6%N])),
   (sols_val false 0 nil));
  (([(Flag true false [0%N]); (Grp KOne false [(Cond false 0%N [(Flag false false [0%N]); (Flag false false [0%N]); (Flag false false [0%N])]); (Grp KOr false [(Flag true false [0%N]); (Flag false false [0%N]); (Flag true false [0%N])])])], ([0%N; 5%N], (@nil (N)), (@nil (N)), (@nil (N)))),
   (sols_val false 0 nil));
  (([(Flag true false [1%N]); (Cond false 2%N [(Flag true false [2%N])])], ((@nil (N)), (@nil (N)), (@nil (N)), [2%N])),
   (sols_val true 6 [0]%N));
  (([(Flag true false [1%N]); (Cond false 2%N [(Flag true false [2%N])])], ([1%N; 5%N], [2%N; 6%N], (@nil (N)), [1%N])),
   (sols_val false 38 [0; 32]%N));
  (([(Flag true false [1%N]); (Cond false 2%N [(Flag true false [2%N])])], ([2%N; 5%N], (@nil (N)), (@nil (N)), (@nil (N)))),
   (sols_val true 38 [0; 32]%N));
  (([(Flag true false [1%N]); (Cond false 2%N [(Flag true false [2%N])])], ([1%N; 2%N; 5%N], (@nil (N)), (@nil (N)), [2%N])),
   (sols_val false 38 [0; 32]%N));
  (([(Flag false false [0%N]); (Flag false false [1%N]); (Grp KOr false [(Cond false 0%N [(Flag false false [2%N]); (Flag true false [1%N]); (Flag false false [2%N])]); (Flag false false [1%N]); (Flag false false [0%N])])], ((@nil (N)), [0%N; 6%N], [1%N; 2%N; 5%N], [2%N])),
   (sols_val false 0 nil));
  (([(Flag false false [0%N]); (Flag false false [1%N]); (Grp KOr false [(Cond false 0%N [(Flag false false [2%N]); (Flag true false [1%N]); (Flag false false [2%N])]); (Flag false false [1%N]); (Flag false false [0%N])])], ([0%N], [0%N], (@nil (N)), [2%N])),
   (sols_val false 0 nil));
  (([(Flag false false [0%N]); (Flag false false [1%N]); (Grp KOr false [(Cond false 0%N [(Flag false false [2%N]); (Flag true false [1%N]); (Flag false false [2%N])]); (Flag false false [1%N]); (Flag false false [0%N])])], ([1%N], (@nil (N)), (@nil (N)), [5%N])),
   (sols_val false 0 nil));
  (([(Flag false false [0%N]); (Flag false false [1%N]); (Grp KOr false [(Cond false 0%N [(Flag false false [2%N]); (Flag true false [1%N]); (Flag false false [2%N])]); (Flag false false [1%N]); (Flag false false [0%N])])], ([2%N; 5%N], (@nil (N)), (@nil (N)), [0%N; 5%N; 6%N])),
   (sols_val false 0 nil));
  (([(Flag false false [0%N]); (Flag false false [1%N]); (Grp KOr false [(Cond false 0%N [(Flag false false [2%N]); (Flag true false [1%N]); (Flag false false [2%N])]); (Flag false false [1%N]); (Flag false false [0%N])])], ([0%N; 1%N; 5%N], [2%N], (@nil (N)), (@nil (N)))),
   (sols_val false 39 [3; 35]%N));
  (([(Flag false false [0%N]); (Flag false false [1%N]); (Grp KOr false [(Cond false 0%N [(Flag false false [2%N]); (Flag true false [1%N]); (Flag false false [2%N])]); (Flag false false [1%N]); (Flag false false [0%N])])], ([0%N; 2%N], [2%N; 5%N], [0%N], [5%N; 6%N])),
   (sols_val false 0 nil));
  (([(Flag false false [0%N]); (Flag false false [1%N]); (Grp KOr false [(Cond false 0%N [(Flag false false [2%N]); (Flag true false [1%N]); (Flag false false [2%N])]); (Flag false false [1%N]); (Flag false false [0%N])])], ([1%N; 2%N], (@nil (N)), (@nil (N)), [0%N; 1%N])),
   (sols_val false 0 nil));
  (([(Flag false false [0%N]); (Flag false false [1%N]); (Grp KOr false [(Cond false 0%N [(Flag false false [2%N]); (Flag true false [1%N]); (Flag false false [2%N])]); (Flag false false [1%N]); (Flag false false [0%N])])], ([0%N; 1%N; 2%N; 5%N], (@nil (N)), (@nil (N)), [0%N; 2%N; 6%N])),
   (sols_val false 39 [3; 7; 35; 39]%N));
  (([(Flag true false [1%N])], ([5%N], (@nil (N)), (@nil (N)), [5%N])),
   (sols_val true 34 [0; 32]%N));
  (([(Flag true false [1%N])], ([1%N; 5%N], (@nil (N)), (@nil (N)), [5%N; 6%N])),
   (sols_val true 34 [0; 32]%N));
  (([(Grp KOne false [(Flag false false [0%N]); (Flag false false [0%N])]); (Flag true false [0%N])], ((@nil (N)), [6%N], (@nil (N)), [6%N])),
   (sols_val false 0 nil));
  (([(Grp KOne false [(Flag false false [0%N]); (Flag false false [0%N])]); (Flag true false [0%N])], ([0%N; 5%N], (@nil (N)), (@nil (N)), [0%N; 5%N])),
   (sols_val false 0 nil));
  (([(Grp KOr false [(Cond true 1%N [(Flag true false [0%N]); (Flag true false [1%N]); (Cond true 1%N [(Flag true false [0%N]); (Flag false false [1%N])])]); (Grp KAnd false [(Flag false false [0%N]); (Grp KOne false [(Flag true false [0%N]); (Flag false false [1%N])])]); (Grp KOr false [(Flag false false [1%N]); (Flag true false [0%N]); (Flag false false [0%N])])])], ((@nil (N)), (@nil (N)), [5%N], [1%N; 5%N; 6%N])),
   (sols_val true 3 [0]%N));
  (([(Grp KOr false [(Cond true 1%N [(Flag true false [0%N]); (Flag true false [1%N]); (Cond true 1%N [(Flag true false [0%N]); (Flag false false [1%N])])]); (Grp KAnd false [(Flag false false [0%N]); (Grp KOne false [(Flag true false [0%N]); (Flag false false [1%N])])]); (Grp KOr false [(Flag false false [1%N]); (Flag true false [0%N]); (Flag false false [0%N])])])], ([0%N; 5%N], [6%N], [5%N], [1%N; 6%N])),
   (sols_val true 35 [0; 1]%N));
  (([(Grp KOr false [(Cond true 1%N [(Flag true false [0%N]); (Flag true false [1%N]); (Cond true 1%N [(Flag true false [0%N]); (Flag false false [1%N])])]); (Grp KAnd false [(Flag false false [0%N]); (Grp KOne false [(Flag true false [0%N]); (Flag false false [1%N])])]); (Grp KOr false [(Flag false false [1%N]); (Flag true false [0%N]); (Flag false false [0%N])])])], ([1%N], [0%N], (@nil (N)), [0%N; 1%N; 5%N; 6%N])),
   (sols_val true 3 [0; 2]%N));
  (([(Grp KOr false [(Cond true 1%N [(Flag true false [0%N]); (Flag true false [1%N]); (Cond true 1%N [(Flag true false [0%N]); (Flag false false [1%N])])]); (Grp KAnd false [(Flag false false [0%N]); (Grp KOne false [(Flag true false [0%N]); (Flag false false [1%N])])]); (Grp KOr false [(Flag false false [1%N]); (Flag true false [0%N]); (Flag false false [0%N])])])], ([0%N; 1%N], (@nil (N)), (@nil (N)), (@nil (N)))),
   (sols_val true 3 [0; 1; 2; 3]%N));
  (([(Cond true 0%N [(Flag false false [0%N])])], ((@nil (N)), (@nil (N)), (@nil (N)), (@nil (N)))),
   (sols_val false 0 nil));
  (([(Cond true 0%N [(Flag false false [0%N])])], ([0%N; 5%N], (@nil (N)), [0%N; 5%N], [6%N])),
   (sols_val false 0 nil));
  (([(Flag true false [1%N])], ((@nil (N)), (@nil (N)), (@nil (N)), [5%N; 6%N])),
   (sols_val true 2 [0]%N));
  (([(Flag true false [1%N])], ([1%N; 5%N], (@nil (N)), (@nil (N)), [5%N; 6%N])),
   (sols_val true 34 [0; 32]%N));
  (([(Cond false 0%N [(Grp KAmo false [(Flag false false [1%N]); (Flag false false [2%N])]); (Flag false false [2%N])]); (Flag false false [0%N])], ((@nil (N)), [2%N], (@nil (N)), (@nil (N)))),
   (sols_val false 0 nil));
  (([(Cond false 0%N [(Grp KAmo false [(Flag false false [1%N]); (Flag false false [2%N])]); (Flag false false [2%N])]); (Flag false false [0%N])], ([0%N], (@nil (N)), (@nil (N)), [0%N; 2%N; 5%N])),
   (sols_val false 0 nil));
  (([(Cond false 0%N [(Grp KAmo false [(Flag false false [1%N]); (Flag false false [2%N])]); (Flag false false [2%N])]); (Flag false false [0%N])], ([1%N; 5%N], (@nil (N)), (@nil (N)), [2%N; 5%N])),
   (sols_val false 0 nil));
  (([(Cond false 0%N [(Grp KAmo false [(Flag false false [1%N]); (Flag false false [2%N])]); (Flag false false [2%N])]); (Flag false false [0%N])], ([2%N; 5%N], [5%N], [2%N; 6%N], (@nil (N)))),
   (sols_val false 0 nil));
  (([(Cond false 0%N [(Grp KAmo false [(Flag false false [1%N]); (Flag false false [2%N])]); (Flag false false [2%N])]); (Flag false false [0%N])], ([0%N; 1%N; 5%N], [0%N; 6%N], [1%N], [0%N])),
   (sols_val false 0 nil));
  (([(Cond false 0%N [(Grp KAmo false [(Flag false false [1%N]); (Flag false false [2%N])]); (Flag false false [2%N])]); (Flag false false [0%N])], ([0%N; 2%N], [1%N; 6%N], [0%N], [0%N; 6%N])),
   (sols_val false 0 nil));
  (([(Cond false 0%N [(Grp KAmo false [(Flag false false [1%N]); (Flag false false [2%N])]); (Flag false false [2%N])]); (Flag false false [0%N])], ([1%N; 2%N; 5%N], (@nil (N)), (@nil (N)), [6%N])),
   (sols_val false 0 nil));
  (([(Cond false 0%N [(Grp KAmo false [(Flag false false [1%N]); (Flag false false [2%N])]); (Flag false false [2%N])]); (Flag false false [0%N])], ([0%N; 1%N; 2%N], (@nil (N)), (@nil (N)), [2%N; 5%N; 6%N])),
   (sols_val false 7 [5]%N));
  (([(Flag false false [0%N])], ([0%N], (@nil (N)), (@nil (N)), (@nil (N)))),
   (sols_val false 1 [1]%N));
  (([(Flag false false [0%N])], ([0%N], [0%N], (@nil (N)), [0%N])),
   (sols_val true 1 [1]%N));
  (([(Flag false false [0%N])], ([0%N], (@nil (N)), [0%N], [5%N])),
   (sols_val false 0 nil));
  (([(Flag false false [0%N])], ([0%N], (@nil (N)), (@nil (N)), (@nil (N)))),
   (sols_val false 1 [1]%N));
  (([(Flag false false [0%N])], ([0%N], [0%N], (@nil (N)), [0%N])),
   (sols_val true 1 [1]%N));
  (([(Flag false false [0%N])], ([0%N], (@nil (N)), [0%N], [5%N])),
   (sols_val false 0 nil));
  (([(Flag false false [0%N])], ([0%N; 5%N], (@nil (N)), (@nil (N)), (@nil (N)))),
   (sols_val false 33 [1; 33]%N));
  (([(Flag false false [0%N])], ([0%N; 5%N], [0%N], (@nil (N)), [0%N])),
   (sols_val true 33 [1; 33]%N));
  (([(Flag false false [0%N])], ([0%N; 5%N], (@nil (N)), [0%N], [5%N])),
   (sols_val false 0 nil));
  (([(Flag true false [0%N])], ([0%N], (@nil (N)), (@nil (N)), (@nil (N)))),
   (sols_val true 1 [0]%N))
].
Eval vm_compute in (mismatches run_fcs cases).
Eval vm_compute in (where_ (fun i r => negb (spec_fcs_ok i r)) cases).
