(* Prop_C16.v — the property theorems of C16 and nothing else. *)
From Coq Require Import List NArith ZArith Bool Permutation.
Import ListNotations.
From Verif Require Import Base.Val C01.Model_C01 C01.Proofs_C01 C16.Model_C16 C16.Spec_C16 C16.Proofs_C16.
From Verif Require C16.ChoicePoint_C16 C16.ChoicePointProofs_C16.

(* upgrade strategy: the first candidate handed to the resolver is an offered package that no
   offered package exceeds in version order, and an installed instance of an equal version is
   preferred (all repositories, any number of them, any packages with valid versions) *)
Theorem highest_first :
  forall dbs h tl, Forall repo_ok dbs -> prefer_highest dbs = h :: tl ->
    In h (offered dbs) /\
    forall x, In x (offered dbs) ->
      (ccmp x h <= 0)%Z /\ (ccmp x h = 0%Z -> clive x = true -> clive h = true).
Proof. exact highest_first_proof. Qed.
Print Assumptions highest_first.

(* ... and the whole stream is the offered candidates in descending highest-first order *)
Theorem prefer_highest_sorted : forall dbs, Forall repo_ok dbs ->
  Permutation (prefer_highest dbs) (offered dbs) /\ desc lt_highest (prefer_highest dbs).
Proof. exact prefer_highest_sorted_proof. Qed.
Print Assumptions prefer_highest_sorted.

(* minimal-install strategy: every installed candidate precedes every other one; the head is
   installed whenever an installed package matches *)
Theorem reuse_first :
  forall dbs, Forall repo_ok dbs ->
    exists L N, prefer_reuse dbs = L ++ N
      /\ Forall (fun c => clive c = true) L /\ Forall (fun c => clive c = false) N
      /\ Permutation (L ++ N) (offered dbs)
      /\ desc lt_highest L /\ desc lt_highest N
      /\ ((exists x, In x (offered dbs) /\ clive x = true) ->
          exists h tl, prefer_reuse dbs = h :: tl /\ clive h = true).
Proof. exact reuse_first_proof. Qed.
Print Assumptions reuse_first.

(* the k-way merge is determined by its inputs: any two stable sorting algorithms (list.sort is
   one, the model's insertion sort another) drive iter_sort to the same stream *)
Theorem merge_deterministic :
  forall (s1 s2 : list (cand * list cand) -> list (cand * list cand)) streams,
    stable_sorter (ltE lt_highest) (domE cdom) s1 -> stable_sorter (ltE lt_highest) (domE cdom) s2 ->
    Forall (fun s => Forall cdom s /\ desc lt_highest s) streams ->
    iter_sort_gen s1 streams = iter_sort_gen s2 streams.
Proof. exact merge_deterministic_proof. Qed.
Print Assumptions merge_deterministic.

(* the model's sorter is such an algorithm; the comparison of highest_iter_sort is a total preorder
   on packages with valid versions (by C01's cpv_cmp_total_preorder) *)
Theorem highest_iter_sort_is_stable : stable_sorter (ltE lt_highest) (domE cdom) highest_iter_sort.
Proof. exact highest_iter_sort_stable. Qed.
Print Assumptions highest_iter_sort_is_stable.

Theorem highest_order_is_preorder : preorder_on lt_highest cdom.
Proof. exact PO_highest. Qed.
Print Assumptions highest_order_is_preorder.

(* ---- choice_point as a long-lived object (ChoicePoint_C16.v): over ANY sequence of reduce_atoms /
   force_next_pkg / current_pkg / bool calls, the current candidate of the model is the one the
   declarative run names: the first not yet discarded candidate every requirement group of which
   keeps an alternative under the filters accumulated so far *)
Theorem choice_point_refines_spec : forall ps ops,
  ChoicePointProofs_C16.run_ids (ChoicePoint_C16.init ps) ops
  = ChoicePoint_C16.srun (ChoicePoint_C16.mksst ps false true []) ops.
Proof. exact ChoicePointProofs_C16.choice_point_refines_spec_proof. Qed.
Print Assumptions choice_point_refines_spec.

(* the step the resolver relies on: reduce_atoms keeps or advances to the first viable candidate and
   leaves it with exactly its original groups minus the filtered atoms *)
Theorem reduce_selects_first_viable : forall r c o f a,
  ChoicePointProofs_C16.shadow f c o ->
  match ChoicePoint_C16.drop_unviable (f ++ a) (o :: r) with
  | [] => ChoicePoint_C16.cur (fst (ChoicePoint_C16.reduce (ChoicePoint_C16.mkst r (Some c) true f) a)) = None
          /\ ChoicePoint_C16.alive (fst (ChoicePoint_C16.reduce (ChoicePoint_C16.mkst r (Some c) true f) a)) = false
  | o' :: r' => exists q,
        ChoicePoint_C16.cur (fst (ChoicePoint_C16.reduce (ChoicePoint_C16.mkst r (Some c) true f) a)) = Some q
        /\ ChoicePoint_C16.rest (fst (ChoicePoint_C16.reduce (ChoicePoint_C16.mkst r (Some c) true f) a)) = r'
        /\ ChoicePoint_C16.pid q = ChoicePoint_C16.pid o'
        /\ ChoicePoint_C16.pdeps q = ChoicePoint_C16.prune (f ++ a) (ChoicePoint_C16.pdeps o')
  end.
Proof. exact ChoicePointProofs_C16.reduce_selects_first_viable_proof. Qed.
Print Assumptions reduce_selects_first_viable.
