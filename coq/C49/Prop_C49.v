(* Prop_C49.v — the property theorems of C49 and nothing else. *)
From Coq Require Import List NArith ZArith Bool.
Import ListNotations.
From Verif Require Import Base.Val gen.Tables_C49 C49.Model_C49 C49.Spec_C49 C49.Proofs_C49.

(* INHERITED (pkg.inherited) names every eclass sourced, directly or indirectly, once *)
Theorem inherited_all_sourced : forall p,
  NoDup (inherited p) /\ forall n, In n (inherited p) <-> sourced n p.
Proof. exact inherited_all_sourced_proof. Qed.
Print Assumptions inherited_all_sourced.
