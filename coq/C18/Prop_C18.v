(* Prop_C18.v — the property theorems of C18 and nothing else. *)
From Coq Require Import List NArith ZArith Bool.
Import ListNotations.
From Verif Require Import Base.Val C18.Fs C18.FsLemmas C18.Model_C18 C18.Spec_C18 C18.Proofs_C18.

(* frame: a path that no op of the merge names and whose inode no op writes is unchanged
   (for every contents set, offset and pre-existing filesystem) *)
Theorem frame : forall i q,
  untouched (merge_ops i) (i_fs i) q ->
  lookup (run (merge_ops i) (i_fs i)) q = lookup (i_fs i) q.
Proof. exact frame_proof. Qed.
Print Assumptions frame.

(* merged_exact, one file entry over an existing non-directory (copyfile's '#new' + rename,
   any chunking of the write): afterwards the location holds a node realising the entry (data,
   mode, owner, mtime), the '#new' sibling is gone, every other path is unchanged *)
Theorem staged_copy_exact : forall um x d hl chunks cp s s',
  e_kind x = KFile d hl -> concat chunks = d -> e_mode x <> None ->
  let tmp := sibling_new cp in
  tmp <> cp ->
  run_opt (replace_ops tmp cp (file_create_mode um) chunks (perms_new x tmp)) s = Some s' ->
  (exists n, lookup s' cp = Some n /\ realises x n) /\
  lookup s' tmp = None /\
  (forall q, q <> cp -> q <> tmp -> lookup s' q = lookup s q).
Proof. exact staged_copy_exact_proof. Qed.
Print Assumptions staged_copy_exact.

(* merged_exact, one file entry into a free name *)
Theorem direct_copy_exact : forall um x d hl chunks cp s s',
  e_kind x = KFile d hl -> concat chunks = d -> e_mode x <> None ->
  run_opt (Create cp (file_create_mode um) :: appends cp chunks ++ perms_new x cp) s = Some s' ->
  lookup s cp = None /\
  (exists n, lookup s' cp = Some n /\ realises x n) /\
  (forall q, q <> cp -> lookup s' q = lookup s q).
Proof. exact direct_copy_exact_proof. Qed.
Print Assumptions direct_copy_exact.

(* the planner emits exactly these blocks *)
Theorem copyfile_staged_shape : forall um s x d hl cp n,
  e_kind x = KFile d hl -> canon s (e_loc x) = WOk cp -> node_at s cp = Some n ->
  is_dir_node n = false -> lookup s (sibling_new cp) = None ->
  copyfile um s x =
    (replace_ops (sibling_new cp) cp (file_create_mode um) (chunks1 d) (perms_new x (sibling_new cp)), None).
Proof. exact copyfile_staged_shape_proof. Qed.
Print Assumptions copyfile_staged_shape.

Theorem copyfile_direct_shape : forall um s x d hl cp,
  e_kind x = KFile d hl -> canon s (e_loc x) = WOk cp -> node_at s cp = None ->
  copyfile um s x =
    (Create cp (file_create_mode um) :: appends cp (chunks1 d) ++ perms_new x cp, None).
Proof. exact copyfile_direct_shape_proof. Qed.
Print Assumptions copyfile_direct_shape.

(* a directory on the live filesystem is never overwritten by a non-directory entry *)
Theorem copyfile_refuses_dir : forall um s x cp n,
  canon s (e_loc x) = WOk cp -> node_at s cp = Some n -> is_dir_node n = true ->
  copyfile um s x = ([], Some E_CANNOT).
Proof. exact copyfile_refuses_dir_proof. Qed.
Print Assumptions copyfile_refuses_dir.
