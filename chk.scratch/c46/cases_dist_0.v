From Coq Require Import List NArith ZArith Bool.
From Verif Require Import Base.Val C46.Model_C46 C46.Spec_C46.
Import ListNotations.

Definition cases : list ((input) * val) := 
[
  (mki [TMod [52;53;121]%N; TTarget 1%N; TFetch; TExcl [2]%N; TExists; TInst] [mkf 2 259200 1; mkf 5 34560000 0; mkf 4 1419206400 70000; mkf 1 1419033600 70000; mkf 6 3600 1; mkf 3 259200 3] [mkp [1]%N true [2]%N; mkp [4]%N false [1]%N] (@nil (list N)) [3;4]%N true,
   res VNone [1;2;3;4;5;6]%N []);
  (mki [TExcl [2]%N; TTarget 1%N; TExists] [mkf 1 0 70000; mkf 2 3600 3; mkf 3 3456000 0] [mkp [] false [1]%N] [[1]%N; [3]%N; []] [2;3]%N true,
   res VNone [1]%N []);
  (mki [TExists; TExcl [1]%N; TMod [52;53;119]%N] [mkf 11 27215400 70000; mkf 2 27129600 1; mkf 1 27216600 0; mkf 4 0 1; mkf 6 27215400 3; mkf 7 27216600 3; mkf 12 34560000 70000; mkf 9 27302400 1500; mkf 10 27216600 70000; mkf 5 27212400 1500; mkf 3 34560000 3] [mkp [6;5;3;2]%N false []; mkp [3]%N false []; mkp [7;4]%N false []; mkp [8;12]%N false []; mkp [10;3]%N true [1]%N] [[9;12]%N] [2;3;5;6;7;12]%N true,
   res VNone [1;2;3;4;5;6;7;9;10;11;12]%N []);
  (mki [TSize [49;75]%N; TInst; TFetch] [mkf 3 3600 0; mkf 8 3600 24; mkf 9 34560000 1025; mkf 6 0 1025; mkf 10 3456000 1024; mkf 2 259200 1023; mkf 4 259200 1025; mkf 7 3456000 1024; mkf 1 34560000 0] [mkp [3;2]%N false []; mkp [6;5;8]%N false []] [[1]%N; [3;2]%N; [6]%N] [1;2;3;4;6;7;8;9;10]%N true,
   res VNone [1;2;3;4;6;7;8;9;10]%N []);
  (mki [TTarget 2%N; TTarget 1%N; TInst; TSize [53;75]%N; TExists] [mkf 1 0 5121; mkf 3 3456000 5120; mkf 6 3600 3; mkf 10 3456000 4120; mkf 9 0 5119; mkf 4 0 6120; mkf 5 3456000 5121; mkf 8 0 0; mkf 2 0 1500; mkf 7 0 5121] [mkp [8]%N false []; mkp [5]%N false [2]%N] [[8]%N; [7]%N] [4;5;6]%N true,
   res VNone [1;2;3;4;5;7;8;9;10]%N []);
  (mki [TTarget 1%N; TExcl [2]%N; TSize [50;66]%N] [mkf 1 3600 1002; mkf 4 34560000 3; mkf 10 3600 1500; mkf 5 259200 1002; mkf 7 3456000 3; mkf 6 3456000 1; mkf 9 34560000 1500; mkf 8 0 0; mkf 3 0 1] [mkp [4]%N false []; mkp [6]%N true []; mkp [7]%N true []; mkp [8]%N false [1]%N; mkp [2]%N false [2]%N] [[2]%N; [4]%N] [8]%N true,
   res VNone [1;3;4;5;6;7;9;10]%N []);
  (mki [TExists; TTarget 1%N; TInst] [mkf 3 3456000 0; mkf 1 3600 1; mkf 7 259200 1500; mkf 8 3456000 0; mkf 9 3456000 70000; mkf 2 259200 70000; mkf 4 3600 70000; mkf 6 259200 1] [mkp [7;9;3;5]%N false [1]%N; mkp [9;8]%N true []] [[9;8]%N] [3;7;8;9]%N true,
   res VNone [1;2;3;4;6;7;8;9]%N []);
  (mki [TTarget 1%N; TInst] [mkf 10 3456000 1; mkf 8 34560000 1500; mkf 13 3456000 3; mkf 5 3600 0; mkf 9 3600 70000; mkf 4 34560000 1; mkf 3 259200 70000; mkf 7 3600 1500; mkf 2 3456000 1; mkf 12 3600 70000; mkf 1 34560000 70000] [mkp [2;5]%N false []; mkp [3]%N false []; mkp [7;6;11]%N false [1]%N; mkp [4;1]%N false []] [[12;5]%N] [7;8;9]%N true,
   res VNone [1;2;3;4;5;10;12;13]%N []);
  (mki [TTarget 1%N; TFetch; TExcl []; TExcl [2]%N; TExists] [mkf 7 34560000 1500; mkf 2 3456000 3; mkf 4 3600 0; mkf 3 3600 1; mkf 1 3456000 3; mkf 9 3600 0; mkf 5 34560000 3; mkf 8 3456000 70000; mkf 6 3456000 1] [mkp [7]%N false [1;2]%N] [[7]%N; [2]%N] [] true,
   res VNone [1;2;3;4;5;6;7;8;9]%N []);
  (mki [TInst; TExcl [1;2]%N] [mkf 12 34560000 0; mkf 3 259200 0; mkf 15 3456000 1; mkf 7 259200 1500; mkf 9 34560000 1; mkf 13 0 0; mkf 14 3600 1; mkf 4 34560000 70000; mkf 10 34560000 1500; mkf 1 3456000 0; mkf 11 259200 1500; mkf 5 34560000 1500; mkf 2 259200 1500] [mkp [3;13]%N false []; mkp [5;4;8]%N false []; mkp [12;11;6]%N false []] [[2]%N; [3;13]%N] [2;3;4;5;10;11;12;13]%N false,
   res VNone [1;2;3;4;5;7;9;10;11;12;13;14;15]%N [4;5;10;11;12]%N);
  (mki [TInst; TTarget 2%N; TSize [50;77]%N; TExcl [1]%N] [mkf 4 3456000 2097151; mkf 2 34560000 70000; mkf 3 0 2098152; mkf 5 259200 2096152; mkf 1 259200 2097153; mkf 6 259200 70000] [mkp [3;2]%N true [2]%N] (@nil (list N)) [2;3]%N true,
   res VNone [1;3;4;5;6]%N []);
  (mki [TExcl [2;1]%N; TExists] [mkf 3 259200 70000; mkf 1 0 3; mkf 4 259200 3; mkf 5 34560000 0; mkf 8 0 70000; mkf 11 259200 70000; mkf 9 259200 70000; mkf 10 0 3; mkf 6 3600 70000; mkf 2 3456000 1] [mkp [5;2]%N false [1;2]%N; mkp [6;4]%N false [2]%N; mkp [9]%N false []; mkp [8;7]%N false []] [[5;2]%N; [8;7]%N; [6;4]%N] [8;9]%N true,
   res VNone [1;2;3;4;5;6;8;9;10;11]%N []);
  (mki [TExists; TSize [53;66]%N; TMod [49;109]%N] [mkf 5 2588400 6; mkf 11 259200 0; mkf 13 2599200 5; mkf 7 2599200 1; mkf 14 2678400 6; mkf 3 2678400 1005; mkf 10 3456000 1500; mkf 4 2505600 4; mkf 15 2599200 0; mkf 9 2588400 4; mkf 1 2678400 6; mkf 2 2599200 70000] [mkp [4;3]%N true []; mkp [6;5]%N false []; mkp [11;10;7]%N true []; mkp [14]%N false []; mkp [12;8]%N false []] [[12;8]%N; [2]%N; [13]%N] [1;2;3;4;5;7;9;10;11;13;14;15]%N true,
   res VNone [1;2;3;4;5;7;9;10;11;13;14]%N []);
  (mki (@nil (tok)) [mkf 6 3600 3; mkf 5 259200 1500; mkf 2 259200 1; mkf 3 3600 70000; mkf 4 3456000 1; mkf 1 3456000 1] [mkp [6;5]%N false []] [[6;5]%N; [2]%N; [3]%N] [1;2;3;4;5;6]%N true,
   res VNone [] []);
  (mki [TTarget 1%N; TExists; TInst; TExcl [1;2]%N] [mkf 4 3600 0; mkf 2 3600 1500; mkf 6 34560000 3; mkf 1 259200 3; mkf 5 3600 1] [mkp [3;6]%N false [1;2]%N] [[3;6]%N; [4]%N] [] true,
   res VNone [1;2;4;5;6]%N []);
  (mki [TPretend; TSize [50;66]%N; TTarget 1%N] [mkf 5 0 0; mkf 6 34560000 3; mkf 8 34560000 3; mkf 7 34560000 0; mkf 2 0 1; mkf 3 259200 1; mkf 1 34560000 0; mkf 4 0 1] [mkp [2]%N true [1]%N; mkp [3]%N false [1]%N; mkp [7;6]%N false [1]%N; mkp [9;8]%N false [1]%N] (@nil (list N)) [2;3;6;7;8]%N true,
   res VNone [1;2;3;4;5;6;7;8]%N [2;3;7]%N);
  (mki [TPretend; TInst] [mkf 4 259200 70000; mkf 5 0 1; mkf 1 259200 3; mkf 3 3456000 1500; mkf 6 0 3; mkf 2 259200 0] [mkp [3;7]%N false []; mkp [5]%N true []] [[3;7]%N] [1;2;3;4;5;6]%N true,
   res VNone [1;2;3;4;5;6]%N [1;2;4;5;6]%N);
  (mki [TTarget 2%N; TTarget 1%N; TFetch] [mkf 2 34560000 70000; mkf 7 0 1; mkf 8 259200 3; mkf 3 3600 1; mkf 11 3456000 1; mkf 10 3600 70000; mkf 9 34560000 1500; mkf 1 34560000 70000; mkf 4 3456000 1500; mkf 5 3456000 3; mkf 6 34560000 1; mkf 12 0 1] [mkp [3;2]%N false []; mkp [7;6]%N false []; mkp [10]%N false [2]%N; mkp [9;8]%N false []; mkp [12;11]%N false [1;2]%N] [[7;6]%N; [5]%N; [9]%N] [10;11;12]%N true,
   res VNone [1;2;3;4;5;6;7;8;9;10;11;12]%N []);
  (mki [TInst; TExcl [1]%N; TPretend; TTarget 2%N] [mkf 8 3600 3; mkf 7 3600 1; mkf 10 34560000 3; mkf 2 0 1500; mkf 5 3456000 3; mkf 9 3456000 3; mkf 12 259200 1500; mkf 6 34560000 0; mkf 3 34560000 1; mkf 1 259200 1; mkf 11 3456000 0] [mkp [4]%N false [1]%N; mkp [2;7;1]%N false [1]%N; mkp [10;3;8]%N false [2]%N] [[5]%N; [4]%N; [11]%N] [2;3;10]%N true,
   res VNone [1;2;3;5;6;7;8;9;10;11;12]%N [3;10]%N);
  (mki [TMod [49;109;105;110]%N; TExcl [1]%N] [mkf 1 660 1; mkf 11 7260 1; mkf 7 660 1500; mkf 4 259200 1; mkf 12 7260 0; mkf 6 3456000 1; mkf 10 (-3540) 70000; mkf 2 (-540) 1; mkf 13 (-3540) 70000; mkf 9 (-540) 1500; mkf 3 86460 1500; mkf 5 259200 3] [mkp [3;2;13;1]%N false []; mkp [6;5;8]%N false []; mkp [4;13]%N false []; mkp [10;9]%N false [1]%N; mkp [11]%N true []] (@nil (list N)) [2;3;4;5;6;11;13]%N true,
   res VNone [1;2;7;9;10;12;13]%N []);
  (mki [TExists; TInst; TFetch] [mkf 3 0 70000; mkf 6 3456000 3; mkf 2 0 1500; mkf 4 34560000 70000; mkf 1 259200 70000; mkf 7 0 1500; mkf 5 0 3] [mkp [3]%N false []; mkp [4]%N false []] [[4]%N] [1;2;3;4;5;6;7]%N true,
   res VNone [3;4]%N []);
  (mki [TSize [49;66]%N; TFetch; TInst; TExcl [3]%N; TTarget 2%N; TTarget 1%N] [mkf 7 3600 0; mkf 2 3600 2; mkf 1 34560000 0; mkf 10 259200 1001; mkf 9 34560000 1001; mkf 6 34560000 0; mkf 8 3600 1] [mkp [4;6]%N false []; mkp [5]%N false []; mkp [8]%N false [1]%N] [[3;9]%N; [7]%N] [7;8]%N true,
   res VNone [1;2;6;7;8;9;10]%N []);
  (mki [TTarget 1%N; TFetch] [mkf 9 259200 3; mkf 2 3600 0; mkf 3 0 70000; mkf 5 3600 1500; mkf 1 0 1; mkf 4 259200 1500; mkf 8 3600 1; mkf 6 0 0; mkf 7 3456000 70000] [mkp [3]%N false []; mkp [5;4;8]%N true []; mkp [7;9]%N false [1]%N] (@nil (list N)) [7;8;9]%N true,
   res VNone [1;2;3;4;5;6;7;8;9]%N []);
  (mki [TInst; TTarget 1%N; TSize [50;66]%N; TExists] [mkf 3 34560000 2; mkf 5 0 1002; mkf 6 34560000 1; mkf 8 34560000 1; mkf 4 34560000 2; mkf 2 259200 0] [mkp [7;6;2;1]%N false [1]%N] [[4]%N; [7;6;2;1]%N] [2;6]%N true,
   res VNone [2;3;4;5;6;8]%N []);
  (mki [TExists; TTarget 3%N; TTarget 1%N; TExcl [4;1]%N; TSize [49;77]%N; TExcl [2]%N; TMod [50;119]%N] [mkf 7 1216800 1; mkf 6 1123200 1; mkf 3 3600 1048577; mkf 1 0 0] [mkp [1]%N false [1]%N; mkp [3;2]%N false []; mkp [5]%N true [4]%N; mkp [4]%N false [3]%N] [[5]%N; [1]%N; [4]%N] [1]%N true,
   res VNone [1;3;6;7]%N []);
  (mki [TExists; TPretend; TMod [51;109;105;110]%N] [mkf 6 (-86220) 1; mkf 9 (-3420) 1500; mkf 3 259200 3; mkf 5 (-3420) 0; mkf 1 86580 0; mkf 8 7380 70000; mkf 2 (-420) 1500] [mkp [3;4]%N false []; mkp [5;1]%N true []; mkp [6;1]%N false []; mkp [7;8]%N false []; mkp [3;2]%N false []] [[3;2]%N; [7;8]%N] [1;2;3;5;6;8;9]%N true,
   res VNone [1;2;3;5;6;8;9]%N []);
  (mki [TExists; TInst; TFetch] [mkf 2 3456000 1; mkf 11 3600 1; mkf 7 3600 0; mkf 5 259200 0; mkf 4 259200 0; mkf 12 0 3; mkf 8 3456000 3; mkf 9 3600 1; mkf 6 34560000 1500; mkf 3 0 3; mkf 1 259200 3] [mkp [2]%N true []; mkp [7;6]%N false []; mkp [10;9]%N true []; mkp [12]%N true []; mkp [11;3]%N false []] (@nil (list N)) [1;2;3;4;5;6;7;8;9;11;12]%N false,
   res VNone [1;2;3;4;5;6;7;8;9;11;12]%N [1;4;5;8]%N);
  (mki [TMod [52;53;109]%N; TInst] [mkf 6 116726400 1500; mkf 4 116636400 1500; mkf 1 116636400 0; mkf 2 116640600 3; mkf 7 116553600 1500; mkf 5 34560000 70000; mkf 3 116639400 1500] [mkp [3]%N false []] [[3]%N] [1;2;3;4;5;6;7]%N true,
   res VNone [1;3;4;5;7]%N []);
  (mki [TExcl [1]%N; TFetch; TSize [49;48;48;66]%N; TExcl []; TTarget 1%N; TExists] [mkf 9 3456000 100; mkf 2 0 99; mkf 3 259200 101; mkf 7 259200 101; mkf 8 0 99; mkf 10 0 99; mkf 1 3456000 0; mkf 4 0 99] [mkp [4;3]%N true []; mkp [2;6]%N false [1]%N; mkp [5]%N true []] (@nil (list N)) [2;3]%N true,
   res VNone [1;2;3;4;7;8;9;10]%N []);
  (mki [TTarget 1%N; TExists] [mkf 3 0 1; mkf 8 259200 1; mkf 9 0 70000; mkf 13 259200 70000; mkf 12 3456000 3; mkf 7 259200 3; mkf 2 0 1; mkf 1 259200 0; mkf 10 3600 0] [mkp [1;9]%N false []; mkp [3]%N true [1]%N; mkp [7;6;4;11]%N false []] [[1]%N; [7;6;4;11]%N; [5]%N] [3]%N true,
   res VNone [1;2;3;7;8;9;10;12;13]%N []);
  (mki [TTarget 2%N; TTarget 4%N; TExcl [3;1]%N; TExists] [mkf 7 3600 0; mkf 8 0 1500; mkf 10 0 3; mkf 3 259200 1; mkf 2 3600 0; mkf 12 34560000 70000; mkf 6 0 0; mkf 9 3456000 0; mkf 11 3600 1; mkf 4 3456000 0; mkf 1 3456000 1500; mkf 5 3600 3] [mkp [6;5]%N false [1;2]%N; mkp [9;8]%N false [3]%N; mkp [10;11]%N false [3]%N; mkp [3;2;12]%N false [4]%N] [[9;8]%N; [6;5]%N] [2;3;12]%N true,
   res VNone [1;2;3;4;5;6;7;8;9;10;11;12]%N []);
  (mki [TTarget 1%N; TExists] [mkf 3 259200 1; mkf 7 34560000 0; mkf 4 34560000 1; mkf 1 259200 1; mkf 5 3456000 70000; mkf 2 3456000 70000; mkf 6 3456000 0] [mkp [6]%N false []; mkp [2]%N true [1]%N] [[2]%N; [3]%N] [2]%N true,
   res VNone [1;2;3;4;5;6;7]%N []);
  (mki [TExists; TFetch] [mkf 2 34560000 1; mkf 1 259200 3; mkf 9 3456000 70000; mkf 4 0 0; mkf 10 3456000 1; mkf 6 3456000 70000; mkf 7 3600 0; mkf 5 0 70000; mkf 3 259200 1500] [mkp [1]%N true []; mkp [2;10]%N false []; mkp [5;4]%N false []; mkp [9;8]%N false []; mkp [] false []] (@nil (list N)) [1;2;3;4;5;6;7;9;10]%N true,
   res VNone [1;2;4;5;9;10]%N []);
  (mki [TExcl [3]%N; TInst; TExcl []; TTarget 2%N; TTarget 1%N] [mkf 9 0 1500; mkf 2 259200 1500; mkf 6 259200 0; mkf 5 3600 3; mkf 8 3456000 1; mkf 3 0 1500; mkf 4 3456000 3] [mkp [1]%N false [2]%N; mkp [4;3]%N false []; mkp [7;8]%N true [1]%N] [[1]%N; [6]%N] [6;8]%N true,
   res VNone [2;3;4;5;6;9]%N []);
  (mki [TExcl [1]%N; TSize [49;48;48;77]%N; TMod [49;119]%N; TFetch] [mkf 4 612000 1500; mkf 2 605400 104857600; mkf 3 612000 104857601; mkf 1 691200 104857601; mkf 5 691200 104858600; mkf 6 691200 3] [mkp [2]%N false []; mkp [5]%N false [1]%N] (@nil (list N)) [2;3]%N false,
   res VNone [1;2;3;4;5;6]%N []);
  (mki [TExists; TSize [49;71]%N; TTarget 1%N; TInst] [mkf 10 3456000 1073741825; mkf 8 3600 1073742824; mkf 7 3600 3; mkf 6 3456000 1073742824; mkf 13 0 1073741825; mkf 3 34560000 1073741823; mkf 9 3456000 1073741824; mkf 5 34560000 1073741824; mkf 12 3600 3; mkf 2 0 1073741824; mkf 11 3456000 70000; mkf 1 259200 1073741823] [mkp [3;2]%N true []; mkp [7;11]%N false [1]%N; mkp [8;4]%N true [1]%N; mkp [10]%N true []] [[6]%N; [7;11]%N] [6;7;8;11]%N false,
   res VNone [1;2;3;5;6;7;8;9;10;11;12;13]%N []);
  (mki [TSize [49;48;48;77]%N; TInst; TPretend; TTarget 1%N] [mkf 6 0 104858600; mkf 4 34560000 104857600; mkf 8 3456000 104858600; mkf 5 3456000 104857599; mkf 3 3600 104856600; mkf 7 0 104857601; mkf 9 0 70000; mkf 1 3456000 104856600; mkf 2 259200 104857600] [mkp [3;5]%N true [1]%N; mkp [4]%N true [1]%N; mkp [6]%N false [1]%N; mkp [9]%N false []] [[2;9]%N] [2;3;4;5;6]%N true,
   res VNone [1;2;3;4;5;6;7;8;9]%N [3;5]%N);
  (mki [TExists; TMod [49;48;119]%N; TInst; TPretend] [mkf 10 0 1500; mkf 7 6047400 3; mkf 6 34560000 1500; mkf 1 6047400 70000; mkf 9 5961600 1; mkf 5 6048600 1; mkf 2 6044400 0; mkf 3 5961600 0; mkf 4 3456000 1; mkf 8 6055200 3] [mkp [2]%N true []; mkp [7]%N false []; mkp [5;3]%N false []; mkp [6;3;8]%N false []] [[7]%N] [1;2;3;4;5;6;7;8;9;10]%N true,
   res VNone [1;2;3;4;5;6;7;8;9;10]%N []);
  (mki [TExcl [2]%N; TTarget 1%N; TMod [52;53;109]%N; TExists; TInst; TSize [53;77]%N] [mkf 5 259200 3; mkf 4 116726400 5242881; mkf 7 34560000 5241880; mkf 3 116639400 5242879; mkf 6 116640600 5241880; mkf 1 116726400 5242879; mkf 2 116726400 5243880] [mkp [1]%N true []] [[1]%N; [4]%N] [] true,
   res VNone [1;2;3;4;5;6;7]%N []);
  (mki [TSize [49;48;48;75]%N; TExcl [1;2]%N; TFetch; TInst; TMod [52;53;104]%N; TExists] [mkf 6 259200 102399; mkf 3 3456000 102399; mkf 7 248400 102401; mkf 5 0 102399; mkf 4 169200 102400; mkf 8 75600 1; mkf 1 161400 102400; mkf 2 169200 70000] [mkp [5]%N true [1]%N; mkp [7;4;2]%N false [2]%N] (@nil (list N)) [] false,
   res VNone [1;2;3;4;5;6;7;8]%N []);
  (mki [TFetch; TSize [49;71]%N; TTarget 1%N; TExcl [2]%N; TExists] [mkf 7 34560000 1073741825; mkf 3 34560000 1073741823; mkf 1 3600 1073741825; mkf 5 3600 0; mkf 4 0 1073741825; mkf 6 0 1073741823] [mkp [2;7;4]%N true []; mkp [] false []; mkp [6]%N true [1]%N; mkp [7]%N true []; mkp [5;7]%N false [2]%N] [[5;7]%N] [6]%N true,
   res VNone [1;3;4;5;6;7]%N []);
  (mki [TExists; TTarget 1%N] [mkf 7 3600 3; mkf 2 3600 1500; mkf 3 259200 0; mkf 1 3456000 3; mkf 4 34560000 70000; mkf 6 259200 70000; mkf 5 34560000 3] [mkp [3]%N false [1]%N] [[3]%N] [3]%N false,
   res VNone [1;2;3;4;5;6;7]%N []);
  (mki [TFetch; TExists; TExcl [2;1]%N; TMod [51;109;105;110]%N; TInst; TPretend] [mkf 4 86580 0; mkf 3 7380 0; mkf 2 780 70000; mkf 1 86580 70000] [mkp [2;1]%N true [1;2]%N] [[2;1]%N] [] true,
   res VNone [1;2;3;4]%N []);
  (mki [TSize [50;75]%N] [mkf 6 3456000 2049; mkf 5 259200 2047; mkf 2 0 1500; mkf 3 3456000 2049; mkf 4 34560000 2047; mkf 7 259200 2049; mkf 1 3600 2049] [mkp [1;6]%N false []; mkp [] false []] (@nil (list N)) [1;2;3;4;5;6;7]%N true,
   res VNone [1;3;6;7]%N []);
  (mki [TInst; TPretend] [mkf 3 3600 3; mkf 1 3600 1; mkf 7 3600 70000; mkf 6 0 3; mkf 5 3456000 70000; mkf 8 259200 70000; mkf 4 259200 1500; mkf 2 3456000 1] [mkp [2;1;8;5]%N false []] [[2;1;8;5]%N] [1;2;3;4;5;6;7;8]%N true,
   res VNone [1;2;3;4;5;6;7;8]%N [3;4;6;7]%N);
  (mki [TTarget 2%N; TTarget 1%N; TSize [49;71]%N] [mkf 2 3456000 1073741824; mkf 4 259200 1073741825; mkf 1 34560000 1073742824; mkf 7 0 1073740824; mkf 5 3456000 70000; mkf 3 3456000 1073741825; mkf 8 3600 1073741824; mkf 12 259200 1073741823; mkf 10 34560000 1073741824; mkf 9 3456000 1073741823; mkf 11 259200 0] [mkp [3;2]%N true [1]%N; mkp [5;12]%N false [1;2]%N; mkp [7;6;10]%N true [1;2]%N; mkp [9]%N true [1]%N; mkp [4]%N false []] [[9]%N] [1;2;3;5;7;9;10;12]%N true,
   res VNone [1;2;3;4;8;10;11]%N []);
  (mki [TExcl [1]%N; TExists; TMod [50;100]%N; TTarget 2%N] [mkf 3 172200 70000; mkf 7 169200 1500; mkf 4 0 0; mkf 1 172200 1; mkf 6 172200 1; mkf 5 172200 1500; mkf 2 259200 1500] [mkp [1]%N false []; mkp [7;3]%N false []; mkp [5]%N false [1]%N; mkp [] true [2]%N; mkp [6]%N false [2]%N] (@nil (list N)) [6]%N true,
   res VNone [1;2;3;4;5;6;7]%N []);
  (mki [TExcl [1;2]%N; TPretend] [mkf 7 3456000 1500; mkf 3 259200 3; mkf 14 34560000 3; mkf 4 259200 1; mkf 12 3456000 3; mkf 8 259200 1500; mkf 1 3600 0; mkf 9 0 1500; mkf 5 259200 1500; mkf 10 0 1500; mkf 15 3456000 0; mkf 13 34560000 70000] [mkp [1;4]%N false [1]%N; mkp [3;2;8]%N false [1]%N; mkp [5]%N false [1;2]%N; mkp [6;9]%N false [1;2]%N; mkp [13;12]%N true []] [[11]%N] [10;12;13]%N false,
   res VNone [1;3;4;5;7;8;9;10;12;13;14;15]%N [10;12;13]%N);
  (mki [TTarget 1%N; TPretend; TExists; TFetch; TMod [49;48;109]%N] [mkf 1 25833600 3; mkf 3 25919400 3; mkf 6 25833600 1; mkf 4 25920600 70000; mkf 2 25916400 0; mkf 11 0 70000; mkf 7 25927200 70000; mkf 8 0 3] [mkp [2]%N true []; mkp [6;5]%N false []; mkp [7]%N false [1]%N; mkp [10;11;4]%N false []; mkp [9]%N false []] (@nil (list N)) [7;8]%N true,
   res VNone [1;2;3;4;6;7;8;11]%N []);
  (mki [TExcl [1]%N; TExists; TInst] [mkf 3 259200 1; mkf 1 3456000 3; mkf 4 3600 3; mkf 2 3600 3; mkf 6 0 0] [mkp [5;4]%N false [1]%N] [[5]%N] [] true,
   res VNone [1;2;3;4;6]%N []);
  (mki [TFetch; TSize [50;66]%N; TExists] [mkf 9 259200 0; mkf 4 3456000 3; mkf 8 3600 3; mkf 1 3600 1; mkf 7 259200 1; mkf 3 0 0; mkf 2 0 70000] [mkp [10;9;6]%N true []] [[10;9;6]%N; [5]%N] [1;2;3;4;7;8;9]%N true,
   res VNone [2;4;8;9]%N []);
  (mki [TSize [49;71]%N; TInst; TFetch; TMod [52;53;109]%N] [mkf 3 116639400 1073741825; mkf 1 0 1073740824; mkf 4 259200 1073741825; mkf 8 116647200 1073741823; mkf 5 116640600 1500; mkf 7 116553600 1073741825; mkf 6 34560000 1073741823] [mkp [2;7;1]%N true []; mkp [8;3]%N false []] [[2]%N; [5;3]%N; [8;3]%N] [1;3;4;5;6;7;8]%N true,
   res VNone [1;3;4;5;6;7;8]%N []);
  (mki [TExcl [2]%N; TExcl [1]%N; TTarget 1%N; TSize [50;75]%N; TExists; TInst] [mkf 4 34560000 2047; mkf 1 259200 2049; mkf 7 3600 2047; mkf 9 0 2049; mkf 11 0 2049; mkf 12 34560000 2049; mkf 10 3600 1048; mkf 5 3600 2049; mkf 6 3456000 2047; mkf 2 3600 2047] [mkp [6;5]%N true [1]%N; mkp [8]%N false []; mkp [3;2]%N true [2]%N] [[8]%N] [] true,
   res VNone [1;2;4;5;6;7;9;10;11;12]%N []);
  (mki [TExists; TExcl [1]%N; TInst] [mkf 4 259200 0; mkf 8 3600 0; mkf 6 3456000 70000; mkf 5 3456000 70000; mkf 3 3456000 70000; mkf 2 34560000 0; mkf 7 3600 0] [mkp [1]%N false [1]%N] [[6]%N; [4;8]%N] [] false,
   res VNone [2;3;4;5;6;7;8]%N []);
  (mki [TPretend; TTarget 2%N; TExcl [3;4]%N; TExcl [1;5]%N; TExists] [mkf 3 0 0; mkf 10 259200 70000; mkf 4 259200 1500; mkf 7 3600 3; mkf 14 0 3; mkf 9 3600 0; mkf 12 3456000 3; mkf 13 3456000 3; mkf 8 0 3; mkf 1 34560000 0; mkf 5 34560000 1; mkf 6 3600 3; mkf 11 34560000 1] [mkp [5;4]%N false [1]%N; mkp [7;6]%N false []; mkp [10;8;2]%N true [2;5]%N; mkp [12;11]%N false [3]%N] [[7;6]%N] [] true,
   res VNone [1;3;4;5;6;7;8;9;10;11;12;13;14]%N []);
  (mki [TExists; TTarget 2%N; TTarget 1%N] [mkf 3 3456000 0; mkf 9 3456000 3; mkf 4 34560000 0; mkf 10 259200 1500; mkf 5 0 1; mkf 6 259200 70000; mkf 1 259200 1; mkf 7 0 0] [mkp [1]%N true []; mkp [8]%N true [1]%N; mkp [5;4;2]%N true []] [[9]%N; [3]%N] [3;4;5;6;7]%N true,
   res VNone [1;4;5;9;10]%N []);
  (mki [TTarget 1%N; TExists; TFetch] [mkf 11 34560000 1500; mkf 1 0 0; mkf 7 3456000 0; mkf 3 3456000 70000; mkf 9 0 70000; mkf 2 0 70000] [mkp [4;9;2]%N false [1]%N; mkp [8;5]%N true []; mkp [10]%N false []; mkp [7]%N false []] [[6]%N] [9]%N true,
   res VNone [1;2;3;7;9;11]%N []);
  (mki [TSize [49;75]%N; TTarget 1%N; TTarget 2%N; TMod [51;109;105;110]%N; TInst] [mkf 2 7380 24; mkf 5 86580 1; mkf 3 780 3; mkf 6 3456000 70000; mkf 1 86580 1023] [mkp [1;3]%N true []] [[4;6]%N; [1;3]%N] [] true,
   res VNone [1;2;3;5;6]%N []);
  (mki [TInst; TFetch; TTarget 1%N; TMod [52;53;104]%N; TExists] [mkf 1 162600 1; mkf 3 3600 3; mkf 5 162600 0; mkf 4 248400 1500; mkf 6 158400 1; mkf 2 161400 1500] [mkp [2;1]%N false [1]%N] [[2;1]%N; [6]%N] [1;2]%N true,
   res VNone [1;2;3;4;5;6]%N []);
  (mki [TInst; TExists; TExcl [1]%N; TExcl []] [mkf 6 0 1500; mkf 3 34560000 70000; mkf 5 3600 1500; mkf 7 0 70000; mkf 2 3456000 0; mkf 4 0 0; mkf 1 3600 1500; mkf 8 259200 1500] [mkp [7]%N false []; mkp [6]%N false [1]%N] [[7]%N; [6]%N; [2]%N] [1;2;3;4;5;6;7;8]%N true,
   res VNone [2;6;7]%N []);
  (mki [TTarget 2%N; TTarget 1%N; TPretend; TSize [50;66]%N; TMod [49;104]%N] [mkf 1 259200 70000; mkf 10 3000 1; mkf 9 3000 1; mkf 2 0 2; mkf 5 4200 3; mkf 8 90000 0; mkf 6 90000 1; mkf 4 10800 0; mkf 3 10800 1; mkf 7 3456000 1500] [mkp [3;2]%N false [1;2]%N; mkp [6;5]%N false [2]%N; mkp [9]%N false [2]%N; mkp [7]%N false []] (@nil (list N)) [1;2;3;5;6;9]%N true,
   res VNone [1;2;3;4;5;6;7;8;9;10]%N [3;6]%N);
  (mki [TTarget 1%N; TSize [53;77]%N; TExcl []; TFetch; TMod [52;53;100]%N; TExists] [mkf 5 0 0; mkf 2 3895200 1; mkf 3 3895200 0; mkf 1 3895200 5242881; mkf 9 3884400 5242880; mkf 8 0 5242881; mkf 4 3974400 5242879; mkf 7 3895200 5242879] [mkp [3;6]%N false []; mkp [4;1]%N true []; mkp [7;5;8]%N false []] [[7;5;8]%N] [] false,
   res VNone [1;2;3;4;5;7;8;9]%N []);
  (mki [TSize [49;66]%N; TExists; TTarget 1%N] [mkf 6 3600 0; mkf 5 259200 0; mkf 7 3456000 0; mkf 10 259200 2; mkf 2 3600 0; mkf 1 0 1001; mkf 9 3600 2; mkf 3 34560000 2; mkf 8 3600 2; mkf 4 34560000 0] [mkp [] false []; mkp [4]%N false []; mkp [5]%N true []; mkp [9;10;7]%N true []; mkp [1]%N false []] (@nil (list N)) [] true,
   res VNone [1;2;3;4;5;6;7;8;9;10]%N []);
  (mki [TExcl [2]%N; TExists; TTarget 1%N] [mkf 1 259200 1; mkf 12 0 1; mkf 11 3456000 3; mkf 6 3456000 1500; mkf 8 34560000 0; mkf 7 3456000 1500; mkf 2 3600 70000; mkf 10 259200 70000; mkf 3 0 1; mkf 5 259200 3] [mkp [3;8]%N true []; mkp [6;4]%N false [2]%N; mkp [9]%N true [1]%N] [[9]%N] [] true,
   res VNone [1;2;3;5;6;7;8;10;11;12]%N []);
  (mki [TExcl [1]%N; TTarget 1%N; TMod [51;100]%N; TFetch] [mkf 5 3456000 3; mkf 3 266400 0; mkf 1 259200 70000; mkf 2 172800 1500; mkf 7 258600 1; mkf 4 255600 1; mkf 6 34560000 70000] [mkp [3]%N false [1]%N] (@nil (list N)) [] true,
   res VNone [1;2;3;4;5;6;7]%N []);
  (mki [TExists; TInst; TExcl [2;1]%N; TMod [50;119]%N] [mkf 1 1206000 1500; mkf 8 1209000 70000; mkf 2 1123200 3; mkf 4 259200 3; mkf 10 1216800 1; mkf 7 1209000 70000; mkf 5 1296000 0; mkf 6 1296000 1500; mkf 9 1296000 70000] [mkp [3]%N false []; mkp [6;5;8;7;2]%N true []; mkp [10;9;4]%N true [1]%N] (@nil (list N)) [5;6;7;8]%N true,
   res VNone [1;2;4;5;6;7;8;9;10]%N []);
  (mki [TExists; TPretend] [mkf 5 3600 70000; mkf 2 259200 1500; mkf 8 0 3; mkf 10 259200 1500; mkf 6 0 0; mkf 1 3600 0; mkf 9 259200 1; mkf 4 259200 3; mkf 7 3600 70000] [mkp [3;2]%N false []; mkp [4;6;5]%N false []; mkp [7]%N false []; mkp [] false []; mkp [9;8]%N true []] (@nil (list N)) [1;2;4;5;6;7;8;9;10]%N true,
   res VNone [1;2;4;5;6;7;8;9;10]%N [1;10]%N);
  (mki [TFetch; TExcl [1]%N; TInst; TExists] [mkf 1 259200 1500; mkf 9 34560000 3; mkf 4 34560000 1500; mkf 13 259200 0; mkf 11 3456000 0; mkf 12 3456000 1500; mkf 2 3600 0; mkf 8 0 0; mkf 10 259200 1; mkf 3 3600 0; mkf 14 3600 1] [mkp [3;14]%N true []; mkp [8;14]%N true []; mkp [12;14;11;5]%N false []; mkp [7;14;1]%N false [1]%N] [[6;14]%N; [7;14;1]%N] [2;3;8;9;11;12;14]%N true,
   res VNone [1;3;4;8;10;11;12;13;14]%N []);
  (mki [TFetch; TExists; TTarget 1%N] [mkf 4 34560000 1500; mkf 6 3456000 0; mkf 5 0 3; mkf 7 34560000 0; mkf 9 34560000 3; mkf 3 34560000 0] [mkp [2;1]%N false [1]%N; mkp [3]%N false []; mkp [7;9]%N false []; mkp [4]%N true []; mkp [8]%N false []] (@nil (list N)) [] true,
   res VNone [3;4;5;6;7;9]%N []);
  (mki [TExcl [1]%N; TExists; TTarget 2%N; TFetch] [mkf 2 0 3; mkf 6 3456000 70000; mkf 1 34560000 0; mkf 9 0 1; mkf 5 0 0; mkf 8 34560000 0; mkf 7 0 0] [mkp [7;6]%N false [2]%N] [[3;9]%N; [4;2]%N] [6;7]%N true,
   res VNone [1;2;5;6;7;8;9]%N []);
  (mki [TExcl [1;2]%N; TExcl []; TExists] [mkf 14 34560000 70000; mkf 2 3456000 70000; mkf 7 0 1; mkf 13 0 0; mkf 3 259200 0; mkf 10 0 70000; mkf 9 34560000 70000; mkf 12 259200 1500; mkf 4 3600 3; mkf 8 3456000 0; mkf 5 259200 1; mkf 1 259200 70000; mkf 11 3600 3; mkf 6 0 0] [mkp [11;8;2;7]%N false []; mkp [9]%N false []; mkp [10;3]%N false []; mkp [5;4]%N false [1]%N; mkp [12]%N true [2]%N] [[11;8;2;7]%N] [1;2;3;4;5;6;7;8;9;10;11;12;13;14]%N true,
   res VNone [2;3;4;5;7;8;9;10;11;12]%N []);
  (mki [TInst; TSize [49;71]%N; TTarget 1%N; TFetch] [mkf 6 259200 1073741825; mkf 1 3600 1; mkf 5 3456000 1500; mkf 4 0 1073741824; mkf 3 0 1073740824; mkf 2 3456000 1073741825; mkf 8 3456000 1073741823; mkf 9 34560000 1073742824; mkf 7 34560000 1073741823; mkf 10 259200 1] [mkp [10;3]%N false [1]%N; mkp [4]%N false [1]%N; mkp [6]%N false []; mkp [7]%N false []; mkp [2]%N true []] (@nil (list N)) [3;4;10]%N false,
   res VNone [1;2;3;4;5;6;7;8;9;10]%N []);
  (mki [TTarget 1%N; TPretend; TFetch; TExcl [2]%N; TSize [49;66]%N] [mkf 3 259200 0; mkf 6 3600 1; mkf 4 3600 0; mkf 5 0 2; mkf 1 0 1] [mkp [2;1]%N true [1;2]%N; mkp [4;1]%N true []] [[2;1]%N] [] false,
   res VNone [1;3;4;5;6]%N []);
  (mki [TFetch] [mkf 2 3600 1; mkf 5 0 70000; mkf 1 3456000 1500; mkf 7 259200 1; mkf 6 3600 0; mkf 4 34560000 1; mkf 3 259200 1; mkf 8 0 0] [mkp [2]%N false []; mkp [3;9]%N false []] [[2]%N; [6;4]%N; [7;4]%N] [1;2;3;4;5;6;7;8]%N true,
   res VNone [2;3]%N []);
  (mki [TSize [53;75]%N; TExists] [mkf 8 34560000 5119; mkf 3 0 1500; mkf 7 3600 5120; mkf 6 3456000 3; mkf 5 259200 4120; mkf 1 3600 5119; mkf 4 3600 5121; mkf 9 3456000 5119; mkf 2 259200 1500] [mkp [3;2;6]%N false []; mkp [8]%N false []; mkp [5;1]%N false []] [[5;1]%N] [1;2;3;4;5;6;7;8;9]%N true,
   res VNone [1;2;3;4;5;6;7;8]%N []);
  (mki [TInst; TExcl []; TTarget 1%N] [mkf 3 3600 70000; mkf 11 34560000 70000; mkf 6 3600 0; mkf 4 259200 1; mkf 10 259200 70000; mkf 9 3456000 1500; mkf 12 0 1; mkf 5 3600 3; mkf 2 0 1500; mkf 7 3456000 3; mkf 13 259200 1500] [mkp [2;1]%N false []; mkp [6;5;3]%N true []; mkp [7]%N false []; mkp [9;8;4]%N true [1]%N; mkp [11]%N false []] (@nil (list N)) [9]%N true,
   res VNone [2;3;4;5;6;7;10;11;12;13]%N []);
  (mki [TTarget 1%N; TExcl []; TFetch] [mkf 3 3600 1; mkf 1 3456000 1500; mkf 5 0 1500; mkf 4 3456000 3; mkf 2 34560000 1] [mkp [1;2]%N false [1]%N] [[1;2]%N] [1;2]%N true,
   res VNone [1;2;3;4;5]%N []);
  (mki [TExcl [1]%N; TTarget 2%N; TInst; TSize [49;71]%N] [mkf 8 3456000 1073741823; mkf 5 34560000 1073741825; mkf 2 3600 1073741825; mkf 4 3456000 1073742824; mkf 1 3456000 0; mkf 6 0 1073741825; mkf 7 259200 1073740824; mkf 3 0 1073741825] [mkp [4;3;5]%N false []; mkp [6]%N false [1]%N; mkp [7]%N true []] [[2]%N; [7]%N] [] false,
   res VNone [1;2;3;4;5;6;7;8]%N []);
  (mki [TExcl [1;1]%N; TFetch] [mkf 3 34560000 70000; mkf 7 0 3; mkf 1 259200 3; mkf 4 3600 70000; mkf 2 0 3; mkf 6 3456000 0; mkf 5 3456000 3; mkf 8 34560000 0] [mkp [4;3;5]%N false [1]%N] [[4;3;5]%N; [7;8]%N] [] false,
   res VNone [1;2;3;4;5;6;7;8]%N []);
  (mki [TExcl [1;3]%N; TExcl [2]%N; TFetch] [mkf 3 3456000 0; mkf 10 34560000 70000; mkf 16 3456000 0; mkf 14 259200 1; mkf 6 3600 1500; mkf 11 3600 70000; mkf 5 0 70000; mkf 18 259200 0; mkf 9 0 1500; mkf 7 0 3; mkf 2 259200 70000; mkf 17 3600 70000; mkf 13 3456000 1; mkf 12 34560000 0; mkf 15 34560000 1] [mkp [2;1]%N false []; mkp [9;8]%N true [2]%N; mkp [12;10;15;11]%N false [1]%N; mkp [14]%N false []; mkp [6;5;18]%N true []] [[2;1]%N; [4;10]%N] [2;5;6;10;12;13;14;15;16;18]%N true,
   res VNone [2;3;5;6;7;9;10;11;12;14;15;17;18]%N []);
  (mki [TFetch] [mkf 3 34560000 1; mkf 5 0 3; mkf 1 3456000 70000; mkf 2 0 0; mkf 4 3600 1500] [mkp [1]%N false []] (@nil (list N)) [1;2;3;4;5]%N true,
   res VNone [1]%N []);
  (mki [TFetch; TExcl [2]%N; TExcl [1]%N] [mkf 4 34560000 1500; mkf 1 259200 0; mkf 9 0 1500; mkf 10 259200 70000; mkf 8 3600 1; mkf 6 3600 70000; mkf 13 3600 70000; mkf 12 0 1; mkf 7 3600 1; mkf 3 34560000 0; mkf 15 34560000 3; mkf 11 34560000 3; mkf 14 3456000 3] [mkp [2;15]%N false [1]%N; mkp [3]%N false [2]%N; mkp [6;5;4]%N true []; mkp [7]%N false []; mkp [12;11]%N false []] [[10]%N; [1]%N; [12;11]%N] [3;4;6;7;8;10;11;12;13]%N true,
   res VNone [1;3;4;6;7;9;11;12;14;15]%N []);
  (mki [TTarget 1%N; TExists; TExcl [3]%N; TExcl [2]%N] [mkf 1 34560000 3; mkf 2 0 0; mkf 3 3456000 1; mkf 5 0 0; mkf 7 34560000 3] [mkp [3;4;6]%N true [2;3]%N] (@nil (list N)) [] true,
   res VNone [1;2;3;5;7]%N []);
  (mki [TMod [52;53;115]%N; TExcl [2]%N; TInst; TTarget 1%N] [mkf 6 (-3555) 70000; mkf 13 86445 1; mkf 2 (-555) 3; mkf 4 645 70000; mkf 10 (-3555) 1500; mkf 11 (-3555) 0; mkf 1 645 70000; mkf 7 (-3555) 0; mkf 14 (-86355) 3; mkf 9 (-86355) 70000; mkf 12 (-86355) 1500; mkf 3 (-86355) 70000] [mkp [3;2;4;1;5]%N true [1]%N; mkp [13]%N true []; mkp [11;8]%N false [2]%N; mkp [9;10]%N false []; mkp [12;4]%N false []] [[7;4]%N] [1;2;3;4]%N false,
   res VNone [1;2;3;4;6;7;9;10;11;12;13;14]%N [1]%N);
  (mki [TExcl [2]%N; TTarget 1%N; TExists] [mkf 6 0 1; mkf 8 0 0; mkf 1 0 0; mkf 4 259200 70000; mkf 10 259200 70000; mkf 9 3600 1; mkf 3 3456000 1; mkf 2 0 1500; mkf 11 3456000 70000; mkf 13 34560000 1500; mkf 14 3456000 3; mkf 12 0 70000; mkf 7 34560000 1] [mkp [3;2]%N false []; mkp [4]%N false []; mkp [6;5;13]%N false []; mkp [8;7;1]%N false [1;2]%N] [[10]%N; [3;2]%N] [] true,
   res VNone [1;2;3;4;6;7;8;9;10;11;12;13;14]%N []);
  (mki [TInst; TExcl [1]%N; TPretend; TSize [49;77]%N] [mkf 5 3456000 1049576; mkf 4 259200 1048577; mkf 3 259200 1048576; mkf 1 0 1048576; mkf 9 34560000 1048577; mkf 7 34560000 1048577; mkf 6 3456000 1048576; mkf 8 3456000 1048576; mkf 2 3600 1049576] [mkp [5;4;3;6;1]%N false [1]%N] [[5]%N] [] true,
   res VNone [1;2;3;4;5;6;7;8;9]%N []);
  (mki [TExcl [1]%N; TExcl [2]%N] [mkf 13 259200 1; mkf 14 3600 1; mkf 1 34560000 70000; mkf 2 34560000 1500; mkf 7 3456000 1500; mkf 6 3600 1500; mkf 9 34560000 0; mkf 4 3600 1; mkf 3 3600 1500; mkf 5 0 0; mkf 8 3456000 3; mkf 10 3600 0; mkf 11 0 70000] [mkp [1;5]%N false [1]%N; mkp [4;3;8]%N false []; mkp [12;11]%N false []; mkp [13]%N true []] [[10]%N] [1;2;3;4;5;8;9;10;11;13]%N false,
   res VNone [1;2;3;4;5;6;7;8;9;10;11;13;14]%N [1;2;3;4;5;8;9;10;11;13]%N);
  (mki [TExists; TFetch] [mkf 8 0 1; mkf 11 0 3; mkf 2 259200 0; mkf 6 34560000 3; mkf 1 3456000 70000; mkf 5 34560000 70000; mkf 4 0 70000; mkf 9 3600 3; mkf 10 0 3] [mkp [3;2]%N true []; mkp [7]%N false []; mkp [10;9;11]%N false []; mkp [3;4;5]%N false []] [[3;2]%N] [1;2;4;5;6;8;9;10;11]%N true,
   res VNone [2;4;5;9;10;11]%N []);
  (mki [TMod [52;53;100]%N; TSize [49;48;48;77]%N; TExists; TTarget 1%N; TTarget 1%N] [mkf 4 3887400 0; mkf 6 3887400 104857601; mkf 2 3888600 104857599; mkf 7 3801600 104856600; mkf 3 3895200 104858600; mkf 1 3888600 104857601; mkf 5 3888600 104857601] [mkp [7]%N false [1]%N] [[7]%N; [6]%N; [4]%N] [7]%N true,
   res VNone [1;2;3;4;5;6;7]%N []);
  (mki [TInst; TMod [50;109;105;110]%N; TPretend] [mkf 2 (-86280) 1500; mkf 12 (-86280) 70000; mkf 10 3600 1500; mkf 6 86520 1500; mkf 1 (-86280) 1500; mkf 7 86520 1; mkf 8 3600 1500; mkf 4 (-3480) 1500; mkf 3 720 1500; mkf 13 259200 70000; mkf 11 (-86280) 70000; mkf 5 720 70000; mkf 9 86520 1500] [mkp [1;4]%N false []; mkp [3;2]%N true []; mkp [10;9;7]%N false []; mkp [11;6]%N false []] (@nil (list N)) [1;2;3;4;5;6;7;8;9;10;11;12;13]%N true,
   res VNone [1;2;3;4;5;6;7;8;9;10;11;12;13]%N [3;5;6;7;8;9;10;13]%N);
  (mki [TFetch; TInst; TTarget 2%N; TTarget 1%N] [mkf 2 259200 1; mkf 4 0 1; mkf 5 259200 3; mkf 6 0 1; mkf 7 34560000 3; mkf 3 34560000 0; mkf 8 3600 0; mkf 1 0 1500] [mkp [1]%N false [1]%N; mkp [5]%N false []; mkp [6]%N false [2]%N] [[2]%N] [1;6]%N true,
   res VNone [1;2;3;4;5;6;7;8]%N []);
  (mki [TInst; TExcl [2]%N; TExists; TTarget 1%N] [mkf 14 0 1; mkf 10 3600 1500; mkf 8 34560000 0; mkf 1 34560000 1500; mkf 9 0 3; mkf 2 3456000 70000; mkf 15 0 1500; mkf 4 34560000 3; mkf 5 0 0; mkf 13 259200 1500; mkf 12 34560000 3; mkf 7 259200 70000; mkf 3 3456000 1] [mkp [4]%N false []; mkp [10]%N false [1]%N; mkp [12]%N false [2]%N; mkp [13;7]%N false [2]%N; mkp [2;1;6]%N false []] [[2;1;6]%N; [11]%N] [9;10]%N true,
   res VNone [1;2;3;4;5;7;8;10;12;13;14;15]%N []);
  (mki [TMod [51;109;105;110]%N; TExists; TFetch] [mkf 6 86580 70000; mkf 17 (-420) 3; mkf 10 34560000 1500; mkf 4 (-3420) 70000; mkf 1 (-3420) 1; mkf 13 7380 1500; mkf 11 86580 0; mkf 2 7380 0; mkf 14 259200 70000; mkf 16 (-86220) 70000; mkf 8 (-420) 3; mkf 15 (-420) 1; mkf 7 (-420) 0; mkf 3 (-420) 70000; mkf 5 (-86220) 1; mkf 9 (-420) 3] [mkp [4;3;9]%N false []; mkp [10;16]%N false []; mkp [13]%N true []; mkp [15;14;8]%N false []; mkp [7;6]%N false []] [[12]%N; [4;3;9]%N; [15]%N] [1;2;3;4;5;6;7;8;9;10;11;13;14;15;16;17]%N true,
   res VNone [1;3;4;5;6;7;8;9;10;13;14;15;16;17]%N []);
  (mki [TExists; TTarget 1%N] [mkf 5 0 3; mkf 3 3456000 0; mkf 7 0 1; mkf 8 259200 3; mkf 2 34560000 1500; mkf 1 259200 1; mkf 6 0 1] [mkp [6;4]%N true [1]%N] [[6;4]%N] [6]%N true,
   res VNone [1;2;3;5;6;7;8]%N []);
  (mki [TMod [49;100]%N; TSize [49;48;48;75]%N] [mkf 4 3456000 102399; mkf 5 93600 102399; mkf 3 82800 102400; mkf 7 34560000 1500; mkf 1 0 101400; mkf 2 3600 103400; mkf 6 85800 102399] [mkp [3;6]%N true []] [[3]%N] [1;2;3;4;5;6;7]%N true,
   res VNone [1;2;3;6]%N []);
  (mki [TExists; TTarget 2%N; TExcl [1]%N; TInst; TMod [49;104]%N] [mkf 6 3000 1500; mkf 5 0 1; mkf 10 0 70000; mkf 1 4200 0; mkf 4 90000 70000; mkf 3 3456000 0; mkf 7 3600 0; mkf 2 0 0; mkf 11 259200 0] [mkp [8;5;4]%N false [2]%N; mkp [9]%N false [2]%N] [[3;5]%N] [4;5]%N true,
   res VNone [1;2;3;4;5;6;7;10;11]%N []);
  (mki [TPretend; TFetch; TMod [51;115]%N; TExcl [1]%N; TExcl [1]%N; TTarget 1%N] [mkf 3 86403 0; mkf 10 (-86397) 0; mkf 4 (-3597) 70000; mkf 8 603 70000; mkf 9 (-3597) 3; mkf 2 7203 70000; mkf 6 86403 1500] [mkp [8;7]%N false []; mkp [6;5;2]%N true [1]%N] [[1;2]%N; [8;7]%N; [6]%N] [] true,
   res VNone [2;3;4;6;8;9;10]%N []);
  (mki [TMod [49;104]%N; TFetch; TPretend; TTarget 1%N; TInst] [mkf 11 (-82800) 70000; mkf 8 259200 0; mkf 4 0 1500; mkf 2 (-82800) 0; mkf 1 3000 0; mkf 9 10800 1; mkf 7 90000 3; mkf 6 90000 0; mkf 5 3000 0] [mkp [1;6;10]%N false []; mkp [4;3;11]%N false []; mkp [7]%N false []; mkp [8]%N false [1]%N; mkp [9;2]%N true []] (@nil (list N)) [8]%N false,
   res VNone [1;2;4;5;6;7;8;9;11]%N []);
  (mki [TExists; TTarget 1%N; TInst; TMod [49;48;109;105;110]%N] [mkf 10 0 0; mkf 3 7800 70000; mkf 4 87000 3; mkf 12 7800 70000; mkf 8 (-3000) 1500; mkf 2 (-85800) 1500; mkf 1 0 1; mkf 5 1200 3; mkf 9 87000 70000; mkf 7 1200 3; mkf 6 (-3000) 3; mkf 11 7800 1500] [mkp [3;2]%N true [1]%N; mkp [5;4]%N false [1]%N; mkp [9;7;10]%N true []] (@nil (list N)) [2;3;4;5]%N true,
   res VNone [1;2;3;4;5;6;7;8;9;10;11;12]%N []);
  (mki [TSize [50;75]%N; TTarget 1%N; TTarget 2%N; TInst; TExists; TFetch] [mkf 7 3600 2049; mkf 8 259200 2047; mkf 10 34560000 2049; mkf 5 3456000 2047; mkf 9 34560000 2048; mkf 11 3456000 2047; mkf 4 34560000 2049; mkf 3 0 2049; mkf 6 259200 3; mkf 1 3456000 2048] [mkp [1]%N false []; mkp [5;10]%N false []; mkp [7;3;2]%N false []] [[4]%N] [] true,
   res VNone [1;3;4;5;6;7;8;9;10;11]%N [])
].
Eval vm_compute in (mismatches run cases).
Eval vm_compute in (where_ (fun i r => negb (spec_ok i r)) cases).
