import sys, os, tempfile, shutil, random, logging, cProfile, pstats
sys.path.insert(0, "/verif")
from harness import c29
from harness.common import Check
chk = Check("C29")
logging.getLogger("pkgcore").setLevel(logging.CRITICAL)
os.umask(0o022)
sc = c29.gen_scenario(random.Random(1), "vreplace")
work = tempfile.mkdtemp(prefix="c29d_")
pr = cProfile.Profile(); pr.enable()
try:
    res = c29.run_scenario(chk, work, sc)
finally:
    pr.disable()
    shutil.rmtree(work, ignore_errors=True)
pstats.Stats(pr).sort_stats("cumulative").print_stats(35)
