(* Spec_C19.v — the statement of C19 as definitions that do not look at the algorithm.

   "If merging stops at any point, each path that existed before holds either its complete
    previous content and metadata or its complete new content and metadata, never a
    truncated or permission-less mix.  No path outside the contents set, apart from
    temporary '#new' siblings, is modified." *)
From Coq Require Import List NArith ZArith Bool.
Import ListNotations.
From Verif Require Import Base.Val C18.Fs C18.FsLemmas C18.Model_C18 C18.Spec_C18.

(* a crash state of an op list *)
Definition crash_state (ops : list op) (s : fs) (k : nat) : fs := run (firstn k ops) s.

(* old-or-new at path p, for a block of ops replacing p: [old] is the state before the block,
   [new] the node p holds when the block has completed *)
Definition old_or_new (old : fs) (newn : option node) (st : fs) (p : path) : Prop :=
  lookup st p = lookup old p \/ lookup st p = newn.

(* the one allowed intermediate: an existing directory entry gets its owner, then its mtime *)
Definition dir_two_step (n0 n : node) : Prop :=
  match n0, n with
  | Dir m0 _ _ t0, Dir m _ _ t => m = m0 /\ t = t0
  | _, _ => False
  end.
