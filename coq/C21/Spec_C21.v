(* C21 — the statement, written without looking at the triggers' algorithm.

   Vocabulary: a tree / contents set is a path-keyed map (Model_C21.pmap); [prot] and [ign] are the
   CONFIG_PROTECT∖CONFIG_PROTECT_MASK and COLLISION_IGNORE predicates on offset-relative locations
   (arbitrary in the theorems; the model's instances are protect_filter / ignore_filter).        *)
From Coq Require Import List NArith ZArith Bool.
Import ListNotations.
From Verif Require Import Base.Val C22.Model_C22 C21.Model_C21.

(* P is a live regular file with content d, under CONFIG_PROTECT, not masked, not ignored *)
Definition protected_file (prot ign : str -> bool) (off : str) (fs : pmap) (P d : str) : Prop :=
  pm_get P fs = Some (File d) /\ prot (strip_off off P) = true /\ ign (strip_off off P) = false.

(* the incoming entry for P differs from the live file (a non-file always differs) *)
Definition incoming_differs (inst : pmap) (P d : str) (n : node) : Prop :=
  In (P, n) inst /\ same_content n (File d) = false.

(* the package recorded P with a content other than the live one *)
Definition differs_from_recorded (recorded : pmap) (P d : str) : Prop :=
  exists r, pm_get P recorded = Some r /\ same_content r (File d) = false.

(* x = "._cfgNNNN_<fname>" (NNNN four decimal digits = c) is a regular file of directory dir *)
Definition pending_update (fs : pmap) (dir fname : str) (c : Z) (x : str) (content : node) : Prop :=
  In x (cfg_listing fs dir) /\ parse_cfg x = Some (c, fname) /\ content = live_at fs (pjoin dir x).

(* the numbering rule of the statement for the number c given to the incoming entry n *)
Definition numbering_rule (fs : pmap) (dir fname : str) (n : node) (c : Z) : Prop :=
  (exists x content, pending_update fs dir fname c x content /\ same_content content n = true)
  \/ ((0 <= c)%Z /\
      forall c' x content, pending_update fs dir fname c' x content ->
                           same_content content n = false /\ (c' < c)%Z).

(* a well-formed incoming package: one entry per location, none of them named ._cfg… *)
Definition pkg_ok (inst : pmap) : Prop :=
  NoDup (map fst inst) /\ forall e, In e inst -> starts_with cfgp (basename (fst e)) = false.
