import time
from harness import common, c08
orig_build, orig_as, orig_eval = common.Check.build, common.Check.check_assumptions, common.Check.coq_eval
def timed(name, f):
    def g(*a, **k):
        t=time.time(); r=f(*a, **k); print(name, round(time.time()-t,1)); return r
    return g
common.Check.build = timed("build", orig_build); common.Check.check_assumptions = timed("assumptions", orig_as); common.Check.coq_eval = timed("coq_eval", orig_eval)
common.Check.lint = timed("lint", common.Check.lint)
chk = common.Check("C08", "quick"); t=time.time(); c08.main(chk); print("main total", round(time.time()-t,1))
import shutil; shutil.rmtree(chk.scratch, ignore_errors=True)
