(* Pack_C37.v — compact transport of the generated case tables (not used by any theorem).
   Every case carries one table of its distinct strings, written as Coq string literals (UTF-8
   bytes, decoded here to code points); inputs and recorded results refer to table entries. *)
From Coq Require Import List NArith ZArith String Ascii.
Import ListNotations.
From Verif Require Import Base.Val C37.Model_C37.

Fixpoint bytes_of (s : string) : list N :=
  match s with EmptyString => [] | String a r => N_of_ascii a :: bytes_of r end.
(* UTF-8 bytes -> code points (well-formed input only; the harness writes Python's encoding) *)
Fixpoint dec8 (l : list N) : str :=
  match l with
  | [] => []
  | b :: r =>
      if (b <? 128)%N then b :: dec8 r
      else if (b <? 224)%N then
        match r with
        | b2 :: r2 => ((b - 192) * 64 + (b2 - 128))%N :: dec8 r2
        | _ => []
        end
      else if (b <? 240)%N then
        match r with
        | b2 :: b3 :: r3 => ((b - 224) * 4096 + (b2 - 128) * 64 + (b3 - 128))%N :: dec8 r3
        | _ => []
        end
      else
        match r with
        | b2 :: b3 :: b4 :: r4 =>
            ((b - 240) * 262144 + (b2 - 128) * 4096 + (b3 - 128) * 64 + (b4 - 128))%N :: dec8 r4
        | _ => []
        end
  end.
Definition S2L (s : string) : str := dec8 (bytes_of s).
(* a case's table of distinct strings, and a reference into it *)
Definition TBL (l : list str) (i : N) : str := nth (N.to_nat i) l [].
(* one rendered parameter (key, value) as recorded result *)
Definition P (k v : str) : val := VL [VS k; VS v].

Example S2L_ascii : S2L "id" = [105; 100]%N. Proof. reflexivity. Qed.
Example S2L_utf8 : S2L "é€𝄞" = [233; 8364; 119070]%N. Proof. reflexivity. Qed.
Example S2L_quote : S2L "a""b" = [97; 34; 98]%N. Proof. reflexivity. Qed.

(* digest of a rendered parameter list for the batches stream: a run of >= 3 consecutive
   parameters with the same key is recorded as key, first value, last value, length *)
Fixpoint run_of (k : str) (l : list (str * str)) : list str * list (str * str) :=
  match l with
  | (k', v) :: r => if str_eqb k' k then let (vs, rest) := run_of k r in (v :: vs, rest) else ([], l)
  | [] => ([], [])
  end.
Fixpoint collapse (fuel : nat) (l : list (str * str)) : list val :=
  match fuel with
  | O => []
  | S f =>
      match l with
      | [] => []
      | (k, v) :: r =>
          let (vs, rest) := run_of k r in
          match vs with
          | _ :: _ :: _ => VL [VS k; VS v; VS (last vs []); VZ (Z.of_nat (S (List.length vs)))] :: collapse f rest
          | _ => P k v :: collapse f r
          end
      end
  end.
Definition digest (l : list (str * str)) : val := VL (collapse (S (List.length l)) l).

(* stream "batches": (q, base, max) -> digest of params() of every batch *)
Definition run_batches_d (i : query * Z * Z) : val :=
  let '(q, b, m) := i in VL (map (fun x => digest (params x)) (batches qlen q b m)).
