(* Model_C02.v — executable model of equality / hashing / ordering of CPVs and atoms.

     CPV.__init__ (cpvstr normalisation), __hash__, __eq__, __lt__...   src/pkgcore/ebuild/cpv.py:264-444
     atom.__attr_comparison__ / GenericEquality.__eq__                   src/pkgcore/ebuild/atom.py:66
     atom.__hash__  = hash(original text)                               src/pkgcore/ebuild/atom.py:303,424
     atom.__cmp__ + the generic rich comparisons built on it            src/pkgcore/ebuild/atom.py:432

   Hash VALUES are not modelled: the model gives the hash KEY (the string that is hashed); equal
   keys <=> equal hashes for every hash function, and the harness checks hash(x) == hash(y) <=>
   keys equal on the implementation.  The atom parser is not modelled: an atom is the record of
   its parsed attributes (supplied by the harness from the real atom object); its original text is
   [atom_text], a rendering of those attributes that the harness checks against the real text.
   Literal tables (the attribute list of atom.__eq__, the key chain of atom.__cmp__) come from
   gen/Tables_C02.v, regenerated from /repo every run.  No proofs here. *)
From Coq Require Import List NArith ZArith Bool.
Import ListNotations.
From Verif Require Import Base.Val gen.Tables_C02 C01.Model_C01.

(* ------------------------------------------------------------------ small helpers *)
Definition opt_eqb {A} (eqb : A -> A -> bool) (a b : option A) : bool :=
  match a, b with
  | None, None => true
  | Some x, Some y => eqb x y
  | _, _ => false
  end.
Fixpoint list_eqb {A} (eqb : A -> A -> bool) (a b : list A) : bool :=
  match a, b with
  | [], [] => true
  | x :: a', y :: b' => eqb x y && list_eqb eqb a' b'
  | _, _ => false
  end.

(* decimal text of a number: str(int) *)
Fixpoint dec_fuel (fuel : nat) (n : N) (acc : str) : str :=
  match fuel with
  | O => acc
  | S f => let acc' := (48 + N.modulo n 10)%N :: acc in
           if (n <? 10)%N then acc' else dec_fuel f (N.div n 10) acc'
  end.
Definition dec (n : N) : str := dec_fuel (S (N.size_nat n)) n [].

(* ------------------------------------------------------------------ CPV *)
(* CPV.__init__: a revision equal to 0 is dropped from cpvstr, leading zeros of a revision too.
   The record is Model_C01.cpv: rev = None (absent) | Some n (value). *)
Definition cpv_hash_key (a : cpv) : str :=
  cat a ++ [47%N] ++ pkg a ++ [45%N] ++ ver a
  ++ (if N.eqb (rev_val (rev a)) 0 then [] else [45; 114]%N ++ dec (rev_val (rev a))).

(* __eq__: cpvstr shortcut, then category/package/ver_cmp *)
Definition cpv_eq2 (a b : cpv) : bool :=
  str_eqb (cpv_hash_key a) (cpv_hash_key b) || cpv_eq a b.

(* ------------------------------------------------------------------ atoms *)
Record atomf := {
  a_cpvstr : str;                    (* text between operator and slot/use, un-normalised *)
  a_op : str;                        (* "", "<", "<=", "=", "=*", "~", ">=", ">" *)
  a_blocks : bool; a_bstrong : bool; a_negate : bool;
  a_use_raw : option (list str);     (* USE deps as written *)
  a_slot : option str; a_subslot : option str; a_slotop : option str; a_repo : option str;
  (* what CPV parsed out of a_cpvstr *)
  a_cat : str; a_pkg : str; a_ver : option str; a_rev : option N }.

(* sorted(): insertion sort by Python's string order *)
Fixpoint insert_str (x : str) (l : list str) : list str :=
  match l with
  | [] => [x]
  | y :: l' => if Z.leb (str_cmp x y) 0 then x :: l else y :: insert_str x l'
  end.
Definition sort_strs (l : list str) : list str := fold_right insert_str [] l.
Definition a_use (a : atomf) : option (list str) := option_map sort_strs (a_use_raw a).

(* the attributes of __attr_comparison__, by the ids of gen/Tables_C02.attr_comparison:
   0 cpvstr 1 op 2 blocks 3 negate_vers 4 use 5 slot 6 subslot 7 slot_operator 8 repo_id
   9 blocks_strongly (known to the model, not in the pinned list) *)
Definition attr_eqb (id : N) (a b : atomf) : bool :=
  match id with
  | 0 => str_eqb (a_cpvstr a) (a_cpvstr b)
  | 1 => str_eqb (a_op a) (a_op b)
  | 2 => Bool.eqb (a_blocks a) (a_blocks b)
  | 3 => Bool.eqb (a_negate a) (a_negate b)
  | 4 => opt_eqb (list_eqb str_eqb) (a_use a) (a_use b)
  | 5 => opt_eqb str_eqb (a_slot a) (a_slot b)
  | 6 => opt_eqb str_eqb (a_subslot a) (a_subslot b)
  | 7 => opt_eqb str_eqb (a_slotop a) (a_slotop b)
  | 8 => opt_eqb str_eqb (a_repo a) (a_repo b)
  | 9 => Bool.eqb (a_bstrong a) (a_bstrong b)
  | _ => true
  end%N.
Definition atom_eq (a b : atomf) : bool := forallb (fun id => attr_eqb id a b) attr_comparison.

(* atom.__cmp__: the key chain, by the ids of gen/Tables_C02.cmp_chain:
   0 category 1 package 2 op 3 ver_cmp(version, revision) 4 blocks (inverted) 5 blocks_strongly
   6 negate_vers 7 slot (None as "") 8 use 9 repo_id *)
Definition cmp_bool (a b : bool) : Z := cmpZ (if a then 1 else 0) (if b then 1 else 0).
Definition cmp_opt {A} (c : A -> A -> Z) (a b : option A) : Z :=     (* snakeoil cmp: None first *)
  match a, b with
  | None, None => 0
  | None, Some _ => -1
  | Some _, None => 1
  | Some x, Some y => c x y
  end%Z.
Fixpoint tuple_cmp (a b : list str) : Z :=      (* Python tuple order over strings *)
  match a, b with
  | [], [] => 0
  | [], _ :: _ => -1
  | _ :: _, [] => 1
  | x :: a', y :: b' => if Z.eqb (str_cmp x y) 0 then tuple_cmp a' b' else str_cmp x y
  end%Z.
Definition atom_vcmp (a b : atomf) : Z :=
  match a_ver a, a_ver b with
  | Some v1, Some v2 => ver_cmp v1 (a_rev a) v2 (a_rev b)
  | _, _ => 0%Z      (* both unversioned (None == None); mixed cases are decided by `op` before *)
  end.
Definition slot_text (s : option str) : str := match s with Some x => x | None => [] end.
Definition key_cmp (id : N) (a b : atomf) : Z :=
  match id with
  | 0 => str_cmp (a_cat a) (a_cat b)
  | 1 => str_cmp (a_pkg a) (a_pkg b)
  | 2 => str_cmp (a_op a) (a_op b)
  | 3 => atom_vcmp a b
  | 4 => (- cmp_bool (a_blocks a) (a_blocks b))%Z
  | 5 => cmp_bool (a_bstrong a) (a_bstrong b)
  | 6 => cmp_bool (a_negate a) (a_negate b)
  | 7 => str_cmp (slot_text (a_slot a)) (slot_text (a_slot b))
  | 8 => cmp_opt tuple_cmp (a_use a) (a_use b)
  | 9 => cmp_opt str_cmp (a_repo a) (a_repo b)
  | 10 => cmp_bool (a_blocks a) (a_blocks b)
  | _ => 0%Z
  end%N.
Fixpoint chain_cmp (ids : list N) (a b : atomf) : Z :=
  match ids with
  | [] => 0%Z
  | id :: ids' => let c := key_cmp id a b in if Z.eqb c 0 then chain_cmp ids' a b else c
  end.
Definition atom_cmp (a b : atomf) : Z := chain_cmp cmp_chain a b.

Definition atom_ne (a b : atomf) : bool := negb (atom_eq a b).   (* object.__ne__ *)
Definition atom_lt (a b : atomf) : bool := Z.ltb (atom_cmp a b) 0.
Definition atom_le (a b : atomf) : bool := Z.leb (atom_cmp a b) 0.
Definition atom_gt (a b : atomf) : bool := Z.gtb (atom_cmp a b) 0.
Definition atom_ge (a b : atomf) : bool := Z.geb (atom_cmp a b) 0.

(* the original text (what __hash__ hashes) *)
Fixpoint join_comma (l : list str) : str :=
  match l with
  | [] => []
  | [x] => x
  | x :: l' => x ++ 44%N :: join_comma l'
  end.
Definition is_glob_op (op : str) : bool := str_eqb op [61; 42]%N.
Definition atom_text (a : atomf) : str :=
  (if a_blocks a then (if a_bstrong a then [33; 33] else [33]) else [])%N
  ++ (if is_glob_op (a_op a) then [61%N] else a_op a)
  ++ a_cpvstr a
  ++ (if is_glob_op (a_op a) then [42%N] else [])
  ++ match a_slot a, a_slotop a with
     | Some s, o => 58%N :: s
                    ++ match a_subslot a with Some ss => 47%N :: ss | None => [] end
                    ++ match o with Some x => x | None => [] end
     | None, Some o => 58%N :: o
     | None, None => []
     end
  ++ match a_repo a with Some r => [58; 58]%N ++ r | None => [] end
  ++ match a_use_raw a with Some l => 91%N :: join_comma l ++ [93%N] | None => [] end.
Definition atom_hash_key (a : atomf) : str := atom_text a.

(* ------------------------------------------------------------------ encoders for the harness *)
(* CPV pair: [==, !=, <, <=, >, >=, hash keys equal] *)
Definition run_cpv (i : cpv * cpv) : val :=
  let '(a, b) := i in
  VL [VB (cpv_eq2 a b); VB (negb (cpv_eq2 a b)); VB (cpv_lt a b); VB (cpv_le a b);
      VB (cpv_gt a b); VB (cpv_ge a b); VB (str_eqb (cpv_hash_key a) (cpv_hash_key b))].
Definition run_cpvkey (a : cpv) : val := VS (cpv_hash_key a).
(* atom pair: [==, !=, <, <=, >, >=, hash keys equal] *)
Definition run_atom (i : atomf * atomf) : val :=
  let '(a, b) := i in
  VL [VB (atom_eq a b); VB (atom_ne a b); VB (atom_lt a b); VB (atom_le a b);
      VB (atom_gt a b); VB (atom_ge a b); VB (str_eqb (atom_hash_key a) (atom_hash_key b))].
(* one atom: [original text, sorted use (or None)] *)
Definition run_atomtext (a : atomf) : val :=
  VL [VS (atom_text a);
      match a_use a with Some l => VL (map VS l) | None => VNone end].
