"""C03 — atom syntax acceptance matches the PMS grammar per EAPI, and round-trips (DESIGN §6 C03).

Streams (every case is  (eapi : option N, negate_vers : bool, text : str)):
  valid     grammar-directed atoms for the EAPI of the case (EAPI 0..9 and None)
  gate      grammar-directed atoms using a feature the EAPI of the case does NOT have
  mutant    single-edit mutants (insert / delete / replace / swap) of valid atoms
  pool      fixed list of hand-picked boundary strings x every EAPI (the DESIGN's suspicious spots)

Compared per case
  (A) implementation vs Model_C03.run_parse : accept/reject kind, the attribute record
      (category, package, version, revision, fullver, op, blocks, blocks_strongly, slot, subslot,
      slot_operator, use, repo_id, negate_vers, cpvstr, key, transitive) and str(atom)
  (B) implementation's accept/reject vs Spec_C03.pms_atom_b (in Coq), the implementation's
      str(atom) re-parsed by the model (in Coq) and by the implementation (Python oracle), and the
      reject kind (only MalformedAtom is a legitimate rejection).
"""

import ast
import re
import sys

from . import tables
from .common import Check, Err, Raw, cN, cbool, clist, copt, cpair, cstr, cval, impl_call
from .tables import TableError

IMPORTS = ("From Coq Require Import List NArith ZArith Bool.\n"
           "From Verif Require Import Base.Val gen.Tables_eapi gen.Tables_C03 C03.Model_C03 C03.Spec_C03.")
ANCHORS = ["ebuild/atom.py::atom.__init__", "ebuild/atom.py::atom.__str__", "ebuild/cpv.py::CPV.__init__",
           "ebuild/cpv.py::isvalid_pkg_name", "ebuild/cpv.py::isvalid_rev", "ebuild/cpv.py::isvalid_version_re",
           "ebuild/cpv.py::isvalid_cat_re", "ebuild/cpv.py::_pkg_re", "ebuild/eapi.py::_valid_use_flag",
           "ebuild/eapi.py::EAPI.is_valid_use_flag", "ebuild/eapi.py::get_eapi"]
GATES = ("has_slot_deps", "has_use_deps", "has_use_dep_defaults", "strong_blockers", "sub_slotting")


# =========================================================================== regenerated tables
def _ranges_of_class(body: str, what: str):
    """'A-Za-z0-9+_.-' -> sorted list of (lo, hi) code point ranges; fail closed on anything fancy."""
    out, i = [], 0
    if not body or body[0] == "^" or "\\" in body or "[" in body:
        raise TableError(f"{what}: character class {body!r} not understood")
    while i < len(body):
        if i + 2 < len(body) and body[i + 1] == "-":
            lo, hi = ord(body[i]), ord(body[i + 2])
            if lo > hi:
                raise TableError(f"{what}: bad range in {body!r}")
            out.append((lo, hi))
            i += 3
        else:
            out.append((ord(body[i]), ord(body[i])))
            i += 1
    return sorted(set(out))


def _regex_literal(tree, name, what):
    v = tables.find_assign(tree, name)
    if not (isinstance(v, ast.Call) and isinstance(v.func, ast.Name) and v.func.id == "regexp"
            and len(v.args) == 1 and not v.keywords and isinstance(v.args[0], ast.Constant)
            and isinstance(v.args[0].value, str)):
        raise TableError(f"{what}: {name} is no longer regexp(<literal>)")
    return v.args[0].value


def _c_ranges(rs):
    return clist([cpair(cN(a), cN(b)) for a, b in rs], "N * N")


def _eapi_tables():
    tree = tables.parse("ebuild/eapi.py")
    latest = tables.literal(tables.find_assign(tree, "LATEST_PMS_EAPI_VER"))
    if not (isinstance(latest, str) and latest.isascii() and latest.isdigit()):
        raise TableError(f"LATEST_PMS_EAPI_VER is not a decimal literal: {latest!r}")

    def bool_items(d: ast.expr, where: str):
        if not isinstance(d, ast.Dict):
            raise TableError(f"{where}: options are not a dict display")
        out = {}
        for k, v in zip(d.keys, d.values):
            if not (isinstance(k, ast.Constant) and isinstance(k.value, str)):
                raise TableError(f"{where}: non-literal option key")
            if k.value in out:
                raise TableError(f"{where}: duplicate option key {k.value}")
            if isinstance(v, ast.Constant) and isinstance(v.value, bool):
                out[k.value] = v.value
            else:
                if k.value in GATES:
                    raise TableError(f"{where}: option {k.value} is not a boolean literal")
                out[k.value] = None  # non-boolean option: shadowing is still tracked
        return out

    base = tables.find_assign(tree, "eapi_optionals")
    if not (isinstance(base, ast.Call) and isinstance(base.func, ast.Name) and base.func.id == "ImmutableDict"
            and len(base.args) == 1):
        raise TableError("eapi_optionals is no longer ImmutableDict({...})")
    resolved = {"eapi_optionals": bool_items(base.args[0], "eapi_optionals")}
    for g in GATES:
        if resolved["eapi_optionals"].get(g) is None:
            raise TableError(f"eapi_optionals lacks a boolean default for {g}")
    rows = []
    n = 0
    while True:
        name = f"eapi{n}"
        try:
            call = tables.find_assign(tree, name)
        except TableError:
            break
        if not (isinstance(call, ast.Call) and isinstance(call.func, ast.Attribute) and call.func.attr == "register"
                and isinstance(call.func.value, ast.Name) and call.func.value.id == "EAPI" and not call.args):
            raise TableError(f"{name} is not EAPI.register(...)")
        kw = {k.arg: k.value for k in call.keywords}
        if not (isinstance(kw.get("magic"), ast.Constant) and kw["magic"].value == str(n)):
            raise TableError(f"{name}: magic is not {str(n)!r}")
        o = kw.get("optionals")
        if isinstance(o, ast.Name) and o.id == "eapi_optionals":
            opts = dict(resolved["eapi_optionals"])
        elif (isinstance(o, ast.Call) and isinstance(o.func, ast.Name) and o.func.id == "_combine_dicts"
              and len(o.args) == 2 and isinstance(o.args[0], ast.Attribute) and o.args[0].attr == "options"
              and isinstance(o.args[0].value, ast.Name) and o.args[0].value.id in resolved):
            opts = dict(resolved[o.args[0].value.id])
            opts.update(bool_items(o.args[1], name))
        else:
            raise TableError(f"{name}: optionals= has an unknown shape")
        resolved[name] = opts
        rows.append((n, opts))
        n += 1
    if n < 9:
        raise TableError(f"only {n} consecutive eapiN registrations found")
    if int(latest) >= n:
        raise TableError(f"LATEST_PMS_EAPI_VER={latest} has no registration")
    # the parser must still consult exactly these gates
    atree = tables.parse("ebuild/atom.py")
    init = tables.find_func(atree, "atom.__init__")
    used = sorted({x.attr for x in ast.walk(init) if isinstance(x, ast.Attribute) and isinstance(x.value, ast.Attribute)
                   and x.value.attr == "options"})
    if not set(used) <= set(GATES):
        raise TableError(f"atom.__init__ consults options {used}, the model knows {sorted(GATES)}")
    txt = [tables.header("ebuild/eapi.py (EAPI.register(... optionals=...) chain, LATEST_PMS_EAPI_VER)")]
    txt.append("(* per EAPI: every boolean-valued option after inheritance, sorted by name *)")
    txt.append("Definition eapi_options : list (N * list (str * bool)) := [")
    body = []
    for n_, opts in rows:
        items = [cpair(cstr(k), cbool(v)) for k, v in sorted(opts.items()) if v is not None]
        body.append(f"  ({cN(n_)}, (* EAPI {n_} *)\n   {clist(items, 'str * bool')})")
    txt.append(";\n".join(body) + "\n].")
    txt.append(f"Definition latest_pms_eapi : N := {cN(int(latest))}.")
    for g in GATES:
        txt.append(f"Definition opt_{g} : str := {cstr(g)}.")
    return "\n".join(txt) + "\n"


VERSION_RE_TEMPLATE = (r"^\^\(\?:\\d\+\)\(\?:\\\.\\d\+\)\*\[(?P<letter>[^\]\\^]+)\]\?"
                       r"\(\?:_\((?P<alts>[a-z|()?:]+)\)\\d\*\)\*\$$")


def _syntax_tables():
    ctree = tables.parse("ebuild/cpv.py")
    etree = tables.parse("ebuild/eapi.py")
    atree = tables.parse("ebuild/atom.py")
    out = {}
    # --- simple anchored classes  ^[F][R]*$  /  ^[C]+$
    cat = _regex_literal(ctree, "isvalid_cat_re", "cpv.py")
    m = re.fullmatch(r"\^\(\?:\[([^\]]+)\]\[([^\]]+)\]\*\)\$", cat)
    if not m:
        raise TableError(f"isvalid_cat_re has an unknown shape: {cat!r}")
    out["cat_first_class"], out["cat_rest_class"] = (_ranges_of_class(m.group(1), "cat"), _ranges_of_class(m.group(2), "cat"))
    pkg = _regex_literal(ctree, "_pkg_re", "cpv.py")
    m = re.fullmatch(r"\^\[([^\]]+)\]\+\$", pkg)
    if not m:
        raise TableError(f"_pkg_re has an unknown shape: {pkg!r}")
    out["pkg_class"] = _ranges_of_class(m.group(1), "pkg")
    use = _regex_literal(etree, "_valid_use_flag", "eapi.py")
    m = re.fullmatch(r"\^\[([^\]]+)\]\[([^\]]+)\]\*\$", use)
    if not m:
        raise TableError(f"_valid_use_flag has an unknown shape: {use!r}")
    out["use_first_class"], out["use_rest_class"] = (_ranges_of_class(m.group(1), "use"), _ranges_of_class(m.group(2), "use"))
    # --- version regex: fixed shape, letter class and suffix names extracted
    ver = _regex_literal(ctree, "isvalid_version_re", "cpv.py")
    m = re.match(VERSION_RE_TEMPLATE, ver)
    if not m:
        raise TableError(f"isvalid_version_re has an unknown shape: {ver!r}")
    out["ver_letter_class"] = _ranges_of_class(m.group("letter"), "version letter")
    names = []
    for alt in m.group("alts").split("|"):
        mm = re.fullmatch(r"([a-z]+)(?:\(\?:([a-z]+)\)\?)?", alt)
        if not mm:
            raise TableError(f"version suffix alternative {alt!r} not understood")
        if mm.group(2):
            names.append(mm.group(1) + mm.group(2))  # longest first: greedy optional group
        names.append(mm.group(1))
    # a name that is a proper prefix of another must come after it (regex backtracking = longest match here)
    for i, a in enumerate(names):
        for b in names[i + 1:]:
            if b.startswith(a) and a != b:
                raise TableError(f"version suffix alternatives {a!r} before {b!r}: ordered choice not modelled")
    suffix_names = names
    # --- atom.py character sets:  alphanum = set(string.digits); alphanum.update(string.ascii_letters)
    def expect(src_pat, what):
        if not re.search(src_pat, atom_src, flags=re.M):
            raise TableError(f"atom.py: {what} no longer has the expected form")
    atom_src = (tables.SRC / "ebuild/atom.py").read_text()
    expect(r"^alphanum = set\(string\.digits\)\nalphanum\.update\(string\.ascii_letters\)$", "alphanum")
    alnum = [(48, 57), (65, 90), (97, 122)]

    def extra(name):
        expect(rf"^{name} = set\(alphanum\)$", name)
        ups = [n for n in ast.walk(atree) if isinstance(n, ast.Call) and isinstance(n.func, ast.Attribute)
               and n.func.attr in ("update", "add", "discard", "remove", "difference_update")
               and isinstance(n.func.value, ast.Name) and n.func.value.id == name]
        if len(ups) != 1 or ups[0].func.attr != "update" or len(ups[0].args) != 1 or not (
                isinstance(ups[0].args[0], ast.Constant) and isinstance(ups[0].args[0].value, str)):
            raise TableError(f"atom.py: {name} is not built by exactly one .update(<literal>)")
        expect(rf"^{name} = frozenset\({name}\)$", name + " freeze")
        return sorted(set(alnum + [(ord(c), ord(c)) for c in ups[0].args[0].value]))
    out["slot_class"] = extra("valid_slot_chars")
    out["repo_class"] = extra("valid_repo_chars")
    txt = [tables.header("ebuild/cpv.py, ebuild/eapi.py, ebuild/atom.py (regex literals and character sets)")]
    for k, v in out.items():
        txt.append(f"Definition {k} : list (N * N) := {_c_ranges(v)}.")
    txt.append("(* version suffix names in the order the regex alternation tries them (longest first) *)")
    txt.append(f"Definition suffix_names : list str := {clist([cstr(s) for s in suffix_names], 'str')}.")
    return "\n".join(txt) + "\n"


def gen_tables():
    return {"Tables_eapi.v": _eapi_tables(), "Tables_C03.v": _syntax_tables()}


# =========================================================================== generator
EAPIS = [None, 0, 1, 2, 3, 4, 5, 6, 7, 8, 9]
KINDS = {"MalformedAtom": "MalformedAtom"}

# PMS feature matrix used by the GENERATOR only (which features a 'valid' atom may use)
def feats(e):
    if e is None:
        return dict(slot=True, use=True, strong=True, defaults=True, subslot=True, repo=True)
    return dict(slot=e >= 1, use=e >= 2, strong=e >= 2, defaults=e >= 4, subslot=e >= 5, repo=False)


CATS = ["a", "dev-libs", "x11_y.z+", "_a", "9", "virtual", "A-b.c", "sys-apps", "a+", "dev.lang"]
NAMES = ["b", "foo", "foo-bar", "foo+", "g++", "foo-r1", "r1", "foo-1ab", "foo--x", "foo-", "foo-1-", "1", "9base",
         "foo-1-r", "foo-1-rx", "foo_1", "foo-v1", "foo-1.", "foo-1.x", "foo-r1-r2", "Foo_Bar", "foo-1_px",
         "foo-1-1x1", "x-1_alphax", "a-1.2-rr1",
         # a version-shaped FIRST word followed by an rN word: two-word names are valid (the "word before a
         # revision must not look like a version" rule needs >= 3 words)
         "7z", "7z-r1", "3d-r10", "9-r2", "1a-r3", "1-r1", "1.2-r0", "7_p1-r1", "a7-r1", "xf86-video-r128"]
BAD_NAMES = ["foo-1", "foo-1-r1", "foo-1a", "foo-1_pre", "foo-1.2.3", "+foo", "-foo", "foo-1_p1_rc", "foo-01",
             "foo-1A", "foo-1-r01", "foo-2-1", "foo-1b-r9", "x-7z-r1", "x-9-r2", "7z-7z-r1", "7z-r1-1a"]
DIGS = ["0", "00", "01", "010", "1", "10", "2", "9", "123", "20260921", "123456789012345678901"]
SUFS = ["alpha", "beta", "pre", "rc", "p"]
REVS = ["", "", "", "-r0", "-r00", "-r1", "-r01", "-r123"]
OPS = ["", "", "<", "<=", "=", "=", "~", ">=", ">", "=*"]
SLOTS = ["0", "1.2", "stable", "0_pre", "a+b", "9-x", "_x", "3.11"]
FLAGS = ["x", "foo", "foo-bar", "a+b", "x_y@z", "9x", "X", "ssl"]
REPOS = ["r", "gentoo", "my_repo-1", "9r", "_r"]
ALPHABET = "abAZ09r1-_.+/:[](),!?=<>~*@"
OUTSIDERS = " \n\n\t#\u00e9{\\^$"


def gen_version(rng, allow_upper=True):
    v = ".".join(rng.choice(DIGS) for _ in range(rng.choice([1, 1, 2, 2, 3, 4])))
    r = rng.random()
    if r < 0.25:
        v += rng.choice("abxz")
    elif r < 0.29 and allow_upper:
        v += rng.choice("AZ")
    for _ in range(rng.choice([0, 0, 0, 1, 1, 2, 3])):
        v += "_" + rng.choice(SUFS) + rng.choice(["", "", "0", "1", "01", "20"])
    return v


def gen_use(rng, f):
    deps = []
    for _ in range(rng.choice([1, 1, 2, 3, 4])):
        fl = rng.choice(FLAGS)
        if f["defaults"] and rng.random() < 0.35:
            fl += rng.choice(["(+)", "(-)"])
        form = rng.choice(["%s", "%s", "-%s", "%s=", "!%s=", "%s?", "!%s?"])
        deps.append(form % fl)
    return "[" + ",".join(deps) + "]"


def gen_slot(rng, f, plus_ok=True):
    s = rng.choice(SLOTS)
    if plus_ok and rng.random() < 0.03:
        s = "+" + s
    if not f["subslot"]:
        return ":" + s
    k = rng.random()
    if k < 0.12:
        return ":*"
    if k < 0.24:
        return ":="
    if k < 0.55:
        return ":" + s
    if k < 0.70:
        return ":" + s + "="
    if k < 0.88:
        return ":" + s + "/" + rng.choice(SLOTS)
    return ":" + s + "/" + rng.choice(SLOTS) + "="


def gen_atom(rng, e, force=None):
    """A grammar-directed atom for EAPI e (None = no EAPI).  `force`: feature name to use although
    the EAPI lacks it (gate stream).  Returns (text, set of features used)."""
    f = dict(feats(e))
    if force:
        f[force] = True
        if force == "subslot":
            f["slot"] = True
        if force == "defaults":
            f["use"] = True
    used = set()
    op = rng.choice(OPS)
    cpv = rng.choice(CATS) + "/" + (rng.choice(BAD_NAMES) if rng.random() < 0.06 else rng.choice(NAMES))
    if op:
        cpv += "-" + gen_version(rng)
        if op != "~":
            cpv += rng.choice(REVS)
    s = ("=" + cpv + "*") if op == "=*" else op + cpv
    b = rng.random()
    if force == "strong" or (b < 0.12 and f["strong"]):
        s = "!!" + s
        used.add("strong")
    elif b < 0.3:
        s = "!" + s
    want = lambda p, name: (force == name) or (f[name] and rng.random() < p)
    if want(0.45, "slot") or force == "subslot":
        while True:
            sl = gen_slot(rng, f)
            sub = ("/" in sl) or sl.endswith("=") or sl == ":*"
            if force == "subslot" and not sub:
                continue
            break
        s += sl
        used.add("slot")
        if sub:
            used.add("subslot")
    if want(0.25, "repo"):
        s += "::" + rng.choice(REPOS)
        used.add("repo")
    if want(0.4, "use") or force == "defaults":
        while True:
            u = gen_use(rng, f)
            if force == "defaults" and "(" not in u:
                continue
            break
        s += u
        used.add("use")
        if "(" in u:
            used.add("defaults")
    return s, used


def mutate(rng, s):
    k = rng.random()
    pool = ALPHABET if rng.random() < 0.8 else OUTSIDERS
    i = rng.randrange(len(s) + 1)
    if k < 0.35:
        return s[:i] + rng.choice(pool) + s[i:], "insert"
    if k < 0.60 and s:
        i = min(i, len(s) - 1)
        return s[:i] + s[i + 1:], "delete"
    if k < 0.85 and s:
        i = min(i, len(s) - 1)
        return s[:i] + rng.choice(pool) + s[i + 1:], "replace"
    if len(s) >= 2:
        i = min(i, len(s) - 2)
        return s[:i] + s[i + 1] + s[i] + s[i + 2:], "swap"
    return s + rng.choice(pool), "insert"


POOL = [
    # DESIGN's suspicious spots: use_start/slot_start handling, !! under old EAPIs, =* with revision
    "a/b", "a/b:0", "a/b:0[x]", "a/b[x]:0", "a/b:", "a/b:0:", "a/b[x]:", "a/b[x:y]", "a/b:[x]", "a/b[:]", ":", "::",
    ":0", "[x]", "::r", "a/b::r", "a/b:::r", "a/b:0::r", "a/b::r[x]", "a/b[x]::r", "a/b::", "a/b::-r", "a/b::r:",
    "!a/b", "!!a/b", "!!!a/b", "!", "!!", "!<", "!!>", "<", ">", "<=", ">=", "=", "=*", "~", "!=", "!~",
    "=a/b-1*", "=a/b-1-r1*", "=a/b-1-r0*", "=a/b-1*:0", "=a/b-1**", "=a/b-*", "=a/b*", "=a/b-1.*", "~a/b-1*",
    "<a/b-1*", "=a/b-1*[x]", "=a/b-1[x]*", "=a/b-1:0*", "~a/b-1-r1", "~a/b-1-r0", "~a/b-1", "=a/b-1-r01",
    "=a/b-1-r0", "=a/b-1-r", "=a/b-1-r1-r2", "a/b-r1", "=a/b-r1", "=a/r1-1", "a/b-1", "a/b-1-r1", "=a/b",
    "=a/b-1-1", "=a/b--1", "=a/-1", "a/-b", "a/+b", "a/b+", "a/b-", "a/b--c", "a//b", "a/b/c", "/b", "a/", "a",
    "a/b:0/1", "a/b:0/1=", "a/b:0=", "a/b:=", "a/b:*", "a/b:*=", "a/b:==", "a/b:=0", "a/b:0/", "a/b:/1",
    "a/b:0/1/2", "a/b:0/=", "a/b:0=/1", "a/b:0==", "a/b:.0", "a/b:-0", "a/b:+0", "a/b:0/+1", "a/b:0/.1", "a/b:_0",
    "a/b:0:1", "a/b:=[x]", "a/b:*[x(+)]", "a/b:0/1=::r[x]",
    "a/b[", "a/b]", "a/b[]", "a/b[x", "a/b[x]y", "a/b[x]]", "a/b[[x]", "a/b[x][y]", "a/b[x,]", "a/b[,x]", "a/b[x,,y]",
    "a/b[-x]", "a/b[-x?]", "a/b[-x=]", "a/b[!x]", "a/b[!x?]", "a/b[!x=]", "a/b[!-x?]", "a/b[!!x?]", "a/b[--x]",
    "a/b[x?]", "a/b[x=]", "a/b[x=?]", "a/b[x==]", "a/b[x?=]", "a/b[?]", "a/b[=]", "a/b[!?]", "a/b[-]", "a/b[!]",
    "a/b[x(+)]", "a/b[x(-)]", "a/b[x(+)?]", "a/b[!x(-)=]", "a/b[-x(+)]", "a/b[x()]", "a/b[x)]", "a/b[(+)]", "a/b[x(+)(-)]",
    "a/b[x(+]", "a/b[x(*)]", "a/b[x+)]", "a/b[(+)x]", "a/b[x(+)y]", "a/b[-(+)]", "a/b[)]", "a/b[x?(+)]",
    "a/b[y,x]", "a/b[x,y,x]", "a/b[x,-x]", "a/b[B,a,A,b]", "a/b[@x]", "a/b[x@]", "a/b[+x]", "a/b[_x]", "a/b[9]",
    "=a/b-1_p", "=a/b-1_p1_alpha", "=a/b-1_pre_p", "=a/b-1_pr", "=a/b-1_", "=a/b-1_x", "=a/b-1.", "=a/b-1..2",
    "=a/b-.1", "=a/b-01", "=a/b-1a", "=a/b-1A", "=a/b-1ab", "=a/b-1a1", "=a/b-1.a", "=a/b-1a.2", "=a/b-1_p-r1",
    "a/b-1A", "a/b-1a", "a/b-1A-r1", "=a/b-1A-1", "a.b/c", ".a/c", "+a/c", "_a/c", "-a/c", "a:b/c", "a/b c",
    "a/b\n", "=a/b-1\n", "a\n/b", "a/b\n-c", "a/b[x\n]", "a/b:0\n", "a/b\n:0", "a/b\n\n", "\na/b", "=a/b-1\n-r1",
    "=a/b-1-r1\n", "a/b::r\n", "a/b-1\n", "a/b \n",
]
# package-name boundary: version-shaped first word + rN word (valid with two words, invalid with a word in front)
for _nm in ("7z", "7z-r1", "3d-r10", "9-r2", "1a-r3", "1-r1", "a7-r1", "xf86-video-r128", "x-7z-r1", "foo-7-r1", "7z-r1-r2"):
    POOL += ["virtual/" + _nm, "=virtual/" + _nm + "-1.0", "~app-misc/" + _nm + "-2.5_p1", "app-misc/" + _nm + ":0",
             "!<a/" + _nm + "-1-r2[x]", "=a/" + _nm + "-1*"]


# =========================================================================== implementation driver
def c_field(s, v):
    def one(x):
        i = s.find(x)
        return f"CS {i} {len(x)}" if i >= 0 else f"CL {cstr(x)}"
    if v is None:
        return "CNone"
    if isinstance(v, bool):
        return f"CB {cbool(v)}"
    if isinstance(v, str):
        return f"CStr ({one(v)})"
    return "CU " + clist([one(x) for x in v], "cfs")


def c_case(e, neg, s, res):
    """(eapi, negate, text, compact record) and the recorded result (VErr kind | VB true = accepted)"""
    fields = [] if isinstance(res, Err) else [c_field(s, v) for v in res]
    return (cpair(copt(e, cN, "N"), cbool(neg), cstr(s), clist(fields, "cf")),
            res if isinstance(res, Err) else True)


def record_of(a):
    rev = a.revision
    return [a.category, a.package, a.version, None if rev is None else str(rev.data), a.fullver, a.op,
            bool(a.blocks), bool(a.blocks_strongly), a.slot, a.subslot, a.slot_operator,
            None if a.use is None else [str(x) for x in a.use], a.repo_id, bool(a.negate_vers), a.cpvstr, a.key,
            type(a).__name__ == "transitive_use_atom", str(a)]


def run_impl(atom_cls, e, neg, s):
    kw = {} if e is None else {"eapi": str(e)}

    def go():
        a = atom_cls(s, negate_vers=neg, **kw)
        rec = record_of(a)
        # re-parse oracle (Python side of B): str(atom) parses back to an equal atom, equal record
        b = atom_cls(rec[-1], negate_vers=neg, **kw)
        rec2 = record_of(b)
        same = (rec2 == rec) and (a == b) and not (a != b) and (tuple(map(str, a.restrictions)) == tuple(map(str, b.restrictions)))
        return rec, same

    r = impl_call(go, kinds=KINDS)
    if isinstance(r, Err):
        return r, True
    return r


# =========================================================================== known-finding classifiers
UPPER_VER = re.compile(r"\d+(\.\d+)*[A-Z](_(alpha|beta|pre|rc|p)\d*)*\n?")


def cls_trailing_newline(e, s, res):
    """accepted although the text contains a newline (Python's `$` matches before a final \\n)"""
    return not isinstance(res, Err) and "\n" in s


def cls_upper_version_letter(e, s, res):
    """some chunk between delimiters is a version per isvalid_version_re but carries an UPPER-case letter
    (PMS 3.2 allows [a-z] only): accepted as a version, or refused as a package-name tail"""
    return any(UPPER_VER.fullmatch(c) for c in re.split(r"[-/:\[\]*!<>=~]", s))


def cls_slot_leading_plus(e, s, res):
    """accepted with a slot or sub-slot that begins with '+' (PMS 3.1.3 forbids it)"""
    return (not isinstance(res, Err)) and any((x or "").startswith("+") for x in (res[8], res[9]))


def cls_unicode_digit(e, s, res):
    """accepted although the version/revision contains a non-ASCII Unicode digit (\\d and str.isdigit)"""
    return not isinstance(res, Err) and any(ord(c) > 127 and c.isdigit() for c in s)


ACCEPT_CLASSES = [("trailing-newline", cls_trailing_newline), ("upper-version-letter", cls_upper_version_letter),
                  ("slot-leading-plus", cls_slot_leading_plus)]


# =========================================================================== main
def main(chk: Check):
    chk.rule("grammar-directed atoms per EAPI (0..9 and none) built from category/name/version/operator/blocker/"
             "slot/sub-slot/slot-operator/USE-dep/repo pools with version-like name tails; 'gate' atoms use one "
             "feature the EAPI lacks; single-edit mutants (insert/delete/replace/swap, atom alphabet + outsiders "
             "incl. newline); a fixed boundary pool x every EAPI.  Non-trivial = accepted, or rejected for a "
             "reason other than the empty string; counted per distinct (eapi, text)")
    try:
        tables.regenerate(sys.modules[__name__])
        tables_ok = True
    except TableError as ex:
        tables_ok = False
        chk.violation("table", {"what": f"source-derived table could not be regenerated (fail closed): {ex}"},
                      no_input=True)
    ok = chk.build(["C03/Prop_C03.vo"]) if tables_ok else False
    if ok:
        chk.check_assumptions("C03/Prop_C03.v")
    elif tables_ok:
        # a proof obligation broke (only possible through the regenerated tables): the model and the spec
        # contain no proofs, so they still evaluate -- go on and search for a concrete failing input
        ok = chk.build(["C03/Spec_C03.vo"], what="model and spec (no proofs)")
    chk.lint(["C03"])
    chk.check_fingerprint(ANCHORS)

    from pkgcore.ebuild.atom import atom as atom_cls

    rng = chk.rng
    cases = []  # (stream, e, neg, s)
    seen = set()

    def add(stream, e, neg, s):
        if s and (e, neg, s) not in seen:
            seen.add((e, neg, s))
            cases.append((stream, e, neg, s))

    # corpus first
    import json
    from .common import VERIF
    for f in sorted((VERIF / "corpus" / "C03").glob("*.json")):
        for c in json.loads(f.read_text()):
            add("corpus", c["eapi"], bool(c.get("negate", False)), c["text"])
    # quick: one EAPI per distinct gate row (0, 1, 2=3, 4, 5=6..9, none) + one of the others; thorough: all
    pool_eapis = EAPIS if (chk.thorough or chk.fingerprint_changed) else [None, 0, 1, 2, 4, 5, rng.choice([3, 6, 7, 8, 9])]
    for s in POOL:
        for e in pool_eapis:
            add("pool", e, False, s)
    n_valid, n_gate, n_mut = chk.n(900, 6000), chk.n(300, 2000), chk.n(1500, 10000)
    valids = []
    for _ in range(n_valid):
        e = rng.choice(EAPIS)
        s, used = gen_atom(rng, e)
        valids.append((e, s))
        add("valid", e, rng.random() < 0.1, s)
    for _ in range(n_gate):
        e = rng.choice([0, 0, 1, 1, 2, 3, 4, 4, 5, 8, 9])
        f = feats(e)
        missing = [k for k in ("slot", "use", "strong", "defaults", "subslot", "repo") if not f[k]]
        s, used = gen_atom(rng, e, force=rng.choice(missing))
        add("gate", e, False, s)
    for _ in range(n_mut):
        e, s = rng.choice(valids)
        m, kind = mutate(rng, s)
        if rng.random() < 0.15:
            m, _k = mutate(rng, m)
        add("mutant", e, False, m)

    # ---- run the implementation
    results, rt_bad, hist = [], [], {}
    for stream, e, neg, s in cases:
        res, same = run_impl(atom_cls, e, neg, s)
        results.append(res)
        chk.count(stream)
        key = "accepted" if not isinstance(res, Err) else str(res.kind)
        hist[f"{stream}:{key}"] = hist.get(f"{stream}:{key}", 0) + 1
        chk.nontrivial((e, s))
        if not same:
            rt_bad.append((e, neg, s, res))
    chk.cov["distribution"] = dict(sorted(hist.items()))
    for i in range(0, len(cases), max(1, len(cases) // 5)):
        chk.sample({"stream": cases[i][0], "eapi": cases[i][1], "text": cases[i][3],
                    "impl": results[i] if isinstance(results[i], Err) else results[i][-1]})

    # ---- unicode-digit probe (outside the model's domain; direct oracle)
    for e in (None, 5):
        for s in ("=a/b-1١", "=a/b-١.٢", "=a/b-1-r١", "=a/b-1-r²"):
            res, _same = run_impl(atom_cls, e, False, s)
            chk.count("unicode")
            if cls_unicode_digit(e, s, res):
                if not chk.known_finding("unicode-digit", {"eapi": e, "text": s}):
                    chk.violation("property", {"what": "accepted an atom containing a non-ASCII digit",
                                               "input": {"eapi": e, "text": s}})

    # ---- model (A) and spec (B) inside Coq
    coq_cases = [c_case(e, neg, s, res) for (_st, e, neg, s), res in zip(cases, results)]
    a_bad, b_acc, b_rt = [], [], []
    if ok:
        r = chk.coq_eval("atoms", IMPORTS, "case", coq_cases,
                         ["where_ case_mismatch cases",
                          "where_ (fun i r => negb (spec_accept_ok i r)) cases",
                          "where_ (fun i r => negb (spec_roundtrip_ok i r)) cases"])
        if r is not None:
            a_bad, b_acc, b_rt = r

    # ---- (B) property failures on concrete inputs
    prop_fail = False
    unclassified = []
    for i in b_acc:
        _st, e, neg, s = cases[i]
        res = results[i]
        hit = [cid for cid, pred in ACCEPT_CLASSES if pred(e, s, res)]
        if hit and chk.known_finding(hit[0], {"eapi": e, "text": s, "accepted": not isinstance(res, Err)}):
            for cid in hit[1:]:
                chk.known_finding(cid, {"eapi": e, "text": s, "accepted": not isinstance(res, Err)})
            continue
        unclassified.append(i)
    for i in unclassified[:4]:
        _st, e, neg, s = cases[i]
        prop_fail = True
        chk.violation("property",
                      {"what": ("accepted a string the PMS grammar rejects" if not isinstance(results[i], Err)
                                else "rejected a string the PMS grammar accepts") + " (Spec_C03.pms_atom_b)",
                       "input": {"eapi": e, "negate_vers": neg, "text": s}, "implementation": results[i]})
    for i, ((_st, e, neg, s), res) in enumerate(zip(cases, results)):
        if isinstance(res, Err) and res.kind != "MalformedAtom":   # (fixed in /repo 3aa9a5c: IndexError)
            prop_fail = True
            chk.violation("property", {"what": f"rejected with {res.kind} instead of MalformedAtom",
                                       "input": {"eapi": e, "negate_vers": neg, "text": s}})
            break
    for e, neg, s, res in rt_bad[:3]:
        prop_fail = True
        chk.violation("property", {"what": "str(atom) does not parse back to an equal atom (implementation re-parse)",
                                   "input": {"eapi": e, "negate_vers": neg, "text": s}, "implementation": res})
    for i in b_rt[:3]:
        _st, e, neg, s = cases[i]
        if (e, neg, s, results[i]) in rt_bad:
            continue
        prop_fail = True
        chk.violation("property", {"what": "the text rendered by the implementation does not parse back to the same "
                                           "record (model re-parse, Spec_C03.spec_roundtrip_ok)",
                                   "input": {"eapi": e, "negate_vers": neg, "text": s}, "implementation": results[i]})
    # ---- (A) model/implementation disagreement
    for i in a_bad[:3]:
        _st, e, neg, s = cases[i]
        chk.violation("correspondence",
                      {"what": "implementation and Model_C03.parse_atom disagree (theorems of Prop_C03 no longer "
                               "speak about this code)",
                       "input": {"eapi": e, "negate_vers": neg, "text": s}, "implementation": results[i]},
                      no_input=not prop_fail)
    chk.cov["model_mismatches"] = len(a_bad)
    chk.cov["spec_disagreements"] = len(b_acc)
    chk.cov["spec_disagreements_unclassified"] = len(unclassified)


def replay(chk, data):
    from pkgcore.ebuild.atom import atom as atom_cls
    inp = data.get("detail", {}).get("input") or {}
    e, neg, s = inp.get("eapi"), bool(inp.get("negate_vers", False)), inp.get("text", "")
    res, same = run_impl(atom_cls, e, neg, s)
    print("implementation:", res, "reparse-equal:", same)
    r = chk.coq_eval("replay", IMPORTS, "case", [c_case(e, neg, s, res)],
                     ["where_ case_mismatch cases", "where_ (fun i r => negb (spec_accept_ok i r)) cases",
                      "where_ (fun i r => negb (spec_roundtrip_ok i r)) cases"])
    print("model disagrees:" if r and r[0] else "model agrees;", "spec(accept) disagrees:" if r and r[1] else
          "spec(accept) agrees;", "round-trip fails" if r and r[2] else "round-trip ok")
