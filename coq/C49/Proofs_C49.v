(* Proofs_C49.v — lemmas and proofs for C49. *)
From Coq Require Import List NArith ZArith Bool Lia.
Import ListNotations.
From Verif Require Import Base.Val gen.Tables_C49 C49.Model_C49 C49.Spec_C49.

Scheme op_mind := Induction for op Sort Prop
  with prog_mind := Induction for prog Sort Prop
  with ecls_mind := Induction for ecls Sort Prop.
Combined Scheme op_prog_ecls_ind from op_mind, prog_mind, ecls_mind.

(* ------------------------------------------------------------------ INHERITED *)
Lemma memN_In x l : memN x l = true <-> In x l.
Proof.
  unfold memN. rewrite existsb_exists. split.
  - intros [y [Hy E]]. apply N.eqb_eq in E. subst. exact Hy.
  - intros H. exists x. split; [exact H | apply N.eqb_refl].
Qed.

Lemma dedup_from_In seen l x : In x (dedup_from seen l) <-> In x l /\ ~ In x seen.
Proof.
  revert seen. induction l as [|y l IH]; intros seen; cbn.
  - tauto.
  - destruct (memN y seen) eqn:E.
    + apply memN_In in E. rewrite IH. split.
      * intros [H1 H2]. split; [right; exact H1 | exact H2].
      * intros [[H1|H1] H2]; [subst; contradiction | split; assumption].
    + assert (~ In y seen) by (intro H; apply memN_In in H; congruence).
      cbn. rewrite IH. cbn. split.
      * intros [H1|[H1 H2]]; [subst; tauto | split; [tauto | intro; apply H2; right; assumption]].
      * intros [[H1|H1] H2]; [left; assumption|].
        destruct (N.eq_dec y x); [left; assumption | right; split; [assumption | intros [?|?]; tauto]].
Qed.

Lemma dedup_In l x : In x (dedup l) <-> In x l.
Proof. unfold dedup. rewrite dedup_from_In. cbn. tauto. Qed.

Lemma dedup_from_NoDup seen l : NoDup (dedup_from seen l).
Proof.
  revert seen. induction l as [|y l IH]; intros seen; cbn; [constructor|].
  destruct (memN y seen); [apply IH|]. constructor; [|apply IH].
  rewrite dedup_from_In. cbn. tauto.
Qed.

Lemma inherited_sourcings :
  (forall o, inherited_op o = map fst (sourcings_op o)) /\
  (forall p, inherited_prog p = map fst (sourcings p)) /\
  (forall es, inherited_ecls es = map fst (sourcings_ecls es)).
Proof.
  apply op_prog_ecls_ind; cbn; intros; try reflexivity.
  - assumption.
  - rewrite map_app. congruence.
  - rewrite map_app. cbn. congruence.
Qed.

Lemma inherited_all_sourced_proof : forall p,
  NoDup (inherited p) /\ forall n, In n (inherited p) <-> sourced n p.
Proof.
  intros p. split; [apply dedup_from_NoDup|].
  intros n. unfold inherited, sourced. rewrite dedup_In.
  destruct inherited_sourcings as [_ [H _]]. rewrite H. tauto.
Qed.

(* ------------------------------------------------------------------ accumulation *)
Definition srcvals (v : var) (l : list (N * prog)) : value :=
  concat (map (fun e => valof (own_value v (snd e))) l).

Lemma srcvals_app v a b : srcvals v (a ++ b) = srcvals v a ++ srcvals v b.
Proof. unfold srcvals. rewrite map_app, concat_app. reflexivity. Qed.

Lemma srcvals_single v n b : srcvals v [(n, b)] = valof (own_value v b).
Proof. unfold srcvals. cbn. apply app_nil_r. Qed.

Definition mk (ls : list cell) (g : option value) (a : value) : st :=
  {| locals := ls; glob := g; acc := a |}.

(* the last eclass of an inherit line leaves its value in inherit()'s frame *)
Fixpoint last_cell (v : var) (es : ecls) (c : option value) : option value :=
  match es with ENil => c | ECons _ b r => last_cell v r (own_value v b) end.

Lemma accumulate_top c ls g a :
  accumulate (mk (Some c :: ls) g a) = mk (Some c :: ls) g (a ++ valof c).
Proof.
  unfold accumulate, mk; cbn. destruct (valof c) eqn:E; cbn.
  - rewrite app_nil_r. reflexivity.
  - reflexivity.
Qed.

(* inside an eclass (innermost frame bound), code that never unsets v only touches that frame *)
Lemma exec_in_frame v :
  (forall o c ls g a, clean_op v o = true ->
     exec_op v true o (mk (Some c :: ls) g a)
     = mk (Some (step v c o) :: ls) g (a ++ srcvals v (sourcings_op o))) /\
  (forall p c ls g a, clean_prog v p = true ->
     exec_prog v true p (mk (Some c :: ls) g a)
     = mk (Some (own_replay v p c) :: ls) g (a ++ srcvals v (sourcings p))) /\
  (forall es c ls g a, clean_ecls v es = true ->
     exec_ecls v true es (mk (Some c :: ls) g a)
     = mk (Some (last_cell v es c) :: ls) g (a ++ srcvals v (sourcings_ecls es))).
Proof.
  apply op_prog_ecls_ind.
  - (* Assign *) intros w x c ls g a _. cbn. destruct (N.eqb w v); cbn; rewrite app_nil_r; reflexivity.
  - (* Append *) intros w x c ls g a _. cbn. destruct (N.eqb w v); cbn; rewrite app_nil_r; [|reflexivity].
    unfold do_append, do_assign, mk; cbn. destruct c; reflexivity.
  - (* Unset *) intros w c ls g a H. cbn in *. destruct (N.eqb w v); [discriminate|].
    rewrite app_nil_r. reflexivity.
  - (* DefPhase *) intros f c ls g a _. cbn. rewrite app_nil_r. reflexivity.
  - (* Inherit *) intros es IH c ls g a H. cbn in H. cbn [exec_op step sourcings_op].
    unfold push; cbn [locals glob acc mk].
    change {| locals := Some None :: Some c :: ls; glob := g; acc := a |}
      with (mk (Some None :: Some c :: ls) g a).
    rewrite (IH None (Some c :: ls) g a H). reflexivity.
  - (* PNil *) intros c ls g a _. cbn. rewrite app_nil_r. reflexivity.
  - (* PCons *) intros o IHo p IHp c ls g a H. cbn in H. apply andb_true_iff in H as [H1 H2].
    cbn [exec_prog own_replay sourcings]. rewrite (IHo c ls g a H1), (IHp _ ls g _ H2).
    rewrite srcvals_app, app_assoc. reflexivity.
  - (* ENil *) intros c ls g a _. cbn. rewrite app_nil_r. reflexivity.
  - (* ECons *) intros n b IHb r IHr c ls g a H. cbn in H. apply andb_true_iff in H as [H1 H2].
    cbn [exec_ecls last_cell sourcings_ecls].
    replace (do_unset_here (mk (Some c :: ls) g a)) with (mk (Some None :: ls) g a) by reflexivity.
    rewrite (IHb None ls g a H1). fold (own_value v b).
    rewrite accumulate_top, (IHr _ ls g _ H2).
    rewrite !srcvals_app, srcvals_single, <- !app_assoc. reflexivity.
Qed.

(* at ebuild level (no frame) the ebuild's statements act on the global, each inherit line
   adds the values of the sourcings below it *)
Lemma exec_ebuild v : forall p g a, no_eclass_unset v p = true ->
  exec_prog v true p (mk [] g a) = mk [] (own_replay v p g) (a ++ srcvals v (sourcings p)).
Proof.
  induction p as [|o p IH]; intros g a H.
  - cbn. rewrite app_nil_r. reflexivity.
  - cbn [exec_prog own_replay sourcings]. destruct o as [w x|w x|w|f|es]; cbn in H.
    + cbn [exec_op step sourcings_op]. destruct (N.eqb w v); cbn; apply IH; assumption.
    + cbn [exec_op step sourcings_op]. destruct (N.eqb w v); cbn; [|apply IH; assumption].
      unfold do_append, do_assign; cbn. destruct g; cbn; apply IH; assumption.
    + cbn [exec_op step sourcings_op]. destruct (N.eqb w v); cbn; apply IH; assumption.
    + cbn. apply IH; assumption.
    + apply andb_true_iff in H as [H1 H2]. cbn [exec_op step sourcings_op].
      replace (push (mk [] g a)) with (mk [Some None] g a) by reflexivity.
      destruct (exec_in_frame v) as [_ [_ E]]. rewrite (E es None [] g a H1).
      replace (pop (mk [Some (last_cell v es None)] g (a ++ srcvals v (sourcings_ecls es))))
        with (mk [] g (a ++ srcvals v (sourcings_ecls es))) by reflexivity.
      rewrite (IH g _ H2), srcvals_app, app_assoc. reflexivity.
Qed.

(* variables that inherit() does not localise: plain last-writer over the whole execution *)
Lemma exec_flat v :
  (forall o g a, exec_op v false o (mk [] g a) = mk [] (fold_left (step v) (flatten_op o) g) a) /\
  (forall p g a, exec_prog v false p (mk [] g a) = mk [] (fold_left (step v) (flatten p) g) a) /\
  (forall es g a, exec_ecls v false es (mk [] g a) = mk [] (fold_left (step v) (flatten_ecls es) g) a).
Proof.
  apply op_prog_ecls_ind.
  - intros w x g a. cbn. destruct (N.eqb w v); reflexivity.
  - intros w x g a. cbn. destruct (N.eqb w v); [|reflexivity].
    unfold do_append, do_assign; cbn. destruct g; reflexivity.
  - intros w g a. cbn. destruct (N.eqb w v); reflexivity.
  - intros f g a. reflexivity.
  - intros es IH g a. cbn. apply IH.
  - intros g a. reflexivity.
  - intros o IHo p IHp g a. cbn. rewrite IHo, IHp, fold_left_app. reflexivity.
  - intros g a. reflexivity.
  - intros n b IHb r IHr g a. cbn. rewrite IHb, IHr, fold_left_app. reflexivity.
Qed.

(* ---- the EAPI tables agree with the statement (re-checked against today's eapi.py/ebuild.bash) *)
Definition eapis_upto9 : list N := [0;1;2;3;4;5;6;7;8;9]%N.
Lemma le9_in eapi : (eapi <= 9)%N -> In eapi eapis_upto9.
Proof.
  intros H. unfold eapis_upto9.
  destruct eapi as [|p]; [left; reflexivity|].
  do 10 (destruct p as [p|p|]; try (exfalso; lia); try (cbn; tauto)).
Qed.

Lemma table_accum_pr : forall eapi, (eapi <= 9)%N -> accum_pr eapi = N.leb 8 eapi.
Proof.
  intros eapi H. apply le9_in in H. revert eapi H. apply Forall_forall.
  repeat constructor.
Qed.

Lemma table_rdepend_default : forall eapi, (eapi <= 9)%N -> rdepend_default eapi = N.leb eapi 3.
Proof.
  intros eapi H. apply le9_in in H. revert eapi H. apply Forall_forall.
  repeat constructor.
Qed.

Lemma localised_pms eapi v : (eapi <= 9)%N -> localised eapi v = pms_accumulated eapi v.
Proof. intros H. unfold localised, pms_accumulated. rewrite table_accum_pr by assumption. reflexivity. Qed.

Lemma run_var_loc eapi v p : localised eapi v = true -> no_eclass_unset v p = true ->
  run_var eapi v p = mk [] (own_value v p) (srcvals v (sourcings p)).
Proof.
  intros L H. unfold run_var. rewrite L. change st0 with (mk [] None []).
  rewrite exec_ebuild by assumption. reflexivity.
Qed.

Lemma accumulates_proof : forall eapi v p,
  (eapi <= 9)%N -> pms_accumulated eapi v = true -> known_class eapi v p = false ->
  final_value eapi v p = spec_accumulated eapi v p.
Proof.
  intros eapi v p He Hacc Hk.
  unfold known_class in Hk. apply orb_false_iff in Hk as [Hk1 Hk2].
  apply negb_false_iff in Hk1.
  assert (L : localised eapi v = true) by (rewrite localised_pms; assumption).
  unfold final_value, spec_accumulated. rewrite L.
  unfold own_final. rewrite (run_var_loc eapi v p L Hk1). cbn [glob acc mk].
  fold (srcvals v (sourcings p)). f_equal.
  unfold ebuild_value. rewrite table_rdepend_default by assumption.
  destruct (N.eqb v vRDEPEND) eqn:Ev; cbn [andb]; [|reflexivity].
  apply N.eqb_eq in Ev. subst v.
  destruct (N.leb eapi 3) eqn:E3; [|reflexivity].
  cbn in Hk2. apply negb_false_iff in Hk2.
  destruct (own_value vRDEPEND p); [reflexivity|].
  rewrite (run_var_loc eapi vDEPEND p); [reflexivity | | assumption].
  rewrite localised_pms by assumption. reflexivity.
Qed.

Lemma others_final_proof : forall eapi v p,
  (eapi <= 9)%N -> pms_accumulated eapi v = false ->
  final_value eapi v p = spec_final v p.
Proof.
  intros eapi v p He Hacc.
  assert (L : localised eapi v = false) by (rewrite localised_pms; assumption).
  unfold final_value, spec_final, own_final, run_var. rewrite L.
  assert (N.eqb v vRDEPEND = false) as ->.
  { unfold pms_accumulated in Hacc. apply orb_false_iff in Hacc as [H _].
    apply N.ltb_ge in H. apply N.eqb_neq. unfold vRDEPEND. lia. }
  cbn [andb]. change st0 with (mk [] None []).
  destruct (exec_flat v) as [_ [E _]]. rewrite E. reflexivity.
Qed.

(* whole metadata dict *)
Lemma metadata_spec_proof : forall eapi p,
  (eapi <= 9)%N ->
  (forall v, In v (metadata_keys eapi) -> pms_accumulated eapi v = true -> known_class eapi v p = false) ->
  metadata eapi p =
  filter (fun kv => negb (is_nil (snd kv))) (map (fun v => (v, spec_value eapi v p)) (metadata_keys eapi)).
Proof.
  intros eapi p He H. unfold metadata. f_equal. apply map_ext_in. intros v Hv.
  f_equal. unfold spec_value. destruct (pms_accumulated eapi v) eqn:E.
  - apply accumulates_proof; auto.
  - apply others_final_proof; auto.
Qed.

(* ---- the full statement is false of the faithful model: an eclass that unsets *)
Definition accumulates_full_statement : Prop := forall eapi v p,
  (eapi <= 9)%N -> pms_accumulated eapi v = true -> final_value eapi v p = spec_accumulated eapi v p.

(* EAPI 7:  ebuild: DEPEND="1"; inherit a      a: DEPEND="5"; inherit b      b: unset DEPEND *)
Definition witness_dup : prog :=
  mkprog [A vDEPEND [1%N]; I (mkecls [(1%N, mkprog [A vDEPEND [5%N]; I (mkecls [(2%N, mkprog [U vDEPEND])])])])].
(* EAPI 0:  ebuild: DEPEND="1"; inherit a b    a: unset DEPEND   b: IUSE="9"   -> RDEPEND loses 1 *)
Definition witness_loss : prog :=
  mkprog [A vDEPEND [1%N]; I (mkecls [(1%N, mkprog [U vDEPEND]); (2%N, mkprog [A vIUSE [9%N]])])].

Example witness_dup_values :
  final_value 7 vDEPEND witness_dup = [1;5;5]%N /\ spec_accumulated 7 vDEPEND witness_dup = [1;5]%N.
Proof. split; vm_compute; reflexivity. Qed.
Example witness_loss_values :
  final_value 0 vRDEPEND witness_loss = [] /\ spec_accumulated 0 vRDEPEND witness_loss = [1]%N
  /\ final_value 0 vDEPEND witness_loss = [1]%N.
Proof. repeat split; vm_compute; reflexivity. Qed.

Lemma accumulates_refuted_proof : ~ accumulates_full_statement.
Proof.
  intros H. specialize (H 7%N vDEPEND witness_dup).
  assert (E : final_value 7 vDEPEND witness_dup = spec_accumulated 7 vDEPEND witness_dup).
  { apply H; [lia | reflexivity]. }
  vm_compute in E. discriminate E.
Qed.

(* non-vacuity: a program with nested inherits, values before and after inherit, outside the class *)
Definition sample : prog :=
  mkprog [A vIUSE [1%N]; I (mkecls [(1%N, mkprog [A vIUSE [2%N]; I (mkecls [(2%N, mkprog [A vIUSE [3%N]; A vRESTRICT [7%N]])]);
                                                   P vIUSE [4%N]; A vRESTRICT [8%N]])]);
          P vIUSE [5%N]; A vRESTRICT [9%N]; U vPDEPEND].
Example sample_ok :
  known_class 8 vIUSE sample = false /\ final_value 8 vIUSE sample = [1;5;3;2;4]%N
  /\ final_value 8 vRESTRICT sample = [9;7;8]%N /\ final_value 7 vRESTRICT sample = [9]%N.
Proof. repeat split; vm_compute; reflexivity. Qed.

(* ------------------------------------------------------------------ DEFINED_PHASES *)
Lemma funcs_flatten f :
  (forall o, In f (funcs_op o) <-> In (DefPhase f) (flatten_op o)) /\
  (forall p, In f (funcs_prog p) <-> In (DefPhase f) (flatten p)) /\
  (forall es, In f (funcs_ecls es) <-> In (DefPhase f) (flatten_ecls es)).
Proof.
  apply op_prog_ecls_ind; cbn; intros; try tauto.
  - split; [tauto | intros [H|[]]; discriminate].
  - split; [tauto | intros [H|[]]; discriminate].
  - split; [tauto | intros [H|[]]; discriminate].
  - split; [intros [H|[]]; left; congruence | intros [H|[]]; left; congruence].
  - rewrite !in_app_iff. tauto.
  - rewrite !in_app_iff. tauto.
Qed.

Lemma mem_str_In f l : mem_str f l = true <-> In f l.
Proof.
  unfold mem_str. rewrite existsb_exists. split.
  - intros [g [Hg E]]. apply str_eqb_eq in E. subst. exact Hg.
  - intros H. exists f. split; [exact H | apply str_eqb_refl].
Qed.

Lemma defined_phases_exact_proof : forall eapi p,
  (forall s, In s (defined_phases eapi p) <-> exists f, In (s, f) (phases eapi) /\ defines f p)
  /\ (defined_phases eapi p = [] -> defined_phases_key eapi p = [dash])
  /\ (defined_phases eapi p <> [] -> defined_phases_key eapi p = defined_phases eapi p).
Proof.
  intros eapi p. split; [|split].
  - intros s. unfold defined_phases, defines. rewrite in_map_iff. split.
    + intros [[s' f] [E H]]. cbn in E. subst s'. apply filter_In in H as [H1 H2]. cbn in H2.
      exists f. split; [exact H1|]. apply mem_str_In in H2.
      destruct (funcs_flatten f) as [_ [F _]]. apply F. exact H2.
    + intros [f [H1 H2]]. exists (s, f). split; [reflexivity|]. apply filter_In. split; [exact H1|].
      cbn. apply mem_str_In. destruct (funcs_flatten f) as [_ [F _]]. apply F. exact H2.
  - intros H. unfold defined_phases_key. rewrite H. reflexivity.
  - intros H. unfold defined_phases_key. destruct (defined_phases eapi p); [contradiction|reflexivity].
Qed.

(* table facts used to read the theorem: short names are distinct, none is "-" (checked for
   the regenerated table) *)
Fixpoint nodup_strb (l : list str) : bool :=
  match l with [] => true | x :: r => negb (mem_str x r) && nodup_strb r end.
Lemma phases_table_wf :
  forallb (fun e => nodup_strb (map fst (phases e)) && nodup_strb (map snd (phases e))
                    && negb (mem_str dash (map fst (phases e)))) eapis_upto9 = true.
Proof. vm_compute. reflexivity. Qed.

Example phases_example :
  defined_phases_key 1 (mkprog [F [115;114;99;95;99;111;110;102;105;103;117;114;101]%N]) = [dash]
  /\ defined_phases_key 2 (mkprog [F [115;114;99;95;99;111;110;102;105;103;117;114;101]%N])
     = [[99;111;110;102;105;103;117;114;101]%N].
Proof. split; vm_compute; reflexivity. Qed.
