set -e
R=$(mktemp -d /tmp/c49t_XXXX)
mkdir -p $R/eclass $R/out
printf 'IUSE="t1"\ninherit c0e2\nDEPEND="cat/t2"\n' > $R/eclass/c0e1.eclass
printf 'IUSE="t3"\nsrc_compile() { :; }\n' > $R/eclass/c0e2.eclass
printf 'EAPI=7\nIUSE="t5"\ninherit c0e1\nSLOT="t6"\n' > $R/p.ebuild
/venv/bin/python - "$R" <<'PY'
import sys,re
sys.path.insert(0,'/verif')
from harness import c49
open(sys.argv[1]+'/driver.bash','w').write(c49.DRIVER)
PY
for i in 0 1 2 3 4 5 6 7 8 9; do printf '%s\t7\tfalse\ttrue\t4.2\t%s\tIUSE DEPEND SLOT DEFINED_PHASES INHERITED INHERIT EAPI\tsrc_compile pkg_setup src_install\n' $i $R/p.ebuild; done > $R/list.tsv
time bash $R/driver.bash /repo/data/lib/pkgcore/ebd $R/eclass $R/list.tsv $R/out
cat $R/out/0.out; cat $R/out/stderr.log | head
rm -rf $R
