import sys, os, time, subprocess
sys.path.insert(0,"/verif")
from harness import c47, common, fsx
kind = sys.argv[1]; seed = sys.argv[2] if len(sys.argv)>2 else "0"
os.environ["VERIF_SEED"]=seed
chk = common.Check("C47")
import pkgcore.sync.tar
work = str(chk.scratch/"c47"); os.makedirs(work); spool=work+"/spool"; os.mkdir(spool); root=work+"/root"
proc, port = c47.start_server(spool)
try:
    case = c47.gen_case(chk.rng, kind)
    if os.environ.get("CHUNK"): case["chunk"]=int(os.environ["CHUNK"])
    t=time.time()
    res = c47.run_case_real(chk, case, 0, port, spool, root, int(os.environ.get("MAXP","12")))
    print("time", time.time()-t, "tags", res["tags"], "code", res["ref"]["code"], res["ref"]["detail"])
    print(c47.short_case(case))
    for c in res["ref"]["trace"]: print("   ", c[:3])
    it = c47.Interner()
    pts = [c47.render_point(pt, it) for pt in res["points"] if "error" not in pt]
    for j,pt in enumerate(res["points"]): print({k:v for k,v in pt["st"].items() if k in ("tf","dl")}, j, pt["k"], pt["mid"], pt["call"], pt["f"], pt["out2"], pt["detail2"], c47.point_code(res, pt, c47.members_tree(case["srv2"]["members"])) if c47.recoverable(case) else "-")
    term = c47.render_case(res, pts, it)
    v = f"{c47.IMPORTS}\nImport ListNotations.\n{c47.PREAMBLE}\nDefinition c : case := {term}.\nEval vm_compute in (run_case c).\nEval vm_compute in (map step_tag (fst (sync (c_fixed c) (c_force c) (c_srv c) (c_tar c) (c_chunk c) (c_s0 c))), point_codes c, final_code c).\n"
    open("/verif/chk.scratch/c47/dbgcase_%d.v" % os.getpid() + "","w").write(v)
    r = subprocess.run(["timeout","300","coqc","-R","/verif/coq","Verif","-Q","/verif/chk.scratch/c47","Scratch","/verif/chk.scratch/c47/dbgcase_%d.v" % os.getpid() + ""],capture_output=True,text=True)
    print(r.stdout[-1500:], r.stderr[-1500:])
finally:
    proc.terminate()
    import shutil; shutil.rmtree(chk.scratch)
