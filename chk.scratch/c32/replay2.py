import os, sys, tempfile, shutil
from pkgcore.ebuild import ebd_ipc
from pkgcore.test.misc import FakePkg
class Obs:
    def __init__(self): self.msgs=[]
    def warn(self,m): self.msgs.append(("warn",m))
    def write(self,m,**kw): self.msgs.append(("write",m))
    def info(self,m): self.msgs.append(("info",m))
    def flush(self): pass
class Op:
    def __init__(self,pkg,ED,env):
        self.pkg=pkg; self.ED=ED; self.observer=Obs(); self.env=env; self.userpriv=False
class Ebd:
    def __init__(self, lines): self.lines=list(lines); self.out=[]
    def read(self): return self.lines.pop(0)+"\n"
    def write(self,d): self.out.append(d)
top=tempfile.mkdtemp(prefix="c32r_")
src=os.path.join(top,"src"); os.makedirs(src); ED=os.path.join(top,"image")+"/"; os.makedirs(ED)
open(os.path.join(src,"bad.patch"),"w").write("--- a/x\n+++ b/x\n@@ -1 +1 @@\n-foo\n+bar\n")
open(os.path.join(src,"corrupt.tar"),"w").write("this is not a tar archive\n"*30)
pkg=FakePkg("cat/pn-1.0",eapi="7",slot="0")
def call(cls, nonfatal, opts, args):
    op = Op(pkg,ED,{"DISTDIR":src,"T":top})
    cmd = cls(op)
    ebd=Ebd(["true" if nonfatal else "false", src, "prepare", opts, "\0".join(args)+"\0"])
    try:
        cmd(ebd); r=("reply", ebd.out)
    except ebd_ipc.IpcError as e:
        r=(type(e).__name__, e.ret, repr(e.__cause__))
    os.chdir("/")
    return r
print("eapply failing patch nonfatal:", call(ebd_ipc.Eapply, True, "", ["bad.patch"]))
print("eapply failing patch fatal:", call(ebd_ipc.Eapply, False, "", ["bad.patch"]))
print("unpack corrupt tar nonfatal:", call(ebd_ipc.Unpack, True, "", ["corrupt.tar"]))
shutil.rmtree(top)
