import os, hashlib, tempfile, shutil
from pkgcore.ebuild import domain as domain_mod, profiles, repository as ebuild_repo
from pkgcore.ebuild.repo_objs import RepoConfig
from pkgcore.cache.flat_hash import md5_cache
class Ref:
    name="tr"
    def __init__(s,r): s.r=r
    def instantiate(s): return s.r
def build(files, pkgs, prof="base", **settings):
    d = tempfile.mkdtemp(prefix="c13x")
    def w(p, s):
        p = os.path.join(d, p); os.makedirs(os.path.dirname(p), exist_ok=True); open(p, "w").write(s)
    w("repo/profiles/repo_name", "tr\n")
    w("repo/metadata/layout.conf", "masters =\ncache-formats = md5-dict\n")
    w("repo/profiles/categories", "ca\ncb\n")
    os.makedirs(os.path.join(d,"conf"))
    for k,v in files.items(): w(k,v)
    for c,p,v,kw,lic,slot in pkgs:
        eb = 'EAPI=8\nSLOT="%s"\nKEYWORDS="%s"\nLICENSE="%s"\nIUSE="f1 f2"\n' % (slot,kw,lic)
        w(f"repo/{c}/{p}/{p}-{v}.ebuild", eb)
        md5 = hashlib.md5(eb.encode()).hexdigest()
        w(f"repo/metadata/md5-cache/{c}/{p}-{v}", f"DEFINED_PHASES=-\nEAPI=8\nIUSE=f1 f2\nKEYWORDS={kw}\nLICENSE={lic}\nSLOT={slot}\n_md5_={md5}\n")
    rc = RepoConfig(os.path.join(d,"repo"))
    repo = ebuild_repo.UnconfiguredTree(rc.location, repo_config=rc, cache=(md5_cache(os.path.join(d,"repo")),))
    pr = profiles.OnDiskProfile(os.path.join(d,"repo/profiles"), prof)
    dom = domain_mod.domain(pr, [Ref(repo)], [], ROOT=os.path.join(d,"root"), config_dir=os.path.join(d,"conf"), CHOST="x", DISTDIR=d, **settings)
    return d, repo, dom
def vis(files, pkgs, **kw):
    d, repo, dom = build(files, pkgs, **kw)
    try:
        return sorted(p.cpvstr for p in dom._wrap_repo(repo))
    finally:
        shutil.rmtree(d)
