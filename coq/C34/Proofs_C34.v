(* Proofs_C34.v — the top-level loop of the scanner and the theorems of C34. *)
From Coq Require Import List NArith ZArith Bool Lia.
Import ListNotations.
From Verif Require Import Base.Val C34.Model_C34 C34.Spec_C34 C34.Lemmas_C34.
Local Open Scope N_scope.

Definition dropf (vm fm : option (str -> bool)) (d : def) : bool :=
  match d with
  | Assign n _ => match vm with Some f => f n | None => false end
  | Func n _ _ => match fm with Some f => f n | None => false end
  end.
Definition expected (vm fm : option (str -> bool)) (ds : list def) : str :=
  flat_map (fun d => (if dropf vm fm d then [] else render_def d) ++ [cNL]) ds.

Section Top.
Variable g : str.

(* what one iteration of the top-level loop does with a whole definition *)
Definition STEP (d : def) : Prop :=
  forall n p T' ws we out vm fm, (n > 3 * length (render_def d) + 2)%nat ->
  process_scope g (S n) (mkcur p (render_def d ++ cNL :: T')) cNUL vm fm ws we out =
  process_scope g n (mkcur (lastp p (render_def d)) (cNL :: T')) cNUL vm fm
    (match we with Some _ => render_def d ++ cNL :: T' | None => ws end)
    (if dropf vm fm d then Some (render_def d ++ cNL :: T') else None)
    (match we with Some e => out ++ slice ws e | None => out end).

Lemma STEP_assign n v : var_name_ok n = true -> value_ok v = true ->
  (forall m p rest endc, (m > 3 * length (render_value v) + 2)%nat ->
     env_value g m (mkcur p (render_value v ++ cNL :: rest)) endc
     = Ok (mkcur (lastp p (render_value v)) (cNL :: rest))) ->
  STEP (Assign n v).
Proof.
  intros Hn Hv EVv m p T' ws we out vm fm Hm.
  cbn [render_def] in *. rewrite !app_length in Hm. cbn [length] in Hm.
  assert (Hn' := Hn). unfold var_name_ok in Hn'. apply andb_true_iff in Hn' as [Hn' _].
  apply andb_true_iff in Hn' as [Hne Hid].
  destruct n as [|c n]; [discriminate|]. cbn [forallb] in Hid. apply andb_true_iff in Hid as [Hc _].
  destruct (ident_facts c Hc) as (Hsp&_&_&_&_&Hh&Hz).
  replace (((c :: n) ++ [cEQ] ++ render_value v) ++ cNL :: T')
    with ((c :: n) ++ cEQ :: (render_value v ++ cNL :: T'))
    by (rewrite <- !app_assoc; reflexivity).
  rewrite process_scope_S. cbn [suf app]. rewrite Hz, Hsp, Hh.
  change (c :: n ++ cEQ :: render_value v ++ cNL :: T') with ((c :: n) ++ cEQ :: render_value v ++ cNL :: T').
  rewrite is_function_assign by assumption. rewrite is_envvar_assign by assumption.
  cbn [suf]. destruct (render_value v ++ cNL :: T') eqn:E; [destruct (render_value v); discriminate|].
  rewrite <- E. rewrite EVv by lia. cbn [bind dropf].
  match goal with
  | |- process_scope _ _ ?c1 _ _ _ _ ?w1 _ = process_scope _ _ ?c2 _ _ _ _ ?w2 _ =>
      assert (E1 : c1 = c2); [|assert (E2 : w1 = w2); [|rewrite E1, E2; reflexivity]]
  end.
  - f_equal. unfold lastp. cbn [app fold_left]. rewrite ?fold_left_app. cbn [fold_left]. reflexivity.
  - try (destruct vm as [fv|]; [destruct (fv _)|]; reflexivity);
    try (destruct fm as [ff|]; [destruct (ff _)|]; reflexivity).
Qed.

Lemma STEP_func n lead b : func_name_ok n = true -> forallb isspace lead = true -> body_ok b = true ->
  STEP (Func n lead b).
Proof.
  intros Hn Hl Hb m p T' ws we out vm fm Hm.
  cbn [render_def] in *. rewrite !app_length in Hm. cbn [length] in Hm.
  assert (Hn' := Hn). unfold func_name_ok in Hn'. apply andb_true_iff in Hn' as [Hn' _].
  apply andb_true_iff in Hn' as [Hne Hid].
  destruct n as [|c n]; [discriminate|]. cbn [forallb] in Hid. apply andb_true_iff in Hid as [Hc _].
  destruct (fname_facts c Hc) as (Hsp&_&_&Hh&Hz).
  replace ((func_head (c :: n) ++ lead ++ render_body b ++ [cRB]) ++ cNL :: T')
    with (func_head (c :: n) ++ (lead ++ render_body b ++ cRB :: cNL :: T'))
    by (rewrite <- !app_assoc; reflexivity).
  rewrite process_scope_S.
  assert (Ehd : suf (mkcur p (func_head (c :: n) ++ lead ++ render_body b ++ cRB :: cNL :: T'))
                = c :: (n ++ [cSP; cLP; cRP; cSP; cNL; cLB]) ++ lead ++ render_body b ++ cRB :: cNL :: T')
    by reflexivity.
  rewrite Ehd. rewrite Hz, Hsp, Hh. rewrite is_function_head by assumption.
  cbn [suf].
  replace m with (length lead + (m - length lead))%nat at 1 by (unfold func_head in Hm; rewrite app_length in Hm; lia).
  rewrite ps_ws by (assumption || reflexivity).
  destruct (PB g b (m - length lead)%nat (lastp (Some cLB) lead) (cNL :: T')
              (lead ++ render_body b ++ cRB :: cNL :: T') [] Hb
              ltac:(unfold func_head in Hm; rewrite app_length in Hm; lia)) as [o Ho].
  rewrite Ho. cbn [bind fst]. rewrite adv1_cons. cbn [dropf].
  match goal with
  | |- process_scope _ _ ?c1 _ _ _ _ ?w1 _ = process_scope _ _ ?c2 _ _ _ _ ?w2 _ =>
      assert (E1 : c1 = c2); [|assert (E2 : w1 = w2); [|rewrite E1, E2; reflexivity]]
  end.
  - f_equal. unfold lastp. cbn [app fold_left]. rewrite ?fold_left_app. cbn [fold_left]. reflexivity.
  - try (destruct vm as [fv|]; [destruct (fv _)|]; reflexivity);
    try (destruct fm as [ff|]; [destruct (ff _)|]; reflexivity).
Qed.

(* the newline after a definition *)
Lemma ps_newline n q T' vm fm ws we out :
  process_scope g (S n) (mkcur q (cNL :: T')) cNUL vm fm ws we out =
  process_scope g n (mkcur (Some cNL) T') cNUL vm fm
    (match we with Some _ => cNL :: T' | None => ws end) None
    (match we with Some e => out ++ slice ws e | None => out end).
Proof. rewrite process_scope_S. reflexivity. Qed.

Lemma render_cons d ds : render (d :: ds) = render_def d ++ cNL :: render ds.
Proof. unfold render. cbn [flat_map]. rewrite <- app_assoc. reflexivity. Qed.


Definition out_of (r : res (cur * str)) : option str :=
  match r with Ok (_, o) => Some o | _ => None end.

Lemma TL ds : Forall STEP ds ->
  forall n p ws we out A vm fm,
  ws = A ++ (match we with Some e => e | None => render ds ++ [cNUL] end) ->
  (n > 3 * length (render ds ++ [cNUL]))%nat ->
  out_of (process_scope g n (mkcur p (render ds ++ [cNUL])) cNUL vm fm ws we out)
  = Some (out ++ A ++ expected vm fm ds).
Proof.
  induction 1 as [|d ds Hd _ IH]; intros n p ws we out A vm fm Hws Hn.
  - destruct n as [|n]; [cbn in Hn; lia|]. rewrite process_scope_S. cbn [render flat_map app suf].
    change (cNUL =? cNUL) with true. cbn iota. cbn [out_of]. f_equal. f_equal.
    subst ws. destruct we; cbn [expected flat_map]; rewrite slice_app; now rewrite app_nil_r.
  - rewrite render_cons in *. rewrite <- app_assoc in *. cbn [app] in *.
    rewrite app_length in Hn. cbn [length] in Hn.
    assert (HL : (length (render ds ++ [cNUL]) >= 1)%nat) by (rewrite app_length; cbn; lia).
    destruct n as [|n]; [lia|]. rewrite Hd by lia.
    destruct n as [|n]; [lia|]. rewrite ps_newline.
    set (T' := render ds ++ [cNUL]) in *.
    set (X := render_def d) in *.
    cbn [expected flat_map]. fold (expected vm fm ds).
    destruct (dropf vm fm d); cbv iota.
    + (* dropped: the window is closed at the start of the definition *)
      erewrite (IH _ _ _ _ _ [cNL] _ _); [|reflexivity|lia].
      f_equal. subst ws.
      destruct we; rewrite ?slice_app, ?slice_self; cbn [app]; rewrite ?app_nil_r, <- ?app_assoc; reflexivity.
    + (* kept: the window goes on *)
      destruct we as [e|].
      * erewrite (IH _ _ _ _ _ (X ++ [cNL]) _ _); [|rewrite <- app_assoc; reflexivity|lia].
        f_equal. subst ws. rewrite slice_app. rewrite <- !app_assoc. reflexivity.
      * erewrite (IH _ _ _ _ _ (A ++ X ++ [cNL]) _ _); [|subst ws; rewrite <- !app_assoc; reflexivity|lia].
        f_equal. rewrite <- !app_assoc. reflexivity.
Qed.
End Top.

(* ---------------------------------------------------------------- array values *)
Definition seg_tok (v : vseg) : list tok :=
  match v with VDq s => [TDq s] | VAnsi s => [TAnsi s] | _ => [] end.
Definition elem_toks (e : str * list vseg) : list tok :=
  TLit 91 :: map TLit (fst e) ++ [TLit 93; TLit cEQ] ++ flat_map seg_tok (snd e).
Fixpoint elems_toks (l : list (str * list vseg)) : list tok :=
  match l with
  | [] => []
  | e :: r => match r with [] => elem_toks e | _ :: _ => elem_toks e ++ TLit cSP :: elems_toks r end
  end.

Lemma render_toks_app a b : render_toks (a ++ b) = render_toks a ++ render_toks b.
Proof. unfold render_toks. apply flat_map_app. Qed.
Lemma render_map_lit s : render_toks (map TLit s) = s.
Proof. induction s as [|c s IH]; [reflexivity|]. cbn. f_equal. exact IH. Qed.
Lemma render_seg_toks l : forallb elem_seg_ok l = true -> render_toks (flat_map seg_tok l) = render_vsegs l.
Proof.
  induction l as [|v l IH]; [reflexivity|]. cbn [forallb]. intros H. apply andb_true_iff in H as [H1 H2].
  cbn [flat_map]. rewrite render_toks_app, IH by assumption.
  destruct v; try discriminate; cbn; rewrite ?app_nil_r; reflexivity.
Qed.
Lemma ok_seg_toks l : forallb elem_seg_ok l = true -> forallb (tok_ok true) (flat_map seg_tok l) = true.
Proof.
  induction l as [|v l IH]; [reflexivity|]. cbn [forallb]. intros H. apply andb_true_iff in H as [H1 H2].
  cbn [flat_map]. rewrite forallb_app, IH by assumption.
  destruct v; try discriminate; cbn [seg_tok forallb tok_ok elem_seg_ok vseg_ok] in *; rewrite H1; reflexivity.
Qed.
Lemma ident_lit c : is_ident c = true -> tok_ok true (TLit c) = true.
Proof.
  intros H. cbn [tok_ok]. apply orb_true_iff. left. unfold lit_char, mem. cbn [existsb].
  ctest H; reflexivity.
Qed.

Definition simple_tok (t : tok) : bool :=
  match t with TLit _ | TDq _ | TAnsi _ => true | _ => false end.
Lemma simple_follow l : forallb simple_tok l = true -> forallb deep_follow l = true /\ follows l = true.
Proof.
  induction l as [|t l IH]; [split; reflexivity|]. cbn [forallb follows]. intros H.
  apply andb_true_iff in H as [H1 H2]. destruct (IH H2) as [A B]. rewrite A, B.
  destruct t; try discriminate H1; split; reflexivity.
Qed.
Lemma simple_seg_toks l : forallb simple_tok (flat_map seg_tok l) = true.
Proof.
  induction l as [|v l IH]; [reflexivity|]. cbn [flat_map]. rewrite forallb_app, IH.
  destruct v; reflexivity.
Qed.
Lemma simple_map_lit s : forallb simple_tok (map TLit s) = true.
Proof. induction s; [reflexivity|]. cbn. assumption. Qed.
Lemma simple_elem_toks e : forallb simple_tok (elem_toks e) = true.
Proof.
  unfold elem_toks. cbn [forallb simple_tok]. rewrite !forallb_app, simple_map_lit, simple_seg_toks. reflexivity.
Qed.
Lemma simple_elems_toks l : forallb simple_tok (elems_toks l) = true.
Proof.
  induction l as [|e l IH]; [reflexivity|]. destruct l as [|e2 l]; [apply simple_elem_toks|].
  change (elems_toks (e :: e2 :: l)) with (elem_toks e ++ TLit cSP :: elems_toks (e2 :: l)).
  rewrite forallb_app, simple_elem_toks. cbn [forallb simple_tok]. exact IH.
Qed.

Definition elem_ok (e : str * list vseg) : bool := forallb idx_char (fst e) && forallb elem_seg_ok (snd e).

Lemma elem_toks_spec e : elem_ok e = true ->
  render_toks (elem_toks e) = [91] ++ fst e ++ [93; cEQ] ++ render_vsegs (snd e)
  /\ forallb (tok_ok true) (elem_toks e) = true.
Proof.
  unfold elem_ok. intros H. apply andb_true_iff in H as [Hi Hs]. unfold elem_toks. split.
  - change (TLit 91 :: map TLit (fst e) ++ [TLit 93; TLit cEQ] ++ flat_map seg_tok (snd e))
      with ([TLit 91] ++ map TLit (fst e) ++ [TLit 93; TLit cEQ] ++ flat_map seg_tok (snd e)).
    rewrite !render_toks_app, render_map_lit, render_seg_toks by assumption. reflexivity.
  - cbn [forallb]. rewrite !forallb_app. rewrite ok_seg_toks by assumption.
    assert (forallb (tok_ok true) (map TLit (fst e)) = true) as ->.
    { clear -Hi. induction (fst e) as [|c s IH]; [reflexivity|]. cbn [forallb map] in *.
      apply andb_true_iff in Hi as [H1 H2]. rewrite ident_lit by assumption. now apply IH. }
    reflexivity.
Qed.

Lemma elems_toks_spec l : forallb elem_ok l = true ->
  render_toks (elems_toks l) = render_elems l /\ forallb (tok_ok true) (elems_toks l) = true.
Proof.
  induction l as [|[i e] l IH]; [split; reflexivity|].
  cbn [forallb]. intros H. apply andb_true_iff in H as [H1 H2].
  destruct (elem_toks_spec (i, e) H1) as [R O]. cbn [fst snd] in R.
  destruct l as [|e2 l].
  - cbn [elems_toks render_elems]. split; assumption.
  - destruct (IH H2) as [R2 O2].
    change (elems_toks ((i, e) :: e2 :: l)) with (elem_toks (i, e) ++ TLit cSP :: elems_toks (e2 :: l)).
    change (render_elems ((i, e) :: e2 :: l))
      with ([91] ++ i ++ [93; cEQ] ++ render_vsegs e ++ [cSP] ++ render_elems (e2 :: l)).
    split.
    + rewrite render_toks_app, R. change (TLit cSP :: elems_toks (e2 :: l)) with ([TLit cSP] ++ elems_toks (e2 :: l)).
      rewrite render_toks_app, R2. rewrite <- !app_assoc. reflexivity.
    + rewrite forallb_app, O. cbn [forallb]. rewrite O2. reflexivity.
Qed.

Section Main.
Variable g : str.

Lemma VAL v : value_ok v = true ->
  forall m p rest endc, (m > 3 * length (render_value v) + 2)%nat ->
  env_value g m (mkcur p (render_value v ++ cNL :: rest)) endc
  = Ok (mkcur (lastp p (render_value v)) (cNL :: rest)).
Proof.
  intros Hv m p rest endc Hm. destruct v as [l|l]; cbn [render_value value_ok] in *.
  - apply EV; [assumption|lia].
  - destruct (elems_toks_spec l Hv) as [R O]. rewrite <- R in *.
    rewrite !app_length in Hm. cbn [length] in Hm.
    destruct m as [|m]; [lia|].
    replace (([cLP] ++ render_toks (elems_toks l) ++ [cRP]) ++ cNL :: rest)
      with (cLP :: (render_toks (elems_toks l) ++ cRP :: cNL :: rest))
      by (cbn; rewrite <- !app_assoc; reflexivity).
    rewrite env_value_S. cbn [suf]. cbn -[walk_escaped env_value]. rewrite ?adv1_cons.
    destruct (simple_follow _ (simple_elems_toks l)) as [DF FW].
    rewrite (WEc_all g _ O DF FW) by (auto || lia). cbn [bind]. rewrite adv1_cons.
    rewrite env_value_nl by lia. lastp_norm.
Qed.

Lemma def_STEP d : def_ok d = true -> STEP g d.
Proof.
  destruct d as [n v|n lead b]; cbn [def_ok]; intros H.
  - apply andb_true_iff in H as [H1 H2]. apply STEP_assign; auto. now apply VAL.
  - apply andb_true_iff in H as [H H3]. apply andb_true_iff in H as [H1 H2]. now apply STEP_func.
Qed.
End Main.

(* ---------------------------------------------------------------- the name lists *)
Lemma build_match_spec names wl :
  names_ok names = true ->
  exists m, build_match names wl = match names with [] => None | _ => Some (Some m) end
            /\ forall n, (match names with [] => false | _ => m n end) = dropped names wl n.
Proof.
  intros H. destruct names as [|a names]; [exists (fun _ => false); split; reflexivity|].
  unfold names_ok in H. unfold build_match.
  destruct (filter nonempty (a :: names)) as [|t ts] eqn:E.
  - exfalso. apply existsb_exists in H as (x & Hin & Hx).
    assert (In x (filter nonempty (a :: names))) by (apply filter_In; auto). rewrite E in H. destruct H.
  - exists (fun name => xorb wl (str_mem name (t :: ts))). split; [reflexivity|].
    intros n. unfold dropped. rewrite E. reflexivity.
Qed.

Lemma expected_filtered vars funcs vwl fwl vm fm ds :
  (forall n, (match vm with Some f => f n | None => false end) = dropped vars vwl n) ->
  (forall n, (match fm with Some f => f n | None => false end) = dropped funcs fwl n) ->
  expected vm fm ds = render_filtered vars funcs vwl fwl ds.
Proof.
  intros Hv Hf. unfold expected, render_filtered. apply flat_map_ext. intros d.
  destruct d as [n v|n l b]; cbn [dropf drop_def is_func def_name]; now rewrite ?Hv, ?Hf.
Qed.

Lemma run_buf_filtered ds vars funcs vwl fwl vm fm :
  forallb def_ok ds = true ->
  (forall n, (match vm with Some f => f n | None => false end) = dropped vars vwl n) ->
  (forall n, (match fm with Some f => f n | None => false end) = dropped funcs fwl n) ->
  run_buf (render ds ++ [cNUL]) vm fm = Ok (render_filtered vars funcs vwl fwl ds).
Proof.
  intros Hd Hvm Hfm.
  assert (HS : Forall (STEP (render ds ++ [cNUL])) ds).
  { apply Forall_forall. intros d Hin. apply def_STEP. rewrite forallb_forall in Hd. now apply Hd. }
  unfold run_buf.
  match goal with
  | |- bind ?Q _ = _ =>
      assert (T : out_of Q = Some ([] ++ [] ++ expected vm fm ds))
        by (apply (TL (render ds ++ [cNUL]) ds HS); [reflexivity | unfold fuel_of; lia]);
      destruct Q as [[c o]| |]
  end; cbn [out_of] in T; try discriminate T.
  rewrite (expected_filtered vars funcs vwl fwl vm fm ds Hvm Hfm) in T. cbn [app] in T.
  inversion T; subst. reflexivity.
Qed.

(* filter (render ds) = render-with-gaps (filter_ast ds), blacklist and whitelist mode alike *)
Theorem filter_commutes_proof : forall ds vars funcs vwl fwl,
  forallb def_ok ds = true -> names_ok vars = true -> names_ok funcs = true ->
  main_run (render ds) vars funcs vwl fwl = MOut (render_filtered vars funcs vwl fwl ds).
Proof.
  intros ds vars funcs vwl fwl Hd Hv Hf. unfold main_run.
  destruct (build_match_spec vars vwl Hv) as (mv & Ev & Sv).
  destruct (build_match_spec funcs fwl Hf) as (mf & Ef & Sf).
  rewrite Ev, Ef. clear Ev Ef.
  destruct vars as [|v0 vars], funcs as [|f0 funcs]; cbv iota;
    erewrite run_buf_filtered; try reflexivity; try assumption; intros n; cbv iota beta;
    first [exact (Sv n) | exact (Sf n) | reflexivity].
Qed.

(* ---------------------------------------------------------------- corollaries *)
Theorem never_out_of_fuel_partial_proof : forall ds vars funcs vwl fwl,
  forallb def_ok ds = true -> names_ok vars = true -> names_ok funcs = true ->
  main_run (render ds) vars funcs vwl fwl <> MFuel /\ main_run (render ds) vars funcs vwl fwl <> MIndex.
Proof.
  intros. rewrite filter_commutes_proof by assumption. split; discriminate.
Qed.

(* the output consists of whole rendered definitions and newline separators only, in order *)
Theorem no_stray_bytes_proof : forall ds vars funcs vwl fwl,
  forallb def_ok ds = true -> names_ok vars = true -> names_ok funcs = true ->
  exists keep : list bool,
    length keep = length ds /\
    main_run (render ds) vars funcs vwl fwl
    = MOut (flat_map (fun kd : bool * def => (if fst kd then render_def (snd kd) else []) ++ [cNL]) (combine keep ds))
    /\ forall i d, nth_error ds i = Some d ->
         nth_error keep i = Some (negb (drop_def vars funcs vwl fwl d)).
Proof.
  intros ds vars funcs vwl fwl Hd Hv Hf.
  exists (map (fun d => negb (drop_def vars funcs vwl fwl d)) ds).
  split; [apply map_length|]. split.
  - rewrite filter_commutes_proof by assumption. f_equal. unfold render_filtered.
    clear. induction ds as [|d ds IH]; [reflexivity|]. cbn [map combine flat_map fst snd].
    rewrite IH. destruct (drop_def vars funcs vwl fwl d); reflexivity.
  - intros i d Hi. rewrite nth_error_map, Hi. reflexivity.
Qed.

(* the relation to filter_ast: the output is render (filter_ast ds) with one extra newline where a
   definition was dropped *)
Lemma render_filter_ast_proof vars funcs vwl fwl ds :
  render (filter_ast vars funcs vwl fwl ds)
  = flat_map (fun d => if drop_def vars funcs vwl fwl d then [] else render_def d ++ [cNL]) ds
  /\ render_filtered vars funcs vwl fwl ds
  = flat_map (fun d => if drop_def vars funcs vwl fwl d then [cNL] else render_def d ++ [cNL]) ds.
Proof.
  split.
  - unfold render, filter_ast. induction ds as [|d ds IH]; [reflexivity|]. cbn [filter flat_map].
    destruct (drop_def vars funcs vwl fwl d); cbn [negb flat_map]; now rewrite IH.
  - unfold render_filtered. apply flat_map_ext. intros d. destruct (drop_def vars funcs vwl fwl d); reflexivity.
Qed.

(* ---------------------------------------------------------------- non-vacuity *)
Definition s_ (l : list N) : str := l.
(*  FOO=a'b c'\''d'  A=([0]="x y" [1]=$'p\nq')  f () { echo "}" '{' ${x%y}; { echo a; }; }  *)
Definition ex_defs : list def :=
  [ Assign [70;79;79] (QScalar [VBare [97]; VSq [98;32;99]; VEsc 39; VSq [100]]);
    Assign [65] (QArray [([48], [VDq [(false,120);(false,32);(false,121)]]);
                         ([49], [VAnsi [(false,112);(true,110);(false,113)]])]);
    Func [102] [32;10;32;32;32;32]
      [ {| s_toks := [TLit 101;TLit 99;TLit 104;TLit 111;TLit 32;TDq [(false,125)];TLit 32;TSq [123];TLit 32;
                      TPE [120;37;121]];
           s_sep := 59; s_ws := [10;32;32;32;32] |};
        {| s_toks := [TBr [TLit 32;TLit 10;TLit 101;TLit 99;TLit 104;TLit 111;TLit 32;TLit 97;TLit 10;TLit 32]];
           s_sep := 10; s_ws := [] |} ] ].

(*  g () { case $x in a) echo "$y/${z}" $((1+(2))) $(ls $d/'a )') <<< "$(pwd)" ;; esac; }  as bash lays it out *)
Definition ex_defs2 : list def :=
  [ Func [103] [32;10;32;32;32;32]
      [ {| s_toks := [TLit 99;TLit 97;TLit 115;TLit 101;TLit 32;TVar [120];TLit 32;TLit 105;TLit 110;TLit 32];
           s_sep := 10; s_ws := [32;32;32;32] |};
        {| s_toks := [TLit 97;TLit 41]; s_sep := 10; s_ws := [32;32;32;32] |};
        {| s_toks := [TLit 101;TLit 99;TLit 104;TLit 111;TLit 32;
                      TDqx [TVar [121];TLit 47;TPE [122]];TLit 32;
                      TArith [TLit 49;TLit 43;TPar [TLit 50]];TLit 32;
                      TSub [TLit 108;TLit 115;TLit 32;TVar [100];TLit 47;TSq [97;32;41]];TLit 32;THs;TLit 32;
                      TDqx [TSub [TLit 112;TLit 119;TLit 100]]];
           s_sep := 10; s_ws := [32;32;32;32] |};
        {| s_toks := []; s_sep := 59; s_ws := [] |};
        {| s_toks := []; s_sep := 59; s_ws := [10;32;32;32;32] |};
        {| s_toks := [TLit 101;TLit 115;TLit 97;TLit 99]; s_sep := 10; s_ws := [] |} ] ].
Example ex_defs2_ok : forallb def_ok ex_defs2 = true.
Proof. vm_compute. reflexivity. Qed.
Example ex_defs2_filter : main_run (render ex_defs2) [] [[103]] false false = MOut [10].
Proof. vm_compute. reflexivity. Qed.

Example ex_defs_ok : forallb def_ok ex_defs = true.
Proof. vm_compute. reflexivity. Qed.
Example ex_filter_blacklist :
  main_run (render ex_defs) [[70;79;79]] [[102]] false false = MOut [10; 65;61;40;91;48;93;61;34;120;32;121;34;32;91;49;93;61;36;39;112;92;110;113;39;41;10; 10].
Proof. vm_compute. reflexivity. Qed.
Example ex_filter_whitelist :
  main_run (render ex_defs) [[70;79;79]] [] true false
  = MOut (render_filtered [[70;79;79]] [] true false ex_defs).
Proof. vm_compute. reflexivity. Qed.

(* ---------------------------------------------------------------- where the scanner fails *)
(* A dump bash itself prints (checked against real bash by the harness, corpus/C34/witness.json):
     f ()                      bash source:  f() { { echo }; }; }
     {
         {
             echo }
         }
     }
     Z=1
   Filtering out f leaves a stray "}" line: the literal "}" word closes the group early. *)
Definition witness_f : str :=
  [102;32;40;41;32;10;123;32;10;32;32;32;32;123;32;10;32;32;32;32;32;32;32;32;101;99;104;111;32;125;10;
   32;32;32;32;125;10;125;10].
Definition witness_input : dump_input :=
  (([((true, [102]), witness_f); ((false, [90]), [90;61;49;10])], @nil str, [[102]]), (false, false)).

Theorem filter_commutes_refuted_proof :
  spec_dump_ok witness_input (run_dump witness_input) = false
  /\ run_dump witness_input = digest [10;125;10;90;61;49;10].
Proof. vm_compute. split; reflexivity. Qed.

(* the here-document with an empty delimiter (an infinite loop before the repair
   "buff.find(here_word, end_here + max(here_len, 1))"): the function is found and removed *)
Theorem empty_heredoc_delimiter_proof :
  main_run [102;32;40;41;32;10;123;32;10;32;32;32;32;99;97;116;32;60;60;39;39;10;120;10;10;125;10]
           [] [[102]] false false = MOut [10].
Proof. vm_compute. reflexivity. Qed.

(* ---------------------------------------------------------------- the full statement and its refutation *)
(* the property for EVERY dump AST (no restriction on the token trees of function bodies) *)
Definition filter_commutes_full : Prop :=
  forall ds vars funcs vwl fwl, names_ok vars = true -> names_ok funcs = true ->
  main_run (render ds) vars funcs vwl fwl = MOut (render_filtered vars funcs vwl fwl ds).

Definition witness_defs : list def :=
  [ Func [102] [32;10;32;32;32;32]
      [ {| s_toks := [TBr [TLit 32;TLit 10;TLit 32;TLit 32;TLit 32;TLit 32;TLit 32;TLit 32;TLit 32;TLit 32;
                           TLit 101;TLit 99;TLit 104;TLit 111;TLit 32;TLit 125;TLit 10;TLit 32;TLit 32;TLit 32;TLit 32]];
           s_sep := 10; s_ws := [] |} ];
    Assign [90] (QScalar [VBare [49]]) ].

Example witness_defs_render : render witness_defs = witness_f ++ [90;61;49;10].
Proof. vm_compute. reflexivity. Qed.
Example witness_defs_not_ok : forallb def_ok witness_defs = false.
Proof. vm_compute. reflexivity. Qed.

Theorem filter_commutes_refuted_ast_proof : ~ filter_commutes_full.
Proof.
  intros F. specialize (F witness_defs [] [[102]] false false eq_refl eq_refl).
  vm_compute in F. discriminate F.
Qed.
