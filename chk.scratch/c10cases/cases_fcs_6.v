From Coq Require Import List NArith ZArith Bool.
From Verif Require Import Base.Val C10.Model_C10 C10.Spec_C10.
Import ListNotations.

Definition cases : list ((fcs_input) * val) := 
[
  (([(Grp KOr false [(Cond false 0%N [(Flag false true [0%N])]); (Flag true false [0%N]); (Flag false false [0%N])])], ([0%N; 5%N], [5%N], (@nil (N)), (@nil (N)))),
   (VErr [65;115;115;101;114;116;105;111;110;69;114;114;111;114]%N));
  (([(Cond true 0%N [(Cond true 0%N [(Grp KOr false [(Flag false false [0%N])]); (Grp KOne false [(Flag false false [0%N]); (Flag false false (@nil (N))); (Flag false false [0%N])]); (Grp KOr false [(Flag false false [0%N]); (Flag true false [0%N])])]); (Cond true 0%N [(Flag true false [0%N])])]); (Flag false false [0%N])], ([0%N; 5%N], (@nil (N)), (@nil (N)), (@nil (N)))),
   (sols_val false 33 [1; 33]%N));
  (([(Grp KOne false [(Flag false false (@nil (N)))])], ((@nil (N)), (@nil (N)), (@nil (N)), (@nil (N)))),
   (sols_val true 0 [0]%N));
  (([(Grp KAmo false [(Flag false false [1%N])]); (Flag false true [1%N])], ([5%N], (@nil (N)), (@nil (N)), (@nil (N)))),
   (VErr [65;115;115;101;114;116;105;111;110;69;114;114;111;114]%N));
  (([(Cond false 1%N [(Flag false false [0%N; 1%N]); (Flag false false (@nil (N))); (Flag false true [0%N])])], ([0%N; 1%N], [5%N], [0%N; 1%N], (@nil (N)))),
   (VErr [65;115;115;101;114;116;105;111;110;69;114;114;111;114]%N));
  (([(Grp KOne false [(Grp KAnd false [(Grp KOr true [(Flag true false (@nil (N)))])])]); (Cond false 0%N [(Flag false false [0%N]); (Flag true true [0%N])])], ([5%N], [0%N; 5%N], (@nil (N)), [0%N; 5%N])),
   (VErr [65;115;115;101;114;116;105;111;110;69;114;114;111;114]%N));
  (([(Grp KAnd false [(Flag false false [0%N]); (Flag true false (@nil (N))); (Flag false false [1%N])])], ([0%N; 1%N], (@nil (N)), (@nil (N)), [1%N; 5%N])),
   (sols_val false 3 [3]%N));
  (([(Grp KAmo false [(Flag true false [1%N; 2%N])]); (Flag true false [1%N])], ([5%N], [5%N], (@nil (N)), [5%N])),
   (sols_val true 38 [32]%N));
  (([(Grp KOne true [(Grp KOne false [(Flag false false [0%N])]); (Flag false true [0%N])]); (Flag true false [0%N])], ([0%N; 5%N], (@nil (N)), (@nil (N)), [0%N; 5%N])),
   (VErr [65;115;115;101;114;116;105;111;110;69;114;114;111;114]%N));
  (([(Grp KOr false [(Grp KAmo false [(Flag false false [0%N]); (Flag false false [0%N]); (Flag false false [0%N])])])], ([0%N; 5%N], [0%N], (@nil (N)), [0%N])),
   (sols_val false 0 nil));
  (([(Grp KAmo false [(Flag false false [0%N]); (Flag true false [0%N]); (Flag true false [0%N])])], ([0%N], (@nil (N)), (@nil (N)), (@nil (N)))),
   (sols_val false 1 [1]%N));
  (([(Grp KOr false [(Grp KOne false [(Flag false false [0%N; 2%N]); (Flag false false [2%N])]); (Grp KOr true [(Flag true true [1%N]); (Flag false false [0%N])])]); (Grp KAnd true (@nil (ru)))], ([2%N], (@nil (N)), (@nil (N)), [1%N])),
   (VErr [65;115;115;101;114;116;105;111;110;69;114;114;111;114]%N));
  (([(Grp KAnd false [(Grp KOr false (@nil (ru))); (Flag true false (@nil (N)))]); (Grp KOr false [(Cond false 0%N (@nil (ru))); (Grp KOr false [(Flag false false [1%N]); (Flag false false [0%N])])])], ([0%N], (@nil (N)), [0%N], [0%N])),
   (VErr [86;97;108;117;101;69;114;114;111;114]%N));
  (([(Flag false false [0%N; 1%N])], ([0%N; 1%N], (@nil (N)), (@nil (N)), [5%N])),
   (sols_val false 3 [1; 2; 3]%N));
  (([(Grp KAmo false [(Grp KOne false [(Flag false false [1%N])])])], ([1%N; 5%N], (@nil (N)), (@nil (N)), [1%N])),
   (sols_val true 34 [0; 2; 32; 34]%N));
  (([(Cond false 1%N [(Grp KAnd true [(Flag true false [0%N])]); (Grp KAmo false [(Flag false false [2%N])])])], ([0%N; 2%N; 5%N], (@nil (N)), [0%N; 1%N], [0%N])),
   (VErr [65;115;115;101;114;116;105;111;110;69;114;114;111;114]%N));
  (([(Cond false 0%N [(Grp KOne true [(Flag false false [0%N])]); (Flag false false [0%N]); (Grp KAnd false [(Flag false false [0%N])])]); (Grp KAnd false [(Flag false false [0%N])])], ([5%N], (@nil (N)), (@nil (N)), (@nil (N)))),
   (sols_val false 0 nil));
  (([(Flag true true [1%N]); (Cond false 2%N [(Grp KAnd false [(Cond true 3%N [(Flag false false [2%N]); (Flag true false [2%N]); (Flag false false [0%N; 3%N])])])])], ([0%N; 1%N; 2%N; 3%N; 5%N], [1%N; 2%N], (@nil (N)), [3%N; 5%N])),
   (VErr [65;115;115;101;114;116;105;111;110;69;114;114;111;114]%N));
  (([(Grp KAnd true (@nil (ru))); (Grp KAmo false [(Grp KAnd false [(Flag true false [0%N])]); (Cond false 0%N [(Flag false false [0%N])])])], ([5%N], (@nil (N)), (@nil (N)), (@nil (N)))),
   (VErr [65;115;115;101;114;116;105;111;110;69;114;114;111;114]%N));
  (([(Grp KAnd false [(Grp KAmo false [(Flag true false [2%N])])]); (Grp KOr false (@nil (ru)))], ([2%N; 5%N], (@nil (N)), (@nil (N)), (@nil (N)))),
   (VErr [86;97;108;117;101;69;114;114;111;114]%N));
  (([(Flag false false [1%N])], ([5%N], (@nil (N)), [5%N], [1%N])),
   (sols_val false 0 nil));
  (([(Grp KAnd true [(Flag false false (@nil (N))); (Flag false false (@nil (N)))])], ([5%N], (@nil (N)), (@nil (N)), [5%N])),
   (VErr [65;115;115;101;114;116;105;111;110;69;114;114;111;114]%N));
  (([(Flag false false [0%N])], ([0%N; 5%N], [5%N], (@nil (N)), (@nil (N)))),
   (sols_val false 33 [33]%N));
  (([(Cond true 3%N [(Flag true false [2%N; 3%N])])], ([3%N; 5%N], (@nil (N)), (@nil (N)), [3%N; 5%N])),
   (sols_val true 44 [0; 8; 32; 40]%N));
  (([(Flag true false [0%N])], ([0%N; 5%N], (@nil (N)), (@nil (N)), [0%N])),
   (sols_val false 33 [0; 32]%N));
  (([(Grp KOne true (@nil (ru)))], ((@nil (N)), (@nil (N)), (@nil (N)), [5%N])),
   (VErr [86;97;108;117;101;69;114;114;111;114]%N));
  (([(Flag true false [0%N]); (Grp KAnd false [(Cond false 0%N [(Flag false false [0%N]); (Flag false false (@nil (N)))])])], ([5%N], [0%N], (@nil (N)), [5%N])),
   (sols_val true 33 [0; 32]%N));
  (([(Flag true false [0%N])], ([0%N; 5%N], (@nil (N)), (@nil (N)), (@nil (N)))),
   (sols_val true 33 [0; 32]%N));
  (([(Flag false false (@nil (N))); (Flag true false [0%N])], ([5%N], [0%N], (@nil (N)), (@nil (N)))),
   (sols_val true 33 [0; 32]%N));
  (([(Flag false false [1%N; 2%N])], ([1%N; 2%N], [5%N], (@nil (N)), [1%N; 5%N])),
   (sols_val true 6 [2; 4; 6]%N));
  (([(Grp KOr false [(Flag true false [0%N]); (Flag false true (@nil (N)))])], ([0%N; 5%N], [0%N], (@nil (N)), [5%N])),
   (VErr [65;115;115;101;114;116;105;111;110;69;114;114;111;114]%N));
  (([(Grp KOne true [(Grp KOr false (@nil (ru))); (Grp KOne false [(Flag false false [0%N])]); (Cond false 0%N (@nil (ru)))])], ([5%N], (@nil (N)), (@nil (N)), [0%N])),
   (VErr [86;97;108;117;101;69;114;114;111;114]%N));
  (([(Grp KAmo false [(Flag false false [0%N])]); (Flag true false [0%N])], ([0%N; 5%N], (@nil (N)), (@nil (N)), [5%N])),
   (sols_val true 33 [0; 32]%N));
  (([(Grp KAnd true (@nil (ru)))], ((@nil (N)), (@nil (N)), (@nil (N)), (@nil (N)))),
   (VErr [65;115;115;101;114;116;105;111;110;69;114;114;111;114]%N));
  (([(Grp KOne true [(Cond false 1%N [(Flag false false [1%N])])]); (Flag false false [1%N])], ([5%N], [5%N], (@nil (N)), [1%N])),
   (sols_val false 0 nil));
  (([(Grp KAnd false [(Grp KAnd true (@nil (ru))); (Flag true false [0%N; 2%N])]); (Grp KAmo true [(Flag false true [0%N]); (Flag false false (@nil (N)))])], ([0%N; 5%N], [5%N], (@nil (N)), (@nil (N)))),
   (VErr [65;115;115;101;114;116;105;111;110;69;114;114;111;114]%N));
  (([(Grp KOne false [(Flag true false [0%N; 1%N])])], ([5%N], (@nil (N)), [0%N; 1%N], [1%N])),
   (sols_val true 35 [0; 32]%N));
  (([(Flag false false [2%N]); (Grp KOr false (@nil (ru)))], ([2%N; 5%N], (@nil (N)), (@nil (N)), [2%N; 5%N])),
   (VErr [86;97;108;117;101;69;114;114;111;114]%N))
].
Eval vm_compute in (mismatches run_fcs cases).
Eval vm_compute in (where_ (fun i r => negb (spec_fcs_ok i r)) cases).
