#!/bin/sh
# runall.sh [-P n] [ids...] — run quick checks, record rc and wall per property in /tmp/runall/
P=3; if [ "$1" = "-P" ]; then P=$2; shift 2; fi
mkdir -p /tmp/runall
ids="$@"; [ -z "$ids" ] && ids=$(ls /verif/manifest.d | grep '^C' | sed 's/.json//')
echo $ids | tr ' ' '\n' | xargs -P $P -I{} sh -c 'cd /verif; s=$(date +%s); timeout 3000 ./check {} > /tmp/runall/{}.log 2>&1; rc=$?; e=$(date +%s); echo "{} rc=$rc wall=$((e-s))s $(grep -c "^KNOWN-FINDING" /tmp/runall/{}.log) known" | tee /tmp/runall/{}.rc'
