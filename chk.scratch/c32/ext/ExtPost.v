From Coq Require Import List NArith ZArith Bool Lia String.
From Verif Require Import Base.Val C32.Model_C32 C32.Spec_C32 C32.Proofs_C32.
Import ListNotations.
Local Open Scope N_scope.

Section ExtPost.
  Variable ed : str.
  Variable src : list (str * skind).
  Variable ext_effect : list str -> image -> image.
  Definition not_dir (i : image) (k : path) : Prop := forall m, img_get k i <> Some (NDir m).
  Local Notation argv_of words ss d := ([E "install"] ++ words ++ ss ++ [abs_of ed d]).
  (* THE assumption about install(1): when it exits 0 and DEST is not a directory, every SOURCE
     (here: copies of one file) is at DEST afterwards, DEST has not become a directory, and no
     other path of the image was touched *)
  Definition rel (d : str) : Prop := startswith [47] d = false.     (* a path below ED *)
  Hypothesis ext_installs : forall words ss d i s cid,
    rel d -> In s ss -> (forall s', In s' ss -> s' = s) -> assoc s src = Some (SFile cid) -> not_dir i (comps d) ->
    exists m, img_get (comps d) (ext_effect (argv_of words ss d) i) = Some (NFile cid m).
  Hypothesis ext_nodir : forall words ss d i,
    rel d -> not_dir i (comps d) -> not_dir (ext_effect (argv_of words ss d) i) (comps d).
  Hypothesis ext_frame : forall words ss d i k,
    rel d -> k <> comps d -> not_dir i (comps d) ->
    img_get k (ext_effect (argv_of words ss d) i) = img_get k i.

  Lemma ask_img w : w_img (snd (ask w)) = w_img w /\ w_src (snd (ask w)) = w_src w.
  Proof. unfold ask. destruct (w_ans w); cbn; auto. Qed.

  Lemma ext_groups_frame gs words : forall w w' k,
    install_ext_groups ed ext_effect gs words w = (None, w') ->
    (forall d ss, In (d, ss) gs -> rel d) ->
    (forall d ss, In (d, ss) gs -> not_dir (w_img w) (comps d)) ->
    (forall d ss, In (d, ss) gs -> k <> comps d) ->
    img_get k (w_img w') = img_get k (w_img w).
  Proof.
    induction gs as [|[d ss] gs IH]; intros w w' k Hrun Hrel Hnd Hk; cbn [install_ext_groups] in Hrun.
    - now inversion Hrun.
    - destruct (ask w) as [[st out] w1] eqn:Ea.
      assert (Hi : w_img w1 = w_img w) by (pose proof (ask_img w) as [H _]; now rewrite Ea in H).
      destruct (Z.eqb st 0); [|discriminate].
      assert (Hr0 : rel d) by (eapply Hrel; now left).
      rewrite (IH _ _ k Hrun).
      + cbn [set_img w_img]. rewrite Hi. apply ext_frame; [assumption|eapply Hk; now left|eapply Hnd; now left].
      + intros; eapply Hrel; right; eassumption.
      + intros d' ss' Hin. cbn [set_img w_img]. rewrite Hi.
        destruct (list_eq_dec str_eq_dec (comps d') (comps d)) as [E|Hne].
        * rewrite E. apply ext_nodir; [assumption|]. eapply Hnd; now left.
        * intros m. rewrite ext_frame; [|assumption|assumption|eapply Hnd; now left]. eapply Hnd; right; eassumption.
      + intros; eapply Hk; right; eassumption.
  Qed.

  Theorem install_ext_post_proof gs words : forall w w',
    w_src w = src ->
    (forall d ss, In (d, ss) gs -> rel d) ->
    (forall d ss, In (d, ss) gs -> not_dir (w_img w) (comps d)) ->
    (forall d ss, In (d, ss) gs -> ss <> []) ->
    (forall d1 ss1 d2 ss2 s1 s2, In (d1, ss1) gs -> In (d2, ss2) gs -> In s1 ss1 -> In s2 ss2 ->
                                  comps d1 = comps d2 -> s1 = s2) ->
    install_ext_groups ed ext_effect gs words w = (None, w') ->
    forall d ss s cid, In (d, ss) gs -> In s ss -> assoc s src = Some (SFile cid) ->
                       exists m, img_get (comps d) (w_img w') = Some (NFile cid m).
  Proof.
    induction gs as [|[d0 ss0] gs IH]; intros w w' Hsrc Hrel Hnd Hne Huni Hrun d ss s cid Hin Hs Hc; [destruct Hin|].
    cbn [install_ext_groups] in Hrun.
    destruct (ask w) as [[st out] w1] eqn:Ea.
    assert (Hi : w_img w1 = w_img w) by (pose proof (ask_img w) as [H _]; now rewrite Ea in H).
    assert (Hs1 : w_src w1 = w_src w) by (pose proof (ask_img w) as [_ H]; now rewrite Ea in H).
    destruct (Z.eqb st 0); [|discriminate].
    set (w2 := set_img w1 (ext_effect ([E "install"] ++ words ++ ss0 ++ [abs_of ed d0]) (w_img w1))) in *.
    assert (Hnd0 : not_dir (w_img w) (comps d0)) by (eapply Hnd; now left).
    assert (Hr0 : rel d0) by (eapply Hrel; now left).
    assert (Hrel2 : forall d' ss', In (d', ss') gs -> rel d') by (intros; eapply Hrel; right; eassumption).
    assert (Hnd2 : forall d' ss', In (d', ss') gs -> not_dir (w_img w2) (comps d')).
    { intros d' ss' Hin'. unfold w2. cbn [set_img w_img]. rewrite Hi.
      destruct (list_eq_dec str_eq_dec (comps d') (comps d0)) as [E|Hne'].
      - rewrite E. now apply ext_nodir.
      - intros m. rewrite ext_frame; [|assumption|assumption|assumption]. eapply Hnd; right; eassumption. }
    assert (Huni2 : forall d1 ss1 d2 ss2 s1 s2, In (d1, ss1) gs -> In (d2, ss2) gs -> In s1 ss1 -> In s2 ss2 ->
                                  comps d1 = comps d2 -> s1 = s2).
    { intros d1 ss1 d2 ss2 s1 s2 H1 H2 H3 H4 H5.
      eapply (Huni d1 ss1 d2 ss2); [right; exact H1|right; exact H2|exact H3|exact H4|exact H5]. }
    assert (Hne2 : forall d' ss', In (d', ss') gs -> ss' <> []) by (intros; eapply Hne; right; eassumption).
    assert (Hsrc2 : w_src w2 = src) by (unfold w2; cbn [set_img w_src]; now rewrite Hs1).
    destruct Hin as [Heq|Hin].
    - injection Heq as <- <-.
      destruct (in_dec (list_eq_dec str_eq_dec) (comps d0) (map (fun g => comps (fst g)) gs)) as [Hlater|Hnot].
      + apply in_map_iff in Hlater as [[d2 ss2] [Hc2 Hin2]]. cbn in Hc2.
        destruct ss2 as [|s2 ss2]; [exfalso; eapply Hne2; [exact Hin2|reflexivity]|].
        assert (s2 = s).
        { eapply (Huni d2 (s2 :: ss2) d0 ss0); [right; exact Hin2|now left|now left|exact Hs|exact Hc2]. }
        subst s2. rewrite <- Hc2.
        eapply (IH w2 w'); try eassumption. now left.
      + rewrite (ext_groups_frame gs words w2 w' (comps d0) Hrun Hrel2 Hnd2).
        * unfold w2. cbn [set_img w_img]. rewrite Hi. apply (ext_installs words ss0 d0 (w_img w) s cid); try assumption.
          intros s' Hs'. eapply (Huni d0 ss0 d0 ss0); [now left|now left|exact Hs'|exact Hs|reflexivity].
        * intros d' ss' Hin' E. apply Hnot. apply in_map_iff. exists (d', ss'). split; [now cbn|assumption].
    - eapply (IH w2 w'); try eassumption.
  Qed.

  (* ---- from the list of (source, destination) pairs to the groups *)
  Lemma in_insert_by x y l : In x (insert_by y l) <-> x = y \/ In x l.
  Proof.
    induction l as [|z l IH]; cbn; [intuition congruence|].
    destruct (str_leb (snd z) (snd y)); cbn; rewrite ?IH; intuition congruence.
  Qed.
  Lemma in_sort_by_dest x l : In x (sort_by_dest l) <-> In x l.
  Proof.
    unfold sort_by_dest. rewrite (in_rev l). generalize (rev l) as m.
    induction m as [|y m IH]; cbn [fold_right]; [reflexivity|].
    rewrite in_insert_by, IH. cbn. intuition congruence.
  Qed.
  Lemma group_sound l : forall d ss s, In (d, ss) (group_by_dest l) -> In s ss -> In (s, d) l.
  Proof.
    induction l as [|[s0 d0] l IH]; intros d ss s; cbn [group_by_dest]; [intros []|].
    destruct (group_by_dest l) as [|[d' ss'] gs] eqn:E.
    - intros [H|[]] Hs. injection H as <- <-. destruct Hs as [->|[]]. now left.
    - destruct (str_eqb d0 d') eqn:Ed.
      + apply str_eqb_eq in Ed. subst d'. intros [H|H] Hs.
        * injection H as <- <-. destruct Hs as [->|Hs]; [now left|]. right. eapply IH; [now left|exact Hs].
        * right. eapply IH; [right; exact H|exact Hs].
      + intros [H|H] Hs.
        * injection H as <- <-. destruct Hs as [->|[]]. now left.
        * right. eapply IH; [exact H|exact Hs].
  Qed.
  Lemma group_complete l : forall s d, In (s, d) l -> exists ss, In (d, ss) (group_by_dest l) /\ In s ss.
  Proof.
    induction l as [|[s0 d0] l IH]; intros s d; cbn [group_by_dest]; [intros []|].
    intros [H|H].
    - injection H as -> ->. destruct (group_by_dest l) as [|[d' ss'] gs].
      + exists [s]. split; now left.
      + destruct (str_eqb d d') eqn:Ed.
        * exists (s :: ss'). split; now left.
        * exists [s]. split; now left.
    - destruct (IH s d H) as [ss [Hg Hs]].
      destruct (group_by_dest l) as [|[d' ss'] gs]; [destruct Hg|].
      destruct (str_eqb d0 d') eqn:Ed.
      + apply str_eqb_eq in Ed. subst d'. destruct Hg as [Hg|Hg].
        * injection Hg as <- <-. exists (s0 :: ss'). split; [now left|now right].
        * exists ss. split; [now right|assumption].
      + exists ss. split; [now right|assumption].
  Qed.
  Lemma group_nonempty l : forall d ss, In (d, ss) (group_by_dest l) -> ss <> [].
  Proof.
    induction l as [|[s0 d0] l IH]; intros d ss; cbn [group_by_dest]; [intros []|].
    destruct (group_by_dest l) as [|[d' ss'] gs] eqn:E.
    - intros [H|[]]. injection H as <- <-. discriminate.
    - destruct (str_eqb d0 d'); intros [H|H]; try (injection H as <- <-; discriminate).
      + eapply IH. right. exact H.
      + eapply IH. exact H.
  Qed.

  (* SUCCESS POST-CONDITION of the install(1) fallback: reported success => every regular file is at
     its destination, with the behaviour of install(1) as the only assumption *)
  Theorem install_fallback_post_proof fs words w w' :
    w_src w = src ->
    (forall s d, In (s, d) fs -> rel d) ->
    (forall s d, In (s, d) fs -> not_dir (w_img w) (comps d)) ->
    (forall s1 d1 s2 d2, In (s1, d1) fs -> In (s2, d2) fs -> comps d1 = comps d2 -> s1 = s2) ->
    install_files ed ext_effect fs (IFallback words) w = (None, w') ->
    forall s d cid, In (s, d) fs -> assoc s src = Some (SFile cid) ->
                    exists m, img_get (comps d) (w_img w') = Some (NFile cid m).
  Proof.
    intros Hsrc Hrel Hnd Hinj Hrun s d cid Hin Hc. cbn [install_files] in Hrun.
    assert (Hin' : In (s, d) (sort_by_dest fs)) by now apply in_sort_by_dest.
    destruct (group_complete _ _ _ Hin') as [ss [Hg Hs]].
    eapply (install_ext_post_proof _ words w w' Hsrc); try eassumption.
    - intros d1 ss1 Hg1. destruct ss1 as [|s1 ss1]; [exfalso; eapply group_nonempty; [exact Hg1|reflexivity]|].
      eapply (Hrel s1). apply in_sort_by_dest. eapply group_sound; [exact Hg1|now left].
    - intros d1 ss1 Hg1. destruct ss1 as [|s1 ss1]; [exfalso; eapply group_nonempty; [exact Hg1|reflexivity]|].
      eapply (Hnd s1). apply in_sort_by_dest. eapply group_sound; [exact Hg1|now left].
    - apply group_nonempty.
    - intros d1 ss1 d2 ss2 s1 s2 H1 H2 Hs1 Hs2 E.
      eapply Hinj; [| |exact E]; apply in_sort_by_dest; eapply group_sound; eassumption.
  Qed.
End ExtPost.

(* ---- the assumptions are satisfiable: an install(1) that refuses directories as DEST *)
Section Ideal.
  Variable ed : str.
  Variable src : list (str * skind).
  Definition ideal_effect (argv : list str) (i : image) : image :=
    let d := rel_of ed (last argv []) in
    match assoc (last (removelast argv) []) src, img_get d i with
    | Some (SFile cid), Some (NDir _) => i
    | Some (SFile cid), _ => img_set d (NFile cid 493) i
    | _, _ => i
    end.

  Lemma skipn_exact {A} (a b : list A) : skipn (List.length a) (a ++ b) = b.
  Proof. induction a; cbn; auto. Qed.
  Lemma comps_slash d : comps (47 :: d) = comps d.
  Proof. unfold comps. cbn. reflexivity. Qed.
  Lemma rel_of_abs d : rel d -> rel_of ed (abs_of ed d) = comps d.
  Proof.
    unfold rel, rel_of, abs_of, pjoin, drop. intros ->.
    destruct (is_nil ed || (last ed 0 =? 47)).
    - now rewrite skipn_exact.
    - rewrite skipn_exact. apply comps_slash.
  Qed.
  Lemma last_app_ne {A} (pre ss : list A) dflt : ss <> [] -> last (pre ++ ss) dflt = last ss dflt.
  Proof.
    intro H. induction pre as [|a pre IH]; [reflexivity|].
    cbn [app]. destruct (pre ++ ss) eqn:E.
    - destruct pre; [cbn in E; contradiction|discriminate].
    - cbn [last]. exact IH.
  Qed.
  Lemma last_in {A} (ss : list A) dflt : ss <> [] -> In (last ss dflt) ss.
  Proof.
    induction ss as [|a ss IH]; [contradiction|]. intros _.
    destruct ss as [|b ss]; [now left|]. right. apply IH. discriminate.
  Qed.
  Lemma argv_decode words ss d s :
    In s ss -> (forall s', In s' ss -> s' = s) ->
    last ([E "install"] ++ words ++ ss ++ [abs_of ed d]) [] = abs_of ed d
    /\ last (removelast ([E "install"] ++ words ++ ss ++ [abs_of ed d])) [] = s.
  Proof.
    intros Hin Hall.
    assert (Hne : ss <> []) by (destruct ss; [destruct Hin|discriminate]).
    replace ([E "install"] ++ words ++ ss ++ [abs_of ed d]) with ((([E "install"] ++ words) ++ ss) ++ [abs_of ed d])
      by (now rewrite <- !app_assoc).
    rewrite last_last, removelast_last. split; [reflexivity|].
    rewrite last_app_ne by assumption. apply Hall. now apply last_in.
  Qed.
  Lemma argv_last words ss d :
    last ([E "install"] ++ words ++ ss ++ [abs_of ed d]) [] = abs_of ed d.
  Proof.
    replace ([E "install"] ++ words ++ ss ++ [abs_of ed d]) with ((([E "install"] ++ words) ++ ss) ++ [abs_of ed d])
      by (now rewrite <- !app_assoc).
    apply last_last.
  Qed.

  Lemma ideal_installs : forall words ss d i s cid,
    rel d -> In s ss -> (forall s', In s' ss -> s' = s) -> assoc s src = Some (SFile cid) -> not_dir i (comps d) ->
    exists m, img_get (comps d) (ideal_effect ([E "install"] ++ words ++ ss ++ [abs_of ed d]) i) = Some (NFile cid m).
  Proof.
    intros words ss d i s cid Hr Hin Hall Hc Hnd. unfold ideal_effect.
    destruct (argv_decode words ss d s Hin Hall) as [-> ->]. rewrite rel_of_abs by assumption. rewrite Hc.
    destruct (img_get (comps d) i) as [[m|c m]|] eqn:E.
    - exfalso. now apply (Hnd m).
    - exists 493. apply img_get_set_same.
    - exists 493. apply img_get_set_same.
  Qed.
  Lemma ideal_nodir : forall words ss d i,
    rel d -> not_dir i (comps d) -> not_dir (ideal_effect ([E "install"] ++ words ++ ss ++ [abs_of ed d]) i) (comps d).
  Proof.
    intros words ss d i Hr Hnd. unfold ideal_effect. rewrite argv_last, rel_of_abs by assumption.
    destruct (assoc _ src) as [[cid|]|]; try assumption.
    destruct (img_get (comps d) i) as [[m|c m]|] eqn:E; try assumption;
      intros m'; rewrite img_get_set_same; discriminate.
  Qed.
  Lemma ideal_frame : forall words ss d i k,
    rel d -> k <> comps d -> not_dir i (comps d) ->
    img_get k (ideal_effect ([E "install"] ++ words ++ ss ++ [abs_of ed d]) i) = img_get k i.
  Proof.
    intros words ss d i k Hr Hk Hnd. unfold ideal_effect. rewrite argv_last, rel_of_abs by assumption.
    destruct (assoc _ src) as [[cid|]|]; try reflexivity.
    destruct (img_get (comps d) i) as [[m|c m]|]; try reflexivity; now apply img_get_set_other.
  Qed.

  (* the fallback theorem without hypotheses, for this install(1) *)
  Theorem install_fallback_post_ideal fs words w w' :
    w_src w = src ->
    (forall s d, In (s, d) fs -> rel d) ->
    (forall s d, In (s, d) fs -> not_dir (w_img w) (comps d)) ->
    (forall s1 d1 s2 d2, In (s1, d1) fs -> In (s2, d2) fs -> comps d1 = comps d2 -> s1 = s2) ->
    install_files ed ideal_effect fs (IFallback words) w = (None, w') ->
    forall s d cid, In (s, d) fs -> assoc s src = Some (SFile cid) ->
                    exists m, img_get (comps d) (w_img w') = Some (NFile cid m).
  Proof.
    apply (install_fallback_post_proof ed src ideal_effect ideal_installs ideal_nodir ideal_frame).
  Qed.
End Ideal.
