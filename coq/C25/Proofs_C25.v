(* Proofs_C25.v — lemmas and proofs for C25. *)
From Coq Require Import List NArith ZArith Bool Arith Lia Permutation.
Import ListNotations.
From Verif Require Import Base.Val C25.Path_C25 C25.Model_C25 C25.Spec_C25.

Theorem empty_archive_proof : of_members [] = Ok [].
Proof. reflexivity. Qed.

(* ================================================================== A. names survive *)
Lemma name_roundtrip_proof : forall l, plain_loc l ->
  loc_of_name (member_name l) = l /\ loc_of_link (member_name l) = l
  /\ strip_sl (member_name l) <> dot.
Proof.
  intros l (cs & Hne & HF & ->). unfold member_name, loc_of_name, loc_of_link.
  rewrite lstrip_abs by assumption. rewrite strip_dotname by assumption.
  repeat split.
  - apply normpath_slash_dot; assumption.
  - cbn [pjoin]. change (is_sl 46) with false. cbn iota. cbn [ends_sl rev app]. change (is_sl SL) with true.
    cbn iota. cbn [app]. apply normpath_slash_dot; assumption.
  - discriminate.
Qed.

(* ================================================================== generic list facts *)
Lemma ins_perm {A} (lt : A -> A -> bool) x l : Permutation (ins lt x l) (x :: l).
Proof.
  induction l as [|y r IH]; cbn; [reflexivity|]. destruct (lt x y); [reflexivity|].
  rewrite IH. apply perm_swap.
Qed.
Lemma isort_perm {A} (lt : A -> A -> bool) l : Permutation (isort lt l) l.
Proof.
  unfold isort. assert (G : forall acc, Permutation (fold_left (fun a x => ins lt x a) l acc) (l ++ acc)).
  { induction l as [|x r IH]; intros acc; cbn; [reflexivity|]. rewrite IH. rewrite ins_perm.
    symmetry. apply Permutation_middle. }
  rewrite G. rewrite app_nil_r. reflexivity.
Qed.

Lemma filter_split_perm {A} (f : A -> bool) l :
  Permutation (filter f l ++ filter (fun x => negb (f x)) l) l.
Proof.
  induction l as [|x r IH]; cbn; [reflexivity|]. destruct (f x); cbn.
  - constructor. exact IH.
  - rewrite <- Permutation_middle. constructor. exact IH.
Qed.

Lemma filter_all_false {A} (f : A -> bool) l : (forall x, In x l -> f x = false) -> filter f l = [].
Proof.
  induction l as [|x r IH]; intros H; cbn; [reflexivity|]. rewrite (H x (or_introl eq_refl)).
  apply IH. intros y Hy. apply H. right. exact Hy.
Qed.

(* ================================================================== the location dict *)
Lemma dhas_in k d : dhas k d = true <-> In k (map loc d).
Proof.
  unfold dhas. rewrite existsb_exists. split.
  - intros (e & He & E). apply str_eqb_eq in E. subst. apply in_map. exact He.
  - intros H. apply in_map_iff in H as (e & E & He). exists e. split; [exact He|]. subst. apply str_eqb_refl.
Qed.

Lemma dset_fresh e d : ~ In (loc e) (map loc d) -> dset e d = d ++ [e].
Proof.
  induction d as [|x r IH]; intros H; cbn; [reflexivity|].
  rewrite str_eqb_false by (intro E; apply H; left; exact E).
  rewrite IH; [reflexivity|]. intro E. apply H. right. exact E.
Qed.

Lemma dupdate_fresh l : forall d, NoDup (map loc (d ++ l)) -> dupdate d l = d ++ l.
Proof.
  induction l as [|e r IH]; intros d H; cbn; [rewrite app_nil_r; reflexivity|].
  rewrite dset_fresh.
  - change (fold_left (fun acc e0 => dset e0 acc) r (d ++ [e])) with (dupdate (d ++ [e]) r).
    rewrite IH; rewrite <- app_assoc; [reflexivity|exact H].
  - rewrite map_app in H. cbn in H. apply NoDup_remove_2 in H. intro E. apply H. apply in_or_app. left. exact E.
Qed.

Lemma filter_filter {A} (f g : A -> bool) l : filter f (filter g l) = filter (fun x => g x && f x) l.
Proof.
  induction l as [|x r IH]; cbn; [reflexivity|]. destruct (g x); cbn; [destruct (f x)|]; rewrite IH; reflexivity.
Qed.

Lemma ddiff_filter l : forall t, ddiff t l = filter (fun e => negb (smem (loc e) (map loc l))) t.
Proof.
  induction l as [|a r IH]; intros t; cbn.
  - symmetry. clear. induction t; cbn; congruence.
  - change (fold_left (fun acc e => ddel (loc e) acc) r (ddel (loc a) t)) with (ddiff (ddel (loc a) t) r).
    rewrite IH. unfold ddel. rewrite filter_filter. apply filter_ext. intros e.
    rewrite negb_orb. reflexivity.
Qed.

Lemma smem_in x l : smem x l = true <-> In x l.
Proof.
  unfold smem. rewrite existsb_exists. split.
  - intros (y & Hy & E). apply str_eqb_eq in E. subst. exact Hy.
  - intros H. exists x. split; [exact H|apply str_eqb_refl].
Qed.

Lemma nodup_loc_inj d e1 e2 : NoDup (map loc d) -> In e1 d -> In e2 d -> loc e1 = loc e2 -> e1 = e2.
Proof.
  induction d as [|x r IH]; intros H H1 H2 E; [destruct H1|]. cbn in H. inversion H as [|? ? Hx Hr]; subst.
  destruct H1 as [->|H1], H2 as [->|H2]; auto.
  - exfalso. apply Hx. rewrite E. apply in_map. exact H2.
  - exfalso. apply Hx. rewrite <- E. apply in_map. exact H1.
Qed.

Lemma ddiff_syms t : NoDup (map loc t) ->
  ddiff t (filter is_sym t) = filter (fun e => negb (is_sym e)) t.
Proof.
  intros H. rewrite ddiff_filter. apply filter_ext_in. intros e He. f_equal.
  destruct (is_sym e) eqn:S.
  - apply smem_in. apply in_map. apply filter_In. split; assumption.
  - destruct (smem (loc e) (map loc (filter is_sym t))) eqn:M; [|reflexivity].
    apply smem_in in M. apply in_map_iff in M as (s & E & Hs). apply filter_In in Hs as [Hs1 Hs2].
    assert (s = e) by (eapply nodup_loc_inj; eauto). subst. congruence.
Qed.

(* ================================================================== C. reading a flat set *)

Lemma child_prefix_plain l : plain_loc l -> child_prefix l = l ++ [SL].
Proof.
  intros (cs & Hne & HF & ->). unfold child_prefix. rewrite normpath_abs, rstrip_abs by assumption. reflexivity.
Qed.

Lemma no_children d (sub : dict) x :
  plain_locs d -> flat_d d -> In x d -> is_sym x = true -> (forall e, In e sub -> In e d) ->
  child_nodes sub (loc x) = [].
Proof.
  intros Hp Hf Hx Hs Hsub. unfold child_nodes. apply filter_all_false. intros e He.
  destruct (starts_with (child_prefix (loc x)) (loc e)) eqn:S; [|reflexivity]. exfalso.
  rewrite child_prefix_plain in S by (apply Hp; exact Hx).
  apply starts_with_iff in S as (rest & E). apply (Hf x e Hx (Hsub e He) Hs).
  exists rest. rewrite E, <- app_assoc. reflexivity.
Qed.

Lemma first_affected_none s d : (forall x, In x s -> child_nodes d (loc x) = []) -> first_affected s d = None.
Proof.
  induction s as [|x r IH]; intros H; cbn; [reflexivity|]. rewrite (H x (or_introl eq_refl)).
  apply IH. intros y Hy. apply H. right. exact Hy.
Qed.

Lemma move_children_none s : forall t adds, (forall x, In x s -> child_nodes t (loc x) = []) ->
  move_children s t adds = (t, adds).
Proof.
  induction s as [|x r IH]; intros t adds H; cbn; [reflexivity|]. rewrite (H x (or_introl eq_refl)).
  apply IH. intros y Hy. apply H. right. exact Hy.
Qed.

Lemma sdedupe_const a l : (forall x, In x l -> x = a) -> sdedupe l = [] \/ sdedupe l = [a].
Proof.
  induction l as [|x r IH]; intros H; cbn; [left; reflexivity|].
  assert (Hr : forall y, In y r -> y = a) by (intros y Hy; apply H; right; exact Hy).
  destruct (smem x r) eqn:M; [apply IH; exact Hr|].
  right. assert (x = a) by (apply H; left; reflexivity). subst x.
  destruct r as [|y r']; [reflexivity|]. exfalso.
  assert (y = a) by (apply Hr; left; reflexivity). subst y.
  cbn in M. rewrite str_eqb_refl in M. discriminate.
Qed.

Lemma missing_dirs_nil d : plain_locs d -> closed_d d -> missing_dirs d = [].
Proof.
  intros Hp Hc. unfold missing_dirs.
  set (m0 := sdedupe _).
  assert (Hm : m0 = [] \/ m0 = [[SL]]).
  { apply sdedupe_const. intros x Hx. apply filter_In in Hx as [Hx1 Hx2].
    apply in_map_iff in Hx1 as (e & <- & He). destruct (Hc e He) as [E|E]; [exact E|]. exfalso.
    apply negb_true_iff in Hx2.
    assert (N : normpath (dirname (loc e)) = dirname (loc e)).
    { apply in_map_iff in E as (e' & E' & He'). rewrite <- E'.
      destruct (Hp e' He') as (cs & Hne & HF & ->). apply normpath_abs; assumption. }
    rewrite N in Hx2. apply dhas_in in E. congruence. }
  destruct Hm as [-> | ->]; reflexivity.
Qed.

(* convert_archive on a flat, parent-closed set of distinct plain locations only reorders it *)
Lemma convert_flat raw :
  NoDup (map loc raw) -> plain_locs raw -> flat_d raw -> closed_d raw ->
  exists r, convert raw = Ok r /\ Permutation r raw.
Proof.
  intros Hnd Hp Hf Hc. unfold convert.
  rewrite (dupdate_fresh raw []) by exact Hnd. cbn [app].
  set (syms := filter is_sym raw).
  assert (Hsy : forall x, In x syms -> In x raw /\ is_sym x = true) by (intros x Hx; apply filter_In in Hx; exact Hx).
  assert (Hnds : NoDup (map loc syms)).
  { unfold syms. clear -Hnd. induction raw as [|x r IH]; cbn; [constructor|]. cbn in Hnd. inversion Hnd; subst.
    destruct (is_sym x); cbn; auto. constructor; auto. intro E. apply H1.
    apply in_map_iff in E as (y & E & Hy). apply filter_In in Hy as [Hy _]. rewrite <- E. apply in_map. exact Hy. }
  rewrite (dupdate_fresh syms []) by exact Hnds. cbn [app].
  cbn [sym_loop].
  rewrite first_affected_none.
  2:{ intros x Hx. apply (Permutation_in _ (isort_perm _ _)) in Hx. destruct (Hsy x Hx) as [Hx1 Hx2].
      apply (no_children raw); auto. intros e He. apply Hsy. exact He. }
  unfold syms at 1. rewrite ddiff_syms by exact Hnd.
  set (t1 := dupdate _ syms).
  assert (Ht1 : t1 = filter (fun e => negb (is_sym e)) raw ++ syms).
  { unfold t1. apply dupdate_fresh. rewrite map_app.
    apply (Permutation_NoDup (l := map loc raw)); [|exact Hnd].
    rewrite <- map_app. apply Permutation_map. symmetry.
    eapply perm_trans; [apply Permutation_app_comm|]. apply filter_split_perm. }
  assert (Pt1 : Permutation t1 raw).
  { rewrite Ht1. eapply perm_trans; [apply Permutation_app_comm|]. apply filter_split_perm. }
  rewrite move_children_none.
  2:{ intros x Hx. apply in_rev in Hx. apply (Permutation_in _ (isort_perm _ _)) in Hx.
      destruct (Hsy x Hx) as [Hx1 Hx2]. apply (no_children raw); auto.
      intros e He. apply (Permutation_in _ Pt1). exact He. }
  cbn [dupdate fold_left]. unfold add_missing.
  rewrite missing_dirs_nil.
  2:{ intros e He. apply Hp. apply (Permutation_in _ Pt1). exact He. }
  2:{ intros e He. destruct (Hc e (Permutation_in _ Pt1 He)) as [E|E]; [left; exact E|right].
      apply (Permutation_in (l := map loc raw)); [|exact E]. apply Permutation_map. symmetry. exact Pt1. }
  cbn [map dupdate fold_left]. eexists. split; [reflexivity|].
  eapply perm_trans; [apply isort_perm|exact Pt1].
Qed.

(* ================================================================== bit facts (by enumeration) *)
Definition rangeN (n : nat) : list N := map N.of_nat (seq 0 n).
Lemma in_rangeN p n : (p < N.of_nat n)%N -> In p (rangeN n).
Proof.
  intros H. unfold rangeN. replace p with (N.of_nat (N.to_nat p)) by apply N2Nat.id.
  apply in_map. apply in_seq. lia.
Qed.
Definition bits_ok (p : N) : bool :=
  N.eqb (N.land p 4095) p
  && is_chr (N.lor p S_IFCHR) && N.eqb (N.lor (N.land (N.lor p S_IFCHR) 4095) S_IFCHR) (N.lor p S_IFCHR)
  && negb (is_chr (N.lor p S_IFBLK)) && N.eqb (N.lor (N.land (N.lor p S_IFBLK) 4095) S_IFBLK) (N.lor p S_IFBLK).
Lemma all_bits_ok : forallb bits_ok (rangeN 4096) = true.
Proof. vm_compute. reflexivity. Qed.
Lemma bits_facts p : (p < 4096)%N ->
  N.land p 4095 = p
  /\ is_chr (N.lor p S_IFCHR) = true /\ N.lor (N.land (N.lor p S_IFCHR) 4095) S_IFCHR = N.lor p S_IFCHR
  /\ is_chr (N.lor p S_IFBLK) = false /\ N.lor (N.land (N.lor p S_IFBLK) 4095) S_IFBLK = N.lor p S_IFBLK.
Proof.
  intros H. pose proof all_bits_ok as A. rewrite forallb_forall in A.
  specialize (A p (in_rangeN p 4096 H)). unfold bits_ok in A.
  repeat (apply andb_true_iff in A as [A ?]).
  repeat match goal with X : N.eqb _ _ = true |- _ => apply N.eqb_eq in X end.
  apply negb_true_iff in H1. auto.
Qed.

(* ================================================================== B. what archive_to_fsobj makes of to_members *)
Lemma find_key_app d i s1 s2 :
  find_key d i (s1 ++ s2) = match find_key d i s1 with Some y => Some y | None => find_key d i s2 end.
Proof. induction s1 as [|x r IH]; cbn; [reflexivity|]. destruct (_ && _); [reflexivity|exact IH]. Qed.
Lemma find_key_some d i s y : find_key d i s = Some y -> In y s /\ dev y = d /\ ino y = i.
Proof.
  induction s as [|x r IH]; cbn; [discriminate|]. destruct (oN_eqb (dev x) d && oN_eqb (ino x) i) eqn:E.
  - intros H; injection H as <-. apply andb_true_iff in E as [E1 E2]. split; [left; reflexivity|].
    unfold oN_eqb in *. destruct (dev x), d, (ino x), i; try discriminate;
      repeat match goal with X : N.eqb _ _ = true |- _ => apply N.eqb_eq in X end; subst; auto.
  - intros H. destruct (IH H) as (? & ? & ?). auto.
Qed.
Lemma oN_eqb_refl o : oN_eqb o o = true.
Proof. destruct o; cbn; [apply N.eqb_refl|reflexivity]. Qed.

Lemma same_file_sym a b : same_file a b -> same_file b a.
Proof. intros [E|[N E]]; [left; auto|right; split; congruence]. Qed.

Lemma obs_loc a b : obs a = obs b -> loc a = loc b.
Proof. unfold obs. intros H. injection H. auto. Qed.
Lemma obs_knd a b : obs a = obs b -> knd a = knd b.
Proof. unfold obs. intros H. injection H. auto. Qed.

Arguments loc_of_name : simpl never.
Arguments loc_of_link : simpl never.
Arguments member_name : simpl never.
Arguments strip_sl : simpl never.
Arguments N.land : simpl never.
Arguments N.lor : simpl never.
Arguments N.succ : simpl never.
Arguments is_chr : simpl never.
Arguments str_eqb : simpl never.

Section RoundTrip.
  Variable c : list entry.
  Hypothesis Hwf : wf c.

  Lemma c_inj e1 e2 : In e1 c -> In e2 c -> loc e1 = loc e2 -> e1 = e2.
  Proof. apply nodup_loc_inj. apply (wf_nodup c Hwf). Qed.

  Lemma same_file_shift x ex g : In x c -> In ex c -> In g c ->
    hkey x = hkey ex -> hkey x <> None -> (same_file ex g <-> same_file x g).
  Proof.
    intros Hx Hex Hg E N. split.
    - intros [L|[N' E']]; right; split; auto.
      + assert (ex = g) by (apply c_inj; auto). subst. exact E.
      + congruence.
    - intros [L|[N' E']]; right; split; try congruence.
      assert (x = g) by (apply c_inj; auto). subst. congruence.
  Qed.

  (* one non-file member comes back as the entry it was written from *)
  Lemma nonreg_back x i cache rest : In x c -> knd x <> KReg ->
    exists e, obs e = obs x /\
      raw_of i cache (to_info x :: rest) =
        match raw_of (N.succ i) cache rest with Some es => Some (e :: es) | None => None end.
  Proof.
    intros Hx Hk. destruct (name_roundtrip_proof (loc x) (wf_loc c Hwf x Hx)) as (N1 & _ & N3).
    pose proof (wf_mode c Hwf x Hx) as Hm. pose proof (wf_devmode c Hwf x Hx) as Hd.
    destruct x as [l k md u g mt tg dv io dt sz mj mn od]. cbn [loc knd mode] in *.
    destruct k; try congruence.
    - (* dir *) destruct (bits_facts md (Hm ltac:(discriminate))) as (B & _).
      eexists. split; [|cbn [raw_of to_info knd mty mname loc]; rewrite N1, (str_eqb_false _ _ N3); reflexivity].
      unfold obs; cbn. rewrite B. reflexivity.
    - (* sym *) destruct (bits_facts md (Hm ltac:(discriminate))) as (B & _).
      eexists. split; [|cbn [raw_of to_info knd mty mname loc]; rewrite N1; reflexivity].
      unfold obs; cbn. rewrite B. reflexivity.
    - (* fifo *) destruct (bits_facts md (Hm ltac:(discriminate))) as (B & _).
      eexists. split; [|cbn [raw_of to_info knd mty mname loc]; rewrite N1; reflexivity].
      unfold obs; cbn. rewrite B. reflexivity.
    - (* dev *) destruct (Hd eq_refl) as (p & Hp & [-> | ->]);
        destruct (bits_facts p Hp) as (_ & B1 & B2 & B3 & B4).
      + eexists. split; [|cbn [raw_of to_info knd mty mname loc mode]; rewrite B1; cbn [mty]; rewrite N1; reflexivity].
        unfold obs; cbn. rewrite B2. reflexivity.
      + eexists. split; [|cbn [raw_of to_info knd mty mname loc mode]; rewrite B3; cbn [mty]; rewrite N1; reflexivity].
        unfold obs; cbn. rewrite B4. reflexivity.
  Qed.

  (* the directories: map to_info D reads back as D *)
  Lemma dirs_back D : forall i cache rest, (forall e, In e D -> In e c /\ is_dir e = true) ->
    exists ds j, Forall2 (fun f e => obs e = obs f) D ds /\
      raw_of i cache (map to_info D ++ rest) =
        match raw_of j cache rest with Some es => Some (ds ++ es) | None => None end.
  Proof.
    induction D as [|x r IH]; intros i cache rest H.
    - exists [], i. split; [constructor|]. cbn. destruct (raw_of i cache rest); reflexivity.
    - destruct (H x (or_introl eq_refl)) as [Hx Hd].
      assert (Hk : knd x <> KReg) by (unfold is_dir in Hd; destruct (knd x); cbn in Hd; congruence).
      destruct (IH (N.succ i) cache rest) as (ds & j & F2 & E).
      { intros e He. apply H. right. exact He. }
      destruct (nonreg_back x i cache (map to_info r ++ rest) Hx Hk) as (e & Oe & Ee).
      exists (e :: ds), j. split; [constructor; assumption|].
      cbn [map app]. rewrite Ee, E. destruct (raw_of j cache rest); reflexivity.
  Qed.

  (* the invariant of the second loop of add_contents_to_tarfile run against archive_to_fsobj:
     A = inode numbers given so far *)
  Definition Ainv (A : list (entry * N)) (seen : list entry) (cache : list (str * (N * N))) (i : N) : Prop :=
    (forall f n, In (f, n) A -> In f c /\ is_reg f = true /\ (n < i)%N) /\
    (forall f n g m, In (f, n) A -> In (g, m) A -> (n = m <-> same_file f g)) /\
    (forall x, In x seen -> exists n, In (x, n) A /\ cache_get (loc x) cache = Some (n, data x)) /\
    (forall f n, In (f, n) A -> exists y, find_key (dev f) (ino f) seen = Some y).

  Lemma can_link_true x ex : In x c -> In ex c -> is_reg x = true -> is_reg ex = true ->
    hkey x <> None -> dev ex = dev x -> ino ex = ino x -> can_link x ex = true.
  Proof.
    intros Hx Hex Rx Rex N D I.
    assert (K : hkey x = hkey ex) by (unfold hkey; rewrite D, I; reflexivity).
    assert (Kx : knd x = KReg) by (unfold is_reg in Rx; destruct (knd x); cbn in Rx; congruence).
    assert (Kex : knd ex = KReg) by (unfold is_reg in Rex; destruct (knd ex); cbn in Rex; congruence).
    destruct (wf_inode c Hwf x ex Hx Hex Kx Kex N K) as (U & G & M & T & _).
    unfold hkey in N. destruct (dev x) as [d0|] eqn:Dx; [|congruence].
    destruct (ino x) as [i0|] eqn:Ix; [|congruence].
    unfold can_link. rewrite Rex, Dx, Ix, D, I, <- U, <- G, <- M, <- T. cbn. rewrite !N.eqb_refl. reflexivity.
  Qed.

  Lemma can_link_hkey x ex : can_link x ex = true -> hkey x <> None /\ hkey x = hkey ex.
  Proof.
    unfold can_link. intros H. repeat (apply andb_true_iff in H as [H ?]).
    unfold hkey. unfold oN_eqb, is_some in *.
    destruct (dev x), (ino x), (dev ex), (ino ex); try discriminate.
    repeat match goal with X : N.eqb _ _ = true |- _ => apply N.eqb_eq in X end. subst. split; congruence.
  Qed.

  Lemma files_back F : forall seen cache i A,
    (forall e, In e F -> In e c) -> NoDup (map loc F) ->
    (forall f n, In (f, n) A -> ~ In (loc f) (map loc F)) ->
    Ainv A seen cache i ->
    exists es A', raw_of i cache (add_nondirs seen F) = Some es /\
      Forall2 (fun f e => obs e = obs f /\ (is_reg f = true -> exists n, ino e = Some n /\ In (f, n) A')) F es /\
      (forall p, In p A -> In p A') /\
      (forall f n g m, In (f, n) A' -> In (g, m) A' -> (n = m <-> same_file f g)).
  Proof.
    induction F as [|x r IH]; intros seen cache i A HF ND HD (I1 & I2 & I3 & I4).
    - exists [], A. split; [reflexivity|]. split; [constructor|]. split; [auto|exact I2].
    - assert (Hx : In x c) by (apply HF; left; reflexivity).
      assert (HFr : forall e, In e r -> In e c) by (intros e He; apply HF; right; exact He).
      cbn in ND. inversion ND as [|? ? NDx NDr]; subst.
      assert (HDr : forall f n, In (f, n) A -> ~ In (loc f) (map loc r))
        by (intros f n Hf E; apply (HD f n Hf); right; exact E).
      assert (HDx : forall f n, In (f, n) A -> loc f <> loc x)
        by (intros f n Hf E; apply (HD f n Hf); left; symmetry; exact E).
      destruct (knd x) eqn:Kx.
      2,3,4,5:
        (assert (Hk : knd x <> KReg) by congruence;
         assert (Rx : is_reg x = false) by (unfold is_reg; rewrite Kx; reflexivity);
         destruct (IH seen cache (N.succ i) A HFr NDr HDr) as (es & A' & E & F2 & Sub & Cl);
         [ split; [|split; [exact I2|split; [exact I3|exact I4]]];
           intros f n Hf; destruct (I1 f n Hf) as (? & ? & ?); repeat split; auto; lia |];
         destruct (nonreg_back x i cache (add_nondirs seen r) Hx Hk) as (e & Oe & Ee);
         exists (e :: es), A'; (split; [|split; [|split; [exact Sub|exact Cl]]]);
         [ cbn [add_nondirs]; rewrite Kx; rewrite Ee, E; reflexivity
         | constructor; [split; [exact Oe|rewrite Rx; discriminate]|exact F2] ]).
      (* a regular file *)
      assert (Rx : is_reg x = true) by (unfold is_reg; rewrite Kx; reflexivity).
      destruct (name_roundtrip_proof (loc x) (wf_loc c Hwf x Hx)) as (N1 & _ & _).
      destruct (bits_facts (mode x) (wf_mode c Hwf x Hx ltac:(congruence))) as (Bm & _).
      cbn [add_nondirs]. rewrite Kx.
      destruct (find_key (dev x) (ino x) seen) as [ex|] eqn:FK.
      + destruct (find_key_some _ _ _ _ FK) as (Hex & Dex & Iex).
        destruct (I3 ex Hex) as (nex & Aex & Cex).
        destruct (I1 ex nex Aex) as (Cex' & Rex & Bex).
        destruct (can_link x ex) eqn:CL.
        * (* written as a hardlink to ex *)
          destruct (can_link_hkey x ex CL) as (Nk & Ek).
          destruct (name_roundtrip_proof (loc ex) (wf_loc c Hwf ex Cex')) as (_ & L2 & _).
          assert (Kex : knd ex = KReg) by (unfold is_reg in Rex; destruct (knd ex); cbn in Rex; congruence).
          destruct (wf_inode c Hwf x ex Hx Cex' Kx Kex Nk Ek) as (_ & _ & _ & _ & Dt).
          destruct (IH seen ((loc x, (nex, data ex)) :: cache) (N.succ i) ((x, nex) :: A) HFr NDr)
            as (es & A' & E & F2 & Sub & Cl).
          { intros f n [Hf|Hf]; [injection Hf as <- <-; exact NDx|apply (HDr f n Hf)]. }
          { split; [|split; [|split]].
            - intros f n H. destruct H as [H|H].
              + injection H as <- <-. repeat split; auto; lia.
              + destruct (I1 f n H) as (? & ? & ?). repeat split; auto; lia.
            - intros f n g m [Hf|Hf] [Hg|Hg].
              + injection Hf as <- <-. injection Hg as <- <-. split; [left; reflexivity|reflexivity].
              + injection Hf as <- <-. rewrite (I2 ex nex g m Aex Hg).
                apply same_file_shift; auto. apply (I1 g m Hg).
              + injection Hg as <- <-. rewrite (I2 f n ex nex Hf Aex).
                split; intro S; apply same_file_sym; apply same_file_sym in S;
                  apply (same_file_shift x ex f); auto; apply (I1 f n Hf).
              + apply I2; assumption.
            - intros y Hy. destruct (I3 y Hy) as (ny & Ay & Cy). exists ny. split; [right; exact Ay|].
              cbn [cache_get]. rewrite str_eqb_false; [exact Cy|]. intro E. apply (HDx y ny Ay). symmetry. exact E.
            - intros f n [Hf|Hf]; [injection Hf as <- <-; eauto|apply (I4 f n Hf)]. }
          eexists (_ :: es), A'. split; [|split; [|split; [|exact Cl]]].
          -- cbn [raw_of as_link to_info mty mname mlink loc]. rewrite L2, Cex, N1, E. reflexivity.
          -- constructor; [|exact F2]. split.
             ++ unfold obs; cbn. rewrite Kx, Bm, Dt. reflexivity.
             ++ intros _. exists nex. split; [reflexivity|apply Sub; left; reflexivity].
          -- intros p Hp. apply Sub. right. exact Hp.
        * (* same key but not linkable: its inode is not known; written as a file of its own *)
          assert (Nk : hkey x = None).
          { destruct (hkey x) eqn:Hk; [|reflexivity]. exfalso.
            rewrite (can_link_true x ex) in CL; auto; [discriminate|congruence]. }
          destruct (IH seen ((loc x, (i, data x)) :: cache) (N.succ i) ((x, i) :: A) HFr NDr)
            as (es & A' & E & F2 & Sub & Cl).
          { intros f n [Hf|Hf]; [injection Hf as <- <-; exact NDx|apply (HDr f n Hf)]. }
          { split; [|split; [|split]].
            - intros f n H. destruct H as [H|H].
              + injection H as <- <-. repeat split; auto; lia.
              + destruct (I1 f n H) as (? & ? & ?). repeat split; auto; lia.
            - intros f n g m [Hf|Hf] [Hg|Hg].
              + injection Hf as <- <-. injection Hg as <- <-. split; [left; reflexivity|reflexivity].
              + injection Hf as <- <-. destruct (I1 g m Hg) as (_ & _ & Bg). split; [lia|].
                intros [L|[N _]]; [exfalso; apply (HDx g m Hg); auto|congruence].
              + injection Hg as <- <-. destruct (I1 f n Hf) as (_ & _ & Bf). split; [lia|].
                intros [L|[N E']]; [exfalso; apply (HDx f n Hf); auto|congruence].
              + apply I2; assumption.
            - intros y Hy. destruct (I3 y Hy) as (ny & Ay & Cy). exists ny. split; [right; exact Ay|].
              cbn [cache_get]. rewrite str_eqb_false; [exact Cy|]. intro E. apply (HDx y ny Ay). symmetry. exact E.
            - intros f n [Hf|Hf]; [injection Hf as <- <-; eauto|apply (I4 f n Hf)]. }
          eexists (_ :: es), A'. split; [|split; [|split; [|exact Cl]]].
          -- cbn [raw_of to_info mty mname mdata loc]. rewrite Kx. cbn [mty]. rewrite N1, E. reflexivity.
          -- constructor; [|exact F2]. split.
             ++ unfold obs; cbn. rewrite Kx, Bm. reflexivity.
             ++ intros _. exists i. split; [reflexivity|apply Sub; left; reflexivity].
          -- intros p Hp. apply Sub. right. exact Hp.
      + (* the first file with this key *)
        destruct (IH (seen ++ [x]) ((loc x, (i, data x)) :: cache) (N.succ i) ((x, i) :: A) HFr NDr)
          as (es & A' & E & F2 & Sub & Cl).
        { intros f n [Hf|Hf]; [injection Hf as <- <-; exact NDx|apply (HDr f n Hf)]. }
        { split; [|split; [|split]].
          - intros f n H. destruct H as [H|H].
            + injection H as <- <-. repeat split; auto; lia.
            + destruct (I1 f n H) as (? & ? & ?). repeat split; auto; lia.
          - assert (NS : forall g m, In (g, m) A -> ~ same_file x g).
            { intros g m Hg [L|[N E']]; [apply (HDx g m Hg); auto|].
              destruct (I4 g m Hg) as (y & Fy). unfold hkey in N, E'.
              destruct (dev x) eqn:D1, (ino x) eqn:I1', (dev g) eqn:D2, (ino g) eqn:I2'; try congruence. }
            intros f n g m [Hf|Hf] [Hg|Hg].
            + injection Hf as <- <-. injection Hg as <- <-. split; [left; reflexivity|reflexivity].
            + injection Hf as <- <-. destruct (I1 g m Hg) as (_ & _ & Bg). split; [lia|].
              intros S. exfalso. apply (NS g m Hg S).
            + injection Hg as <- <-. destruct (I1 f n Hf) as (_ & _ & Bf). split; [lia|].
              intros S. exfalso. apply (NS f n Hf). apply same_file_sym. exact S.
            + apply I2; assumption.
          - intros y Hy. apply in_app_or in Hy as [Hy|[<-|[]]].
            + destruct (I3 y Hy) as (ny & Ay & Cy). exists ny. split; [right; exact Ay|].
              cbn [cache_get]. rewrite str_eqb_false; [exact Cy|]. intro E. apply (HDx y ny Ay). symmetry. exact E.
            + exists i. split; [left; reflexivity|]. cbn [cache_get]. rewrite str_eqb_refl. reflexivity.
          - intros f n [Hf|Hf].
            + injection Hf as <- <-. rewrite find_key_app, FK. cbn. rewrite !oN_eqb_refl. eexists; reflexivity.
            + destruct (I4 f n Hf) as (y & Fy). rewrite find_key_app, Fy. eexists; reflexivity. }
        eexists (_ :: es), A'. split; [|split; [|split; [|exact Cl]]].
        -- cbn [raw_of to_info mty mname mdata loc]. rewrite Kx. cbn [mty]. rewrite N1, E. reflexivity.
        -- constructor; [|exact F2]. split.
           ++ unfold obs; cbn. rewrite Kx, Bm. reflexivity.
           ++ intros _. exists i. split; [reflexivity|apply Sub; left; reflexivity].
        -- intros p Hp. apply Sub. right. exact Hp.
  Qed.
End RoundTrip.

(* ================================================================== the round trip *)
Lemma Forall2_in_l {A B} (R : A -> B -> Prop) l l' x : Forall2 R l l' -> In x l -> exists y, In y l' /\ R x y.
Proof.
  induction 1 as [|a b l l' Hab H IH]; intros Hx; [destruct Hx|]. destruct Hx as [<-|Hx].
  - exists b. split; [left; reflexivity|exact Hab].
  - destruct (IH Hx) as (y & Hy & Ry). exists y. split; [right; exact Hy|exact Ry].
Qed.
Lemma Forall2_in_r {A B} (R : A -> B -> Prop) l l' y : Forall2 R l l' -> In y l' -> exists x, In x l /\ R x y.
Proof.
  induction 1 as [|a b l l' Hab H IH]; intros Hy; [destruct Hy|]. destruct Hy as [<-|Hy].
  - exists a. split; [left; reflexivity|exact Hab].
  - destruct (IH Hy) as (x & Hx & Rx). exists x. split; [right; exact Hx|exact Rx].
Qed.
Lemma Forall2_impl {A B} (R1 R2 : A -> B -> Prop) l l' :
  (forall a b, R1 a b -> R2 a b) -> Forall2 R1 l l' -> Forall2 R2 l l'.
Proof. intros H. induction 1; constructor; auto. Qed.
Lemma Forall2_map_eq {A B C} (f : A -> C) (g : B -> C) l l' :
  Forall2 (fun a b => g b = f a) l l' -> map g l' = map f l.
Proof. induction 1; cbn; congruence. Qed.

Lemma nodup_filter_loc (f : entry -> bool) l : NoDup (map loc l) -> NoDup (map loc (filter f l)).
Proof.
  induction l as [|x r IH]; cbn; intros H; [constructor|]. inversion H as [|? ? Hx Hr]; subst.
  destruct (f x); cbn; auto. constructor; auto. intro E. apply Hx.
  apply in_map_iff in E as (y & E & Hy). apply filter_In in Hy as [Hy _]. rewrite <- E. apply in_map. exact Hy.
Qed.

Theorem tar_roundtrip_proof : forall c, wf c -> flat c -> parents_closed c ->
  exists r, of_members (to_members c) = Ok r /\ roundtrip_ok c r.
Proof.
  intros c Hwf Hflat Hcl.
  set (D := sort_loc (filter is_dir c)). set (F := filter (fun e => negb (is_dir e)) c).
  assert (HD : forall e, In e D -> In e c /\ is_dir e = true).
  { intros e He. apply (Permutation_in _ (isort_perm _ _)) in He. apply filter_In in He. exact He. }
  assert (HF : forall e, In e F -> In e c) by (intros e He; apply filter_In in He; apply He).
  assert (PDF : Permutation (D ++ F) c).
  { eapply perm_trans; [|apply (filter_split_perm is_dir)]. apply Permutation_app_tail. apply isort_perm. }
  destruct (dirs_back c Hwf D 0%N [] (add_nondirs [] F) HD) as (ds & j & F2d & E1).
  destruct (files_back c Hwf F [] [] j []) as (es & A' & E2 & F2f & _ & Cl).
  { exact HF. }
  { apply nodup_filter_loc. apply (wf_nodup c Hwf). }
  { intros f n []. }
  { repeat split; intros; try contradiction. }
  set (raw := ds ++ es).
  assert (F2 : Forall2 (fun f e => obs e = obs f) (D ++ F) raw).
  { apply Forall2_app; [exact F2d|]. eapply Forall2_impl; [|exact F2f]. intros a b [H _]. exact H. }
  assert (Eraw : raw_of 0 [] (to_members c) = Some raw).
  { unfold to_members. fold D. fold F. rewrite E1, E2. reflexivity. }
  assert (Eobs : map obs raw = map obs (D ++ F)) by (apply Forall2_map_eq; exact F2).
  assert (Eloc : map loc raw = map loc (D ++ F)).
  { apply Forall2_map_eq. eapply Forall2_impl; [|exact F2]. intros a b H. apply obs_loc. exact H. }
  assert (Ploc : Permutation (map loc raw) (map loc c)) by (rewrite Eloc; apply Permutation_map; exact PDF).
  assert (Back : forall e, In e raw -> exists f, In f c /\ obs e = obs f).
  { intros e He. destruct (Forall2_in_r _ _ _ e F2 He) as (f & Hf & O). exists f. split; [|exact O].
    apply (Permutation_in _ PDF). exact Hf. }
  assert (NDraw : NoDup (map loc raw)).
  { apply (Permutation_NoDup (l := map loc c)); [symmetry; exact Ploc|apply (wf_nodup c Hwf)]. }
  destruct (convert_flat raw NDraw) as (r & Er & Pr).
  { intros e He. destruct (Back e He) as (f & Hf & O). rewrite (obs_loc _ _ O). apply (wf_loc c Hwf). exact Hf. }
  { intros s e Hs He Ss. destruct (Back s Hs) as (fs & Hfs & Os). destruct (Back e He) as (fe & Hfe & Oe).
    rewrite (obs_loc _ _ Os), (obs_loc _ _ Oe). apply Hflat; auto.
    rewrite <- (obs_knd _ _ Os). unfold is_sym in Ss. destruct (knd s); cbn in Ss; congruence. }
  { intros e He. destruct (Back e He) as (f & Hf & O). rewrite (obs_loc _ _ O).
    destruct (Hcl f Hf) as [E|E]; [left; exact E|right].
    apply (Permutation_in (l := map loc c)); [symmetry; exact Ploc|exact E]. }
  exists r. split; [unfold of_members; rewrite Eraw; exact Er|]. split.
  - eapply perm_trans; [apply Permutation_map; exact Pr|]. rewrite Eobs. apply Permutation_map. exact PDF.
  - intros e1 e2 r1 r2 H1 H2 Hr1 Hr2 K1 K2 L1 L2.
    assert (G : forall e r0, In e c -> knd e = KReg -> In r0 r -> loc r0 = loc e ->
                exists n, ino r0 = Some n /\ In (e, n) A').
    { intros e r0 He Ke Hr0 L.
      assert (HeF : In e F).
      { apply filter_In. split; [exact He|]. unfold is_dir. rewrite Ke. reflexivity. }
      destruct (Forall2_in_l _ _ _ e F2f HeF) as (e' & He' & O & I).
      destruct (I ltac:(unfold is_reg; rewrite Ke; reflexivity)) as (n & In' & HA).
      assert (r0 = e').
      { apply (nodup_loc_inj raw); auto.
        - apply (Permutation_in _ Pr). exact Hr0.
        - apply in_or_app. right. exact He'.
        - rewrite L. symmetry. apply obs_loc. exact O. }
      subst. eauto. }
    destruct (G e1 r1 H1 K1 Hr1 L1) as (n1 & I1 & A1).
    destruct (G e2 r2 H2 K2 Hr2 L2) as (n2 & I2 & A2).
    rewrite I1, I2, <- (Cl e1 n1 e2 n2 A1 A2). split; congruence.
Qed.

(* ================================================================== non-vacuity and the known class *)
Local Open Scope N_scope.
Definition ex_dir  := mkE [47;117]%N KDir 493 0 0 40 [] None None 0 0 0 0 0.                       (* /u *)
Definition ex_f1   := mkE [47;117;47;97]%N KReg 420 1000 100 4000 [] (Some 1) (Some 7) 1 5 0 0 0.  (* /u/a *)
Definition ex_f2   := mkE [47;117;47;98]%N KReg 420 1000 100 4000 [] (Some 1) (Some 7) 1 5 0 0 0.  (* /u/b, same inode *)
Definition ex_f3   := mkE [47;99]%N KReg 384 0 0 1 [] (Some 1) (Some 8) 2 0 0 0 0.                 (* /c *)
Definition ex_sym  := mkE [47;108]%N KSym 511 0 0 9 [117]%N None None 0 0 0 0 0.                   (* /l -> u *)
Definition ex_fifo := mkE [47;117;47;112]%N KFifo 384 0 0 3 [] None None 0 0 0 0 0.                (* /u/p *)
Definition ex_dev  := mkE [47;117;47;110]%N KDev (N.lor 432 S_IFCHR) 0 0 3 [] None None 0 0 1 3 0. (* /u/n c 1 3 *)
Definition ex_set := [ex_f2; ex_sym; ex_dir; ex_f1; ex_dev; ex_f3; ex_fifo].

(* what the example set is written as, and what it reads back as: /u/a has become a hardlink of /u/b
   (the first of the two in the set's order), and both read back with one inode *)
Example ex_members : map (fun m => (mname m, mty m, mlink m)) (to_members ex_set) =
  [([46;47;117]%N, MDir, []); ([46;47;117;47;98]%N, MReg, []); ([46;47;108]%N, MSym, [117]%N);
   ([46;47;117;47;97]%N, MLnk, [46;47;117;47;98]%N); ([46;47;117;47;110]%N, MChr, []);
   ([46;47;99]%N, MReg, []); ([46;47;117;47;112]%N, MFifo, [])].
Proof. vm_compute. reflexivity. Qed.
Example ex_read : match of_members (to_members ex_set) with
                  | Ok r => map (fun e => (loc e, knd e, ino e, data e)) r
                  | Fail _ => [] end =
  [([47;117]%N, KDir, None, 0%N); ([47;108]%N, KSym, None, 0%N); ([47;117;47;110]%N, KDev, None, 0%N);
   ([47;117;47;112]%N, KFifo, None, 0%N); ([47;117;47;98]%N, KReg, Some 1%N, 1%N);
   ([47;117;47;97]%N, KReg, Some 1%N, 1%N); ([47;99]%N, KReg, Some 5%N, 2%N)].
Proof. vm_compute. reflexivity. Qed.

(* the hypotheses of the theorem are satisfiable by that set *)
Lemma plainc_dec_ok c : c <> [] -> c <> dot -> c <> dotdot -> forallb (fun x => negb (is_sl x)) c = true -> plainc c.
Proof. intros; repeat split; assumption. Qed.
Example ex_wf : wf ex_set /\ flat ex_set /\ parents_closed ex_set.
Proof.
  assert (PL : forall e, In e ex_set -> plain_loc (loc e)).
  { intros e He. cbn in He.
    repeat destruct He as [<-|He]; try contradiction; cbn [loc ex_f2 ex_sym ex_dir ex_f1 ex_dev ex_f3 ex_fifo].
    - exists [[117]; [98]]%N. repeat split; try discriminate. repeat constructor; apply plainc_dec_ok; try discriminate; reflexivity.
    - exists [[108]]%N. repeat split; try discriminate. repeat constructor; apply plainc_dec_ok; try discriminate; reflexivity.
    - exists [[117]]%N. repeat split; try discriminate. repeat constructor; apply plainc_dec_ok; try discriminate; reflexivity.
    - exists [[117]; [97]]%N. repeat split; try discriminate. repeat constructor; apply plainc_dec_ok; try discriminate; reflexivity.
    - exists [[117]; [110]]%N. repeat split; try discriminate. repeat constructor; apply plainc_dec_ok; try discriminate; reflexivity.
    - exists [[99]]%N. repeat split; try discriminate. repeat constructor; apply plainc_dec_ok; try discriminate; reflexivity.
    - exists [[117]; [112]]%N. repeat split; try discriminate. repeat constructor; apply plainc_dec_ok; try discriminate; reflexivity. }
  split; [constructor|split].
  - exact PL.
  - cbn. repeat constructor; cbn; intuition discriminate.
  - intros e He K. cbn in He. repeat destruct He as [<-|He]; try contradiction; cbn; try reflexivity; congruence.
  - intros e He K. cbn in He. repeat destruct He as [<-|He]; try contradiction; try discriminate.
    exists 432%N. split; [reflexivity|left; reflexivity].
  - intros e1 e2 H1 H2 K1 K2 N E. cbn in H1, H2.
    repeat destruct H1 as [<-|H1]; try contradiction; try discriminate;
      repeat destruct H2 as [<-|H2]; try contradiction; try discriminate; cbn; auto.
  - intros s e Hs He K (rest & E). cbn in Hs, He.
    repeat destruct Hs as [<-|Hs]; try contradiction; try discriminate;
      repeat destruct He as [<-|He]; try contradiction; discriminate.
  - intros e He. cbn in He.
    repeat destruct He as [<-|He]; try contradiction; vm_compute; auto 10.
Qed.

(* The full statement (entries recorded beneath symlinks to directories end up where a live merge
   would put them, i.e. beneath no symlink) is FALSE for chains of directory symlinks: *)
Definition no_entry_beneath_symlink (r : list entry) : Prop :=
  forall s e, In s r -> In e r -> knd s = KSym -> ~ beneath (loc s) (loc e).
Definition symdirs_resolved_full_statement : Prop :=
  forall c r, NoDup (map loc c) -> of_members (to_members c) = Ok r -> no_entry_beneath_symlink r.

Definition chain_set :=
  [ mkE [47;115;98;105;110]%N KDir 493 0 0 0 [] None None 0 0 0 0 0;                  (* /sbin *)
    mkE [47;90;122;49;47;90]%N KDir 493 0 0 0 [] None None 0 0 0 0 0;                 (* /Zz1/Z *)
    mkE [47;108;110;107;48]%N KSym 511 0 0 0 [115;98;105;110]%N None None 0 0 0 0 0;  (* /lnk0 -> sbin *)
    mkE [47;90;122;49]%N KSym 511 0 0 0 [47;108;110;107;48]%N None None 0 0 0 0 0 ].  (* /Zz1 -> /lnk0 *)

Lemma beneathb_beneath d p : beneathb d p = true -> beneath d p.
Proof.
  unfold beneathb. intros H. apply starts_with_iff in H as (rest & ->). exists rest.
  rewrite <- app_assoc. reflexivity.
Qed.

Theorem symdirs_resolved_refuted_proof : ~ symdirs_resolved_full_statement.
Proof.
  intros H.
  destruct (of_members (to_members chain_set)) as [r|k] eqn:E; [|vm_compute in E; discriminate].
  assert (ND : NoDup (map loc chain_set)) by (cbn; repeat constructor; cbn; intuition discriminate).
  assert (B : existsb (fun s => is_sym s && existsb (fun e => beneathb (loc s) (loc e)) r) r = true).
  { vm_compute in E. injection E as <-. vm_compute. reflexivity. }
  apply existsb_exists in B as (s & Hs & B). apply andb_true_iff in B as [S B].
  apply existsb_exists in B as (e & He & B).
  apply (H chain_set r ND E s e Hs He).
  - unfold is_sym in S. destruct (knd s); cbn in S; congruence.
  - apply beneathb_beneath. exact B.
Qed.

(* the class in which that happens is decidable (Spec_C25.chain_classb); outside it, and for sets
   scanned from disk in particular, nothing lies beneath a symlink in the first place *)
Example chain_set_in_class : chain_classb chain_set = true.
Proof. vm_compute. reflexivity. Qed.
Example ex_set_not_in_class : chain_classb ex_set = false.
Proof. vm_compute. reflexivity. Qed.
