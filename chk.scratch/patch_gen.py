h = open("/verif/harness/c17.py").read()
n0 = len(h)
h = h.replace('''        h.append(e)
        if e[0] == "rb":
            ps.backtrack(e[1])
            live = [(m, x) for m, x in live if m < e[1]]
        else:
            m = len(ps.plan)
            do_call(st, ps, U, e)
            live.append((m, e))
    return h''', '''        h.append(e)
        try:
            if e[0] == "rb":
                ps.backtrack(e[1])
                live = [(m, x) for m, x in live if m < e[1]]
            else:
                m = len(ps.plan)
                do_call(st, ps, U, e)
                live.append((m, e))
        except Exception:  # noqa: BLE001 - a well-formed event raised: run_history will report it
            break
    return h''')
h = h.replace('''        U = Universe(cfg)
        ps = st.plan_state()
        live = []
        for e in h:
            if e[0] == "rb":
                ps.backtrack(e[1])
                live = [(m, x) for m, x in live if m < e[1]]
            else:
                m = len(ps.plan)
                do_call(st, ps, U, e)
                live.append((m, e))
        for e in wf_candidates(st, ps, U, live):''', '''        U = Universe(cfg)
        ps = st.plan_state()
        live = []
        try:
            for e in h:
                if e[0] == "rb":
                    ps.backtrack(e[1])
                    live = [(m, x) for m, x in live if m < e[1]]
                else:
                    m = len(ps.plan)
                    do_call(st, ps, U, e)
                    live.append((m, e))
        except Exception:  # noqa: BLE001 - a well-formed event raised: keep the history as a case
            res.append(list(h))
            return
        for e in wf_candidates(st, ps, U, live):''')
h = h.replace('''    if len(exh) > cap:
        exh = rng.sample(exh, cap)''', '''    if len(exh) > cap:  # histories cut short by an exception are kept first
        short = [h for h in exh if len(h) < depth][:cap // 2]
        exh = short + rng.sample([h for h in exh if len(h) == depth], cap - len(short))''')
assert len(h) != n0
open("/verif/harness/c17.py","w").write(h)
