From Coq Require Import List NArith ZArith Bool.
From Verif Require Import Base.Val C10.Model_C10 C10.Spec_C10.
Import ListNotations.

Definition cases : list ((fcs_input) * val) := 
[
  (([(Flag true false [0%N])], ([0%N], (@nil (N)), [0%N], [5%N])),
   (prob_val [(0, [false])]%N [(1, [0])]%N));
  (([(Flag true false [0%N])], ([0%N], (@nil (N)), (@nil (N)), (@nil (N)))),
   (prob_val [(0, [true; false])]%N [(1, [0])]%N));
  (([(Flag true false [0%N])], ([0%N], [0%N], (@nil (N)), [0%N])),
   (prob_val [(0, [true])]%N [(1, [0])]%N));
  (([(Flag true false [0%N])], ([0%N], (@nil (N)), [0%N], [5%N])),
   (prob_val [(0, [false])]%N [(1, [0])]%N));
  (([(Flag true false [0%N])], ([0%N; 5%N], (@nil (N)), (@nil (N)), (@nil (N)))),
   (prob_val [(0, [true; false]); (5, [true; false])]%N [(1, [0])]%N));
  (([(Flag true false [0%N])], ([0%N; 5%N], [0%N], (@nil (N)), [0%N])),
   (prob_val [(0, [true]); (5, [true; false])]%N [(1, [0])]%N));
  (([(Flag true false [0%N])], ([0%N; 5%N], (@nil (N)), [0%N], [5%N])),
   (prob_val [(0, [false]); (5, [false; true])]%N [(1, [0])]%N));
  (([(Grp KOr false [(Flag false false [0%N]); (Flag false false [1%N])])], ([0%N; 1%N], (@nil (N)), (@nil (N)), (@nil (N)))),
   (prob_val [(0, [true; false]); (1, [true; false])]%N [(3, [1; 2; 3])]%N));
  (([(Grp KOr false [(Flag false false [0%N]); (Flag false false [1%N])])], ([0%N; 1%N], [0%N], (@nil (N)), [0%N; 1%N])),
   (prob_val [(0, [true]); (1, [false; true])]%N [(3, [1; 2; 3])]%N));
  (([(Grp KOr false [(Flag false false [0%N]); (Flag false false [1%N])])], ([0%N; 1%N], (@nil (N)), [0%N], [5%N])),
   (prob_val [(0, [false]); (1, [true; false])]%N [(3, [1; 2; 3])]%N));
  (([(Grp KOr false [(Flag false false [0%N]); (Flag false false [1%N])])], ([0%N], (@nil (N)), (@nil (N)), (@nil (N)))),
   (prob_val [(0, [true; false]); (1, [false])]%N [(3, [1; 2; 3])]%N));
  (([(Grp KOr false [(Flag false false [0%N]); (Flag false false [1%N])])], ([0%N], [0%N], (@nil (N)), [0%N; 1%N])),
   (prob_val [(0, [true]); (1, [false])]%N [(3, [1; 2; 3])]%N));
  (([(Grp KOr false [(Flag false false [0%N]); (Flag false false [1%N])])], ([0%N], (@nil (N)), [0%N], [5%N])),
   (prob_val [(0, [false]); (1, [false])]%N [(3, [1; 2; 3])]%N));
  (([(Grp KOr false [(Flag false false [0%N]); (Flag false false [1%N])])], ([0%N; 1%N; 5%N], (@nil (N)), (@nil (N)), (@nil (N)))),
   (prob_val [(0, [true; false]); (1, [true; false]); (5, [true; false])]%N [(3, [1; 2; 3])]%N));
  (([(Grp KOr false [(Flag false false [0%N]); (Flag false false [1%N])])], ([0%N; 1%N; 5%N], [0%N], (@nil (N)), [0%N; 1%N])),
   (prob_val [(0, [true]); (1, [false; true]); (5, [true; false])]%N [(3, [1; 2; 3])]%N));
  (([(Grp KOr false [(Flag false false [0%N]); (Flag false false [1%N])])], ([0%N; 1%N; 5%N], (@nil (N)), [0%N], [5%N])),
   (prob_val [(0, [false]); (1, [true; false]); (5, [false; true])]%N [(3, [1; 2; 3])]%N));
  (([(Grp KOne false [(Flag false false [0%N]); (Flag false false [1%N]); (Flag false false [2%N])])], ([0%N; 1%N; 2%N], (@nil (N)), (@nil (N)), (@nil (N)))),
   (prob_val [(0, [true; false]); (1, [true; false]); (2, [true; false])]%N [(7, [1; 2; 4])]%N));
  (([(Grp KOne false [(Flag false false [0%N]); (Flag false false [1%N]); (Flag false false [2%N])])], ([0%N; 1%N; 2%N], [0%N], (@nil (N)), [0%N; 1%N; 2%N])),
   (prob_val [(0, [true]); (1, [false; true]); (2, [false; true])]%N [(7, [1; 2; 4])]%N));
  (([(Grp KOne false [(Flag false false [0%N]); (Flag false false [1%N]); (Flag false false [2%N])])], ([0%N; 1%N; 2%N], (@nil (N)), [0%N], [5%N])),
   (prob_val [(0, [false]); (1, [true; false]); (2, [true; false])]%N [(7, [1; 2; 4])]%N));
  (([(Grp KOne false [(Flag false false [0%N]); (Flag false false [1%N]); (Flag false false [2%N])])], ([0%N], (@nil (N)), (@nil (N)), (@nil (N)))),
   (prob_val [(0, [true; false]); (1, [false]); (2, [false])]%N [(7, [1; 2; 4])]%N));
  (([(Grp KOne false [(Flag false false [0%N]); (Flag false false [1%N]); (Flag false false [2%N])])], ([0%N], [0%N], (@nil (N)), [0%N; 1%N; 2%N])),
   (prob_val [(0, [true]); (1, [false]); (2, [false])]%N [(7, [1; 2; 4])]%N));
  (([(Grp KOne false [(Flag false false [0%N]); (Flag false false [1%N]); (Flag false false [2%N])])], ([0%N], (@nil (N)), [0%N], [5%N])),
   (prob_val [(0, [false]); (1, [false]); (2, [false])]%N [(7, [1; 2; 4])]%N));
  (([(Grp KOne false [(Flag false false [0%N]); (Flag false false [1%N]); (Flag false false [2%N])])], ([0%N; 1%N; 2%N; 5%N], (@nil (N)), (@nil (N)), (@nil (N)))),
   (prob_val [(0, [true; false]); (1, [true; false]); (2, [true; false]); (5, [true; false])]%N [(7, [1; 2; 4])]%N));
  (([(Grp KOne false [(Flag false false [0%N]); (Flag false false [1%N]); (Flag false false [2%N])])], ([0%N; 1%N; 2%N; 5%N], [0%N], (@nil (N)), [0%N; 1%N; 2%N])),
   (prob_val [(0, [true]); (1, [false; true]); (2, [false; true]); (5, [true; false])]%N [(7, [1; 2; 4])]%N));
  (([(Grp KOne false [(Flag false false [0%N]); (Flag false false [1%N]); (Flag false false [2%N])])], ([0%N; 1%N; 2%N; 5%N], (@nil (N)), [0%N], [5%N])),
   (prob_val [(0, [false]); (1, [true; false]); (2, [true; false]); (5, [false; true])]%N [(7, [1; 2; 4])]%N));
  (([(Grp KAmo false [(Flag false false [0%N]); (Flag false false [1%N])])], ([0%N; 1%N], (@nil (N)), (@nil (N)), (@nil (N)))),
   (prob_val [(0, [true; false]); (1, [true; false])]%N [(3, [0; 1; 2])]%N));
  (([(Grp KAmo false [(Flag false false [0%N]); (Flag false false [1%N])])], ([0%N; 1%N], [0%N], (@nil (N)), [0%N; 1%N])),
   (prob_val [(0, [true]); (1, [false; true])]%N [(3, [0; 1; 2])]%N));
  (([(Grp KAmo false [(Flag false false [0%N]); (Flag false false [1%N])])], ([0%N; 1%N], (@nil (N)), [0%N], [5%N])),
   (prob_val [(0, [false]); (1, [true; false])]%N [(3, [0; 1; 2])]%N));
  (([(Grp KAmo false [(Flag false false [0%N]); (Flag false false [1%N])])], ([0%N], (@nil (N)), (@nil (N)), (@nil (N)))),
   (prob_val [(0, [true; false]); (1, [false])]%N [(3, [0; 1; 2])]%N));
  (([(Grp KAmo false [(Flag false false [0%N]); (Flag false false [1%N])])], ([0%N], [0%N], (@nil (N)), [0%N; 1%N])),
   (prob_val [(0, [true]); (1, [false])]%N [(3, [0; 1; 2])]%N));
  (([(Grp KAmo false [(Flag false false [0%N]); (Flag false false [1%N])])], ([0%N], (@nil (N)), [0%N], [5%N])),
   (prob_val [(0, [false]); (1, [false])]%N [(3, [0; 1; 2])]%N));
  (([(Grp KAmo false [(Flag false false [0%N]); (Flag false false [1%N])])], ([0%N; 1%N; 5%N], (@nil (N)), (@nil (N)), (@nil (N)))),
   (prob_val [(0, [true; false]); (1, [true; false]); (5, [true; false])]%N [(3, [0; 1; 2])]%N));
  (([(Grp KAmo false [(Flag false false [0%N]); (Flag false false [1%N])])], ([0%N; 1%N; 5%N], [0%N], (@nil (N)), [0%N; 1%N])),
   (prob_val [(0, [true]); (1, [false; true]); (5, [true; false])]%N [(3, [0; 1; 2])]%N));
  (([(Grp KAmo false [(Flag false false [0%N]); (Flag false false [1%N])])], ([0%N; 1%N; 5%N], (@nil (N)), [0%N], [5%N])),
   (prob_val [(0, [false]); (1, [true; false]); (5, [false; true])]%N [(3, [0; 1; 2])]%N));
  (([(Cond false 0%N [(Flag false false [1%N])])], ([0%N; 1%N], (@nil (N)), (@nil (N)), (@nil (N)))),
   (prob_val [(0, [true; false]); (1, [true; false])]%N [(3, [0; 2; 3])]%N));
  (([(Cond false 0%N [(Flag false false [1%N])])], ([0%N; 1%N], [0%N], (@nil (N)), [0%N; 1%N])),
   (prob_val [(0, [true]); (1, [false; true])]%N [(3, [0; 2; 3])]%N));
  (([(Cond false 0%N [(Flag false false [1%N])])], ([0%N; 1%N], (@nil (N)), [0%N], [5%N])),
   (prob_val [(0, [false]); (1, [true; false])]%N [(3, [0; 2; 3])]%N));
  (([(Cond false 0%N [(Flag false false [1%N])])], ([0%N], (@nil (N)), (@nil (N)), (@nil (N)))),
   (prob_val [(0, [true; false]); (1, [false])]%N [(3, [0; 2; 3])]%N));
  (([(Cond false 0%N [(Flag false false [1%N])])], ([0%N], [0%N], (@nil (N)), [0%N; 1%N])),
   (prob_val [(0, [true]); (1, [false])]%N [(3, [0; 2; 3])]%N));
  (([(Cond false 0%N [(Flag false false [1%N])])], ([0%N], (@nil (N)), [0%N], [5%N])),
   (prob_val [(0, [false]); (1, [false])]%N [(3, [0; 2; 3])]%N));
  (([(Cond false 0%N [(Flag false false [1%N])])], ([0%N; 1%N; 5%N], (@nil (N)), (@nil (N)), (@nil (N)))),
   (prob_val [(0, [true; false]); (1, [true; false]); (5, [true; false])]%N [(3, [0; 2; 3])]%N));
  (([(Cond false 0%N [(Flag false false [1%N])])], ([0%N; 1%N; 5%N], [0%N], (@nil (N)), [0%N; 1%N])),
   (prob_val [(0, [true]); (1, [false; true]); (5, [true; false])]%N [(3, [0; 2; 3])]%N));
  (([(Cond false 0%N [(Flag false false [1%N])])], ([0%N; 1%N; 5%N], (@nil (N)), [0%N], [5%N])),
   (prob_val [(0, [false]); (1, [true; false]); (5, [false; true])]%N [(3, [0; 2; 3])]%N));
  (([(Cond true 0%N [(Flag false false [1%N]); (Flag true false [2%N])])], ([0%N; 1%N; 2%N], (@nil (N)), (@nil (N)), (@nil (N)))),
   (prob_val [(0, [true; false]); (1, [true; false]); (2, [true; false])]%N [(3, [1; 2; 3]); (5, [0; 1; 5])]%N));
  (([(Cond true 0%N [(Flag false false [1%N]); (Flag true false [2%N])])], ([0%N; 1%N; 2%N], [0%N], (@nil (N)), [0%N; 1%N; 2%N])),
   (prob_val [(0, [true]); (1, [false; true]); (2, [false; true])]%N [(3, [1; 2; 3]); (5, [0; 1; 5])]%N));
  (([(Cond true 0%N [(Flag false false [1%N]); (Flag true false [2%N])])], ([0%N; 1%N; 2%N], (@nil (N)), [0%N], [5%N])),
   (prob_val [(0, [false]); (1, [true; false]); (2, [true; false])]%N [(3, [1; 2; 3]); (5, [0; 1; 5])]%N));
  (([(Cond true 0%N [(Flag false false [1%N]); (Flag true false [2%N])])], ([0%N], (@nil (N)), (@nil (N)), (@nil (N)))),
   (prob_val [(0, [true; false]); (1, [false]); (2, [false])]%N [(3, [1; 2; 3]); (5, [0; 1; 5])]%N));
  (([(Cond true 0%N [(Flag false false [1%N]); (Flag true false [2%N])])], ([0%N], [0%N], (@nil (N)), [0%N; 1%N; 2%N])),
   (prob_val [(0, [true]); (1, [false]); (2, [false])]%N [(3, [1; 2; 3]); (5, [0; 1; 5])]%N));
  (([(Cond true 0%N [(Flag false false [1%N]); (Flag true false [2%N])])], ([0%N], (@nil (N)), [0%N], [5%N])),
   (prob_val [(0, [false]); (1, [false]); (2, [false])]%N [(3, [1; 2; 3]); (5, [0; 1; 5])]%N));
  (([(Cond true 0%N [(Flag false false [1%N]); (Flag true false [2%N])])], ([0%N; 1%N; 2%N; 5%N], (@nil (N)), (@nil (N)), (@nil (N)))),
   (prob_val [(0, [true; false]); (1, [true; false]); (2, [true; false]); (5, [true; false])]%N [(3, [1; 2; 3]); (5, [0; 1; 5])]%N));
  (([(Cond true 0%N [(Flag false false [1%N]); (Flag true false [2%N])])], ([0%N; 1%N; 2%N; 5%N], [0%N], (@nil (N)), [0%N; 1%N; 2%N])),
   (prob_val [(0, [true]); (1, [false; true]); (2, [false; true]); (5, [true; false])]%N [(3, [1; 2; 3]); (5, [0; 1; 5])]%N));
  (([(Cond true 0%N [(Flag false false [1%N]); (Flag true false [2%N])])], ([0%N; 1%N; 2%N; 5%N], (@nil (N)), [0%N], [5%N])),
   (prob_val [(0, [false]); (1, [true; false]); (2, [true; false]); (5, [false; true])]%N [(3, [1; 2; 3]); (5, [0; 1; 5])]%N));
  (([(Cond false 0%N [(Cond false 1%N [(Flag false false [2%N])])])], ([0%N; 1%N; 2%N], (@nil (N)), (@nil (N)), (@nil (N)))),
   (prob_val [(0, [true; false]); (1, [true; false]); (2, [true; false])]%N [(7, [0; 1; 2; 4; 5; 6; 7])]%N));
  (([(Cond false 0%N [(Cond false 1%N [(Flag false false [2%N])])])], ([0%N; 1%N; 2%N], [0%N], (@nil (N)), [0%N; 1%N; 2%N])),
   (prob_val [(0, [true]); (1, [false; true]); (2, [false; true])]%N [(7, [0; 1; 2; 4; 5; 6; 7])]%N));
  (([(Cond false 0%N [(Cond false 1%N [(Flag false false [2%N])])])], ([0%N; 1%N; 2%N], (@nil (N)), [0%N], [5%N])),
   (prob_val [(0, [false]); (1, [true; false]); (2, [true; false])]%N [(7, [0; 1; 2; 4; 5; 6; 7])]%N));
  (([(Cond false 0%N [(Cond false 1%N [(Flag false false [2%N])])])], ([0%N], (@nil (N)), (@nil (N)), (@nil (N)))),
   (prob_val [(0, [true; false]); (1, [false]); (2, [false])]%N [(7, [0; 1; 2; 4; 5; 6; 7])]%N));
  (([(Cond false 0%N [(Cond false 1%N [(Flag false false [2%N])])])], ([0%N], [0%N], (@nil (N)), [0%N; 1%N; 2%N])),
   (prob_val [(0, [true]); (1, [false]); (2, [false])]%N [(7, [0; 1; 2; 4; 5; 6; 7])]%N));
  (([(Cond false 0%N [(Cond false 1%N [(Flag false false [2%N])])])], ([0%N], (@nil (N)), [0%N], [5%N])),
   (prob_val [(0, [false]); (1, [false]); (2, [false])]%N [(7, [0; 1; 2; 4; 5; 6; 7])]%N));
  (([(Cond false 0%N [(Cond false 1%N [(Flag false false [2%N])])])], ([0%N; 1%N; 2%N; 5%N], (@nil (N)), (@nil (N)), (@nil (N)))),
   (prob_val [(0, [true; false]); (1, [true; false]); (2, [true; false]); (5, [true; false])]%N [(7, [0; 1; 2; 4; 5; 6; 7])]%N));
  (([(Cond false 0%N [(Cond false 1%N [(Flag false false [2%N])])])], ([0%N; 1%N; 2%N; 5%N], [0%N], (@nil (N)), [0%N; 1%N; 2%N])),
   (prob_val [(0, [true]); (1, [false; true]); (2, [false; true]); (5, [true; false])]%N [(7, [0; 1; 2; 4; 5; 6; 7])]%N))
].
Eval vm_compute in (mismatches run_problem cases).
