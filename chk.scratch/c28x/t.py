import os, sys, shutil, tempfile
from harness import fsx
from pkgcore.ebuild import digest
from pkgcore.fetch import fetchable
d = tempfile.mkdtemp(prefix="c28x")
pk = os.path.join(d, "cat", "pkg"); os.makedirs(pk + "/files/sub")
open(pk+"/pkg-1.ebuild","w").write("x")
open(pk+"/metadata.xml","w").write("<a/>")
open(pk+"/files/a.patch","w").write("pp")
open(pk+"/files/sub/b.patch","w").write("qq")
open(pk+"/.update.Manifest","w").write("stale")
m = digest.Manifest(pk+"/Manifest", thin=False)
f = [fetchable("z-1.tar", chksums={"size": 5, "sha512": 77, "blake2b": 3}), fetchable("a-1.tar", chksums={"size": 6, "blake2b": 4})]
r = fsx.record(lambda: m.update(f, chfs=("size","blake2b","sha512")), d, chunk=200)
print(r.result, r.exc); 
for c in r.trace: print(c, c.cpaths)
print(open(pk+"/Manifest").read()[:300])
print(os.listdir(pk))
r = fsx.record(lambda: m.update(f, chfs=("size","blake2b","sha512")), d, chunk=200)
print(r.result, r.exc, r.trace)
print(digest.parse_manifest(pk+"/Manifest")[3])
for k in range(4):
    r = fsx.run_with_fault(lambda: m.update(f[:1], chfs=("size","blake2b","sha512")), d, k, "eio", chunk=300)
    print(k, r.result, repr(r.exc), r.trace, os.listdir(pk))
shutil.rmtree(d)
