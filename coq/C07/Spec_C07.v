(* Spec_C07.v — the statement of C07, without looking at how equality is computed.

   "Whenever two restrictions compare equal, they match exactly the same packages or values and have
    equal hashes.  Restriction-keyed caches therefore never return results computed for a different query." *)
From Coq Require Import List NArith ZArith Bool.
Import ListNotations.
From Verif Require Import Base.Val C01.Model_C01 C06.Restr C07.Model_C07.

(* two restriction objects are interchangeable: same hash key, same answer on EVERY subject,
   whatever the regex engine does with a pattern *)
Definition same_matches (a b : restr) : Prop := forall rx s, rmatch rx a s = rmatch rx b s.
Definition interchangeable (c : cfg) (a b : restr) : Prop := hk_eq c a b = true /\ same_matches a b.

(* the full statement of the property for the model *)
Definition C07_full_statement (c : cfg) : Prop :=
  forall a b, r_eq c a b = true -> interchangeable c a b.

(* what CPV parsing derives from an atom's cpvstr is a function of (cpvstr, op): the atom parser is not
   modelled, the derived fields are supplied by the harness from the parsed object *)
Definition atom_parsed_alike (x y : atomrec) : Prop :=
  a_cpvstr x = a_cpvstr y -> a_op x = a_op y ->
  a_cat x = a_cat y /\ a_pkg x = a_pkg y /\ a_fullver x = a_fullver y /\ a_ver x = a_ver y /\ a_rev x = a_rev y.
Fixpoint atoms_of (r : restr) : list atomrec :=
  match r with
  | RAtom a => [a]
  | RNegate _ r' => atoms_of r'
  | RNode _ _ _ cs => flat_map atoms_of cs
  | RAttr _ _ _ r' | RMulti _ _ _ r' => atoms_of r'
  | RCond _ _ r' p => atoms_of r' ++ flat_map atoms_of p
  | RDepSet cs => flat_map atoms_of cs
  | _ => []
  end.
Definition parsed_alike (a b : restr) : Prop :=
  forall x y, In x (atoms_of a) -> In y (atoms_of b) -> atom_parsed_alike x y.

(* a restriction-keyed cache: an association list searched with == (a dict probes by hash first; a
   key with another hash is never compared, so this is the most permissive reading).  [compute] is the
   query the cache memoises; it may depend on the restriction only through what it matches. *)
Section Cache.
  Variable c : cfg.
  Variable V : Type.
  Fixpoint lookup (k : restr) (m : list (restr * V)) : option V :=
    match m with
    | [] => None
    | (k', v) :: m' => if r_eq c k' k then Some v else lookup k m'
    end.
  (* every stored value was computed for its own key *)
  Definition filled_by (compute : restr -> V) (m : list (restr * V)) : Prop :=
    forall k v, In (k, v) m -> v = compute k.
  Definition respects_matching (compute : restr -> V) : Prop :=
    forall a b, same_matches a b -> compute a = compute b.
End Cache.

(* ------------------------------------------------------------------ boolean acceptors on recorded answers *)
(* (B): the implementation's own answers [a==b; b==a; hash==; matches a; matches b] satisfy the statement *)
Definition spec_pair_ok (r : val) : bool :=
  match r with
  | VL [VB e1; VB e2; h; ma; mb] =>
      if e1 || e2 then val_eqb h (VB true) && val_eqb ma mb else true
  | _ => false
  end.

(* structural identity of two model terms (frozensets up to order): used to compare the objects the
   implementation's constructors built (read back attribute by attribute) with what the model's constructor
   functions build *)
Definition atom_same (x y : atomrec) : bool :=
  atom_eq x y && atom_hk x y && Bool.eqb (a_strong x) (a_strong y)
  && str_eqb (a_cat x) (a_cat y) && str_eqb (a_pkg x) (a_pkg y) && optstr_eqb (a_fullver x) (a_fullver y)
  && optstr_eqb (a_ver x) (a_ver y) && optN_eqb (a_rev x) (a_rev y).
Fixpoint same_shape (a b : restr) {struct a} : bool :=
  match a, b with
  | RExact e1 c1 n1 h1, RExact e2 c2 n2 h2 => str_eqb e1 e2 && Bool.eqb c1 c2 && Bool.eqb n1 n2 && Bool.eqb h1 h2
  | RGlob g1 p1 n1 i1 h1, RGlob g2 p2 n2 i2 h2 =>
      str_eqb g1 g2 && Bool.eqb p1 p2 && Bool.eqb n1 n2 && Bool.eqb i1 i2 && Bool.eqb h1 h2
  | RRegex g1 n1 i1 m1 h1, RRegex g2 n2 i2 m2 h2 =>
      str_eqb g1 g2 && Bool.eqb n1 n2 && Bool.eqb i1 i2 && Bool.eqb m1 m2 && Bool.eqb h1 h2
  | RCont v1 a1 n1, RCont v2 a2 n2 => set_eqb v1 v2 && Bool.eqb a1 a2 && Bool.eqb n1 n2
  | RUdc f1 v1 n1, RUdc f2 v2 n2 => set_eqb v1 v2 && Bool.eqb n1 n2 && Bool.eqb f1 f2
  | RVer d1 v1 r1 n1 l1, RVer d2 v2 r2 n2 l2 =>
      Bool.eqb d1 d2 && str_eqb v1 v2 && optN_eqb r1 r2 && Bool.eqb n1 n2 && list_Z_eqb l1 l2
  | RAlways o1 b1, RAlways o2 b2 => N.eqb o1 o2 && Bool.eqb b1 b2
  | RNegate o1 r1, RNegate o2 r2 => N.eqb o1 o2 && same_shape r1 r2
  | RNode k1 t1 n1 cs1, RNode k2 t2 n2 cs2 =>
      kind_eqb k1 k2 && N.eqb t1 t2 && Bool.eqb n1 n2
      && (fix go (l1 l2 : list restr) {struct l1} : bool :=
            match l1, l2 with
            | [], [] => true
            | x :: l1', y :: l2' => same_shape x y && go l1' l2'
            | _, _ => false
            end) cs1 cs2
  | RAttr k1 n1 at1 r1, RAttr k2 n2 at2 r2 =>
      N.eqb k1 k2 && Bool.eqb n1 n2 && lstr_eqb at1 at2 && same_shape r1 r2
  | RMulti k1 n1 at1 r1, RMulti k2 n2 at2 r2 =>
      N.eqb k1 k2 && Bool.eqb n1 n2 && llstr_eqb at1 at2 && same_shape r1 r2
  | RCond n1 at1 r1 p1, RCond n2 at2 r2 p2 =>
      Bool.eqb n1 n2 && lstr_eqb at1 at2 && same_shape r1 r2
      && (fix go (l1 l2 : list restr) {struct l1} : bool :=
            match l1, l2 with
            | [], [] => true
            | x :: l1', y :: l2' => same_shape x y && go l1' l2'
            | _, _ => false
            end) p1 p2
  | RAtom x, RAtom y => atom_same x y
  | RDepSet cs1, RDepSet cs2 =>
      (fix go (l1 l2 : list restr) {struct l1} : bool :=
         match l1, l2 with
         | [], [] => true
         | x :: l1', y :: l2' => same_shape x y && go l1' l2'
         | _, _ => false
         end) cs1 cs2
  | _, _ => false
  end.

(* the restrictions an atom really carries (read back from the object) are the ones the model derives from
   the atom's attributes *)
Definition atom_shape_ok (a : atomrec) (real : list restr) : bool :=
  list_all2 same_shape (atom_restrictions a) real.
