(* Prop_C33.v — the property theorems of C33 and nothing else. *)
From Coq Require Import List NArith ZArith Bool.
From Coq Require String.
Import String.StringSyntax.
Delimit Scope string_scope with string.
Import ListNotations.
From Verif Require Import Base.Val C33.Path C33.PathProofs gen.Tables_C33 C33.Model_C33 C33.Spec_C33 C33.Proofs_C33.

(* dosym -r: for EVERY absolute target t and EVERY link name l (the initial slash of l may be
   omitted), the relative link content, resolved lexically from the directory the link lives in,
   is the requested target *)
Theorem dosym_r_resolves : forall cwd t l, isabs t = true ->
  resolve (join2 (absdir l) (relative_target cwd t l)) = resolve t.
Proof. exact dosym_r_resolves_proof. Qed.
Print Assumptions dosym_r_resolves.

(* the same in the form of DESIGN §6: both absolute, the directory is dirname l *)
Theorem dosym_r_resolves_abs : forall cwd t l, isabs t = true -> isabs l = true ->
  resolve (join2 (dirname l) (relative_target cwd t l)) = resolve t.
Proof. exact dosym_r_resolves_abs_proof. Qed.
Print Assumptions dosym_r_resolves_abs.

(* in terms of Python's normpath: equal whenever target and link directory agree on the POSIX
   "exactly two leading slashes" special case; false in general (refuted below) *)
Theorem dosym_r_normpath_partial : forall cwd t l, isabs t = true ->
  lead_slashes (absdir l) = lead_slashes t ->
  normpath (join2 (absdir l) (relative_target cwd t l)) = normpath t.
Proof. exact dosym_r_normpath_partial_proof. Qed.
Print Assumptions dosym_r_normpath_partial.

Theorem dosym_r_normpath_refuted : ~ dosym_r_normpath_statement.
Proof. exact dosym_r_normpath_refuted_proof. Qed.
Print Assumptions dosym_r_normpath_refuted.

(* ---- placement against the PMS reference (Spec_C33), per helper ---- *)

(* the regenerated EAPI gate table and banned-wrapper table are the PMS tables:
   dodoc -r from 4, doman language directories from 2, -i18n precedence from 4, dosym -r from 8;
   dohard banned from 4, dohtml and dolib from 7 — for EAPIs 0..8 *)
Theorem gates_are_pms : forallb gates_agree numbered_eapis = true.
Proof. exact gates_are_pms_proof. Qed.
Print Assumptions gates_are_pms.

(* the directory each wrapper passes as --dest (and the forced modes of dolib.so/.a) *)
Theorem wrapper_dests_are_pms : forall g v,
  dest_of g "dobin" v = Some (v_desttree v ++ lit "/bin")
  /\ dest_of g "dosbin" v = Some (v_desttree v ++ lit "/sbin")
  /\ dest_of g "dolib" v = Some (v_desttree v ++ lit "/" ++ v_libdir v)
  /\ dest_of g "dolib.so" v = Some (v_desttree v ++ lit "/" ++ v_libdir v)
  /\ dest_of g "dolib.a" v = Some (v_desttree v ++ lit "/" ++ v_libdir v)
  /\ dest_of g "doins" v = Some (v_insdesttree v)
  /\ dest_of g "doexe" v = Some (v_exedesttree v)
  /\ dest_of g "dodoc" v = Some (lit "/usr/share/doc/" ++ v_pf v ++ lit "/" ++ v_docdesttree v)
  /\ dest_of g "dohtml" v = Some (lit "/usr/share/doc/" ++ v_pf v ++ lit "/"
                                  ++ match v_docdesttree v with [] => lit "html" | d => d end)
  /\ dest_of g "doinfo" v = Some (lit "/usr/share/info")
  /\ dest_of g "doman" v = Some (lit "/usr/share/man")
  /\ insopts_of g "dolib.so" v = Some (lit "-m0755")
  /\ insopts_of g "dolib.a" v = Some (lit "-m0644")
  /\ insopts_of g "doins" v = Some (v_insoptions v)
  /\ insopts_of g "doexe" v = Some (v_exeoptions v).
Proof. exact wrapper_dests_are_pms_proof. Qed.
Print Assumptions wrapper_dests_are_pms.

(* doexe dobin dosbin dolib* doinfo, and the file arguments of doins/dodoc: every file is
   installed at <dest>/<basename> with the requested mode (symlinks as symlinks) — the list of
   installed entries IS the reference list, for every argument list *)
Theorem placement_is_pms_files : forall c mode pos l,
  c_insmode c = Some mode ->
  flat_files (comps (c_dest c)) mode pos = Some l ->
  plan_base c pos = inl (base_action (c_dest c) :: install_basenames c pos)
  /\ map action_entry (install_basenames c pos) = map Some l.
Proof. exact placement_is_pms_files_proof. Qed.
Print Assumptions placement_is_pms_files.

(* doman: section directory from the suffix, language directory in EAPI 2+, -i18n= precedence in
   EAPI 4+, language suffix stripped — wherever PMS defines the placement *)
Theorem placement_is_pms_doman : forall e g i18n b d name,
  gates_of e = Some g -> gates_match g (decimal e) ->
  pms_doman (decimal e) i18n b = Some (Some (d, name)) ->
  doman_dest g i18n b = Some (join_sl d, name).
Proof. exact doman_placement_is_pms_proof. Qed.
Print Assumptions placement_is_pms_doman.

(* a man page without a section suffix is refused *)
Theorem doman_rejects_no_section : forall e g i18n x,
  gates_of e = Some g -> nodot (basename x) -> noslash (basename x) -> doman_dest g i18n x = None.
Proof. exact doman_rejects_no_section_proof. Qed.
Print Assumptions doman_rejects_no_section.

(* keepdir: the directory as for dodir, and .keep_CAT_PN-SLOT inside it *)
Theorem placement_is_pms_keepdir : forall i dest dirm pos acts,
  goodb (keep_name i) -> plan_dirs (Some (keep_name i)) dest dirm pos = inl acts ->
  keep_name i = lit ".keep_" ++ cat i ++ lit "_" ++ pn i ++ lit "-" ++ slot i
  /\ forall a, In a pos ->
       In (AMkdirs (under dest (fst a)) dirm) acts
       /\ exists p, In (ATouch p) acts /\ key p = comps (fst a) ++ [keep_name i].
Proof. exact placement_is_pms_keepdir_proof. Qed.
Print Assumptions placement_is_pms_keepdir.

(* dosym: trailing-slash / existing-directory link names are refused; -r is gated and needs an
   absolute target; the created link is verbatim, or with -r resolves to the requested target *)
Theorem placement_is_pms_dosym : forall g dirm pre r s t,
  (endswith_sl t = true -> plan_dosym g dirm pre r s t = inr (E "nolinkname"))
  /\ (forall m, lookup (key (lstrip_sl t)) pre = Some (NDir m) -> plan_dosym g dirm pre r s t = inr (E "nolinkname"))
  /\ (forall acts, plan_dosym g dirm pre r s t = inl acts ->
        (r = true -> g_dosym_rel g = true /\ isabs s = true)
        /\ exists c, In (ASymlink c (lstrip_sl t)) acts
                     /\ (r = false -> c = s)
                     /\ (r = true -> resolve (join2 (absdir t) c) = resolve s)).
Proof. exact placement_is_pms_dosym_proof. Qed.
Print Assumptions placement_is_pms_dosym.

(* rejections: a missing link name (dosym, dohard), a directory given to dodoc without an
   allowed -r, a directory given to dohtml without -r, dodir/keepdir without arguments *)
Theorem rejections_are_pms :
  (forall g h dirm pre r pos, (length pos < 2)%nat -> plan_link g h dirm pre r pos = inr (E "missing"))
  /\ (forall g c r pos, dirs_of pos <> [] -> r && g_dodoc_r g = false -> plan_dodoc g c r pos = inr (E "isdir"))
  /\ (forall dest insm dirm o pos, dirs_of pos <> [] -> h_r o = false -> plan_dohtml dest insm dirm o pos = inr (E "isdir"))
  /\ (forall keep dest dirm, plan_dirs keep dest dirm [] = inr (E "missing")).
Proof. exact rejections_are_pms_proof. Qed.
Print Assumptions rejections_are_pms.

(* ---- recursive installs, domo, dohtml, modes ---- *)

(* doins -r / dodoc -r: below <dest> the image is exactly the source trees of the directory
   arguments (induction over the os.walk listing: every directory, every symlink kept as a
   link, every file with the requested mode) followed by the file arguments; dodoc needs the
   EAPI gate.  [recursive_entries] is the PMS reference of Spec_C33. *)
Theorem placement_is_pms_recursive : forall sl g c mode pos l,
  c_insmode c = Some mode ->
  recursive_entries sl (comps (c_dest c)) (c_dirmode c) mode pos = Some l ->
  let acts := base_action (c_dest c) :: from_dirs c (dirs_of pos) ++ install_basenames c (files_of pos) in
  map action_entry acts = Some (comps (c_dest c), PDir None) :: map Some l
  /\ plan_doins c true pos = inl acts
  /\ (forall r, dirs_of pos <> [] -> r && g_dodoc_r g = true -> plan_dodoc g c r pos = inl acts).
Proof. exact recursive_placement_proof. Qed.
Print Assumptions placement_is_pms_recursive.

(* domo: <lang>.mo goes to <dest>/<lang>/LC_MESSAGES/<PN>.mo (directory created) *)
Theorem placement_is_pms_domo : forall c pn x f lang mode,
  c_insmode c = Some mode -> goodb (pn ++ lit ".mo") ->
  pms_domo_lang (basename x) = Some lang ->
  map action_entry (domo_plan c pn [(x, SFile f)])
  = [Some (comps (c_dest c) ++ [lang; lit "LC_MESSAGES"], PDir (c_dirmode c));
     action_entry (AInstall f (under (c_dest c) (join_sl [lang; lit "LC_MESSAGES"; pn ++ lit ".mo"])) (Some mode))]
  /\ key (under (c_dest c) (join_sl [lang; lit "LC_MESSAGES"; pn ++ lit ".mo"]))
     = comps (c_dest c) ++ [lang; lit "LC_MESSAGES"; pn ++ lit ".mo"].
Proof. exact domo_placement_proof. Qed.
Print Assumptions placement_is_pms_domo.

(* ... where <dest> is DESTTREE/share/locale while DESTTREE exists and /usr/share/locale from
   EAPI 7 on (table obligation over the regenerated wrapper and gate tables) *)
Theorem domo_dest_is_pms :
  (forall g v, dest_of g "domo" v = Some (if g_has_desttree g then v_desttree v ++ lit "/share/locale"
                                          else lit "/usr/share/locale"))
  /\ forallb (fun e => match gates_of e with
                       | Some g => Bool.eqb (negb (g_has_desttree g)) (pms_domo_ignores_into (decimal e))
                       | None => false end) numbered_eapis = true.
Proof. exact domo_dest_is_pms_proof. Qed.
Print Assumptions domo_dest_is_pms.

(* dohtml without directory arguments (outside the known class dohtml-recursive-unfiltered):
   exactly the arguments allowed by extension (defaults or -a, plus -A) or by -f are installed,
   below <dest>/<-p prefix> *)
Theorem placement_is_pms_dohtml : forall dest mode dirm o pos l,
  dirs_of pos = [] ->
  (forall a, In a pos -> pms_html_ok o (basename (fst a)) <> None) ->
  flat_files (comps (dest ++ SL :: h_p o)) mode
    (filter (fun a => match pms_html_ok o (basename (fst a)) with Some true => true | _ => false end) pos) = Some l ->
  exists acts, plan_dohtml dest (Some mode) dirm o pos = inl (base_action (join2 dest (lstrip_sl (h_p o))) :: acts)
               /\ map action_entry acts = map Some l.
Proof. exact dohtml_placement_proof. Qed.
Print Assumptions placement_is_pms_dohtml.

(* modes: the fixed modes of PMS, and insopts/exeopts/libopts/diropts for the others *)
Theorem modes_are_pms : forall g v,
  (fst_mode (modes_of g "dobin" v) = Some (Some 493%N) /\ fst_mode (modes_of g "dosbin" v) = Some (Some 493%N)
   /\ fst_mode (modes_of g "dolib.so" v) = Some (Some 493%N) /\ fst_mode (modes_of g "dolib.a" v) = Some (Some 420%N)
   /\ fst_mode (modes_of g "dodoc" v) = Some (Some 420%N) /\ fst_mode (modes_of g "doinfo" v) = Some (Some 420%N)
   /\ fst_mode (modes_of g "doman" v) = Some (Some 420%N) /\ fst_mode (modes_of g "dohtml" v) = Some (Some 420%N)
   /\ fst_mode (modes_of g "domo" v) = Some (Some 420%N))
  /\ (forall m1 m2, install_mode (Some (v_insoptions v)) = Some (Some m1) ->
                    install_mode (Some (v_diroptions v)) = Some (Some m2) ->
                    modes_of g "doins" v = inl (Some m1, Some m2))
  /\ (forall m, install_mode (Some (v_exeoptions v)) = Some (Some m) -> modes_of g "doexe" v = inl (Some m, None))
  /\ (forall m, install_mode (Some (v_liboptions v)) = Some (Some m) -> modes_of g "dolib" v = inl (Some m, None))
  /\ (forall m, install_mode (Some (v_diroptions v)) = Some (Some m) ->
        modes_of g "dodir" v = inl (None, Some m) /\ modes_of g "keepdir" v = inl (None, Some m)).
Proof. exact modes_are_pms_proof. Qed.
Print Assumptions modes_are_pms.

(* an option string "-m<octal digits>" asks for exactly that mode *)
Theorem install_mode_dash_m : forall ds m,
  ds <> [] -> nosep 32 ds -> octal ds = Some m -> install_mode (Some (lit "-m" ++ ds)) = Some (Some m).
Proof. exact install_mode_dash_m_proof. Qed.
Print Assumptions install_mode_dash_m.

(* ---- set-id modes together with -o/-g ---- *)

(* the installed file has exactly the requested mode, all twelve bits (ownership is applied
   before the mode, so -o/-g cannot strip set-uid/set-gid/sticky bits requested with -m) *)
Theorem installed_mode_is_requested : forall um s cid p m s',
  exec1 um s (AInstall (FReg cid) p (Some m)) = inl s' ->
  lookup (key p) (s_img s') = Some (NFile m cid (s_ino s)).
Proof. exact installed_mode_is_requested_proof. Qed.
Print Assumptions installed_mode_is_requested.

(* and the requested mode is independent of owner/group options in the option string *)
Theorem owner_options_keep_mode : forall v i ws mode f,
  owner_id v = Some i ->
  install_mode_words (lit "-o" :: v :: ws) mode (S f) = install_mode_words ws mode f
  /\ install_mode_words (lit "-g" :: v :: ws) mode (S f) = install_mode_words ws mode f
  /\ install_mode_words (lit "--owner" :: v :: ws) mode (S f) = install_mode_words ws mode f
  /\ install_mode_words (lit "--group" :: v :: ws) mode (S f) = install_mode_words ws mode f.
Proof. exact owner_options_keep_mode_proof. Qed.
Print Assumptions owner_options_keep_mode.

(* the rule on the spelling of a directory argument of doins -r / dodoc -r, which
   [recursive_entries] (and so placement_is_pms_recursive) applies: trailing slashes are dropped
   and the last component names the directory created below <dest>; when that component is "."
   ("dir/.", "dir/sub/.", "./dir/./", ".") the contents go directly into <dest> *)
Theorem recursive_name_rule : forall sl dest dm m d w,
  (basename (rstrip_sl d) = dot -> tree_entries sl dest dm m d w = tree_walk sl dest dm m w)
  /\ (good_name (basename (rstrip_sl d)) = true ->
      tree_entries sl dest dm m d w = tree_walk sl (dest ++ [basename (rstrip_sl d)]) dm m w).
Proof. exact recursive_name_rule_proof. Qed.
Print Assumptions recursive_name_rule.
