(* Roundtrip_C31.v — bash_eval (generate_env_str env) gives back env: lemmas from the single
   quoting forms up to the whole program. *)
From Coq Require Import List NArith ZArith Bool Lia.
Import ListNotations.
From Verif Require Import Base.Val C31.Model_C31 C31.Spec_C31 C31.Proofs_C31.
Local Open Scope N_scope.

Local Arguments ansi_simple : simpl never.
Local Arguments is_octal : simpl never.
Local Arguments hexval : simpl never.
Local Arguments plain_char : simpl never.
Local Arguments is_term : simpl never.
Local Arguments dq_escapable : simpl never.
Local Arguments byte_ok : simpl never.

(* ------------------------------------------------------------------ small tools *)
Definition prepend (v : str) (o : option (str * str)) : option (str * str) :=
  match o with Some (w, r) => Some (v ++ w, r) | None => None end.
Lemma cons1_prepend c v (o : option (str * str)) : cons1 c (prepend v o) = prepend (c :: v) o.
Proof. destruct o as [[w r]|]; reflexivity. Qed.
Lemma prepend_nil o : prepend [] o = o.
Proof. destruct o as [[w r]|]; reflexivity. Qed.

Lemma neqb (a b : N) : a <> b -> (a =? b) = false.
Proof. apply N.eqb_neq. Qed.

Lemma not_in_cons_inv (x a : N) l : ~ In x (a :: l) -> a <> x /\ ~ In x l.
Proof. intro H; split; [intro E; apply H; left; exact E | intro I; apply H; right; exact I]. Qed.

Lemma memN_false c l : memN c l = false -> ~ In c l.
Proof.
  unfold memN. induction l as [|a l IH]; cbn [existsb]; intros H I; [destruct I|].
  apply orb_false_iff in H as [H1 H2]. destruct I as [E|I].
  - subst a. rewrite N.eqb_refl in H1. discriminate.
  - exact (IH H2 I).
Qed.

(* where a word may stop *)
Definition stops (rest : str) : Prop :=
  match rest with [] => True | c :: _ => is_term c = true end.

(* ------------------------------------------------------------------ one-step unfoldings *)
Lemma word_plain_step arr c s :
  word arr MPlain (c :: s) =
  if is_term c then Some ([], c :: s)
  else if c =? c_sq then word arr MSq s
  else if c =? c_dq then word arr MDq s
  else if c =? c_dollar then
    match s with d :: s'' => if d =? c_sq then word arr MAnsi s'' else None | [] => None end
  else if plain_char c then cons1 c (word arr MPlain s)
  else None.
Proof. destruct s; reflexivity. Qed.

Lemma word_sq_step arr c s :
  word arr MSq (c :: s) =
  if c =? 0 then None else if c =? c_sq then word arr MPlain s else cons1 c (word arr MSq s).
Proof. destruct s; reflexivity. Qed.

Lemma word_dq_lit arr c s :
  (c =? 0) = false -> (c =? c_dq) = false -> (c =? c_dollar) = false -> (c =? c_bt) = false ->
  (c =? c_bs) = false -> (arr && ((c =? 1) || (c =? 127))) = false ->
  word arr MDq (c :: s) = cons1 c (word arr MDq s).
Proof.
  intros H0 H1 H2 H3 H4 H5. destruct s; cbn [word]; rewrite H0, H1, H2, H3, H4, H5; reflexivity.
Qed.
Lemma word_dq_close arr s : word arr MDq (c_dq :: s) = word arr MPlain s.
Proof. destruct s; reflexivity. Qed.

Lemma word_ansi_lit arr c s :
  (c =? 0) = false -> (c =? c_sq) = false -> (c =? c_bs) = false ->
  word arr MAnsi (c :: s) = cons1 c (word arr MAnsi s).
Proof. intros H0 H1 H2. destruct s; cbn [word]; rewrite H0, H1, H2; reflexivity. Qed.
Lemma word_ansi_close arr s : word arr MAnsi (c_sq :: s) = word arr MPlain s.
Proof. destruct s; reflexivity. Qed.
Lemma word_ansi_bs arr s : word arr MAnsi (c_bs :: c_bs :: s) = cons1 c_bs (word arr MAnsi s).
Proof. destruct s; reflexivity. Qed.
Lemma word_ansi_sq arr s : word arr MAnsi (c_bs :: c_sq :: s) = cons1 c_sq (word arr MAnsi s).
Proof. destruct s; reflexivity. Qed.

(* ------------------------------------------------------------------ the quoting forms *)
Lemma word_stop arr rest : stops rest -> word arr MPlain rest = Some ([], rest).
Proof.
  destruct rest as [|c r]; cbn [stops]; intro H; [reflexivity|].
  rewrite word_plain_step, H. reflexivity.
Qed.

Lemma word_sq_body arr v rest :
  ~ In c_sq v -> ~ In 0 v ->
  word arr MSq (v ++ c_sq :: rest) = prepend v (word arr MPlain rest).
Proof.
  induction v as [|a v IH]; cbn [app]; intros Hq H0.
  - rewrite word_sq_step. cbn. rewrite prepend_nil. reflexivity.
  - apply not_in_cons_inv in Hq as [Hq1 Hq2]. apply not_in_cons_inv in H0 as [H01 H02].
    rewrite word_sq_step, (neqb _ _ H01), (neqb _ _ Hq1), (IH Hq2 H02), cons1_prepend. reflexivity.
Qed.

Lemma esc_ansi_cons a v : esc_ansi (a :: v) = esc_ansi_c a ++ esc_ansi v.
Proof. reflexivity. Qed.

Lemma word_ansi_body arr v rest :
  ~ In 0 v ->
  word arr MAnsi (esc_ansi v ++ c_sq :: rest) = prepend v (word arr MPlain rest).
Proof.
  induction v as [|a v IH]; intro H0.
  - cbn [esc_ansi flat_map app]. rewrite word_ansi_close, prepend_nil. reflexivity.
  - apply not_in_cons_inv in H0 as [H01 H02].
    rewrite esc_ansi_cons. unfold esc_ansi_c.
    destruct (a =? c_bs) eqn:Eb; [|destruct (a =? c_sq) eqn:Eq].
    + apply N.eqb_eq in Eb. subst a. cbn [app].
      rewrite word_ansi_bs, (IH H02), cons1_prepend. reflexivity.
    + apply N.eqb_eq in Eq. subst a. cbn [app].
      rewrite word_ansi_sq, (IH H02), cons1_prepend. reflexivity.
    + cbn [app]. rewrite (word_ansi_lit _ _ _ (neqb _ _ H01) Eq Eb), (IH H02), cons1_prepend.
      reflexivity.
Qed.

Lemma word_dq_body v rest :
  existsb dq_unsafe v = false -> ~ In 0 v ->
  word true MDq (v ++ c_dq :: rest) = prepend v (word true MPlain rest).
Proof.
  induction v as [|a v IH]; cbn [app existsb]; intros Hs H0.
  - rewrite word_dq_close, prepend_nil. reflexivity.
  - apply orb_false_iff in Hs as [Ha Hs]. apply not_in_cons_inv in H0 as [H01 H02].
    unfold dq_unsafe in Ha.
    repeat (apply orb_false_iff in Ha as [Ha ?]).
    rewrite word_dq_lit; auto using neqb.
    + rewrite (IH Hs H02), cons1_prepend. reflexivity.
    + cbn [andb]. apply orb_false_iff; split; assumption.
Qed.

(* the quoted forms read back as the value *)
Lemma word_quote_hard arr v rest :
  ~ In 0 v -> stops rest -> word arr MPlain (quote_hard v ++ rest) = Some (v, rest).
Proof.
  intros H0 Hr. unfold quote_hard.
  destruct (memN c_sq v) eqn:M; cbn [negb].
  - cbn [app]. rewrite word_plain_step. cbn.
    rewrite <- app_assoc. cbn [app]. rewrite (word_ansi_body _ _ _ H0), (word_stop _ _ Hr).
    cbn [prepend]. rewrite app_nil_r. reflexivity.
  - cbn [app]. rewrite word_plain_step. cbn.
    rewrite <- app_assoc. cbn [app]. rewrite (word_sq_body _ _ _ (memN_false _ _ M) H0), (word_stop _ _ Hr).
    cbn [prepend]. rewrite app_nil_r. reflexivity.
Qed.

Lemma alnum_c_plain U c :
  py_isalnum_c U c = true ->
  is_term c = false /\ (c =? c_sq) = false /\ (c =? c_dq) = false /\ (c =? c_dollar) = false
  /\ plain_char c = true.
Proof.
  unfold py_isalnum_c, is_term, plain_char, is_name_char, is_name_start, is_digit, is_alpha_ascii,
    c_sp, c_tab, c_nl, c_rp, c_sq, c_dq, c_dollar, c_us, memN.
  cbn [existsb].
  destruct (c <? 128) eqn:L; intro H.
  - apply N.ltb_lt in L.
    assert (D : (48 <= c /\ c <= 57) \/ (65 <= c /\ c <= 90) \/ (97 <= c /\ c <= 122)).
    { repeat (apply orb_true_iff in H as [H|H]); apply andb_true_iff in H as [H1 H2];
        apply N.leb_le in H1, H2; lia. }
    repeat split; try (apply N.eqb_neq; lia);
      try (repeat (apply orb_false_iff; split); apply N.eqb_neq; lia).
    destruct D as [[? ?]|[[? ?]|[? ?]]].
    + replace (48 <=? c) with true by (symmetry; apply N.leb_le; lia).
      replace (c <=? 57) with true by (symmetry; apply N.leb_le; lia).
      cbn. rewrite !orb_true_r. reflexivity.
    + replace (65 <=? c) with true by (symmetry; apply N.leb_le; lia).
      replace (c <=? 90) with true by (symmetry; apply N.leb_le; lia).
      reflexivity.
    + replace (97 <=? c) with true by (symmetry; apply N.leb_le; lia).
      replace (c <=? 122) with true by (symmetry; apply N.leb_le; lia).
      cbn. rewrite !orb_true_r. reflexivity.
  - apply N.ltb_ge in L.
    repeat split; try (apply N.eqb_neq; lia);
      try (repeat (apply orb_false_iff; split); apply N.eqb_neq; lia).
    replace (128 <=? c) with true by (symmetry; apply N.leb_le; lia).
    rewrite orb_true_r. reflexivity.
Qed.

Lemma word_bare U arr v rest :
  forallb (py_isalnum_c U) v = true -> stops rest ->
  word arr MPlain (v ++ rest) = Some (v, rest).
Proof.
  induction v as [|a v IH]; cbn [app forallb]; intros H Hr.
  - apply word_stop; exact Hr.
  - apply andb_true_iff in H as [Ha Hv].
    destruct (alnum_c_plain U a Ha) as (T & Q & D & S & P).
    rewrite word_plain_step, T, Q, D, S, P, (IH Hv Hr). reflexivity.
Qed.

Lemma word_quote_scalar U v rest :
  ~ In 0 v -> stops rest -> word false MPlain (quote_scalar U v ++ rest) = Some (v, rest).
Proof.
  intros H0 Hr. unfold quote_scalar.
  destruct (py_isalnum U v) eqn:A.
  - apply word_bare with (U := U); [|exact Hr].
    unfold py_isalnum in A. destruct v; [discriminate | exact A].
  - apply word_quote_hard; assumption.
Qed.

Lemma word_quote_elem v rest :
  ~ In 0 v -> stops rest -> word true MPlain (quote_elem v ++ rest) = Some (v, rest).
Proof.
  intros H0 Hr. unfold quote_elem.
  destruct (existsb dq_unsafe v) eqn:D.
  - apply word_quote_hard; assumption.
  - cbn [app]. rewrite word_plain_step. cbn.
    rewrite <- app_assoc. cbn [app]. rewrite (word_dq_body _ _ D H0), (word_stop _ _ Hr).
    cbn [prepend]. rewrite app_nil_r. reflexivity.
Qed.

(* first characters of the quoted forms (they are not `(` and not blank) *)
Lemma quote_scalar_head U v :
  exists d r, quote_scalar U v = d :: r /\ (d =? c_lp) = false.
Proof.
  unfold quote_scalar, quote_hard.
  destruct (py_isalnum U v) eqn:A.
  - destruct v as [|a v]; [discriminate|]. exists a, v. split; [reflexivity|].
    cbn [py_isalnum forallb] in A. apply andb_true_iff in A as [A _].
    destruct (alnum_c_plain U a A) as (T & _). unfold is_term in T.
    unfold py_isalnum_c, is_digit, is_alpha_ascii in A. unfold c_lp.
    destruct (a <? 128) eqn:L.
    + apply N.eqb_neq. intro E. subst a. discriminate A.
    + apply N.ltb_ge in L. apply N.eqb_neq. lia.
  - destruct (negb (memN c_sq v)); eexists; eexists; (split; [reflexivity|reflexivity]).
Qed.

(* ------------------------------------------------------------------ names and subscripts *)
Lemma name_char_not_eq c : is_name_char c = true -> (c =? c_eq) = false.
Proof.
  unfold is_name_char, is_name_start, is_alpha_ascii, is_digit, c_us, c_eq. intro H.
  apply N.eqb_neq. intro E. subst c. discriminate H.
Qed.

Lemma take_name_chars_ok k rest :
  forallb is_name_char k = true -> take_name_chars (k ++ c_eq :: rest) = Some (k, rest).
Proof.
  induction k as [|a k IH]; cbn [app forallb take_name_chars]; intro H.
  - reflexivity.
  - apply andb_true_iff in H as [Ha Hk].
    rewrite (name_char_not_eq _ Ha), Ha, (IH Hk). reflexivity.
Qed.

Lemma valid_name_chars k : valid_nameb k = true -> forallb is_name_char k = true.
Proof.
  destruct k as [|a k]; [discriminate|]. cbn [valid_nameb forallb]. intro H.
  apply andb_true_iff in H as [Ha Hk]. unfold is_name_char at 1. rewrite Ha, Hk. reflexivity.
Qed.

Lemma take_name_ok k rest :
  valid_nameb k = true -> take_name (k ++ c_eq :: rest) = Some (k, rest).
Proof.
  intro H. unfold take_name. rewrite (take_name_chars_ok _ _ (valid_name_chars _ H)), H. reflexivity.
Qed.

Lemma take_digits_ok d rest :
  forallb is_digit d = true -> take_digits (d ++ c_rb :: rest) = Some (d, rest).
Proof.
  induction d as [|a d IH]; cbn [app forallb take_digits]; intro H.
  - reflexivity.
  - apply andb_true_iff in H as [Ha Hd].
    assert (E : (a =? c_rb) = false).
    { unfold is_digit in Ha. apply andb_true_iff in Ha as [H1 H2]. apply N.leb_le in H1, H2.
      apply N.eqb_neq. unfold c_rb. lia. }
    rewrite E, Ha, (IH Hd). reflexivity.
Qed.

Lemma take_index_ok i rest :
  take_index (dec i ++ c_rb :: c_eq :: rest) = Some (i, rest).
Proof.
  unfold take_index. rewrite (take_digits_ok _ _ (dec_digits i)), parse_dec_dec.
  rewrite N.eqb_refl. reflexivity.
Qed.

(* ------------------------------------------------------------------ array literals *)
Lemma join_cons sep x r :
  join sep (x :: r) = x ++ flat_map (fun y => sep ++ y) r.
Proof.
  revert x. induction r as [|y r IH]; intro x.
  - cbn [join flat_map]. rewrite app_nil_r. reflexivity.
  - change (join sep (x :: y :: r)) with (x ++ sep ++ join sep (y :: r)).
    rewrite (IH y). cbn [flat_map]. rewrite <- app_assoc. reflexivity.
Qed.

Definition elem_str (i : N) (v : str) : str := [c_lb] ++ dec i ++ [c_rb; c_eq] ++ quote_elem v.

Lemma elem_str_len i v : (1 <= length (elem_str i v))%nat.
Proof. unfold elem_str. cbn [app length]. lia. Qed.

Lemma elems_cons i v r : elems i (v :: r) = elem_str i v :: elems (N.succ i) r.
Proof. reflexivity. Qed.

Lemma skip_ws_sp_lb s : skip_ws (c_sp :: c_lb :: s) = c_lb :: s.
Proof. reflexivity. Qed.

Lemma stops_sp s : stops (c_sp :: s).  Proof. reflexivity. Qed.
Lemma stops_rp s : stops (c_rp :: s).  Proof. reflexivity. Qed.
Lemma stops_nl s : stops (c_nl :: s).  Proof. reflexivity. Qed.

(* one element, after optional blank *)
Lemma arr_elems_step f i v rest (lead : bool) :
  ~ In 0 v -> stops rest ->
  arr_elems (S f) ((if lead then [c_sp] else []) ++ elem_str i v ++ rest) =
  match arr_elems f rest with Some (l, r) => Some ((i, v) :: l, r) | None => None end.
Proof.
  intros H0 Hr. unfold elem_str. cbn [arr_elems].
  assert (E : skip_ws ((if lead then [c_sp] else []) ++
                       ([c_lb] ++ dec i ++ [c_rb; c_eq] ++ quote_elem v) ++ rest)
              = c_lb :: dec i ++ c_rb :: c_eq :: quote_elem v ++ rest).
  { destruct lead; cbn [app]; [rewrite skip_ws_sp_lb|cbn [skip_ws]; cbn];
      rewrite <- !app_assoc; reflexivity. }
  rewrite E. cbn. rewrite take_index_ok, (word_quote_elem _ _ H0 Hr). reflexivity.
Qed.

Lemma arr_elems_tail vs : forall i rest fuel,
  (forall v, In v vs -> ~ In 0 v) ->
  (length (flat_map (fun y => [c_sp] ++ y) (elems i vs) ++ c_rp :: rest) < fuel)%nat ->
  arr_elems fuel (flat_map (fun y => [c_sp] ++ y) (elems i vs) ++ c_rp :: rest)
  = Some (indexed i vs, rest).
Proof.
  induction vs as [|v vs IH]; intros i rest fuel H0 L.
  - cbn [elems flat_map app] in *. destruct fuel; [cbn in L; lia|]. reflexivity.
  - rewrite elems_cons in *. cbn [flat_map] in *. rewrite <- !app_assoc in *.
    destruct fuel; [lia|].
    rewrite (arr_elems_step fuel i v _ true).
    + rewrite IH; [reflexivity | intros; apply H0; right; assumption |].
      rewrite ?app_length in *. cbn [length] in *. lia.
    + apply H0; left; reflexivity.
    + destruct (elems (N.succ i) vs); cbn [flat_map app]; [apply stops_rp | apply stops_sp].
Qed.

Lemma arr_elems_ok vs rest fuel :
  (forall v, In v vs -> ~ In 0 v) ->
  (length (join [c_sp] (elems 0 vs) ++ c_rp :: rest) < fuel)%nat ->
  arr_elems fuel (join [c_sp] (elems 0 vs) ++ c_rp :: rest) = Some (indexed 0 vs, rest).
Proof.
  intros H0 L. destruct vs as [|v vs].
  - cbn [elems join app] in *. destruct fuel; [lia|]. reflexivity.
  - rewrite elems_cons, join_cons in *. rewrite <- app_assoc in *.
    destruct fuel; [lia|].
    match goal with |- arr_elems _ (_ ++ ?R) = _ =>
      change (elem_str 0 v ++ R) with ((if false then [c_sp] else []) ++ elem_str 0 v ++ R) end.
    rewrite (arr_elems_step fuel 0 v _ false).
    + cbn [indexed]. rewrite arr_elems_tail; [reflexivity | intros; apply H0; right; assumption |].
      pose proof (elem_str_len 0 v). rewrite ?app_length in *. cbn [length] in *. lia.
    + apply H0; left; reflexivity.
    + destruct (elems (N.succ 0) vs); cbn [flat_map app]; [apply stops_rp | apply stops_sp].
Qed.

(* ascending subscripts are stored as they come *)
Lemma arr_set_append i v acc :
  (forall j w, In (j, w) acc -> j < i) -> arr_set i v acc = acc ++ [(i, v)].
Proof.
  induction acc as [|[j w] acc IH]; intro H; cbn [arr_set app]; [reflexivity|].
  assert (J : j < i) by (apply (H j w); left; reflexivity).
  replace (i =? j) with false by (symmetry; apply N.eqb_neq; lia).
  replace (i <? j) with false by (symmetry; apply N.ltb_ge; lia).
  rewrite IH; [reflexivity|]. intros; eapply H; right; eassumption.
Qed.

Lemma indexed_ge i vs j w : In (j, w) (indexed i vs) -> i <= j.
Proof.
  revert i. induction vs as [|v vs IH]; intros i H; cbn [indexed] in H; [destruct H|].
  destruct H as [E|H]; [injection E as <- _; lia | apply IH in H; lia].
Qed.

Lemma arr_norm_indexed_gen vs : forall i acc,
  (forall j w, In (j, w) acc -> j < i) ->
  fold_left (fun acc iv => arr_set (fst iv) (snd iv) acc) (indexed i vs) acc = acc ++ indexed i vs.
Proof.
  induction vs as [|v vs IH]; intros i acc H; cbn [indexed fold_left].
  - rewrite app_nil_r. reflexivity.
  - cbn [fst snd]. rewrite (arr_set_append _ _ _ H), IH.
    + rewrite <- app_assoc. reflexivity.
    + intros j w I. apply in_app_or in I as [I|[E|[]]].
      * apply H in I. lia.
      * injection E as <- _. lia.
Qed.

Lemma arr_norm_indexed vs : arr_norm (indexed 0 vs) = indexed 0 vs.
Proof. unfold arr_norm. rewrite arr_norm_indexed_gen; [reflexivity | intros ? ? []]. Qed.

(* ------------------------------------------------------------------ one assignment word *)
Definition bval_of (v : pyval) : bval :=
  match v with PStr s => BStr s | PList l => BArr (indexed 0 l) | POther => BStr [] end.
Definition item_str (U : uni) (kv : str * pyval) : str :=
  match render_val U (fst kv) (snd kv) with Some a => a | None => [] end.
Definition entry (exp : bool) (kv : str * pyval) : assignment := (fst kv, bval_of (snd kv), exp).
Definition item_ok (kv : str * pyval) : Prop := valid_nameb (fst kv) = true /\ value_ok (snd kv).

Lemma assigns_unfold f exp s :
  assigns (S f) exp s =
  match skip_sp s with
  | [] => Some ([], [])
  | c :: s' =>
      if c =? c_nl then Some ([], s')
      else
        match take_name (c :: s') with
        | None => None
        | Some (k, r) =>
            match
              match r with
              | d :: r' =>
                  if d =? c_lp then
                    match arr_elems f r' with
                    | Some (l, r2) => Some (BArr (arr_norm l), r2)
                    | None => None
                    end
                  else match word false MPlain r with
                       | Some (v, r2) => Some (BStr v, r2)
                       | None => None
                       end
              | [] => Some (BStr [], [])
              end
            with
            | None => None
            | Some (bv, r2) =>
                if ends_word r2 then
                  match assigns f exp r2 with
                  | Some (l, r3) => Some ((k, bv, exp) :: l, r3)
                  | None => None
                  end
                else None
            end
        end
  end.
Proof. reflexivity. Qed.

Lemma ends_word_stops rest : ends_word rest = true -> stops rest.
Proof.
  destruct rest as [|c r]; cbn [ends_word stops]; intro H; [exact I|].
  unfold is_term. rewrite orb_true_iff in H. destruct H as [H|H].
  - rewrite H. reflexivity.
  - rewrite H. rewrite !orb_true_r. reflexivity.
Qed.

Lemma name_start_facts c :
  is_name_start c = true ->
  (c =? c_sp) = false /\ (c =? c_tab) = false /\ (c =? c_nl) = false.
Proof.
  unfold is_name_start, is_alpha_ascii, c_us, c_sp, c_tab, c_nl. intro H.
  repeat split; apply N.eqb_neq; intro E; subst c; discriminate H.
Qed.

Lemma skip_sp_name (lead : bool) c s :
  is_name_start c = true ->
  skip_sp ((if lead then [c_sp] else []) ++ c :: s) = c :: s.
Proof.
  intro H. destruct (name_start_facts c H) as (A & B & _).
  destruct lead; cbn [app skip_sp]; [cbn|]; rewrite A, B; reflexivity.
Qed.

Lemma assigns_step U f exp kv rest (lead : bool) :
  item_ok kv -> ends_word rest = true ->
  (length ((if lead then [c_sp] else []) ++ item_str U kv ++ rest) < S f)%nat ->
  assigns (S f) exp ((if lead then [c_sp] else []) ++ item_str U kv ++ rest) =
  match assigns f exp rest with
  | Some (l, r3) => Some (entry exp kv :: l, r3)
  | None => None
  end.
Proof.
  destruct kv as [k v]. intros [Hk Hv] Hr L. cbn [fst snd] in Hk, Hv.
  destruct k as [|c k']; [discriminate|].
  assert (Hc : is_name_start c = true) by (cbn [valid_nameb] in Hk; apply andb_true_iff in Hk; tauto).
  destruct (name_start_facts c Hc) as (_ & _ & Hnl).
  rewrite assigns_unfold.
  destruct v as [s|l|]; [| |destruct Hv]; unfold item_str, entry in *; cbn [render_val fst snd bval_of] in *.
  - (* scalar *)
    replace (((c :: k') ++ [c_eq] ++ quote_scalar U s) ++ rest)
      with (c :: k' ++ c_eq :: quote_scalar U s ++ rest) in *
      by (cbn [app]; rewrite <- !app_assoc; reflexivity).
    rewrite (skip_sp_name lead c _ Hc), Hnl.
    change (c :: k' ++ c_eq :: quote_scalar U s ++ rest)
      with ((c :: k') ++ c_eq :: quote_scalar U s ++ rest).
    rewrite (take_name_ok _ _ Hk).
    destruct (quote_scalar_head U s) as (d & q & E & Hd).
    rewrite E at 1. cbn [app]. rewrite Hd.
    rewrite (word_quote_scalar U s rest Hv (ends_word_stops _ Hr)), Hr. reflexivity.
  - (* list *)
    replace (((c :: k') ++ [c_eq; c_lp] ++ join [c_sp] (elems 0 l) ++ [c_rp]) ++ rest)
      with (c :: k' ++ c_eq :: c_lp :: join [c_sp] (elems 0 l) ++ c_rp :: rest) in *
      by (repeat (cbn [app]; rewrite <- ?app_assoc); reflexivity).
    rewrite (skip_sp_name lead c _ Hc), Hnl.
    change (c :: k' ++ c_eq :: c_lp :: join [c_sp] (elems 0 l) ++ c_rp :: rest)
      with ((c :: k') ++ c_eq :: c_lp :: join [c_sp] (elems 0 l) ++ c_rp :: rest).
    rewrite (take_name_ok _ _ Hk). rewrite N.eqb_refl.
    rewrite arr_elems_ok.
    + rewrite arr_norm_indexed, Hr. reflexivity.
    + exact Hv.
    + rewrite ?app_length in *. cbn [length] in *. rewrite ?app_length in *. cbn [length] in *.
      destruct lead; cbn [length] in L; rewrite ?app_length in L; cbn [length] in L; lia.
Qed.

(* ------------------------------------------------------------------ one line of assignments *)
Definition tail_spec (tail rest : str) : Prop :=
  (tail = [] /\ rest = []) \/ tail = c_nl :: rest.

Lemma assigns_end fuel exp tail rest :
  tail_spec tail rest -> (0 < fuel)%nat -> assigns fuel exp tail = Some ([], rest).
Proof.
  intros [[-> ->]| ->] F; destruct fuel; try lia; reflexivity.
Qed.

Lemma tail_ends tail rest : tail_spec tail rest -> ends_word tail = true.
Proof. intros [[-> _]| ->]; reflexivity. Qed.

Lemma item_str_nonempty U kv : item_ok kv -> exists c r, item_str U kv = c :: r /\ is_name_start c = true.
Proof.
  destruct kv as [k v]. intros [Hk Hv]. cbn [fst snd] in *.
  destruct k as [|c k']; [discriminate|].
  assert (Hc : is_name_start c = true) by (cbn [valid_nameb] in Hk; apply andb_true_iff in Hk; tauto).
  destruct v; [| |destruct Hv]; unfold item_str; cbn [render_val fst snd app]; eauto.
Qed.

Lemma assigns_tail U items : forall fuel exp tail rest,
  Forall item_ok items -> tail_spec tail rest ->
  (length (flat_map (fun kv => [c_sp] ++ item_str U kv) items ++ tail) < fuel)%nat ->
  assigns fuel exp (flat_map (fun kv => [c_sp] ++ item_str U kv) items ++ tail)
  = Some (map (entry exp) items, rest).
Proof.
  induction items as [|kv items IH]; intros fuel exp tail rest Hok Ht L.
  - cbn [flat_map app map] in *. apply assigns_end; [exact Ht | lia].
  - inversion Hok as [|? ? Hkv Hrest]; subst.
    cbn [flat_map map] in *. rewrite <- !app_assoc in *.
    destruct fuel; [lia|].
    rewrite (assigns_step U fuel exp kv _ true Hkv).
    + rewrite (IH fuel exp tail rest Hrest Ht); [reflexivity|].
      rewrite ?app_length in *. cbn [length] in *. lia.
    + destruct items; cbn [flat_map app]; [exact (tail_ends _ _ Ht) | reflexivity].
    + exact L.
Qed.

Lemma flat_map_map {A B C} (g : A -> B) (f : B -> list C) l :
  flat_map f (map g l) = flat_map (fun x => f (g x)) l.
Proof. induction l; cbn; congruence. Qed.

Lemma assigns_line U kv items fuel exp tail rest :
  Forall item_ok (kv :: items) -> tail_spec tail rest ->
  (length (join [c_sp] (map (item_str U) (kv :: items)) ++ tail) < fuel)%nat ->
  assigns fuel exp (join [c_sp] (map (item_str U) (kv :: items)) ++ tail)
  = Some (map (entry exp) (kv :: items), rest).
Proof.
  intros Hok Ht L. inversion Hok as [|? ? Hkv Hrest]; subst.
  cbn [map] in *. rewrite join_cons, flat_map_map in *. rewrite <- app_assoc in *.
  destruct fuel; [lia|].
  match goal with |- assigns _ _ (_ ++ ?R) = _ =>
    change (item_str U kv ++ R) with ((if false then [c_sp] else []) ++ item_str U kv ++ R) end.
  rewrite (assigns_step U fuel exp kv _ false Hkv).
  - rewrite (assigns_tail U items fuel exp tail rest Hrest Ht); [reflexivity|].
    destruct (item_str_nonempty U kv Hkv) as (c & r & E & _). rewrite E in L.
    rewrite ?app_length in *. cbn [length] in *. lia.
  - destruct items; cbn [flat_map app]; [exact (tail_ends _ _ Ht) | reflexivity].
  - exact L.
Qed.

(* ------------------------------------------------------------------ commands *)
Lemma command_plain fuel s :
  match strip_prefix EXPORT (skip_sp s) with
  | Some (c :: _) => is_blank c = false
  | _ => True
  end ->
  command fuel s = assigns fuel false s.
Proof.
  unfold command. destruct (strip_prefix EXPORT (skip_sp s)) as [[|c r]|]; intro H; try reflexivity.
  rewrite H. reflexivity.
Qed.

Lemma name_char_not_blank c : is_name_char c = true -> is_blank c = false.
Proof.
  unfold is_name_char, is_name_start, is_alpha_ascii, is_digit, is_blank, c_us, c_sp, c_tab. intro H.
  apply orb_false_iff; split; apply N.eqb_neq; intro E; subst c; discriminate H.
Qed.

Lemma no_export_prefix k X :
  forallb is_name_char k = true ->
  match strip_prefix EXPORT (k ++ c_eq :: X) with
  | Some (c :: _) => is_blank c = false
  | _ => True
  end.
Proof.
  intro H. unfold EXPORT, c_eq.
  destruct k as [|a1 [|a2 [|a3 [|a4 [|a5 [|a6 [|a7 k]]]]]]]; cbn [app strip_prefix];
    repeat (match goal with |- context [if ?x =? ?y then _ else _] =>
              let E := fresh "E" in
              destruct (x =? y) eqn:E; [apply N.eqb_eq in E; try discriminate E|] end);
    try exact I; try reflexivity.
  cbn [forallb] in H. repeat (apply andb_true_iff in H as [? H]).
  apply name_char_not_blank. assumption.
Qed.

Lemma command_plain_line U kv items fuel tail rest :
  Forall item_ok (kv :: items) -> tail_spec tail rest ->
  (length (join [c_sp] (map (item_str U) (kv :: items)) ++ tail) < fuel)%nat ->
  command fuel (join [c_sp] (map (item_str U) (kv :: items)) ++ tail)
  = Some (map (entry false) (kv :: items), rest).
Proof.
  intros Hok Ht L. rewrite command_plain; [apply assigns_line; assumption|].
  inversion Hok as [|? ? Hkv _]; subst. destruct kv as [k v]. destruct Hkv as [Hk Hv]. cbn [fst snd] in *.
  cbn [map]. rewrite join_cons.
  assert (E : exists Y, item_str U (k, v) = k ++ c_eq :: Y).
  { destruct v; [| |destruct Hv]; unfold item_str; cbn [render_val fst snd app]; eauto. }
  destruct E as [Y ->]. rewrite <- !app_assoc. cbn [app].
  destruct k as [|c k']; [discriminate|].
  assert (Hc : is_name_start c = true) by (cbn [valid_nameb] in Hk; apply andb_true_iff in Hk; tauto).
  change ((c :: k') ++ c_eq :: Y ++ ?Z) with ((if false then [c_sp] else []) ++ c :: k' ++ c_eq :: Y ++ Z).
  rewrite (skip_sp_name false c _ Hc).
  change (c :: k' ++ c_eq :: ?Z) with ((c :: k') ++ c_eq :: Z).
  apply no_export_prefix. apply valid_name_chars. exact Hk.
Qed.

Lemma command_export_line U kv items fuel tail rest :
  Forall item_ok (kv :: items) -> tail_spec tail rest ->
  (length (join [c_sp] (map (item_str U) (kv :: items)) ++ tail) < fuel)%nat ->
  command fuel ((EXPORT ++ [c_sp] ++ join [c_sp] (map (item_str U) (kv :: items))) ++ tail)
  = Some (map (entry true) (kv :: items), rest).
Proof.
  intros Hok Ht L. rewrite <- !app_assoc. unfold command, EXPORT. cbn [app skip_sp].
  cbn -[assigns join map]. apply assigns_line; assumption.
Qed.

(* ------------------------------------------------------------------ the whole text *)
Lemma program_unfold f c s :
  program (S f) (c :: s) =
  match command (S f) (c :: s) with
  | None => None
  | Some (l, r) => match program f r with Some l' => Some (l ++ l') | None => None end
  end.
Proof. reflexivity. Qed.

Lemma program_nil f : program f [] = Some [].
Proof. destruct f; reflexivity. Qed.

Definition line_str (U : uni) (items : env) : str := join [c_sp] (map (item_str U) items).

Lemma line_nonempty U kv items :
  item_ok kv -> exists c r, line_str U (kv :: items) = c :: r.
Proof.
  intro H. unfold line_str. cbn [map]. rewrite join_cons.
  destruct (item_str_nonempty U kv H) as (c & r & -> & _). cbn [app]. eauto.
Qed.

Lemma lines_of_map U P X :
  lines_of (map (item_str U) P) (map (item_str U) X) =
  (match P with [] => [] | _ => [line_str U P] end)
  ++ (match X with [] => [] | _ => [EXPORT ++ [c_sp] ++ line_str U X] end).
Proof. destruct P, X; reflexivity. Qed.

Lemma bash_eval_lines U P X :
  Forall item_ok P -> Forall item_ok X ->
  bash_eval (join [c_nl] (lines_of (map (item_str U) P) (map (item_str U) X)))
  = Some (map (entry false) P ++ map (entry true) X).
Proof.
  intros HP HX. rewrite lines_of_map. unfold bash_eval.
  destruct P as [|p P]; destruct X as [|x X].
  - reflexivity.
  - (* export line only *)
    change (program (S (length (EXPORT ++ [c_sp] ++ line_str U (x :: X))))
                    (EXPORT ++ [c_sp] ++ line_str U (x :: X)) = Some (map (entry true) (x :: X))).
    set (text := EXPORT ++ [c_sp] ++ line_str U (x :: X)).
    assert (T : text = 101 :: skipn 1 text) by reflexivity.
    rewrite T at 2. rewrite program_unfold, <- T. subst text.
    pose proof (command_export_line U x X (S (length (EXPORT ++ [c_sp] ++ line_str U (x :: X)))) [] []
                  HX (or_introl (conj eq_refl eq_refl))) as C.
    unfold line_str in *. rewrite !app_nil_r in C. rewrite C.
    + rewrite program_nil, app_nil_r. reflexivity.
    + rewrite ?app_length. cbn [length]. lia.
  - (* plain line only *)
    inversion HP as [|? ? Hp _]; subst.
    destruct (line_nonempty U p P Hp) as (c & r & E).
    change (program (S (length (line_str U (p :: P)))) (line_str U (p :: P))
            = Some (map (entry false) (p :: P) ++ [])).
    set (text := line_str U (p :: P)) in *.
    rewrite E at 2. rewrite program_unfold, <- E. subst text.
    pose proof (command_plain_line U p P (S (length (line_str U (p :: P)))) [] [] HP
                  (or_introl (conj eq_refl eq_refl))) as C.
    unfold line_str in *. rewrite !app_nil_r in C. rewrite C.
    + rewrite program_nil, !app_nil_r. reflexivity.
    + lia.
  - (* both *)
    inversion HP as [|? ? Hp _]; subst.
    destruct (line_nonempty U p P Hp) as (c & r & E).
    change (program (S (length (line_str U (p :: P) ++ [c_nl] ++ EXPORT ++ [c_sp] ++ line_str U (x :: X))))
                    (line_str U (p :: P) ++ [c_nl] ++ EXPORT ++ [c_sp] ++ line_str U (x :: X))
            = Some (map (entry false) (p :: P) ++ map (entry true) (x :: X))).
    set (l2 := EXPORT ++ [c_sp] ++ line_str U (x :: X)).
    set (text := line_str U (p :: P) ++ [c_nl] ++ l2).
    assert (E1 : text = c :: (r ++ [c_nl] ++ l2)) by (subst text; rewrite E; reflexivity).
    rewrite E1 at 2. rewrite program_unfold, <- E1.
    assert (C1 : command (S (length text)) text = Some (map (entry false) (p :: P), l2)).
    { subst text. unfold line_str. cbn [app].
      apply command_plain_line; [exact HP | right; reflexivity |].
      cbn [app length]. rewrite ?app_length. cbn [length]. lia. }
    rewrite C1.
    assert (T : l2 = 101 :: skipn 1 l2) by reflexivity.
    assert (Len : (length l2 < length text)%nat).
    { subst text. rewrite ?app_length. cbn [length]. lia. }
    destruct (length text) as [|n] eqn:LT; [lia|].
    rewrite T at 1. rewrite program_unfold, <- T.
    pose proof (command_export_line U x X (S n) [] [] HX (or_introl (conj eq_refl eq_refl))) as C.
    rewrite !app_nil_r in C. fold (line_str U (x :: X)) in C. fold l2 in C. rewrite C.
    + rewrite program_nil, app_nil_r. reflexivity.
    + subst l2. unfold line_str in *. rewrite ?app_length in Len. cbn [length] in Len. lia.
Qed.

(* ------------------------------------------------------------------ the generator's structure *)
From Coq Require Import Permutation.

Definition sorted_items (e : env) : env := sort_env (remove_key MARKER e).
Definition kept (ro : list str) (l : env) : env := filter (fun kv => negb (mem_str (fst kv) ro)) l.
Definition plain_of (ro ne : list str) (l : env) : env := filter (fun kv => mem_str (fst kv) ne) (kept ro l).
Definition exp_of (ro ne : list str) (l : env) : env :=
  filter (fun kv => negb (mem_str (fst kv) ne)) (kept ro l).

Lemma name_start_alpha U c :
  is_name_start c = true -> negb (py_isalpha_c U c) && negb (c =? c_us) = false.
Proof.
  unfold is_name_start, py_isalpha_c. intro H. apply orb_true_iff in H as [H|H].
  - replace (c <? 128) with true.
    + rewrite H. reflexivity.
    + symmetry. apply N.ltb_lt. unfold is_alpha_ascii in H.
      apply orb_true_iff in H as [H|H]; apply andb_true_iff in H as [_ H]; apply N.leb_le in H; lia.
  - rewrite H. apply andb_false_r.
Qed.

Lemma render_all_ok U ro ne l :
  Forall item_ok l ->
  render_all U (render_val U) ro ne l
  = inr (map (item_str U) (plain_of ro ne l), map (item_str U) (exp_of ro ne l)).
Proof.
  induction l as [|[k v] r IH]; intro H; [reflexivity|].
  inversion H as [|? ? [Hk Hv] Hr]; subst. cbn [fst snd] in Hk, Hv.
  unfold plain_of, exp_of, kept in *. cbn [render_all filter fst].
  destruct (mem_str k ro) eqn:R; cbn [negb]; [exact (IH Hr)|].
  destruct k as [|c k']; [discriminate|].
  assert (Hc : is_name_start c = true) by (cbn [valid_nameb] in Hk; apply andb_true_iff in Hk; tauto).
  rewrite (name_start_alpha U c Hc).
  destruct v as [s|vs|]; [| |destruct Hv]; cbn [render_val]; rewrite (IH Hr); cbn [filter fst];
    destruct (mem_str (c :: k') ne); cbn [negb map]; reflexivity.
Qed.

Lemma assoc_In k e v : assoc k e = Some v -> In (k, v) e.
Proof.
  induction e as [|[k' v'] e IH]; cbn [assoc]; [discriminate|].
  destruct (str_eqb k k') eqn:E.
  - apply str_eqb_eq in E. subst k'. intro H; injection H as ->. left; reflexivity.
  - intro H; right; exact (IH H).
Qed.

Lemma In_assoc k e v : NoDup (map fst e) -> In (k, v) e -> assoc k e = Some v.
Proof.
  induction e as [|[k' v'] e IH]; cbn [assoc map fst]; intros ND I; [destruct I|].
  inversion ND as [|? ? Hn ND']; subst.
  destruct I as [E|I].
  - injection E as -> ->. rewrite str_eqb_refl. reflexivity.
  - destruct (str_eqb k k') eqn:E.
    + apply str_eqb_eq in E. subst k'. exfalso. apply Hn. apply (in_map fst) in I. exact I.
    + exact (IH ND' I).
Qed.

Lemma In_remove_key m e kv :
  In kv (remove_key m e) <-> In kv e /\ str_eqb m (fst kv) = false.
Proof.
  induction e as [|[k v] e IH]; cbn [remove_key].
  - cbn [In]. tauto.
  - destruct (str_eqb m k) eqn:E.
    + split.
      * intro I. apply IH in I as [I F]. split; [right; exact I | exact F].
      * intros [[Eq|I] F].
        -- subst kv. cbn [fst] in F. congruence.
        -- apply IH. split; assumption.
    + split.
      * intros [Eq|I].
        -- subst kv. split; [left; reflexivity | exact E].
        -- apply IH in I as [I F]. split; [right; exact I | exact F].
      * intros [[Eq|I] F].
        -- left; exact Eq.
        -- right. apply IH. split; assumption.
Qed.

Lemma remove_key_keys_incl m e k : In k (map fst (remove_key m e)) -> In k (map fst e).
Proof.
  rewrite !in_map_iff. intros (kv & E & I). apply In_remove_key in I as [I _]. eauto.
Qed.

Lemma NoDup_remove_key m e : NoDup (map fst e) -> NoDup (map fst (remove_key m e)).
Proof.
  induction e as [|[k v] e IH]; cbn [remove_key map fst]; intro ND; [constructor|].
  inversion ND as [|? ? Hn ND']; subst.
  destruct (str_eqb m k); [exact (IH ND')|].
  cbn [map fst]. constructor; [|exact (IH ND')].
  intro I. apply Hn. exact (remove_key_keys_incl _ _ _ I).
Qed.

Lemma insert_perm kv l : Permutation (insert_kv kv l) (kv :: l).
Proof.
  induction l as [|x l IH]; cbn [insert_kv]; [reflexivity|].
  destruct (str_leb (fst kv) (fst x)); [reflexivity|].
  rewrite IH. apply perm_swap.
Qed.
Lemma sort_perm l : Permutation (sort_env l) l.
Proof.
  induction l as [|kv l IH]; cbn [sort_env]; [reflexivity|].
  rewrite insert_perm. constructor. exact IH.
Qed.

Lemma NoDup_map_filter {A B} (g : A -> B) f l : NoDup (map g l) -> NoDup (map g (filter f l)).
Proof.
  induction l as [|a l IH]; cbn [filter map]; intro ND; [constructor|].
  inversion ND as [|? ? Hn ND']; subst.
  destruct (f a); [|exact (IH ND')]. cbn [map]. constructor; [|exact (IH ND')].
  intro I. apply Hn. apply in_map_iff in I as (x & E & I). apply filter_In in I as [I _].
  rewrite <- E. apply in_map. exact I.
Qed.

Lemma NoDup_filter_split {A B} (g : A -> B) f l :
  NoDup (map g l) -> NoDup (map g (filter f l ++ filter (fun x => negb (f x)) l)).
Proof.
  induction l as [|a l IH]; cbn [filter map]; intro ND; [constructor|].
  inversion ND as [|? ? Hn ND']; subst.
  assert (Hnot : ~ In (g a) (map g (filter f l ++ filter (fun x => negb (f x)) l))).
  { intro I. apply Hn. apply in_map_iff in I as (x & E & I). rewrite <- E. apply in_map.
    apply in_app_or in I as [I|I]; apply filter_In in I as [I _]; exact I. }
  destruct (f a); cbn [negb].
  - cbn [app map]. constructor; [exact Hnot | exact (IH ND')].
  - rewrite map_app. cbn [map].
    eapply Permutation_NoDup; [apply Permutation_middle|].
    rewrite <- map_app. constructor; [exact Hnot | exact (IH ND')].
Qed.

(* ------------------------------------------------------------------ the shell state of a log *)
Definition akey (a : assignment) : str := fst (fst a).
Fixpoint log_find (k : str) (log : list assignment) : option (bval * bool) :=
  match log with
  | [] => None
  | (k', v, e) :: r => if str_eqb k k' then Some (v, e) else log_find k r
  end.

Lemma str_eqb_neq a b : a <> b -> str_eqb a b = false.
Proof. intro H. destruct (str_eqb a b) eqn:E; [apply str_eqb_eq in E; contradiction | reflexivity]. Qed.

Lemma sh_lookup_set_same k v e st :
  sh_lookup k st = None -> sh_lookup k (sh_set k v e st) = Some (v, e).
Proof.
  induction st as [|[k' [v' e']] st IH]; cbn [sh_lookup sh_set]; intro H.
  - rewrite str_eqb_refl. reflexivity.
  - destruct (str_eqb k k') eqn:E; [discriminate|]. cbn [sh_lookup]. rewrite E. exact (IH H).
Qed.
Lemma sh_lookup_set_other k k' v e st :
  k <> k' -> sh_lookup k (sh_set k' v e st) = sh_lookup k st.
Proof.
  intro N. induction st as [|[k2 [v2 e2]] st IH]; cbn [sh_lookup sh_set].
  - rewrite (str_eqb_neq _ _ N). reflexivity.
  - destruct (str_eqb k' k2) eqn:E.
    + apply str_eqb_eq in E. subst k2. cbn [sh_lookup]. rewrite (str_eqb_neq _ _ N). reflexivity.
    + cbn [sh_lookup]. destruct (str_eqb k k2); [reflexivity | exact IH].
Qed.

Lemma log_find_none k log : ~ In k (map akey log) -> log_find k log = None.
Proof.
  induction log as [|[[k' v] e] r IH]; cbn [log_find map]; intro H; [reflexivity|].
  unfold akey at 1 in H. cbn [fst] in H.
  rewrite str_eqb_neq; [apply IH; intro I; apply H; right; exact I|].
  intro E; apply H; left; symmetry; exact E.
Qed.

Lemma run_log_lookup log : forall st,
  NoDup (map akey log) ->
  (forall a, In a log -> sh_lookup (akey a) st = None) ->
  forall k, sh_lookup k (run_log log st)
            = match log_find k log with Some x => Some x | None => sh_lookup k st end.
Proof.
  induction log as [|[[k' v] e] r IH]; intros st ND Hst k; [reflexivity|].
  inversion ND as [|? ? Hn ND']; subst. unfold akey at 1 in Hn. cbn [fst] in Hn.
  change (run_log (((k', v), e) :: r) st) with (run_log r (sh_set k' v e st)).
  rewrite IH; [|exact ND'|].
  - cbn [log_find]. destruct (str_eqb k k') eqn:E.
    + apply str_eqb_eq in E. subst k'. rewrite (log_find_none _ _ Hn).
      apply sh_lookup_set_same. apply (Hst ((k, v), e)). left; reflexivity.
    + destruct (log_find k r); [reflexivity|].
      apply sh_lookup_set_other. intro; subst. rewrite str_eqb_refl in E. discriminate.
  - intros a Ia. rewrite sh_lookup_set_other.
    + apply Hst. right; exact Ia.
    + intro E. apply Hn. rewrite <- E. apply in_map. exact Ia.
Qed.

Lemma log_find_In k log v e :
  NoDup (map akey log) -> (log_find k log = Some (v, e) <-> In (k, v, e) log).
Proof.
  induction log as [|[[k' v'] e'] r IH]; cbn [log_find map]; intro ND; [split; [discriminate|intros []]|].
  inversion ND as [|? ? Hn ND']; subst. unfold akey at 1 in Hn. cbn [fst] in Hn.
  destruct (str_eqb k k') eqn:E.
  - apply str_eqb_eq in E. subst k'. split.
    + intro H; injection H as -> ->. left; reflexivity.
    + intros [H|H]; [injection H as -> ->; reflexivity|].
      exfalso. apply Hn. change k with (akey ((k, v), e)). apply in_map. exact H.
  - rewrite (IH ND'). split; [intro H; right; exact H|].
    intros [H|H]; [|exact H]. injection H as -> _ _. rewrite str_eqb_refl in E. discriminate.
Qed.

Lemma final_lookup_In k log v e :
  NoDup (map akey log) -> (final_lookup k log = Some (v, e) <-> In (k, v, e) log).
Proof.
  intro ND. unfold final_lookup. rewrite (run_log_lookup log [] ND (fun _ _ => eq_refl) k).
  cbn [sh_lookup]. rewrite <- (log_find_In k log v e ND).
  destruct (log_find k log); reflexivity.
Qed.

Lemma option_ext {A} (a b : option A) : (forall x, a = Some x <-> b = Some x) -> a = b.
Proof.
  intro H. destruct a as [x|], b as [y|]; try reflexivity.
  - symmetry. apply H. reflexivity.
  - symmetry. apply H. reflexivity.
  - apply H. reflexivity.
Qed.

(* ------------------------------------------------------------------ assembling *)
Lemma str_eqb_sym a b : str_eqb a b = str_eqb b a.
Proof.
  destruct (str_eqb a b) eqn:E.
  - apply str_eqb_eq in E. subst. symmetry. apply str_eqb_refl.
  - symmetry. apply str_eqb_neq. intro H. subst. rewrite str_eqb_refl in E. discriminate.
Qed.

Lemma In_sorted_items e kv :
  In kv (sorted_items e) <-> In kv e /\ str_eqb MARKER (fst kv) = false.
Proof.
  unfold sorted_items. rewrite <- In_remove_key. split; intro H.
  - eapply Permutation_in; [apply sort_perm | exact H].
  - eapply Permutation_in; [apply Permutation_sym, sort_perm | exact H].
Qed.

Lemma env_ok_items e : env_ok e -> Forall item_ok (sorted_items e).
Proof.
  intros [_ Hn Hv _]. apply Forall_forall. intros [k v] I. apply In_sorted_items in I as [I _].
  split; cbn [fst snd]; [exact (Hn k v I) | exact (Hv k v I)].
Qed.

Lemma nonexported_ok e : env_ok e -> nonexported_of e = inr (marked e).
Proof.
  intros [_ _ _ Hm]. unfold nonexported_of, marked.
  destruct (assoc MARKER e) as [v|] eqn:A; [|reflexivity].
  destruct (Hm v (assoc_In _ _ _ A)) as [s ->]. reflexivity.
Qed.

Definition plain_items ro e := plain_of ro (marked e) (sorted_items e).
Definition exp_items ro e := exp_of ro (marked e) (sorted_items e).
Definition the_log ro e : list assignment :=
  map (entry false) (plain_items ro e) ++ map (entry true) (exp_items ro e).

Lemma Forall_filter {A} (P : A -> Prop) f l : Forall P l -> Forall P (filter f l).
Proof.
  rewrite !Forall_forall. intros H x I. apply filter_In in I as [I _]. exact (H x I).
Qed.

Lemma generate_ok U ro e :
  env_ok e ->
  exists text, generate_env_str U ro e = inr text /\ bash_eval text = Some (the_log ro e).
Proof.
  intro Hok. unfold generate_env_str, generate_with.
  rewrite (nonexported_ok e Hok).
  fold (sorted_items e). rewrite (render_all_ok U ro (marked e) _ (env_ok_items e Hok)).
  eexists. split; [reflexivity|].
  apply bash_eval_lines; unfold plain_of, exp_of, kept; repeat apply Forall_filter;
    exact (env_ok_items e Hok).
Qed.

Lemma map_akey_entry b l : map akey (map (entry b) l) = map fst l.
Proof. induction l as [|[k v] l IH]; cbn; congruence. Qed.

Lemma the_log_nodup ro e : env_ok e -> NoDup (map akey (the_log ro e)).
Proof.
  intros [ND _ _ _]. unfold the_log, plain_items, exp_items, plain_of, exp_of.
  rewrite map_app, !map_akey_entry, <- map_app.
  apply (NoDup_filter_split fst (fun kv => mem_str (fst kv) (marked e))).
  unfold kept. apply NoDup_map_filter. unfold sorted_items.
  eapply Permutation_NoDup; [apply Permutation_sym, Permutation_map, sort_perm|].
  apply NoDup_remove_key. exact ND.
Qed.

(* what the statement asks of variable k, as a proposition *)
Definition wanted ro e (k : str) (bv : bval) (ex : bool) : Prop :=
  exists v, In (k, v) e /\ str_eqb MARKER k = false /\ mem_str k ro = false
            /\ bv = bval_of v /\ ex = negb (mem_str k (marked e)).

Lemma the_log_In ro e k bv ex : In (k, bv, ex) (the_log ro e) <-> wanted ro e k bv ex.
Proof.
  unfold the_log, plain_items, exp_items, plain_of, exp_of, kept, wanted. split.
  - intro I. apply in_app_or in I as [I|I]; apply in_map_iff in I as ([k' v] & E & I);
      unfold entry in E; cbn [fst snd] in E; injection E as -> <- <-;
      apply filter_In in I as [I F1]; apply filter_In in I as [I F2];
      apply In_sorted_items in I as [I F3]; cbn [fst] in *;
      exists v; repeat split; try assumption.
    + apply negb_true_iff in F2. exact F2.
    + rewrite F1. reflexivity.
    + apply negb_true_iff in F2. exact F2.
    + apply negb_true_iff in F1. rewrite F1. reflexivity.
  - intros (v & I & F3 & F2 & -> & ->).
    assert (K : In (k, v) (filter (fun kv => negb (mem_str (fst kv) ro)) (sorted_items e))).
    { apply filter_In. split; [apply In_sorted_items; split; assumption|]. cbn [fst]. rewrite F2. reflexivity. }
    apply in_or_app. destruct (mem_str k (marked e)) eqn:M; [left|right];
      apply in_map_iff; exists (k, v); (split; [reflexivity|]); apply filter_In; (split; [exact K|]);
      cbn [fst]; rewrite M; reflexivity.
Qed.

Lemma expected_lookup_wanted ro e k bv ex :
  env_ok e -> (expected_lookup ro e k = Some (bv, ex) <-> wanted ro e k bv ex).
Proof.
  intros [ND _ Hv _]. unfold expected_lookup, wanted. rewrite (str_eqb_sym k MARKER). split.
  - destruct (str_eqb MARKER k) eqn:F3; [discriminate|].
    destruct (mem_str k ro) eqn:F2; [discriminate|]. cbn [orb].
    destruct (assoc k e) as [v|] eqn:A; [|discriminate].
    apply assoc_In in A.
    destruct v as [s|l|]; [| |discriminate]; intro H; injection H as <- <-;
      eexists; repeat split; try eassumption; reflexivity.
  - intros (v & I & F3 & F2 & -> & ->). rewrite F3, F2. cbn [orb].
    rewrite (In_assoc k e v ND I). specialize (Hv k v I).
    destruct v; [reflexivity | reflexivity | destruct Hv].
Qed.

Lemma env_roundtrip_proof : forall U ro e,
  env_ok e ->
  exists text log,
    generate_env_str U ro e = inr text /\ bash_eval text = Some log /\
    forall k, final_lookup k log = expected_lookup ro e k.
Proof.
  intros U ro e Hok. destruct (generate_ok U ro e Hok) as (text & G & B).
  exists text, (the_log ro e). repeat split; [exact G | exact B |].
  intro k. apply option_ext. intros [bv ex].
  rewrite (final_lookup_In k _ bv ex (the_log_nodup ro e Hok)), the_log_In.
  symmetry. apply expected_lookup_wanted. exact Hok.
Qed.

(* both halves of the statement together: what send_env writes (inline) is read back exactly,
   leaves the channel at the next command, and evaluates to the environment *)
Lemma send_env_inline_exact_proof : forall U ro e rest,
  env_ok e ->
  exists text log,
    generate_env_str U ro e = inr text /\
    reader (frame text ++ rest) = Some (encode text, rest) /\
    bash_eval text = Some log /\
    forall k, final_lookup k log = expected_lookup ro e k.
Proof.
  intros U ro e rest Hok. destruct (env_roundtrip_proof U ro e Hok) as (text & log & G & B & H).
  exists text, log. repeat split; try assumption. apply framing_in_sync_proof.
Qed.

Lemma send_env_file_exact_proof : forall U ro e path rest,
  env_ok e -> ascii_line path ->
  exists text log,
    generate_env_str U ro e = inr text /\
    reader_file (frame_file path ++ rest) = Some (path, rest) /\
    bash_eval text = Some log /\
    forall k, final_lookup k log = expected_lookup ro e k.
Proof.
  intros U ro e path rest Hok Hp. destruct (env_roundtrip_proof U ro e Hok) as (text & log & G & B & H).
  exists text, log. repeat split; try assumption. apply framing_file_in_sync_proof. exact Hp.
Qed.

(* ------------------------------------------------------------------ non-vacuity *)
Definition U0 : uni := mkU [233] [233].
(* A = it's a \n b (a backslash and an n, not a newline); B = x y, marked non-exported;
   C = e-acute; L = a list of four: one with dquote dollar paren backtick, one plain,
   one ending in a backslash, one empty; E = the empty list *)
Definition ex_env : env :=
  [ ([66], PStr [120; 32; 121]);
    ([65], PStr [105; 116; 39; 115; 32; 97; 32; 92; 110; 32; 98]);
    (MARKER, PStr [66; 32; 32; 90]);
    ([76], PList [[113; 34; 36; 40; 105; 100; 41; 96]; [112; 108; 97; 105; 110]; [99; 92]; []]);
    ([67], PStr [233]);
    ([69], PList []) ].

Lemma nodup_dec_true l : nodupb l = true -> NoDup l.
Proof.
  induction l as [|x l IH]; cbn [nodupb]; intro H; [constructor|].
  apply andb_true_iff in H as [H1 H2]. constructor; [|exact (IH H2)].
  intro I. apply negb_true_iff in H1.
  assert (M : mem_str x l = true).
  { clear -I. induction l as [|y l IH]; [destruct I|]. cbn [mem_str].
    destruct I as [->|I]; [rewrite str_eqb_refl; reflexivity | rewrite (IH I); apply orb_true_r]. }
  congruence.
Qed.

Lemma nul_free_sound s : nul_free s = true -> no_nul s.
Proof. unfold nul_free, no_nul. intro H. apply memN_false. apply negb_true_iff. exact H. Qed.

Lemma env_okb_sound e : env_okb e = true -> env_ok e.
Proof.
  unfold env_okb. intro H. apply andb_true_iff in H as [H Hm]. apply andb_true_iff in H as [Hn Hf].
  pose proof (nodup_dec_true _ Hn) as ND.
  rewrite forallb_forall in Hf.
  constructor.
  - exact ND.
  - intros k v I. specialize (Hf _ I). cbn [fst snd] in Hf. apply andb_true_iff in Hf as [Hf _]. exact Hf.
  - intros k v I. specialize (Hf _ I). cbn [fst snd] in Hf. apply andb_true_iff in Hf as [_ Hf].
    destruct v as [s|l|]; cbn [value_ok value_okb] in *.
    + apply nul_free_sound. exact Hf.
    + intros s Hs. rewrite forallb_forall in Hf. apply nul_free_sound. exact (Hf s Hs).
    + discriminate.
  - intros v I. rewrite (In_assoc _ _ _ ND I) in Hm. destruct v; [eauto | discriminate | discriminate].
Qed.

Example ex_env_ok : env_ok ex_env.
Proof. apply env_okb_sound. reflexivity. Qed.

Example ex_generated :
  generate_env_str U0 [] ex_env
  = inr ([66;61;39;120;32;121;39;10] ++
         [101;120;112;111;114;116;32] ++
         [65;61;36;39;105;116;92;39;115;32;97;32;92;92;110;32;98;39;32] ++
         [67;61;233;32] ++ [69;61;40;41;32] ++
         [76;61;40;91;48;93;61;39;113;34;36;40;105;100;41;96;39;32;
          91;49;93;61;34;112;108;97;105;110;34;32;91;50;93;61;39;99;92;39;32;91;51;93;61;34;34;41]).
Proof. vm_compute. reflexivity. Qed.
(* two lines: the plain assignment of B, then the export line with A in the ANSI-C form, C bare,
   E empty, and the elements of L single-quoted where double quotes would be unsafe *)

Example ex_evaluated :
  match generate_env_str U0 [] ex_env with
  | inr t => option_map (fun log => (final_lookup [65] log, final_lookup [66] log, final_lookup [76] log))
                        (bash_eval t)
  | inl _ => None
  end
  = Some (Some (BStr [105; 116; 39; 115; 32; 97; 32; 92; 110; 32; 98], true),
          Some (BStr [120; 32; 121], false),
          Some (BArr [(0, [113; 34; 36; 40; 105; 100; 41; 96]); (1, [112; 108; 97; 105; 110]);
                      (2, [99; 92]); (3, [])], true)).
Proof. vm_compute. reflexivity. Qed.

(* ------------------------------------------------------------------ the generator before the repair *)
Definition roundtrip_statement (gen : uni -> list str -> env -> gerr + str) : Prop :=
  forall U ro e, env_ok e ->
  exists text log, gen U ro e = inr text /\ bash_eval text = Some log /\
                   forall k, final_lookup k log = expected_lookup ro e k.

(* (i) a scalar with a quote and a backslash-n arrives with a real newline *)
Lemma old_scalar_refuted_proof : ~ roundtrip_statement generate_env_str_old.
Proof.
  intro H.
  assert (Hok : env_ok [([65], PStr [105; 116; 39; 115; 32; 92; 110])])
    by (apply env_okb_sound; reflexivity).
  destruct (H U0 [] _ Hok) as (text & log & G & B & L).
  vm_compute in G. injection G as <-. vm_compute in B. injection B as <-.
  specialize (L [65]). vm_compute in L. discriminate L.
Qed.

(* (ii) a list element containing a double quote: the text is not even a complete word *)
Lemma old_list_refuted_proof :
  exists U ro e, env_ok e /\
    exists text, generate_env_str_old U ro e = inr text /\ bash_eval text = None.
Proof.
  exists U0, [], [([76], PList [[113; 34; 120]])]. split.
  - apply env_okb_sound. reflexivity.
  - eexists. split; vm_compute; reflexivity.
Qed.
