(* Spec_C20.v — the statement of C20, written from its text, not from the algorithm:

     "Unmerging removes every listed non-directory entry and nothing unlisted, removes listed
      directories only when empty, never follows a symlink to its target, and never removes a
      protected base-system directory.  When one package replaces another, entries the new
      package installs are not removed."

   Names are understood the way the kernel understands them for lstat/unlink/rmdir ([canon]:
   every component but the last is followed; the last one never is).  The only things taken
   from the implementation side are the world's name resolution (C18/Model_C18 [walk]) and the
   regenerated list of protected names. *)
From Coq Require Import List NArith ZArith Bool.
Import ListNotations.
From Verif Require Import Base.Val C18.Fs C18.Model_C18 gen.Tables_C20 C20.Model_C20.

Definition old_names (i : uinput) : list path := with_off (u_off i) (u_old i).
Definition new_names (i : uinput) : list path :=
  match u_new i with Some l => with_off (u_off i) l | None => [] end.
Definition protected_names (i : uinput) : list path := protected (u_off i).

(* the base-system directories of the statement, pinned here (NOT taken from the source): the
   regenerated _preserve_sequence must cover them (Prop_C20.protected_covers_base_system) *)
Definition base_system_dirs : list path :=
  map split_slash
    [[117;115;114]%N;
     [117;115;114;47;108;105;98]%N;
     [117;115;114;47;108;105;98;54;52]%N;
     [117;115;114;47;108;105;98;51;50]%N;
     [117;115;114;47;98;105;110]%N;
     [117;115;114;47;115;98;105;110]%N;
     [98;105;110]%N;
     [115;98;105;110]%N;
     [108;105;98]%N;
     [108;105;98;51;50]%N;
     [108;105;98;54;52]%N;
     [101;116;99]%N;
     [118;97;114]%N;
     [104;111;109;101]%N;
     [114;111;111;116]%N].
(* /usr /usr/lib /usr/lib64 /usr/lib32 /usr/bin /usr/sbin /bin /sbin /lib /lib32 /lib64 /etc /var /home /root *)

(* p is a name the old package lists, something lives there, it is not a protected name, and
   the new package (if any) neither lists that name nor installs the object it denotes *)
Definition removable (i : uinput) (p : path) : Prop :=
  In p (old_names i) /\ lstat (u_fs i) p <> None /\ ~ In p (protected_names i)
  /\ ~ In p (new_names i)
  /\ (forall n c, In n (new_names i) -> canon (u_fs i) n = WOk c -> canon (u_fs i) p <> WOk c).

(* the object (canonical path) q is denoted by a removable name *)
Definition owned (i : uinput) (q : path) : Prop :=
  exists p, removable i p /\ canon (u_fs i) p = WOk q.

(* a name denotes nothing (lstat fails) *)
Definition absent (s : fs) (p : path) : Prop := lstat s p = None.

(* all listed live names are their own canonical path: no listed name goes through a symlinked directory *)
Definition alias_free (i : uinput) : Prop :=
  forall p, In p (old_names i) -> lstat (u_fs i) p <> None -> canon (u_fs i) p = WOk p.

(* ---- the clauses, about an arbitrary outcome s' of unmerging i *)
Definition nondirs_gone (i : uinput) (s' : fs) : Prop :=
  forall p c, removable i p -> lstat (u_fs i) p = Some (c, false) -> absent s' p.

Definition nothing_unlisted (i : uinput) (s' : fs) : Prop :=
  forall q, lookup s' q = lookup (u_fs i) q \/ (lookup s' q = None /\ owned i q).

Definition protected_kept_full (i : uinput) (s' : fs) : Prop :=
  forall p c, In p (protected_names i) -> canon (u_fs i) p = WOk c -> lookup s' c = lookup (u_fs i) c.

Definition new_kept (i : uinput) (s' : fs) : Prop :=
  forall n c, In n (new_names i) -> canon (u_fs i) n = WOk c -> lookup s' c = lookup (u_fs i) c.

(* a listed symlink: the object its target resolves to is untouched unless that object is owned itself *)
Definition symlink_targets_kept (i : uinput) (s' : fs) : Prop :=
  forall p c r t u g m, In p (old_names i) -> canon (u_fs i) p = WOk c -> lookup (u_fs i) c = Some (Sym t u g m) ->
    rcanon (u_fs i) p = WOk r -> ~ owned i r -> lookup s' r = lookup (u_fs i) r.

(* ---- boolean acceptor for the harness: comparison (B) on the implementation's after-snapshot *)
Definition removableb (i : uinput) (nc : list path) (p : path) : bool :=
  mem_path p (old_names i)
  && (match lstat (u_fs i) p with Some _ => true | None => false end)
  && negb (mem_path p (protected_names i))
  && negb (mem_path p (new_names i))
  && negb (match canon_opt (u_fs i) p with Some c => mem_path c nc | None => false end).

Definition same_node (a b : option node) : bool :=
  match a, b with
  | Some x, Some y => node_eqb_noino x y
  | None, None => true
  | _, _ => false
  end.

Definition is_canon_of (s : fs) (q p : path) : bool :=
  match canon_opt s p with Some c => if path_eq_dec c q then true else false | None => false end.

Definition spec_fs_ok (i : uinput) (s' : fs) : bool :=
  let s := u_fs i in
  let nc := canon_list s (new_names i) in
  let rem := filter (removableb i nc) (old_names i) in
  (* nothing unlisted changes, nothing appears *)
  forallb (fun e => same_node (lookup s' (fst e)) (lookup s (fst e))
                    || (match lookup s' (fst e) with None => true | Some _ => false end)
                       && existsb (is_canon_of s (fst e)) rem) s
  && forallb (fun e => match lookup s (fst e) with Some _ => true | None => false end) s'
  (* listed non-directories are gone *)
  && forallb (fun p => match lstat s p with
                       | Some (_, false) => match lstat s' p with None => true | Some _ => false end
                       | _ => true end) rem
  (* protected base directories are kept (full statement) *)
  && forallb (fun p => match canon_opt s p with
                       | Some c => same_node (lookup s' c) (lookup s c)
                       | None => true end) (protected_names i)
  (* replace: what the new package installs is kept *)
  && forallb (fun n => match canon_opt s n with
                       | Some c => same_node (lookup s' c) (lookup s c)
                       | None => true end) (new_names i)
  (* deepest-first completeness when no listed name is an alias: no listed directory is left empty *)
  && (negb (forallb (fun p => match lstat s p with
                              | Some (c, _) => if path_eq_dec c p then true else false
                              | None => true end) (old_names i))
      || forallb (fun p => match lstat s p with
                           | Some (_, true) => match lookup s' p with
                                               | None => true
                                               | Some _ => has_child s' p end
                           | _ => true end) rem).

Definition spec_ok (i : uinput) (r : val) : bool :=
  match result_fs (u_fs i) r with
  | Some s' => spec_fs_ok i s'
  | None => false
  end.
