(* C06/Restr.v — reusable restriction syntax + evaluation (MODEL, no proofs).

   INTERFACE (stable; C07/C08/C13 may `From Verif Require Import C06.Restr.`)

     kind                 KAnd | KOr | KJustOne | KAtMostOne | KAtom
     restr                Leaf neg id      a PackageRestriction / value restriction: an opaque
                                           proposition [id : N] with the restriction's own
                                           `negate` flag  (match = restriction.match(attr) != negate)
                          Always b         restriction.AlwaysBool(negate=b)          (match = b)
                          Neg r            restriction.Negate(r)                      (match = not r.match)
                          Node k neg cs    boolean.{And,Or,JustOne,AtMostOneOf}Restriction(cs..., negate=neg);
                                           KAtom = ebuild.atom (an AndRestriction subclass; it only differs
                                           from KAnd in the normal forms, see Model_C06)
     env := N -> bool     truth of every leaf proposition for one package / value
     env_of_mask m        the environment "leaf i is true iff bit i of m is set"
     eval : env -> restr -> bool
                          what `r.match(pkg)` computes, written as the loops of the four `match`
                          methods (boolean.py:292,466,626,655) over the children's results
     and_loop or_loop one_loop justone atmost_loop node_match
                          the four loops as functions of the list of child results
     clause := list restr ; eval_dnf / eval_cnf : env -> list clause -> bool
                          OR-of-AND / AND-of-OR reading of a clause list whose literals are
                          restrictions themselves (pkgcore's literals are restriction objects)
     has_nf r             r is a boolean node (has dnf_solutions/cnf_solutions methods)
     leaves r             leaf ids occurring in r (with repetitions)

   The structural induction principle for the rose tree is [C06.RestrInd.restr_ind'];
   the propositional reading [prop_eval] is in C06.Spec_C06, [eval = prop_eval] in C06.Prop_C06. *)
From Coq Require Import List NArith Bool.
Import ListNotations.

Inductive kind : Type := KAnd | KOr | KJustOne | KAtMostOne | KAtom.

Inductive restr : Type :=
| Leaf (neg : bool) (id : N)
| Always (b : bool)
| Neg (r : restr)
| Node (k : kind) (neg : bool) (cs : list restr).

Definition env := N -> bool.
Definition env_of_mask (m : N) : env := fun i => N.testbit m i.

(* AndRestriction.match: for rest in restrictions: if not rest.match: return negate; return not negate *)
Fixpoint and_loop (neg : bool) (bs : list bool) : bool :=
  match bs with
  | [] => negb neg
  | b :: r => if b then and_loop neg r else neg
  end.

(* OrRestriction.match *)
Fixpoint or_loop (neg : bool) (bs : list bool) : bool :=
  match bs with
  | [] => neg
  | b :: r => if b then negb neg else or_loop neg r
  end.

(* JustOneRestriction.match: the `armed` loop; the empty node is handled before the loop *)
Fixpoint one_loop (neg armed : bool) (bs : list bool) : bool :=
  match bs with
  | [] => if armed then negb neg else neg
  | b :: r => if b then (if armed then neg else one_loop neg true r) else one_loop neg armed r
  end.
Definition justone (neg : bool) (bs : list bool) : bool :=
  match bs with
  | [] => negb neg
  | _ => one_loop neg false bs
  end.

(* AtMostOneOfRestriction.match *)
Fixpoint atmost_loop (neg armed : bool) (bs : list bool) : bool :=
  match bs with
  | [] => negb neg
  | b :: r => if b then (if armed then neg else atmost_loop neg true r) else atmost_loop neg armed r
  end.

Definition node_match (k : kind) (neg : bool) (bs : list bool) : bool :=
  match k with
  | KAnd | KAtom => and_loop neg bs
  | KOr => or_loop neg bs
  | KJustOne => justone neg bs
  | KAtMostOne => atmost_loop neg false bs
  end.

Fixpoint eval (e : env) (r : restr) : bool :=
  match r with
  | Leaf n i => xorb (e i) n
  | Always b => b
  | Neg r' => negb (eval e r')
  | Node k n cs => node_match k n (map (eval e) cs)
  end.

Definition clause := list restr.
Definition eval_dnf (e : env) (s : list clause) : bool := existsb (forallb (eval e)) s.
Definition eval_cnf (e : env) (s : list clause) : bool := forallb (existsb (eval e)) s.

Definition has_nf (r : restr) : bool :=
  match r with Node _ _ _ => true | _ => false end.

Fixpoint leaves (r : restr) : list N :=
  match r with
  | Leaf _ i => [i]
  | Always _ => []
  | Neg r' => leaves r'
  | Node _ _ cs => flat_map leaves cs
  end.
