From Coq Require Import List NArith ZArith Bool Lia Permutation.
Import ListNotations.
From Verif Require Import Base.Val C18.Fs C18.FsLemmas C28.Model_C28 C28.Spec_C28.
Open Scope N_scope.

(* ================================================================ the order on strings *)
Lemma str_ltb_asym a : forall b, str_ltb a b = true -> str_ltb b a = false.
Proof.
  induction a as [|x a IH]; intros [|y b] H; cbn in *; try discriminate; try reflexivity.
  destruct (N.ltb_spec x y); destruct (N.ltb_spec y x); try lia; try reflexivity; try discriminate.
  now apply IH.
Qed.

Lemma str_ltb_trans a : forall b c, str_ltb a b = true -> str_ltb b c = true -> str_ltb a c = true.
Proof.
  induction a as [|x a IH]; intros [|y b] [|z c] H1 H2; cbn in *; try discriminate; try reflexivity.
  destruct (N.ltb_spec x y); destruct (N.ltb_spec y x); destruct (N.ltb_spec y z); destruct (N.ltb_spec z y);
    destruct (N.ltb_spec x z); destruct (N.ltb_spec z x); try lia; try reflexivity; try discriminate.
  eapply IH; eauto.
Qed.

Lemma str_ltb_total a : forall b, str_ltb a b = false -> str_ltb b a = false -> a = b.
Proof.
  induction a as [|x a IH]; intros [|y b] H1 H2; cbn in *; try discriminate; try reflexivity.
  destruct (N.ltb_spec x y); destruct (N.ltb_spec y x); try lia; try discriminate.
  assert (x = y) by lia. subst. f_equal. now apply IH.
Qed.

(* ================================================================ sorting a permutation *)
Section SortPerm.
  Context {A : Type} (key : A -> str).

  Lemma insert_comm_lt x y l :
    str_ltb (key x) (key y) = true -> insert key x (insert key y l) = insert key y (insert key x l).
  Proof.
    intro Hxy. pose proof (str_ltb_asym _ _ Hxy) as Hyx.
    induction l as [|z l IH]; cbn [insert]; unfold str_leb.
    - rewrite Hyx, Hxy. cbn. reflexivity.
    - destruct (str_ltb (key z) (key y)) eqn:Hzy; cbn [negb].
      + (* y goes after z *)
        cbn [insert]. unfold str_leb.
        destruct (str_ltb (key z) (key x)) eqn:Hzx; cbn [negb].
        * cbn [insert]. unfold str_leb. rewrite Hzy. cbn [negb]. f_equal. exact IH.
        * cbn [insert]. unfold str_leb. rewrite Hxy. cbn [negb]. cbn [insert]. unfold str_leb. rewrite Hzy. reflexivity.
      + (* y before z; then x before z as well *)
        assert (Hzx : str_ltb (key z) (key x) = false).
        { destruct (str_ltb (key z) (key x)) eqn:E; [|reflexivity].
          rewrite (str_ltb_trans _ _ _ E Hxy) in Hzy. discriminate. }
        cbn [insert]. unfold str_leb. rewrite Hyx, Hzx. cbn [negb]. cbn [insert]. unfold str_leb.
        rewrite Hxy, Hzy. reflexivity.
  Qed.

  Lemma insert_comm x y l : key x <> key y -> insert key x (insert key y l) = insert key y (insert key x l).
  Proof.
    intro H. destruct (str_ltb (key x) (key y)) eqn:E1.
    - now apply insert_comm_lt.
    - destruct (str_ltb (key y) (key x)) eqn:E2.
      + symmetry. now apply insert_comm_lt.
      + exfalso. apply H. now apply str_ltb_total.
  Qed.

  Lemma sort_by_perm l l' : Permutation l l' -> NoDup (map key l) -> sort_by key l = sort_by key l'.
  Proof.
    unfold sort_by.
    induction 1 as [|x l l' Hp IH|x y l|l l' l'' Hp1 IH1 Hp2 IH2]; intro Hnd.
    - reflexivity.
    - cbn [fold_right]. cbn [map] in Hnd. inversion Hnd; subst. now rewrite IH.
    - cbn [fold_right]. apply insert_comm. cbn in Hnd. inversion Hnd as [|? ? Hn _]; subst. intro E. apply Hn. left. now symmetry.
    - rewrite IH1 by exact Hnd. apply IH2.
      eapply Permutation_NoDup; [|exact Hnd]. now apply Permutation_map.
  Qed.
End SortPerm.

(* ================================================================ the covered files *)
Lemma dset_fresh {B} k (v : B) d : ~ In k (map fst d) -> dset k v d = d ++ [(k, v)].
Proof.
  induction d as [|[k' v'] d IH]; cbn; intro H; [reflexivity|].
  destruct (str_eqb k k') eqn:E.
  - apply str_eqb_eq in E. subst. exfalso. apply H. now left.
  - rewrite IH; [reflexivity|]. intro Hin. apply H. now right.
Qed.

Lemma picks_acc f scan : forall acc,
  NoDup (map fst (acc ++ covered f scan)) ->
  fold_left (fun d o => match f (classify o) with Some n => dset n (s_cks o) d | None => d end) scan acc
  = acc ++ covered f scan.
Proof.
  induction scan as [|o r IH]; intros acc Hnd; cbn [fold_left covered flat_map].
  - now rewrite app_nil_r.
  - fold (covered f r). destruct (f (classify o)) as [n|] eqn:E.
    + cbn [app]. rewrite dset_fresh.
      * rewrite IH; rewrite <- app_assoc; [reflexivity|].
        unfold covered in Hnd. cbn [flat_map] in Hnd. rewrite E in Hnd. exact Hnd.
      * unfold covered in Hnd. cbn [flat_map] in Hnd. rewrite E in Hnd. cbn [app] in Hnd.
        rewrite map_app in Hnd. apply NoDup_remove_2 in Hnd. intro Hin. apply Hnd.
        apply in_or_app. now left.
    + cbn [app]. apply IH. unfold covered in Hnd. cbn [flat_map] in Hnd. now rewrite E in Hnd.
Qed.

Lemma picks_covered f scan : NoDup (map fst (covered f scan)) -> picks f scan = covered f scan.
Proof. intro H. unfold picks. now rewrite picks_acc. Qed.

(* names determine locations within a class *)
Lemma starts_with_app p : forall s, starts_with p s = true -> s = p ++ skipn (length p) s.
Proof.
  induction p as [|x p IH]; intros [|y s] H; cbn in *; try discriminate; try reflexivity.
  apply andb_true_iff in H as [H1 H2]. apply N.eqb_eq in H1. subst. f_equal. now apply IH.
Qed.

Definition prefix_of (f : cls -> option str) (pre : str) : Prop :=
  forall o n, f (classify o) = Some n -> s_loc o = pre ++ n.

Lemma top_level_loc loc : top_level loc = true -> loc = [47] ++ skipn 1 loc.
Proof. destruct loc as [|c r]; cbn; [discriminate|]. destruct (N.eq_dec c 47) as [->|H]; [reflexivity|].
  destruct c as [|p]; [discriminate|]. repeat (destruct p as [p|p|]; try discriminate). congruence. Qed.

Lemma classify_cases o :
  match classify o with
  | CAux n => s_loc o = FILESDIR ++ n
  | CEbuild n | CMisc n => s_loc o = [47] ++ n
  | _ => True
  end.
Proof.
  unfold classify. destruct (negb (s_reg o)); [exact I|]. destruct (excluded (s_loc o)); [exact I|].
  destruct (starts_with FILESDIR (s_loc o)) eqn:E.
  - now apply (starts_with_app FILESDIR).
  - destruct (top_level (s_loc o)) eqn:T; [|exact I].
    destruct (ends_with EBUILD_EXT (s_loc o)); now apply top_level_loc.
Qed.

Lemma prefix_aux : prefix_of aux_of FILESDIR.
Proof. intros o n H. pose proof (classify_cases o) as C. destruct (classify o); cbn in H; try discriminate. now injection H as <-. Qed.
Lemma prefix_ebuild : prefix_of ebuild_of [47].
Proof. intros o n H. pose proof (classify_cases o) as C. destruct (classify o); cbn in H; try discriminate. now injection H as <-. Qed.
Lemma prefix_misc : prefix_of misc_of [47].
Proof. intros o n H. pose proof (classify_cases o) as C. destruct (classify o); cbn in H; try discriminate. now injection H as <-. Qed.

Lemma covered_in f scan n : In n (map fst (covered f scan)) -> exists o, In o scan /\ f (classify o) = Some n.
Proof.
  unfold covered. rewrite in_map_iff. intros [[n' ck] [<- Hin]]. apply in_flat_map in Hin as [o [Ho Hin]].
  exists o. split; [exact Ho|]. destruct (f (classify o)); [|destruct Hin].
  destruct Hin as [E|[]]. now injection E as -> _.
Qed.

Lemma covered_nodup f pre scan : prefix_of f pre -> NoDup (map s_loc scan) -> NoDup (map fst (covered f scan)).
Proof.
  intros Hpre. induction scan as [|o r IH]; cbn; intro Hnd; [constructor|].
  inversion Hnd as [|? ? Hn Hr]; subst. fold (covered f r).
  destruct (f (classify o)) as [n|] eqn:E; cbn; [|now apply IH].
  constructor; [|now apply IH]. intro Hin. apply covered_in in Hin as [o' [Ho' E']].
  apply Hn. rewrite (Hpre _ _ E), <- (Hpre _ _ E'). now apply in_map.
Qed.

Lemma covered_perm f scan scan' : Permutation scan scan' -> Permutation (covered f scan) (covered f scan').
Proof. apply Permutation_flat_map. Qed.

Lemma existsb_perm {A} (p : A -> bool) l l' : Permutation l l' -> existsb p l = existsb p l'.
Proof.
  induction 1; cbn; try congruence.
  destruct (p x), (p y); reflexivity.
Qed.

Lemma sorted_picks f pre scan scan' :
  prefix_of f pre -> Permutation scan scan' -> NoDup (map s_loc scan) ->
  sort_by fst (picks f scan) = sort_by fst (picks f scan').
Proof.
  intros Hpre Hp Hnd.
  assert (Hnd' : NoDup (map s_loc scan')) by (eapply Permutation_NoDup; [|exact Hnd]; now apply Permutation_map).
  rewrite !picks_covered by (eapply covered_nodup; eauto).
  apply sort_by_perm; [now apply covered_perm|eapply covered_nodup; eauto].
Qed.

Lemma section_sorted ty nm l l' : sort_by fst l = sort_by fst l' -> section ty nm l = section ty nm l'.
Proof. unfold section. now intros ->. Qed.

(* the text does not depend on the listing order nor on the order of the distfiles *)
Lemma order_independent_proof : forall thin scan scan' fetch fetch',
  Permutation scan scan' -> NoDup (map s_loc scan) ->
  Permutation fetch fetch' -> NoDup (map fst fetch) ->
  update_text thin scan fetch = update_text thin scan' fetch'.
Proof.
  intros thin scan scan' fetch fetch' Hs Hns Hf Hnf.
  assert (Hd : sort_by fst fetch = sort_by fst fetch') by (now apply sort_by_perm).
  assert (Hb : has_bad scan = has_bad scan') by (apply existsb_perm; exact Hs).
  assert (Hm : manifest_text (picks aux_of scan) fetch (picks ebuild_of scan) (picks misc_of scan)
             = manifest_text (picks aux_of scan') fetch' (picks ebuild_of scan') (picks misc_of scan')).
  { unfold manifest_text.
    rewrite (section_sorted T_DIST basename _ _ Hd).
    rewrite (section_sorted T_AUX (fun n => n) _ _ (sorted_picks _ _ _ _ prefix_aux Hs Hns)).
    rewrite (section_sorted T_EBUILD (fun n => n) _ _ (sorted_picks _ _ _ _ prefix_ebuild Hs Hns)).
    rewrite (section_sorted T_MISC (fun n => n) _ _ (sorted_picks _ _ _ _ prefix_misc Hs Hns)).
    reflexivity. }
  assert (Hm' : manifest_text [] fetch [] [] = manifest_text [] fetch' [] []).
  { unfold manifest_text. now rewrite (section_sorted T_DIST basename _ _ Hd). }
  unfold update_text. rewrite Hb, Hm, Hm'.
  destruct fetch as [|e1 f1], fetch' as [|e2 f2]; try reflexivity.
  - apply Permutation_nil in Hf. discriminate.
  - apply Permutation_sym, Permutation_nil in Hf. discriminate.
Qed.
