(* RoundtripExt_C25.v — the round trip without [parents_closed]: what is read back is the written set
   plus exactly the missing ancestor directories. *)
From Coq Require Import List NArith ZArith Bool Arith Lia Permutation.
Import ListNotations.
From Verif Require Import Base.Val C25.Path_C25 C25.Model_C25 C25.Spec_C25 C25.SpecExt_C25
                          C25.Proofs_C25 C25.Missing_C25.

(* what archive_to_fsobj makes of to_members c: the entries of c again (directories first), with
   inode numbers that identify exactly the classes of [same_file] *)
Lemma raw_back c : wf c ->
  exists raw (A' : list (entry * N)),
    raw_of 0 [] (to_members c) = Some raw
    /\ Permutation (map loc raw) (map loc c)
    /\ (forall e, In e raw -> exists f, In f c /\ obs e = obs f)
    /\ (forall f, In f c -> exists e, In e raw /\ obs e = obs f)
    /\ (forall e r0, In e c -> knd e = KReg -> In r0 raw -> loc r0 = loc e ->
          exists n, ino r0 = Some n /\ In (e, n) A')
    /\ (forall f n g m, In (f, n) A' -> In (g, m) A' -> (n = m <-> same_file f g)).
Proof.
  intros Hwf.
  set (D := sort_loc (filter is_dir c)). set (F := filter (fun e => negb (is_dir e)) c).
  assert (HD : forall e, In e D -> In e c /\ is_dir e = true).
  { intros e He. apply (Permutation_in _ (isort_perm _ _)) in He. apply filter_In in He. exact He. }
  assert (HF : forall e, In e F -> In e c) by (intros e He; apply filter_In in He; apply He).
  assert (PDF : Permutation (D ++ F) c).
  { eapply perm_trans; [|apply (filter_split_perm is_dir)]. apply Permutation_app_tail. apply isort_perm. }
  destruct (dirs_back c Hwf D 0%N [] (add_nondirs [] F) HD) as (ds & j & F2d & E1).
  destruct (files_back c Hwf F [] [] j []) as (es & A' & E2 & F2f & _ & Cl).
  { exact HF. }
  { apply nodup_filter_loc. apply (wf_nodup c Hwf). }
  { intros f n []. }
  { repeat split; intros; try contradiction. }
  set (raw := ds ++ es).
  assert (F2 : Forall2 (fun f e => obs e = obs f) (D ++ F) raw).
  { apply Forall2_app; [exact F2d|]. eapply Forall2_impl; [|exact F2f]. intros a b [H _]. exact H. }
  assert (Eloc : map loc raw = map loc (D ++ F)).
  { apply Forall2_map_eq. eapply Forall2_impl; [|exact F2]. intros a b H. apply obs_loc. exact H. }
  assert (Ploc : Permutation (map loc raw) (map loc c)) by (rewrite Eloc; apply Permutation_map; exact PDF).
  assert (NDraw : NoDup (map loc raw)).
  { apply (Permutation_NoDup (l := map loc c)); [symmetry; exact Ploc|apply (wf_nodup c Hwf)]. }
  exists raw, A'. split; [|split; [|split; [|split; [|split]]]].
  - unfold to_members. fold D. fold F. rewrite E1, E2. reflexivity.
  - exact Ploc.
  - intros e He. destruct (Forall2_in_r _ _ _ e F2 He) as (f & Hf & O). exists f. split; [|exact O].
    apply (Permutation_in _ PDF). exact Hf.
  - intros f Hf. apply (Permutation_in _ (Permutation_sym PDF)) in Hf.
    destruct (Forall2_in_l _ _ _ f F2 Hf) as (e & He & O). exists e. split; assumption.
  - intros e r0 He Ke Hr0 L.
    assert (HeF : In e F).
    { apply filter_In. split; [exact He|]. unfold is_dir. rewrite Ke. reflexivity. }
    destruct (Forall2_in_l _ _ _ e F2f HeF) as (e' & He' & O & I).
    destruct (I ltac:(unfold is_reg; rewrite Ke; reflexivity)) as (n & In' & HA).
    assert (r0 = e').
    { apply (nodup_loc_inj raw); auto.
      - apply in_or_app. right. exact He'.
      - rewrite L. symmetry. apply obs_loc. exact O. }
    subst. eauto.
  - exact Cl.
Qed.

(* convert_archive on a flat set of distinct plain locations: the set, reordered, plus exactly the
   missing ancestor directories *)
Lemma convert_flat_dirs raw :
  NoDup (map loc raw) -> plain_locs raw -> flat_d raw ->
  exists r, convert raw = Ok r
    /\ NoDup (map loc r)
    /\ (forall e, In e raw -> In e r)
    /\ (forall e', In e' r ->
          In e' raw \/ exists x, e' = new_dir x /\ x <> [SL] /\ ~ In (normpath x) (map loc raw)
                                 /\ exists e, In e raw /\ ancestor (loc e) x)
    /\ (forall e a, In e raw -> ancestor (loc e) a -> a <> [SL] -> In (normpath a) (map loc r)).
Proof.
  intros Hnd Hp Hf. unfold convert.
  rewrite (dupdate_fresh raw []) by exact Hnd. cbn [app].
  set (syms := filter is_sym raw).
  assert (Hsy : forall x, In x syms -> In x raw /\ is_sym x = true) by (intros x Hx; apply filter_In in Hx; exact Hx).
  assert (Hnds : NoDup (map loc syms)) by (apply nodup_filter_loc; exact Hnd).
  rewrite (dupdate_fresh syms []) by exact Hnds. cbn [app].
  cbn [sym_loop].
  rewrite first_affected_none.
  2:{ intros x Hx. apply (Permutation_in _ (isort_perm _ _)) in Hx. destruct (Hsy x Hx) as [Hx1 Hx2].
      apply (no_children raw); auto. intros e He. apply Hsy. exact He. }
  unfold syms at 1. rewrite ddiff_syms by exact Hnd.
  set (t1 := dupdate _ syms).
  assert (Ht1 : t1 = filter (fun e => negb (is_sym e)) raw ++ syms).
  { unfold t1. apply dupdate_fresh. rewrite map_app.
    apply (Permutation_NoDup (l := map loc raw)); [|exact Hnd].
    rewrite <- map_app. apply Permutation_map. symmetry.
    eapply perm_trans; [apply Permutation_app_comm|]. apply filter_split_perm. }
  assert (Pt1 : Permutation t1 raw).
  { rewrite Ht1. eapply perm_trans; [apply Permutation_app_comm|]. apply filter_split_perm. }
  rewrite move_children_none.
  2:{ intros x Hx. apply in_rev in Hx. apply (Permutation_in _ (isort_perm _ _)) in Hx.
      destruct (Hsy x Hx) as [Hx1 Hx2]. apply (no_children raw); auto.
      intros e He. apply (Permutation_in _ Pt1). exact He. }
  cbn [dupdate fold_left].
  assert (ND1 : NoDup (map loc t1)).
  { apply (Permutation_NoDup (l := map loc raw)); [apply Permutation_map; symmetry; exact Pt1|exact Hnd]. }
  assert (NL1 : normal_locs t1).
  { intros e He. destruct (Hp e (Permutation_in _ Pt1 He)) as (cs & Hne & HF & ->). apply normpath_abs; assumption. }
  destruct (add_missing_exact t1 ND1 NL1) as (M1 & M2 & M3 & M4).
  set (am := add_missing t1) in *.
  assert (Pr : Permutation (isort final_lt am) am) by apply isort_perm.
  assert (Pl : Permutation (map loc t1) (map loc raw)) by (apply Permutation_map; exact Pt1).
  eexists. split; [reflexivity|]. split; [|split; [|split]].
  - apply (Permutation_NoDup (l := map loc am)); [apply Permutation_map; symmetry; exact Pr|exact M1].
  - intros e He. apply (Permutation_in _ (Permutation_sym Pr)). apply M2.
    apply (Permutation_in _ (Permutation_sym Pt1)). exact He.
  - intros e' He'. apply (Permutation_in _ Pr) in He'. destruct (M3 e' He') as [H|(x & E & R & N & e & He & A)].
    + left. apply (Permutation_in _ Pt1). exact H.
    + right. exists x. repeat split; auto.
      * intro K. apply N. apply (Permutation_in _ (Permutation_sym Pl)). exact K.
      * exists e. split; [apply (Permutation_in _ Pt1); exact He|exact A].
  - intros e a He Ha Hr. apply (Permutation_in (l := map loc am)); [apply Permutation_map; symmetry; exact Pr|].
    apply (M4 e a); auto. apply (Permutation_in _ (Permutation_sym Pt1)). exact He.
Qed.

Theorem tar_roundtrip_dirs_proof : forall c, wf c -> flat c ->
  exists r, of_members (to_members c) = Ok r /\ roundtrip_dirs_ok c r.
Proof.
  intros c Hwf Hflat.
  destruct (raw_back c Hwf) as (raw & A' & Eraw & Ploc & Back & Forth & Ino & Cl).
  assert (NDraw : NoDup (map loc raw)).
  { apply (Permutation_NoDup (l := map loc c)); [symmetry; exact Ploc|apply (wf_nodup c Hwf)]. }
  destruct (convert_flat_dirs raw NDraw) as (r & Er & NDr & Keep & New & Anc).
  { intros e He. destruct (Back e He) as (f & Hf & O). rewrite (obs_loc _ _ O). apply (wf_loc c Hwf). exact Hf. }
  { intros s e Hs He Ss. destruct (Back s Hs) as (fs & Hfs & Os). destruct (Back e He) as (fe & Hfe & Oe).
    rewrite (obs_loc _ _ Os), (obs_loc _ _ Oe). apply Hflat; auto.
    rewrite <- (obs_knd _ _ Os). unfold is_sym in Ss. destruct (knd s); cbn in Ss; congruence. }
  exists r. split; [unfold of_members; rewrite Eraw; exact Er|].
  split; [exact NDr|]. split; [|split; [|split]].
  - intros e He. destruct (Forth e He) as (e' & He' & O). exists e'. split; [apply Keep; exact He'|exact O].
  - intros r0 Hr0. destruct (New r0 Hr0) as [H|(x & E & R & N & e & He & A)].
    + left. destruct (Back r0 H) as (f & Hf & O). exists f. split; assumption.
    + right. exists x. repeat split; auto.
      * intro K. apply N. apply (Permutation_in _ (Permutation_sym Ploc)). exact K.
      * destruct (Back e He) as (f & Hf & O). exists f. split; [exact Hf|]. rewrite <- (obs_loc _ _ O). exact A.
  - intros e a He Ha Hr. destruct (Forth e He) as (e' & He' & O). apply (Anc e' a); auto.
    rewrite (obs_loc _ _ O). exact Ha.
  - intros e1 e2 r1 r2 H1 H2 Hr1 Hr2 K1 K2 L1 L2.
    assert (G : forall e r0, In e c -> knd e = KReg -> In r0 r -> loc r0 = loc e ->
                exists n, ino r0 = Some n /\ In (e, n) A').
    { intros e r0 He Ke Hr0 L. apply (Ino e r0 He Ke); [|exact L].
      destruct (New r0 Hr0) as [H|(x & E & _ & N & _)]; [exact H|]. exfalso. apply N.
      subst r0. cbn in L. rewrite L.
      destruct (Forth e He) as (e' & He' & O). rewrite <- (obs_loc _ _ O). apply in_map. exact He'. }
    destruct (G e1 r1 H1 K1 Hr1 L1) as (n1 & I1 & A1).
    destruct (G e2 r2 H2 K2 Hr2 L2) as (n2 & I2 & A2).
    rewrite I1, I2, <- (Cl e1 n1 e2 n2 A1 A2). split; congruence.
Qed.

(* non-vacuity: a set whose directories were dropped: /u/a/f and /u/b/g with only /u recorded *)
Local Open Scope N_scope.
Definition exd_set :=
  [ mkE [47;117;47;97;47;102]%N KReg 420 0 0 8 [] (Some 1) (Some 3) 1 2 0 0 0;      (* /u/a/f *)
    mkE [47;117]%N KDir 493 0 0 8 [] None None 0 0 0 0 0;                          (* /u *)
    mkE [47;118;47;98;47;103]%N KFifo 384 0 0 8 [] None None 0 0 0 0 0 ].          (* /v/b/g *)
Example exd_read : match of_members (to_members exd_set) with
                   | Ok r => map (fun e => (loc e, knd e, mode e)) r
                   | Fail _ => [] end =
  [([47;117]%N, KDir, 493); ([47;117;47;97]%N, KDir, 509); ([47;118]%N, KDir, 509);
   ([47;118;47;98]%N, KDir, 509); ([47;118;47;98;47;103]%N, KFifo, 384); ([47;117;47;97;47;102]%N, KReg, 420)].
Proof. vm_compute. reflexivity. Qed.
