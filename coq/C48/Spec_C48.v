(* Spec_C48.v — the statement of C48, written from the property text.

   "A package's cached metadata is used exactly when the cache records the ebuild's current
    checksum (or mtime) and every inherited eclass it records still exists with the recorded
    checksum and location; otherwise the metadata is regenerated from the ebuild and the stale
    entry is replaced."

   [spec_valid] is the validity of one entry (per layout: the flat layout records mtime for
   the ebuild and location+mtime per eclass, md5-cache records md5 for both).  An entry that
   lists eclasses but carries no INHERIT key predates the key and counts as stale (this is
   the documented upgrade rule of validate_entry; DESIGN §6 C48 includes it in the statement). *)
From Coq Require Import List NArith ZArith Bool Arith.
Import ListNotations.
From Verif Require Import Base.Val C48.Model_C48.
Local Open Scope N_scope.

(* the eclass visible under a name in stacked repositories: the first repository that has it *)
Definition visible (st : stack) (n : N) (f : efile) : Prop :=
  exists pre repo post, st = pre ++ repo :: post /\ assoc n repo = Some f /\
                        forall r, In r pre -> assoc n r = None.

Definition eclass_still (lay : layout) (st : stack) (r : N * efile) : Prop :=
  exists now, visible st (fst r) now /\
    match lay with
    | Flat => f_dir (snd r) = f_dir now /\ f_mtime (snd r) = f_mtime now
    | Md5 => f_md5 (snd r) = f_md5 now
    end.

Definition spec_valid (lay : layout) (w : world) (e : centry) : Prop :=
  c_chf e = chf_of lay (w_ebuild w) /\
  (c_ecl e = None \/
   exists l, c_ecl e = Some l /\ c_inherit e = true /\ forall r, In r l -> eclass_still lay (w_stack w) r).

Definition cache_valid (w : world) (c : cache) : Prop :=
  exists e, c_slot c = Entry e /\ spec_valid (c_lay c) w e.

Definition writable (c : cache) : bool := negb (c_ro c) && negb (c_wfail c).
Definition same_cfg (c c' : cache) : Prop :=
  c_lay c' = c_lay c /\ c_ro c' = c_ro c /\ c_wfail c' = c_wfail c.

(* ------------------------------------------------------------------ executable acceptor (B) *)
Definition still_b (lay : layout) (st : stack) (r : N * efile) : bool :=
  existsb (fun x => x) 
    (match ec_lookup st (fst r) with
     | Some now => [match lay with
                    | Flat => (f_dir (snd r) =? f_dir now) && (f_mtime (snd r) =? f_mtime now)
                    | Md5 => f_md5 (snd r) =? f_md5 now
                    end]
     | None => []
     end).
Definition spec_validb (lay : layout) (w : world) (e : centry) : bool :=
  (c_chf e =? chf_of lay (w_ebuild w))
  && match c_ecl e with
     | None => true
     | Some l => c_inherit e && negb (existsb (fun r => negb (still_b lay (w_stack w) r)) l)
     end.
Definition cache_validb (w : world) (c : cache) : bool :=
  match c_slot c with Entry e => spec_validb (c_lay c) w e | _ => false end.

Fixpoint first_true (l : list bool) : option nat :=
  match l with
  | [] => None
  | true :: _ => Some O
  | false :: r => option_map S (first_true r)
  end.
Fixpoint mapi_ {A B} (f : nat -> A -> B) (i : nat) (l : list A) : list B :=
  match l with [] => [] | x :: r => f i x :: mapi_ f (S i) r end.

(* the slots the statement prescribes after the read *)
Definition expected_slots (w : world) (cs : list cache) : list val :=
  let valids := map (cache_validb w) cs in
  match first_true valids with
  | Some i =>
      mapi_ (fun j c => enc_slot (c_lay c)
               (if Nat.ltb j i && negb (c_ro c)
                then match c_slot c with Entry _ => Absent | s => s end
                else c_slot c)) 0 cs
  | None =>
      let fw := first_true (map writable cs) in
      mapi_ (fun j c => enc_slot (c_lay c)
               (if match fw with Some k => Nat.eqb j k | None => false end
                then Entry (fresh (c_lay c) w)
                else if negb (c_ro c) then match c_slot c with Entry _ => Absent | s => s end
                else c_slot c)) 0 cs
  end.
Definition expected_outcome (w : world) (cs : list cache) : val :=
  match first_true (map (cache_validb w) cs) with
  | Some i => VL [VZ (Z.of_nat i);
                  match nth_error cs i with
                  | Some c => match c_slot c with Entry e => vN (c_payload e) | _ => VNone end
                  | None => VNone end]
  | None => VL [VZ (-1); vN (w_payload w)]
  end.

Definition spec_read_ok (i : world * list cache) (res : val) : bool :=
  val_eqb res (VL [expected_outcome (fst i) (snd i); VL (expected_slots (fst i) (snd i))]).
