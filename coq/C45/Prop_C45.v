(* Prop_C45.v — the property theorems of C45 and nothing else. *)
From Coq Require Import List NArith ZArith Bool.
Import ListNotations.
From Verif Require Import Base.Val C01.Model_C01 C04.Model_C04 C44.Model_C44 C45.Model_C45 C45.Spec_C45 C45.Proofs_C45.

(* the operator table regenerated from glsa.py is the GLSA one *)
Theorem op_translate_is_glsa : op_translate_stmt.
Proof. exact op_translate_is_glsa_proof. Qed.
Print Assumptions op_translate_is_glsa.

(* the repaired implementation flags exactly the affected packages: for every GLSA-format entry and
   every installed package outside the known classes (glob = string prefix where that differs from a
   component prefix; an rlt range without revision), all versions involved being valid versions *)
Theorem affected_is_spec_partial : forall e p,
  read_entry e <> None -> known_class e p = false -> versions_valid e p = true ->
  flagged true e p = affected_spec e p.
Proof. exact affected_is_spec_partial_proof. Qed.
Print Assumptions affected_is_spec_partial.

(* for all valid versions the revision is the last tie-breaker of ver_cmp (from C01's ver_cmp_is_pms):
   this is what makes "~v and op v-rN" mean "compare revisions of the same version" *)
Theorem rev_last_tiebreak : forall v1 v2 r1 r2,
  valid_version_core v1 = true -> valid_version_core v2 = true ->
  ver_cmp v1 r1 v2 r2
  = if Z.eqb (ver_cmp v1 None v2 None) 0 then cmpN (rev_val r1) (rev_val r2) else ver_cmp v1 None v2 None.
Proof. exact rev_last_tiebreak_proof. Qed.
Print Assumptions rev_last_tiebreak.

(* the pinned tree behaves like the repaired one on every entry without a slotted glob / rle / rge
   range and without an unaffected glob *)
Theorem orig_is_fixed_partial : forall e p, entry_not_pinned e -> flagged false e p = flagged true e p.
Proof. exact orig_is_fixed_partial_proof. Qed.
Print Assumptions orig_is_fixed_partial.

(* a slot attribute limits a range of any kind to that slot (repaired implementation): in another
   slot a vulnerable range does not hold and an unaffected range does not protect *)
Theorem slot_limits_range : forall rg neg g p,
  restrict_from_range true rg neg = Some g ->
  is_nil (opt_slot (g_slot rg)) = false ->
  str_eqb (opt_slot (g_slot rg)) (p_slot (i_pkg p)) = false ->
  geval g p = neg.
Proof. exact slot_limits_range_proof. Qed.
Print Assumptions slot_limits_range.

(* pinned tree: an unaffected glob is exactly inverted (vulnerable lt 2.0, unaffected eq 1.0-star) *)
Theorem affected_orig_refuted_unaffected_glob :
  ~ C45_full_statement false
  /\ flagged false e_k1 b10 = true /\ affected_spec e_k1 b10 = false
  /\ flagged false e_k1 b05 = false /\ affected_spec e_k1 b05 = true
  /\ known_class e_k1 b10 = false /\ known_class_orig e_k1 b10 = true.
Proof. exact affected_orig_refuted_unaffected_glob_proof. Qed.
Print Assumptions affected_orig_refuted_unaffected_glob.

(* pinned tree: the slot of an rge range without revision is dropped; the repaired one keeps it *)
Theorem affected_orig_refuted_slot :
  flagged false e_k2 b10 = true /\ affected_spec e_k2 b10 = false
  /\ known_class e_k2 b10 = false /\ known_class_orig e_k2 b10 = true
  /\ flagged true e_k2 b10 = false /\ flagged true e_k2 b10r1_s1 = true.
Proof. exact affected_orig_refuted_slot_proof. Qed.
Print Assumptions affected_orig_refuted_slot.

(* repaired and pinned alike: a glob is a string prefix (eq 1-star flags 10) *)
Theorem affected_refuted_glob_prefix :
  ~ C45_full_statement true
  /\ flagged true e_k3 b10_big = true /\ affected_spec e_k3 b10_big = false /\ known_class e_k3 b10_big = true.
Proof. exact affected_refuted_glob_prefix_proof. Qed.
Print Assumptions affected_refuted_glob_prefix.

(* ... and an rlt range without revision discards the whole entry *)
Theorem affected_refuted_rlt_r0 :
  flagged true e_k4 b05 = false /\ affected_spec e_k4 b05 = true /\ known_class e_k4 b05 = true.
Proof. exact affected_refuted_rlt_r0_proof. Qed.
Print Assumptions affected_refuted_rlt_r0.
