import sys; p=sys.argv[1]; s=open(p).read()
a='enumerate(self.text.splitlines(keepends=True), start=1)'; assert a in s
s=s.replace(a,'enumerate(re.findall(r"[^\\n]*\\n|[^\\n]+", self.text), start=1)'); open(p,'w').write(s)
