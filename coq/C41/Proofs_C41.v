(* Proofs_C41.v — lemmas and proofs; the property theorems are re-exported in Prop_C41.v. *)
From Coq Require Import List NArith ZArith Bool Arith Lia Permutation.
Import ListNotations.
From Verif Require Import Base.Val C41.Lts C41.Model_C41 C41.Spec_C41.

(* ================================================================ sums over lists *)
Lemma sumf_app {A} (h : A -> nat) l1 l2 : sumf h (l1 ++ l2) = sumf h l1 + sumf h l2.
Proof. induction l1 as [|x l1 IH]; cbn; [reflexivity | rewrite IH; lia]. Qed.

Lemma sumf_upd {A} (h : A -> nat) l i old v :
  nth_error l i = Some old -> sumf h (upd l i v) + h old = sumf h l + h v.
Proof.
  revert i. induction l as [|x l IH]; intros [|i] H; cbn in *; try discriminate.
  - injection H as ->. lia.
  - specialize (IH i H). lia.
Qed.

Lemma length_upd {A} (l : list A) i v : length (upd l i v) = length l.
Proof. revert i. induction l as [|x l IH]; intros [|i]; cbn; auto. Qed.

Lemma nth_upd_same {A} (l : list A) i v : i < length l -> nth_error (upd l i v) i = Some v.
Proof. revert i. induction l as [|x l IH]; intros [|i] H; cbn in *; try lia; auto. apply IH. lia. Qed.

Lemma nth_upd_other {A} (l : list A) i j v : i <> j -> nth_error (upd l i v) j = nth_error l j.
Proof.
  revert i j. induction l as [|x l IH]; intros [|i] [|j] H; cbn; auto; try congruence.
Qed.

Lemma sumf_repeat {A} (h : A -> nat) x n : sumf h (repeat x n) = n * h x.
Proof. induction n; cbn; lia. Qed.

(* ================================================================ the measure decreases *)
Ltac inv_step H :=
  repeat match type of H with
         | context [match ?x with _ => _ end] => destruct x eqn:?; try discriminate H
         end;
  try (injection H as <-).

Ltac upd_sums :=
  repeat match goal with
         | Hn : nth_error ?l ?i = Some ?old |- context [sumf ?h (upd ?l ?i ?v)] =>
             let U := fresh "U" in let z := fresh "z" in
             pose proof (sumf_upd h l i old v Hn) as U; cbn in U;
             set (z := sumf h (upd l i v)) in *; clearbody z
         | Hn : nth_error ?l ?i = Some ?old, X : context [sumf ?h (upd ?l ?i ?v)] |- _ =>
             let U := fresh "U" in let z := fresh "z" in
             pose proof (sumf_upd h l i old v Hn) as U; cbn in U;
             set (z := sumf h (upd l i v)) in *; clearbody z
         end.

Lemma norm_sent_mm c k : k <= parallelism c -> mm c (norm_sent k) <= 5 * k + (parallelism c - k) + 1.
Proof. destruct k; cbn; lia. Qed.

Lemma after_put_mm c r : mm c (after_put c r) <= 4 * length r + 5 * parallelism c + 3.
Proof.
  unfold after_put. destruct r; cbn [mm length]; [|lia].
  destruct (iter_raises c); cbn [mm length]; [lia|].
  pose proof (norm_sent_mm c (parallelism c)). lia.
Qed.

Lemma step_decreases_proof c s l s' : step c s l s' -> measure c s' < measure c s.
Proof.
  unfold step, fstep, stepf, measure. intro H.
  destruct l.
  - (* LStart *) inv_step H. cbn.
    apply andb_prop in Heqb as [E1 E2]. apply Nat.eqb_eq in E1. apply Nat.ltb_lt in E2. subst.
    pose proof (sumf_upd wm (ws s) k _ (WLoop []) Heqo) as U. cbn in U.
    assert (mm c (norm_start c (S k)) < mm c (MStart k)).
    { unfold norm_start. destruct (S k <? parallelism c) eqn:E.
      - apply Nat.ltb_lt in E. cbn. lia.
      - pose proof (after_put_mm c (items c)). cbn [mm]. lia. }
    cbn [mm] in *. lia.
  - (* LPut *) inv_step H. cbn. rewrite app_length. cbn.
    pose proof (after_put_mm c l). cbn [mm length]. lia.
  - (* LKill *) inv_step H. cbn. cbn [mm length].
    pose proof (norm_sent_mm c (parallelism c)). lia.
  - (* LSent *) inv_step H. cbn. rewrite app_length. cbn. 
    destruct k; cbn; lia.
  - (* LJoin *) inv_step H. cbn. cbn.
    apply andb_prop in Heqb as [E1 E2]. apply Nat.ltb_lt in E2. lia.
  - (* LRet *) inv_step H. cbn. cbn. lia.
  - (* LChk *) inv_step H; cbn; upd_sums; lia.
  - (* LGet *) inv_step H; cbn; upd_sums; lia.
  - (* LProc *) inv_step H; cbn; upd_sums; lia.
Qed.

(* ================================================================ inversion of the step function *)
Lemma inv_LStart c s w s' : stepf c s (LStart w) = Some s' ->
  pc s = MStart w /\ w < parallelism c /\ nth_error (ws s) w = Some WNew /\
  s' = set_pc (set_w s w (WLoop [])) (norm_start c (S w)).
Proof.
  unfold stepf. intro H. inv_step H.
  apply andb_prop in Heqb as [E1 E2]. apply Nat.eqb_eq in E1. apply Nat.ltb_lt in E2. subst. auto.
Qed.

Lemma inv_LPut c s x s' : stepf c s (LPut x) = Some s' ->
  exists r, pc s = MFeed (x :: r) /\
  s' = {| pc := after_put c r; q := q s ++ [Some x]; ws := ws s; processed := processed s;
          results := results s; kill := kill s |}.
Proof.
  unfold stepf. intro H. inv_step H. apply N.eqb_eq in Heqb. subst. eauto.
Qed.

Lemma inv_LKill c s s' : stepf c s LKill = Some s' ->
  pc s = MFeed [] /\
  s' = {| pc := norm_sent (parallelism c); q := q s; ws := ws s; processed := processed s;
          results := results s; kill := true |}.
Proof. unfold stepf. intro H. inv_step H. auto. Qed.

Lemma inv_LSent c s s' : stepf c s LSent = Some s' ->
  exists k, pc s = MSent k /\
  s' = {| pc := norm_sent k; q := q s ++ [None]; ws := ws s; processed := processed s;
          results := results s; kill := kill s |}.
Proof. unfold stepf. intro H. inv_step H. eauto. Qed.

Lemma inv_LJoin c s w s' : stepf c s (LJoin w) = Some s' ->
  exists v, pc s = MJoin w /\ w < parallelism c /\ nth_error (ws s) w = Some v /\ finished v = true /\
  s' = set_pc s (MJoin (S w)).
Proof.
  unfold stepf. intro H. inv_step H.
  apply andb_prop in Heqb as [E1 E2]. apply Nat.eqb_eq in E1. apply Nat.ltb_lt in E2. subst. eauto 6.
Qed.

Lemma inv_LRet c s s' : stepf c s LRet = Some s' ->
  pc s = MJoin (parallelism c) /\ s' = set_pc s MDone.
Proof. unfold stepf. intro H. inv_step H. apply Nat.eqb_eq in Heqb. subst. auto. Qed.

Lemma inv_LChk c s w b s' : stepf c s (LChk w b) = Some s' ->
  exists acc, nth_error (ws s) w = Some (WLoop acc) /\ b = kill s /\
  s' = if b then exit_normally c s w acc else set_w s w (WGet acc).
Proof.
  unfold stepf. intro H. inv_step H; apply eqb_prop in Heqb0; subst; eauto.
Qed.

Definition pop (s : state) (q' : list (option item)) : state :=
  {| pc := pc s; q := q'; ws := ws s; processed := processed s; results := results s; kill := kill s |}.

Lemma inv_LGet c s w o s' : stepf c s (LGet w o) = Some s' ->
  exists acc q', nth_error (ws s) w = Some (WGet acc) /\ q s = o :: q' /\
  s' = match o with
       | None => exit_normally c (pop s q') w acc
       | Some x => set_w (pop s q') w (WBusy acc x)
       end.
Proof.
  unfold stepf. intro H. inv_step H.
  - apply N.eqb_eq in Heqb. subst. eauto.
  - eauto.
Qed.

Lemma inv_LProc c s w x s' : stepf c s (LProc w x) = Some s' ->
  exists acc, nth_error (ws s) w = Some (WBusy acc x) /\
  s' = match fout c x with
       | Ok ys => {| pc := pc s; q := q s; ws := upd (ws s) w (WLoop (acc ++ ys));
                     processed := processed s ++ [x];
                     results := results s ++ match mode c with Gen => map RY ys | _ => [] end;
                     kill := kill s |}
       | Die => {| pc := pc s; q := q s; ws := upd (ws s) w (WDead acc);
                   processed := processed s ++ [x]; results := results s; kill := kill s |}
       end.
Proof.
  unfold stepf. intro H.
  destruct (nth_error (ws s) w) as [[| | |acc x'| |]|] eqn:E; try discriminate.
  destruct (N.eqb x x') eqn:E2; [|discriminate]. apply N.eqb_eq in E2. subst x'.
  exists acc. split; [reflexivity|].
  destruct (fout c x); injection H as <-; reflexivity.
Qed.

(* ================================================================ the invariant *)
Definition qit (g : item -> nat) (o : option item) : nat := match o with Some x => g x | None => 0 end.
Definition isNone (o : option item) : nat := match o with None => 1 | Some _ => 0 end.
Definition infl (g : item -> nat) (v : wst) : nat := match v with WBusy _ x => g x | _ => 0 end.
Definition acc_of (v : wst) : list N :=
  match v with WNew => [] | WLoop a | WGet a | WBusy a _ | WExit a | WDead a => a end.
Definition accw (g : N -> nat) (v : wst) : nat := sumf g (acc_of v).
Definition fin1 (v : wst) : nat := if finished v then 1 else 0.
Definition exit1 (v : wst) : nat := match v with WExit _ => 1 | _ => 0 end.
Definition dead1 (v : wst) : nat := match v with WDead _ => 1 | _ => 0 end.
Definition die1 (c : cfg) (x : item) : nat := if dies c x then 1 else 0.
Definition exw (h : list N -> nat) (v : wst) : nat := match v with WExit a => h a | _ => 0 end.
Definition rlw (h : list N -> nat) (r : res) : nat := match r with RL l => h l | RY _ => 0 end.
Definition ry1 (r : res) : nat := match r with RY _ => 1 | RL _ => 0 end.
Definition one (x : item) : nat := 1.

Definition started (c : cfg) (p : mpc) : nat := match p with MStart k => k | _ => parallelism c end.
Definition joined (c : cfg) (p : mpc) : nat :=
  match p with MJoin k => k | MDone => parallelism c | _ => 0 end.
Definition sent_so_far (c : cfg) (p : mpc) : nat :=
  match p with MSent k => parallelism c - (k + 1) | MJoin _ | MDone => parallelism c | _ => 0 end.
Definition feeding (p : mpc) : bool := match p with MStart _ | MFeed _ => true | _ => false end.
(* FIFO shape: nothing but sentinels behind a sentinel *)
Fixpoint wfq (l : list (option item)) : Prop :=
  match l with [] => True | Some _ :: r => wfq r | None :: r => sumf (qit one) r = 0 end.

Definition pc_ok (c : cfg) (p : mpc) : Prop :=
  match p with
  | MStart k => k < parallelism c
  | MSent k => k < parallelism c
  | MJoin k => k <= parallelism c
  | MFeed [] => iter_raises c = true
  | _ => True
  end.

Record Inv (c : cfg) (s : state) : Prop := {
  i_len : length (ws s) = parallelism c;
  i_cons : forall g, sumf g (processed s) + sumf (infl g) (ws s) + sumf (qit g) (q s)
                     + sumf g (unput c (pc s)) = sumf g (items c);
  i_acc : forall g, sumf (accw g) (ws s) = sumf (fun x => sumf g (ys_of c x)) (processed s);
  i_gen : mode c = Gen -> results s = map RY (flat_map (ys_of c) (processed s));
  i_none : mode c = RetNone -> results s = [];
  i_rl : mode c = RetList ->
         sumf ry1 (results s) = 0 /\ forall h, sumf (rlw h) (results s) = sumf (exw h) (ws s);
  i_new : forall i, started c (pc s) <= i -> i < parallelism c -> nth_error (ws s) i = Some WNew;
  i_notnew : forall i, i < started c (pc s) -> nth_error (ws s) i <> Some WNew;
  i_pc : pc_ok c (pc s);
  i_join : forall i v, i < joined c (pc s) -> nth_error (ws s) i = Some v -> finished v = true;
  i_sent : sumf isNone (q s) + sumf fin1 (ws s) >= sent_so_far c (pc s);
  i_wfq : wfq (q s);
  i_feed : feeding (pc s) = true -> sumf isNone (q s) = 0;
  i_kill : kill s = true -> iter_raises c = true /\ feeding (pc s) = false;
  i_surv : kill s = false -> sumf exit1 (ws s) > 0 ->
           sumf (qit one) (q s) = 0 /\ feeding (pc s) = false;
  i_dead : sumf dead1 (ws s) = sumf (die1 c) (processed s)
}.

(* ---- facts about the pc normalisations *)
Lemma norm_sent_facts c k : k <= parallelism c ->
  pc_ok c (norm_sent k) /\ feeding (norm_sent k) = false /\ unput c (norm_sent k) = [] /\
  started c (norm_sent k) = parallelism c /\ joined c (norm_sent k) = 0 /\
  sent_so_far c (norm_sent k) = parallelism c - k.
Proof. destruct k; cbn; intros; repeat split; try lia. Qed.

Lemma after_put_facts c r :
  pc_ok c (after_put c r) /\ unput c (after_put c r) = r /\
  started c (after_put c r) = parallelism c /\ joined c (after_put c r) = 0 /\
  (feeding (after_put c r) = true -> sent_so_far c (after_put c r) = 0) /\
  (feeding (after_put c r) = false -> sent_so_far c (after_put c r) = 0 /\ iter_raises c = false /\ r = []).
Proof.
  unfold after_put. destruct r as [|x r].
  - destruct (iter_raises c) eqn:E; cbn.
    + rewrite E. repeat split; auto; discriminate.
    + destruct (norm_sent_facts c (parallelism c) (le_n _)) as (A & B & C & D & F & G).
      rewrite B, G. split; [exact A|]. split; [exact C|]. split; [exact D|]. split; [exact F|].
      split; [discriminate|]. intros _. split; [lia|]. split; reflexivity.
  - cbn. repeat split; auto; discriminate.
Qed.

Lemma wfq_noNone l : sumf isNone l = 0 -> forall o, o <> None \/ True -> wfq (l ++ [o]).
Proof.
  induction l as [|[x|] l IH]; cbn; intros H o _.
  - destruct o; cbn; auto.
  - apply IH; auto.
  - lia.
Qed.

Lemma wfq_snoc_None l : wfq l -> wfq (l ++ [None]).
Proof.
  induction l as [|[x|] l IH]; cbn; auto.
  intro H. rewrite sumf_app. cbn. lia.
Qed.

Lemma wfq_of_noitems l : sumf (qit one) l = 0 -> wfq l.
Proof.
  induction l as [|[x|] l IH]; cbn; auto.
  - unfold one. lia.
Qed.

Lemma wfq_tail o l : wfq (o :: l) -> wfq l.
Proof. destruct o; cbn; auto. apply wfq_of_noitems. Qed.

(* ---- the initial state *)
Lemma nth_repeat {A} (x : A) n i : i < n -> nth_error (repeat x n) i = Some x.
Proof. revert i. induction n; intros [|i] H; cbn; try lia; auto. apply IHn. lia. Qed.

Lemma nth_repeat_inv {A} (x : A) n i v : nth_error (repeat x n) i = Some v -> v = x.
Proof. revert i. induction n; intros [|i] H; cbn in *; try discriminate; [congruence | eauto]. Qed.

Lemma Inv_init c : Inv c (init c).
Proof.
  assert (Z0 : forall h : wst -> nat, h WNew = 0 -> sumf h (repeat WNew (parallelism c)) = 0).
  { intros h Hh. rewrite sumf_repeat. lia. }
  unfold init, norm_start.
  destruct (0 <? parallelism c) eqn:E.
  - apply Nat.ltb_lt in E.
    constructor; cbn [pc q ws processed results kill]; intros;
      cbn [sumf unput started joined sent_so_far feeding pc_ok wfq flat_map map] in *;
      try rewrite !Z0 by reflexivity; auto; try lia; try discriminate.
    + apply repeat_length.
    + split; [reflexivity|]. intro h. rewrite Z0; reflexivity.
    + apply nth_repeat. lia.
    + rewrite Z0 in * by reflexivity. lia.
  - apply Nat.ltb_ge in E.
    destruct (after_put_facts c (items c)) as (A & B & C & D & F & G).
    constructor; cbn [pc q ws processed results kill]; intros; cbn [sumf wfq flat_map map] in *;
      try rewrite !Z0 by reflexivity; auto; try lia; try discriminate. 
    + apply repeat_length.
    + rewrite B. lia.
    + split; [reflexivity|]. intro h. rewrite Z0; reflexivity.
    + destruct (feeding (after_put c (items c))) eqn:Fe.
      * rewrite F by reflexivity. lia.
      * destruct G as [G _]; [reflexivity|]. lia.
    + rewrite Z0 in * by reflexivity. lia.
Qed.

(* ---- positional facts survive a worker's own update *)
Lemma nth_upd_same_inv {A} (l : list A) i v x : nth_error (upd l i v) i = Some x -> x = v.
Proof.
  revert i. induction l as [|y l IH]; intros [|i] H; cbn in *; try discriminate; [congruence | eauto].
Qed.

Lemma upd_pos_new l w old v a W :
  nth_error l w = Some old -> old <> WNew ->
  (forall i, a <= i -> i < W -> nth_error l i = Some WNew) ->
  forall i, a <= i -> i < W -> nth_error (upd l w v) i = Some WNew.
Proof.
  intros Hw Ho H i Ha Hi. destruct (Nat.eq_dec w i) as [->|Hne].
  - rewrite (H i Ha Hi) in Hw. congruence.
  - rewrite nth_upd_other by exact Hne. auto.
Qed.

Lemma upd_pos_notnew l w (v : wst) a :
  v <> WNew -> (forall i, i < a -> nth_error l i <> Some WNew) ->
  forall i, i < a -> nth_error (upd l w v) i <> Some WNew.
Proof.
  intros Hv H i Hi X. destruct (Nat.eq_dec w i) as [->|Hne].
  - apply nth_upd_same_inv in X. congruence.
  - rewrite nth_upd_other in X by exact Hne. exact (H i Hi X).
Qed.

Lemma upd_pos_join l w old v k :
  nth_error l w = Some old -> finished old = false ->
  (forall i x, i < k -> nth_error l i = Some x -> finished x = true) ->
  forall i x, i < k -> nth_error (upd l w v) i = Some x -> finished x = true.
Proof.
  intros Hw Ho H i x Hi X. destruct (Nat.eq_dec w i) as [->|Hne].
  - specialize (H i old Hi Hw). congruence.
  - rewrite nth_upd_other in X by exact Hne. eauto.
Qed.

Lemma nth_lt {A} (l : list A) i v : nth_error l i = Some v -> i < length l.
Proof. intro H. apply nth_error_Some. congruence. Qed.

Ltac fields := cbn [pc q ws processed results kill set_pc set_w exit_normally pop].
Ltac fields_in H := cbn [pc q ws processed results kill set_pc set_w exit_normally pop] in H.

(* ================================================================ the invariant is inductive *)
Lemma Inv_LStart c s w s' : Inv c s -> stepf c s (LStart w) = Some s' -> Inv c s'.
Proof.
  intros I H. apply inv_LStart in H as (Hpc & Hw & Hn & ->). destruct I.
  rewrite Hpc in *. cbn [started joined sent_so_far feeding unput pc_ok] in *.
  assert (NS : (norm_start c (S w) = MStart (S w) /\ S w < parallelism c) \/
               (norm_start c (S w) = after_put c (items c) /\ S w = parallelism c)).
  { unfold norm_start. destruct (S w <? parallelism c) eqn:E.
    - apply Nat.ltb_lt in E. auto.
    - apply Nat.ltb_ge in E. right. split; [reflexivity | lia]. }
  destruct (after_put_facts c (items c)) as (A & B & C & D & F & G).
  assert (U : unput c (norm_start c (S w)) = items c) by (destruct NS as [[-> _]|[-> _]]; auto).
  assert (J : joined c (norm_start c (S w)) = 0) by (destruct NS as [[-> _]|[-> _]]; auto).
  assert (SS : sent_so_far c (norm_start c (S w)) = 0).
  { destruct NS as [[-> _]|[-> _]]; auto.
    destruct (feeding (after_put c (items c))) eqn:Fe; [auto | apply G; reflexivity]. }
  assert (ST : started c (norm_start c (S w)) = S w).
  { destruct NS as [[E _]|[E E2]]; rewrite E; [reflexivity | rewrite C; lia]. }
  assert (K : kill s = false) by (destruct (kill s); [destruct i_kill0; auto; discriminate | reflexivity]).
  constructor; fields.
  - rewrite length_upd. assumption.
  - intro g. specialize (i_cons0 g). rewrite U. upd_sums. lia.
  - intro g. specialize (i_acc0 g). upd_sums. lia.
  - assumption.
  - assumption.
  - intro M. destruct (i_rl0 M) as [R1 R2]. split; [assumption|]. intro h. rewrite R2. upd_sums. lia.
  - intros i Hi1 Hi2. rewrite ST in Hi1. rewrite nth_upd_other by lia. apply i_new0; lia.
  - intros i Hi X. rewrite ST in Hi. destruct (Nat.eq_dec w i) as [->|Hne].
    + apply nth_upd_same_inv in X. discriminate.
    + rewrite nth_upd_other in X by exact Hne. apply (i_notnew0 i); [lia | assumption].
  - destruct NS as [[E E2]|[E _]]; rewrite E; [cbn; lia | exact A].
  - intros i v Hi. rewrite J in Hi. lia.
  - rewrite SS. lia.
  - assumption.
  - intros _. apply i_feed0. reflexivity.
  - intro X. congruence.
  - intros _ X. exfalso. upd_sums. destruct i_surv0; auto; [lia | discriminate].
  - upd_sums. lia.
Qed.

Lemma kill_false_when_feeding c s : Inv c s -> feeding (pc s) = true -> kill s = false.
Proof.
  intros I F. destruct (kill s) eqn:K; [|reflexivity].
  destruct (i_kill _ _ I K) as [_ X]. congruence.
Qed.

Lemma no_exit_when_feeding c s : Inv c s -> feeding (pc s) = true -> sumf exit1 (ws s) = 0.
Proof.
  intros I F. pose proof (kill_false_when_feeding c s I F) as K.
  destruct (sumf exit1 (ws s)) eqn:E; [reflexivity|].
  destruct (i_surv _ _ I K) as [_ X]; [lia | congruence].
Qed.

Lemma Inv_LPut c s x s' : Inv c s -> stepf c s (LPut x) = Some s' -> Inv c s'.
Proof.
  intros I H. apply inv_LPut in H as (r & Hpc & ->).
  assert (K := kill_false_when_feeding c s I). assert (NE := no_exit_when_feeding c s I).
  destruct I. rewrite Hpc in *. cbn [started joined sent_so_far feeding unput pc_ok] in *.
  specialize (K eq_refl). specialize (NE eq_refl).
  destruct (after_put_facts c r) as (A & B & C & D & F & G).
  constructor; fields.
  - assumption.
  - intro g. specialize (i_cons0 g). rewrite B, sumf_app. cbn in *. lia.
  - assumption.
  - assumption.
  - assumption.
  - assumption.
  - intros i Hi. rewrite C in Hi. lia.
  - intros i Hi. rewrite C in Hi. apply i_notnew0. assumption.
  - exact A.
  - intros i v Hi. rewrite D in Hi. lia.
  - rewrite sumf_app. cbn. destruct (feeding (after_put c r)) eqn:Fe.
    + rewrite F by reflexivity. lia.
    + destruct G as [G _]; [reflexivity|]. lia.
  - apply wfq_noNone; [apply i_feed0; reflexivity | right; exact Logic.I].
  - intros _. rewrite sumf_app. cbn. rewrite i_feed0; reflexivity.
  - intro X. congruence.
  - intros _ X. lia.
  - assumption.
Qed.

Lemma Inv_LKill c s s' : Inv c s -> stepf c s LKill = Some s' -> Inv c s'.
Proof.
  intros I H. apply inv_LKill in H as (Hpc & ->).
  assert (NE := no_exit_when_feeding c s I).
  destruct I. rewrite Hpc in *. cbn [started joined sent_so_far feeding unput pc_ok] in *.
  specialize (NE eq_refl).
  destruct (norm_sent_facts c (parallelism c) (le_n _)) as (A & B & C & D & F & G).
  constructor; fields.
  - assumption.
  - intro g. specialize (i_cons0 g). rewrite C. cbn in *. lia.
  - assumption.
  - assumption.
  - assumption.
  - assumption.
  - intros i Hi. rewrite D in Hi. lia.
  - intros i Hi. rewrite D in Hi. apply i_notnew0. assumption.
  - exact A.
  - intros i v Hi. rewrite F in Hi. lia.
  - rewrite G. lia.
  - assumption.
  - intro X. congruence.
  - intros _. split; assumption.
  - discriminate.
  - assumption.
Qed.

Lemma Inv_LSent c s s' : Inv c s -> stepf c s LSent = Some s' -> Inv c s'.
Proof.
  intros I H. apply inv_LSent in H as (k & Hpc & ->).
  destruct I. rewrite Hpc in *. cbn [started joined sent_so_far feeding unput pc_ok] in *.
  destruct (norm_sent_facts c k (Nat.lt_le_incl _ _ i_pc0)) as (A & B & C & D & F & G).
  constructor; fields.
  - assumption.
  - intro g. specialize (i_cons0 g). rewrite C, sumf_app. cbn in *. lia.
  - assumption.
  - assumption.
  - assumption.
  - assumption.
  - intros i Hi. rewrite D in Hi. lia.
  - intros i Hi. rewrite D in Hi. apply i_notnew0. assumption.
  - exact A.
  - intros i v Hi. rewrite F in Hi. lia.
  - rewrite G, sumf_app. cbn. lia.
  - apply wfq_snoc_None. assumption.
  - intro X. congruence.
  - intro X. destruct (i_kill0 X). split; assumption.
  - intros X Y. destruct (i_surv0 X Y) as [Z _]. rewrite sumf_app. cbn. split; [lia | assumption].
  - assumption.
Qed.

Lemma Inv_LJoin c s w s' : Inv c s -> stepf c s (LJoin w) = Some s' -> Inv c s'.
Proof.
  intros I H. apply inv_LJoin in H as (v & Hpc & Hw & Hn & Hf & ->).
  destruct I. rewrite Hpc in *. cbn [started joined sent_so_far feeding unput pc_ok] in *.
  constructor; fields; cbn [started joined sent_so_far feeding unput pc_ok]; try assumption.
  - intros i x Hi Hx. destruct (Nat.eq_dec i w) as [->|Hne]; [congruence|].
    apply (i_join0 i x); [lia | assumption].
Qed.

Lemma Inv_LRet c s s' : Inv c s -> stepf c s LRet = Some s' -> Inv c s'.
Proof.
  intros I H. apply inv_LRet in H as (Hpc & ->).
  destruct I. rewrite Hpc in *. cbn [started joined sent_so_far feeding unput pc_ok] in *.
  constructor; fields; cbn [started joined sent_so_far feeding unput pc_ok]; try assumption.
  exact Logic.I.
Qed.

Lemma Inv_LChk c s w b s' : Inv c s -> stepf c s (LChk w b) = Some s' -> Inv c s'.
Proof.
  intros I H. apply inv_LChk in H as (acc & Hn & -> & ->).
  destruct I. destruct (kill s) eqn:K.
  - (* the kill flag is set: the iterator ends, the functor returns *)
    destruct (i_kill0 eq_refl) as [K1 K2].
    constructor; fields.
    + rewrite length_upd. assumption.
    + intro g. specialize (i_cons0 g). upd_sums. lia.
    + intro g. specialize (i_acc0 g). upd_sums. unfold accw in *. cbn in *. lia.
    + intro M. rewrite M, app_nil_r. auto.
    + intro M. rewrite M, app_nil_r. auto.
    + intro M. rewrite M. destruct (i_rl0 M) as [R1 R2]. rewrite !sumf_app. cbn. split; [lia|].
      intro h. specialize (R2 h). upd_sums. rewrite sumf_app. cbn. lia.
    + eapply upd_pos_new; eauto. discriminate.
    + eapply upd_pos_notnew; eauto. discriminate.
    + assumption.
    + eapply upd_pos_join; eauto.
    + upd_sums. lia.
    + assumption.
    + assumption.
    + auto.
    + intro X; congruence.
    + upd_sums. lia.
  - constructor; fields.
    + rewrite length_upd. assumption.
    + intro g. specialize (i_cons0 g). upd_sums. lia.
    + intro g. specialize (i_acc0 g). upd_sums. unfold accw in *. cbn in *. lia.
    + assumption.
    + assumption.
    + intro M. destruct (i_rl0 M) as [R1 R2]. split; [assumption|].
      intro h. specialize (R2 h). upd_sums. lia.
    + eapply upd_pos_new; eauto. discriminate.
    + eapply upd_pos_notnew; eauto. discriminate.
    + assumption.
    + eapply upd_pos_join; eauto.
    + upd_sums. lia.
    + assumption.
    + assumption.
    + intro X; congruence.
    + intros _ X. upd_sums. apply i_surv0; [reflexivity | lia].
    + upd_sums. lia.
Qed.

Lemma Inv_LGet c s w o s' : Inv c s -> stepf c s (LGet w o) = Some s' -> Inv c s'.
Proof.
  intros I H. apply inv_LGet in H as (acc & q' & Hn & Hq & ->).
  destruct I. rewrite Hq in *. destruct o as [x|].
  - (* an item *)
    cbn [sumf qit isNone wfq] in *.
    constructor; fields.
    + rewrite length_upd. assumption.
    + intro g. specialize (i_cons0 g). upd_sums. lia.
    + intro g. specialize (i_acc0 g). upd_sums. unfold accw in *. cbn in *. lia.
    + assumption.
    + assumption.
    + intro M. destruct (i_rl0 M) as [R1 R2]. split; [assumption|].
      intro h. specialize (R2 h). upd_sums. lia.
    + eapply upd_pos_new; eauto. discriminate.
    + eapply upd_pos_notnew; eauto. discriminate.
    + assumption.
    + eapply upd_pos_join; eauto.
    + upd_sums. lia.
    + assumption.
    + assumption.
    + assumption.
    + intros X Y. upd_sums. unfold one in *. destruct (i_surv0 X); [lia|]. lia.
    + upd_sums. lia.
  - (* the sentinel: the iterator ends, the functor returns *)
    cbn [sumf qit isNone wfq] in *.
    assert (Fe : feeding (pc s) = false).
    { destruct (feeding (pc s)); [|reflexivity]. specialize (i_feed0 eq_refl). lia. }
    constructor; fields.
    + rewrite length_upd. assumption.
    + intro g. specialize (i_cons0 g). upd_sums. lia.
    + intro g. specialize (i_acc0 g). upd_sums. unfold accw in *. cbn in *. lia.
    + intro M. rewrite M, app_nil_r. auto.
    + intro M. rewrite M, app_nil_r. auto.
    + intro M. rewrite M. destruct (i_rl0 M) as [R1 R2]. rewrite !sumf_app. cbn. split; [lia|].
      intro h. specialize (R2 h). upd_sums. rewrite sumf_app. cbn. lia.
    + eapply upd_pos_new; eauto. discriminate.
    + eapply upd_pos_notnew; eauto. discriminate.
    + assumption.
    + eapply upd_pos_join; eauto.
    + upd_sums. lia.
    + apply wfq_of_noitems. assumption.
    + intro X. congruence.
    + assumption.
    + intros _ _. split; assumption.
    + upd_sums. lia.
Qed.

Lemma Inv_LProc c s w x s' : Inv c s -> stepf c s (LProc w x) = Some s' -> Inv c s'.
Proof.
  intros I H. apply inv_LProc in H as (acc & Hn & ->).
  destruct I. destruct (fout c x) as [ys|] eqn:E.
  - assert (Y : ys_of c x = ys) by (unfold ys_of; rewrite E; reflexivity).
    assert (D : die1 c x = 0) by (unfold die1, dies; rewrite E; reflexivity).
    constructor; fields.
    + rewrite length_upd. assumption.
    + intro g. specialize (i_cons0 g). upd_sums. rewrite sumf_app. cbn. lia.
    + intro g. specialize (i_acc0 g). upd_sums. rewrite !sumf_app in *. cbn. rewrite Y. lia.
    + intro M. rewrite M, flat_map_app, map_app, (i_gen0 M). cbn. rewrite Y, app_nil_r. reflexivity.
    + intro M. rewrite M, app_nil_r. auto.
    + intro M. rewrite M, app_nil_r. destruct (i_rl0 M) as [R1 R2]. split; [assumption|].
      intro h. specialize (R2 h). upd_sums. lia.
    + eapply upd_pos_new; eauto. discriminate.
    + eapply upd_pos_notnew; eauto. discriminate.
    + assumption.
    + eapply upd_pos_join; eauto.
    + upd_sums. lia.
    + assumption.
    + assumption.
    + assumption.
    + intros X Z. upd_sums. apply i_surv0; [assumption | lia].
    + upd_sums. rewrite sumf_app. cbn. lia.
  - assert (Y : ys_of c x = []) by (unfold ys_of; rewrite E; reflexivity).
    assert (D : die1 c x = 1) by (unfold die1, dies; rewrite E; reflexivity).
    constructor; fields.
    + rewrite length_upd. assumption.
    + intro g. specialize (i_cons0 g). upd_sums. rewrite sumf_app. cbn. lia.
    + intro g. specialize (i_acc0 g). upd_sums. rewrite !sumf_app in *. cbn. rewrite Y. cbn. lia.
    + intro M. rewrite flat_map_app, map_app, (i_gen0 M). cbn. rewrite Y, app_nil_r. reflexivity.
    + assumption.
    + intro M. destruct (i_rl0 M) as [R1 R2]. split; [assumption|].
      intro h. specialize (R2 h). upd_sums. lia.
    + eapply upd_pos_new; eauto. discriminate.
    + eapply upd_pos_notnew; eauto. discriminate.
    + assumption.
    + eapply upd_pos_join; eauto.
    + upd_sums. lia.
    + assumption.
    + assumption.
    + assumption.
    + intros X Z. upd_sums. apply i_surv0; [assumption | lia].
    + upd_sums. rewrite sumf_app. cbn. lia.
Qed.

Theorem Inv_step c s l s' : Inv c s -> step c s l s' -> Inv c s'.
Proof.
  unfold step, fstep. intros I H. destruct l.
  - eapply Inv_LStart; eauto.
  - eapply Inv_LPut; eauto.
  - eapply Inv_LKill; eauto.
  - eapply Inv_LSent; eauto.
  - eapply Inv_LJoin; eauto.
  - eapply Inv_LRet; eauto.
  - eapply Inv_LChk; eauto.
  - eapply Inv_LGet; eauto.
  - eapply Inv_LProc; eauto.
Qed.

Theorem Inv_reachable c s : reachable c s -> Inv c s.
Proof.
  apply (invariant_by_induction state label (step c) (is_init c) (Inv c)).
  - intros s0 ->. apply Inv_init.
  - intros s1 l s2. apply Inv_step.
Qed.

(* ================================================================ from sums to multisets *)
Lemma sumf_count (x : N) l :
  sumf (fun y => if N.eq_dec y x then 1 else 0) l = count_occ N.eq_dec l x.
Proof. induction l as [|y l IH]; cbn; [reflexivity|]. destruct (N.eq_dec y x); lia. Qed.

Lemma sumf_perm_gen {A} (dec : forall a b : A, {a = b} + {a <> b}) (l1 l2 : list A) :
  (forall g, sumf g l1 = sumf g l2) -> Permutation l1 l2.
Proof.
  intro H. apply (Permutation_count_occ dec). intro x.
  assert (E : forall l, sumf (fun y => if dec y x then 1 else 0) l = count_occ dec l x).
  { induction l as [|y l IH]; cbn; [reflexivity|]. destruct (dec y x); lia. }
  rewrite <- !E. apply H.
Qed.

Lemma sumf_perm (l1 l2 : list N) : (forall g, sumf g l1 = sumf g l2) -> Permutation l1 l2.
Proof. apply sumf_perm_gen. exact N.eq_dec. Qed.

Lemma perm_sumf {A} (g : A -> nat) l1 l2 : Permutation l1 l2 -> sumf g l1 = sumf g l2.
Proof. induction 1; cbn; lia. Qed.

Lemma sumf_qitems g l : sumf g (qitems l) = sumf (qit g) l.
Proof. induction l as [|[x|] l IH]; cbn; lia. Qed.

Lemma sumf_inflight g l : sumf g (inflight l) = sumf (infl g) l.
Proof.
  unfold inflight. induction l as [|v l IH]; cbn; [reflexivity|].
  rewrite sumf_app, IH. destruct v; cbn; lia.
Qed.

Lemma sumf_flat_map {A B} (g : B -> nat) (f : A -> list B) l :
  sumf g (flat_map f l) = sumf (fun x => sumf g (f x)) l.
Proof. induction l as [|x l IH]; cbn; [reflexivity|]. rewrite sumf_app, IH. reflexivity. Qed.

Lemma sumf_map {A B} (g : B -> nat) (f : A -> B) l : sumf g (map f l) = sumf (fun x => g (f x)) l.
Proof. induction l as [|x l IH]; cbn; [reflexivity|]. rewrite IH. reflexivity. Qed.

Lemma sumf_concat {A} (g : A -> nat) l : sumf g (concat l) = sumf (sumf g) l.
Proof. induction l as [|x l IH]; cbn; [reflexivity|]. rewrite sumf_app, IH. reflexivity. Qed.

Lemma ndie_sumf c l : ndie c l = sumf (die1 c) l.
Proof.
  unfold ndie, die1. induction l as [|x l IH]; cbn; [reflexivity|].
  destruct (dies c x); cbn; lia.
Qed.

Lemma sumf_one_nil (l : list N) : sumf one l = 0 -> l = [].
Proof. destruct l; cbn; [reflexivity | unfold one; lia]. Qed.

Lemma qit_one_zero g l : sumf (qit one) l = 0 -> sumf (qit g) l = 0.
Proof. induction l as [|[x|] l IH]; cbn; unfold one; intros; auto; lia. Qed.

Theorem conservation_proof : conservation_stmt.
Proof.
  intros c s R. apply Inv_reachable in R. apply sumf_perm. intro g.
  rewrite !sumf_app, sumf_inflight, sumf_qitems. pose proof (i_cons _ _ R g). lia.
Qed.

(* ---- all workers finished *)
Lemma all_nth_Forall {A} (P : A -> Prop) l :
  (forall i v, nth_error l i = Some v -> P v) -> Forall P l.
Proof.
  induction l as [|x l IH]; intro H; constructor.
  - apply (H 0 x). reflexivity.
  - apply IH. intros i v Hi. apply (H (S i) v). exact Hi.
Qed.

Lemma fin_sums l : Forall (fun v => finished v = true) l ->
  (forall g, sumf (infl g) l = 0) /\ sumf exit1 l + sumf dead1 l = length l.
Proof.
  induction 1 as [|v l Hv Hl [IH1 IH2]]; cbn; [split; auto|].
  split.
  - intro g. rewrite IH1. destruct v; cbn in *; try discriminate; reflexivity.
  - destruct v; cbn in *; try discriminate; lia.
Qed.

Lemma exit_sums l : Forall (fun v => finished v = true) l -> sumf dead1 l = 0 ->
  (forall h, sumf (exw h) l = sumf h (map acc_of l)).
Proof.
  induction 1 as [|v l Hv Hl IH]; cbn; intros D h; [reflexivity|].
  destruct v; cbn in *; try discriminate; try lia. rewrite IH by lia. reflexivity.
Qed.

Lemma terminal_pc s : terminal s = true -> pc s = MDone.
Proof. unfold terminal. destruct (pc s); try discriminate; reflexivity. Qed.

Lemma returned_facts c s : reachable c s -> returned c s -> pool_adequate c ->
  Inv c s /\ Forall (fun v => finished v = true) (ws s) /\ sumf (qit one) (q s) = 0 /\ (forall g : N -> nat, sumf g (processed s) = sumf g (items c)).
Proof.
  intros R [T NR] PA. apply Inv_reachable in R. pose proof R as I. destruct R.
  apply terminal_pc in T. rewrite T in *. cbn [joined unput] in *.
  assert (F : Forall (fun v => finished v = true) (ws s)).
  { apply all_nth_Forall. intros i v Hi. apply (i_join0 i v); [|exact Hi].
    rewrite <- i_len0. eapply nth_lt; eauto. }
  destruct (fin_sums _ F) as [F1 F2].
  assert (K : kill s = false).
  { destruct (kill s); [|reflexivity]. destruct i_kill0; congruence. }
  assert (Q : sumf (qit one) (q s) = 0).
  { destruct PA as [PA|PA].
    - rewrite ndie_sumf in PA. pose proof (i_cons0 (die1 c)) as X. cbn in X.
      destruct (i_surv0 K) as [Y _]; [lia | exact Y].
    - pose proof (i_cons0 one) as X. rewrite PA in X. cbn in X. lia. }
  split; [exact I|]. split; [exact F|]. split; [exact Q|].
  intro g. pose proof (i_cons0 g) as X. rewrite F1, (qit_one_zero g _ Q) in X. cbn in X. lia.
Qed.

Theorem exactly_once_proof : exactly_once_stmt.
Proof.
  intros c s R T PA. destruct (returned_facts c s R T PA) as (_ & _ & _ & H).
  apply sumf_perm. exact H.
Qed.

(* ---- results *)
Definition rls (l : list res) : list (list N) :=
  flat_map (fun r => match r with RL a => [a] | RY _ => [] end) l.

Lemma no_ry_map l : sumf ry1 l = 0 -> l = map RL (rls l).
Proof.
  induction l as [|[y|a] l IH]; cbn; intro H; [reflexivity | lia |]. f_equal. apply IH. lia.
Qed.

Lemma rlw_rls h l : sumf (rlw h) l = sumf h (rls l).
Proof. unfold rls. induction l as [|[y|a] l IH]; cbn; lia. Qed.

Theorem results_complete_proof : results_complete_stmt.
Proof.
  intros c s R T PA. pose proof (exactly_once_proof c s R T PA) as P.
  destruct (returned_facts c s R T PA) as (I & F & Q & H). destruct I.
  destruct (mode c) eqn:M.
  - rewrite (i_gen0 eq_refl). apply Permutation_map. unfold all_yields.
    apply Permutation_flat_map. exact P.
  - intro ND. destruct (i_rl0 eq_refl) as [R1 R2].
    assert (D : sumf dead1 (ws s) = 0).
    { rewrite i_dead0, (H (die1 c)), <- ndie_sumf. exact ND. }
    exists (map acc_of (ws s)). split; [|split].
    + rewrite (no_ry_map _ R1) at 1. apply Permutation_map.
      apply (sumf_perm_gen (list_eq_dec N.eq_dec)). intro h.
      rewrite <- rlw_rls, R2. apply exit_sums; assumption.
    + rewrite map_length. assumption.
    + apply sumf_perm. intro g. unfold all_yields.
      rewrite sumf_concat, sumf_map, sumf_flat_map, <- (H (fun x => sumf g (ys_of c x))).
      rewrite <- i_acc0. reflexivity.
  - apply i_none0. reflexivity.
Qed.

(* ================================================================ no deadlock, termination *)
Lemma fin1_bound l : sumf fin1 l <= length l.
Proof. induction l as [|v l IH]; cbn; [lia|]. unfold fin1 at 1. destruct (finished v); lia. Qed.

Lemma fin1_strict l k v : nth_error l k = Some v -> finished v = false -> sumf fin1 l < length l.
Proof.
  revert k. induction l as [|x l IH]; intros [|k] H F; cbn in *; try discriminate.
  - injection H as ->. unfold fin1 at 1. rewrite F. pose proof (fin1_bound l). lia.
  - specialize (IH k H F). unfold fin1 at 1. destruct (finished x); lia.
Qed.

Theorem no_deadlock_proof : no_deadlock_stmt.
Proof.
  intros c s R T. apply Inv_reachable in R. destruct R.
  unfold step, fstep. unfold terminal in T.
  destruct (pc s) as [k|[|x r]|k|k|] eqn:Hpc; try discriminate; cbn [pc_ok started joined sent_so_far] in *.
  - (* starting workers *)
    exists (LStart k). unfold stepf. rewrite Hpc, Nat.eqb_refl.
    apply Nat.ltb_lt in i_pc0 as L. rewrite L. cbn [andb].
    rewrite (i_new0 k (le_n _) i_pc0). eauto.
  - exists LKill. unfold stepf. rewrite Hpc. eauto.
  - exists (LPut x). unfold stepf. rewrite Hpc, N.eqb_refl. eauto.
  - exists LSent. unfold stepf. rewrite Hpc. eauto.
  - (* joining *)
    destruct (Nat.eq_dec k (parallelism c)) as [E|NE].
    + exists LRet. unfold stepf. rewrite Hpc. subst k. rewrite Nat.eqb_refl. eauto.
    + assert (L : k < parallelism c) by lia.
      destruct (nth_error (ws s) k) as [v|] eqn:Hn;
        [|apply nth_error_None in Hn; lia].
      destruct v as [|acc|acc|acc x|acc|acc].
      * exfalso. apply (i_notnew0 k L Hn).
      * exists (LChk k (kill s)). unfold stepf. rewrite Hn, eqb_reflx. eauto.
      * assert (Q : sumf isNone (q s) >= 1).
        { pose proof (fin1_strict _ _ _ Hn eq_refl). lia. }
        destruct (q s) as [|o q'] eqn:Hq; [cbn in Q; lia|].
        exists (LGet k o). unfold stepf. rewrite Hn, Hq.
        destruct o as [x|]; [rewrite N.eqb_refl|]; eauto.
      * exists (LProc k x). unfold stepf. rewrite Hn, N.eqb_refl. destruct (fout c x); eauto.
      * exists (LJoin k). unfold stepf. rewrite Hpc, Nat.eqb_refl.
        apply Nat.ltb_lt in L as L'. rewrite L'. cbn [andb]. rewrite Hn. cbn. eauto.
      * exists (LJoin k). unfold stepf. rewrite Hpc, Nat.eqb_refl.
        apply Nat.ltb_lt in L as L'. rewrite L'. cbn [andb]. rewrite Hn. cbn. eauto.
Qed.

Theorem always_terminates_proof : always_terminates_stmt.
Proof.
  split; [exact step_decreases_proof|]. split; [|split; [|split; [exact no_deadlock_proof|]]].
  - intros c f. apply (no_infinite_run state label (step c) (measure c) (step_decreases_proof c)).
  - intros c tr s H.
    pose proof (star_length_measure state label (step c) (measure c) (step_decreases_proof c) _ _ _ H).
    lia.
  - intros c s R.
    apply (reaches_terminal state label (step c) (measure c) (step_decreases_proof c)
             (reachable c) (fun s => terminal s = true)).
    + intro s0. destruct (terminal s0); [left; reflexivity | right; discriminate].
    + intros s0 l s1 R0 H. eapply reachable_step; eassumption.
    + intros s0 R0 NT. apply no_deadlock_proof; [exact R0|]. destruct (terminal s0); congruence.
    + exact R.
Qed.

(* an accepted trace is a run: the theorems speak about its final state *)
Theorem trace_sound_proof : forall c tr s,
  run state label (stepf c) (init c) tr = Some s -> reachable c s.
Proof.
  intros c tr s H. exists (init c), tr. split; [reflexivity|]. apply run_star. exact H.
Qed.

(* ================================================================ the preconditions, in source terms *)
Lemma parallelism_pos_iff_proof c :
  1 <= parallelism c <-> match len_hint c with Some n => 1 <= n | None => True end.
Proof.
  unfold parallelism, parallelism_z.
  destruct (len_hint c) as [n|]; destruct (threads c) as [t|]; split; intros; try split; try lia.
Qed.

Lemma pool_adequate_simple_proof c :
  (forall x, fout c x <> Die) -> 1 <= parallelism c \/ items c = [] -> pool_adequate c.
Proof.
  intros ND [P|E]; [left | right; exact E].
  assert (Z : ndie c (items c) = 0).
  { unfold ndie. induction (items c) as [|x l IH]; cbn; [reflexivity|].
    unfold dies at 1. destruct (fout c x) eqn:F; [exact IH | destruct (ND x F)]. }
  lia.
Qed.

(* without workers nothing is ever processed *)
Lemma no_workers_proof c s : parallelism c = 0 -> reachable c s -> processed s = [].
Proof.
  intros W0 R.
  assert (P : length (ws s) = 0 /\ processed s = []); [|exact (proj2 P)].
  revert s R. apply (invariant_by_induction state label (step c) (is_init c)).
  - intros s0 ->. cbn. rewrite W0. auto.
  - intros s l s' [L P] H. unfold step, fstep in H.
    assert (NW : forall w v, nth_error (ws s) w = Some v -> False).
    { intros w v X. apply nth_lt in X. lia. }
    destruct l.
    + apply inv_LStart in H as (_ & _ & X & _). destruct (NW _ _ X).
    + apply inv_LPut in H as (r & _ & ->). auto.
    + apply inv_LKill in H as (_ & ->). auto.
    + apply inv_LSent in H as (k & _ & ->). auto.
    + apply inv_LJoin in H as (v & _ & _ & X & _). destruct (NW _ _ X).
    + apply inv_LRet in H as (_ & ->). auto.
    + apply inv_LChk in H as (acc & X & _). destruct (NW _ _ X).
    + apply inv_LGet in H as (acc & q' & X & _). destruct (NW _ _ X).
    + apply inv_LProc in H as (acc & X & _). destruct (NW _ _ X).
Qed.

(* ================================================================ the full statement is false of the code *)
Definition cfg_worker_death : cfg :=
  {| items := [1%N; 2%N]; iter_raises := false; len_hint := Some 2; threads := Some 1%Z; cpu := 16%Z;
     mode := Gen; fout := tabf [(1%N, Die)] |}.

Lemma perm_length_neq {A} (l1 l2 : list A) : length l1 <> length l2 -> ~ Permutation l1 l2.
Proof. intros H P. apply Permutation_length in P. contradiction. Qed.

Theorem exactly_once_worker_death_refuted_proof :
  exists c s, 1 <= parallelism c /\ reachable c s /\ returned c s /\ ~ Permutation (processed s) (items c).
Proof.
  exists cfg_worker_death.
  eexists. split; [vm_compute; lia|]. split; [|split].
  - apply (trace_sound_proof cfg_worker_death
             [LStart 0; LPut 1%N; LPut 2%N; LSent; LChk 0 false; LGet 0 (Some 1%N); LProc 0 1%N; LJoin 0; LRet]).
    vm_compute. reflexivity.
  - split; reflexivity.
  - apply perm_length_neq. cbn. discriminate.
Qed.

Theorem exactly_once_full_refuted_proof : ~ exactly_once_full.
Proof.
  intro H. destruct exactly_once_worker_death_refuted_proof as (c & s & _ & R & T & NP).
  exact (NP (H c s R T)).
Qed.

(* a functor that never raises and an iterable whose len() (if any) is truthful: no further
   precondition, for every thread count (threads=0 and negative values included) *)
Theorem exactly_once_never_raising_proof : forall c s, reachable c s -> returned c s ->
  (forall x, fout c x <> Die) ->
  match len_hint c with Some n => n = length (items c) | None => True end ->
  Permutation (processed s) (items c).
Proof.
  intros c s R T ND L. apply (exactly_once_proof c s R T).
  apply pool_adequate_simple_proof; [exact ND|].
  destruct (items c) as [|x l] eqn:E; [right; reflexivity | left].
  apply parallelism_pos_iff_proof. destruct (len_hint c); [subst; cbn; lia | exact Logic.I].
Qed.

(* ---- the hypotheses are satisfiable by non-trivial values *)
Definition cfg_example : cfg :=
  {| items := [3%N; 1%N; 3%N]; iter_raises := false; len_hint := None; threads := Some 2%Z; cpu := 16%Z;
     mode := Gen; fout := tabf [(1%N, Die); (3%N, Ok [103%N])] |}.
Example example_adequate : pool_adequate cfg_example.
Proof. left. vm_compute. lia. Qed.
(* a schedule in which worker 0 dies on item 1 and worker 1 handles both copies of item 3 *)
Example example_run :
  exists s, run state label (stepf cfg_example) (init cfg_example)
    [LStart 0; LStart 1; LPut 3%N; LChk 1 false; LPut 1%N; LChk 0 false; LGet 1 (Some 3%N);
     LGet 0 (Some 1%N); LPut 3%N; LProc 0 1%N; LSent; LProc 1 3%N; LSent; LChk 1 false;
     LGet 1 (Some 3%N); LProc 1 3%N; LChk 1 false; LGet 1 None; LJoin 0; LJoin 1; LRet] = Some s
  /\ returned cfg_example s /\ processed s = [1%N; 3%N; 3%N] /\ results s = [RY 103%N; RY 103%N].
Proof. eexists. split; [vm_compute; reflexivity|]. repeat split. Qed.
