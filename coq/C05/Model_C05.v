(* Model_C05.v — executable model of atom.intersects (src/pkgcore/ebuild/atom.py:501), every
   branch, over the records of parsed attributes of C04 ([Model_C04.atom]) and with the version
   comparison [vc] as a parameter (instantiated with C01's [ver_cmp] in the [run_*] encoders).
   `restricts.VersionMatch(x.op, x.version, x.revision).match(y)` with an ATOM y as the
   "package" is [vm x y].  Bug-compatible.  No proofs here. *)
From Coq Require Import List NArith ZArith Bool.
Import ListNotations.
From Verif Require Import Base.Val C01.Model_C01 C04.Model_C04.

Definition fullver_of (a : atom) : str := match a_fullver a with Some s => s | None => [] end.
Definition has_lt (a : atom) : bool := N.eqb (a_op a) 0 || N.eqb (a_op a) 1.     (* "<" in op *)
Definition has_gt (a : atom) : bool := N.eqb (a_op a) 3 || N.eqb (a_op a) 4.     (* ">" in op *)
Definition is_ranged (a : atom) : bool := has_lt a || has_gt a.                  (* op in (<,<=,>,>=) *)
Definition unversioned (a : atom) : bool := N.eqb (a_op a) 7.                    (* not op *)
Definition rev_truthy (a : atom) : bool := match a_rev a with Some _ => true | None => false end.
Definition rev_eq (r1 r2 : option N) : bool := N.eqb (rev_val r1) (rev_val r2).  (* Revision.__eq__ *)

(* x is not None and y is not None and x != y *)
Definition both_differ (x y : option str) : bool :=
  match x, y with Some s, Some t => negb (str_eqb s t) | _, _ => false end.

(* the USE-dep loop (atom.py:545): the raw tokens only one of the two atoms has; a token "-f"
   among them whose "f" is also among them *)
Definition use_flags (ua ub : list str) : list str :=
  filter (fun t => negb (smem t ub)) ua ++ filter (fun t => negb (smem t ua)) ub.
Definition use_conflict (a b : atom) : bool :=
  match a_use a, a_use b with
  | Some (ta :: ua), Some (tb :: ub) =>
      let flags := use_flags (ta :: ua) (tb :: ub) in
      existsb (fun t => match t with 45%N :: f => smem f flags | _ => false end) flags
  | _, _ => false
  end.

(* the checks before any version reasoning *)
Definition attrs_compatible (a b : atom) : bool :=
  str_eqb (a_cat a) (a_cat b) && str_eqb (a_pkg a) (a_pkg b)          (* self.key == other.key *)
  && negb (both_differ (a_slot a) (a_slot b))
  && negb (both_differ (a_subslot a) (a_subslot b))
  && negb (both_differ (a_repo a) (a_repo b))
  && negb (use_conflict a b).

Section WithVerCmp.
Variable vc : str -> option N -> str -> option N -> Z.

(* VersionMatch(x.op, x.version, x.revision).match(y) *)
Definition vm (x y : atom) : bool :=
  vmatch vc (a_op x) false (a_ver x) (a_rev x) (a_ver y) (a_rev y).

(* atom.py:557-660 *)
Definition version_part (a b : atom) : bool :=
  if unversioned a || unversioned b then true else
  if (has_lt a && has_lt b) || (has_gt a && has_gt b) then true else
  if N.eqb (a_op a) 2 then
    (if N.eqb (a_op b) 6 then startswith (fullver_of a) (fullver_of b) else vm b a) else
  if N.eqb (a_op b) 2 then
    (if N.eqb (a_op a) 6 then startswith (fullver_of b) (fullver_of a) else vm a b) else
  if N.eqb (a_op a) 5 && N.eqb (a_op b) 5 then
    str_eqb (a_ver a) (a_ver b) && rev_eq (a_rev a) (a_rev b) else
  if N.eqb (a_op a) 6 && N.eqb (a_op b) 6 then
    startswith (fullver_of a) (fullver_of b) || startswith (fullver_of b) (fullver_of a) else
  if N.eqb (a_op a) 6 && N.eqb (a_op b) 5 then startswith (fullver_of b) (a_ver a) else
  if N.eqb (a_op b) 6 && N.eqb (a_op a) 5 then startswith (fullver_of a) (a_ver b) else
  let '(ranged, other) := if is_ranged a then (a, b) else (b, a) in
  if is_ranged other then vm other ranged && vm ranged other else
  if N.eqb (a_op other) 5 then vm ranged other || (has_gt ranged && vm other ranged) else
  if N.eqb (a_op other) 6 then
    vm ranged other
    || (if has_lt ranged
        then (if rev_truthy other then false else startswith (fullver_of ranged) (a_ver other))
        else startswith (fullver_of ranged) (a_ver other))
  else false.     (* NotImplementedError: unreachable for parsed atoms *)

Definition intersects (a b : atom) : bool :=
  if attrs_compatible a b then version_part a b else false.
End WithVerCmp.

(* ------------------------------------------------------------------ encoders for the harness *)
Definition run_intersects (i : atom * atom) : val := VB (intersects ver_cmp (fst i) (snd i)).
