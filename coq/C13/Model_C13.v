(* Model_C13.v — executable model of package visibility through a configured domain
   (src/pkgcore/ebuild/domain.py: filter_repo, generate_filter, make_mask_filter/apply_mask_filter,
   _pkg_filters, _make_keywords_filter, _apply_keywords_filter, _apply_license_filter;
   restrictions/boolean.py: evaluate_conditionals, And/Or iter_dnf_solutions as used on LICENSE).
   No proofs here.

   Abstraction.  Every atom / glob of a configuration line is an id (N); a package carries the
   list of ids that match it ([p_match]) and the list of ids of atoms whose category/package key
   is its own ([p_key]; collapsed_restrict_to_data files atoms per key).  Their matching is
   C04/C44.  Keywords, licenses, group names and configuration tokens are strings ([str]).
   The token-level machinery (incremental_expansion, collapsed_restrict_to_data.pull_data,
   non_incremental_..., incremental_expansion_license) is C12's model, imported.

   The model is of the REPAIRED _make_keywords_filter (fixes/C13-*.patch):
     [fix_empty]  an empty accept_keywords entry on a stable system contributes the token
                  "~ARCH" (pinned tree: the str "~ARCH", which a match-all entry iterates
                  character by character);
     [fix_wild]   the "no entries at all" short cut (plain containment) is not taken when the
                  accepted set holds a wildcard "*", "~*" or "**" (pinned tree: the wildcards
                  of ACCEPT_KEYWORDS are then ignored).
   [visible_with] takes both switches so that the pinned behaviour can be recognised. *)
From Coq Require Import List NArith ZArith Bool.
Import ListNotations.
From Verif Require Import Base.Val C12.Model_C12.

Definition TILDE : N := 126%N.   (* "~" *)

(* ------------------------------------------------------------------ data *)
(* LICENSE as parsed by DepSet.parse: license names, all-of groups "( ... )", any-of groups
   "|| ( ... )", USE conditionals "flag? ( ... )" / "!flag? ( ... )" *)
Inductive ltree : Type :=
| LLic (l : str)
| LAll (cs : list ltree)
| LAny (cs : list ltree)
| LUse (neg : bool) (flag : N) (cs : list ltree).

(* a LICENSE without conditionals (what evaluate_depset returns) *)
Inductive etree : Type :=
| ELic (l : str)
| EAll (cs : list etree)
| EAny (cs : list etree).

Record pkg : Type := {
  p_match : list N;        (* ids of configuration atoms/globs matching this package *)
  p_key : list N;          (* ids of atoms with this package's key *)
  p_kw : list str;         (* KEYWORDS *)
  p_lic : list ltree }.    (* LICENSE (top level sequence = all-of) *)

(* which bucket collapsed_restrict_to_data files a restriction under *)
Inductive ekind : Type := EAlways | ERepo | ECat | EPkg | EMulti | EAtom.
Definition entry : Type := (ekind * N * list str)%type.      (* kind, restriction id, tokens *)

Record config : Type := {
  repo_masks : list N;                       (* repo.pkg_masks (profiles/package.mask) *)
  prof_masks : list (list N * list N);       (* profile._incremental_masks: (neg, pos) per node *)
  user_masks : list N;                       (* /etc/portage/package.mask *)
  prof_unmasks : list (list N * list N);
  user_unmasks : list N;
  arch : str;
  accept_kw : list str;                      (* ACCEPT_KEYWORDS token stack, profile then make.conf *)
  prof_kw : list (N * list str);             (* profile package.keywords: keywords ADDED to packages *)
  kw_entries : list entry;                   (* user package.keywords ++ package.accept_keywords
                                                ++ profile package.accept_keywords *)
  accept_lic : list str;                     (* ACCEPT_LICENSE token stack *)
  lic_entries : list (N * list str);         (* user package.license *)
  groups : list (str * list str);            (* closed license groups (Licenses.groups) *)
  use : list N }.                            (* enabled USE flags *)

Definition nmem (x : N) (l : list N) : bool := existsb (N.eqb x) l.

(* ------------------------------------------------------------------ masks (filter_repo) *)
(* masks.difference_update(neg); masks.update(pos) *)
Definition mask_step (s : list N) (np : list N * list N) : list N :=
  filter (fun x => negb (nmem x (fst np))) s ++ snd np.
Definition mask_set (c : config) : list N :=
  fold_left mask_step (([], repo_masks c) :: prof_masks c) [] ++ user_masks c.
Definition unmask_set (c : config) : list N :=
  fold_left mask_step (prof_unmasks c) [] ++ user_unmasks c.
(* apply_mask_filter: some restriction of the set matches the package *)
Definition hits (p : pkg) (s : list N) : bool := existsb (fun a => nmem a (p_match p)) s.
(* generate_filter: `if masking:` / `if unmasking:` test restriction objects, whose len() is 1,
   so the OrRestriction(not masked, unmasked) is always built *)
Definition mask_ok (c : config) (p : pkg) : bool :=
  negb (hits p (mask_set c)) || hits p (unmask_set c).

(* ------------------------------------------------------------------ keywords *)
Fixpoint lstrip_tilde (s : str) : str :=
  match s with
  | ch :: r => if N.eqb ch TILDE then lstrip_tilde r else s
  | [] => []
  end.
Definition starts_tilde (s : str) : bool :=
  match s with ch :: _ => N.eqb ch TILDE | [] => false end.

(* settings["ACCEPT_KEYWORDS"] = incremental_expansion(stack) *)
Definition accept_set (c : config) : res := expand true (accept_kw c) [].
(* _pkg_filters: default_keywords *)
Definition default_keys_of (c : config) (e : list str) : list str :=
  sunion (sunion [arch c] e) (map lstrip_tilde (filter starts_tilde e)).
Definition unstable_arch (c : config) : str := TILDE :: arch c.

Definition W_ANY : str := [STAR; STAR].       (* "**" *)
Definition W_STABLE : str := [STAR].          (* "*"  *)
Definition W_TESTING : str := [TILDE; STAR].  (* "~*" *)
Definition has_wild (s : list str) : bool := mem W_ANY s || mem W_STABLE s || mem W_TESTING s.

Definition bucket_of (p : pkg) (e : entry) : bucket :=
  let '(k, a, _) := e in
  match k with
  | EAlways => BAlways true
  | ERepo => BRepo | ECat => BCat | EPkg => BPkg | EMulti => BMulti
  | EAtom => BAtom (nmem a (p_key p))
  end.
(* [stable]: `f(r, v)` replaces an empty payload by ~ARCH (fix_empty: as a 1-tuple; pinned: the
   str itself, which a match-all entry extends into `always` character by character while the
   other buckets keep it whole — iflatten_instance does not descend into a str) *)
Definition chars (s : str) : list str := map (fun ch => [ch]) s.
Definition payload (fix_empty stable : bool) (c : config) (e : entry) : list str :=
  let '(k, _, toks) := e in
  (* domain.pkg_accept_keywords / profile._package_keywords_splitter: stable_unique(tokens) *)
  let toks := sunion [] toks in
  if stable && is_nil toks then
    match k with
    | EAlways => if fix_empty then [unstable_arch c] else chars (unstable_arch c)
    | _ => [unstable_arch c]
    end
  else toks.
Definition to_source (fix_empty stable : bool) (c : config) (p : pkg) (e : entry) : source :=
  (bucket_of p e, nmem (snd (fst e)) (p_match p), payload fix_empty stable c e).

(* pkg.keywords + the keywords of matching profile package.keywords entries *)
Definition pkg_keywords (c : config) (p : pkg) : list str :=
  p_kw p ++ concat (map snd (filter (fun e => nmem (fst e) (p_match p)) (prof_kw c))).

Definition first_is (chs : list N) (k : str) : bool :=
  match k with ch :: _ => nmem ch chs | [] => false end.
Definition kw_stable (k : str) : bool := negb (first_is [DASH; TILDE] k).   (* k[0] not in "-~" *)
Definition kw_testing (k : str) : bool := first_is [TILDE] k.               (* k[0] == "~" *)

(* _apply_keywords_filter *)
Definition kw_apply (allowed ks : list str) : bool :=
  mem W_ANY allowed
  || (mem W_STABLE allowed && existsb kw_stable ks)
  || (mem W_TESTING allowed && existsb kw_testing ks)
  || existsb (fun k => mem k allowed) ks.

(* the sources handed to (non_incremental_)collapsed_restrict_to_data *)
Definition kw_sources (fix_empty : bool) (c : config) (dk : list str) (p : pkg) : list source :=
  let stable := negb (mem (unstable_arch c) dk) in
  (BAlways true, true, dk) :: map (to_source fix_empty stable c p) (kw_entries c).

(* the set pull_data returns for the package; the error of the global part (defaults) is raised
   while the filter is BUILT, so it is the same for every package *)
Definition kw_allowed (fix_empty : bool) (c : config) (dk : list str) (p : pkg) : res :=
  let srcs := kw_sources fix_empty c dk p in
  if mem (unstable_arch c) dk then non_incremental_pull srcs else pull_data true srcs [].

(* _make_keywords_filter + _apply_keywords_filter for one package *)
Definition kw_ok (fix_empty fix_wild : bool) (c : config) (dk : list str) (p : pkg) : res + bool :=
  if is_nil (kw_entries c) && is_nil (prof_kw c) && negb (fix_wild && has_wild dk) then
    inr (existsb (fun k => mem k dk) (p_kw p))       (* ContainmentMatch(default_keys) on keywords *)
  else
    match kw_allowed fix_empty c dk p with
    | Ok allowed => inr (kw_apply allowed (pkg_keywords c p))
    | Fail e => inl (Fail e)
    end.

(* ------------------------------------------------------------------ LICENSE *)
Fixpoint has_cond (t : ltree) : bool :=
  match t with
  | LLic _ => false
  | LAll cs | LAny cs => existsb has_cond cs
  | LUse _ _ _ => true
  end.
Fixpoint plain (t : ltree) : etree :=
  match t with
  | LLic l => ELic l
  | LAll cs => EAll (map plain cs)
  | LAny cs => EAny (map plain cs)
  | LUse _ _ cs => EAll (map plain cs)      (* not used: only applied when has_cond = false *)
  end.

(* boolean.base.evaluate_conditionals: what a node appends to its parent's sequence.
   [par_any] = the parent is an OrRestriction (otherwise And / DepSet).  Empty results are wiped;
   a node of the parent's own kind, or with at most one child left, is spliced in. *)
Definition one_or_less {A} (l : list A) : bool :=
  match l with [] | [_] => true | _ => false end.
Definition place_all (par_any : bool) (l : list etree) : list etree :=
  if is_nil l then [] else if par_any then (if one_or_less l then l else [EAll l]) else l.
Definition place_any (par_any : bool) (l : list etree) : list etree :=
  if is_nil l then [] else if par_any then l else (if one_or_less l then l else [EAny l]).
Fixpoint ev (u : list N) (par_any : bool) (t : ltree) : list etree :=
  match t with
  | LLic l => [ELic l]
  | LAll cs => place_all par_any (flat_map (ev u false) cs)
  | LAny cs => place_any par_any (flat_map (ev u true) cs)
  | LUse neg f cs =>
      (* Conditional.evaluate_conditionals: payload re-wrapped in an AndRestriction *)
      if xorb (nmem f u) neg
      then (if is_nil cs then [] else place_all par_any (flat_map (ev u false) cs))
      else []
  end.
(* DepSet.evaluate_depset: untouched when there is no conditional, else force_collapse *)
Definition evaluate (u : list N) (ts : list ltree) : etree :=
  if existsb has_cond ts then EAll (flat_map (ev u false) ts) else EAll (map plain ts).

(* AndRestriction.iter_dnf_solutions: product of the optionals, `def f(arg, *others)` *)
Definition lclause := list str.
Definition cross (a b : list lclause) : list lclause :=
  flat_map (fun n => map (fun n2 => n ++ n2) b) a.
Fixpoint product (a : list lclause) (others : list (list lclause)) : list lclause :=
  match others with
  | [] => a
  | o :: os => cross a (product o os)
  end.
(* the hardreqs / optionals loop; each child comes with (is it a plain string?, its dnf) *)
Fixpoint and_loop (hard : lclause) (opts : list (list lclause)) (l : list (option str * list lclause))
  : list lclause :=
  match l with
  | [] => product [hard] opts
  | (Some s, _) :: l' => and_loop (hard ++ [s]) opts l'
  | (None, [cl]) :: l' => and_loop (hard ++ cl) opts l'
  | (None, s2) :: l' => and_loop hard (opts ++ [s2]) l'
  end.
Definition leaf_of (t : etree) : option str := match t with ELic l => Some l | _ => None end.
Fixpoint ldnf (t : etree) : list lclause :=
  match t with
  | ELic l => [[l]]
  | EAll cs => match cs with
               | [] => [[]]
               | _ => and_loop [] [] (map (fun ch => (leaf_of ch, ldnf ch)) cs)
               end
  | EAny cs => match cs with
               | [] => [[]]
               | _ => flat_map ldnf cs      (* a string child yields [x] = ldnf (ELic x) *)
               end
  end.

(* _apply_license_filter *)
Definition lic_tokens (c : config) (p : pkg) : list str :=
  accept_lic c
  ++ concat (map (fun e => sunion [] (snd e))      (* domain.pkg_licenses: stable_unique *)
                 (filter (fun e => nmem (fst e) (p_match p)) (lic_entries c))).
Fixpoint lic_scan (c : config) (toks : list str) (cls : list lclause) : res + bool :=
  match cls with
  | [] => inr false
  | cl :: r =>
      match expand_license cl (groups c) toks with
      | Fail e => inl (Fail e)
      | Ok acc => if forallb (fun l => mem l acc) cl then inr true else lic_scan c toks r
      end
  end.
(* _pkg_filters installs the license filter only if ACCEPT_LICENSE or package.license has content *)
Definition lic_active (c : config) : bool := negb (is_nil (accept_lic c) && is_nil (lic_entries c)).
Definition lic_ok (c : config) (p : pkg) : res + bool :=
  if lic_active c then lic_scan c (lic_tokens c p) (ldnf (evaluate (use c) (p_lic p)))
  else inr true.

(* ------------------------------------------------------------------ visibility *)
Inductive vres : Type := Visible (b : bool) | Raises.     (* Raises = ValueError *)

(* filtered.tree(repo, AndRestriction(Or(not masked, unmasked), keywords, license)).
   Building the filter expands ACCEPT_KEYWORDS and the match-all entries (errors there hit
   every package); matching short-circuits left to right. *)
Definition build_fails (fix_empty fix_wild : bool) (c : config) (dk : list str) (p : pkg) : bool :=
  if is_nil (kw_entries c) && is_nil (prof_kw c) && negb (fix_wild && has_wild dk) then false
  else match defaults true (collapse (kw_sources fix_empty c dk p)) with Ok _ => false | Fail _ => true end.

Definition visible_with (fix_empty fix_wild : bool) (c : config) (p : pkg) : vres :=
  match accept_set c with
  | Fail _ => Raises
  | Ok e =>
      let dk := default_keys_of c e in
      if build_fails fix_empty fix_wild c dk p then Raises
      else if negb (mask_ok c p) then Visible false
      else match kw_ok fix_empty fix_wild c dk p with
           | inl _ => Raises
           | inr false => Visible false
           | inr true =>
               match lic_ok c p with
               | inl _ => Raises
               | inr b => Visible b
               end
           end
  end.
Definition visible := visible_with true true.          (* the repaired tree *)
Definition visible_pinned := visible_with false false.  (* the pinned tree *)

(* ------------------------------------------------------------------ encoders for the harness *)
Definition VALUE_ERROR : str := [86;97;108;117;101;69;114;114;111;114]%N.   (* "ValueError" *)
Definition enc_vres (r : vres) : val :=
  match r with Visible b => VB b | Raises => VErr VALUE_ERROR end.

(* one case = one configuration and the packages of one repository *)
Definition world : Type := (config * list pkg)%type.
Definition run_world (w : world) : val := VL (map (fun p => enc_vres (visible (fst w) p)) (snd w)).
Definition run_world_pinned (w : world) : val :=
  VL (map (fun p => enc_vres (visible_pinned (fst w) p)) (snd w)).
(* the three conjuncts separately (the filter functions called directly, no short circuit) *)
Definition enc_rb (r : res + bool) : val :=
  match r with inr b => VB b | inl _ => VErr VALUE_ERROR end.
Definition run_parts_with (fe fw : bool) (w : world) : val :=
  let c := fst w in
  match accept_set c with
  | Fail _ => VErr VALUE_ERROR
  | Ok e =>
      let dk := default_keys_of c e in
      if existsb (build_fails fe fw c dk) (snd w) then VErr VALUE_ERROR
      else VL (map (fun p => VL [VB (mask_ok c p); enc_rb (kw_ok fe fw c dk p); enc_rb (lic_ok c p)]) (snd w))
  end.
Definition run_both (w : world) : val := VL [run_world w; run_parts_with true true w].
Definition run_both_pinned (w : world) : val := VL [run_world_pinned w; run_parts_with false false w].
