import os, sys, random, shutil, time, subprocess
sys.path.insert(0, "/verif")
from harness import c32
from harness.common import Check, Raw
chk=Check("C32x"); rng=random.Random("t")
cases=[]
for i in range(40):
    w,down,meta=c32.gen_session(rng,str(chk.scratch),i)
    res=w.run(down); wire,consumed,end,snap,left=res
    cases.append((w.case_term(down), Raw(c32.rval([wire,consumed,end,";".join(snap),left]))))
    shutil.rmtree(w.top)
chk.coq_eval("sess",c32.IMPORTS,"bstr",cases,["mismatches run_session cases"], shard=40)
shutil.copy(chk.scratch/"cases_sess_0.v","/verif/chk.scratch/c32/cases_sess_0.v")
shutil.rmtree(chk.scratch, ignore_errors=True)
