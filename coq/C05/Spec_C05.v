(* Spec_C05.v — the statement of C05.  "Matching" is the MODEL's own matching function of C04
   ([atom_match], what the implementation matches), as the property says:
     symmetric   : intersects a b = intersects b a
     complete    : (exists p, M a p /\ M b p) -> intersects a b = true
     witnessed   : intersects a b = true -> exists p, M a p /\ M b p                       *)
From Coq Require Import List NArith ZArith Bool.
Import ListNotations.
From Verif Require Import Base.Val C01.Model_C01 C04.Model_C04 C04.Spec_C04 C05.Model_C05.

Section Spec.
Variable vc : str -> option N -> str -> option N -> Z.

Definition M (a : atom) (p : package) : Prop := atom_match vc a p = true.

Definition symmetric_stmt : Prop := forall a b, intersects vc a b = intersects vc b a.
Definition complete_stmt : Prop :=
  forall a b, (exists p, M a p /\ M b p) -> intersects vc a b = true.
Definition witnessed_stmt : Prop :=
  forall a b, intersects vc a b = true -> exists p, M a p /\ M b p.

(* the version restriction of an atom alone, on a package's (version, revision, fullver) *)
Definition Mv (a : atom) (v : str) (r : option N) (fv : str) : bool :=
  match a_fullver a with
  | None => true
  | Some g => if N.eqb (a_op a) 6 then startswith fv g
              else vmatch vc (a_op a) false (a_ver a) (a_rev a) v r
  end.
End Spec.

(* shape of a parsed atom, as in C04, plus: `~` never carries a revision *)
Definition wf5 (a : atom) : bool :=
  wf_atom a && (negb (N.eqb (a_op a) 5) || negb (is_some (a_rev a))).
