(* Prop_C15.v — the property theorems of C15 and nothing else. *)
From Coq Require Import List NArith ZArith Bool.
Import ListNotations.
From Verif Require Import Base.Val C15.Model_C15 C15.Spec_C15 C15.Proofs_C15 gen.Tables_choice_point.

(* a plan the checker accepts satisfies the statement: targets met, every clause of the five
   dependency classes of every merged package has a satisfied alternative, at most one package
   per (key, slot), nothing matched by a blocker of another planned package *)
Theorem check_plan_sound : forall c, check_plan c = true -> ValidPlan c.
Proof. exact check_plan_sound_proof. Qed.
Print Assumptions check_plan_sound.

(* and a plan it rejects really violates the statement *)
Theorem check_plan_complete : forall c, ValidPlan c -> check_plan c = true.
Proof. exact check_plan_complete_proof. Qed.
Print Assumptions check_plan_complete.

(* the rejection names the clause of the statement that fails *)
Theorem check_plan_why_correct : forall c,
  match check_plan_why c with
  | 0%N => ValidPlan c
  | 1%N => ~ OpsOk c (installed c) (cops c)
  | 2%N => ~ TargetsMet c
  | 3%N => ~ DepsClosed c
  | 4%N => ~ SlotsUnique c
  | _ => ~ NoBlocked c
  end.
Proof. exact check_plan_why_proof. Qed.
Print Assumptions check_plan_why_correct.

(* the final state is a set *)
Theorem final_state_nodup : forall c, NoDup (final_state c).
Proof. exact final_state_nodup_proof. Qed.
Print Assumptions final_state_nodup.

(* choice_point.py as it is today: each dependency class reads its own attribute, and all five
   iterators are filtered by reduce_atoms (table regenerated from the source on every run) *)
Theorem each_class_reads_its_own_attribute :
  (forall cl, In cl five_classes -> reads cl = Some cl)
  /\ (forall cl, In cl five_classes -> exists slot, assoc cl prop_slots = Some slot /\ In slot reduce_names).
Proof. exact each_class_reads_its_own_attribute_proof. Qed.
Print Assumptions each_class_reads_its_own_attribute.
